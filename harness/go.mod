module wsverif/harness

go 1.21

require (
	github.com/gobwas/httphead v0.1.0
	github.com/gobwas/pool v0.2.1
	github.com/gobwas/ws v0.0.0
)

replace github.com/gobwas/ws => /repo
