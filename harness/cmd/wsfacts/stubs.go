package main

func genFacts(pkgs []*pkgInfo) string { return "/- GENERATED -/\nimport WsVerif.Base\n" }
