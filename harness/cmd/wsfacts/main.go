// wsfacts: tie 1. Re-reads gobwas/ws's working tree with go/parser (no type checker, stdlib only)
// and regenerates lean/WsVerif/Gen/*.lean:
//   Consts.lean — every integer constant, iota group and byte/int table the theorems depend on;
//   Funcs.lean  — a mechanical translation of the small pure decision functions;
//   Facts.lean  — structural facts (struct fields, fields assigned by Reset methods, unsafe-cast
//                 call sites, pool Get/Put pairing), compared in Lean with hand-written expectations.
// Usage: wsfacts <repo> <outdir>
package main

import (
	"fmt"
	"go/ast"
	"go/parser"
	"go/token"
	"math/big"
	"os"
	"path/filepath"
	"sort"
	"strings"
)

type pkgInfo struct {
	name  string // ws, wsutil, wsflate
	dir   string
	files []*ast.File
	fset  *token.FileSet
}

func loadPkg(repo, sub, name string) *pkgInfo {
	fset := token.NewFileSet()
	dir := filepath.Join(repo, sub)
	ents, err := os.ReadDir(dir)
	if err != nil {
		fatal(err)
	}
	p := &pkgInfo{name: name, dir: dir, fset: fset}
	for _, e := range ents {
		n := e.Name()
		if e.IsDir() || !strings.HasSuffix(n, ".go") || strings.HasSuffix(n, "_test.go") {
			continue
		}
		f, err := parser.ParseFile(fset, filepath.Join(dir, n), nil, parser.ParseComments)
		if err != nil {
			fatal(err)
		}
		if f.Name.Name != name {
			continue
		}
		// honour the default build (no purego tag): skip files constrained to purego
		skip := false
		for _, cg := range f.Comments {
			for _, c := range cg.List {
				if strings.HasPrefix(c.Text, "//go:build") && strings.Contains(c.Text, "purego") && !strings.Contains(c.Text, "!purego") {
					skip = true
				}
			}
		}
		if skip {
			continue
		}
		p.files = append(p.files, f)
	}
	return p
}

func fatal(v interface{}) {
	fmt.Fprintln(os.Stderr, "wsfacts:", v)
	os.Exit(1)
}

// ---------- constant evaluation ----------

type cval struct {
	v   *big.Int
	typ string // "" = untyped
}

var unsignedBits = map[string]uint{"uint8": 8, "byte": 8, "uint16": 16, "uint32": 32, "uint64": 64, "uint": 64,
	"OpCode": 8, "State": 8, "StatusCode": 16, "WindowBits": 8}
var signedBits = map[string]uint{"int": 64, "int64": 64, "int32": 32}

type constEnv struct {
	vals map[string]cval
	iota int64
}

func (e *constEnv) eval(x ast.Expr) (cval, bool) {
	switch x := x.(type) {
	case *ast.BasicLit:
		switch x.Kind {
		case token.INT:
			v, ok := new(big.Int).SetString(x.Value, 0)
			return cval{v, ""}, ok
		case token.CHAR:
			s := x.Value
			if len(s) == 3 {
				return cval{big.NewInt(int64(s[1])), ""}, true
			}
		}
		return cval{}, false
	case *ast.Ident:
		if x.Name == "iota" {
			return cval{big.NewInt(e.iota), ""}, true
		}
		v, ok := e.vals[x.Name]
		return v, ok
	case *ast.ParenExpr:
		return e.eval(x.X)
	case *ast.UnaryExpr:
		a, ok := e.eval(x.X)
		if !ok {
			return a, false
		}
		switch x.Op {
		case token.XOR:
			if w, ok := unsignedBits[a.typ]; ok {
				m := new(big.Int).Sub(new(big.Int).Lsh(big.NewInt(1), w), big.NewInt(1))
				return cval{new(big.Int).Xor(a.v, m), a.typ}, true
			}
			return cval{new(big.Int).Not(a.v), a.typ}, true
		case token.SUB:
			return cval{new(big.Int).Neg(a.v), a.typ}, true
		case token.ADD:
			return a, true
		}
	case *ast.BinaryExpr:
		a, ok1 := e.eval(x.X)
		b, ok2 := e.eval(x.Y)
		if !ok1 || !ok2 {
			return cval{}, false
		}
		t := a.typ
		if t == "" {
			t = b.typ
		}
		r := new(big.Int)
		switch x.Op {
		case token.ADD:
			r.Add(a.v, b.v)
		case token.SUB:
			r.Sub(a.v, b.v)
		case token.MUL:
			r.Mul(a.v, b.v)
		case token.QUO:
			r.Quo(a.v, b.v)
		case token.SHL:
			r.Lsh(a.v, uint(b.v.Uint64()))
			t = a.typ
		case token.SHR:
			r.Rsh(a.v, uint(b.v.Uint64()))
			t = a.typ
		case token.OR:
			r.Or(a.v, b.v)
		case token.AND:
			r.And(a.v, b.v)
		case token.XOR:
			r.Xor(a.v, b.v)
		default:
			return cval{}, false
		}
		if w, ok := unsignedBits[t]; ok {
			m := new(big.Int).Sub(new(big.Int).Lsh(big.NewInt(1), w), big.NewInt(1))
			r.And(r, m)
		}
		return cval{r, t}, true
	case *ast.CallExpr:
		if id, ok := x.Fun.(*ast.Ident); ok && len(x.Args) == 1 {
			_, u := unsignedBits[id.Name]
			_, s := signedBits[id.Name]
			if u || s {
				a, ok := e.eval(x.Args[0])
				if !ok {
					return a, false
				}
				v := new(big.Int).Set(a.v)
				if w, ok := unsignedBits[id.Name]; ok {
					m := new(big.Int).Sub(new(big.Int).Lsh(big.NewInt(1), w), big.NewInt(1))
					v.And(v, m)
				}
				return cval{v, id.Name}, true
			}
		}
	}
	return cval{}, false
}

// funcKey names a function or method: Recv_Name or Name.
func funcKey(fd *ast.FuncDecl) string {
	if fd.Recv != nil && len(fd.Recv.List) == 1 {
		t := fd.Recv.List[0].Type
		if st, ok := t.(*ast.StarExpr); ok {
			t = st.X
		}
		if id, ok := t.(*ast.Ident); ok {
			return id.Name + "_" + fd.Name.Name
		}
	}
	return fd.Name.Name
}

func leanType(goType string) string {
	switch goType {
	case "bool":
		return "Bool"
	case "int", "int64", "int32":
		return "Int"
	case "byte", "uint8", "uint16", "uint32", "uint64", "uint", "OpCode", "State", "StatusCode", "WindowBits":
		return "Nat"
	case "string":
		return "Ws.Bytes"
	case "error":
		return "Option String"
	case "Header", "ws.Header":
		return "Header"
	case "StatusCodeRange":
		return "StatusCodeRange"
	}
	return ""
}

type constDecl struct {
	name string
	val  cval
}

// collectConsts evaluates every const declaration of a package it can (in source order).
func collectConsts(p *pkgInfo) ([]constDecl, *constEnv) {
	env := &constEnv{vals: map[string]cval{}}
	var out []constDecl
	handle := func(gd *ast.GenDecl) {
		var lastExprs []ast.Expr
		var lastType string
		for i, sp := range gd.Specs {
			vs := sp.(*ast.ValueSpec)
			env.iota = int64(i)
			exprs := vs.Values
			typ := ""
			if vs.Type != nil {
				if id, ok := vs.Type.(*ast.Ident); ok {
					typ = id.Name
				}
			}
			if len(exprs) == 0 {
				exprs = lastExprs
				if typ == "" {
					typ = lastType
				}
			} else {
				lastExprs = exprs
				lastType = typ
			}
			for j, nm := range vs.Names {
				if nm.Name == "_" || j >= len(exprs) {
					continue
				}
				v, ok := env.eval(exprs[j])
				if !ok {
					continue
				}
				if typ != "" {
					v.typ = typ
					if w, ok := unsignedBits[typ]; ok {
						m := new(big.Int).Sub(new(big.Int).Lsh(big.NewInt(1), w), big.NewInt(1))
						v.v = new(big.Int).And(v.v, m)
					}
				}
				env.vals[nm.Name] = v
				out = append(out, constDecl{nm.Name, v})
			}
		}
	}
	for _, f := range p.files {
		for _, d := range f.Decls {
			if gd, ok := d.(*ast.GenDecl); ok && gd.Tok == token.CONST {
				handle(gd)
			}
		}
	}
	// function-local const blocks (headerSeen..., *Seen flags): exported as <Func>__<name>.
	for _, f := range p.files {
		for _, d := range f.Decls {
			fd, ok := d.(*ast.FuncDecl)
			if !ok || fd.Body == nil {
				continue
			}
			fname := funcKey(fd)
			ast.Inspect(fd.Body, func(n ast.Node) bool {
				ds, ok := n.(*ast.DeclStmt)
				if !ok {
					return true
				}
				gd, ok := ds.Decl.(*ast.GenDecl)
				if !ok || gd.Tok != token.CONST {
					return true
				}
				glob := env
				loc := &constEnv{vals: map[string]cval{}}
				for k, v := range glob.vals {
					loc.vals[k] = v
				}
				env = loc
				before := len(out)
				handle(gd)
				for k := before; k < len(out); k++ {
					out[k].name = fname + "__" + out[k].name
				}
				env = glob
				return true
			})
		}
	}
	return out, env
}

// collectTables extracts `var x = [...]T{ints}` tables.
func collectTables(p *pkgInfo, env *constEnv) map[string][]*big.Int {
	res := map[string][]*big.Int{}
	for _, f := range p.files {
		for _, d := range f.Decls {
			gd, ok := d.(*ast.GenDecl)
			if !ok || gd.Tok != token.VAR {
				continue
			}
			for _, sp := range gd.Specs {
				vs := sp.(*ast.ValueSpec)
				for j, nm := range vs.Names {
					if j >= len(vs.Values) {
						continue
					}
					cl, ok := vs.Values[j].(*ast.CompositeLit)
					if !ok {
						continue
					}
					if _, ok := cl.Type.(*ast.ArrayType); !ok {
						continue
					}
					var vals []*big.Int
					good := true
					for _, el := range cl.Elts {
						v, ok := env.eval(el)
						if !ok {
							good = false
							break
						}
						vals = append(vals, v.v)
					}
					if good && len(vals) > 0 {
						res[nm.Name] = vals
					}
				}
			}
		}
	}
	return res
}

func main() {
	if len(os.Args) < 3 {
		fatal("usage: wsfacts <repo> <outdir>")
	}
	repo, outdir := os.Args[1], os.Args[2]
	pkgs := []*pkgInfo{loadPkg(repo, ".", "ws"), loadPkg(repo, "wsutil", "wsutil"), loadPkg(repo, "wsflate", "wsflate")}

	var sb strings.Builder
	sb.WriteString("/- GENERATED by harness/cmd/wsfacts from /repo's working tree. Do not edit. -/\n")
	sb.WriteString("import WsVerif.Base\nnamespace Gen\n\n")
	envs := map[string]*constEnv{}
	for _, p := range pkgs {
		consts, env := collectConsts(p)
		envs[p.name] = env
		sort.SliceStable(consts, func(i, j int) bool { return consts[i].name < consts[j].name })
		seen := map[string]bool{}
		for _, c := range consts {
			if seen[c.name] {
				continue
			}
			seen[c.name] = true
			lt := leanType(c.val.typ)
			if lt == "" || lt == "Bool" || lt == "Ws.Bytes" {
				lt = "Int"
				if c.val.v.Sign() >= 0 {
					lt = "Nat"
				}
			}
			if lt == "Nat" && c.val.v.Sign() < 0 {
				lt = "Int"
			}
			fmt.Fprintf(&sb, "def %s_%s : %s := %s\n", p.name, c.name, lt, c.val.v.String())
		}
		tabs := collectTables(p, env)
		var names []string
		for n := range tabs {
			names = append(names, n)
		}
		sort.Strings(names)
		for _, n := range names {
			fmt.Fprintf(&sb, "def %s_%s : List Nat := [", p.name, n)
			for i, v := range tabs[n] {
				if i > 0 {
					sb.WriteString(", ")
				}
				sb.WriteString(v.String())
			}
			sb.WriteString("]\n")
		}
		sb.WriteString("\n")
	}
	sb.WriteString("end Gen\n")
	writeIfChanged(filepath.Join(outdir, "Consts.lean"), sb.String())

	writeIfChanged(filepath.Join(outdir, "Funcs.lean"), genFuncs(pkgs, envs))
	writeIfChanged(filepath.Join(outdir, "Facts.lean"), genFacts(pkgs))
	writeIfChanged(filepath.Join(outdir, "Strings.lean"), genStrings(pkgs))
}

func writeIfChanged(path, content string) {
	old, err := os.ReadFile(path)
	if err == nil && string(old) == content {
		return
	}
	if err := os.WriteFile(path, []byte(content), 0o644); err != nil {
		fatal(err)
	}
}
