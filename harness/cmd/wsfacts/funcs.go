package main

// Mechanical translation of small pure Go functions into Lean definitions.
// Supported subset: if / switch (tagged and tagless) / return / simple and compound assignment /
// var declarations / tuple assignment from a call / field assignment / calls to other translated
// functions and methods; integer, boolean and bitwise expressions; struct literals.
// Anything else makes the translation of that function fail; the failure is recorded in the
// generated file as `-- UNTRANSLATED <name>: <reason>` and the Bridge lemma for it cannot be built.

import (
	"fmt"
	"go/ast"
	"go/token"
	"strings"
)

var targets = []struct{ pkg, key string }{
	{"ws", "OpCode_IsControl"}, {"ws", "OpCode_IsData"}, {"ws", "OpCode_IsReserved"},
	{"ws", "State_Is"}, {"ws", "State_Set"}, {"ws", "State_Clear"},
	{"ws", "State_ServerSide"}, {"ws", "State_ClientSide"}, {"ws", "State_Extended"}, {"ws", "State_Fragmented"},
	{"ws", "StatusCode_In"}, {"ws", "StatusCode_Empty"}, {"ws", "StatusCode_IsNotUsed"},
	{"ws", "StatusCode_IsApplicationSpec"}, {"ws", "StatusCode_IsPrivateSpec"}, {"ws", "StatusCode_IsProtocolSpec"},
	{"ws", "StatusCode_IsProtocolDefined"}, {"ws", "StatusCode_IsProtocolReserved"},
	{"ws", "Header_Rsv1"}, {"ws", "Header_Rsv2"}, {"ws", "Header_Rsv3"}, {"ws", "Rsv"}, {"ws", "RsvBits"},
	{"ws", "HeaderSize"}, {"ws", "CheckHeader"}, {"ws", "CheckCloseFrameData"},
	{"wsutil", "headerSize"}, {"wsutil", "reserve"},
	{"wsflate", "isValidBits"}, {"wsflate", "WindowBits_Defined"},
	{"wsflate", "MessageState_SetCompressed"}, {"wsflate", "MessageState_IsCompressed"},
	{"wsflate", "MessageState_UnsetBits"}, {"wsflate", "MessageState_SetBits"},
}

var structTargets = []struct{ pkg, name string }{
	{"ws", "Header"}, {"ws", "StatusCodeRange"}, {"wsflate", "MessageState"},
}

type trFail struct{ msg string }

func failf(f string, a ...interface{}) { panic(trFail{fmt.Sprintf(f, a...)}) }

type translator struct {
	pkgs    map[string]*pkgInfo
	envs    map[string]*constEnv
	funcs   map[string]*ast.FuncDecl // pkg.key -> decl
	methods map[string][]string      // method name -> []pkg.key
	structs map[string]*ast.StructType
	vars    map[string]ast.Expr // pkg.name -> initializer
	mutates map[string]bool     // pkg.key of pointer-receiver methods that modify the receiver
	done    map[string]bool     // translated OK

	// per function
	pkg    string
	recv   string            // receiver variable if mutating pointer method
	types  map[string]string // local name -> go type
	named  []string          // named results
	nres   int
}

func goTypeName(e ast.Expr) string {
	switch t := e.(type) {
	case *ast.Ident:
		return t.Name
	case *ast.SelectorExpr:
		return t.Sel.Name
	case *ast.StarExpr:
		return goTypeName(t.X)
	case *ast.ArrayType:
		return "[]" + goTypeName(t.Elt)
	}
	return "?"
}

func (t *translator) leanTypeOf(e ast.Expr) string {
	n := goTypeName(e)
	if strings.HasPrefix(n, "[]") {
		return "List Nat"
	}
	if n == "MessageState" {
		return "MessageState"
	}
	lt := leanType(n)
	if lt == "" {
		failf("unsupported type %s", n)
	}
	return lt
}

func zeroOf(lt string) string {
	switch lt {
	case "Bool":
		return "false"
	case "Nat", "Int":
		return "0"
	case "Option String":
		return "none"
	case "Ws.Bytes", "List Nat":
		return "[]"
	}
	return "default"
}

func (t *translator) constRef(pkg, name string) (string, bool) {
	env := t.envs[pkg]
	if env == nil {
		return "", false
	}
	v, ok := env.vals[name]
	if !ok {
		return "", false
	}
	if v.typ == "" {
		if v.v.Sign() < 0 {
			return "(" + v.v.String() + ")", true
		}
		return v.v.String(), true
	}
	return pkg + "_" + name, true
}

func (t *translator) expr(e ast.Expr) string {
	switch x := e.(type) {
	case *ast.ParenExpr:
		return "(" + t.expr(x.X) + ")"
	case *ast.BasicLit:
		if x.Kind == token.INT {
			return x.Value
		}
		if x.Kind == token.CHAR && len(x.Value) == 3 {
			return fmt.Sprint(int(x.Value[1]))
		}
		failf("literal %s", x.Value)
	case *ast.Ident:
		switch x.Name {
		case "true", "false":
			return x.Name
		case "nil":
			return "none"
		}
		if _, ok := t.types[x.Name]; ok {
			return lname(x.Name)
		}
		if s, ok := t.constRef(t.pkg, x.Name); ok {
			return s
		}
		if strings.HasPrefix(x.Name, "Err") {
			return "(some \"" + x.Name + "\")"
		}
		if _, ok := t.vars[t.pkg+"."+x.Name]; ok {
			return t.pkg + "_" + x.Name
		}
		failf("unknown identifier %s", x.Name)
	case *ast.SelectorExpr:
		if id, ok := x.X.(*ast.Ident); ok {
			if _, isLocal := t.types[id.Name]; !isLocal {
				if _, isPkg := t.pkgs[id.Name]; isPkg {
					if s, ok := t.constRef(id.Name, x.Sel.Name); ok {
						return s
					}
					if strings.HasPrefix(x.Sel.Name, "Err") {
						return "(some \"" + x.Sel.Name + "\")"
					}
					return id.Name + "_" + x.Sel.Name
				}
			}
		}
		return t.expr(x.X) + "." + x.Sel.Name
	case *ast.UnaryExpr:
		switch x.Op {
		case token.NOT:
			return "(!" + t.expr(x.X) + ")"
		case token.SUB:
			return "(-" + t.expr(x.X) + ")"
		case token.XOR:
			if id, ok := x.X.(*ast.Ident); ok {
				if w, ok := unsignedBits[t.types[id.Name]]; ok {
					return fmt.Sprintf("(%d - %s)", (uint64(1)<<w)-1, lname(id.Name))
				}
			}
			failf("bitwise not on untyped operand")
		}
		failf("unary %s", x.Op)
	case *ast.BinaryExpr:
		a, b := t.expr(x.X), t.expr(x.Y)
		switch x.Op {
		case token.LAND:
			return "(" + a + " && " + b + ")"
		case token.LOR:
			return "(" + a + " || " + b + ")"
		case token.EQL:
			return "(" + a + " == " + b + ")"
		case token.NEQ:
			return "(" + a + " != " + b + ")"
		case token.LSS:
			return "(decide (" + a + " < " + b + "))"
		case token.LEQ:
			return "(decide (" + a + " ≤ " + b + "))"
		case token.GTR:
			return "(decide (" + a + " > " + b + "))"
		case token.GEQ:
			return "(decide (" + a + " ≥ " + b + "))"
		case token.ADD:
			return "(" + a + " + " + b + ")"
		case token.SUB:
			return "(" + a + " - " + b + ")"
		case token.MUL:
			return "(" + a + " * " + b + ")"
		case token.AND:
			return "(" + a + " &&& " + b + ")"
		case token.OR:
			return "(" + a + " ||| " + b + ")"
		case token.SHL:
			return "(" + a + " <<< " + b + ")"
		case token.SHR:
			return "(" + a + " >>> " + b + ")"
		}
		failf("binary %s", x.Op)
	case *ast.CompositeLit:
		tn := goTypeName(x.Type)
		if _, ok := t.structs[tn]; !ok {
			failf("composite literal of %s", tn)
		}
		var fs []string
		for _, el := range x.Elts {
			kv, ok := el.(*ast.KeyValueExpr)
			if !ok {
				failf("positional composite literal")
			}
			fs = append(fs, kv.Key.(*ast.Ident).Name+" := "+t.expr(kv.Value))
		}
		if len(fs) == 0 {
			return "(default : " + tn + ")"
		}
		return "{ (default : " + tn + ") with " + strings.Join(fs, ", ") + " }"
	case *ast.CallExpr:
		return t.call(x)
	}
	failf("expression %T", e)
	return ""
}

func lname(n string) string {
	switch n {
	case "end", "at", "from", "to", "then", "fun", "do", "have", "show", "open", "in":
		return n + "'"
	}
	return n
}

func (t *translator) call(x *ast.CallExpr) string {
	var args []string
	for _, a := range x.Args {
		args = append(args, t.expr(a))
	}
	switch f := x.Fun.(type) {
	case *ast.Ident:
		switch f.Name {
		case "int", "int64", "int32":
			return "((" + args[0] + " : Int))"
		case "byte", "uint8", "uint16", "uint32", "uint64", "uint", "OpCode", "State", "StatusCode", "WindowBits":
			return "((" + args[0] + " : Nat))"
		case "len":
			if sel, ok := x.Args[0].(*ast.SelectorExpr); ok {
				for _, st := range t.structs {
					for _, fl := range st.Fields.List {
						for _, nm := range fl.Names {
							if nm.Name == sel.Sel.Name {
								if at, ok := fl.Type.(*ast.ArrayType); ok && at.Len != nil {
									if bl, ok := at.Len.(*ast.BasicLit); ok {
										return bl.Value
									}
								}
							}
						}
					}
				}
			}
			failf("len of non-array field")
		}
		key := t.pkg + "." + f.Name
		if !t.done[key] {
			failf("call to untranslated function %s", f.Name)
		}
		return "(" + t.pkg + "_" + f.Name + " " + strings.Join(args, " ") + ")"
	case *ast.SelectorExpr:
		// pkg.Func(...)?
		if id, ok := f.X.(*ast.Ident); ok {
			if _, isLocal := t.types[id.Name]; !isLocal {
				if id.Name == "utf8" && f.Sel.Name == "ValidString" {
					return "(Ext.utf8_ValidString " + args[0] + ")"
				}
				if _, isPkg := t.pkgs[id.Name]; isPkg {
					if !t.done[id.Name+"."+f.Sel.Name] {
						failf("call to untranslated %s.%s", id.Name, f.Sel.Name)
					}
					return "(" + id.Name + "_" + f.Sel.Name + " " + strings.Join(args, " ") + ")"
				}
			}
		}
		// method call
		cands := t.methods[f.Sel.Name]
		var ok []string
		for _, c := range cands {
			if t.done[c] {
				ok = append(ok, c)
			}
		}
		if len(ok) != 1 {
			failf("cannot resolve method %s (%d candidates)", f.Sel.Name, len(ok))
		}
		if t.mutates[ok[0]] {
			failf("mutating method %s used in expression", f.Sel.Name)
		}
		nm := strings.Replace(ok[0], ".", "_", 1)
		return "(" + nm + " " + t.expr(f.X) + " " + strings.Join(args, " ") + ")"
	}
	failf("call form")
	return ""
}

func (t *translator) results(vals []string) string {
	if t.recv != "" {
		vals = append(vals, lname(t.recv))
	}
	if len(vals) == 1 {
		return vals[0]
	}
	return "(" + strings.Join(vals, ", ") + ")"
}

func (t *translator) block(stmts []ast.Stmt, ind string, rest func(string) string) string {
	if len(stmts) == 0 {
		return rest(ind)
	}
	s := stmts[0]
	k := func(ind string) string { return t.block(stmts[1:], ind, rest) }
	switch x := s.(type) {
	case *ast.ReturnStmt:
		if len(x.Results) == 0 {
			var vs []string
			for _, n := range t.named {
				vs = append(vs, lname(n))
			}
			return ind + t.results(vs)
		}
		var vs []string
		for _, r := range x.Results {
			vs = append(vs, t.expr(r))
		}
		return ind + t.results(vs)
	case *ast.BlockStmt:
		return t.block(append(append([]ast.Stmt{}, x.List...), stmts[1:]...), ind, rest)
	case *ast.IfStmt:
		if x.Init != nil {
			failf("if with init")
		}
		c := t.expr(x.Cond)
		thenS := t.block(x.Body.List, ind+"  ", k)
		var elseS string
		switch e := x.Else.(type) {
		case nil:
			elseS = k(ind + "  ")
		case *ast.BlockStmt:
			elseS = t.block(e.List, ind+"  ", k)
		case *ast.IfStmt:
			elseS = t.block([]ast.Stmt{e}, ind+"  ", k)
		}
		return ind + "if " + c + " then\n" + thenS + "\n" + ind + "else\n" + elseS
	case *ast.SwitchStmt:
		if x.Init != nil {
			failf("switch with init")
		}
		var tag string
		if x.Tag != nil {
			tag = t.expr(x.Tag)
		}
		var clauses []*ast.CaseClause
		var def *ast.CaseClause
		for _, c := range x.Body.List {
			cc := c.(*ast.CaseClause)
			if cc.List == nil {
				def = cc
			} else {
				clauses = append(clauses, cc)
			}
			for _, b := range cc.Body {
				if br, ok := b.(*ast.BranchStmt); ok && br.Tok == token.FALLTHROUGH {
					failf("fallthrough")
				}
			}
		}
		var build func(i int, ind string) string
		build = func(i int, ind string) string {
			if i == len(clauses) {
				if def != nil {
					return t.block(def.Body, ind, k)
				}
				return k(ind)
			}
			cc := clauses[i]
			var cs []string
			for _, e := range cc.List {
				if tag != "" {
					cs = append(cs, "("+tag+" == "+t.expr(e)+")")
				} else {
					cs = append(cs, t.expr(e))
				}
			}
			cond := strings.Join(cs, " || ")
			return ind + "if " + cond + " then\n" + t.block(cc.Body, ind+"  ", k) + "\n" + ind + "else\n" + build(i+1, ind+"  ")
		}
		return build(0, ind)
	case *ast.DeclStmt:
		gd := x.Decl.(*ast.GenDecl)
		if gd.Tok == token.CONST {
			return k(ind)
		}
		if gd.Tok != token.VAR {
			failf("decl %s", gd.Tok)
		}
		out := ""
		for _, sp := range gd.Specs {
			vs := sp.(*ast.ValueSpec)
			for i, nm := range vs.Names {
				if vs.Type != nil {
					t.types[nm.Name] = goTypeName(vs.Type)
				} else {
					t.types[nm.Name] = "?"
				}
				var init string
				if i < len(vs.Values) {
					init = t.expr(vs.Values[i])
				} else {
					init = zeroOf(t.leanTypeOf(vs.Type))
				}
				if vs.Type != nil {
					out += fmt.Sprintf("%slet %s : %s := %s\n", ind, lname(nm.Name), t.leanTypeOf(vs.Type), init)
				} else {
					out += fmt.Sprintf("%slet %s := %s\n", ind, lname(nm.Name), init)
				}
			}
		}
		return out + k(ind)
	case *ast.AssignStmt:
		if len(x.Lhs) > 1 && len(x.Rhs) == 1 {
			rhs := t.expr(x.Rhs[0])
			var ns []string
			for _, l := range x.Lhs {
				id, ok := l.(*ast.Ident)
				if !ok {
					failf("tuple assignment to non-identifier")
				}
				if _, ok := t.types[id.Name]; !ok {
					t.types[id.Name] = "?"
				}
				ns = append(ns, lname(id.Name))
			}
			return ind + "match " + rhs + " with\n" + ind + "| (" + strings.Join(ns, ", ") + ") =>\n" + k(ind+"  ")
		}
		if len(x.Lhs) != 1 || len(x.Rhs) != 1 {
			failf("assignment shape")
		}
		rhs := t.expr(x.Rhs[0])
		switch l := x.Lhs[0].(type) {
		case *ast.Ident:
			if l.Name == "_" {
				return k(ind)
			}
			cur := lname(l.Name)
			var v string
			switch x.Tok {
			case token.ASSIGN, token.DEFINE:
				v = rhs
				if _, ok := t.types[l.Name]; !ok {
					t.types[l.Name] = "?"
				}
			case token.ADD_ASSIGN:
				v = "(" + cur + " + " + rhs + ")"
			case token.SUB_ASSIGN:
				v = "(" + cur + " - " + rhs + ")"
			case token.OR_ASSIGN:
				v = "(" + cur + " ||| " + rhs + ")"
			case token.AND_ASSIGN:
				v = "(" + cur + " &&& " + rhs + ")"
			default:
				failf("assign op %s", x.Tok)
			}
			return fmt.Sprintf("%slet %s := %s\n", ind, cur, v) + k(ind)
		case *ast.SelectorExpr:
			base, ok := l.X.(*ast.Ident)
			if !ok || x.Tok != token.ASSIGN {
				failf("field assignment form")
			}
			return fmt.Sprintf("%slet %s := { %s with %s := %s }\n", ind, lname(base.Name), lname(base.Name), l.Sel.Name, rhs) + k(ind)
		}
		failf("assignment target")
	case *ast.ExprStmt:
		// call of a mutating method on a local: x.M(args) => let x := M x args
		if ce, ok := x.X.(*ast.CallExpr); ok {
			if sel, ok := ce.Fun.(*ast.SelectorExpr); ok {
				if base, ok := sel.X.(*ast.Ident); ok {
					for _, c := range t.methods[sel.Sel.Name] {
						if t.done[c] && t.mutates[c] {
							var args []string
							for _, a := range ce.Args {
								args = append(args, t.expr(a))
							}
							nm := strings.Replace(c, ".", "_", 1)
							return fmt.Sprintf("%slet %s := (%s %s %s)\n", ind, lname(base.Name), nm, lname(base.Name), strings.Join(args, " ")) + k(ind)
						}
					}
				}
			}
		}
		failf("expression statement")
	}
	failf("statement %T", s)
	return ""
}

// mutatesRecv: does a pointer-receiver method assign to a receiver field or call a mutating method?
func (t *translator) mutatesRecv(fd *ast.FuncDecl) bool {
	if fd.Recv == nil || len(fd.Recv.List) != 1 || len(fd.Recv.List[0].Names) != 1 {
		return false
	}
	if _, ok := fd.Recv.List[0].Type.(*ast.StarExpr); !ok {
		return false
	}
	rn := fd.Recv.List[0].Names[0].Name
	mut := false
	ast.Inspect(fd.Body, func(n ast.Node) bool {
		switch x := n.(type) {
		case *ast.AssignStmt:
			for _, l := range x.Lhs {
				if sel, ok := l.(*ast.SelectorExpr); ok {
					if id, ok := sel.X.(*ast.Ident); ok && id.Name == rn {
						mut = true
					}
				}
			}
		case *ast.ExprStmt:
			if ce, ok := x.X.(*ast.CallExpr); ok {
				if sel, ok := ce.Fun.(*ast.SelectorExpr); ok {
					if id, ok := sel.X.(*ast.Ident); ok && id.Name == rn {
						for _, c := range t.methods[sel.Sel.Name] {
							if t.mutates[c] {
								mut = true
							}
						}
					}
				}
			}
		}
		return true
	})
	return mut
}

func (t *translator) fn(pkg, key string) (res string) {
	fd := t.funcs[pkg+"."+key]
	if fd == nil {
		return fmt.Sprintf("-- UNTRANSLATED %s_%s: declaration not found\n", pkg, key)
	}
	defer func() {
		if r := recover(); r != nil {
			if f, ok := r.(trFail); ok {
				res = fmt.Sprintf("-- UNTRANSLATED %s_%s: %s\n", pkg, key, f.msg)
				return
			}
			panic(r)
		}
	}()
	t.pkg = pkg
	t.types = map[string]string{}
	t.named = nil
	t.recv = ""
	var params []string
	if fd.Recv != nil && len(fd.Recv.List) == 1 {
		r := fd.Recv.List[0]
		rn := "_recv"
		if len(r.Names) == 1 {
			rn = r.Names[0].Name
		}
		t.types[rn] = goTypeName(r.Type)
		params = append(params, fmt.Sprintf("(%s : %s)", lname(rn), t.leanTypeOf(r.Type)))
		if t.mutatesRecv(fd) {
			t.recv = rn
			t.mutates[pkg+"."+key] = true
		}
	}
	for _, p := range fd.Type.Params.List {
		for _, nm := range p.Names {
			t.types[nm.Name] = goTypeName(p.Type)
			params = append(params, fmt.Sprintf("(%s : %s)", lname(nm.Name), t.leanTypeOf(p.Type)))
		}
	}
	var rts []string
	var pre string
	if fd.Type.Results != nil {
		for _, r := range fd.Type.Results.List {
			lt := t.leanTypeOf(r.Type)
			if len(r.Names) == 0 {
				rts = append(rts, lt)
			}
			for _, nm := range r.Names {
				rts = append(rts, lt)
				if nm.Name != "_" {
					t.named = append(t.named, nm.Name)
					t.types[nm.Name] = goTypeName(r.Type)
					pre += fmt.Sprintf("  let %s : %s := %s\n", lname(nm.Name), lt, zeroOf(lt))
				}
			}
		}
	}
	if t.recv != "" {
		rts = append(rts, t.leanTypeOf(fd.Recv.List[0].Type))
	}
	rt := strings.Join(rts, " × ")
	if rt == "" {
		rt = "Unit"
	}
	body := t.block(fd.Body.List, "  ", func(ind string) string {
		if len(rts) == 0 {
			return ind + "()"
		}
		if t.recv != "" && len(t.named) == 0 && len(rts) == 1 {
			return ind + lname(t.recv)
		}
		failf("missing return")
		return ""
	})
	t.done[pkg+"."+key] = true
	return fmt.Sprintf("def %s_%s %s : %s :=\n%s%s\n", pkg, key, strings.Join(params, " "), rt, pre, body)
}

func genFuncs(pkgs []*pkgInfo, envs map[string]*constEnv) string {
	t := &translator{pkgs: map[string]*pkgInfo{}, envs: envs, funcs: map[string]*ast.FuncDecl{},
		methods: map[string][]string{}, structs: map[string]*ast.StructType{}, vars: map[string]ast.Expr{},
		mutates: map[string]bool{}, done: map[string]bool{}}
	for _, p := range pkgs {
		t.pkgs[p.name] = p
		for _, f := range p.files {
			for _, d := range f.Decls {
				switch x := d.(type) {
				case *ast.FuncDecl:
					if x.Body == nil {
						continue
					}
					k := funcKey(x)
					t.funcs[p.name+"."+k] = x
					if x.Recv != nil {
						t.methods[x.Name.Name] = append(t.methods[x.Name.Name], p.name+"."+k)
					}
				case *ast.GenDecl:
					for _, sp := range x.Specs {
						switch s := sp.(type) {
						case *ast.TypeSpec:
							if st, ok := s.Type.(*ast.StructType); ok {
								for _, tg := range structTargets {
									if tg.pkg == p.name && tg.name == s.Name.Name {
										t.structs[s.Name.Name] = st
									}
								}
							}
						case *ast.ValueSpec:
							if x.Tok == token.VAR {
								for i, nm := range s.Names {
									if i < len(s.Values) {
										t.vars[p.name+"."+nm.Name] = s.Values[i]
									}
								}
							}
						}
					}
				}
			}
		}
	}
	var sb strings.Builder
	sb.WriteString("/- GENERATED by harness/cmd/wsfacts from /repo's working tree. Do not edit. -/\n")
	sb.WriteString("import WsVerif.Gen.Consts\nimport WsVerif.Gen.Ext\nnamespace Gen\nset_option linter.unusedVariables false\n\n")
	for _, st := range structTargets {
		s := t.structs[st.name]
		if s == nil {
			fmt.Fprintf(&sb, "-- UNTRANSLATED struct %s: not found\n", st.name)
			continue
		}
		fmt.Fprintf(&sb, "structure %s where\n", st.name)
		for _, fl := range s.Fields.List {
			lt := "List Nat"
			if _, ok := fl.Type.(*ast.ArrayType); !ok {
				lt = leanType(goTypeName(fl.Type))
			}
			for _, nm := range fl.Names {
				fmt.Fprintf(&sb, "  %s : %s\n", nm.Name, lt)
			}
		}
		sb.WriteString("  deriving DecidableEq, Repr, Inhabited\n\n")
	}
	// package-level struct-valued vars of known struct types (StatusRange*)
	for _, p := range pkgs {
		var names []string
		for k := range t.vars {
			if strings.HasPrefix(k, p.name+".") {
				names = append(names, k)
			}
		}
		sortStrings(names)
		for _, k := range names {
			cl, ok := t.vars[k].(*ast.CompositeLit)
			if !ok || cl.Type == nil {
				continue
			}
			tn := goTypeName(cl.Type)
			if _, ok := t.structs[tn]; !ok {
				continue
			}
			env := envs[p.name]
			var vals []string
			good := true
			for _, el := range cl.Elts {
				v, ok := env.eval(el)
				if !ok {
					good = false
					break
				}
				vals = append(vals, v.v.String())
			}
			if good {
				fmt.Fprintf(&sb, "def %s : %s := ⟨%s⟩\n", strings.Replace(k, ".", "_", 1), tn, strings.Join(vals, ", "))
			}
		}
	}
	sb.WriteString("\n")
	for _, tg := range targets {
		sb.WriteString(t.fn(tg.pkg, tg.key))
		sb.WriteString("\n")
	}
	sb.WriteString("end Gen\n")
	return sb.String()
}

func sortStrings(a []string) {
	for i := 1; i < len(a); i++ {
		for j := i; j > 0 && a[j] < a[j-1]; j-- {
			a[j], a[j-1] = a[j-1], a[j]
		}
	}
}
