package main

// C08: automatic control-frame replies (wsutil.ControlHandler and adapters) and ControlWriter.
//   ctl <entry H|F|M> <state> <opcode> <payload> <maskhex> <seed>
//        H: ControlHandler{Src: bytes.Reader(wire payload)}.Handle(h)      (server side: payload masked on the wire)
//        F: ControlFrameHandler(dst, state)(h, bytes.Reader(plain payload))
//        M: HandleControlMessage(dst, state, Message{op, plain payload})
//   cw  <side> <op> <ctor new|buf:N> <seed> <w:hex|fl>...               ControlWriter write sequences

import (
	"bytes"
	"fmt"
	"io"
	"strconv"
	"strings"

	"github.com/gobwas/ws"
	"github.com/gobwas/ws/wsutil"
)

func init() {
	ops["ctl"] = func(a []string) string {
		st, _ := strconv.Atoi(a[1])
		state := ws.State(st)
		opn, _ := strconv.Atoi(a[2])
		payload := unhx(a[3])
		mask := mask4(a[4])
		seed, _ := strconv.ParseInt(a[5], 10, 64)
		masks := seedMasks(seed, 4)
		d := &recDst{failAt: -1}
		h := ws.Header{Fin: true, OpCode: ws.OpCode(opn), Length: int64(len(payload)), Masked: state.ServerSide()}
		var err error
		// H<k> / F<k>: the payload comes from a plain reader (no WriterTo) in chunks of k bytes
		entry, chunk := a[0], 0
		if i := strings.Index(entry, "k"); i > 0 {
			chunk, _ = strconv.Atoi(entry[i+1:])
			entry = entry[:i]
		}
		// H<f>cut / F<f>cut: the source fails after `cut` bytes of the announced payload
		cut := -1
		if i := strings.Index(entry, "f"); i > 0 {
			cut, _ = strconv.Atoi(entry[i+1:])
			entry = entry[:i]
		}
		// H d k<k> / F d k<k>: as k<k>, but the last chunk arrives TOGETHER with io.EOF (an HTTP body, a TLS record
		// followed by close_notify, iotest.DataErrReader): legal for an io.Reader, and the reply must not differ
		finKind := "E"
		if strings.HasSuffix(entry, "d") {
			finKind, entry = "Ed", entry[:len(entry)-1]
		}
		plainSrc := func(p []byte) io.Reader {
			if cut >= 0 {
				rd, _ := mkReader(append([]byte(nil), p[:cut]...), 0, "F")
				return rd
			}
			if chunk == 0 {
				return bytes.NewReader(p)
			}
			rd, _ := mkReader(append([]byte(nil), p...), chunk, finKind)
			return rd
		}
		switch entry {
		case "H":
			wire := append([]byte(nil), payload...)
			if state.ServerSide() {
				h.Mask = mask
				ws.Cipher(wire, mask, 0)
			}
			err = wsutil.ControlHandler{Src: plainSrc(wire), Dst: d, State: state}.Handle(h)
		case "F":
			err = wsutil.ControlFrameHandler(d, state)(h, plainSrc(payload))
		case "M":
			msg := wsutil.Message{OpCode: ws.OpCode(opn), Payload: payload}
			if state.ServerSide() {
				err = wsutil.HandleClientControlMessage(d, msg)
			} else if state.ClientSide() {
				err = wsutil.HandleServerControlMessage(d, msg)
			} else {
				err = wsutil.HandleControlMessage(d, state, msg)
			}
		}
		return fmt.Sprintf("%s @%s masks=%s", classify(err), writesStr(d.writes), masks)
	}
	ops["cw"] = func(a []string) string {
		st := side(a[0])
		opn, _ := strconv.Atoi(a[1])
		seed, _ := strconv.ParseInt(a[3], 10, 64)
		masks := seedMasks(seed, 8)
		d := &recDst{failAt: -1}
		var cw *wsutil.ControlWriter
		ctor := guard(func() string {
			if a[2] == "new" {
				cw = wsutil.NewControlWriter(d, st, ws.OpCode(opn))
			} else {
				n, _ := strconv.Atoi(strings.TrimPrefix(a[2], "buf:"))
				cw = wsutil.NewControlWriterBuffer(d, st, ws.OpCode(opn), make([]byte, n))
			}
			return "ok"
		})
		if cw == nil {
			return "PANIC@ masks=" + masks
		}
		items := []string{ctor + "@"}
		for _, o := range a[4:] {
			before := len(d.writes)
			f := strings.Split(o, ":")
			res := guard(func() string {
				if f[0] == "w" {
					n, err := cw.Write(unhx(f[1]))
					return fmt.Sprintf("%d,%s", n, classify(err))
				}
				return classify(cw.Flush())
			})
			if strings.HasPrefix(res, "PANIC") {
				items = append(items, "PANIC@")
				break
			}
			var ws_ []string
			for _, wr := range d.writes[before:] {
				ws_ = append(ws_, hx(wr))
			}
			items = append(items, res+"@"+strings.Join(ws_, ","))
		}
		return strings.Join(items, ";") + " masks=" + masks
	}
	register("C08", genC08)
	register("C08", genC08rdd)
}

// genC08rdd: control frames through the read helpers (ReadData and its Client/Server Text/Binary variants,
// ReadMessage): between messages, and BETWEEN THE FRAGMENTS of a message (wanted or being skipped) — the
// reply must be written all the same, a close must be reported.
func genC08rdd(tier string, r *rng) {
	n := 40
	if tier == "thorough" {
		n = 1500
	}
	for i := 0; i < n; i++ {
		for _, server := range []bool{true, false} {
			st := sideOf(server)
			ctl := func() gframe {
				switch r.intn(4) {
				case 0:
					return gframe{true, 0, ws.OpPong, r.bytes(r.intn(10))}
				case 1:
					return gframe{true, 0, ws.OpClose, append([]byte{0x03, 0xe8 + byte(r.intn(4))}, []byte("bye")...)}
				default:
					return gframe{true, 0, ws.OpPing, r.bytes([]int{0, 1, 7, 60, 125}[r.intn(5)])}
				}
			}
			text := r.bool()
			op := ws.OpBinary
			if text {
				op = ws.OpText
			}
			var fs []gframe
			if r.intn(3) == 0 {
				fs = append(fs, ctl())
			}
			fs = append(fs, gframe{false, 0, op, []byte("ab")}, ctl(), gframe{false, 0, ws.OpContinuation, []byte("cd")})
			if r.bool() {
				fs = append(fs, ctl())
			}
			fs = append(fs, gframe{true, 0, ws.OpContinuation, []byte("ef")}, gframe{true, 0, ws.OpText, []byte("next")})
			enc := encodeStream(fs, server, r)
			k := []int{0, 1, 3, 16}[r.intn(4)]
			for _, want := range []string{"D", "T", "B"} {
				run(fmt.Sprintf("rdd %d %s %s %d E %d", st, want, hx(enc), k, i))
			}
			run(fmt.Sprintf("rm %d %s %d E", st, hx(enc), k))
		}
	}
}

func genC08(tier string, r *rng) {
	keys := []string{"00000000", "a1b2c3d4"}
	// 3 opcodes x len 0..125 x states x 3 entry points
	for _, op := range []int{8, 9, 10} {
		for n := 0; n <= 125; n++ {
			if tier == "quick" && n > 12 && n < 118 && n%9 != 0 {
				continue
			}
			for _, st := range []int{1, 2} {
				for ei, entry := range []string{"H", "F", "M"} {
					var p []byte
					if op == 8 && n >= 2 {
						// close: a valid code and an ASCII reason
						p = append([]byte{0x03, 0xe8 + byte(n%4)}, bytes.Repeat([]byte("r"), n-2)...)
					} else {
						p = r.bytes(n)
					}
					run(fmt.Sprintf("ctl %s %d %d %s %s %d", entry, st, op, hx(p), keys[(n+ei)%2], n+op))
				}
			}
		}
	}
	// payload arriving in several reads from a source that is not an io.WriterTo (a network connection)
	for _, op := range []int{8, 9, 10} {
		for _, n := range []int{1, 2, 3, 7, 8, 30, 64, 125} {
			for _, k := range []int{1, 2, 3, 7, 10, 20} {
				for _, st := range []int{1, 2} {
					var p []byte
					if op == 8 && n >= 2 {
						p = append([]byte{0x03, 0xe8}, bytes.Repeat([]byte("q"), n-2)...)
					} else {
						p = r.bytes(n)
					}
					run(fmt.Sprintf("ctl Hk%d %d %d %s %s %d", k, st, op, hx(p), keys[(n+k)%2], n+op+k))
					run(fmt.Sprintf("ctl Fk%d %d %d %s %s %d", k, st, op, hx(p), keys[(n+k)%2], n+op+k))
					run(fmt.Sprintf("ctl Hdk%d %d %d %s %s %d", k, st, op, hx(p), keys[(n+k)%2], n+op+k))
					run(fmt.Sprintf("ctl Fdk%d %d %d %s %s %d", k, st, op, hx(p), keys[(n+k)%2], n+op+k))
				}
			}
		}
	}
	// a source that fails inside the payload (after 0, 1, half, all-but-one bytes): an error, and no reply for a
	// frame that was never received in full
	for _, op := range []int{8, 9, 10} {
		for _, n := range []int{2, 7, 64, 125} {
			for _, cutAt := range []int{0, 1, n / 2, n - 1} {
				for _, st := range []int{1, 2} {
					var p []byte
					if op == 8 {
						p = append([]byte{0x03, 0xe8}, bytes.Repeat([]byte("c"), n-2)...)
					} else {
						p = r.bytes(n)
					}
					run(fmt.Sprintf("ctl Hf%d %d %d %s %s %d", cutAt, st, op, hx(p), keys[(n+cutAt)%2], n+op))
					run(fmt.Sprintf("ctl Ff%d %d %d %s %s %d", cutAt, st, op, hx(p), keys[(n+cutAt)%2], n+op))
				}
			}
		}
	}
	// all 65536 close codes x {no reason, valid, invalid UTF-8}, plus 1-byte payloads
	reasons := [][]byte{nil, []byte("bye \xc3\xa9"), {0xc3}, {0xff, 0xfe}}
	for c := 0; c < 65536; c++ {
		if tier == "quick" && c%13 != 0 && !(c >= 990 && c <= 1020) && !(c >= 2995 && c <= 3005) && !(c >= 4995 && c <= 5005) {
			continue
		}
		for ri, rs := range reasons {
			if tier == "quick" && ri > 0 && c%5 != 0 {
				continue
			}
			p := append([]byte{byte(c >> 8), byte(c)}, rs...)
			st := 1 + (c+ri)%2
			run(fmt.Sprintf("ctl %s %d 8 %s a1b2c3d4 %d", []string{"H", "F", "M"}[(c+ri)%3], st, hx(p), c))
		}
	}
	for b := 0; b < 256; b += 17 {
		for _, st := range []int{1, 2} {
			run(fmt.Sprintf("ctl M %d 8 %s 00000000 %d", st, hx([]byte{byte(b)}), b))
		}
	}
	// non-control opcodes are refused
	for _, op := range []int{0, 1, 2, 3, 11} {
		run(fmt.Sprintf("ctl F 1 %d %s 00000000 1", op, hx([]byte("x"))))
	}
	// control writer: all sequences of <= 3 writes over boundary sizes, then flush
	sizes := []int{0, 1, 62, 63, 124, 125, 126}
	for _, sd := range []string{"S", "C"} {
		for _, ctor := range []string{"new", "buf:200", "buf:131", "buf:127", "buf:40"} {
			var rec func(prefix []string, d int)
			seed := 0
			rec = func(prefix []string, d int) {
				seed++
				run(strings.Join(strings.Fields(fmt.Sprintf("cw %s 9 %s %d %s fl", sd, ctor, seed, strings.Join(prefix, " "))), " "))
				if d == 0 {
					return
				}
				for _, s := range sizes {
					rec(append(append([]string{}, prefix...), "w:"+hx(r.bytes(s))), d-1)
				}
			}
			depth := 2
			if tier == "thorough" || ctor == "new" {
				depth = 3
			}
			rec(nil, depth)
		}
	}
}
