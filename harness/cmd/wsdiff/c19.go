package main

// C19: concurrent sessions over the shared pools and default values. The sessions run in a separate
// binary built with the race detector (harness/cmd/wsrace); one case = one process:
//   conc <N> <procs> <seed> <mix> <rounds>
// Observed: same=<0|1> self=<0|1> races=<n> diff=<...> race=<functions of the first report> sessions=<N> ops=<n>

import (
	"bytes"
	"fmt"
	"os"
	"os/exec"
	"regexp"
	"strings"
	"time"
)

var raceFn = regexp.MustCompile(`^\s+(github\.com/gobwas/ws[^\s(]*)\(`)

func init() {
	ops["conc"] = func(a []string) string {
		bin := os.Getenv("WSRACE_BIN")
		if bin == "" {
			return "SKIP:no-race-binary"
		}
		cmd := exec.Command(bin, a...)
		cmd.Env = append(os.Environ(), "GORACE=halt_on_error=0 exitcode=0 history_size=3")
		var so, se bytes.Buffer
		cmd.Stdout, cmd.Stderr = &so, &se
		done := make(chan error, 1)
		if err := cmd.Start(); err != nil {
			return "SKIP:cannot-start-race-binary"
		}
		go func() { done <- cmd.Wait() }()
		select {
		case err := <-done:
			if err != nil {
				tail := se.String()
				if len(tail) > 300 {
					tail = tail[len(tail)-300:]
				}
				return "CRASH:" + strings.ReplaceAll(strings.ReplaceAll(tail, "\n", "|"), " ", "_")
			}
		case <-time.After(10 * time.Minute):
			cmd.Process.Kill()
			return "HANG"
		}
		errs := se.String()
		races := strings.Count(errs, "WARNING: DATA RACE")
		race := "-"
		if races > 0 {
			first := errs[strings.Index(errs, "WARNING: DATA RACE"):]
			if i := strings.Index(first[10:], "=================="); i > 0 {
				first = first[:10+i]
			}
			seen := map[string]bool{}
			var fns []string
			for _, l := range strings.Split(first, "\n") {
				if m := raceFn.FindStringSubmatch(l); m != nil && !seen[m[1]] && len(fns) < 6 {
					seen[m[1]] = true
					fns = append(fns, strings.TrimPrefix(m[1], "github.com/gobwas/"))
				}
			}
			race = strings.Join(fns, "|")
			if race == "" {
				race = "outside-the-library"
			}
		}
		res := strings.TrimSpace(so.String())
		f := strings.Fields(res)
		if len(f) != 5 {
			return "BADOUT:" + strings.ReplaceAll(res, " ", "_")
		}
		return fmt.Sprintf("%s %s races=%d %s race=%s %s %s", f[0], f[1], races, f[2], race, f[3], f[4])
	}
	register("C19", genC19)
}

func genC19(tier string, r *rng) {
	mixes := []string{"UHDMZKP", "U", "D", "M", "UD", "MZ", "UUDDM", "HZ", "K", "KM", "P", "PM"}
	type cfg struct{ n, procs, rounds int }
	grid := []cfg{{2, 1, 2}, {2, 4, 2}, {8, 1, 2}, {8, 4, 2}, {8, 16, 2}, {16, 16, 1}}
	if tier == "thorough" {
		grid = append(grid, cfg{64, 1, 2}, cfg{64, 4, 2}, cfg{64, 16, 3}, cfg{32, 16, 3}, cfg{8, 2, 6})
	}
	i := 0
	for _, g := range grid {
		for mi, mix := range mixes {
			if tier == "quick" && (mi+g.n+g.procs)%3 != 0 && mix != "UHDMZKP" && !(mix == "K" && g.n >= 8) && !(mix == "P" && g.n >= 8) {
				continue
			}
			i++
			run(fmt.Sprintf("conc %d %d %d %s %d", g.n, g.procs, r.intn(1000000), mix, g.rounds))
		}
	}
	if tier == "thorough" {
		for j := 0; j < 60; j++ {
			mix := ""
			for k := 0; k < 1+r.intn(6); k++ {
				mix += string("UHDMZKP"[r.intn(7)])
			}
			run(fmt.Sprintf("conc %d %d %d %s %d", []int{2, 8, 64}[r.intn(3)], []int{1, 4, 16}[r.intn(3)], r.intn(1000000), mix, 1+r.intn(3)))
		}
	}
}
