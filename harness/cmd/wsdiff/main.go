// wsdiff: drives the real gobwas/ws code (built from /repo's working tree) on generated cases
// and prints one line per case: "<op line> => <canonical observed output>".
// The same lines are fed to the Lean driver, which answers with the model's output and the
// oracle's verdict on the observed output.
package main

import (
	"fmt"
	"os"
	"runtime/debug"
	"strconv"
)

type family func(tier string, r *rng)

var families = map[string][]family{}

func register(prop string, f family) { families[prop] = append(families[prop], f) }

func main() {
	if len(os.Args) < 3 {
		fmt.Fprintln(os.Stderr, "usage: wsdiff <prop|replay> <tier|file> [seed]")
		os.Exit(2)
	}
	if os.Args[1] == "child" {
		// one operation in a process of its own (see the iso op): a crash of the runtime stays the child's
		debug.SetMaxStack(32 << 20)
		h, ok := ops[os.Args[2]]
		if !ok {
			fmt.Println("UNKNOWN-OP")
			return
		}
		fmt.Println(guard(func() string { return h(os.Args[3:]) }))
		return
	}
	defer out.Flush()
	if os.Args[1] == "replay" {
		replayFile(os.Args[2])
		return
	}
	prop, tier := os.Args[1], os.Args[2]
	seed := uint64(0)
	if len(os.Args) > 3 {
		s, _ := strconv.ParseUint(os.Args[3], 10, 64)
		seed = s
	}
	fs, ok := families[prop]
	if !ok {
		fmt.Fprintln(os.Stderr, "unknown property", prop)
		os.Exit(2)
	}
	for i, f := range fs {
		f(tier, &rng{s: seed*1000003 + uint64(i)*7919 + 12345})
	}
}
