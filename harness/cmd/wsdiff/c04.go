package main

// C04/C05/C07(wiring)/C13(recv)/C15/C16 reader side: wsutil.Reader, NextReader, ReadMessage, ReadData family.
//
//   rm  <state> <hex> <k> <fin>                      wsutil.ReadMessage
//   rdd <state> <want T|B|D> <hex> <k> <fin> <seed>  wsutil.ReadData / Read{Client,Server}{Data,Text,Binary}
//   rdr <state> <cfg> <hex> <k> <fin> <op>...        wsutil.Reader script
//        cfg: comma list of  skip | utf8 | max:N | ext | inter (collecting OnIntermediate) | interlazy | interone | nr (via NextReader)
//        ops: nf | r:<bufsize> | ra | d | st
// Observed formats are produced by the functions below; the Lean driver prints the same.

import (
	"bytes"
	"fmt"
	"io"
	"io/ioutil"
	"strconv"
	"strings"

	"github.com/gobwas/ws"
	"github.com/gobwas/ws/wsflate"
	"github.com/gobwas/ws/wsutil"
)

type rwPair struct {
	io.Reader
	io.Writer
}

func msgsStr(ms []wsutil.Message) string {
	var xs []string
	for _, m := range ms {
		xs = append(xs, fmt.Sprintf("%d:%s", m.OpCode, hx(m.Payload)))
	}
	if len(xs) == 0 {
		return "-"
	}
	return strings.Join(xs, ",")
}

func writesStr(ws_ [][]byte) string {
	var xs []string
	for _, w := range ws_ {
		xs = append(xs, hx(w))
	}
	if len(xs) == 0 {
		return "-"
	}
	return strings.Join(xs, ",")
}

func init() {
	ops["rm"] = func(a []string) string {
		st, _ := strconv.Atoi(a[0])
		k, _ := strconv.Atoi(a[2])
		src, pos := mkReader(unhx(a[1]), k, a[3])
		ms, err := wsutil.ReadMessage(src, ws.State(st), nil)
		if err == wsutil.ErrInvalidUTF8 {
			// how far ReadAll's growing buffer had read ahead when the text turned out invalid is not the library's
			return fmt.Sprintf("%s %s -", msgsStr(ms), classify(err))
		}
		return fmt.Sprintf("%s %s %d", msgsStr(ms), classify(err), pos())
	}
	ops["rdd"] = func(a []string) string {
		st, _ := strconv.Atoi(a[0])
		k, _ := strconv.Atoi(a[3])
		seed, _ := strconv.ParseInt(a[5], 10, 64)
		masks := seedMasks(seed, 16)
		src, pos := mkReader(unhx(a[2]), k, a[4])
		d := &recDst{failAt: -1}
		rw := rwPair{src, d}
		var p []byte
		var op ws.OpCode
		var err error
		server := ws.State(st).ServerSide()
		switch a[1] {
		case "D":
			if st == 1 {
				p, op, err = wsutil.ReadClientData(rw)
			} else if st == 2 {
				p, op, err = wsutil.ReadServerData(rw)
			} else {
				p, op, err = wsutil.ReadData(rw, ws.State(st))
			}
		case "T":
			if server {
				p, err = wsutil.ReadClientText(rw)
			} else {
				p, err = wsutil.ReadServerText(rw)
			}
			op = ws.OpText
		case "B":
			if server {
				p, err = wsutil.ReadClientBinary(rw)
			} else {
				p, err = wsutil.ReadServerBinary(rw)
			}
			op = ws.OpBinary
		}
		if err != nil && a[1] != "D" {
			op = 0
		}
		if err == wsutil.ErrInvalidUTF8 {
			return fmt.Sprintf("%d:%s %s - @%s masks=%s", op, hx(p), classify(err), writesStr(d.writes), masks)
		}
		return fmt.Sprintf("%d:%s %s %d @%s masks=%s", op, hx(p), classify(err), pos(), writesStr(d.writes), masks)
	}
	ops["rdr"] = func(a []string) string {
		st, _ := strconv.Atoi(a[0])
		k, _ := strconv.Atoi(a[3])
		src, pos := mkReader(unhx(a[2]), k, a[4])
		var collected []wsutil.Message
		rd := &wsutil.Reader{Source: src, State: ws.State(st)}
		var ms wsflate.MessageState
		useNR := false
		hasExt := false
		for _, c := range strings.Split(a[1], ",") {
			switch {
			case c == "skip":
				rd.SkipHeaderCheck = true
			case c == "utf8":
				rd.CheckUTF8 = true
			case strings.HasPrefix(c, "max:"):
				n, _ := strconv.ParseInt(c[4:], 10, 64)
				rd.MaxFrameSize = n
			case c == "ext":
				rd.Extensions = []wsutil.RecvExtension{&ms}
				hasExt = true
			case c == "inter":
				rd.OnIntermediate = func(h ws.Header, r io.Reader) error {
					b, err := ioutil.ReadAll(r)
					if err != nil {
						return err
					}
					collected = append(collected, wsutil.Message{OpCode: h.OpCode, Payload: b})
					return nil
				}
			case c == "interlazy":
				// a handler that looks at the header only and leaves the payload unread
				rd.OnIntermediate = func(h ws.Header, r io.Reader) error {
					collected = append(collected, wsutil.Message{OpCode: h.OpCode})
					return nil
				}
			case c == "interone":
				// ... or reads a single byte of it
				rd.OnIntermediate = func(h ws.Header, r io.Reader) error {
					var b [1]byte
					n, _ := r.Read(b[:])
					collected = append(collected, wsutil.Message{OpCode: h.OpCode, Payload: append([]byte(nil), b[:n]...)})
					return nil
				}
			case c == "nr":
				useNR = true
			}
		}
		var items []string
		var nrReader io.Reader
		// a Reader that has reported ErrInvalidUTF8 is finished (RFC 6455: fail the connection): what a caller that
		// goes on regardless is handed alongside later errors, and how far the transport was read, is not compared
		dead := false
		for i, o := range a[5:] {
			f := strings.Split(o, ":")
			res := guard(func() string {
				switch f[0] {
				case "nf":
					var h ws.Header
					var err error
					if useNR && i == 0 {
						h, nrReader, err = wsutil.NextReader(src, ws.State(st))
						if err == nil {
							rd = nrReader.(*wsutil.Reader)
						}
					} else {
						h, err = rd.NextFrame()
					}
					if err != nil {
						return "nf," + classify(err)
					}
					return "nf," + hdrStr(h)
				case "r":
					n, _ := strconv.Atoi(f[1])
					buf := make([]byte, n)
					m, err := rd.Read(buf)
					if m > len(buf) || m < 0 {
						return fmt.Sprintf("r,BADN%d,%s", m, classify(err))
					}
					if dead {
						return fmt.Sprintf("r,-,%s", classify(err))
					}
					return fmt.Sprintf("r,%s,%s", hx(buf[:m]), classify(err))
				case "ra":
					b, err := ioutil.ReadAll(rd)
					if dead {
						return fmt.Sprintf("ra,-,%s", classify(err))
					}
					return fmt.Sprintf("ra,%s,%s", hx(b), classify(err))
				case "d":
					return "d," + classify(rd.Discard())
				case "st":
					c := "-"
					if hasExt {
						c = strconv.Itoa(b2i(ms.IsCompressed()))
					}
					if dead {
						return fmt.Sprintf("st,%d,%s,-", rd.State, c)
					}
					return fmt.Sprintf("st,%d,%s,%d", rd.State, c, pos())
				}
				return "BADOP"
			})

			if strings.HasPrefix(res, "PANIC") {
				items = append(items, "PANIC")
				break
			}
			wasDead := dead
			if strings.HasSuffix(res, ",utf8") {
				dead = true
			} else if f[0] == "d" {
				dead = false // Discard resets the reader: a caller may drop the bad message and go on
			}
			if wasDead && f[0] != "d" {
				// (still executed, so that a panic or a hang would show; what it returns is not compared)
				res = f[0] + ",after-utf8"
			}
			items = append(items, res)
		}
		if dead {
			return fmt.Sprintf("%s inter=%s -", strings.Join(items, ";"), msgsStr(collected))
		}
		return fmt.Sprintf("%s inter=%s %d", strings.Join(items, ";"), msgsStr(collected), pos())
	}
	register("C04", genC04)
	register("C07", genPartialDiscard)
	register("C18", genPartialDiscard)
}

// ---- frame stream construction ----

type gframe struct {
	fin     bool
	rsv     byte
	op      ws.OpCode
	payload []byte
}

// encodeStream writes frames as the given side's PEER would send them (masked iff the reader is a server).
func encodeStream(fs []gframe, readerServer bool, r *rng) []byte {
	var buf bytes.Buffer
	for _, f := range fs {
		fr := ws.Frame{Header: ws.Header{Fin: f.fin, Rsv: f.rsv, OpCode: f.op, Length: int64(len(f.payload))}, Payload: append([]byte(nil), f.payload...)}
		if readerServer {
			var m [4]byte
			copy(m[:], r.bytes(4))
			fr = ws.MaskFrameInPlaceWith(fr, m)
		}
		ws.WriteFrame(&buf, fr)
	}
	return buf.Bytes()
}

var payloadClasses = []int{0, 1, 2, 7, 8, 125, 126, 300}

func randText(r *rng, n int) []byte {
	pieces := [][]byte{[]byte("a"), []byte("z"), {0xc3, 0xa9}, {0xe2, 0x82, 0xac}, {0xf0, 0x9f, 0x98, 0x80}}
	var p []byte
	for len(p) < n {
		pc := pieces[r.intn(len(pieces))]
		if len(p)+len(pc) > n {
			pc = []byte("a")
		}
		p = append(p, pc...)
	}
	return p
}

// validMessage builds one valid data message (possibly fragmented, controls interleaved).
func validMessage(r *rng, maxFrag int, text bool, big bool) []gframe {
	nfrag := 1 + r.intn(maxFrag)
	total := payloadClasses[r.intn(len(payloadClasses))]
	if big && r.intn(25) == 0 {
		total = 70000
	}
	var whole []byte
	op := ws.OpBinary
	if text {
		whole = randText(r, total)
		op = ws.OpText
	} else {
		whole = r.bytes(total)
	}
	var fs []gframe
	off := 0
	for i := 0; i < nfrag; i++ {
		sz := 0
		if i == nfrag-1 {
			sz = len(whole) - off
		} else if len(whole)-off > 0 {
			sz = r.intn(len(whole) - off + 1)
		}
		o := op
		if i > 0 {
			o = ws.OpContinuation
		}
		fs = append(fs, gframe{fin: i == nfrag-1, op: o, payload: whole[off : off+sz]})
		off += sz
		if i < nfrag-1 && r.intn(3) == 0 {
			cop := []ws.OpCode{ws.OpPing, ws.OpPong}[r.intn(2)]
			fs = append(fs, gframe{fin: true, op: cop, payload: r.bytes([]int{0, 1, 10, 125}[r.intn(4)])})
		}
	}
	return fs
}

// chunkings: transport chunk sizes for a stream of n bytes. Long streams are not cut into tiny chunks: the
// list-based Lean model is quadratic in the number of chunks, and the small-chunk behaviour is covered by
// the thousands of short streams.
func chunkings(n int, r *rng) []int {
	if n > 5000 {
		return []int{0, 997, 4096, 500 + r.intn(n)}
	}
	return []int{0, 1, 2, 3, 7, 1 + r.intn(n+1)}
}

func genC04(tier string, r *rng) {
	// a size limit does not change what is delivered: frames of exactly MaxFrameSize bytes (first, continuation,
	// interleaved control) are within it
	for _, server := range []bool{true, false} {
		st := sideOf(server)
		for _, lim := range []int{1, 5, 125, 126, 300} {
			pl := func(n int) []byte { return r.bytes(n) }
			ctl := lim
			if ctl > 125 {
				ctl = 125
			}
			fs := []gframe{{false, 0, ws.OpBinary, pl(lim)}, {true, 0, ws.OpPing, pl(ctl)}, {false, 0, ws.OpContinuation, pl(lim - 1)},
				{true, 0, ws.OpContinuation, pl(lim)}, {true, 0, ws.OpBinary, pl(lim)}}
			enc := encodeStream(fs, server, r)
			run(fmt.Sprintf("rdr %d max:%d,inter %s %d E nf ra st nf ra st", st, lim, hx(enc), lim%3))
			run(fmt.Sprintf("rdr %d max:%d %s %d E nf r:%d ra st nf d st", st, lim, hx(enc), (lim+1)%3, lim))
		}
	}
	nStreams := 250
	if tier == "thorough" {
		nStreams = 4000
	}
	fins := []string{"E", "E", "Ed"}
	for i := 0; i < nStreams; i++ {
		server := r.bool()
		st := 2
		if server {
			st = 1
		}
		// a stream of 1..4 messages, controls allowed between messages too
		var fs []gframe
		nm := 1 + r.intn(3)
		for m := 0; m < nm; m++ {
			if r.intn(4) == 0 {
				fs = append(fs, gframe{fin: true, op: []ws.OpCode{ws.OpPing, ws.OpPong}[r.intn(2)], payload: r.bytes(r.intn(20))})
			}
			fs = append(fs, validMessage(r, 4, r.bool(), tier == "thorough")...)
		}
		enc := encodeStream(fs, server, r)
		for _, k := range chunkings(len(enc), r) {
			fin := fins[r.intn(len(fins))]
			// ReadMessage per message
			run(fmt.Sprintf("rm %d %s %d %s", st, hx(enc), k, fin))
			// ReadData family
			run(fmt.Sprintf("rdd %d %s %s %d %s %d", st, []string{"D", "T", "B"}[r.intn(3)], hx(enc), k, fin, i))
			// raw Reader: NextFrame + ReadAll per message with a collecting OnIntermediate, various buffers
			var script []string
			for m := 0; m < nm+1; m++ {
				switch r.intn(4) {
				case 0:
					script = append(script, "nf", "ra", "st")
				case 1:
					b := []int{1, 2, 3, 5, 512, 4096}[r.intn(6)]
					script = append(script, "nf")
					for j := 0; j < 6; j++ {
						script = append(script, fmt.Sprintf("r:%d", b))
					}
					script = append(script, "ra", "st")
				case 2:
					// partial read (possibly stopping inside a multi-byte character), then skip the rest
					script = append(script, "nf")
					for j := 0; j < 1+r.intn(3); j++ {
						script = append(script, fmt.Sprintf("r:%d", []int{1, 2, 3, 5, 7}[r.intn(5)]))
					}
					script = append(script, "d", "st")
				default:
					script = append(script, "nf", "d", "st")
				}
			}
			cfg := "utf8,inter"
			if r.intn(4) == 0 {
				cfg = "inter"
			}
			run(fmt.Sprintf("rdr %d %s %s %d %s %s", st, cfg, hx(enc), k, fin, strings.Join(script, " ")))
		}
	}
	genPartialDiscard(tier, r)
	// empty fragments in every position (first, middle, last, all), alone and with a control frame between
	for _, server := range []bool{true, false} {
		st := 2
		if server {
			st = 1
		}
		for mask := 0; mask < 8; mask++ {
			for _, withCtl := range []bool{false, true} {
				pl := func(bit int) []byte {
					if mask&(1<<uint(bit)) != 0 {
						return nil
					}
					return r.bytes(1 + r.intn(4))
				}
				fs := []gframe{{false, 0, ws.OpBinary, pl(0)}}
				if withCtl {
					fs = append(fs, gframe{true, 0, ws.OpPing, r.bytes(2)})
				}
				fs = append(fs, gframe{false, 0, ws.OpContinuation, pl(1)}, gframe{true, 0, ws.OpContinuation, pl(2)}, gframe{true, 0, ws.OpText, []byte("next")})
				enc := encodeStream(fs, server, r)
				k := []int{0, 1, 2}[mask%3]
				run(fmt.Sprintf("rm %d %s %d E", st, hx(enc), k))
				run(fmt.Sprintf("rdd %d D %s %d E %d", st, hx(enc), k, mask))
				run(fmt.Sprintf("rdr %d inter %s %d E nf ra st nf ra st", st, hx(enc), k))
				run(fmt.Sprintf("rdr %d inter %s %d E nf r:1 d st nf ra st", st, hx(enc), k))
			}
		}
	}
	// OnIntermediate handlers that do not consume the control payload: the reader must skip the rest itself
	for i := 0; i < 40; i++ {
		server := r.bool()
		st := 2
		if server {
			st = 1
		}
		fs := []gframe{{false, 0, ws.OpBinary, r.bytes(1 + r.intn(5))}, {true, 0, ws.OpPing, r.bytes([]int{0, 1, 2, 9, 125}[r.intn(5)])},
			{false, 0, ws.OpContinuation, r.bytes(r.intn(4))}, {true, 0, ws.OpPong, r.bytes(1 + r.intn(30))}, {true, 0, ws.OpContinuation, r.bytes(3)},
			{true, 0, ws.OpText, []byte("next")}}
		enc := encodeStream(fs, server, r)
		for _, cfg := range []string{"interlazy", "interone", "utf8,interlazy"} {
			run(fmt.Sprintf("rdr %d %s %s %d E nf ra st nf ra st", st, cfg, hx(enc), []int{0, 1, 3}[i%3]))
		}
	}
	// NextReader on single messages
	for i := 0; i < 40; i++ {
		server := r.bool()
		st := 2
		if server {
			st = 1
		}
		enc := encodeStream(validMessage(r, 3, false, false), server, r)
		run(fmt.Sprintf("rdr %d nr %s %d E nf ra st", st, hx(enc), r.intn(4)))
	}
}

// genPartialDiscard: a reader that delivered or skipped a message must read the next one as a new reader
// would (C04 "ready for the next one", C07 "messages following one another", C18 "reads the next message
// exactly as a new reader").
func genPartialDiscard(tier string, r *rng) {
	// skipping the rest of a partially read text message must not disturb the next message (C04/C07/C18):
	// every read size 1..6 over texts made of 2/3/4-byte characters, whole or fragmented inside a character
	texts := [][]byte{[]byte("\xd0\x9f\xd1\x80\xd0\xb8\xd0\xb2\xd0\xb5\xd1\x82"), []byte("\xe2\x82\xac\xe2\x82\xac\xe2\x82\xac"), []byte("a\xf0\x9f\x98\x80\xf0\x9f\x98\x80"), []byte("caf\xc3\xa9 ok")}
	nexts := [][]byte{[]byte("next"), []byte("\x82\xac"), []byte("\xa9"), []byte("\xd0\xb8"), []byte("\x9f\x98\x80z")}
	for ti, t := range texts {
		for _, server := range []bool{true, false} {
			st := 2
			if server {
				st = 1
			}
			for b := 1; b <= 6; b++ {
				for split := 0; split <= len(t); split += 1 + (ti+b)%3 {
					nx := nexts[(ti+b+split)%len(nexts)]
					fs := []gframe{{fin: false, op: ws.OpText, payload: t[:split]}, {fin: true, op: ws.OpContinuation, payload: t[split:]},
						{fin: true, op: ws.OpText, payload: nx}, {fin: true, op: ws.OpBinary, payload: []byte{0xff, 0x80}}, {fin: true, op: ws.OpText, payload: []byte("z\xc3\xa9")}}
					if split == 0 {
						fs = append([]gframe{{fin: true, op: ws.OpText, payload: t}}, fs[2:]...)
					}
					enc := encodeStream(fs, server, r)
					k := []int{0, 1, 4}[(b+split)%3]
					run(fmt.Sprintf("rdr %d utf8,inter %s %d E nf r:%d d st nf ra st nf ra st nf ra st", st, hx(enc), k, b))
					run(fmt.Sprintf("rdr %d utf8,inter %s %d Ed nf r:%d r:%d d st nf r:3 d st nf ra st nf ra st", st, hx(enc), k, b, 1+b%3))
				}
			}
		}
	}
}
