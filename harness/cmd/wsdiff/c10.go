package main

// C10: client handshake. ws.Dialer.Upgrade against a scripted server; ws.Dialer.Dial for the
// address derivation.
//   dl   <cfg> <urlhex> <resphex> <k> <fin>     resp may contain @ACCEPT@ (replaced by the right accept)
//   dial <urlhex>
// cfg: "/"-separated items, "-" for none:
//   rb@N | proto@<hex>|<hex> | ext@<optStr>|<optStr> | hdr@<hex> | host@<hex> | onhdr@<keyhex>
// Inputs the model cannot know are reported in the observation and used by the model as
// environment: nonce= (drawn from math/rand), uri= / uhost= (net/url's RequestURI() and Host).

import (
	"bufio"
	"bytes"
	"context"
	"crypto/tls"
	"crypto/sha1"
	"encoding/base64"
	"fmt"
	"io"
	"math/rand"
	"net"
	"net/url"
	"strconv"
	"strings"
	"time"

	"github.com/gobwas/httphead"
	"github.com/gobwas/ws"
)

func parseOptStr(s string) httphead.Option {
	i := strings.Index(s, ":")
	o := httphead.Option{Name: unhx(s[:i])}
	if s[i+1:] != "" {
		for _, kv := range strings.Split(s[i+1:], ",") {
			f := strings.SplitN(kv, "=", 2)
			o.Parameters.Set(unhx(f[0]), unhx(f[1]))
		}
	}
	return o
}

func parseDialCfg(s string) ws.Dialer {
	var d ws.Dialer
	if s == "-" {
		return d
	}
	for _, it := range strings.Split(s, "/") {
		f := strings.SplitN(it, "@", 2)
		switch f[0] {
		case "rb":
			d.ReadBufferSize, _ = strconv.Atoi(f[1])
		case "proto":
			for _, p := range strings.Split(f[1], "|") {
				d.Protocols = append(d.Protocols, string(unhx(p)))
			}
		case "ext":
			for _, o := range strings.Split(f[1], "|") {
				d.Extensions = append(d.Extensions, parseOptStr(o))
			}
		case "hdr":
			d.Header = ws.HandshakeHeaderString(unhx(f[1]))
		case "host":
			d.Host = string(unhx(f[1]))
		case "onhdr":
			key := string(unhx(f[1]))
			d.OnHeader = func(k, v []byte) error {
				if string(k) == key {
					return errCb
				}
				return nil
			}
		}
	}
	return d
}

// dlConn: collects what the dialer writes; the response is built on the first Read from the
// request written so far (the accept value needs the key the dialer drew).
type dlConn struct {
	w    bytes.Buffer
	resp []byte
	k    int
	fin  string
	rd   io.Reader
}

func (c *dlConn) Write(p []byte) (int, error) { return c.w.Write(p) }

func keyOf(req []byte) []byte {
	const h = "Sec-WebSocket-Key: "
	i := bytes.Index(req, []byte(h))
	if i < 0 {
		return nil
	}
	rest := req[i+len(h):]
	j := bytes.Index(rest, []byte("\r\n"))
	if j < 0 {
		return nil
	}
	return rest[:j]
}

func acceptFor(key []byte) []byte {
	s := sha1.Sum(append(append([]byte{}, key...), "258EAFA5-E914-47DA-95CA-C5AB0DC85B11"...))
	return []byte(base64.StdEncoding.EncodeToString(s[:]))
}

func (c *dlConn) Read(p []byte) (int, error) {
	if c.rd == nil {
		acc := acceptFor(keyOf(c.w.Bytes()))
		resp := bytes.ReplaceAll(c.resp, []byte("@ACCEPT@"), acc)
		// @ACCEPx@: the right accept with the padding bits of its last digit changed (x = 1, 2, 3)
		const alphabet = "ABCDEFGHIJKLMNOPQRSTUVWXYZabcdefghijklmnopqrstuvwxyz0123456789+/"
		for x := 1; x <= 3; x++ {
			alt := append([]byte(nil), acc...)
			alt[26] = alphabet[strings.IndexByte(alphabet, alt[26])^x]
			resp = bytes.ReplaceAll(resp, []byte(fmt.Sprintf("@ACCEP%d@", x)), alt)
		}
		c.rd, _ = mkReader(resp, c.k, c.fin)
	}
	return c.rd.Read(p)
}

var lastNonce string

func init() {
	ops["dl"] = func(a []string) string {
		d := parseDialCfg(a[0])
		raw := string(unhx(a[1]))
		u, err := url.ParseRequestURI(raw)
		if err != nil {
			return "SKIP:net/url:" + strings.ReplaceAll(err.Error(), " ", "_")
		}
		k, _ := strconv.Atoi(a[3])
		conn := &dlConn{resp: unhx(a[2]), k: k, fin: a[4]}
		br, hs, err := d.Upgrade(conn, u)
		rest := "-"
		if err == nil {
			var rd io.Reader = conn
			if br != nil {
				rd = br
			}
			all, _ := io.ReadAll(rd)
			rest = hx(all)
		}
		req := conn.w.Bytes()
		nonce := keyOf(req)
		fresh := b2i(string(nonce) != lastNonce)
		lastNonce = string(nonce)
		// the same Dialer value used again: its configuration must be what it was (the next request offers the same)
		conn2 := &dlConn{resp: nil, k: 0, fin: "E"}
		d.Upgrade(conn2, u)
		req2 := conn2.w.Bytes()
		again := b2i(bytes.Equal(bytes.Replace(req, nonce, nil, 1), bytes.Replace(req2, keyOf(req2), nil, 1)))
		return fmt.Sprintf("%s proto=%s exts=%s req=%s rest=%s nonce=%s uri=%s uhost=%s fresh=%d brnil=%d again=%d",
			hsErrClass2(err), hx([]byte(hs.Protocol)), optsStr(hs.Extensions), hx(req), rest, hx(nonce),
			hx([]byte(u.RequestURI())), hx([]byte(u.Host)), fresh, b2i(br == nil), again)
	}
	ops["dial"] = func(a []string) string {
		raw := string(unhx(a[0]))
		var network, addr, tlshost string
		tlshost = "-"
		d := ws.Dialer{
			NetDial: func(ctx context.Context, n, ad string) (net.Conn, error) {
				network, addr = n, ad
				c1, c2 := net.Pipe()
				c2.Close()
				return c1, nil
			},
			TLSClient: func(c net.Conn, hostname string) net.Conn {
				tlshost = hx([]byte(hostname))
				return c
			},
			Timeout: time.Second,
		}
		_, _, _, err := d.Dial(context.Background(), raw)
		u, uerr := url.ParseRequestURI(raw)
		scheme, uhost := "-", "-"
		if uerr == nil {
			scheme, uhost = hx([]byte(u.Scheme)), hx([]byte(u.Host))
		}
		cls := "dialed"
		if network == "" {
			cls = "nodial:" + b2s(err != nil)
		}
		return fmt.Sprintf("%s net=%s addr=%s tlshost=%s scheme=%s uhost=%s", cls, network, hx([]byte(addr)), tlshost, scheme, uhost)
	}
	// dialtls <urlhex> <nil|empty|named:<hex>> : a wss dial through the library's own TLS set-up; the far end
	// of the connection reads the ClientHello and reports the server name the session was requested for.
	ops["dialtls"] = func(a []string) string {
		raw := string(unhx(a[0]))
		var cfg *tls.Config
		switch {
		case a[1] == "empty":
			cfg = &tls.Config{}
		case strings.HasPrefix(a[1], "named:"):
			cfg = &tls.Config{ServerName: string(unhx(a[1][6:]))}
		}
		sni, addr := "-", "-"
		done := make(chan struct{})
		d := ws.Dialer{
			NetDial: func(ctx context.Context, n, ad string) (net.Conn, error) {
				addr = hx([]byte(ad))
				c1, c2 := net.Pipe()
				go func() {
					defer close(done)
					defer c2.Close()
					c2.SetDeadline(time.Now().Add(2 * time.Second))
					srv := tls.Server(c2, &tls.Config{GetConfigForClient: func(chi *tls.ClientHelloInfo) (*tls.Config, error) {
						sni = hx([]byte(chi.ServerName))
						return nil, fmt.Errorf("enough")
					}})
					srv.Handshake()
				}()
				return c1, nil
			},
			TLSConfig: cfg,
			Timeout:   2 * time.Second,
		}
		conn, _, _, err := d.Dial(context.Background(), raw)
		if conn != nil {
			conn.Close()
		}
		select {
		case <-done:
		case <-time.After(3 * time.Second):
		}
		after := "-"
		if cfg != nil {
			after = hx([]byte(cfg.ServerName))
		}
		u, uerr := url.ParseRequestURI(raw)
		uhost := "-"
		if uerr == nil {
			uhost = hx([]byte(u.Host))
		}
		return fmt.Sprintf("%s addr=%s sni=%s cfgafter=%s uhost=%s", b2s(err != nil), addr, sni, after, uhost)
	}
	register("C10", genC10)
	register("C19", genDialTLS)
}

func b2s(b bool) string {
	if b {
		return "err"
	}
	return "noerr"
}

var _ = bufio.NewReader

func buildResp(status string, hs []hdr, eol string, tail []byte) []byte {
	var b bytes.Buffer
	b.WriteString(status + eol)
	for _, h := range hs {
		b.WriteString(h.k + ":" + h.v + eol)
	}
	b.WriteString(eol)
	b.Write(tail)
	return b.Bytes()
}

func baseRespHeaders() []hdr {
	return []hdr{{"Upgrade", " websocket"}, {"Connection", " Upgrade"}, {"Sec-WebSocket-Accept", " @ACCEPT@"}}
}

func genC10(tier string, r *rng) {
	rand.Seed(int64(r.next() >> 1))
	emit := func(cfg, u string, resp []byte) {
		k := []int{0, 1, 7, 16, 33}[r.intn(5)]
		run(fmt.Sprintf("dl %s %s %s %d E", cfg, hx([]byte(u)), hx(resp), k))
	}
	base := baseRespHeaders()
	ok101 := "HTTP/1.1 101 Switching Protocols"
	// the plain good response; header-name case; LF
	for _, eol := range []string{"\r\n", "\n"} {
		emit("-", "ws://example.com/chat", buildResp(ok101, base, eol, nil))
		var lower, upper []hdr
		for _, h := range base {
			lower = append(lower, hdr{strings.ToLower(h.k), h.v})
			upper = append(upper, hdr{strings.ToUpper(h.k), h.v})
		}
		emit("-", "ws://example.com/chat", buildResp(ok101, lower, eol, nil))
		emit("-", "ws://example.com/chat", buildResp(ok101, upper, eol, nil))
	}
	// status lines: versions, status tokens incl. non-digits, overflow, missing parts
	for _, sl := range []string{"HTTP/1.1 101 Switching Protocols", "HTTP/1.1 101", "HTTP/1.1 101 ", "HTTP/1.1 101 x y z", "HTTP/1.0 101 X", "HTTP/1.2 101 X",
		"HTTP/2.0 101 X", "HTTP/1.1 200 OK", "HTTP/1.1 0101 X", "HTTP/1.1 0:1 X", "HTTP/1.1 10; X", "HTTP/1.1 1:1 X", "HTTP/1.1 :1 X", "HTTP/1.1 18446744073709551717 X",
		"HTTP/1.1 1e2 X", "HTTP/1.1 +101 X", "HTTP/1.1 -101 X", "HTTP/1.1  101 X", "HTTP/1.1 101\tX", "HTTP/1.; 101 X", "HTTP/1.1", "", "HTTP/1.1 400 Bad Request",
		"HTTP/1.1 301 Moved", "HTTP/1.1 1010 X", "HTTP/1.1 10 X", "HTTP/1.1 ১০১ X", "http/1.1 101 X", "HTTP/1.10 101 X", "HTTP/01.1 101 X",
		// signs, spaces and separators inside the version numbers
		"HTTP/+1.1 101 X", "HTTP/1.+1 101 X", "HTTP/+1.+1 101 X", "HTTP/-1.1 101 X", "HTTP/1.-1 101 X", "HTTP/1_0.1 101 X", "HTTP/0x1.1 101 X", "HTTP/+1.2 101 X", "HTTP/1.1e0 101 X"} {
		emit("-", "ws://example.com/", buildResp(sl, base, "\r\n", nil))
	}
	// each required header: absent / variants / duplicated
	variants := map[string][]string{
		"Upgrade":              {" websocket", " WebSocket", "websocket", "\twebsocket\t", " websocket2", " h2c, websocket", "", " web socket"},
		"Connection":           {" Upgrade", " upgrade", " UPGRADE", " keep-alive, Upgrade", " Upgrade, keep-alive", " keep-alive", "", " Upgradex"},
		"Sec-WebSocket-Accept": {" @ACCEPT@", "@ACCEPT@", " @ACCEPT@ ", " s3pPLMBiTxaQ9kYGzzhZRbK+xOo=", " @ACCEPT@x", "", " " + strings.Repeat("A", 27) + "=", " @ACCEPT@, @ACCEPT@",
			" @ACCEP1@", " @ACCEP2@", " @ACCEP3@", " @ACCEPT@=", " =@ACCEPT@"},
	}
	names := []string{"Upgrade", "Connection", "Sec-WebSocket-Accept"}
	for i, nm := range names {
		emit("-", "ws://example.com/", buildResp(ok101, withHeader(base, i, nil), "\r\n", nil))
		for _, v := range variants[nm] {
			emit("-", "ws://example.com/", buildResp(ok101, withHeader(base, i, []hdr{{nm, v}}), "\r\n", nil))
			emit("-", "ws://example.com/", buildResp(ok101, withHeader(base, i, []hdr{base[i], {nm, v}}), "\r\n", nil))
			emit("-", "ws://example.com/", buildResp(ok101, withHeader(base, i, []hdr{{nm, v}, base[i]}), "\r\n", nil))
		}
	}
	// malformed lines, extra headers, reordering, OnHeader rejecting
	emit("-", "ws://example.com/", buildResp(ok101, append([]hdr{{"X-A", " 1"}, {"Set-Cookie", " " + strings.Repeat("c", 300)}}, base...), "\r\n", nil))
	emit("-", "ws://example.com/", append(buildResp(ok101, base[:2], "\r\n", nil)[:60], []byte("NoColonHere\r\n\r\n")...))
	emit("-", "ws://example.com/", buildResp(ok101, []hdr{base[2], base[1], base[0]}, "\r\n", nil))
	// header lines with an empty name (the colon first), before, between and after the mandatory ones
	for _, eol := range []string{"\r\n", "\n"} {
		for pos := 0; pos <= len(base); pos++ {
			for _, e := range []hdr{{"", " x"}, {"", ""}, {" ", " y"}} {
				hs := append(append(append([]hdr{}, base[:pos]...), e), base[pos:]...)
				emit("-", "ws://example.com/", buildResp(ok101, hs, eol, nil))
			}
		}
	}
	emit("onhdr@"+hx([]byte("X-A")), "ws://example.com/", buildResp(ok101, append([]hdr{{"X-A", " 1"}}, base...), "\r\n", nil))
	emit("onhdr@"+hx([]byte("X-B")), "ws://example.com/", buildResp(ok101, append([]hdr{{"X-A", " 1"}}, base...), "\r\n", nil))
	emit("onhdr@"+hx([]byte("Upgrade")), "ws://example.com/", buildResp(ok101, base, "\r\n", nil))
	// every byte after the response head stays readable - also through the debug wrapper, whatever the line ends
	{
		rb := baseRespHeaders()
		for _, rs := range [][]byte{
			buildResp(ok101, rb, "\r\n", []byte("\x81\x02hi")),
			buildResp(ok101, rb, "\n", []byte("\x81\x10SEND\r\na:b\r\n\r\nbody")),
			append(bytes.TrimSuffix(buildResp(ok101, rb, "\n", nil), []byte("\n")), []byte("\r\n\x81\x02hi")...),
			append(bytes.TrimSuffix(buildResp(ok101, rb, "\r\n", nil), []byte("\r\n")), []byte("\n\x81\x02hi\r\n\r\nmore")...),
		} {
			for _, k := range []int{0, 1, 16} {
				run(fmt.Sprintf("dbgdl - %s %s %d ok", hx([]byte("ws://example.com/x")), hx(rs), k))
			}
		}
	}
	// subprotocols inside and outside the request
	protoCfgs := []string{"-", "proto@" + hx([]byte("chat")), "proto@" + hx([]byte("a")) + "|" + hx([]byte("b")) + "|" + hx([]byte("c"))}
	protoVals := []string{" chat", " a", " b", " c", " d", "", " a, b", " A", " a ", "a"}
	for _, pc := range protoCfgs {
		for _, pv := range protoVals {
			emit(pc, "ws://example.com/", buildResp(ok101, append(append([]hdr{}, base...), hdr{"Sec-WebSocket-Protocol", pv}), "\r\n", nil))
		}
		emit(pc, "ws://example.com/", buildResp(ok101, append(append([]hdr{}, base...), hdr{"Sec-WebSocket-Protocol", " a"}, hdr{"Sec-WebSocket-Protocol", " zzz"}), "\r\n", nil))
		emit(pc, "ws://example.com/", buildResp(ok101, append(append([]hdr{}, base...), hdr{"Sec-WebSocket-Protocol", " zzz"}, hdr{"Sec-WebSocket-Protocol", " a"}), "\r\n", nil))
		emit(pc, "ws://example.com/", buildResp(ok101, append(append([]hdr{}, base...), hdr{"Sec-WebSocket-Protocol", " a"}, hdr{"Sec-WebSocket-Protocol", " b"}), "\r\n", nil))
	}
	// extensions inside and outside the offer
	pmd := hx([]byte("permessage-deflate"))
	extCfgs := []string{"-", "ext@" + pmd + ":", "ext@" + pmd + ":" + hx([]byte("client_max_window_bits")) + "=" + "|" + hx([]byte("x-foo")) + ":" + hx([]byte("a")) + "=" + hx([]byte("1")),
		"ext@" + pmd + ":" + hx([]byte("server_max_window_bits")) + "=" + hx([]byte("10"))}
	extVals := []string{" permessage-deflate", " permessage-deflate; client_max_window_bits=12", " x-foo", " x-foo; a=2, permessage-deflate", " x-bar", " permessage-deflate, x-bar",
		"", " ;", " permessage-deflate;", " permessage-deflate; a=\"q\\\"x\"", " permessage-deflate permessage-deflate", " PERMESSAGE-DEFLATE", " ,"}
	for _, ec := range extCfgs {
		for _, ev := range extVals {
			emit(ec, "ws://example.com/", buildResp(ok101, append(append([]hdr{}, base...), hdr{"Sec-WebSocket-Extensions", ev}), "\r\n", nil))
		}
		emit(ec, "ws://example.com/", buildResp(ok101, append(append([]hdr{}, base...), hdr{"Sec-WebSocket-Extensions", " x-foo"}, hdr{"Sec-WebSocket-Extensions", " permessage-deflate; a=1"}), "\r\n", nil))
	}
	// extension / subprotocol values followed by more head and data: the returned values must not depend on buffer reuse
	for _, rb := range []string{"rb@16/", "rb@64/", ""} {
		for _, pad := range []int{0, 20, 70, 300, 5000} {
			hs := append(append([]hdr{}, base...), hdr{"Sec-WebSocket-Extensions", " permessage-deflate; client_max_window_bits=12; server_no_context_takeover"},
				hdr{"Sec-WebSocket-Protocol", " chat"}, hdr{"X-Pad", " " + strings.Repeat("z", pad)})
			cfg := rb + "proto@" + hx([]byte("chat")) + "/ext@" + pmd + ":" + hx([]byte("client_max_window_bits")) + "="
			resp := buildResp(ok101, hs, "\r\n", []byte(strings.Repeat("y", pad)))
			for _, k := range []int{0, 1, 7, 50} {
				run(fmt.Sprintf("dl %s %s %s %d E", cfg, hx([]byte("ws://example.com/")), hx(resp), k))
			}
		}
	}
	// request side: URL forms, Host override, protocols, extensions, extra headers
	urls := []string{"ws://example.com", "ws://example.com/", "ws://example.com/chat", "ws://example.com:8080/chat?x=1&y=2", "wss://example.com/a/b/c", "ws://[::1]/x",
		"ws://[::1]:9000/x", "ws://example.com/chat%20room", "ws://example.com/caf%C3%A9", "ws://example.com/files/a%3Fb?q=%20", "ws://example.com/?", "ws://example.com//double",
		"ws://user:pw@example.com/p", "ws://example.com/a b", "ws://EXAMPLE.com/A", "ws://example.com/#frag", "/just/path", "ws://example.com/p?q=a+b",
		// an explicit port that is the scheme's default (or the other scheme's), also on IPv6 literals
		"ws://example.com:80/x", "wss://example.com:443/x", "ws://example.com:443/x", "wss://example.com:80/x",
		"ws://[::1]:80/chat", "wss://[2001:db8::1]:443/", "wss://[::1]:80/"}
	reqCfgs := []string{"-", "host@" + hx([]byte("override.example:81")), "proto@" + hx([]byte("a")) + "|" + hx([]byte("b")), extCfgs[2], "hdr@" + hx([]byte("Origin: http://x\r\nX-T: 1\r\n")),
		"host@" + hx([]byte("h")) + "/proto@" + hx([]byte("chat")) + "/" + extCfgs[1] + "/hdr@" + hx([]byte("X: y\r\n")), "ext@" + hx([]byte("x")) + ":" + hx([]byte("k")) + "=" + hx([]byte("v w\"q"))}
	for _, u := range urls {
		for _, c := range reqCfgs {
			emit(c, u, buildResp(ok101, base, "\r\n", nil))
		}
	}
	// trailing post-handshake bytes: all amounts around the buffer size, every chunking
	for _, rb := range []int{0, 16, 64} {
		cfg := "-"
		if rb > 0 {
			cfg = fmt.Sprintf("rb@%d", rb)
		}
		for _, tl := range []int{0, 1, 2, 15, 16, 17, 100, 5000} {
			tail := r.bytes(tl)
			resp := buildResp(ok101, base, "\r\n", tail)
			for _, k := range []int{0, 1, 7, len(resp) - tl, len(resp) - tl + 1} {
				if k < 0 {
					k = 0
				}
				run(fmt.Sprintf("dl %s %s %s %d E", cfg, hx([]byte("ws://example.com/")), hx(resp), k))
			}
		}
	}
	// cut responses
	{
		resp := buildResp(ok101, append(append([]hdr{}, base...), hdr{"X-A", " 1"}), "\r\n", nil)
		for l := 0; l < len(resp); l++ {
			boundary := l > 0 && resp[l-1] == '\n'
			if tier == "quick" && !boundary && l%7 != 0 {
				continue
			}
			for _, fin := range []string{"E", "F"} {
				run(fmt.Sprintf("dl - %s %s %d %s", hx([]byte("ws://example.com/")), hx(resp[:l]), []int{0, 1, 16}[r.intn(3)], fin))
			}
		}
	}
	// random sampling of the grammar
	n := 300
	if tier == "thorough" {
		n = 20000
	}
	for i := 0; i < n; i++ {
		hs := append([]hdr{}, base...)
		for j := 0; j < r.intn(3); j++ {
			idx := r.intn(3)
			vs := variants[names[idx]]
			hs[idx] = hdr{[]string{names[idx], strings.ToLower(names[idx]), strings.ToUpper(names[idx])}[r.intn(3)], vs[r.intn(len(vs))]}
		}
		cfg := "-"
		if r.intn(2) == 0 {
			cfg = protoCfgs[r.intn(len(protoCfgs))]
			hs = append(hs, hdr{"Sec-WebSocket-Protocol", protoVals[r.intn(len(protoVals))]})
		} else if r.intn(2) == 0 {
			cfg = extCfgs[r.intn(len(extCfgs))]
			hs = append(hs, hdr{"Sec-WebSocket-Extensions", extVals[r.intn(len(extVals))]})
		}
		if r.intn(4) == 0 {
			hs = append(hs, hdr{"X-R", " " + strings.Repeat("r", r.intn(80))})
		}
		r.shuffleHdr(hs)
		sl := ok101
		if r.intn(6) == 0 {
			sl = []string{"HTTP/1.1 200 OK", "HTTP/1.0 101 X", "HTTP/1.1 0:1 X", "HTTP/1.3 101 X"}[r.intn(4)]
		}
		emit(cfg, urls[r.intn(len(urls))], buildResp(sl, hs, "\r\n", r.bytes(r.intn(40))))
	}
	// addresses
	for _, u := range []string{"ws://example.com", "ws://example.com/x", "ws://example.com:8080/x", "wss://example.com/x", "wss://example.com:8443", "ws://[::1]/x", "ws://[::1]:9000/x",
		"wss://[2001:db8::1]/x", "wss://[2001:db8::1]:444/x", "http://example.com/", "example.com/x", "ws://user:pw@example.com/p", "wss://user@example.com:1/p", "ws://example.com:/x",
		"WS://example.com/x", "ws:///x", "ws://127.0.0.1/x", "wss://127.0.0.1:1/x"} {
		run("dial " + hx([]byte(u)))
	}
	genDialTLS(tier, r)
}

// genDialTLS: the TLS session of a wss URL is for that URL's host, whatever was dialed before (default
// configuration, a configuration without a name, a configuration with one). Registered for C10 (address
// derivation) and C19 (sessions to different hosts through the shared default configuration).
func genDialTLS(tier string, r *rng) {
	hosts := []string{"first.example", "second.example:8443", "third.example", "first.example", "a.b.c.example:1", "second.example"}
	for _, mode := range []string{"nil", "empty", "named:" + hx([]byte("pinned.example")), "nil"} {
		for _, h := range hosts {
			run("dialtls " + hx([]byte("wss://"+h+"/chat")) + " " + mode)
		}
	}
}

func (r *rng) shuffleHdr(hs []hdr) {
	for i := len(hs) - 1; i > 0; i-- {
		j := r.intn(i + 1)
		hs[i], hs[j] = hs[j], hs[i]
	}
}
