package main

// C03: ws.CheckHeader, ws.CheckCloseFrameData, close body build/parse, opcode and status predicates.

import (
	"fmt"
	"strconv"
	"unicode/utf8"

	"github.com/gobwas/ws"
)

func init() {
	ops["chk"] = func(a []string) string { // chk f r o m len state
		h := parseHdr([]string{a[0], a[1], a[2], a[3], "00000000", a[4]})
		st, _ := strconv.Atoi(a[5])
		return classify(ws.CheckHeader(h, ws.State(st)))
	}
	ops["cls"] = func(a []string) string { // cls code reasonhex
		c, _ := strconv.Atoi(a[0])
		r := string(unhx(a[1]))
		return fmt.Sprintf("%s v=%d", classify(ws.CheckCloseFrameData(ws.StatusCode(c), r)), b2i(utf8.ValidString(r)))
	}
	ops["body"] = func(a []string) string { // body code reasonhex
		c, _ := strconv.Atoi(a[0])
		r := string(unhx(a[1]))
		// an earlier body for the same code and reason, which its owner has since changed (masked in place for
		// sending, say): every body is the caller's own
		if b0 := ws.NewCloseFrameBody(ws.StatusCode(c), r); len(b0) > 0 {
			for i := range b0 {
				b0[i] ^= 0xa5
			}
		}
		b := ws.NewCloseFrameBody(ws.StatusCode(c), r)
		c1, r1 := ws.ParseCloseFrameData(b)
		c2, r2 := ws.ParseCloseFrameDataUnsafe(b)
		return fmt.Sprintf("%s %d %s %d %s", hx(b), c1, hx([]byte(r1)), c2, hx([]byte(r2)))
	}
	ops["parse"] = func(a []string) string {
		p := unhx(a[0])
		c1, r1 := ws.ParseCloseFrameData(p)
		c2, r2 := ws.ParseCloseFrameDataUnsafe(p)
		return fmt.Sprintf("%d %s %d %s", c1, hx([]byte(r1)), c2, hx([]byte(r2)))
	}
	ops["pred"] = func(a []string) string {
		o, _ := strconv.Atoi(a[0])
		c := ws.OpCode(o)
		return fmt.Sprintf("%d%d%d", b2i(c.IsControl()), b2i(c.IsData()), b2i(c.IsReserved()))
	}
	ops["spred"] = func(a []string) string {
		v, _ := strconv.Atoi(a[0])
		s := ws.StatusCode(v)
		return fmt.Sprintf("%d%d%d%d%d%d%d", b2i(s.Empty()), b2i(s.IsNotUsed()), b2i(s.IsProtocolSpec()),
			b2i(s.IsApplicationSpec()), b2i(s.IsPrivateSpec()), b2i(s.IsProtocolDefined()), b2i(s.IsProtocolReserved()))
	}
	register("C03", genC03)
}

func genC03(tier string, r *rng) {
	lens := []int64{0, 1, 124, 125, 126, 127, 65535, 65536, 1 << 31, 1<<63 - 1}
	// exhaustive: Fin x Rsv x OpCode x Masked x length class x 16 states
	for fin := 0; fin < 2; fin++ {
		for rsv := 0; rsv < 8; rsv++ {
			for op := 0; op < 16; op++ {
				for m := 0; m < 2; m++ {
					for _, l := range lens {
						for st := 0; st < 16; st++ {
							run(fmt.Sprintf("chk %d %d %d %d %d %d", fin, rsv, op, m, l, st))
						}
					}
				}
			}
		}
	}
	for op := 0; op < 16; op++ {
		run(fmt.Sprintf("pred %d", op))
	}
	reasons := []string{"-", hx([]byte("bye")), "c3a9", "e282ac", "f09f9880", "c0af", "eda080", "c3", "f4908080", "ff", hx([]byte("ok\xc3"))}
	for c := 0; c < 65536; c++ {
		run(fmt.Sprintf("spred %d", c))
		for i, rs := range reasons {
			if tier == "quick" && i > 1 && (c+i)%7 != 0 && !(c >= 990 && c <= 1020) && c != 2999 && c != 3000 && c != 4999 && c != 5000 {
				continue
			}
			run(fmt.Sprintf("cls %d %s", c, rs))
		}
	}
	// bodies: reason lengths 0..130, multibyte code point at the crop point
	for n := 0; n <= 130; n++ {
		rs := make([]byte, 0, n+4)
		for len(rs) < n {
			if (len(rs)+n)%5 == 0 && len(rs)+3 <= n {
				rs = append(rs, 0xe2, 0x82, 0xac)
			} else {
				rs = append(rs, 'a'+byte(len(rs)%26))
			}
		}
		for _, c := range []int{0, 1000, 1002, 1007, 4999, 65535} {
			run(fmt.Sprintf("body %d %s", c, hx(rs)))
		}
	}
	// every status code (the builder is not supposed to know about validity): body build/parse round trip
	for c := 0; c < 65536; c++ {
		if tier == "quick" && c%97 != 0 && !(c >= 995 && c <= 1020) && !(c >= 2995 && c <= 3005) && !(c >= 4995 && c <= 5005) {
			continue
		}
		run(fmt.Sprintf("body %d %s", c, hx([]byte([]string{"", "bye", "caf\xc3\xa9"}[c%3]))))
	}
	for i := 0; i < 400; i++ {
		run("parse " + hx(r.bytes(r.intn(6))))
	}
}
