package main

// C02: ws.Cipher, wsutil.CipherReader / CipherWriter, ws.Mask*/Unmask* helpers.

import (
	"bytes"
	"fmt"
	"io"
	"strconv"
	"strings"

	"github.com/gobwas/pool/pbytes"
	"github.com/gobwas/ws"
	"github.com/gobwas/ws/wsutil"
)

func mask4(s string) (m [4]byte) { copy(m[:], unhx(s)); return }

// dataFinReader: like chunkReader but the last chunk arrives together with the final error.
type dataFinReader struct{ chunkReader }

func (c *dataFinReader) Read(p []byte) (int, error) {
	n, err := c.chunkReader.Read(p)
	if err == nil && c.pos >= len(c.data) && n > 0 {
		return n, c.fin
	}
	return n, err
}

// poolChurn takes, scribbles over and returns buffers of every size class of the shared byte pool.
func poolChurn() {
	for cls := 128; cls <= 65536; cls *= 2 {
		var held [][]byte
		for i := 0; i < 3; i++ {
			b := pbytes.GetLen(cls)
			for j := range b {
				b[j] = 0xAA
			}
			held = append(held, b)
		}
		for _, b := range held {
			pbytes.Put(b)
		}
	}
}

// skipReader gives a source the Discard(n) method of *bufio.Reader (what Dialer.Dial and
// HTTPUpgrader hand back), without reading ahead: like bufio's, a stream that ends before n bytes
// were skipped is reported with the source's own error (io.EOF at a clean end).
type skipReader struct{ io.Reader }

func (s skipReader) Discard(n int) (int, error) {
	done := 0
	var buf [64]byte
	for done < n {
		m := n - done
		if m > len(buf) {
			m = len(buf)
		}
		k, err := s.Read(buf[:m])
		done += k
		if err != nil {
			return done, err
		}
	}
	return done, nil
}

func mkReader(data []byte, k int, fin string) (rd interface{ Read([]byte) (int, error) }, pos func() int) {
	if strings.HasPrefix(fin, "b") {
		rd, pos = mkReader(data, k, fin[1:])
		return skipReader{rd}, pos
	}
	cr := chunkReader{data: data, k: k, fin: finErr(fin[:1])}
	if strings.HasSuffix(fin, "d") {
		r := &dataFinReader{cr}
		return r, func() int { return r.pos }
	}
	r := &cr
	return r, func() int { return r.pos }
}

// limitWriter accepts at most acc[i] bytes of the i-th write (-1: all); a short accept returns errBoom.
type limitWriter struct {
	acc  []int
	i    int
	buf  bytes.Buffer
	logs []string
}

// the slice the caller handed to the CipherWriter whose Write is in flight, and its original contents: the
// destination looks at it while it is being written to (another goroutine sharing the slice would)
var cwrCaller, cwrOrig []byte
var cwrTouchedDuring bool

func (w *limitWriter) Write(p []byte) (int, error) {
	if cwrCaller != nil && !bytes.Equal(cwrCaller, cwrOrig) {
		cwrTouchedDuring = true
	}
	a := -1
	if w.i < len(w.acc) {
		a = w.acc[w.i]
	}
	w.i++
	if a < 0 || a >= len(p) {
		w.buf.Write(p)
		return len(p), nil
	}
	w.buf.Write(p[:a])
	return a, errDst
}

func ints(s string) []int {
	if s == "-" {
		return nil
	}
	var r []int
	for _, f := range strings.Split(s, ",") {
		v, _ := strconv.Atoi(f)
		r = append(r, v)
	}
	return r
}

func init() {
	ops["cipher"] = func(a []string) string {
		p := unhx(a[0])
		off, _ := strconv.Atoi(a[2])
		al, _ := strconv.Atoi(a[3])
		buf := make([]byte, len(p)+al+8)
		q := buf[al : al+len(p)]
		copy(q, p)
		ws.Cipher(q, mask4(a[1]), off)
		return hx(q)
	}
	ops["crd"] = func(a []string) string { // crd <hex> <mask> <k> <bufsizes> <fin>
		data := unhx(a[0])
		k, _ := strconv.Atoi(a[2])
		sizes := ints(a[3])
		src, _ := mkReader(data, k, a[4])
		cr := wsutil.NewCipherReader(src, mask4(a[1]))
		var outb []byte
		for i := 0; i < 100000; i++ {
			buf := make([]byte, sizes[i%len(sizes)])
			n, err := cr.Read(buf)
			outb = append(outb, buf[:n]...)
			if err != nil {
				return hx(outb) + " " + classify(err)
			}
		}
		return hx(outb) + " LOOP"
	}
	// crc <hex> <mask> <k> <heads> <fin>: a few Reads of the given sizes, then the rest through
	// io.Copy (which uses an io.WriterTo when the reader has one): the keystream position is the
	// number of bytes delivered so far, whichever way they were delivered.
	ops["crc"] = func(a []string) string {
		data := unhx(a[0])
		k, _ := strconv.Atoi(a[2])
		src, _ := mkReader(data, k, a[4])
		cr := wsutil.NewCipherReader(src, mask4(a[1]))
		var outb []byte
		for _, sz := range ints(a[3]) {
			buf := make([]byte, sz)
			n, err := cr.Read(buf)
			outb = append(outb, buf[:n]...)
			if err != nil {
				return hx(outb) + " " + classify(err)
			}
		}
		var dst bytes.Buffer
		_, err := io.Copy(struct{ io.Writer }{&dst}, cr)
		outb = append(outb, dst.Bytes()...)
		return hx(outb) + " copy:" + classify(err)
	}
	// cwr <mask> <accepts> <p1,p2,...>; cwrs: the same bytes, but the chunks reach the CipherWriter the way other
	// writers' callers hand them over — io.WriteString (an io.StringWriter, if the type ever grows one, is
	// preferred over Write) on even chunks, io.Copy from a strings.Reader on odd ones; the result must not differ
	cwrOp := func(viaString bool) func(a []string) string {
		return func(a []string) string {
		lw := &limitWriter{acc: ints(a[1])}
		cw := wsutil.NewCipherWriter(lw, mask4(a[0]))
		var res []string
		intact := true
		var callers, origs [][]byte
		for ci, ph := range strings.Split(a[2], ",") {
			p := unhx(ph)
			orig := append([]byte(nil), p...)
			callers, origs = append(callers, p), append(origs, orig)
			cwrCaller, cwrOrig, cwrTouchedDuring = p, orig, false
			var n int
			var err error
			switch {
			case viaString && ci%2 == 0:
				n, err = io.WriteString(cw, string(p))
			case viaString:
				var n64 int64
				n64, err = io.Copy(cw, strings.NewReader(string(p)))
				n = int(n64)
				if len(p) == 0 && err == nil {
					n, err = cw.Write(p) // io.Copy of nothing calls nobody
				}
			default:
				n, err = cw.Write(p)
			}
			cwrCaller = nil
			if !bytes.Equal(orig, p) || cwrTouchedDuring {
				intact = false
			}
			res = append(res, fmt.Sprintf("%d:%s", n, classify(err)))
			if err != nil {
				break
			}
		}
		// the caller's slices must also survive whatever the byte pool is used for afterwards
		poolChurn()
		for i := range callers {
			if !bytes.Equal(callers[i], origs[i]) {
				intact = false
			}
		}
		return fmt.Sprintf("%s %s intact=%d", hx(lw.buf.Bytes()), strings.Join(res, ","), b2i(intact))
		}
	}
	ops["cwr"] = cwrOp(false)
	ops["cwrs"] = cwrOp(true)
	// cwrr: like cwr, but after a short write the caller retries the unaccepted tail through the same
	// CipherWriter (the destination then takes it whole) and goes on: the destination must end up with
	// the XOR of ALL the bytes at their running offsets.
	ops["cwrr"] = func(a []string) string {
		lw := &limitWriter{}
		cw := wsutil.NewCipherWriter(lw, mask4(a[0]))
		accs := ints(a[1])
		var res []string
		intact := true
		for i, ph := range strings.Split(a[2], ",") {
			p := unhx(ph)
			orig := append([]byte(nil), p...)
			acc := -1
			if i < len(accs) {
				acc = accs[i]
			}
			for len(lw.acc) < lw.i {
				lw.acc = append(lw.acc, -1)
			}
			lw.acc = append(lw.acc[:lw.i], acc) // the accept for this write; retries and later writes: all
			n, err := cw.Write(p)
			res = append(res, fmt.Sprintf("%d:%s", n, classify(err)))
			if err != nil && n >= 0 && n < len(p) {
				m, err2 := cw.Write(p[n:])
				res = append(res, fmt.Sprintf("retry%d:%s", m, classify(err2)))
			}
			if !bytes.Equal(orig, p) {
				intact = false
			}
		}
		return fmt.Sprintf("%s %s intact=%d", hx(lw.buf.Bytes()), strings.Join(res, ","), b2i(intact))
	}
	ops["mf"] = func(a []string) string { // mf <variant> <f r o m key len(ignored)> <newmask> <payload>
		h := parseHdr(a[1:7])
		p := unhx(a[8])
		// h.Length is what the caller wrote there: usually len(p), but a frame literal may leave it 0 or stale
		caller := append([]byte(nil), p...)
		f := ws.Frame{Header: h, Payload: caller}
		var g ws.Frame
		switch a[0] {
		case "maskWith":
			g = ws.MaskFrameWith(f, mask4(a[7]))
		case "maskInPlaceWith":
			g = ws.MaskFrameInPlaceWith(f, mask4(a[7]))
		case "mask":
			g = ws.MaskFrame(f)
		case "maskInPlace":
			g = ws.MaskFrameInPlace(f)
		case "unmask":
			g = ws.UnmaskFrame(f)
		case "unmaskInPlace":
			g = ws.UnmaskFrameInPlace(f)
		}
		out := fmt.Sprintf("%s %s", hdrStr(g.Header), hx(g.Payload))
		switch a[0] {
		case "maskWith", "mask", "unmask":
			// the copying variants hand back a frame of the caller's own: whatever is done to it afterwards
			// (forwarding it masked in place, say) does not reach the bytes that were passed in
			for i := range g.Payload {
				g.Payload[i] ^= 0xff
			}
		}
		return fmt.Sprintf("%s %s", out, hx(caller))
	}
	register("C02", genC02)
}

func genC02(tier string, r *rng) {
	keys := []string{"00000000", "01020304", "ff807f0a", "a5c33c5a"}
	// exhaustive grid: len 0..80 x offsets x alignments x keys
	offs := []int{0, 1, 2, 3, 4, 5, 6, 7, 8, 9, 1 << 31, 1<<62 + 3}
	for n := 0; n <= 80; n++ {
		p := r.bytes(n)
		for _, off := range offs {
			for al := 0; al < 8; al++ {
				if tier == "quick" && (al+n+off)%3 != 0 {
					continue
				}
				run(fmt.Sprintf("cipher %s %s %d %d", hx(p), keys[(n+al)%4], off, al))
			}
		}
	}
	nr := 300
	if tier == "thorough" {
		nr = 20000
	}
	for i := 0; i < nr; i++ {
		p := r.bytes(r.intn(3000))
		run(fmt.Sprintf("cipher %s %s %d %d", hx(p), hx(r.bytes(4)), r.intn(1000), r.intn(8)))
	}
	// streaming reader: transport chunking x caller buffers x end kinds
	fins := []string{"E", "F", "Ed", "Fd"}
	bufsets := []string{"1", "2", "3,5", "7", "16,1", "17", "4096", "5,64,3"}
	nr = 1500
	if tier == "thorough" {
		nr = 60000
	}
	for i := 0; i < nr; i++ {
		n := r.intn(70)
		if r.intn(10) == 0 {
			n = r.intn(5000)
		}
		run(fmt.Sprintf("crd %s %s %d %s %s", hx(r.bytes(n)), keys[r.intn(4)], r.intn(19), bufsets[r.intn(len(bufsets))], fins[r.intn(4)]))
	}
	// a head taken with Read (every length 0..9, then random), the tail with io.Copy
	for h := 0; h < 10; h++ {
		for _, n := range []int{h, h + 1, h + 7, 40, 700} {
			run(fmt.Sprintf("crc %s %s %d %d %s", hx(r.bytes(n)), keys[1+h%3], []int{0, 3, 16}[h%3], h, fins[h%2]))
		}
	}
	for i := 0; i < nr/5; i++ {
		n := r.intn(90)
		if r.intn(8) == 0 {
			n = r.intn(3000)
		}
		if i%100 == 7 {
			n = 32768 + r.intn(3000) // more than one io.Copy buffer
		}
		heads := []string{"1", "2", "3", "1,1", "5,2", "6", "9,9,1", "0,3", "13"}[r.intn(9)]
		run(fmt.Sprintf("crc %s %s %d %s %s", hx(r.bytes(n)), keys[r.intn(4)], r.intn(19), heads, fins[r.intn(4)]))
	}
	// streaming writer: sequences of writes, possibly one short accept
	for i := 0; i < nr; i++ {
		k := 1 + r.intn(5)
		var ps []string
		var acc []string
		for j := 0; j < k; j++ {
			n := r.intn(40)
			ps = append(ps, hx(r.bytes(n)))
			if r.intn(6) == 0 && n > 0 {
				acc = append(acc, strconv.Itoa(r.intn(n)))
			} else {
				acc = append(acc, "-1")
			}
		}
		run(fmt.Sprintf("cwr %s %s %s", keys[r.intn(4)], strings.Join(acc, ","), strings.Join(ps, ",")))
		if i%3 == 0 {
			run(fmt.Sprintf("cwrs %s - %s", keys[r.intn(4)], strings.Join(ps, ",")))
		}
		run(fmt.Sprintf("cwrr %s %s %s", keys[r.intn(4)], strings.Join(acc, ","), strings.Join(ps, ",")))
		if i%25 == 0 {
			// caller slices whose capacity is a byte-pool class, every key incl. the zero key
			for _, n := range []int{128, 256, 4096} {
				run(fmt.Sprintf("cwr %s - %s,%s", keys[(i/25)%4], hx(r.bytes(n)), hx(r.bytes(n))))
			}
			// a reused (Reset) mask writer / reader starts at offset 0 again whatever it processed before
			h := r.bytes(1 + r.intn(9))
			run(fmt.Sprintf("rst cwr %s %s %s %s", keys[r.intn(4)], hx(h), keys[r.intn(4)], hx(r.bytes(1+r.intn(20)))))
			run(fmt.Sprintf("rst cr %s %s %s %s %d", keys[r.intn(4)], hx(h), keys[r.intn(4)], hx(r.bytes(1+r.intn(20))), 1+r.intn(4)))
		}
	}
	// single writes above the byte pool's largest class (65536), not a multiple of it, then more writes (offset carries on)
	for _, n := range []int{65536, 65537, 70001, 131072, 131075} {
		run(fmt.Sprintf("cwr %s - %s,%s", keys[n%4], hx(r.bytes(n)), hx(r.bytes(5))))
		if n <= 9 {
			run(fmt.Sprintf("cwrs %s - %s,%s,%s", keys[1+n%3], hx(r.bytes(n)), hx(r.bytes(n+1)), hx(r.bytes(6))))
		}
	}
	// the unmasking helpers on a frame that is NOT masked (zero key, and a stale key left in the header)
	for _, v := range []string{"unmask", "unmaskInPlace"} {
		for _, n := range []int{0, 1, 5, 16, 40} {
			for _, key := range []string{"00000000", "01020304"} {
				h := ws.Header{Fin: true, OpCode: ws.OpBinary, Masked: false, Length: int64(n)}
				copy(h.Mask[:], unhx(key))
				run(fmt.Sprintf("mf %s %s %s %s", v, hdrArgs(h), keys[1], hx(r.bytes(n))))
			}
		}
	}
	// frame helpers
	variants := []string{"maskWith", "maskInPlaceWith", "mask", "maskInPlace", "unmask", "unmaskInPlace"}
	for _, v := range variants {
		for _, n := range []int{0, 1, 7, 8, 9, 15, 16, 17, 40, 125, 126, 1000} {
			for _, key := range keys {
				h := ws.Header{Fin: r.bool(), Rsv: byte(r.intn(8)), OpCode: ws.OpCode(r.intn(16)), Masked: strings.HasPrefix(v, "unmask") || r.bool()}
				copy(h.Mask[:], unhx(key))
				h.Length = int64(n)
				run(fmt.Sprintf("mf %s %s %s %s", v, hdrArgs(h), keys[r.intn(4)], hx(r.bytes(n))))
				// Header.Length not in step with the payload (left 0, shorter, longer): the helpers work on the payload
				if n == 9 || n == 40 {
					for _, l := range []int64{0, int64(n) - 3, int64(n) + 5} {
						h.Length = l
						run(fmt.Sprintf("mf %s %s %s %s", v, hdrArgs(h), keys[r.intn(4)], hx(r.bytes(n))))
					}
				}
			}
		}
	}
}
