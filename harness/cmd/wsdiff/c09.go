package main

// C09: server handshake. ws.Upgrader.Upgrade over a chunked transport; ws.HTTPUpgrader.Upgrade
// over net/http's parsed request.
//   up  <cfg> <reqhex> <k> <fin>
//   hup <cfg> <reqhex>
// cfg: comma-separated items, "-" for none:
//   rb:N | proto:a|b (hex items) | neg:s,c,sb,cb (use ';' instead of ',') | ext:n1|n2 (hex) | hdr:<hex>
//   onreq:<rej> | onhost:<rej> | onhdr:<keyhex>:<rej> | before:h:<hex> | before:r:<rej>
//   rej = <code>:<reasonhex>:<hdrhex>   (code 0 = plain error)

import (
	"bufio"
	"bytes"
	"errors"
	"fmt"
	"io"
	"net"
	"net/http"
	"strconv"
	"strings"
	"time"

	"github.com/gobwas/httphead"
	"github.com/gobwas/ws"
	"github.com/gobwas/ws/wsflate"
)

var hsErrNames = map[error]string{
	ws.ErrHandshakeBadProtocol:     "ErrHandshakeBadProtocol",
	ws.ErrHandshakeBadMethod:       "ErrHandshakeBadMethod",
	ws.ErrHandshakeBadHost:         "ErrHandshakeBadHost",
	ws.ErrHandshakeBadUpgrade:      "ErrHandshakeBadUpgrade",
	ws.ErrHandshakeBadConnection:   "ErrHandshakeBadConnection",
	ws.ErrHandshakeBadSecAccept:    "ErrHandshakeBadSecAccept",
	ws.ErrHandshakeBadSecKey:       "ErrHandshakeBadSecKey",
	ws.ErrHandshakeBadSecVersion:   "ErrHandshakeBadSecVersion",
	ws.ErrHandshakeUpgradeRequired: "ErrHandshakeUpgradeRequired",
	ws.ErrMalformedRequest:         "ErrMalformedRequest",
	ws.ErrMalformedResponse:        "ErrMalformedResponse",
	ws.ErrHandshakeBadSubProtocol:  "ErrHandshakeBadSubProtocol",
	ws.ErrHandshakeBadExtensions:   "ErrHandshakeBadExtensions",
	ws.ErrNotHijacker:              "ErrNotHijacker",
}

func hsErrClass(err error) string {
	if err == nil {
		return "nil"
	}
	if n, ok := hsErrNames[err]; ok {
		return "hs:" + n
	}
	switch err {
	case io.EOF:
		return "io:eof"
	case io.ErrUnexpectedEOF:
		return "io:ueof"
	case errBoom:
		return "io:fail"
	case errDst:
		return "io:dfail"
	}
	var se ws.StatusError
	if errors.As(err, &se) {
		return fmt.Sprintf("status:%d", int(se))
	}
	var rej *ws.ConnectionRejectedError
	if errors.As(err, &rej) {
		return "hs:cb"
	}
	if strings.HasPrefix(err.Error(), "wsflate:") {
		return "hs:wsflate"
	}
	if err == errCb {
		return "hs:plain"
	}
	return "other:" + strings.ReplaceAll(err.Error(), " ", "_")
}

var errCb = errors.New("callback says no")

type plainErr struct{ s string }

func (e plainErr) Error() string { return e.s }

func mkRej(f []string) error { // code, reasonhex, hdrhex
	if f[0] == "ok" { // a callback that is installed and accepts
		return nil
	}
	code, _ := strconv.Atoi(f[0])
	reason := string(unhx(f[1]))
	if code == 0 && f[0] != "r0" {
		return plainErr{reason}
	}
	opts := []ws.RejectOption{ws.RejectionReason(reason)}
	if f[0] != "r0" { // "r0": a rejection that chooses no status
		opts = append(opts, ws.RejectionStatus(code))
	}
	if f[2] != "-" {
		opts = append(opts, ws.RejectionHeader(ws.HandshakeHeaderString(unhx(f[2]))))
	}
	return ws.RejectConnectionError(opts...)
}

func hsErrClass2(err error) string {
	if _, ok := err.(plainErr); ok {
		return "hs:plain"
	}
	return hsErrClass(err)
}

func optsStr(os []httphead.Option) string {
	if len(os) == 0 {
		return "-"
	}
	var xs []string
	for _, o := range os {
		xs = append(xs, optStr(o))
	}
	return strings.Join(xs, "|")
}

type upCfg struct {
	u   ws.Upgrader
	hu  ws.HTTPUpgrader
	ext *wsflate.Extension
}

func parseUpCfg(s string) *upCfg {
	c := &upCfg{}
	if s == "-" {
		return c
	}
	for _, it := range strings.Split(s, ",") {
		f := strings.Split(it, ":")
		switch f[0] {
		case "rb":
			c.u.ReadBufferSize, _ = strconv.Atoi(f[1])
		case "proto":
			var acc []string
			if f[1] != "" {
				for _, p := range strings.Split(f[1], "|") {
					acc = append(acc, string(unhx(p)))
				}
			}
			sel := ws.SelectFromSlice(acc)
			c.u.Protocol = func(b []byte) bool { return sel(string(b)) }
			c.hu.Protocol = sel
		case "protoc":
			// Upgrader.ProtocolCustom: the application parses the header value itself - here exactly as the library
			// would for Protocol (first acceptable token of a well-formed list), so the outcome must be the same
			var acc []string
			if f[1] != "" {
				for _, p := range strings.Split(f[1], "|") {
					acc = append(acc, string(unhx(p)))
				}
			}
			sel := ws.SelectFromSlice(acc)
			c.u.ProtocolCustom = func(v []byte) (string, bool) {
				var selected []byte
				ok := httphead.ScanTokens(v, func(t []byte) bool {
					if sel(string(t)) {
						selected = append([]byte(nil), t...)
						return false
					}
					return true
				})
				if ok && selected != nil {
					return string(selected), true
				}
				return "", ok
			}
			c.hu.Protocol = sel
		case "neg":
			c.ext = &wsflate.Extension{Parameters: parseCfg14(strings.ReplaceAll(f[1], ";", ","))}
			c.u.Negotiate = c.ext.Negotiate
			c.hu.Negotiate = c.ext.Negotiate
		case "ext":
			var acc []string
			for _, p := range strings.Split(f[1], "|") {
				acc = append(acc, string(unhx(p)))
			}
			sel := ws.SelectFromSlice(acc)
			fn := func(o httphead.Option) bool { return sel(string(o.Name)) }
			c.u.Extension = fn
			c.hu.Extension = fn
		case "hdr":
			c.u.Header = ws.HandshakeHeaderString(unhx(f[1]))
		case "onreq":
			e := mkRej(f[1:4])
			c.u.OnRequest = func([]byte) error { return e }
		case "onhost":
			e := mkRej(f[1:4])
			c.u.OnHost = func([]byte) error { return e }
		case "onhdr":
			key := string(unhx(f[1]))
			e := mkRej(f[2:5])
			c.u.OnHeader = func(k, v []byte) error {
				if string(k) == key {
					return e
				}
				return nil
			}
		case "before":
			if f[1] == "h" {
				h := ws.HandshakeHeaderString(unhx(f[2]))
				c.u.OnBeforeUpgrade = func() (ws.HandshakeHeader, error) { return h, nil }
			} else {
				e := mkRej(f[2:5])
				c.u.OnBeforeUpgrade = func() (ws.HandshakeHeader, error) { return nil, e }
			}
		}
	}
	return c
}

// fake hijackable ResponseWriter
type hjConn struct {
	net.Conn
	buf       bytes.Buffer
	failWrite bool // the peer is gone: every write fails
	failAfter int  // failWrite only: this many bytes are still taken first
}

func (c *hjConn) Write(p []byte) (int, error) {
	if c.failWrite {
		if c.failAfter >= len(p) {
			c.failAfter -= len(p)
			return c.buf.Write(p)
		}
		n := c.failAfter
		c.failAfter = 0
		c.buf.Write(p[:n])
		return n, errDst
	}
	return c.buf.Write(p)
}
func (c *hjConn) SetDeadline(time.Time) error        { return nil }
func (c *hjConn) SetWriteDeadline(time.Time) error   { return nil }
func (c *hjConn) SetReadDeadline(time.Time) error    { return nil }
func (c *hjConn) Close() error                       { return nil }

type hjWriter struct {
	conn *hjConn
	h    http.Header
}

func (w *hjWriter) Header() http.Header        { return w.h }
func (w *hjWriter) Write(p []byte) (int, error) { return w.conn.buf.Write(p) }
func (w *hjWriter) WriteHeader(int)             {}
func (w *hjWriter) Hijack() (net.Conn, *bufio.ReadWriter, error) {
	return w.conn, bufio.NewReadWriter(bufio.NewReader(bytes.NewReader(nil)), bufio.NewWriter(w.conn)), nil
}

func init() {
	ops["up"] = func(a []string) string {
		c := parseUpCfg(a[0])
		k, _ := strconv.Atoi(a[2])
		src, pos := mkReader(unhx(a[1]), k, a[3])
		d := &recDst{failAt: -1}
		hs, err := c.u.Upgrade(rwPair{src, d})
		var wr []byte
		for _, w := range d.writes {
			wr = append(wr, w...)
		}
		return fmt.Sprintf("%s proto=%s exts=%s written=%s pos=%d", hsErrClass2(err), hx([]byte(hs.Protocol)), optsStr(hs.Extensions), hx(wr), pos())
	}
	ops["hup"] = func(a []string) string {
		c := parseUpCfg(a[0])
		req, err := http.ReadRequest(bufio.NewReader(bytes.NewReader(unhx(a[1]))))
		if err != nil {
			return "SKIP:net/http:" + strings.ReplaceAll(err.Error(), " ", "_")
		}
		conn := &hjConn{}
		w := &hjWriter{conn: conn, h: http.Header{}}
		_, _, hs, err := c.hu.Upgrade(req, w)
		// the abstract request net/http produced is an input of the model
		var hv []string
		for _, key := range []string{"Upgrade", "Connection", "Sec-Websocket-Key", "Sec-Websocket-Version", "Sec-Websocket-Protocol", "Sec-Websocket-Extensions"} {
			vals := req.Header[key]
			var xs []string
			for _, v := range vals {
				xs = append(xs, hx([]byte(v)))
			}
			hv = append(hv, hx([]byte(key))+"="+strings.Join(xs, "+"))
		}
		areq := fmt.Sprintf("%s;%d;%d;%s;%s", hx([]byte(req.Method)), req.ProtoMajor, req.ProtoMinor, hx([]byte(req.Host)), strings.Join(hv, ";"))
		return fmt.Sprintf("%s proto=%s exts=%s written=%s areq=%s", hsErrClass2(err), hx([]byte(hs.Protocol)), optsStr(hs.Extensions), hx(conn.buf.Bytes()), areq)
	}
	// hupw <cfg> <reqhex>: HTTPUpgrader when the hijacked connection refuses every write (the client has gone
	// away): the handshake did not happen, whatever the request was
	ops["hupw"] = func(a []string) string {
		c := parseUpCfg(a[0])
		req, err := http.ReadRequest(bufio.NewReader(bytes.NewReader(unhx(a[1]))))
		if err != nil {
			return "SKIP:net/http"
		}
		conn := &hjConn{failWrite: true}
		if len(a) > 2 {
			conn.failAfter, _ = strconv.Atoi(a[2]) // the connection breaks after this many bytes of the response
		}
		_, _, _, err = c.hu.Upgrade(req, &hjWriter{conn: conn, h: http.Header{}})
		return fmt.Sprintf("%s written=%d", hsErrClass2(err), conn.buf.Len())
	}
	// upnr <code> <reasonhex> <hdrhex> <reqhex>: both upgraders with a Negotiate callback of the application's own
	// that REJECTS the connection (status, reason, extra header): the response is the callback's
	ops["upnr"] = func(a []string) string {
		rej := mkRej(a[0:3])
		neg := func(httphead.Option) (httphead.Option, error) { return httphead.Option{}, rej }
		reqB := unhx(a[3])
		var out bytes.Buffer
		_, e1 := ws.Upgrader{Negotiate: neg}.Upgrade(rwPair{bytes.NewReader(reqB), &out})
		res := fmt.Sprintf("%s written=%s", hsErrClass2(e1), hx(out.Bytes()))
		if req, err := http.ReadRequest(bufio.NewReader(bytes.NewReader(reqB))); err == nil {
			conn := &hjConn{}
			_, _, _, e2 := ws.HTTPUpgrader{Negotiate: neg}.Upgrade(req, &hjWriter{conn: conn, h: http.Header{}})
			res += fmt.Sprintf(" h=%s hwritten=%s", hsErrClass2(e2), hx(conn.buf.Bytes()))
		}
		return res
	}
	register("C09", genC09)
	register("C09", genHsCut)
	register("C16", genHsCut)
}

// ---- request grammar ----

type hdr struct{ k, v string }

func buildReq(method, uri, version string, hs []hdr, eol string) []byte {
	var b bytes.Buffer
	b.WriteString(method + " " + uri + " " + version + eol)
	for _, h := range hs {
		b.WriteString(h.k + ":" + h.v + eol)
	}
	b.WriteString(eol)
	return b.Bytes()
}

func baseHeaders() []hdr {
	return []hdr{{"Host", " example.com"}, {"Upgrade", " websocket"}, {"Connection", " Upgrade"},
		{"Sec-WebSocket-Version", " 13"}, {"Sec-WebSocket-Key", " dGhlIHNhbXBsZSBub25jZQ=="}}
}

func withHeader(hs []hdr, idx int, repl []hdr) []hdr {
	out := append([]hdr{}, hs[:idx]...)
	out = append(out, repl...)
	return append(out, hs[idx+1:]...)
}

func genC09(tier string, r *rng) {
	emitUp := func(cfg string, req []byte) {
		k := []int{0, 1, 7, 16, 33}[r.intn(5)]
		run(fmt.Sprintf("up %s %s %d E", cfg, hx(req), k))
		run(fmt.Sprintf("hup %s %s", cfg, hx(req)))
	}
	base := baseHeaders()
	hdrCfg0 := "hdr:" + hx([]byte("X-Server: t\r\n"))
	// the plain good request, LF and CRLF, lowercase / uppercase header names
	for _, eol := range []string{"\r\n", "\n"} {
		emitUp("-", buildReq("GET", "/ws", "HTTP/1.1", base, eol))
		var lower, upper []hdr
		for _, h := range base {
			lower = append(lower, hdr{strings.ToLower(h.k), h.v})
			upper = append(upper, hdr{strings.ToUpper(h.k), h.v})
		}
		emitUp("-", buildReq("GET", "/ws", "HTTP/1.1", lower, eol))
		emitUp("-", buildReq("GET", "/ws", "HTTP/1.1", upper, eol))
	}
	// methods and versions (incl. non-digits 0x3a-0x3f, leading zeros, overflowing numbers)
	for _, m := range []string{"GET", "get", "POST", "HEAD", "GETX", ""} {
		emitUp("-", buildReq(m, "/", "HTTP/1.1", base, "\r\n"))
	}
	for _, v := range []string{"HTTP/1.1", "HTTP/1.0", "HTTP/1.2", "HTTP/1.10", "HTTP/2.0", "HTTP/2.1", "HTTP/0.9", "HTTP/1.;", "HTTP/1.:", "HTTP/01.01",
		"HTTP/+1.1", "HTTP/1.+1", "HTTP/+1.+1", "HTTP/-1.1", "HTTP/1.-1", "HTTP/+2.0", "HTTP/1_0.1", "HTTP/0x1.1",
		"HTTP/1.01", "HTTP/18446744073709551617.1", "HTTP/1.18446744073709551617", "HTTP/1", "HTTP/1.", "HTTP/.1", "HTTP/1.1 ", "HTTP/1.1 x", "http/1.1", "HTTP/1,1", "HTTX/1.1", "HTTP/1.1.1", "", "HTTP/1.x", "HTTP/:.1"} {
		emitUp("-", buildReq("GET", "/", v, base, "\r\n"))
	}
	emitUp("-", []byte("GET /\r\nHost: x\r\n\r\n"))
	emitUp("-", []byte("GET\r\n\r\n"))
	emitUp("-", []byte("\r\n\r\n"))
	// each required header: absent / case-varied value / padded / wrong / duplicated good-bad, bad-good
	variants := map[string][]string{
		"Host":                  {" example.com", "", " ", "\texample.com\t"},
		"Upgrade":               {" websocket", " WebSocket", "websocket", "\t websocket \t", " websocket2", " h2c, websocket", "", " web socket", " websocke2, websocket", " WebSocket, xebsocket", " xebsocket"},
		"Connection":            {" Upgrade", " upgrade", " keep-alive, Upgrade", " Upgrade, keep-alive", " keep-alive,upgrade,x", " keep-alive", " notupgrade", " upgradex, keep-alive", "", " \"upgrade\"", " keep-alive Upgrade", " Upgrade;q=1",
			// other elements of the token's own length, before and after it
			" Trailer, Upgrade", " Upgrade, Trailer", " X-Trace, upgrade, Trailer", " Trailer", " upgradE,Upgrade", " Trailer, X-Trace"},
		"Sec-WebSocket-Version": {" 13", "13", " 12", " 14", " 013", " 13 ", "", " 13, 12", " x"},
		"Sec-WebSocket-Key":     {" dGhlIHNhbXBsZSBub25jZQ==", " dGhlIHNhbXBsZSBub25jZQ=", " dGhlIHNhbXBsZSBub25jZQ===", "", " !!!!!!!!!!!!!!!!!!!!!!!!", " dGhlIHNhbXBsZSBub25jZQ==dGhlIHNhbXBsZSBub25jZQ==", "\tAAAAAAAAAAAAAAAAAAAAAA==  ",
			" AAAAAAAAAAAAAAAAAAAAAAAA", " dGhlIHNhbXBsZSBub25jZQE=", " AAAA====AAAAAAAAAAAAAAAA"},
	}
	names := []string{"Host", "Upgrade", "Connection", "Sec-WebSocket-Version", "Sec-WebSocket-Key"}
	for i, nm := range names {
		emitUp("-", buildReq("GET", "/", "HTTP/1.1", withHeader(base, i, nil), "\r\n")) // absent
		for _, v := range variants[nm] {
			emitUp("-", buildReq("GET", "/", "HTTP/1.1", withHeader(base, i, []hdr{{nm, v}}), "\r\n"))
			// duplicated: good then this, this then good
			emitUp("-", buildReq("GET", "/", "HTTP/1.1", withHeader(base, i, []hdr{base[i], {nm, v}}), "\r\n"))
			emitUp("-", buildReq("GET", "/", "HTTP/1.1", withHeader(base, i, []hdr{{nm, v}, base[i]}), "\r\n"))
		}
	}
	// malformed header lines, extra headers, ordering
	emitUp("-", buildReq("GET", "/", "HTTP/1.1", append([]hdr{{"X-A", " 1"}, {"Cookie", " " + strings.Repeat("c", 300)}}, base...), "\r\n"))
	emitUp("-", append(buildReq("GET", "/", "HTTP/1.1", base[:2], "\r\n")[:40], []byte("NoColonHere\r\n\r\n")...))
	rev := []hdr{base[4], base[3], base[2], base[1], base[0]}
	emitUp("-", buildReq("GET", "/chat?x=1", "HTTP/1.1", rev, "\r\n"))
	// a header line without a colon at every position, CRLF and LF, with and without extra response headers:
	// the request line has parsed, so an error RESPONSE is due
	for _, eol := range []string{"\r\n", "\n"} {
		for pos := 0; pos <= len(base); pos++ {
			hs := append(append(append([]hdr{}, base[:pos]...), hdr{"", ""}), base[pos:]...)
			req := bytes.Replace(buildReq("GET", "/ws", "HTTP/1.1", hs, eol), []byte(eol+":"+eol), []byte(eol+"X-Request-Id 8f14e45fceea167a"+eol), 1)
			emitUp("-", req)
			emitUp(hdrCfg0, req)
		}
	}
	// header lines with an EMPTY name (the colon is the first byte), with blanks before the colon, alone
	for _, eol := range []string{"\r\n", "\n"} {
		for pos := 0; pos <= len(base); pos += 2 {
			// (no leading blank: net/http would read that as a folded continuation of the line before)
			for _, line := range []string{": x", ":", ":::", ": "} {
				hs := append(append(append([]hdr{}, base[:pos]...), hdr{"", ""}), base[pos:]...)
				req := bytes.Replace(buildReq("GET", "/ws", "HTTP/1.1", hs, eol), []byte(eol+":"+eol), []byte(eol+line+eol), 1)
				emitUp("-", req)
			}
		}
	}
	// bytes that are NOT blanks glued to the edges of mandatory header names and values (only SP and HTAB
	// may be ignored): vertical tab, form feed, CR, NEL (U+0085), NBSP (U+00A0), NUL
	for i, nm := range names {
		for _, junk := range []string{"\v", "\f", "\r", "\u0085", "\u00a0", "\x00"} {
			good := strings.TrimSpace(base[i].v)
			for _, v := range []string{" " + good + junk, " " + junk + good, junk + " " + good, " " + good + " " + junk} {
				emitUp("-", buildReq("GET", "/", "HTTP/1.1", withHeader(base, i, []hdr{{nm, v}}), "\r\n"))
			}
			emitUp("-", buildReq("GET", "/", "HTTP/1.1", withHeader(base, i, []hdr{{nm + junk, base[i].v}}), "\r\n"))
			emitUp("-", buildReq("GET", "/", "HTTP/1.1", withHeader(base, i, []hdr{{junk + nm, base[i].v}}), "\r\n"))
		}
	}
	// subprotocols
	protoCfgs := []string{"proto:" + hx([]byte("chat")), "proto:" + hx([]byte("b")) + "|" + hx([]byte("c")), "proto:", "-"}
	protoVals := []string{" chat", " a, b, c", " c,b", " a", "", " a,,b", " a, \"b\"", " b;c", " (x) b", " ,", " b\t,c", " chat, superchat", " ch at"}
	for _, pc := range protoCfgs {
		for _, pv := range protoVals {
			emitUp(pc, buildReq("GET", "/", "HTTP/1.1", append(append([]hdr{}, base...), hdr{"Sec-WebSocket-Protocol", pv}), "\r\n"))
		}
		emitUp(pc, buildReq("GET", "/", "HTTP/1.1", append(append([]hdr{}, base...), hdr{"Sec-WebSocket-Protocol", " x"}, hdr{"Sec-WebSocket-Protocol", " b, chat"}), "\r\n"))
		// the list split over several header lines, the acceptable entry on a line that is NOT the last; through
		// Protocol and through ProtocolCustom
		for _, lines := range [][]string{{" chat", " x"}, {" b", " c"}, {" x", " b", " y"}, {" c, chat", " b", " chat"}, {" chat", ""}} {
			hs := append([]hdr{}, base...)
			for _, l := range lines {
				hs = append(hs, hdr{"Sec-WebSocket-Protocol", l})
			}
			emitUp(pc, buildReq("GET", "/", "HTTP/1.1", hs, "\r\n"))
			if strings.HasPrefix(pc, "proto:") {
				emitUp("protoc:"+pc[6:], buildReq("GET", "/", "HTTP/1.1", hs, "\r\n"))
			}
		}
		if strings.HasPrefix(pc, "proto:") {
			for _, pv := range protoVals {
				emitUp("protoc:"+pc[6:], buildReq("GET", "/", "HTTP/1.1", append(append([]hdr{}, base...), hdr{"Sec-WebSocket-Protocol", pv}), "\r\n"))
			}
		}
	}
	// extensions: negotiation through wsflate, deprecated selector
	extVals := []string{" permessage-deflate", " permessage-deflate; client_max_window_bits", " permessage-deflate; server_max_window_bits=10, permessage-deflate",
		" x-foo, permessage-deflate; server_no_context_takeover", " permessage-deflate; unknown=1", " permessage-deflate; client_max_window_bits=7",
		" permessage-deflate; client_max_window_bits=\"10\"", " permessage-deflate;", " ;", " a;b=c, d", " a; b=\"c\\\"d\"", " a; b=\"x\\y\"", "", " a b",
		// an offer the negotiator objects to FOLLOWED by acceptable ones in the same line: the objection stands
		" permessage-deflate; server_max_window_bits=7, permessage-deflate", " permessage-deflate; unknown=1, permessage-deflate, x-foo",
		" permessage-deflate; client_max_window_bits=16, permessage-deflate; client_max_window_bits", " x-foo, permessage-deflate; server_no_context_takeover=1, permessage-deflate"}
	extCfgs := []string{"neg:0;0;0;0", "neg:1;1;12;10", "ext:" + hx([]byte("permessage-deflate")), "ext:" + hx([]byte("a")) + "|" + hx([]byte("d")), "-"}
	for _, ec := range extCfgs {
		for _, ev := range extVals {
			emitUp(ec, buildReq("GET", "/", "HTTP/1.1", append(append([]hdr{}, base...), hdr{"Sec-WebSocket-Extensions", ev}), "\r\n"))
		}
		emitUp(ec, buildReq("GET", "/", "HTTP/1.1", append(append([]hdr{}, base...), hdr{"Sec-WebSocket-Extensions", " x"}, hdr{"Sec-WebSocket-Extensions", " permessage-deflate"}), "\r\n"))
		// several Sec-WebSocket-Extensions lines: an objectionable or malformed one first, in the middle, last
		for _, ev := range extVals {
			good := hdr{"Sec-WebSocket-Extensions", " permessage-deflate"}
			other := hdr{"Sec-WebSocket-Extensions", " x-foo"}
			bad := hdr{"Sec-WebSocket-Extensions", ev}
			for _, three := range [][]hdr{{bad, good}, {good, bad}, {other, bad, good}, {bad, other, other}} {
				emitUp(ec, buildReq("GET", "/", "HTTP/1.1", append(append([]hdr{}, base...), three...), "\r\n"))
			}
		}
	}
	// the response cannot be written
	for _, cfg := range []string{"-", "proto:" + hx([]byte("chat")), "neg:0;0;0;0"} {
		run(fmt.Sprintf("hupw %s %s", cfg, hx(buildReq("GET", "/", "HTTP/1.1", append(append([]hdr{}, base...), hdr{"Sec-WebSocket-Protocol", " chat"}, hdr{"Sec-WebSocket-Extensions", " permessage-deflate"}), "\r\n"))))
		run(fmt.Sprintf("hupw %s %s", cfg, hx(buildReq("GET", "/", "HTTP/1.1", base[:3], "\r\n"))))
	}
	// callbacks: every combination of accept / reject (custom status, headers; plain error)
	rej1 := "403:" + hx([]byte("forbidden by test")) + ":" + hx([]byte("X-Why: because\r\n"))
	rej2 := "0:" + hx([]byte("plain failure")) + ":-"
	rej3 := "401:" + hx([]byte("")) + ":-"
	hdrCfg := "hdr:" + hx([]byte("X-Server: t\r\n"))
	rej4 := "r0:" + hx([]byte("no status chosen")) + ":" + hx([]byte("X-Why: unsaid\r\n"))
	rej5 := "r0:" + hx([]byte("")) + ":-"
	// reasons ending in a line break: the body is exactly the text the Content-Length was computed from
	rej6 := "403:" + hx([]byte("denied\n")) + ":-"
	rej7 := "r0:" + hx([]byte("two lines\r\nsecond\r\n")) + ":" + hx([]byte("X-Why: nl\r\n"))
	cbs := []string{"onreq:" + rej4, "before:r:" + rej5, "onhost:" + rej4, "onhdr:" + hx([]byte("X-A")) + ":" + rej4, "onreq:" + rej1, "onhost:" + rej2, "onhdr:" + hx([]byte("X-A")) + ":" + rej3, "before:r:" + rej1, "before:h:" + hx([]byte("Set-Cookie: a=b\r\n")), hdrCfg}
	// a Negotiate callback of the application's own that rejects with a status, a reason and a header
	for _, rj := range []string{rej1, rej3, rej4, rej6, "429:" + hx([]byte("slow down")) + ":" + hx([]byte("Retry-After: 3\r\n"))} {
		f := strings.Split(rj, ":")
		for _, ev := range []string{" permessage-deflate", " x-foo; a=b, permessage-deflate; client_max_window_bits"} {
			run(fmt.Sprintf("upnr %s %s %s %s", f[0], f[1], f[2], hx(buildReq("GET", "/", "HTTP/1.1", append(append([]hdr{}, base...), hdr{"Sec-WebSocket-Extensions", ev}), "\r\n"))))
		}
	}
	for _, cfg := range []string{"onreq:" + rej6, "onhost:" + rej7, "before:r:" + rej6, "onhdr:" + hx([]byte("X-A")) + ":" + rej7} {
		emitUp(cfg, buildReq("GET", "/", "HTTP/1.1", append([]hdr{{"X-A", " 1"}}, base...), "\r\n"))
	}
	for mask := 0; mask < 1<<uint(len(cbs)); mask++ {
		if tier == "quick" && mask%3 != 0 && mask > 8 {
			continue
		}
		var items []string
		for i, c := range cbs {
			if mask&(1<<uint(i)) != 0 {
				items = append(items, c)
			}
		}
		cfg := "-"
		if len(items) > 0 {
			cfg = strings.Join(items, ",")
		}
		emitUp(cfg, buildReq("GET", "/", "HTTP/1.1", append([]hdr{{"X-A", " 1"}}, base...), "\r\n"))
		emitUp(cfg, buildReq("GET", "/", "HTTP/1.1", withHeader(base, 1, []hdr{{"Upgrade", " nope"}}), "\r\n"))
	}
	// a defect FIRST, then callbacks that accept what follows (an installed OnHost / OnHeader returning nil): the
	// verdict on the earlier line stands
	acceptCbs := []string{"onhost:ok:-:-", "onhdr:" + hx([]byte("X-A")) + ":" + rej3, "onhost:ok:-:-,onhdr:" + hx([]byte("X-A")) + ":ok:-:-"}
	for _, cfg := range acceptCbs {
		for i, nm := range names {
			if nm == "Host" {
				continue
			}
			for _, v := range variants[nm][1:] {
				// the defective header, then the others (Host among them), then application headers
				hs := append([]hdr{{nm, v}}, withHeader(base, i, nil)...)
				hs = append(hs, hdr{"X-B", " 1"}, hdr{"Origin", " http://example.com"})
				emitUp(cfg, buildReq("GET", "/", "HTTP/1.1", hs, "\r\n"))
			}
		}
		for _, m := range []string{"POST", "PUT"} {
			emitUp(cfg, buildReq(m, "/", "HTTP/1.1", append(append([]hdr{}, base...), hdr{"X-B", " 1"}), "\r\n"))
		}
		emitUp(cfg, buildReq("GET", "/", "HTTP/1.0", append(append([]hdr{}, base...), hdr{"X-B", " 1"}), "\r\n"))
		emitUp("onreq:"+rej1+","+cfg, buildReq("GET", "/", "HTTP/1.1", append(append([]hdr{}, base...), hdr{"X-B", " 1"}), "\r\n"))
	}
	// small read buffers and long lines
	for _, rb := range []int{1, 16, 17, 64} {
		long := buildReq("GET", "/"+strings.Repeat("p", 40), "HTTP/1.1", append([]hdr{{"X-Long", " " + strings.Repeat("v", rb*3+1)}}, base...), "\r\n")
		for _, k := range []int{0, 1, rb, rb + 1} {
			run(fmt.Sprintf("up rb:%d %s %d E", rb, hx(long), k))
		}
	}
	// random grammar sampling
	n := 300
	if tier == "thorough" {
		n = 20000
	}
	for i := 0; i < n; i++ {
		hs := append([]hdr{}, base...)
		for j := 0; j < 1+r.intn(2); j++ {
			idx := r.intn(5)
			vs := variants[names[idx]]
			hs[idx] = hdr{[]string{names[idx], strings.ToLower(names[idx]), strings.ToUpper(names[idx])}[r.intn(3)], vs[r.intn(len(vs))]}
		}
		if r.intn(3) == 0 {
			hs = append(hs, hdr{"Sec-WebSocket-Protocol", protoVals[r.intn(len(protoVals))]})
		}
		if r.intn(3) == 0 {
			hs = append(hs, hdr{"Sec-WebSocket-Extensions", extVals[r.intn(len(extVals))]})
		}
		r2 := r.intn(len(hs))
		hs[0], hs[r2] = hs[r2], hs[0]
		cfgItems := []string{}
		if r.bool() {
			cfgItems = append(cfgItems, protoCfgs[r.intn(3)])
		}
		if r.bool() {
			cfgItems = append(cfgItems, extCfgs[r.intn(4)])
		}
		if r.intn(4) == 0 {
			cfgItems = append(cfgItems, cbs[r.intn(len(cbs))])
		}
		cfg := "-"
		if len(cfgItems) > 0 {
			cfg = strings.Join(cfgItems, ",")
		}
		emitUp(cfg, buildReq([]string{"GET", "GET", "GET", "PUT"}[r.intn(4)], "/r", []string{"HTTP/1.1", "HTTP/1.1", "HTTP/1.0", "HTTP/1.3"}[r.intn(4)], hs, []string{"\r\n", "\n"}[r.intn(2)]))
	}
}

// genHsCut: a request cut (clean EOF or read error) at every offset, including every line boundary:
// the handshake must fail and must not write a 101.
func genHsCut(tier string, r *rng) {
	base := baseHeaders()
	reqs := [][]byte{
		buildReq("GET", "/", "HTTP/1.1", base, "\r\n"),
		buildReq("GET", "/ws", "HTTP/1.1", append(append([]hdr{}, base...), hdr{"Origin", " http://example.com"}, hdr{"User-Agent", " t"}), "\r\n"),
		buildReq("GET", "/ws", "HTTP/1.1", append(append([]hdr{}, base...), hdr{"X-A", " 1"}), "\n"),
	}
	for _, req := range reqs {
		for l := 0; l < len(req); l++ {
			boundary := l > 0 && req[l-1] == '\n'
			if tier == "quick" && !boundary && l%5 != 0 {
				continue
			}
			for _, fin := range []string{"E", "F"} {
				k := []int{0, 1, 7, 16}[r.intn(4)]
				run(fmt.Sprintf("up - %s %d %s", hx(req[:l]), k, fin))
			}
		}
	}
	// the net/http entry point: the hijacked connection breaks after k bytes of the response, every k below its
	// length (129 bytes for the plain request) - a handshake whose response did not go out is not a success
	for k := 0; k < 129; k++ {
		if tier == "quick" && k%8 != 0 && k < 120 {
			continue
		}
		run(fmt.Sprintf("hupw - %s %d", hx(reqs[0]), k))
	}
	// the client side: a valid 101 (optional headers AFTER the mandatory ones, CRLF and LF) cut at every offset -
	// the handshake is an error until the blank line has arrived
	rb := baseRespHeaders()
	resps := [][]byte{
		buildResp("HTTP/1.1 101 Switching Protocols", rb, "\r\n", nil),
		buildResp("HTTP/1.1 101 Switching Protocols", append(append([]hdr{}, rb...), hdr{"Server", " t"}, hdr{"X-Trailing", " " + strings.Repeat("z", 20)}), "\r\n", nil),
		buildResp("HTTP/1.1 101 Switching Protocols", append(append([]hdr{}, rb...), hdr{"Date", " today"}), "\n", nil),
	}
	for _, resp := range resps {
		for l := 0; l < len(resp); l++ {
			boundary := l > 0 && resp[l-1] == '\n'
			if tier == "quick" && !boundary && l%4 != 0 && l < len(resp)-6 {
				continue
			}
			for _, fin := range []string{"E", "F"} {
				run(fmt.Sprintf("dl - %s %s %d %s", hx([]byte("ws://example.com/x")), hx(resp[:l]), []int{0, 1, 7, 16}[r.intn(4)], fin))
			}
		}
	}
}
