package main

// C05 (violations at the k-th frame), C16 reader side (cuts and failing transports),
// C07 wiring (text validity across fragments/controls/chunkings), C08 reader-path control handling.

import (
	"unicode/utf8"
	"bytes"
	"fmt"
	"strings"

	"github.com/gobwas/ws"
)

func sideOf(server bool) int {
	if server {
		return 1
	}
	return 2
}

// encodeRaw lets the generator break rules: explicit masked flag per frame.
type rframe struct {
	gframe
	masked bool
}

func encodeRawStream(fs []rframe, r *rng) []byte {
	var out []byte
	for _, f := range fs {
		fr := ws.Frame{Header: ws.Header{Fin: f.fin, Rsv: f.rsv, OpCode: f.op, Length: int64(len(f.payload))}, Payload: append([]byte(nil), f.payload...)}
		if f.masked {
			var m [4]byte
			copy(m[:], r.bytes(4))
			fr = ws.MaskFrameInPlaceWith(fr, m)
		}
		b, _ := ws.CompileFrame(fr)
		out = append(out, b...)
	}
	return out
}

func toRaw(fs []gframe, server bool) []rframe {
	var o []rframe
	for _, f := range fs {
		o = append(o, rframe{f, server})
	}
	return o
}

// invalidFrames: every kind of offending frame for a reader on the given side.
func invalidFrames(server bool, fragmented bool, r *rng) []rframe {
	m := server
	var o []rframe
	o = append(o, rframe{gframe{true, 0, 3, r.bytes(2)}, m})                  // reserved data opcode
	o = append(o, rframe{gframe{true, 0, 0xb, nil}, m})                       // reserved control opcode
	o = append(o, rframe{gframe{true, 0, ws.OpPing, r.bytes(126)}, m})        // control too long
	o = append(o, rframe{gframe{false, 0, ws.OpPing, r.bytes(3)}, m})         // control not final
	o = append(o, rframe{gframe{true, 4, ws.OpBinary, r.bytes(3)}, m})        // RSV without extension
	o = append(o, rframe{gframe{true, 1, ws.OpPong, nil}, m})                 // RSV3 on control
	o = append(o, rframe{gframe{true, 0, ws.OpText, []byte("hi")}, !m})       // wrong masking
	o = append(o, rframe{gframe{true, 0, ws.OpPing, []byte("p")}, !m})        // wrong masking on control
	// the masking rule does not depend on there being a payload
	o = append(o, rframe{gframe{true, 0, ws.OpPing, nil}, !m})
	if fragmented {
		o = append(o, rframe{gframe{true, 0, ws.OpContinuation, nil}, !m}) // empty final fragment, wrong masking
	} else {
		o = append(o, rframe{gframe{true, 0, ws.OpText, nil}, !m})
		o = append(o, rframe{gframe{false, 0, ws.OpBinary, nil}, !m})
	}
	if fragmented {
		o = append(o, rframe{gframe{true, 0, ws.OpText, []byte("new")}, m})   // new data frame while fragmented
		o = append(o, rframe{gframe{false, 0, ws.OpBinary, []byte("new")}, m})
		o = append(o, rframe{gframe{true, 0, ws.OpContinuation, []byte("c")}, !m})
	} else {
		o = append(o, rframe{gframe{true, 0, ws.OpContinuation, []byte("c")}, m}) // continuation while idle
		o = append(o, rframe{gframe{false, 0, ws.OpContinuation, nil}, m})
	}
	return o
}

func scriptFor(nUnits int, r *rng) string {
	var script []string
	for m := 0; m < nUnits; m++ {
		switch r.intn(5) {
		case 0:
			script = append(script, "nf", "ra", "st")
		case 1:
			script = append(script, "nf", fmt.Sprintf("r:%d", []int{1, 3, 512}[r.intn(3)]), fmt.Sprintf("r:%d", 1+r.intn(5)), "ra", "st")
		case 2:
			script = append(script, "nf", fmt.Sprintf("r:%d", []int{1, 2, 3, 5}[r.intn(4)]), "d", "st")
		case 3:
			script = append(script, "nf", "st", "ra", "st") // position right after NextFrame
		default:
			script = append(script, "nf", "d", "st")
		}
	}
	return strings.Join(script, " ")
}

func emitReaderCases(st int, enc []byte, k int, fin string, seed int, nUnits int, cfg string, r *rng) {
	run(fmt.Sprintf("rm %d %s %d %s", st, hx(enc), k, fin))
	run(fmt.Sprintf("rdd %d %s %s %d %s %d", st, []string{"D", "T", "B"}[r.intn(3)], hx(enc), k, fin, seed))
	run(fmt.Sprintf("rdr %d %s %s %d %s %s", st, cfg, hx(enc), k, fin, scriptFor(nUnits, r)))
}

func genC05(tier string, r *rng) {
	reps := 2
	if tier == "thorough" {
		reps = 40
	}
	// a reader that has an extension attached but whose State does not say extensions were
	// negotiated: every RSV bit is still refused, at the frame that carries it
	for _, server := range []bool{true, false} {
		st := sideOf(server)
		for rsv := 1; rsv < 8; rsv++ {
			for pos := 0; pos < 4; pos++ {
				b := func(i int) byte {
					if i == pos {
						return byte(rsv)
					}
					return 0
				}
				fs := []gframe{
					{true, b(0), ws.OpText, []byte("one")},
					{false, b(1), ws.OpBinary, []byte("ab")},
					{true, b(2), ws.OpPing, []byte("p")},
					{true, b(3), ws.OpContinuation, []byte("cd")},
					{true, 0, ws.OpText, []byte("AFTER")},
				}
				enc := encodeStream(fs, server, r)
				run(fmt.Sprintf("rdr %d ext,inter %s %d E nf st ra st nf st ra st nf st ra st", st, hx(enc), (rsv+pos)%3))
				run(fmt.Sprintf("rdr %d ext,utf8 %s %d E nf st ra st nf st ra st nf st ra st", st, hx(enc), (rsv+pos+1)%3))
			}
		}
	}
	for rep := 0; rep < reps; rep++ {
		for _, server := range []bool{true, false} {
			st := sideOf(server)
			if rep%2 == 1 {
				// "extensions negotiated" (StateExtended) lifts the RSV rule and nothing else
				st |= int(ws.StateExtended)
			}
			// prefixes: 0..2 complete valid units, optionally followed by an open fragmented message
			for npre := 0; npre <= 2; npre++ {
				for _, open := range []bool{false, true} {
					var pre []gframe
					for i := 0; i < npre; i++ {
						pre = append(pre, validMessage(r, 3, r.bool(), false)...)
						if r.intn(3) == 0 {
							pre = append(pre, gframe{true, 0, ws.OpPing, r.bytes(r.intn(5))})
						}
					}
					nUnits := npre + 2
					if open {
						pre = append(pre, gframe{false, 0, ws.OpBinary, r.bytes(1 + r.intn(6))})
						if r.bool() {
							pre = append(pre, gframe{true, 0, ws.OpPong, r.bytes(2)})
						}
					}
					for _, bad := range invalidFrames(server, open, r) {
						fs := append(toRaw(pre, server), bad)
						// something valid after the offending frame: must never be delivered
						fs = append(fs, rframe{gframe{true, 0, ws.OpBinary, []byte("AFTER")}, server})
						enc := encodeRawStream(fs, r)
						k := []int{0, 1, 3, 1 + r.intn(len(enc))}[r.intn(4)]
						emitReaderCases(st, enc, k, "E", rep, nUnits, "utf8,inter", r)
					}
					// size limit around the announced length
					for _, sz := range []int{5, 126, 300} {
						fs := append(toRaw(pre, server), rframe{gframe{!open || r.bool(), 0, map[bool]ws.OpCode{true: ws.OpContinuation, false: ws.OpBinary}[open], r.bytes(sz)}, server})
						enc := encodeRawStream(fs, r)
						for _, lim := range []int{sz - 1, sz, sz + 1} {
							run(fmt.Sprintf("rdr %d max:%d,inter %s %d E %s", st, lim, hx(enc), r.intn(4), scriptFor(nUnits, r)))
						}
					}
					// the size limit applies to every frame, control frames included: limits below 125 with longer
					// (legal) control frames, between messages and between fragments; position taken right after
					for _, sz := range []int{5, 60, 125} {
						for _, cop := range []ws.OpCode{ws.OpPing, ws.OpPong, ws.OpClose} {
							pl := r.bytes(sz)
							if cop == ws.OpClose {
								pl = append([]byte{0x03, 0xe8}, []byte(strings.Repeat("r", sz-2))...)
							}
							fs := append(toRaw(pre, server), rframe{gframe{true, 0, cop, pl}, server},
								rframe{gframe{true, 0, map[bool]ws.OpCode{true: ws.OpContinuation, false: ws.OpBinary}[open], []byte("AFTER")}, server})
							enc := encodeRawStream(fs, r)
							for _, lim := range []int{sz - 1, sz, sz + 1, 1} {
								var script []string
								for u := 0; u < npre; u++ {
									script = append(script, "nf", "ra", "st")
								}
								if open {
									script = append(script, "nf", "r:512", "r:512", "st", "ra", "st")
								} else {
									script = append(script, "nf", "st", "ra", "st", "nf", "ra", "st")
								}
								run(fmt.Sprintf("rdr %d max:%d,inter %s %d E %s", st, lim, hx(enc), r.intn(4), strings.Join(script, " ")))
							}
						}
					}
					// SkipHeaderCheck: the limit is the only guard; a control opcode announcing a huge length
					{
						mb := byte(0)
						key := []byte{}
						if server {
							mb = 0x80
							key = []byte{1, 2, 3, 4}
						}
						enc := encodeRawStream(toRaw(pre, server), r)
						enc = append(enc, 0x89, 126|mb, 0x11, 0x70)
						enc = append(enc, key...)
						enc = append(enc, r.bytes(40)...)
						var script []string
						for u := 0; u < npre; u++ {
							script = append(script, "nf", "ra", "st")
						}
						if open {
							script = append(script, "nf", "r:512", "r:512", "st", "ra", "st")
						} else {
							script = append(script, "nf", "st", "ra", "st")
						}
						run(fmt.Sprintf("rdr %d skip,max:%d,inter %s %d E %s", st, []int{1024, 100, 4463}[r.intn(3)], hx(enc), r.intn(4), strings.Join(script, " ")))
					}
					// header with the top bit of the 64-bit length set
					enc := encodeRawStream(toRaw(pre, server), r)
					mb := byte(0)
					if server {
						mb = 0x80
					}
					enc = append(enc, 0x82, 127|mb, 0x80, 0, 0, 0, 0, 0, 0, 1, 1, 2, 3, 4)
					emitReaderCases(st, enc, r.intn(3), "E", rep, nUnits, "inter", r)
				}
			}
		}
	}
}

func genC16r(tier string, r *rng) {
	n := 12
	if tier == "thorough" {
		n = 400
	}
	for i := 0; i < n; i++ {
		server := r.bool()
		st := sideOf(server)
		var fs []gframe
		nm := 1 + r.intn(2)
		for m := 0; m < nm; m++ {
			fs = append(fs, validMessage(r, 3, r.bool(), false)...)
		}
		if r.bool() { // make sure intermediate control frames with payload occur
			fs = append(fs, gframe{false, 0, ws.OpBinary, r.bytes(4)}, gframe{true, 0, ws.OpPing, r.bytes(10)}, gframe{true, 0, ws.OpContinuation, r.bytes(3)})
			nm++
		}
		enc := encodeStream(fs, server, r)
		if len(enc) > 400 {
			continue
		}
		// every byte offset as EOF and as transport error
		for cut := 0; cut <= len(enc); cut++ {
			for fi, fin := range []string{"E", "F", "Ed", "Fd"} {
				if tier == "quick" && (cut+i+fi)%2 == 0 && fin != "E" {
					continue
				}
				emitReaderCases(st, enc[:cut], []int{0, 1, 5}[(cut+i)%3], fin, i, nm+1, "utf8,inter", r)
				// the same cut seen by a reader with no OnIntermediate handler, and with handlers that do not read the
				// control payload (NextFrame drains it itself)
				cfg2 := []string{"utf8", "utf8,interlazy", "utf8,interone"}[(cut+fi)%3]
				run(fmt.Sprintf("rdr %d %s %s %d %s %s", st, cfg2, hx(enc[:cut]), []int{0, 1, 5}[(cut+i+1)%3], fin, scriptFor(nm+1, r)))
				// the message skipped rather than read, from a source that has a Discard method of its
				// own (a *bufio.Reader, what Dialer.Dial and HTTPUpgrader return)
				if fi < 2 {
					run(fmt.Sprintf("rdr %d utf8,inter %s %d b%s nf d st nf d st nf d st", st, hx(enc[:cut]), []int{0, 1, 5}[(cut+i)%3], fin))
					run(fmt.Sprintf("rdd %d %s %s %d b%s %d", st, []string{"T", "B"}[(cut+fi)%2], hx(enc[:cut]), []int{0, 5}[(cut+i)%2], fin, cut))
				}
			}
		}
	}
}

func genC07b(tier string, r *rng) {
	// text messages: valid / invalid / truncated, every split into <= 3 fragments, controls between
	samples := [][]byte{
		[]byte("hello"), {0xc3, 0xa9}, {0xe2, 0x82, 0xac}, {0xf0, 0x9f, 0x98, 0x80}, []byte("a\xc3\xa9b\xe2\x82\xacc"),
		{0xc3}, {0xe2, 0x82}, {0xf0, 0x9f, 0x98}, {0xc0, 0xaf}, {0xed, 0xa0, 0x80}, {0xf4, 0x90, 0x80, 0x80}, {0xff},
		[]byte("ok\xc3"), []byte("\xa9tail"), []byte("x\xe2\x82\xacy\xf0\x9f\x98\x80z\xed\x9f\xbf"), {},
	}
	if tier == "thorough" {
		for i := 0; i < 300; i++ {
			var p []byte
			for j := 0; j < 1+r.intn(4); j++ {
				p = append(p, samples[r.intn(len(samples))]...)
			}
			samples = append(samples, p)
		}
	}
	genLongFragment(tier, r)
	// extensions negotiated (StateExtended): reserved bits on the frames of a text message do not
	// exempt it from the check - single frame and two fragments, every RSV value
	for si, s := range samples {
		if si >= 16 && si%7 != 0 {
			continue
		}
		for _, server := range []bool{true, false} {
			st := sideOf(server) | int(ws.StateExtended)
			for rsv := 1; rsv < 8; rsv++ {
				if tier == "quick" && (si+rsv)%2 == 0 && rsv != 4 {
					continue
				}
				one := encodeStream([]gframe{{true, byte(rsv), ws.OpText, s}, {true, 0, ws.OpText, []byte("z\xc3\xa9")}}, server, r)
				k := (si + rsv) % 3
				run(fmt.Sprintf("rm %d %s %d E", st, hx(one), k))
				run(fmt.Sprintf("rdd %d %s %s %d E %d", st, []string{"D", "T"}[rsv%2], hx(one), k, si))
				run(fmt.Sprintf("rdr %d utf8,inter %s %d E nf ra st nf ra st", st, hx(one), k))
				if len(s) >= 2 {
					a := 1 + (si+rsv)%(len(s)-1)
					two := encodeStream([]gframe{{false, byte(rsv), ws.OpText, s[:a]}, {true, 0, ws.OpPing, []byte("p")},
						{true, byte(rsv &^ 4), ws.OpContinuation, s[a:]}, {true, 0, ws.OpText, []byte("ok")}}, server, r)
					run(fmt.Sprintf("rm %d %s %d E", st, hx(two), k))
					run(fmt.Sprintf("rdr %d utf8,inter %s %d E nf ra st nf ra st", st, hx(two), k))
					run(fmt.Sprintf("rdr %d utf8,ext,inter %s %d E nf ra st nf ra st", st, hx(two), k))
				}
			}
		}
	}
	for si, s := range samples {
		for _, server := range []bool{true, false} {
			st := sideOf(server)
			// the whole text in ONE final frame (ReadMessage then uses a fixed buffer + io.ReadFull), alone and
			// followed by another message, for every transport chunking up to the payload length
			for k := 0; k <= len(s)+1 && k < 8; k++ {
				for _, fin := range []string{"E", "Ed", "Fd"} { // Fd: the last bytes arrive together with a transport failure
					one := encodeStream([]gframe{{true, 0, ws.OpText, s}}, server, r)
					two := encodeStream([]gframe{{true, 0, ws.OpText, s}, {true, 0, ws.OpText, []byte("z\xc3\xa9")}}, server, r)
					run(fmt.Sprintf("rm %d %s %d %s", st, hx(one), k, fin))
					run(fmt.Sprintf("rm %d %s %d %s", st, hx(two), k, fin))
					run(fmt.Sprintf("rdd %d T %s %d %s %d", st, hx(two), k, fin, si))
					run(fmt.Sprintf("rdr %d utf8 %s %d %s nf r:%d r:4096 st nf ra st", st, hx(two), k, fin, len(s)+1))
				}
			}
			// the stream ENDS right behind a non-final fragment - cleanly, with a failure, and with either arriving
			// together with the fragment's last bytes - for every place the fragment may stop, inside a character or
			// not: that is never a verdict on the text (the message is not over), only the transport's end
			if len(s) >= 2 && len(s) <= 12 && utf8.Valid(s) { // (an invalid start is rightly reported as such)
				for a := 1; a < len(s); a++ {
					part := encodeStream([]gframe{{false, 0, ws.OpText, s[:a]}}, server, r)
					for _, fin := range []string{"E", "F", "Ed", "Fd"} {
						k := []int{0, 1, 3}[(a+si)%3]
						run(fmt.Sprintf("rdr %d utf8 %s %d %s nf ra st", st, hx(part), k, fin))
						run(fmt.Sprintf("rdr %d utf8,inter %s %d %s nf r:%d r:64 st", st, hx(part), k, fin, a))
						run(fmt.Sprintf("rdd %d T %s %d %s %d", st, hx(part), k, fin, si))
						run(fmt.Sprintf("rm %d %s %d %s", st, hx(part), k, fin))
					}
				}
			}
			// every split into three fragments for short samples; for long ones a spread of about 120 splits
			// (the number of splits grows with the square of the length — the thorough tier is sized to minutes)
			pairs := (len(s) + 1) * (len(s) + 2) / 2
			stride := 1
			if pairs > 120 {
				stride = pairs/120 + 1
			}
			pi := 0
			for a := 0; a <= len(s); a++ {
				for b := a; b <= len(s); b++ {
					pi++
					if tier == "quick" && len(s) > 6 && (a+b+si)%3 != 0 {
						continue
					}
					if stride > 1 && (pi+si)%stride != 0 && !(a == b || b == len(s) || a == 0) {
						continue
					}
					withCtl := (a+b)%2 == 0
					var fs []gframe
					fs = append(fs, gframe{false, 0, ws.OpText, s[:a]})
					if withCtl {
						fs = append(fs, gframe{true, 0, ws.OpPing, []byte{0xff, 0xfe}})
					}
					fs = append(fs, gframe{false, 0, ws.OpContinuation, s[a:b]})
					if withCtl {
						fs = append(fs, gframe{true, 0, ws.OpPong, []byte{0xa9}})
					}
					fs = append(fs, gframe{true, 0, ws.OpContinuation, s[b:]})
					// a following message on the same reader: binary with bytes that are not UTF-8, then text
					fs = append(fs, gframe{true, 0, ws.OpBinary, []byte{0xff, 0xc3}}, gframe{true, 0, ws.OpText, []byte("z\xc3\xa9")})
					enc := encodeStream(fs, server, r)
					k := []int{0, 1, 2, 5}[(a+b)%4]
					fin := []string{"E", "Ed"}[(a+si)%2]
					run(fmt.Sprintf("rm %d %s %d %s", st, hx(enc), k, fin))
					run(fmt.Sprintf("rdd %d %s %s %d %s %d", st, []string{"D", "T"}[(a+b)%2], hx(enc), k, fin, si))
					run(fmt.Sprintf("rdr %d utf8,inter %s %d %s nf ra st nf ra st nf ra st", st, hx(enc), k, fin))
					if (a+b)%5 == 0 {
						run(fmt.Sprintf("rdr %d inter %s %d %s nf ra st nf ra st", st, hx(enc), k, fin)) // check off
					}
					if !withCtl && a > 0 {
						// the same three fragments alone, the continuations consumed by an OnContinuation handler
						run(fmt.Sprintf("rdoc %d %s %d %s", st, hx(encodeStream(fs[:3], server, r)), k, hx(s)))
					}
				}
			}
		}
	}
}

// genLongFragment: see the comment inside (C07 validity at the end of the message; C15 no panic / no
// byte count beyond the caller's buffer).
func genLongFragment(tier string, r *rng) {
	// a long fragment (beyond ReadAll's first 512-byte buffer) ending inside a multi-byte character, then an
	// EMPTY or a 1-byte final fragment: the checker's byte accounting at the end of the message
	for _, L := range []int{250, 255, 256, 509, 510, 511, 512, 513, 600, 1100} {
		for _, server := range []bool{true, false} {
			st := sideOf(server)
			for _, tailP := range [][]byte{{0xe2, 0x82}, {0xc3}, {0xf0, 0x9f, 0x98}} {
				for _, last := range [][]byte{{}, {0xac}, {0x41}} {
					first := append(bytes.Repeat([]byte("a"), L), tailP...)
					fs := []gframe{{false, 0, ws.OpText, first}, {true, 0, ws.OpContinuation, last}, {true, 0, ws.OpText, []byte("ok")}}
					enc := encodeStream(fs, server, r)
					k := []int{0, 1, 100}[(L+len(last))%3]
					run(fmt.Sprintf("rm %d %s %d E", st, hx(enc), k))
					run(fmt.Sprintf("rdd %d T %s %d E %d", st, hx(enc), k, L))
					run(fmt.Sprintf("rdr %d utf8,inter %s %d E nf ra st nf ra st", st, hx(enc), k))
				}
			}
		}
	}
}

func init() {
	register("C15", genLongFragment)
	register("C05", genC05)
	register("C16", genC16r)
	register("C07", genC07b)
}

// genC16w: every index of the destination write call that fails, for writer op sequences.
func genC16w(tier string, r *rng) {
	n := 60
	if tier == "thorough" {
		n = 1500
	}
	for i := 0; i < n; i++ {
		sd := []string{"S", "C"}[r.intn(2)]
		raw := []int{8, 16, 20, 64, 140}[r.intn(5)]
		ctor := "buf:" + fmt.Sprint(raw)
		av := availOf(sd, ctor)
		var seq []string
		L := 2 + r.intn(8)
		for j := 0; j < L; j++ {
			switch r.intn(8) {
			case 0, 1, 2:
				seq = append(seq, "w:"+hx(r.bytes([]int{1, av, av + 1, 2*av + 1, 3 * av}[r.intn(5)])))
			case 3:
				seq = append(seq, "wt:"+hx(r.bytes(r.intn(2*av+2))))
			case 4:
				seq = append(seq, "ff")
			case 5:
				seq = append(seq, "fl")
			case 6:
				seq = append(seq, fmt.Sprintf("rf:%d:%s:E", r.intn(5), hx(r.bytes(r.intn(3*av+1)))))
			default:
				seq = append(seq, "w:"+hx(r.bytes(r.intn(4))))
			}
		}
		seq = append(seq, "fl", "w:aa", "fl", "ff", "wt:bb", "av")
		// the error outlives ResetOp (same frame stream); only Reset (a new session) clears it
		switch r.intn(4) {
		case 0:
			seq = append(seq, fmt.Sprintf("ro:%d", 1+r.intn(2)), "w:"+hx(r.bytes(1+r.intn(2*av))), "fl", "av")
		case 1:
			seq = append(seq, fmt.Sprintf("rs:%s:%d", sd, 1+r.intn(2)), "w:"+hx(r.bytes(1+r.intn(2*av))), "fl", "av")
		}
		// find how many destination writes the sequence makes when nothing fails, then fail each index
		for fail := 0; fail < 14; fail++ {
			writerSeq(sd, 1+r.intn(2), ctor, "-", fmt.Sprint(fail), i, seq)
		}
	}
	for _, sd := range []string{"S", "C"} {
		for fail := 0; fail < 3; fail++ {
			run(fmt.Sprintf("wm %s 2 %s %d 5", sd, hx(r.bytes(10)), fail))
		}
	}
}

func init() { register("C16", genC16w); register("C16", genC16rf) }

// genC16rf: ws.ReadFrame (whole-frame read) on frames cut inside the payload, across the length forms.
func genC16rf(tier string, r *rng) {
	for _, n := range []int{1, 2, 125, 126, 300, 65535, 65536, 65537, 70000} {
		for _, masked := range []bool{false, true} {
			full := frameBytes(true, 0, ws.OpBinary, masked, r.bytes(n))
			hdr := len(full) - n
			for _, cut := range []int{hdr, hdr + 1, hdr + n/2, len(full) - 1} {
				if cut < hdr || cut >= len(full) {
					continue
				}
				for _, fin := range []string{"E", "F"} {
					run(fmt.Sprintf("rf %s %d %s", hx(full[:cut]), []int{0, 1000, 7}[(n+cut)%3], fin))
				}
			}
		}
	}
}
