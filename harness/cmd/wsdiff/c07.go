package main

// C07 (part 1): wsutil.UTF8Reader against the standard definition, any chunking.

import (
	"io"
	"fmt"
	"strconv"
	"strings"
	"unicode/utf8"

	"github.com/gobwas/ws"
	"github.com/gobwas/ws/wsutil"
)

func init() {
	ops["u8"] = func(a []string) string { // u8 <hex> <k> <bufsizes> <fin>
		data := unhx(a[0])
		k, _ := strconv.Atoi(a[1])
		sizes := ints(a[2])
		src, _ := mkReader(data, k, a[3])
		u := wsutil.NewUTF8Reader(src)
		total := 0
		var err error
		for i := 0; i < 100000 && err == nil; i++ {
			var n int
			n, err = u.Read(make([]byte, sizes[i%len(sizes)]))
			total += n
		}
		return fmt.Sprintf("%d %s valid=%d accepted=%d gv=%d", total, classify(err), b2i(u.Valid()), u.Accepted(), b2i(utf8.Valid(data)))
	}
	// rdoc <state> <streamhex> <k> <texthex>: a CheckUTF8 reader whose OnContinuation handler consumes the continuation
	// frames itself (a streaming consumer): one fragmented text message whose whole payload is <texthex>. The bytes
	// the handler reads are text of the message like the rest: accepted iff the whole is valid.
	ops["rdoc"] = func(a []string) string {
		st, _ := strconv.Atoi(a[0])
		k, _ := strconv.Atoi(a[2])
		src, _ := mkReader(unhx(a[1]), k, "E")
		rd := &wsutil.Reader{Source: src, State: ws.State(st), CheckUTF8: true}
		var got []byte
		rd.OnContinuation = func(h ws.Header, r io.Reader) error {
			b, err := io.ReadAll(r)
			got = append(got, b...)
			return err
		}
		if _, err := rd.NextFrame(); err != nil {
			return "nf:" + classify(err) + " -"
		}
		b, err := io.ReadAll(rd)
		return fmt.Sprintf("%s %s", classify(err), hx(append(b, got...)))
	}
	// u8r <hex1/hex2/...> <k> <bufsizes> <fin>: ONE UTF8Reader, Reset onto each stream in turn and
	// read to its end: the verdict on a stream depends on that stream only.
	ops["u8r"] = func(a []string) string {
		k, _ := strconv.Atoi(a[1])
		sizes := ints(a[2])
		u := wsutil.NewUTF8Reader(nil)
		var items []string
		for _, hexs := range strings.Split(a[0], "/") {
			data := unhx(strings.TrimPrefix(hexs, "-"))
			src, _ := mkReader(data, k, a[3])
			u.Reset(src)
			total := 0
			var err error
			for i := 0; i < 100000 && err == nil; i++ {
				var n int
				n, err = u.Read(make([]byte, sizes[i%len(sizes)]))
				total += n
			}
			items = append(items, fmt.Sprintf("%d,%s,valid=%d,accepted=%d,gv=%d", total, classify(err), b2i(u.Valid()), u.Accepted(), b2i(utf8.Valid(data))))
		}
		return strings.Join(items, "|")
	}
	register("C07", genC07a)
}

func genC07a(tier string, r *rng) {
	bufsets := []string{"1", "2", "3", "4096", "1,2", "5,1"}
	fins := []string{"E", "E", "E", "Ed", "F"}
	emit1 := func(p []byte, i int) {
		run(fmt.Sprintf("u8 %s %d %s %s", hx(p), i%4, bufsets[i%len(bufsets)], fins[i%len(fins)]))
	}
	// one reader Reset from stream to stream: every ordered pair of samples ending in every DFA
	// state (mid-sequence, rejected, clean), then random runs
	{
		ends := []string{"68", "c3", "e2", "e282", "f0", "f09f", "f09f98", "e0", "ed", "f4", "ff", "c328", "eda0", "d0b0", "-"}
		i := 0
		for _, x := range ends {
			for _, y := range []string{"68656c6c6f", "d081", "98807a", "ac", "a0", "80", "-", "f09f9880", "e282"} {
				i++
				run(fmt.Sprintf("u8r %s/%s/%s %d %s %s", x, y, x, i%3, bufsets[i%len(bufsets)], fins[i%2*4]))
			}
		}
		n := 200
		if tier != "quick" {
			n = 5000
		}
		for j := 0; j < n; j++ {
			var parts []string
			for c := 0; c < 2+r.intn(3); c++ {
				e := ends[r.intn(len(ends))]
				if r.intn(2) == 0 && e != "-" {
					e = hx(r.bytes(1+r.intn(3))) + e
				}
				parts = append(parts, e)
			}
			run(fmt.Sprintf("u8r %s %d %s %s", strings.Join(parts, "/"), r.intn(4), bufsets[r.intn(len(bufsets))], fins[r.intn(len(fins))]))
		}
	}
	// control frames are never subjected to the check: a ping / pong / close-less control payload that is not
	// UTF-8, between messages and between the fragments of a text message, with checking on
	for _, server := range []bool{true, false} {
		st := sideOf(server)
		for _, op := range []ws.OpCode{ws.OpPing, ws.OpPong} {
			for _, pl := range [][]byte{{0xff}, {0xc3}, {0xed, 0xa0, 0x80}, r.bytes(20), []byte("ok")} {
				alone := encodeStream([]gframe{{true, 0, op, pl}, {true, 0, ws.OpText, []byte("z\xc3\xa9")}}, server, r)
				inside := encodeStream([]gframe{{false, 0, ws.OpText, []byte("a\xc3")}, {true, 0, op, pl}, {true, 0, ws.OpContinuation, []byte("\xa9b")}}, server, r)
				for _, k := range []int{0, 1} {
					run(fmt.Sprintf("rm %d %s %d E", st, hx(alone), k))
					run(fmt.Sprintf("rdd %d T %s %d E 1", st, hx(alone), k))
					run(fmt.Sprintf("rdr %d utf8 %s %d E nf ra st nf ra st", st, hx(alone), k))
					run(fmt.Sprintf("rm %d %s %d E", st, hx(inside), k))
					run(fmt.Sprintf("rdr %d utf8,inter %s %d E nf ra st", st, hx(inside), k))
				}
			}
		}
	}
	// all strings of length <= 2
	emit1(nil, 0)
	for a := 0; a < 256; a++ {
		emit1([]byte{byte(a)}, a)
		for b := 0; b < 256; b++ {
			emit1([]byte{byte(a), byte(b)}, a+b)
		}
	}
	// 3-byte strings: all in thorough, a sample in quick
	for a := 0xc0; a < 256; a++ {
		for b := 0x70; b < 0xd0; b++ {
			for c := 0x78; c < 0xc8; c++ {
				if tier == "quick" && (a*7+b*3+c)%16 != 0 {
					continue
				}
				emit1([]byte{byte(a), byte(b), byte(c)}, a+b+c)
			}
		}
	}
	// 4-byte: every lead byte x boundary continuation values
	bnd := []byte{0x7f, 0x80, 0x8f, 0x90, 0x9f, 0xa0, 0xbf, 0xc0}
	for a := 0xe0; a < 256; a++ {
		for _, b := range bnd {
			for _, c := range bnd {
				for _, d := range bnd {
					emit1([]byte{byte(a), b, c, d}, a+int(b)+int(c)+int(d))
				}
			}
		}
	}
	// long strings built from valid / invalid / truncated pieces
	pieces := [][]byte{[]byte("a"), []byte("hello "), {0xc3, 0xa9}, {0xe2, 0x82, 0xac}, {0xf0, 0x9f, 0x98, 0x80},
		{0xed, 0x9f, 0xbf}, {0xee, 0x80, 0x80}, {0xf4, 0x8f, 0xbf, 0xbf}, {0xc0, 0xaf}, {0xed, 0xa0, 0x80},
		{0xf4, 0x90, 0x80, 0x80}, {0xe2, 0x82}, {0xf0, 0x9f}, {0x80}, {0xff}}
	n := 3000
	if tier == "thorough" {
		n = 100000
	}
	for i := 0; i < n; i++ {
		var p []byte
		k := 1 + r.intn(12)
		for j := 0; j < k; j++ {
			if r.intn(4) == 0 {
				p = append(p, pieces[r.intn(len(pieces))]...)
			} else {
				p = append(p, pieces[r.intn(8)]...)
			}
		}
		run(fmt.Sprintf("u8 %s %d %s %s", hx(p), r.intn(6), bufsets[r.intn(len(bufsets))], fins[r.intn(len(fins))]))
	}
}
