package main

// C12: permessage-deflate.
//   fw <ftail> <ctail|-> <failAt> <script>   wsflate.Writer around a scripted compressor (tests cbuf + tail check)
//        script: w<hex>/<s1+s2..> | f | c | r      (write with the compressor forwarding in pieces, flush, close, reset)
//   sr <srchex> <k> <fin> <br> <sizes>           wsflate.Reader around a pass-through decompressor (tests suffixedReader)
//   fl <level> <script> <k> <br>                 real compress/flate through wsflate.Writer, then back through wsflate.Reader
//        script: w<hex> | f | c
//   ind <enc> <msghex> <k> <br>                  an independent encoder's sync-flushed output (tail removed) through wsflate.Reader
//   cf <fin> <rsv> <op> <masked> <payloadhex>    CompressFrame then DecompressFrame
//   badc <mode> <payloadhex>                     Helper with a compressor that does not end Flush with the tail

import (
	"bufio"
	"bytes"
	"compress/flate"
	"fmt"
	"io"
	"strconv"
	"strings"

	"github.com/gobwas/ws"
	"github.com/gobwas/ws/wsflate"
)

// idleReader answers (0, nil) on every other call, the underlying reader's answer in between.
type idleReader struct {
	r    io.Reader
	idle bool
}

func (z *idleReader) Read(p []byte) (int, error) {
	z.idle = !z.idle
	if z.idle {
		return 0, nil
	}
	return z.r.Read(p)
}

// ---- scripted compressor ----

type scriptComp struct {
	w      io.Writer
	split  []int
	ftail  []byte
	ctail  []byte
	closer bool
}

func (c *scriptComp) Write(p []byte) (int, error) {
	n := 0
	rest := p
	for _, s := range c.split {
		if s > len(rest) {
			s = len(rest)
		}
		if s == 0 {
			continue
		}
		if _, err := c.w.Write(rest[:s]); err != nil {
			return n, err
		}
		n += s
		rest = rest[s:]
	}
	if len(rest) > 0 {
		if _, err := c.w.Write(rest); err != nil {
			return n, err
		}
	}
	return len(p), nil
}
func (c *scriptComp) Flush() error {
	if len(c.ftail) == 0 {
		return nil
	}
	_, err := c.w.Write(c.ftail)
	return err
}

type scriptCompCloser struct{ *scriptComp }

func (c scriptCompCloser) Close() error {
	if len(c.ctail) == 0 {
		return nil
	}
	_, err := c.w.Write(c.ctail)
	return err
}

func flErr(err error) string {
	if err == nil {
		return "nil"
	}
	if err == errDst {
		return "dst"
	}
	if strings.Contains(err.Error(), "unexpected stream tail") {
		return "badtail"
	}
	return "other:" + strings.ReplaceAll(err.Error(), " ", "_")
}

func dfErr(err error) string {
	switch {
	case err == wsflate.ErrUnexpectedCompressionBit:
		return "bit"
	case strings.Contains(err.Error(), "fragmented"):
		return "fragmented"
	}
	return "codec"
}

type passDec struct{ r io.Reader }

func (d passDec) Read(p []byte) (int, error) { return d.r.Read(p) }

// ---- independent DEFLATE encoders (no compress/flate) ----

type bitw struct {
	out  []byte
	acc  uint32
	nacc uint
}

func (b *bitw) bits(v uint32, n uint) { // LSB first
	b.acc |= v << b.nacc
	b.nacc += n
	for b.nacc >= 8 {
		b.out = append(b.out, byte(b.acc))
		b.acc >>= 8
		b.nacc -= 8
	}
}
func (b *bitw) huff(code uint32, n uint) { // Huffman codes MSB first
	for i := int(n) - 1; i >= 0; i-- {
		b.bits((code>>uint(i))&1, 1)
	}
}
func (b *bitw) align() {
	if b.nacc > 0 {
		b.out = append(b.out, byte(b.acc))
		b.acc, b.nacc = 0, 0
	}
}
func (b *bitw) lit(v int) {
	switch {
	case v < 144:
		b.huff(uint32(0x30+v), 8)
	case v < 256:
		b.huff(uint32(0x190+v-144), 9)
	case v < 280:
		b.huff(uint32(v-256), 7)
	default:
		b.huff(uint32(0xc0+v-280), 8)
	}
}
func (b *bitw) syncFlush() {
	b.bits(0, 3) // BFINAL=0 BTYPE=00
	b.align()
	b.out = append(b.out, 0, 0, 0xff, 0xff)
}

func encStored(msg []byte, block int) []byte {
	var b bitw
	for len(msg) > 0 {
		n := len(msg)
		if n > block {
			n = block
		}
		b.bits(0, 3)
		b.align()
		b.out = append(b.out, byte(n), byte(n>>8), byte(^n), byte(^n>>8))
		b.out = append(b.out, msg[:n]...)
		msg = msg[n:]
	}
	b.syncFlush()
	return b.out[:len(b.out)-4]
}

func encFixed(msg []byte, rle bool) []byte {
	var b bitw
	b.bits(0, 1)
	b.bits(1, 2) // fixed Huffman
	for i := 0; i < len(msg); {
		if rle && i > 0 {
			// run of the previous byte: length 3..10 with distance 1
			j := i
			for j < len(msg) && msg[j] == msg[i-1] && j-i < 10 {
				j++
			}
			if j-i >= 3 {
				b.lit(257 + (j - i - 3)) // lengths 3..10 have no extra bits
				b.huff(0, 5)             // distance code 0 = 1
				i = j
				continue
			}
		}
		b.lit(int(msg[i]))
		i++
	}
	b.lit(256)
	b.syncFlush()
	return b.out[:len(b.out)-4]
}

type byteRd struct{ *bufio.Reader }

func runReader(comp []byte, k int, br bool, ctor func(io.Reader) wsflate.Decompressor) (string, string) {
	fin := "E"
	if k%2 == 1 || k == 100 {
		fin = "Ed" // the last data arrives together with io.EOF
	}
	src, _ := mkReader(comp, k, fin)
	var r io.Reader = src
	if br {
		r = bufio.NewReaderSize(src, 16)
	}
	fr := wsflate.NewReader(r, ctor)
	back, err := io.ReadAll(fr)
	cerr := fr.Close()
	e := "nil"
	if err != nil {
		e = "err:" + strings.ReplaceAll(err.Error(), " ", "_")
	} else if cerr != nil {
		e = "closeerr:" + strings.ReplaceAll(cerr.Error(), " ", "_")
	}
	return hx(back), e
}

// noResetComp hides flate.Writer's Reset(io.Writer): only Write, Flush and Close are offered.
type noResetComp struct{ f *flate.Writer }

func (c noResetComp) Write(p []byte) (int, error) { return c.f.Write(p) }
func (c noResetComp) Flush() error                { return c.f.Flush() }
func (c noResetComp) Close() error                { return c.f.Close() }

func flateDec(r io.Reader) wsflate.Decompressor { return flate.NewReader(r) }

func init() {
	ops["fw"] = func(a []string) string {
		ftail := unhx(a[0])
		var ctail []byte
		closer := a[1] != "-"
		if closer {
			ctail = unhx(a[1])
		}
		failAt, _ := strconv.Atoi(a[2])
		d := &recDst{failAt: failAt}
		var cur *scriptComp
		w := wsflate.NewWriter(d, func(w io.Writer) wsflate.Compressor {
			cur = &scriptComp{w: w, ftail: ftail, ctail: ctail, closer: closer}
			if closer {
				return scriptCompCloser{cur}
			}
			return cur
		})
		var res []string
		for _, it := range strings.Split(a[3], ";") {
			switch it[0] {
			case 'w':
				f := strings.Split(it[1:], "/")
				cur.split = nil
				if len(f) > 1 && f[1] != "" {
					for _, s := range strings.Split(f[1], "+") {
						n, _ := strconv.Atoi(s)
						cur.split = append(cur.split, n)
					}
				}
				_, err := w.Write(unhx(f[0]))
				res = append(res, flErr(err))
			case 'f':
				res = append(res, flErr(w.Flush()))
			case 'c':
				res = append(res, flErr(w.Close()))
			case 'r':
				d = &recDst{failAt: -1}
				w.Reset(d)
				res = append(res, "reset")
			}
		}
		var out []byte
		for _, x := range d.writes {
			out = append(out, x...)
		}
		return fmt.Sprintf("%s out=%s calls=%d", strings.Join(res, ","), hx(out), d.calls)
	}
	ops["sr"] = func(a []string) string {
		k, _ := strconv.Atoi(a[1])
		src, _ := mkReader(unhx(a[0]), k, a[2])
		var r io.Reader = src
		if a[3] == "1" {
			r = byteRd{bufio.NewReaderSize(src, 16)}
		}
		fr := wsflate.NewReader(r, func(r io.Reader) wsflate.Decompressor { return passDec{r} })
		var out []byte
		end := "more"
		for _, s := range strings.Split(a[4], "+") {
			n, _ := strconv.Atoi(s)
			p := make([]byte, n)
			m, err := fr.Read(p)
			out = append(out, p[:m]...)
			if err != nil {
				end = classify(err)
				break
			}
		}
		return fmt.Sprintf("%s got=%s", end, hx(out))
	}
	// srz <srchex> <k> <fin> <br> <sizes>: like sr, but the source is IDLE before every chunk - it answers (0, nil), as
	// wsutil.Reader does after an intermediate control frame or an empty fragment - and the caller reads (cycling
	// through <sizes>) until an error: a read that returns nothing is not the end of the compressed data
	ops["srz"] = func(a []string) string {
		k, _ := strconv.Atoi(a[1])
		src, _ := mkReader(unhx(a[0]), k, a[2])
		var r io.Reader = &idleReader{r: src}
		if a[3] == "1" {
			r = byteRd{bufio.NewReaderSize(r, 16)}
		}
		fr := wsflate.NewReader(r, func(r io.Reader) wsflate.Decompressor { return passDec{r} })
		var out []byte
		end := "more"
		sizes := strings.Split(a[4], "+")
		for i := 0; i < 20000; i++ {
			n, _ := strconv.Atoi(sizes[i%len(sizes)])
			p := make([]byte, n)
			m, err := fr.Read(p)
			out = append(out, p[:m]...)
			if err != nil {
				end = classify(err)
				break
			}
		}
		return fmt.Sprintf("%s got=%s", end, hx(out))
	}
	ops["fl"] = func(a []string) string {
		level, _ := strconv.Atoi(a[0])
		var dst bytes.Buffer
		w := wsflate.NewWriter(&dst, func(w io.Writer) wsflate.Compressor {
			f, _ := flate.NewWriter(w, level)
			return f
		})
		var res []string
		for _, it := range strings.Split(a[1], ";") {
			switch it[0] {
			case 'w':
				_, err := w.Write(unhx(it[1:]))
				res = append(res, flErr(err))
			case 'f':
				res = append(res, flErr(w.Flush()))
			case 'c':
				res = append(res, flErr(w.Close()))
			}
		}
		k, _ := strconv.Atoi(a[2])
		back, e := runReader(dst.Bytes(), k, a[3] == "1", flateDec)
		// the same bytes through the byte-slice helper (Helper.DecompressTo underneath)
		hb, herr := wsflate.DefaultHelper.Decompress(append([]byte(nil), dst.Bytes()...))
		return fmt.Sprintf("%s out=%s back=%s rerr=%s hback=%s herr=%s", strings.Join(res, ","), hx(dst.Bytes()), back, e, hx(hb), flErr(herr))
	}
	// flr <level> <hide> <m1> <m2> <how>: one wsflate.Writer used for two messages, Reset to a new destination in
	// between (how = f: Flush, c: Close ends the first message). hide=1: the compressor offers no Reset(io.Writer),
	// so the writer has to build a new one; each message must inflate on its own.
	ops["flr"] = func(a []string) string {
		level, _ := strconv.Atoi(a[0])
		var d1, d2 bytes.Buffer
		w := wsflate.NewWriter(&d1, func(w io.Writer) wsflate.Compressor {
			f, _ := flate.NewWriter(w, level)
			if a[1] == "1" {
				return noResetComp{f}
			}
			return f
		})
		var res []string
		_, err := w.Write(unhx(a[2]))
		res = append(res, flErr(err))
		if a[4] == "c" {
			res = append(res, flErr(w.Close()))
		} else {
			res = append(res, flErr(w.Flush()))
		}
		w.Reset(&d2)
		_, err = w.Write(unhx(a[3]))
		res = append(res, flErr(err), flErr(w.Flush()))
		return fmt.Sprintf("%s out1=%s out2=%s", strings.Join(res, ","), hx(d1.Bytes()), hx(d2.Bytes()))
	}
	ops["ind"] = func(a []string) string {
		msg := unhx(a[1])
		var comp []byte
		switch a[0] {
		case "stored":
			comp = encStored(msg, 65535)
		case "stored7":
			comp = encStored(msg, 7)
		case "fixed":
			comp = encFixed(msg, false)
		case "rle":
			comp = encFixed(msg, true)
		}
		k, _ := strconv.Atoi(a[2])
		back, e := runReader(comp, k, a[3] == "1", flateDec)
		return fmt.Sprintf("comp=%s back=%s rerr=%s", hx(comp), back, e)
	}
	// indr <enc> <msg1> <msg2> <srckind> : ONE wsflate.Reader for two messages (Reset between them), sources of
	// kind br (bytes.Reader: an io.ByteReader), bb (bytes.Buffer), bu (bufio.Reader), pl (plain 3-byte chunks)
	ops["indr"] = func(a []string) string {
		enc := func(msg []byte) []byte {
			switch a[0] {
			case "stored":
				return encStored(msg, 65535)
			case "stored7":
				return encStored(msg, 7)
			case "rle":
				return encFixed(msg, true)
			}
			return encFixed(msg, false)
		}
		mk := func(comp []byte) io.Reader {
			switch a[3] {
			case "br":
				return bytes.NewReader(comp)
			case "bb":
				return bytes.NewBuffer(append([]byte(nil), comp...))
			case "bu":
				return bufio.NewReaderSize(bytes.NewReader(comp), 16)
			}
			rd, _ := mkReader(comp, 3, "E")
			return rd
		}
		c1, c2 := enc(unhx(a[1])), enc(unhx(a[2]))
		fr := wsflate.NewReader(mk(c1), flateDec)
		b1, e1 := io.ReadAll(fr)
		fr.Reset(mk(c2))
		b2, e2 := io.ReadAll(fr)
		return fmt.Sprintf("comp1=%s comp2=%s back1=%s rerr1=%s back2=%s rerr2=%s", hx(c1), hx(c2), hx(b1), flErr(e1), hx(b2), flErr(e2))
	}
	ops["cf"] = func(a []string) string {
		rsv, _ := strconv.Atoi(a[1])
		op, _ := strconv.Atoi(a[2])
		payload := unhx(a[4])
		h := ws.Header{Fin: a[0] == "1", Rsv: byte(rsv), OpCode: ws.OpCode(op), Masked: a[3] == "1", Length: int64(len(payload))}
		if h.Masked {
			h.Mask = [4]byte{1, 2, 3, 4}
		}
		f := ws.Frame{Header: h, Payload: append([]byte(nil), payload...)}
		cfr, cerr := wsflate.CompressFrame(f)
		if cerr != nil {
			return fmt.Sprintf("cerr=%s", flErr(cerr))
		}
		// frames returned earlier are the caller's: other frames going through the helpers in between must not change them
		other := ws.NewBinaryFrame(bytes.Repeat([]byte("another message, "), 1+len(payload)/8))
		ocf, _ := wsflate.CompressFrame(other)
		dfr, derr := wsflate.DecompressFrame(ws.Frame{Header: cfr.Header, Payload: append([]byte(nil), cfr.Payload...)})
		if ocf.Header.Rsv != 0 {
			wsflate.DecompressFrame(ocf)
		}
		wsflate.CompressFrame(other)
		return fmt.Sprintf("cerr=nil chdr=%s cpay=%s derr=%s dhdr=%s dpay=%s", hdrStr(cfr.Header), hx(cfr.Payload), flErr(derr), hdrStr(dfr.Header), hx(dfr.Payload))
	}
	// df <fin> <rsv> <op> <payloadhex>: DecompressFrame on its own (a frame from the wire; the payload is what an
	// independent encoder made of <payloadhex> when the compression bit is set, <payloadhex> itself otherwise)
	ops["df"] = func(a []string) string {
		rsv, _ := strconv.Atoi(a[1])
		op, _ := strconv.Atoi(a[2])
		plain := unhx(a[3])
		wire := plain
		if rsv&4 != 0 {
			wire = encFixed(plain, false)
		}
		h := ws.Header{Fin: a[0] == "1", Rsv: byte(rsv), OpCode: ws.OpCode(op), Length: int64(len(wire))}
		dfr, derr := wsflate.DecompressFrame(ws.Frame{Header: h, Payload: append([]byte(nil), wire...)})
		if derr != nil {
			return fmt.Sprintf("derr=%s wire=%s", dfErr(derr), hx(wire))
		}
		return fmt.Sprintf("derr=nil wire=%s dhdr=%s dpay=%s", hx(wire), hdrStr(dfr.Header), hx(dfr.Payload))
	}
	ops["badc"] = func(a []string) string {
		h := wsflate.Helper{
			Compressor: func(w io.Writer) wsflate.Compressor {
				switch a[0] {
				case "notail":
					return &scriptComp{w: w}
				case "wrongtail":
					return &scriptComp{w: w, ftail: []byte{0, 0, 0xff, 0xfe}}
				case "shorttail":
					return &scriptComp{w: w, ftail: []byte{0xff, 0xff}}
				case "closeextra": // a correct sync flush, but Close finishes the stream its own way (Z_FINISH: 03 00)
					return scriptCompCloser{&scriptComp{w: w, ftail: []byte{0, 0, 0xff, 0xff}, ctail: []byte{3, 0}}}
				case "closesum": // ... or appends a checksum (compress/zlib used by mistake)
					return scriptCompCloser{&scriptComp{w: w, ftail: []byte{0, 0, 0xff, 0xff}, ctail: []byte{0x12, 0x34, 0x56, 0x78}}}
				case "closegood": // Close ends with an empty stored block, as compress/flate does
					return scriptCompCloser{&scriptComp{w: w, ftail: []byte{0, 0, 0xff, 0xff}, ctail: []byte{1, 0, 0, 0xff, 0xff}}}
				default: // "good": passes data through and ends with the tail
					return &scriptComp{w: w, ftail: []byte{0, 0, 0xff, 0xff}}
				}
			},
		}
		out, err := h.Compress(unhx(a[1]))
		return fmt.Sprintf("%s out=%s", flErr(err), hx(out))
	}
	register("C12", genC12)
	register("C12", genReaderReuse)
	register("C12", genWriterReuse)
	register("C12", genFrameHelpers)
	register("C13", genFrameHelpers) // the helper entry point: RSV1 cleared, the other bits untouched
	register("C12", genReaderAfterClose)
	register("C18", genWriterReuse)
	register("C18", genReaderReuse)
}

func genC12(tier string, r *rng) {
	tail := "0000ffff"
	// cbuf through a scripted compressor: every way to cut a stream into writes around the 4-byte boundary
	datas := [][]byte{{}, {1}, {1, 2}, {1, 2, 3}, {1, 2, 3, 4}, {1, 2, 3, 4, 5}, {1, 2, 3, 4, 5, 6, 7, 8, 9}, r.bytes(40)}
	splits := []string{"", "1", "1+1+1+1+1", "2+3", "3+1", "4", "5", "4+4", "1+4", "0+9"}
	for _, d := range datas {
		for _, sp := range splits {
			run(fmt.Sprintf("fw %s - -1 w%s/%s;f", tail, hx(d), sp))
			run(fmt.Sprintf("fw %s 0100%s -1 w%s/%s;f;w%s/%s;f;c", tail, tail, hx(d), sp, hx(d), sp))
		}
	}
	for _, ft := range []string{"-", "00", "ffff", "00ffff", "0000ffff", "000000ffff", "0000fffe", "0100ffff", "ff0000ffff", "0000ffff00"} {
		run(fmt.Sprintf("fw %s - -1 w010203/;f", ft))
		run(fmt.Sprintf("fw %s - -1 f", ft))
		run(fmt.Sprintf("fw %s %s -1 w0102030405/2;c;w01/;f", tail, ft))
		run(fmt.Sprintf("fw %s - -1 w01/;f;w02/;f;r;w03/;f", ft))
	}
	for fa := 0; fa < 4; fa++ {
		run(fmt.Sprintf("fw %s - %d w0102030405060708/3;f;w090a0b0c0d/;f;w01/;c", tail, fa))
	}
	n := 150
	if tier == "thorough" {
		n = 5000
	}
	for i := 0; i < n; i++ {
		var items []string
		for j := 0; j < 1+r.intn(5); j++ {
			switch r.intn(5) {
			case 0:
				items = append(items, "f")
			case 1:
				if r.intn(4) == 0 {
					items = append(items, "r")
				} else {
					items = append(items, "c")
				}
			default:
				var sp []string
				for q := 0; q < r.intn(4); q++ {
					sp = append(sp, strconv.Itoa(r.intn(7)))
				}
				items = append(items, fmt.Sprintf("w%s/%s", hx(r.bytes(r.intn(12))), strings.Join(sp, "+")))
			}
		}
		ft := []string{tail, tail, tail, "ffff", "00", "0000fffe"}[r.intn(6)]
		fa := -1
		if r.intn(5) == 0 {
			fa = r.intn(5)
		}
		ct := "-"
		if r.intn(2) == 0 {
			ct = "01" + tail
		}
		run(fmt.Sprintf("fw %s %s %d %s", ft, ct, fa, strings.Join(items, ";")))
	}
	// suffixedReader
	for _, d := range [][]byte{{}, {9}, {1, 2, 3, 4, 5}, r.bytes(30)} {
		for _, k := range []int{0, 1, 3} {
			for _, br := range []string{"0", "1"} {
				for _, sizes := range []string{"1+1+1+1+1+1+1+1+1+1+1+1+1+1+1+1+1+1+1+1+1+1+1+1+1+1+1+1+1+1+1+1+1+1+1+1+1+1+1+1+1+1+1+1", "100+100+100+100", "4+5+9+9+9+9+9", "2+9+1+9+9+9+9+9+9+9", "3+3+3+3+3+3+3+3+3+3+3+3+3+3+3+3", "0+5+0+50+50+50+50+50+50+50+50+50"} {
					run(fmt.Sprintf("sr %s %d E %s %s", hx(d), k, br, sizes))
				}
			}
		}
		for _, k := range []int{0, 1, 3} {
			for _, sizes := range []string{"1", "100", "4+5+9", "0+5"} {
				run(fmt.Sprintf("srz %s %d E 0 %s", hx(d), k, sizes))
				run(fmt.Sprintf("srz %s %d Ed 0 %s", hx(d), k, sizes))
			}
		}
		run(fmt.Sprintf("sr %s 2 F 0 100+100+100+100", hx(d)))
		run(fmt.Sprintf("sr %s 2 Ed 0 100+100+100+100", hx(d)))
	}
	// real DEFLATE: payload classes x levels x write/flush/close scripts x read chunkings
	payloads := [][]byte{{}, {0}, []byte("a"), []byte("hello"), bytes.Repeat([]byte("a"), 1000), bytes.Repeat([]byte("abcdefghij"), 400),
		r.bytes(300), r.bytes(5000), []byte(strings.Repeat("The quick brown fox jumps over the lazy dog. ", 60))}
	if tier == "thorough" {
		big := make([]byte, 0, 100000)
		for len(big) < 100000 {
			big = append(big, []byte(fmt.Sprintf("line %d of a log file that repeats itself\n", len(big)))...)
		}
		payloads = append(payloads, big, r.bytes(70000))
	} else {
		payloads = append(payloads, bytes.Repeat([]byte("0123456789abcdef"), 2500)) // 40000 > 32 KiB window
	}
	levels := []int{-2, -1, 0, 1, 5, 9}
	for pi, p := range payloads {
		for _, lv := range levels {
			if tier == "quick" && len(p) > 3000 && lv != 1 && lv != 9 {
				continue
			}
			scripts := []string{"w" + hx(p) + ";f", "w" + hx(p) + ";f;c", "w" + hx(p) + ";c"}
			if len(p) >= 2 {
				h := len(p) / 2
				scripts = append(scripts, "w"+hx(p[:h])+";w"+hx(p[h:])+";f", "w"+hx(p[:h])+";f;w"+hx(p[h:])+";f", "w"+hx(p[:1])+";f;f;w"+hx(p[1:])+";f;c")
			}
			for si, sc := range scripts {
				if tier == "quick" && len(p) > 3000 && si > 1 && si != 4 {
					continue
				}
				k := []int{0, 1, 7, 100}[(pi+si)%4]
				if len(p) > 3000 && k == 1 {
					k = 50
				}
				run(fmt.Sprintf("fl %d %s %d %d", lv, sc, k, (pi+si)%2))
			}
		}
		for _, enc := range []string{"stored", "stored7", "fixed", "rle"} {
			if enc == "stored7" && len(p) > 6000 {
				continue
			}
			for _, k := range []int{0, 1, 13} {
				if len(p) > 3000 && k == 1 {
					continue
				}
				run(fmt.Sprintf("ind %s %s %d %d", enc, hx(p), k, k%2))
			}
		}
	}
	// frame helpers
	for _, p := range payloads[:8] {
		for _, fin := range []string{"1", "0"} {
			for _, rsv := range []int{0, 4, 2, 1} {
				for _, op := range []int{1, 2} {
					run(fmt.Sprintf("cf %s %d %d %d %s", fin, rsv, op, b2i(rsv == 2), hx(p)))
				}
			}
		}
	}
	for _, m := range []string{"notail", "wrongtail", "shorttail", "good", "closeextra", "closesum", "closegood"} {
		for _, p := range [][]byte{{}, {1, 2, 3}, {0, 0, 0xff, 0xff}, r.bytes(20)} {
			run(fmt.Sprintf("badc %s %s", m, hx(p)))
		}
	}
}

// genFrameHelpers: DecompressFrame on every frame kind x bits x final/non-final.
func genFrameHelpers(tier string, r *rng) {
	for _, p := range [][]byte{nil, []byte("a"), []byte("hello hello"), r.bytes(40)} {
		for _, fin := range []string{"1", "0"} {
			for rsv := 0; rsv < 8; rsv++ {
				for _, op := range []int{0, 1, 2, 8, 9, 10} {
					if op >= 8 && len(p) > 20 {
						continue
					}
					run(fmt.Sprintf("df %s %d %d %s", fin, rsv, op, hx(p)))
				}
			}
		}
	}
}

// genReaderAfterClose: one decompression reader for message after message where an EARLIER message was
// malformed or cut and was ended with Close(): the next well-formed message is recovered all the same, with
// decompressors that offer Reset(io.Reader) and with those that do not.
func genReaderAfterClose(tier string, r *rng) {
	comp := func(p []byte) []byte { return encFixed(p, true) }
	for _, h := range [][]byte{[]byte("a"), bytes.Repeat([]byte("abc"), 100), r.bytes(200)} {
		for _, fl := range []string{"C", "R", "RC"} {
			run(fmt.Sprintf("rst fr %s 4 %s bb %s", hx([]byte{0xff, 0xff, 0xff}), hx(comp(h)), fl))
			run(fmt.Sprintf("rst fr %s %d %s pb %s", hx(comp(h)[:len(comp(h))/2]), len(h), hx(comp(h)), fl))
			run(fmt.Sprintf("rst fr %s %d %s bp %s", hx(comp(h)), len(h)/2, hx(comp(h)), fl))
		}
	}
}

// genReaderReuse: a decompression reader reused for the next message behaves as new (C12 any source kind,
// C18 reset-as-new).
// genWriterReuse: one compression writer for message after message (messages sharing substrings, so that a
// compressor carried over would refer back into the previous message).
func genWriterReuse(tier string, r *rng) {
	msgs := [][]byte{[]byte("hello hello hello, the same words again and again"), bytes.Repeat([]byte("abc"), 200), r.bytes(60), []byte("a"), nil}
	for _, level := range []int{-2, -1, 0, 1, 9} {
		for _, hide := range []string{"0", "1"} {
			for _, how := range []string{"f", "c"} {
				for i, m1 := range msgs {
					for _, m2 := range [][]byte{m1, msgs[(i+1)%len(msgs)]} {
						if tier == "quick" && (level+i+len(m2))%2 == 0 && i > 1 {
							continue
						}
						run(fmt.Sprintf("flr %d %s %s %s %s", level, hide, hx(m1), hx(m2), how))
					}
				}
			}
		}
	}
}

func genReaderReuse(tier string, r *rng) {
	msgs := [][]byte{nil, []byte("a"), []byte("hello hello hello"), bytes.Repeat([]byte("z"), 300), r.bytes(40)}
	for _, enc := range []string{"stored", "stored7", "fixed", "rle"} {
		for _, kind := range []string{"br", "bb", "bu", "pl"} {
			for i, m1 := range msgs {
				m2 := msgs[(i+2)%len(msgs)]
				if tier == "quick" && (i+len(enc)+len(kind))%2 == 0 {
					continue
				}
				run(fmt.Sprintf("indr %s %s %s %s", enc, hx(m1), hx(m2), kind))
			}
		}
	}
}
