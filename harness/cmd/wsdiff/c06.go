package main

// C06 (and the writer halves of C13/C16/C18): wsutil.Writer driven by operation sequences.
//   wr <side S|C> <opcode> <ctor> <ext -|c0|c1> <fail -|idx> <seed> <op>...
// ctor: new | size:N | bufsize:N | buf:N | bufc:N (buf with spare capacity) | get:N
// ops : w:<hex> wt:<hex> ff fl g:<n> nf rf:<k>:<hex>:<fin> rs:<S|C>:<op> ro:<op> se:<ext> av
// Observed: one item per op "result@destwrite,destwrite" joined by ';', then " masks=<m,m,...>"
// (the masks ws.NewMask() will draw: math/rand is seeded per case, so they are an input of the model).

import (
	"bytes"
	"encoding/binary"
	"fmt"
	"math/rand"
	"strconv"
	"strings"

	"github.com/gobwas/ws"
	"github.com/gobwas/ws/wsflate"
	"github.com/gobwas/ws/wsutil"
)

// recDst records every Write call; call number failAt fails.
type recDst struct {
	writes [][]byte
	calls  int
	failAt int
}

// dstChurn: the destination is itself a user of the shared byte pool (another connection's writer scheduled
// while this one's frame is going out): every Write first takes, scribbles over and returns buffers of every
// size class. Whatever the library still needs must not be in the pool at that moment.
var dstChurn bool

func (d *recDst) Write(p []byte) (int, error) {
	if dstChurn {
		poolChurn()
	}
	i := d.calls
	d.calls++
	if i == d.failAt {
		return 0, errDst
	}
	d.writes = append(d.writes, append([]byte(nil), p...))
	return len(p), nil
}

func side(s string) ws.State {
	if s == "C" {
		return ws.StateClientSide
	}
	return ws.StateServerSide
}

func seedMasks(seed int64, n int) string {
	rand.Seed(seed)
	var ms []string
	for i := 0; i < n; i++ {
		var m [4]byte
		binary.BigEndian.PutUint32(m[:], rand.Uint32())
		ms = append(ms, hx(m[:]))
	}
	rand.Seed(seed)
	return strings.Join(ms, ",")
}

func setExt(w *wsutil.Writer, e string, st *wsflate.MessageState) {
	switch e {
	case "c0":
		st.SetCompressed(false)
		w.SetExtensions(st)
	case "c1":
		st.SetCompressed(true)
		w.SetExtensions(st)
	case "c0x1", "c0x2", "c0x3", "c1x1", "c1x2", "c1x3":
		// the compression message state FOLLOWED by a second send extension of the application's own that marks
		// every frame it is shown with RSV3 / RSV2 / both: each extension is handed the previous one's header
		st.SetCompressed(e[1] == '1')
		bits := e[3] - '0'
		w.SetExtensions(st, wsutil.SendExtensionFunc(func(h ws.Header) (ws.Header, error) {
			h.Rsv |= bits
			return h, nil
		}))
	case "x1", "x2", "x3":
		// a send extension of the application's own that marks EVERY frame it is shown (RSV3 / RSV2 / both)
		bits := e[1] - '0'
		w.SetExtensions(wsutil.SendExtensionFunc(func(h ws.Header) (ws.Header, error) {
			h.Rsv |= bits
			return h, nil
		}))
	default:
		w.SetExtensions()
	}
}

func mkWriter(d *recDst, st ws.State, op ws.OpCode, ctor string) *wsutil.Writer {
	f := strings.Split(ctor, ":")
	n := 0
	if len(f) > 1 {
		n, _ = strconv.Atoi(f[1])
	}
	switch f[0] {
	case "new":
		return wsutil.NewWriter(d, st, op)
	case "size":
		return wsutil.NewWriterSize(d, st, op, n)
	case "bufsize":
		return wsutil.NewWriterBufferSize(d, st, op, n)
	case "buf":
		return wsutil.NewWriterBuffer(d, st, op, make([]byte, n))
	case "bufc":
		// a caller-supplied slice with spare capacity behind it (a pooled slice, big[:n]); the spare part
		// holds recognisable stale bytes
		big := bytes.Repeat([]byte{0xEE}, n+70000)
		return wsutil.NewWriterBuffer(d, st, op, big[:n])
	case "get":
		return wsutil.GetWriter(d, st, op, n)
	}
	panic("bad ctor")
}

func runWriterOps(a []string) string {
	st := side(a[0])
	opn, _ := strconv.Atoi(a[1])
	d := &recDst{failAt: -1}
	if a[4] != "-" {
		d.failAt, _ = strconv.Atoi(a[4])
	}
	seed, _ := strconv.ParseInt(a[5], 10, 64)
	masks := seedMasks(seed, 640)
	var items []string
	var ms wsflate.MessageState
	w := (*wsutil.Writer)(nil)
	ctorRes := guard(func() string {
		w = mkWriter(d, st, ws.OpCode(opn), a[2])
		setExt(w, a[3], &ms)
		return fmt.Sprintf("ok:%d", w.Size())
	})
	if strings.HasPrefix(ctorRes, "PANIC") {
		ctorRes = "PANIC"
	}
	items = append(items, ctorRes+"@")
	if w == nil {
		return strings.Join(items, ";") + " masks=" + masks
	}
	for _, o := range a[6:] {
		before := len(d.writes)
		f := strings.Split(o, ":")
		res := guard(func() string {
			switch f[0] {
			case "w":
				n, err := w.Write(unhx(f[1]))
				return fmt.Sprintf("%d,%s", n, classify(err))
			case "wt":
				n, err := w.WriteThrough(unhx(f[1]))
				return fmt.Sprintf("%d,%s", n, classify(err))
			case "ff":
				return classify(w.FlushFragment())
			case "fl":
				return classify(w.Flush())
			case "g":
				n, _ := strconv.Atoi(f[1])
				w.Grow(n)
				return fmt.Sprintf("%d", w.Size())
			case "nf":
				w.DisableFlush()
				return "ok"
			case "rf":
				k, _ := strconv.Atoi(f[1])
				src, _ := mkReader(unhx(f[2]), k, f[3])
				n, err := w.ReadFrom(src)
				return fmt.Sprintf("%d,%s", n, classify(err))
			case "rs":
				opn, _ := strconv.Atoi(f[2])
				// the previous user's message state stays as it was (compressed, if it was): Reset must detach it
				w.Reset(d, side(f[1]), ws.OpCode(opn))
				return fmt.Sprintf("%d", w.Size())
			case "ro":
				opn, _ := strconv.Atoi(f[1])
				w.ResetOp(ws.OpCode(opn))
				return "ok"
			case "se":
				setExt(w, f[1], &ms)
				return "ok"
			case "av":
				return fmt.Sprintf("%d,%d,%d", w.Size(), w.Available(), w.Buffered())
			}
			return "BADOP"
		})
		var ws_ []string
		for _, wr := range d.writes[before:] {
			ws_ = append(ws_, hx(wr))
		}
		if strings.HasPrefix(res, "PANIC") {
			items = append(items, "PANIC@")
			break
		}
		items = append(items, res+"@"+strings.Join(ws_, ","))
	}
	return strings.Join(items, ";") + " masks=" + masks
}

func init() {
	ops["wr"] = runWriterOps
	// wrc / wmc: wr / wm with a destination that churns the byte pool inside every Write
	ops["wrc"] = func(a []string) string {
		dstChurn = true
		defer func() { dstChurn = false }()
		return runWriterOps(a)
	}
	ops["wmc"] = func(a []string) string {
		dstChurn = true
		defer func() { dstChurn = false }()
		return ops["wm"](a)
	}
	ops["wm"] = func(a []string) string { // wm <side> <op> <payload> <fail> <seed> : WriteMessage
		st := side(a[0])
		opn, _ := strconv.Atoi(a[1])
		d := &recDst{failAt: -1}
		if a[3] != "-" {
			d.failAt, _ = strconv.Atoi(a[3])
		}
		seed, _ := strconv.ParseInt(a[4], 10, 64)
		masks := seedMasks(seed, 2)
		p := unhx(a[2])
		orig := append([]byte(nil), p...)
		err := wsutil.WriteMessage(d, st, ws.OpCode(opn), p)
		var ws_ []string
		for _, wr := range d.writes {
			ws_ = append(ws_, hx(wr))
		}
		return fmt.Sprintf("%s@%s intact=%d masks=%s", classify(err), strings.Join(ws_, ","), b2i(string(orig) == string(p)), masks)
	}
	register("C06", genC06)
}

// writerSeq emits one op-sequence case.
func writerSeq(sd string, op int, ctor, ext, fail string, seed int, opsl []string) {
	run(fmt.Sprintf("wr %s %d %s %s %s %d %s", sd, op, ctor, ext, fail, seed, strings.Join(opsl, " ")))
}

// availOf computes the payload capacity a constructor yields (mirrors reserve(), only to pick
// boundary sizes for the generator; the model/oracle do not depend on it).
func availOf(sd string, ctor string) int {
	d := &recDst{failAt: -1}
	w := (*wsutil.Writer)(nil)
	func() {
		defer func() { recover() }()
		w = mkWriter(d, side(sd), ws.OpText, ctor)
	}()
	if w == nil {
		return 0
	}
	return w.Size()
}

func genC06(tier string, r *rng) {
	sides := []string{"S", "C"}
	// the unbuffered paths (Write larger than an empty buffer, WriteThrough, WriteMessage) with a destination that
	// is itself a pool user: sizes in every pool class up to the largest and one above
	for _, sd := range sides {
		for i, n := range []int{20, 100, 128, 129, 1000, 4096, 5000, 65536, 65537} {
			if tier == "quick" && n > 5000 && sd == "S" {
				continue
			}
			p := hx(r.bytes(n))
			run(fmt.Sprintf("wrc %s %d %s - - %d %s", sd, 1+i%2, "buf:16", 40+i, "w:"+p+" fl av"))
			run(fmt.Sprintf("wrc %s %d %s - - %d %s", sd, 1+i%2, "bufsize:64", 50+i, "wt:"+p+" w:"+hx(r.bytes(3))+" fl av"))
			run(fmt.Sprintf("wmc %s %d %s - %d", sd, 1+i%2, p, 60+i))
		}
	}
	ctors := []string{"buf:16", "buf:24", "size:10", "bufsize:64", "buf:131", "buf:135", "size:125", "size:126"}
	// exhaustive op sequences to depth 3 over boundary sizes relative to the buffer
	depth := 3
	for _, sd := range sides {
		for ci, ctor := range ctors {
			if tier == "quick" && ci >= 4 {
				break
			}
			av := availOf(sd, ctor)
			szs := []int{0, 1, av - 1, av, av + 1, 2 * av}
			var alphabet []string
			for _, s := range szs {
				if s < 0 {
					continue
				}
				alphabet = append(alphabet, "w:"+hx(r.bytes(s)))
			}
			alphabet = append(alphabet, "wt:"+hx(r.bytes(av+3)), "ff", "fl", "rf:3:"+hx(r.bytes(av+2))+":E", "g:"+strconv.Itoa(av+1))
			var rec func(prefix []string, d int)
			seed := 1
			rec = func(prefix []string, d int) {
				if d == 0 {
					seed++
					writerSeq(sd, 1+seed%2, ctor, "-", "-", seed, append(append([]string{}, prefix...), "fl", "av"))
					return
				}
				for _, o := range alphabet {
					rec(append(prefix, o), d-1)
				}
			}
			for d := 1; d <= depth; d++ {
				rec(nil, d)
			}
		}
	}
	// header-reservation thresholds: buffers around 125/126+hdr and 65535/65536+hdr, filled exactly
	for _, sd := range sides {
		for _, raw := range []int{126, 127, 128, 129, 130, 131, 132, 133, 134, 135, 136, 65536, 65537, 65538, 65539, 65540, 65541, 65542, 65543, 65544, 65545, 65546, 65550} {
			ctor := "buf:" + strconv.Itoa(raw)
			av := availOf(sd, ctor)
			for _, fill := range []int{av - 1, av, av + 1} {
				if fill < 0 {
					continue
				}
				writerSeq(sd, 2, ctor, "-", "-", raw, []string{"w:" + hx(r.bytes(fill)), "av", "fl", "w:" + hx(r.bytes(3)), "fl"})
				writerSeq(sd, 2, ctor, "-", "-", raw, []string{"nf", "w:" + hx(r.bytes(fill)), "w:" + hx(r.bytes(2)), "av", "fl"})
			}
		}
	}
	// growth while flush is disabled, across the 125 and 65535 reservation thresholds, with bytes already
	// buffered; caller-supplied buffers with and without spare capacity
	for _, sd := range sides {
		for _, kind := range []string{"buf", "bufc"} {
			for _, raw := range []int{16, 64, 130, 200} {
				ctor := kind + ":" + strconv.Itoa(raw)
				for _, first := range []int{1, 7, 50, 120} {
					for _, second := range []int{10, 100, 300} {
						writerSeq(sd, 2, ctor, "-", "-", raw+first, []string{"nf", "w:" + hx(r.bytes(first)), "w:" + hx(r.bytes(second)), "av", "fl"})
						writerSeq(sd, 2, ctor, "-", "-", raw+first, []string{"w:" + hx(r.bytes(first)), "g:" + strconv.Itoa(second+200), "av", "w:" + hx(r.bytes(second)), "fl"})
					}
				}
				writerSeq(sd, 1, ctor, "-", "-", raw, []string{"nf", "w:" + hx(r.bytes(100)), "w:" + hx(r.bytes(66000)), "fl"})
				writerSeq(sd, 1, ctor, "-", "-", raw, []string{"nf", "rf:7:" + hx(r.bytes(400)) + ":E", "fl"})
			}
		}
	}
	// Reset to the same / the other side after every kind of history, then a message that fills the buffer
	for _, sd := range sides {
		for _, sd2 := range sides {
			for _, ctor := range []string{"buf:16", "buf:131", "size:128", "bufc:64", "new"} {
				av := availOf(sd2, ctor)
				for hi, h := range [][]string{{}, {"w:" + hx(r.bytes(3))}, {"se:c1", "w:" + hx(r.bytes(3)), "ff"}, {"nf", "w:" + hx(r.bytes(200))}, {"w:" + hx(r.bytes(5)), "fl"}} {
					seq := append(append([]string{}, h...), "rs:"+sd2+":2", "av", "w:"+hx(r.bytes(av)), "av", "fl", "w:"+hx(r.bytes(av+1)), "fl")
					writerSeq(sd, 1, ctor, "-", "-", 700+hi, seq)
				}
			}
		}
	}
	// an application extension that marks every frame: buffered continuation frames and the final one carry its bits too
	for _, sd := range sides {
		for _, x := range []string{"x2", "x1", "x3"} {
			av := availOf(sd, "buf:40")
			writerSeq(sd, 1, "buf:40", "-", "-", 900, []string{"se:" + x, "w:" + hx(r.bytes(av+3)), "w:" + hx(r.bytes(av)), "ff", "w:" + hx(r.bytes(2)), "fl", "w:" + hx(r.bytes(1)), "fl"})
			writerSeq(sd, 2, "buf:40", "-", "-", 901, []string{"se:" + x, "wt:" + hx(r.bytes(5)), "w:" + hx(r.bytes(3)), "ff", "fl", "rs:" + sd + ":1", "w:" + hx(r.bytes(3)), "fl"})
		}
	}
	// constructors
	for _, sd := range sides {
		for _, ctor := range []string{"new", "size:0", "size:1", "size:125", "size:126", "size:65535", "size:65536", "bufsize:0", "bufsize:2", "bufsize:3", "bufsize:7", "buf:2", "buf:3", "buf:6", "buf:7", "get:1", "get:100", "get:128", "get:129", "get:5000", "get:65536", "get:70000"} {
			writerSeq(sd, 1, ctor, "-", "-", 7, []string{"av", "w:" + hx(r.bytes(5)), "fl"})
		}
	}
	// NewWriterSize around the header-size thresholds (the header for n payload bytes vs. the reservation for the whole buffer)
	for _, sd := range sides {
		for _, n := range []int{120, 124, 125, 126, 127, 128, 129, 130, 131, 132, 133, 134, 65530, 65535, 65536, 65537, 65540, 65545} {
			writerSeq(sd, 2, "size:"+strconv.Itoa(n), "-", "-", 8, []string{"av", "w:" + hx(r.bytes(n)), "av", "fl", "w:" + hx(r.bytes(n+1)), "fl"})
		}
	}
	// random long sequences, growth with flush disabled, extensions, resets
	n := 1500
	maxLen := 30
	if tier == "thorough" {
		n = 40000
		maxLen = 200
	}
	exts := []string{"-", "-", "c0", "c1"}
	// (x1/x2/x3 — an application extension marking every frame — only through "se:" inside a sequence)
	extsIn := []string{"-", "c0", "c1", "x2", "x1", "x3"}
	for i := 0; i < n; i++ {
		sd := sides[r.intn(2)]
		raw := []int{8, 16, 20, 33, 64, 130, 140, 300, 1000}[r.intn(9)]
		ctor := "buf:" + strconv.Itoa(raw)
		if r.intn(5) == 0 {
			ctor = "size:" + strconv.Itoa(1+r.intn(200))
		} else if r.intn(4) == 0 {
			ctor = "bufc:" + strconv.Itoa(raw)
		}
		av := availOf(sd, ctor)
		var seq []string
		L := 1 + r.intn(maxLen)
		for j := 0; j < L; j++ {
			switch r.intn(14) {
			case 0, 1, 2, 3, 4:
				sz := []int{0, 1, av - 1, av, av + 1, 2*av + 1, r.intn(3 * (av + 1))}[r.intn(7)]
				if sz < 0 {
					sz = 0
				}
				seq = append(seq, "w:"+hx(r.bytes(sz)))
			case 5:
				seq = append(seq, "wt:"+hx(r.bytes(r.intn(2*av+2))))
			case 6, 7:
				seq = append(seq, "ff")
			case 8, 9:
				seq = append(seq, "fl")
			case 10:
				seq = append(seq, fmt.Sprintf("rf:%d:%s:%s", r.intn(9), hx(r.bytes(r.intn(3*av+3))), []string{"E", "E", "Ed", "F"}[r.intn(4)]))
			case 11:
				if r.intn(3) == 0 {
					seq = append(seq, "g:"+strconv.Itoa(r.intn(3*av+3)))
				} else {
					seq = append(seq, "av")
				}
			case 12:
				if r.intn(4) == 0 {
					seq = append(seq, "nf")
				} else {
					seq = append(seq, "se:"+extsIn[r.intn(len(extsIn))])
				}
			case 13:
				switch r.intn(4) {
				case 0:
					seq = append(seq, fmt.Sprintf("ro:%d", 1+r.intn(2)))
				case 1:
					// Reset: same or other side, drops extensions / flush mode / buffered bytes
					seq = append(seq, fmt.Sprintf("rs:%s:%d", sides[r.intn(2)], 1+r.intn(2)), "av")
				default:
					seq = append(seq, "av")
				}
			}
		}
		seq = append(seq, "fl", "av")
		writerSeq(sd, 1+r.intn(2), ctor, exts[r.intn(4)], "-", i, seq)
	}
	// WriteMessage family
	for _, sd := range sides {
		for _, sz := range []int{0, 1, 125, 126, 65535, 65536} {
			run(fmt.Sprintf("wm %s %d %s - %d", sd, 1+r.intn(2), hx(r.bytes(sz)), sz))
		}
	}
}
