package main

// C11: both peers of the library against each other; independence from chunking and buffer sizes;
// the debugging wrappers.
//   pair <dcfg> <ucfg> <urlhex> <kreq> <kresp>    dialer -> upgrader -> dialer, sequentially
//   chup <ucfg> <reqhex> <fin>                    one request under every chunking x buffer size
//   chdl <dcfg> <urlhex> <resphex> <fin>          one response under every chunking x buffer size
//   dbgup <ucfg> <reqhex> <k>                     wsutil.DebugUpgrader vs ws.Upgrader
//   dbgdl <dcfg> <urlhex> <resphex> <k> <mode>    wsutil.DebugDialer vs ws.Dialer (mode ok|dialfail)

import (
	"bytes"
	"context"
	"fmt"
	"io"
	"math/rand"
	"net"
	"net/url"
	"strconv"
	"strings"
	"time"

	"github.com/gobwas/ws"
	"github.com/gobwas/ws/wsutil"
)

// budgetDst accepts whole writes while they fit the budget and refuses every write from the first that does not.
type budgetDst struct {
	buf  bytes.Buffer
	left int
	dead bool
}

func (d *budgetDst) Write(p []byte) (int, error) {
	if d.dead || len(p) > d.left {
		d.dead = true
		return 0, errDst
	}
	d.left -= len(p)
	return d.buf.Write(p)
}

// pairConn: the dialer's connection; on the first Read the request written so far is handed to
// the upgrader (over a chunked reader), whose output becomes the response.
type pairConn struct {
	w           bytes.Buffer
	up          *upCfg
	kreq, kresp int
	rd          io.Reader
	uerr        error
	uhs         ws.Handshake
	resp        []byte
}

func (c *pairConn) Write(p []byte) (int, error) { return c.w.Write(p) }
func (c *pairConn) Read(p []byte) (int, error) {
	if c.rd == nil {
		src, _ := mkReader(append([]byte(nil), c.w.Bytes()...), c.kreq, "E")
		d := &recDst{failAt: -1}
		c.uhs, c.uerr = c.up.u.Upgrade(rwPair{src, d})
		for _, w := range d.writes {
			c.resp = append(c.resp, w...)
		}
		c.rd, _ = mkReader(c.resp, c.kresp, "E")
	}
	return c.rd.Read(p)
}

type scriptConn struct {
	net.Conn
	rd  io.Reader
	w   bytes.Buffer
	dlc *dlConn
}

func (c *scriptConn) Read(p []byte) (int, error)      { return c.dlc.Read(p) }
func (c *scriptConn) Write(p []byte) (int, error)     { return c.dlc.Write(p) }
func (c *scriptConn) Close() error                    { return nil }
func (c *scriptConn) SetDeadline(time.Time) error     { return nil }
func (c *scriptConn) SetReadDeadline(time.Time) error { return nil }
func (c *scriptConn) SetWriteDeadline(time.Time) error {
	return nil
}
func (c *scriptConn) LocalAddr() net.Addr  { return nil }
func (c *scriptConn) RemoteAddr() net.Addr { return nil }

func upOutcome(c *upCfg, req []byte, k int, fin string) string {
	o, _ := upOutcome2(c, req, k, fin)
	return o
}

func upOutcome2(c *upCfg, req []byte, k int, fin string) (string, []byte) {
	src, _ := mkReader(req, k, fin)
	d := &recDst{failAt: -1}
	hs, err := c.u.Upgrade(rwPair{src, d})
	var wr []byte
	for _, w := range d.writes {
		wr = append(wr, w...)
	}
	left, _ := io.ReadAll(src)
	return fmt.Sprintf("%s proto=%s exts=%s written=%s", hsErrClass2(err), hx([]byte(hs.Protocol)), optsStr(hs.Extensions), hx(wr)), left
}

func init() {
	ops["pair"] = func(a []string) string {
		d := parseDialCfg(a[0])
		up := parseUpCfg(a[1])
		u, err := url.ParseRequestURI(string(unhx(a[2])))
		if err != nil {
			return "SKIP:net/url"
		}
		kreq, _ := strconv.Atoi(a[3])
		kresp, _ := strconv.Atoi(a[4])
		conn := &pairConn{up: up, kreq: kreq, kresp: kresp}
		_, hs, derr := d.Upgrade(conn, u)
		req := conn.w.Bytes()
		return fmt.Sprintf("d=%s dproto=%s dexts=%s u=%s uproto=%s uexts=%s req=%s resp=%s nonce=%s uri=%s uhost=%s",
			hsErrClass2(derr), hx([]byte(hs.Protocol)), optsStr(hs.Extensions),
			hsErrClass2(conn.uerr), hx([]byte(conn.uhs.Protocol)), optsStr(conn.uhs.Extensions),
			hx(req), hx(conn.resp), hx(keyOf(req)), hx([]byte(u.RequestURI())), hx([]byte(u.Host)))
	}
	ops["chup"] = func(a []string) string {
		req := unhx(a[1])
		outcomes := map[string]int{}
		var first, diff string
		for _, rb := range []int{0, 1, 16, 17, 64, 300} {
			for _, k := range []int{0, 1, 2, 3, 5, 7, 16, 17, 33, 64, 100, len(req) - 1} {
				if k < 0 {
					continue
				}
				c := parseUpCfg(a[0])
				c.u.ReadBufferSize = rb
				o := upOutcome(c, req, k, a[2])
				if first == "" {
					first = o
				} else if o != first && diff == "" {
					diff = fmt.Sprintf("rb%d/k%d:%s", rb, k, strings.ReplaceAll(o, " ", ";"))
				}
				outcomes[o]++
			}
		}
		if diff == "" {
			diff = "-"
		}
		return fmt.Sprintf("distinct=%d diff=%s %s", len(outcomes), diff, first)
	}
	ops["chdl"] = func(a []string) string {
		u, err := url.ParseRequestURI(string(unhx(a[1])))
		if err != nil {
			return "SKIP:net/url"
		}
		resp := unhx(a[2])
		outcomes := map[string]int{}
		var first, diff string
		for _, rb := range []int{0, 1, 16, 17, 64, 300} {
			for _, k := range []int{0, 1, 2, 3, 5, 7, 16, 17, 33, 64, 100, len(resp) - 1} {
				if k < 0 {
					continue
				}
				d := parseDialCfg(a[0])
				d.ReadBufferSize = rb
				conn := &dlConn{resp: resp, k: k, fin: a[3]}
				br, hs, err := d.Upgrade(conn, u)
				rest := "-"
				if err == nil {
					var rd io.Reader = conn
					if br != nil {
						rd = br
					}
					all, _ := io.ReadAll(rd)
					rest = hx(all)
				}
				o := fmt.Sprintf("%s proto=%s exts=%s rest=%s", hsErrClass2(err), hx([]byte(hs.Protocol)), optsStr(hs.Extensions), rest)
				if first == "" {
					first = o
				} else if o != first && diff == "" {
					diff = fmt.Sprintf("rb%d/k%d:%s", rb, k, strings.ReplaceAll(o, " ", ";"))
				}
				outcomes[o]++
			}
		}
		if diff == "" {
			diff = "-"
		}
		return fmt.Sprintf("distinct=%d diff=%s %s", len(outcomes), diff, first)
	}
	// chdls <urlhex> <resphex>: a rejection (non-101) response and a Dialer.OnStatusError that reads the response
	// it is handed to its end (http.ReadResponse + body, say): what the callback sees is the server's response,
	// whatever the chunking and the read buffer
	ops["chdls"] = func(a []string) string {
		u, err := url.ParseRequestURI(string(unhx(a[0])))
		if err != nil {
			return "SKIP:net/url"
		}
		resp := unhx(a[1])
		outcomes := map[string]int{}
		var first, diff string
		for _, rb := range []int{0, 1, 16, 17, 64, 300} {
			for _, k := range []int{0, 1, 2, 3, 5, 7, 16, 17, 33, 64, 100, len(resp) - 1} {
				if k < 0 {
					continue
				}
				d := ws.Dialer{ReadBufferSize: rb}
				seen := "notcalled"
				d.OnStatusError = func(st int, reason []byte, r io.Reader) {
					// `reason` is a view into the handshake read buffer: reading on through `r` refills that
					// buffer, so the callback looks at it first (no property speaks about it afterwards)
					rs := hx(reason)
					all, _ := io.ReadAll(r)
					seen = fmt.Sprintf("%d:%s:%s", st, rs, hx(all))
				}
				_, _, err := d.Upgrade(&dlConn{resp: resp, k: k, fin: "E"}, u)
				o := hsErrClass2(err) + ";" + seen
				if first == "" {
					first = o
				} else if o != first && diff == "" {
					diff = fmt.Sprintf("rb%d/k%d:%s", rb, k, o)
				}
				outcomes[o]++
			}
		}
		if diff == "" {
			diff = "-"
		}
		return fmt.Sprintf("distinct=%d diff=%s first=%s", len(outcomes), diff, first)
	}
	ops["dbgup"] = func(a []string) string {
		req := unhx(a[1])
		k, _ := strconv.Atoi(a[2])
		plain, pleft := upOutcome2(parseUpCfg(a[0]), req, k, "E")
		c := parseUpCfg(a[0])
		var gotReq, gotResp []byte
		reqCalls, respCalls := 0, 0
		du := wsutil.DebugUpgrader{Upgrader: c.u,
			OnRequest:  func(p []byte) { gotReq = append([]byte(nil), p...); reqCalls++ },
			OnResponse: func(p []byte) { gotResp = append([]byte(nil), p...); respCalls++ }}
		src, _ := mkReader(req, k, "E")
		d := &recDst{failAt: -1}
		hs, err := du.Upgrade(rwPair{src, d})
		var wr []byte
		for _, w := range d.writes {
			wr = append(wr, w...)
		}
		dbg := fmt.Sprintf("%s proto=%s exts=%s written=%s", hsErrClass2(err), hx([]byte(hs.Protocol)), optsStr(hs.Extensions), hx(wr))
		// what stays readable from the connection afterwards
		left, _ := io.ReadAll(src)
		return fmt.Sprintf("same=%d calls=%d/%d repreq=%s represp=%s left=%s pleft=%s %s", b2i(dbg == plain), reqCalls, respCalls, hx(gotReq), hx(gotResp), hx(left), hx(pleft), plain)
	}
	// dbgupw <ucfg> <reqhex> <k> <wb> <budget>: wsutil.DebugUpgrader over a connection that takes whole writes up to
	// <budget> bytes and refuses every later one (the client has gone, a reset), the response going out in chunks
	// of the write buffer <wb>: OnResponse must report exactly the response bytes the connection accepted
	ops["dbgupw"] = func(a []string) string {
		req := unhx(a[1])
		k, _ := strconv.Atoi(a[2])
		wb, _ := strconv.Atoi(a[3])
		budget, _ := strconv.Atoi(a[4])
		c := parseUpCfg(a[0])
		c.u.WriteBufferSize = wb
		var gotResp []byte
		respCalls := 0
		du := wsutil.DebugUpgrader{Upgrader: c.u,
			OnRequest:  func(p []byte) {},
			OnResponse: func(p []byte) { gotResp = append([]byte(nil), p...); respCalls++ }}
		src, _ := mkReader(req, k, "E")
		d := &budgetDst{left: budget}
		_, err := du.Upgrade(rwPair{src, d})
		return fmt.Sprintf("%s calls=%d represp=%s written=%s", hsErrClass2(err), respCalls, hx(gotResp), hx(d.buf.Bytes()))
	}
	ops["dbgdl"] = func(a []string) string {
		raw := string(unhx(a[1]))
		resp := unhx(a[2])
		k, _ := strconv.Atoi(a[3])
		run1 := func(debug bool, cbs ...string) (string, string, string, int, int) {
			cb := "both"
			if len(cbs) > 0 {
				cb = cbs[0]
			}
			rand.Seed(77)
			d := parseDialCfg(a[0])
			dlc := &dlConn{resp: resp, k: k, fin: "E"}
			d.NetDial = func(ctx context.Context, n, ad string) (net.Conn, error) {
				if a[4] == "dialfail" {
					return nil, errBoom
				}
				return &scriptConn{dlc: dlc}, nil
			}
			if a[4] == "wrap" {
				// Dialer.WrapConn: the connection handed back must be the wrapped one, with or
				// without the debug wrapper around the dialer
				d.WrapConn = func(c net.Conn) net.Conn { return &tagConn{c} }
			}
			var conn net.Conn
			var br interface{ Read([]byte) (int, error) }
			var hs ws.Handshake
			var err error
			var gotReq, gotResp []byte
			rc, pc := 0, 0
			if debug {
				dd := wsutil.DebugDialer{Dialer: d}
				if cb == "both" || cb == "req" {
					dd.OnRequest = func(p []byte) { gotReq = append([]byte(nil), p...); rc++ }
				}
				if cb == "both" || cb == "resp" {
					dd.OnResponse = func(p []byte) { gotResp = append([]byte(nil), p...); pc++ }
				}
				c, b, h, e := dd.Dial(context.Background(), raw)
				conn, hs, err = c, h, e
				if b != nil {
					br = b
				}
			} else {
				c, b, h, e := d.Dial(context.Background(), raw)
				conn, hs, err = c, h, e
				if b != nil {
					br = b
				}
			}
			rest := "-"
			if err == nil {
				var rd io.Reader = conn
				if br != nil {
					rd = br
				}
				all, _ := io.ReadAll(rd)
				rest = hx(all)
				if _, tagged := conn.(*tagConn); a[4] == "wrap" && !tagged {
					rest = "UNWRAPPED:" + rest
				}
			}
			out := fmt.Sprintf("%s proto=%s exts=%s rest=%s", hsErrClass2(err), hx([]byte(hs.Protocol)), optsStr(hs.Extensions), rest)
			return out, hx(gotReq) + "/" + hx(dlc.w.Bytes()), hx(gotResp), rc, pc
		}
		plain, _, _, _, _ := run1(false)
		dbg, reqs, gotResp, rc, pc := run1(true)
		f := strings.Split(reqs, "/")
		// the wrapper with only one of the callbacks, or none, installed
		others := 1
		for _, cb := range []string{"req", "resp", "none"} {
			if o, _, _, _, _ := run1(true, cb); o != plain {
				others = 0
			}
		}
		return fmt.Sprintf("same=%d calls=%d/%d repreq=%s sentreq=%s represp=%s others=%d %s", b2i(dbg == plain), rc, pc, f[0], f[1], gotResp, others, plain)
	}
	register("C11", genC11)
}

// tagConn is a pass-through Dialer.WrapConn wrapper recognisable by its type.
type tagConn struct{ net.Conn }

func genC11(tier string, r *rng) {
	rand.Seed(int64(r.next() >> 1))
	pmd := hx([]byte("permessage-deflate"))
	dcfgs := []string{"-",
		"proto@" + hx([]byte("chat")),
		"proto@" + hx([]byte("a")) + "|" + hx([]byte("b")) + "|" + hx([]byte("c")),
		"ext@" + pmd + ":",
		"ext@" + pmd + ":" + hx([]byte("client_max_window_bits")) + "=",
		"ext@" + pmd + ":" + hx([]byte("client_max_window_bits")) + "=" + hx([]byte("10")) + "," + hx([]byte("server_no_context_takeover")) + "=",
		"ext@" + hx([]byte("x-foo")) + ":" + hx([]byte("k")) + "=" + hx([]byte("v w")) + "|" + pmd + ":" + hx([]byte("server_max_window_bits")) + "=" + hx([]byte("9")),
		"proto@" + hx([]byte("b")) + "/ext@" + pmd + ":/hdr@" + hx([]byte("Origin: http://x\r\nX-Long: "+strings.Repeat("h", 200)+"\r\n")),
		"host@" + hx([]byte("other.example")) + "/proto@" + hx([]byte("chat")) + "|" + hx([]byte("superchat")),
		// subprotocol names that differ in case only (tokens are case-sensitive: both sides must report the same spelling)
		"proto@" + hx([]byte("Chat")) + "|" + hx([]byte("chat")),
		"proto@" + hx([]byte("B")) + "|" + hx([]byte("c")) + "|" + hx([]byte("b")),
		// several extensions in one offer, parameters on the first / the middle / the last / all
		"ext@" + hx([]byte("x-foo")) + ":" + hx([]byte("k")) + "=" + hx([]byte("v")) + "," + hx([]byte("flag")) + "=" + "|" + hx([]byte("x-bar")) + ":" + "|" + pmd + ":",
		"ext@" + hx([]byte("x-bar")) + ":" + "|" + hx([]byte("x-foo")) + ":" + hx([]byte("k")) + "=" + hx([]byte("v")) + "|" + hx([]byte("x-baz")) + ":",
		"ext@" + hx([]byte("x-bar")) + ":" + hx([]byte("p")) + "=" + hx([]byte("1")) + "|" + hx([]byte("x-foo")) + ":" + hx([]byte("q")) + "=" + hx([]byte("2")) + "|" + pmd + ":" + hx([]byte("client_max_window_bits")) + "=",
	}
	ucfgs := []string{"-",
		"proto:" + hx([]byte("chat")),
		"proto:" + hx([]byte("c")) + "|" + hx([]byte("b")),
		"proto:" + hx([]byte("zzz")),
		"neg:0;0;0;0", "neg:1;1;12;10", "neg:0;1;0;15",
		"ext:" + pmd, "ext:" + hx([]byte("x-foo")),
		"ext:" + hx([]byte("x-foo")) + "|" + hx([]byte("x-bar")) + "|" + pmd,
		"ext:" + hx([]byte("x-baz")) + "|" + hx([]byte("x-foo")) + "|" + hx([]byte("x-bar")) + ",proto:" + hx([]byte("chat")),
		"proto:" + hx([]byte("b")) + ",neg:1;0;9;0,hdr:" + hx([]byte("X-Server: 1\r\n")),
		"before:h:" + hx([]byte("Set-Cookie: a=b\r\n")),
		"onhost:403:" + hx([]byte("no")) + ":-",
	}
	ks := []int{0, 1, 7, 16, 64}
	for _, dc := range dcfgs {
		for _, uc := range ucfgs {
			for _, rbs := range [][2]int{{0, 0}, {16, 16}, {1, 300}} {
				d, u := dc, uc
				if rbs[0] != 0 {
					if d == "-" {
						d = fmt.Sprintf("rb@%d", rbs[0])
					} else {
						d = fmt.Sprintf("rb@%d/%s", rbs[0], d)
					}
					if u == "-" {
						u = fmt.Sprintf("rb:%d", rbs[1])
					} else {
						u = fmt.Sprintf("rb:%d,%s", rbs[1], u)
					}
				}
				if tier == "quick" && rbs[0] == 1 && r.intn(3) != 0 {
					continue
				}
				run(fmt.Sprintf("pair %s %s %s %d %d", d, u, hx([]byte("ws://example.com/chat?x=1")), ks[r.intn(len(ks))], ks[r.intn(len(ks))]))
			}
		}
	}
	// chunk / buffer independence: requests
	base := baseHeaders()
	reqs := [][]byte{
		buildReq("GET", "/ws", "HTTP/1.1", base, "\r\n"),
		buildReq("GET", "/ws", "HTTP/1.1", base, "\n"),
		buildReq("GET", "/"+strings.Repeat("p", 100), "HTTP/1.1", append([]hdr{{"X-Long", " " + strings.Repeat("v", 333)}}, base...), "\r\n"),
		buildReq("GET", "/", "HTTP/1.1", append(append([]hdr{}, base...), hdr{"Sec-WebSocket-Protocol", " a, b, c"}, hdr{"Cookie", " " + strings.Repeat("c", 70)},
			hdr{"Sec-WebSocket-Extensions", " permessage-deflate; client_max_window_bits, x-foo; a=\"b c\""}, hdr{"X-Tail", " " + strings.Repeat("t", 40)}), "\r\n"),
		buildReq("POST", "/", "HTTP/1.1", base, "\r\n"),
		buildReq("GET", "/", "HTTP/1.1", withHeader(base, 4, []hdr{{"Sec-WebSocket-Key", " short"}}), "\r\n"),
		buildReq("GET", "/", "HTTP/1.1", base[:3], "\r\n"),
		buildReq("GET", "/", "HTTP/1.1", base, "\r\n")[:90],
	}
	upc := []string{"-", "proto:" + hx([]byte("b")) + "|" + hx([]byte("c")) + ",neg:0;0;0;0", "ext:" + hx([]byte("x-foo")) + ",hdr:" + hx([]byte("X-S: 1\r\n"))}
	for _, rq := range reqs {
		for _, uc := range upc {
			run(fmt.Sprintf("chup %s %s E", uc, hx(rq)))
			run(fmt.Sprintf("chup %s %s F", uc, hx(rq)))
		}
	}
	rb := baseRespHeaders()
	ok101 := "HTTP/1.1 101 Switching Protocols"
	resps := [][]byte{
		buildResp(ok101, rb, "\r\n", nil),
		buildResp(ok101, rb, "\n", []byte("tail bytes after the head")),
		buildResp(ok101, append([]hdr{{"X-Long", " " + strings.Repeat("v", 333)}}, rb...), "\r\n", bytes.Repeat([]byte("f"), 500)),
		buildResp(ok101, append(append([]hdr{}, rb...), hdr{"Sec-WebSocket-Protocol", " b"}, hdr{"Sec-WebSocket-Extensions", " permessage-deflate; client_max_window_bits=11"}, hdr{"X-Tail", " " + strings.Repeat("t", 90)}), "\r\n", []byte{0x81, 0x01, 0x41}),
		buildResp("HTTP/1.1 400 Bad Request", rb, "\r\n", []byte("body")),
		buildResp(ok101, rb[:2], "\r\n", nil),
		buildResp(ok101, rb, "\r\n", nil)[:60],
		// LF-only head followed by frame data that contains CRLF CRLF; mixed line ends (header lines end in LF,
		// the blank line is CRLF; header lines CRLF, the blank line a bare LF)
		buildResp(ok101, rb, "\n", []byte("\x81\x10SEND\r\na:b\r\n\r\nbody")),
		append(bytes.TrimSuffix(buildResp(ok101, rb, "\n", nil), []byte("\n")), []byte("\r\n\x81\x02hi")...),
		append(bytes.TrimSuffix(buildResp(ok101, rb, "\r\n", nil), []byte("\r\n")), []byte("\n\x81\x02hi\r\n\r\nmore")...),
	}
	dlc := []string{"-", "proto@" + hx([]byte("a")) + "|" + hx([]byte("b")) + "/ext@" + pmd + ":" + hx([]byte("client_max_window_bits")) + "="}
	for _, rs := range resps {
		for _, dc := range dlc {
			run(fmt.Sprintf("chdl %s %s %s E", dc, hx([]byte("ws://example.com/")), hx(rs)))
			run(fmt.Sprintf("chdl %s %s %s F", dc, hx([]byte("ws://example.com/")), hx(rs)))
		}
	}
	// debug wrappers
	for _, rq := range reqs {
		for _, uc := range upc {
			for _, k := range []int{0, 1, 16} {
				run(fmt.Sprintf("dbgup %s %s %d", uc, hx(rq), k))
			}
		}
	}
	// rejections with a body, seen through OnStatusError
	for _, body := range []string{"", "no", "tenant is not allowed to connect here, ask your administrator", strings.Repeat("long body ", 40)} {
		for _, eol := range []string{"\r\n", "\n"} {
			rej := buildResp("HTTP/1.1 403 Forbidden", []hdr{{"Content-Type", " text/plain"}, {"Content-Length", " " + strconv.Itoa(len(body))}, {"X-Why", " " + strings.Repeat("y", 30)}}, eol, []byte(body))
			run(fmt.Sprintf("chdls %s %s", hx([]byte("ws://example.com/")), hx(rej)))
		}
	}
	// the connection breaks while the response goes out (whole-write faults), small and default write buffers
	for _, uc := range upc {
		for _, wb := range []int{0, 16, 64} {
			for _, budget := range []int{0, 16, 40, 64, 100, 128, 4096} {
				run(fmt.Sprintf("dbgupw %s %s %d %d %d", uc, hx(reqs[0]), (wb+budget)%3, wb, budget))
			}
		}
	}
	// request followed by bytes the client sent right away
	run(fmt.Sprintf("dbgup - %s 0", hx(append(append([]byte{}, reqs[0]...), 0x81, 0x81, 1, 2, 3, 4, 0x40))))
	for _, rs := range resps {
		for _, dc := range append(dlc, "rb@16", "rb@64") {
			for _, k := range []int{0, 1, 16} {
				run(fmt.Sprintf("dbgdl %s %s %s %d ok", dc, hx([]byte("ws://example.com/x")), hx(rs), k))
			}
			run(fmt.Sprintf("dbgdl %s %s %s 0 wrap", dc, hx([]byte("ws://example.com/x")), hx(rs)))
		}
	}
	run(fmt.Sprintf("dbgdl - %s %s 0 dialfail", hx([]byte("ws://example.com/x")), hx(resps[0])))
	// both sides fail when the 101 cannot be written: the HTTP upgrader does not report a handshake the client never saw
	for _, cfg := range []string{"-", "proto:" + hx([]byte("b")) + "|" + hx([]byte("c")) + ",neg:0;0;0;0"} {
		run(fmt.Sprintf("hupw %s %s", cfg, hx(reqs[0])))
		run(fmt.Sprintf("hupw %s %s", cfg, hx(reqs[2])))
	}
	// a server that answers an offered extension with parameters of its own: the outcome is the answer, and the
	// SAME Dialer value offers what it was configured with when it is used again (the dl op dials twice)
	for _, ans := range []string{" permessage-deflate; server_no_context_takeover", " permessage-deflate; client_max_window_bits=10; server_max_window_bits=9", " permessage-deflate"} {
		for _, dc := range []string{"ext@" + pmd + ":" + hx([]byte("client_max_window_bits")) + "=", "ext@" + hx([]byte("x-foo")) + ":" + hx([]byte("k")) + "=" + hx([]byte("v")) + "|" + pmd + ":"} {
			rs := buildResp(ok101, append(append([]hdr{}, rb...), hdr{"Sec-WebSocket-Extensions", ans}), "\r\n", nil)
			run(fmt.Sprintf("dl %s %s %s 0 E", dc, hx([]byte("ws://example.com/x")), hx(rs)))
		}
	}
}
