package main

// C13: RSV1 handling by wsflate.MessageState with the writer and reader stacks.
//   msb set|unset <compressed> <fin> <rsv> <opcode>      MessageState.SetBits / UnsetBits (+ SetBit/UnsetBit/IsCompressed)
//   stack <side S|C> <bufsize> <level> <payload> <pingAfterFrag> <k> : compressed fragmented message through
//         wsflate.Writer -> wsutil.Writer(+MessageState) -> bytes -> wsutil.Reader(+MessageState) -> wsflate.Reader

import (
	"bytes"
	"compress/flate"
	"fmt"
	"io"
	"io/ioutil"
	"strconv"

	"github.com/gobwas/ws"
	"github.com/gobwas/ws/wsflate"
	"github.com/gobwas/ws/wsutil"
)

func init() {
	ops["msb"] = func(a []string) string {
		var s wsflate.MessageState
		s.SetCompressed(a[1] == "1")
		rsv, _ := strconv.Atoi(a[3])
		op, _ := strconv.Atoi(a[4])
		h := ws.Header{Fin: a[2] == "1", Rsv: byte(rsv), OpCode: ws.OpCode(op), Length: 5}
		if a[0] == "set" {
			g, err := s.SetBits(h)
			g2, err2 := wsflate.SetBit(h)
			return fmt.Sprintf("%s %s %d | %s %s", hdrStr(g), classify(err), b2i(s.IsCompressed()), hdrStr(g2), classify(err2))
		}
		g, err := s.UnsetBits(h)
		g2, was, err2 := wsflate.UnsetBit(h)
		ic, err3 := wsflate.IsCompressed(h)
		return fmt.Sprintf("%s %s %d | %s %d %s %d %s", hdrStr(g), classify(err), b2i(s.IsCompressed()), hdrStr(g2), b2i(was), classify(err2), b2i(ic), classify(err3))
	}
	ops["stack"] = func(a []string) string {
		st := side(a[0])
		bufsize, _ := strconv.Atoi(a[1])
		level, _ := strconv.Atoi(a[2])
		payload := unhx(a[3])
		pingAfter, _ := strconv.Atoi(a[4])
		k, _ := strconv.Atoi(a[5])
		// --- write side
		d := &recDst{failAt: -1}
		var ms wsflate.MessageState
		ms.SetCompressed(true)
		w := wsutil.NewWriterBufferSize(d, st, ws.OpBinary, bufsize)
		w.SetExtensions(&ms)
		fw := wsflate.NewWriter(w, func(x io.Writer) wsflate.Compressor { f, _ := flate.NewWriter(x, level); return f })
		if _, err := fw.Write(payload); err != nil {
			return "werr:" + classify(err)
		}
		if err := fw.Flush(); err != nil {
			return "werr:" + classify(err)
		}
		if err := w.Flush(); err != nil {
			return "werr:" + classify(err)
		}
		// --- wire: inject a ping after the pingAfter-th frame (if it is not the last one)
		var wire []byte
		nframes := 0
		rsv1 := ""
		for _, fr := range d.writes {
			wire = append(wire, fr...)
		}
		rd0 := bytes.NewReader(wire)
		var out []byte
		for {
			f, err := ws.ReadFrame(rd0)
			if err != nil {
				break
			}
			nframes++
			rsv1 += strconv.Itoa(b2i(f.Header.Rsv1()))
			b, _ := ws.CompileFrame(f)
			out = append(out, b...)
			if nframes == pingAfter && !f.Header.Fin {
				p := ws.NewPingFrame([]byte("pp"))
				if st.ClientSide() {
					p = ws.MaskFrame(p)
				}
				b, _ := ws.CompileFrame(p)
				out = append(out, b...)
			}
		}
		// --- read side (the peer of the writer)
		peer := ws.StateServerSide
		if st.ServerSide() {
			peer = ws.StateClientSide
		}
		var rs wsflate.MessageState
		src, _ := mkReader(out, k, "E")
		rd := &wsutil.Reader{Source: src, State: peer | ws.StateExtended, Extensions: []wsutil.RecvExtension{&rs},
			OnIntermediate: func(h ws.Header, r io.Reader) error { _, err := io.Copy(ioutil.Discard, r); return err }}
		h, err := rd.NextFrame()
		if err != nil {
			return "rerr:" + classify(err)
		}
		comp := rs.IsCompressed()
		fr := wsflate.NewReader(rd, func(r io.Reader) wsflate.Decompressor { return flate.NewReader(r) })
		got, err := ioutil.ReadAll(fr)
		if err != nil {
			return "rerr:" + classify(err)
		}
		return fmt.Sprintf("ok frames=%d rsv1=%s hdrRsv=%d compressed=%d after=%d equal=%d", nframes, rsv1, h.Rsv, b2i(comp), b2i(rs.IsCompressed()), b2i(bytes.Equal(got, payload)))
	}
	register("C13", genC13)
}

func genC13(tier string, r *rng) {
	for _, which := range []string{"set", "unset"} {
		for c := 0; c < 2; c++ {
			for fin := 0; fin < 2; fin++ {
				for rsv := 0; rsv < 8; rsv++ {
					for op := 0; op < 16; op++ {
						run(fmt.Sprintf("msb %s %d %d %d %d", which, c, fin, rsv, op))
					}
				}
			}
		}
	}
	// writer: sequences of compressed / uncompressed messages x buffer sizes x both sides
	for _, sd := range []string{"S", "C"} {
		for _, raw := range []int{8, 12, 16, 40, 200} {
			ctor := "buf:" + strconv.Itoa(raw)
			av := availOf(sd, ctor)
			for i := 0; i < 6; i++ {
				var seq []string
				for m := 0; m < 3; m++ {
					seq = append(seq, "se:"+[]string{"c0", "c1", "-", "c1x2", "c1x1", "c0x3"}[(r.intn(3)+3*b2i(i%3 == 2 && m != 1))%6])
					nw := 1 + r.intn(3)
					for j := 0; j < nw; j++ {
						seq = append(seq, "w:"+hx(r.bytes([]int{1, av, av + 1, 3*av + 2}[r.intn(4)])))
						if r.intn(3) == 0 {
							seq = append(seq, "ff")
						}
					}
					seq = append(seq, "fl")
					// the writer handed to the next user (Reset / ResetOp): Reset detaches the message state,
					// so messages written without SetExtensions are plain
					switch r.intn(5) {
					case 0:
						seq = append(seq, fmt.Sprintf("rs:%s:%d", []string{"S", "C"}[r.intn(2)], 1+r.intn(2)), "w:"+hx(r.bytes(1+r.intn(2*av))), "fl")
					case 1:
						seq = append(seq, fmt.Sprintf("ro:%d", 1+r.intn(2)))
					}
				}
				writerSeq(sd, 1+r.intn(2), ctor, []string{"c0", "c1"}[r.intn(2)], "-", raw+i, seq)
			}
		}
	}
	// reader with the extension: all RSV patterns on every frame kind, controls at every position
	for _, server := range []bool{true, false} {
		st := sideOf(server) | 4 // StateExtended
		for rsvFirst := 0; rsvFirst < 8; rsvFirst++ {
			for rsvCont := 0; rsvCont < 8; rsvCont += 1 {
				for rsvCtl := 0; rsvCtl < 8; rsvCtl += 1 {
					if tier == "quick" && (rsvFirst+rsvCont+rsvCtl)%3 != 0 && rsvCont != 0 && rsvCtl != 0 {
						continue
					}
					fs := []gframe{
						{false, byte(rsvFirst), ws.OpBinary, []byte("ab")},
						{true, byte(rsvCtl), ws.OpPing, []byte("p")},
						{false, byte(rsvCont), ws.OpContinuation, []byte("cd")},
						{true, 0, ws.OpPong, nil},
						{true, 0, ws.OpContinuation, []byte("ef")},
						{true, 0, ws.OpText, []byte("next")},
					}
					enc := encodeStream(fs, server, r)
					run(fmt.Sprintf("rdr %d ext,inter %s %d E nf st ra st nf st ra st", st, hx(enc), (rsvFirst+rsvCont)%3))
					// SkipHeaderCheck switches off the RFC 6455 header rules, not the extension's own
					if (rsvFirst+rsvCont+rsvCtl)%2 == 0 {
						run(fmt.Sprintf("rdr %d skip,ext,inter %s %d E nf st ra st nf st ra st", st, hx(enc), (rsvFirst+rsvCtl)%3))
					}
				}
			}
		}
		// compressed then uncompressed then compressed messages, single frame and fragmented
		for i := 0; i < 20; i++ {
			var fs []gframe
			var script []string
			for m := 0; m < 3; m++ {
				msg := validMessage(r, 3, false, false)
				if r.bool() {
					msg[0].rsv = 4
				}
				fs = append(fs, msg...)
				script = append(script, "nf", "st", "ra", "st")
			}
			enc := encodeStream(fs, server, r)
			run(fmt.Sprintf("rdr %d ext,inter %s %d E %s", st, hx(enc), r.intn(4), joinS(script)))
		}
		// NextFrame called while a frame is still installed, and the extension refuses the new header (RSV1 on a
		// control or continuation frame): the reader keeps the OLD frame's chain — through the cipher reader or
		// not, through the validator or not — over the NEW frame's raw limit; the cipher reader is re-keyed
		// only if the refused frame is masked
		for _, oldMasked := range []bool{false, true} {
			for _, newMasked := range []bool{false, true} {
				for _, oldText := range []bool{false, true} {
					for _, newB0 := range []byte{0xc9, 0x40, 0xc0} {
						b0 := byte(0x02)
						if oldText {
							b0 = 0x01
						}
						tail := []byte("h\xc3\xa9llo w\xc3\xb6rld")
						inner := []byte{newB0}
						if newMasked {
							inner = append(inner, 0x80|byte(len(tail)), 9, 8, 7, 6)
						} else {
							inner = append(inner, byte(len(tail)))
						}
						payload := append(append([]byte("ab"), inner...), tail...)
						payload = append(payload, "zz"...)
						wire := []byte{b0}
						if oldMasked {
							wire = append(wire, 0x80|byte(len(payload)), 1, 2, 3, 4)
						} else {
							wire = append(wire, byte(len(payload)))
						}
						wire = append(wire, payload...)
						wire = append(wire, encodeStream([]gframe{{true, 0, ws.OpPing, []byte("p")}, {true, 0, ws.OpContinuation, []byte("end")}}, server, r)...)
						for _, cfg := range []string{"skip,utf8,ext,inter", "skip,ext,inter"} {
							for _, k := range []int{0, 3} {
								run(fmt.Sprintf("rdr %d %s %s %d E nf r:2 nf r:4 ra st", st, cfg, hx(wire), k))
								run(fmt.Sprintf("rdr %d %s %s %d E nf r:2 nf d st nf ra st", st, cfg, hx(wire), k))
							}
						}
					}
				}
			}
		}
	}
	// full stack round trip
	n := 60
	if tier == "thorough" {
		n = 1500
	}
	for i := 0; i < n; i++ {
		sz := []int{0, 1, 10, 100, 1000, 5000, 40000}[r.intn(7)]
		var p []byte
		if r.bool() {
			p = r.bytes(sz)
		} else {
			p = bytes.Repeat([]byte("abcabc-"), sz/7+1)[:sz]
		}
		run(fmt.Sprintf("stack %s %d %d %s %d %d", []string{"S", "C"}[r.intn(2)], []int{16, 20, 64, 200, 4096}[r.intn(5)], []int{-2, 0, 1, 9}[r.intn(4)], hx(p), 1+r.intn(3), r.intn(5)))
	}
}

func joinS(a []string) string {
	out := ""
	for i, s := range a {
		if i > 0 {
			out += " "
		}
		out += s
	}
	return out
}
