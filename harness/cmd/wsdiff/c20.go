package main

// C20: Dialer.Dial under cancellation / expiry / timeout, against a scripted deadline-honouring conn.
//   dialc <bg 0|1> <timeout u|0> <ctx none|cancel:u|deadline:u> <dialdur u|never> <hsdur u|never> <hsfail 0|1>
// u = time units of 40 ms. The peer "answers" hsdur after the request was written.
// Observed: err=<nil|canceled|deadline|nettimeout|io|other> connected=<0|1> closed=<0|1> dl=<untouched|cleared|poisoned|armed>
//           late=<0|1> hung=<0|1> leak=<0|1> touched=<0|1>

import (
	"context"
	"errors"
	"fmt"
	"io"
	"net"
	"runtime"
	"strconv"
	"strings"
	"sync"
	"time"

	"github.com/gobwas/ws"
	"github.com/gobwas/ws/wsutil"
)

const unit = 40 * time.Millisecond

var errDialPanic = errors.New("Dial panicked")

type timeoutErr struct{}

func (timeoutErr) Error() string   { return "i/o timeout" }
func (timeoutErr) Timeout() bool   { return true }
func (timeoutErr) Temporary() bool { return true }

// dlConn2 honours deadlines; the response becomes readable at `ready` (zero = never).
type deadConn struct {
	mu       sync.Mutex
	cond     chan struct{} // closed & replaced on every state change
	deadline time.Time
	dlState  string
	closed   bool
	calls    int
	wrote    bool
	hs       time.Duration // -1 = never
	fail     bool
	ready    time.Time
	hs2      time.Duration // > 0: only the first part of the response is readable at `ready`, the rest hs2 later
	ready2   time.Time
	part1    int // bytes of the response readable before ready2
	resp     []byte
	req      []byte
	onFinal  func() // called right before the last response bytes are handed out
	slowDL   time.Duration
}

func newDeadConn(hs time.Duration, fail bool) *deadConn {
	return &deadConn{cond: make(chan struct{}), dlState: "untouched", hs: hs, fail: fail}
}

func (c *deadConn) bump() {
	close(c.cond)
	c.cond = make(chan struct{})
}

func (c *deadConn) Write(p []byte) (int, error) {
	c.mu.Lock()
	defer c.mu.Unlock()
	c.calls++
	if c.closed {
		return 0, io.ErrClosedPipe
	}
	if !c.deadline.IsZero() && !time.Now().Before(c.deadline) {
		return 0, timeoutErr{}
	}
	c.req = append(c.req, p...)
	if !c.wrote {
		c.wrote = true
		if c.hs >= 0 {
			c.ready = time.Now().Add(c.hs)
			if c.hs2 > 0 {
				c.ready2 = c.ready.Add(c.hs2)
			}
		}
		if c.fail {
			c.resp = []byte("HTTP/1.1 400 Bad Request\r\n\r\n")
		} else {
			c.resp = []byte("HTTP/1.1 101 Switching Protocols\r\nUpgrade: websocket\r\nConnection: Upgrade\r\nSec-WebSocket-Accept: " + string(acceptFor(keyOf(c.req))) + "\r\n\r\n")
		}
		// the first part ends in the middle of a header line ("...Upgrade: websocket\r\nConnec")
		c.part1 = len("HTTP/1.1 101 Switching Protocols\r\nUpgrade: websocket\r\nConnec")
		if c.part1 > len(c.resp) {
			c.part1 = len(c.resp) / 2
		}
	}
	return len(p), nil
}

func (c *deadConn) Read(p []byte) (int, error) {
	for {
		c.mu.Lock()
		c.calls++
		if c.closed {
			c.mu.Unlock()
			return 0, io.ErrClosedPipe
		}
		now := time.Now()
		if !c.deadline.IsZero() && !now.Before(c.deadline) {
			c.mu.Unlock()
			return 0, timeoutErr{}
		}
		if !c.ready.IsZero() && !now.Before(c.ready) {
			if len(c.resp) == 0 {
				c.mu.Unlock()
				return 0, io.EOF
			}
			avail := c.resp
			if !c.ready2.IsZero() && now.Before(c.ready2) {
				// only what is left of the first part
				if c.part1 <= 0 {
					// wait for the second part, the deadline or a state change
					wait := c.ready2.Sub(now)
					if !c.deadline.IsZero() && c.deadline.Sub(now) < wait {
						wait = c.deadline.Sub(now)
					}
					ch := c.cond
					c.calls--
					c.mu.Unlock()
					select {
					case <-ch:
					case <-time.After(wait):
					}
					continue
				}
				avail = c.resp[:c.part1]
			}
			n := copy(p, avail)
			c.part1 -= n
			c.resp = c.resp[n:]
			f := c.onFinal
			last := len(c.resp) == 0
			c.mu.Unlock()
			if last && f != nil {
				f()
			}
			return n, nil
		}
		// wait for: readiness, deadline, or a state change
		var wait time.Duration = time.Hour
		if !c.ready.IsZero() {
			wait = c.ready.Sub(now)
		}
		if !c.deadline.IsZero() && c.deadline.Sub(now) < wait {
			wait = c.deadline.Sub(now)
		}
		ch := c.cond
		c.calls-- // one logical call
		c.mu.Unlock()
		select {
		case <-ch:
		case <-time.After(wait):
		}
	}
}

func (c *deadConn) Close() error {
	c.mu.Lock()
	defer c.mu.Unlock()
	c.calls++
	c.closed = true
	c.bump()
	return nil
}
func (c *deadConn) setDL(t time.Time) {
	if c.slowDL > 0 && !t.IsZero() && t.Before(time.Now()) {
		time.Sleep(c.slowDL) // a conn whose SetDeadline takes its time (a wrapped or remote conn)
	}
	c.mu.Lock()
	defer c.mu.Unlock()
	c.calls++
	c.deadline = t
	switch {
	case t.IsZero():
		c.dlState = "cleared"
	case t.Before(time.Now()):
		c.dlState = "poisoned"
	default:
		c.dlState = "armed"
	}
	c.bump()
}
func (c *deadConn) SetDeadline(t time.Time) error      { c.setDL(t); return nil }
func (c *deadConn) SetReadDeadline(t time.Time) error  { c.setDL(t); return nil }
func (c *deadConn) SetWriteDeadline(t time.Time) error { c.setDL(t); return nil }
func (c *deadConn) LocalAddr() net.Addr                { return nil }
func (c *deadConn) RemoteAddr() net.Addr               { return nil }

func parseU(s string) time.Duration {
	if s == "never" || s == "neverT" || s == "neverD" {
		return -1
	}
	n, _ := strconv.Atoi(s)
	return time.Duration(n) * unit
}

func init() {
	// the timeline is real time: when the machine is too busy to keep instants 40 ms apart in order, the
	// observation says nothing about the library. A probe goroutine measures the scheduling delay while
	// the case runs; a disturbed run is repeated, and given up (SKIP:timing) after three disturbed runs.
	ops["dialc"] = func(a []string) string {
		for attempt := 0; attempt < 3; attempt++ {
			stop := make(chan struct{})
			worst := make(chan time.Duration, 1)
			go func() {
				var w time.Duration
				for {
					t0 := time.Now()
					select {
					case <-stop:
						worst <- w
						return
					case <-time.After(2 * time.Millisecond):
					}
					if d := time.Since(t0) - 2*time.Millisecond; d > w {
						w = d
					}
				}
			}()
			res := dialcOnce(a)
			close(stop)
			if <-worst < unit/4 {
				return res
			}
		}
		return "SKIP:timing-disturbed"
	}
	register("C20", genC20)
}

func dialcOnce(a []string) string {
	{
		bg := a[0] == "1"
		timeout := parseU(a[1])
		hsF := strings.Split(a[4], "+")
		// "<u>i": a NetDial of the user's that ignores its context and hands the conn over after u units regardless
		ignores := strings.HasSuffix(a[3], "i")
		dialDur, hsDur := parseU(strings.TrimSuffix(a[3], "i")), parseU(hsF[0])
		conn := newDeadConn(hsDur, a[5] == "1")
		if len(hsF) > 1 {
			conn.hs2 = parseU(hsF[1])
		}
		connected := false
		d := ws.Dialer{
			Timeout: timeout,
			NetDial: func(ctx context.Context, network, addr string) (net.Conn, error) {
				if ignores {
					time.Sleep(dialDur)
					connected = true
					return conn, nil
				}
				if dialDur < 0 {
					<-ctx.Done()
					return nil, ctx.Err()
				}
				select {
				case <-time.After(dialDur):
					connected = true
					return conn, nil
				case <-ctx.Done():
					return nil, ctx.Err()
				}
			},
		}
		ctx := context.Background()
		var cancel context.CancelFunc = func() {}
		limit := time.Duration(-1)
		if timeout > 0 {
			limit = timeout
		}
		f := strings.Split(a[2], ":")
		var cancelAt time.Duration = -1
		switch f[0] {
		case "cancel":
			ctx, cancel = context.WithCancel(context.Background())
			cancelAt = parseU(f[1])
		case "deadline":
			ctx, cancel = context.WithTimeout(context.Background(), parseU(f[1]))
			cancelAt = parseU(f[1])
		case "atfinish", "atfinishs":
			if f[0] == "atfinishs" {
				// … and poisoning the deadline takes a while: Dial still returns only after the watcher is through
				conn.slowDL = unit
			}
			// forced order: the handshake I/O completes, and the context is cancelled (and the watcher given
			// time to poison the conn) before Dial gets to call done()
			ctx, cancel = context.WithCancel(context.Background())
			c2 := cancel
			conn.onFinal = func() { c2(); time.Sleep(unit / 2) }
		case "none":
			if !bg {
				ctx, cancel = context.WithCancel(context.Background()) // non-background, never ends by itself
			}
		}
		if cancelAt >= 0 && (limit < 0 || cancelAt < limit) {
			limit = cancelAt
		}
		defer cancel()
		g0 := runtime.NumGoroutine()
		start := time.Now()
		if f[0] == "cancel" {
			time.AfterFunc(cancelAt, cancel)
		}
		type res struct {
			err error
		}
		ch := make(chan res, 1)
		go func() {
			defer func() {
				if p := recover(); p != nil {
					ch <- res{errDialPanic}
				}
			}()
			u := "ws://example.com/x"
			if hsF[0] == "neverT" {
				// TLS (the default TLSClient over the scripted conn): the peer never answers the ClientHello
				u = "wss://example.com/x"
			}
			if hsF[0] == "neverD" {
				// through the debug wrapper with its response callback installed
				dd := wsutil.DebugDialer{Dialer: d, OnResponse: func([]byte) {}}
				_, _, _, err := dd.Dial(ctx, u)
				ch <- res{err}
				return
			}
			_, _, _, err := d.Dial(ctx, u)
			ch <- res{err}
		}()
		hung := 0
		var r res
		cap_ := 14 * unit
		select {
		case r = <-ch:
		case <-time.After(cap_):
			hung = 1
			cancel()
			conn.Close()
			select {
			case r = <-ch:
			case <-time.After(cap_):
				return "HANG"
			}
		}
		elapsed := time.Since(start)
		late := 0
		by := limit
		if ignores && dialDur > by {
			by = dialDur // Dial cannot return before the NetDial it was given does
		}
		if limit >= 0 && elapsed > by+3*unit/2 {
			late = 1
		}
		conn.mu.Lock()
		callsAtReturn := conn.calls
		closed, dl := conn.closed, conn.dlState
		conn.mu.Unlock()
		time.Sleep(unit)
		conn.mu.Lock()
		touched := b2i(conn.calls != callsAtReturn)
		conn.mu.Unlock()
		_ = g0
		sb := make([]byte, 1<<18)
		sb = sb[:runtime.Stack(sb, true)]
		leak := b2i(strings.Contains(string(sb), "setupContextDeadliner"))
		cls := "other:"
		switch {
		case r.err == nil:
			cls = "nil"
		case r.err == errDialPanic:
			cls = "panic"
		case errors.Is(r.err, context.Canceled):
			cls = "canceled"
		case errors.Is(r.err, context.DeadlineExceeded):
			cls = "deadline"
		default:
			var ne net.Error
			if errors.As(r.err, &ne) && ne.Timeout() {
				cls = "nettimeout"
			} else {
				cls = "io"
			}
		}
		if hung == 1 {
			// the forced termination's own effects are not the library's
			return fmt.Sprintf("err=- connected=%d closed=- dl=- late=1 hung=1 leak=%d touched=-", b2i(connected), leak)
		}
		return fmt.Sprintf("err=%s connected=%d closed=%d dl=%s late=%d hung=0 leak=%d touched=%d", cls, b2i(connected), b2i(closed), dl, late, leak, touched)
	}
}

func genC20(tier string, r *rng) {
	type c struct{ bg, timeout, ctx, dial, hs, fail string }
	var cases []c
	for _, bg := range []string{"0", "1"} {
		ctxs := []string{"none", "cancel:1", "cancel:3", "cancel:5", "deadline:3", "deadline:5"}
		if bg == "1" {
			ctxs = []string{"none"}
		}
		for _, to := range []string{"0", "3", "7"} {
			for _, cx := range ctxs {
				for _, dd := range []string{"0", "2", "never"} {
					for _, hs := range []string{"0", "2", "never"} {
						for _, fl := range []string{"0", "1"} {
							if fl == "1" && hs == "never" {
								continue
							}
							if dd == "never" && hs != "0" {
								continue
							}
							// no limit at all and a silent peer: Dial is entitled to wait for ever - not run
							if to == "0" && cx == "none" && (dd == "never" || hs == "never") {
								continue
							}
							cases = append(cases, c{bg, to, cx, dd, hs, fl})
						}
					}
				}
			}
		}
	}
	for i, k := range cases {
		// keep events apart: skip timelines where two decisive instants coincide (the unforced race is
		// run separately below)
		if tier == "quick" && i%2 == 1 && k.fail == "1" {
			continue
		}
		if coincide(k.timeout, k.ctx, k.dial, k.hs) {
			continue
		}
		run(fmt.Sprintf("dialc %s %s %s %s %s %s", k.bg, k.timeout, k.ctx, k.dial, k.hs, k.fail))
	}
	// the same through wsutil.DebugDialer (OnResponse set), the peer silent after the request
	for _, k := range []c{
		{"0", "0", "cancel:2", "0", "neverD", "0"}, {"0", "0", "deadline:2", "0", "neverD", "0"}, {"0", "2", "none", "0", "neverD", "0"},
		{"1", "2", "none", "0", "neverD", "0"}, {"0", "7", "cancel:3", "1", "neverD", "0"},
		// ... and the limit reached while NetDial is still connecting (it then returns no conn, only the error)
		{"0", "0", "cancel:2", "never", "neverD", "0"}, {"0", "0", "deadline:2", "never", "neverD", "0"}, {"0", "2", "none", "never", "neverD", "0"},
		{"1", "2", "none", "never", "neverD", "0"}, {"0", "0", "cancel:1", "3", "neverD", "0"},
	} {
		run(fmt.Sprintf("dialc %s %s %s %s %s %s", k.bg, k.timeout, k.ctx, k.dial, k.hs, k.fail))
	}
	// the context ends as the last response bytes arrive AND the conn is slow to take the poisoned deadline
	for _, to := range []string{"0", "7"} {
		run(fmt.Sprintf("dialc 0 %s atfinishs 0 1 0", to))
		run(fmt.Sprintf("dialc 0 %s atfinishs 1 2 0", to))
	}
	// wss:// with a peer that accepts the connection and then stays silent: every way the limit can come
	for _, k := range []c{
		{"0", "0", "cancel:2", "0", "neverT", "0"}, {"0", "0", "cancel:3", "1", "neverT", "0"}, {"0", "0", "deadline:2", "0", "neverT", "0"},
		{"0", "2", "none", "0", "neverT", "0"}, {"1", "2", "none", "0", "neverT", "0"}, {"0", "7", "cancel:2", "0", "neverT", "0"},
		{"0", "3", "cancel:6", "1", "neverT", "0"},
	} {
		run(fmt.Sprintf("dialc %s %s %s %s %s %s", k.bg, k.timeout, k.ctx, k.dial, k.hs, k.fail))
	}
	// the response arrives in two parts, the first ending in the middle of a header line; the context ends /
	// the timeout fires during the stall between them (or not at all)
	for _, k := range []c{
		{"0", "0", "cancel:2", "0", "1+3", "0"}, {"0", "0", "deadline:2", "0", "1+3", "0"}, {"0", "2", "none", "0", "1+3", "0"},
		{"1", "2", "none", "0", "1+3", "0"}, {"0", "7", "cancel:3", "1", "1+3", "0"}, {"0", "3", "cancel:6", "0", "1+4", "0"},
		{"0", "7", "none", "0", "1+3", "0"}, {"1", "0", "none", "0", "1+2", "0"}, {"0", "0", "cancel:6", "0", "1+2", "0"},
	} {
		run(fmt.Sprintf("dialc %s %s %s %s %s %s", k.bg, k.timeout, k.ctx, k.dial, k.hs, k.fail))
	}
	// a NetDial that ignores its context and delivers a conn after the limit has passed: the conn is closed all the
	// same (silent peer, slow peer; context cancel / deadline / Timeout; background fast path)
	for _, k := range []c{
		{"0", "0", "cancel:1", "3i", "never", "0"}, {"0", "0", "deadline:2", "4i", "2", "0"}, {"0", "2", "none", "4i", "never", "0"},
		{"1", "2", "none", "4i", "2", "0"}, {"1", "2", "none", "3i", "never", "0"}, {"0", "5", "cancel:2", "4i", "2", "0"}, {"0", "2", "cancel:6", "4i", "3", "0"},
	} {
		run(fmt.Sprintf("dialc %s %s %s %s %s %s", k.bg, k.timeout, k.ctx, k.dial, k.hs, k.fail))
	}
	// forced order 'handshake finished, then poisoned, then done()'
	for _, dd := range []string{"0", "2"} {
		for _, hs := range []string{"1", "2"} {
			for _, to := range []string{"0", "7"} {
				run(fmt.Sprintf("dialc 0 %s atfinish %s %s 0", to, dd, hs))
			}
		}
	}
	// the unforced race: handshake finishing at the instant the context ends (either outcome is legal)
	for i := 0; i < 6; i++ {
		run("dialc 0 0 cancel:2 0 2 0")
		run("dialc 0 2 none 0 2 0")
	}
}

func coincide(to, cx, dd, hs string) bool {
	var inst []int
	if to != "0" {
		n, _ := strconv.Atoi(to)
		inst = append(inst, n)
	}
	if i := strings.Index(cx, ":"); i >= 0 {
		n, _ := strconv.Atoi(cx[i+1:])
		inst = append(inst, n)
	}
	if dd != "never" {
		d, _ := strconv.Atoi(dd)
		inst = append(inst, d)
		if hs != "never" {
			h, _ := strconv.Atoi(hs)
			if h > 0 {
				inst = append(inst, d+h)
			}
		}
	}
	for i := range inst {
		for j := i + 1; j < len(inst); j++ {
			if inst[i] == inst[j] && inst[i] != 0 {
				return true
			}
		}
	}
	return false
}
