package main

// C14: wsflate.Extension.Negotiate / Accepted / Reset, Parameters.Parse / Option.
//   neg <cfg s,c,sb,cb> <item>...     item: reset | <namehex>:<k>=<v>,<k>=<v>...  (k,v hex; "-" = empty)
//        observed per item: none | acc:<k>=<v>,... | err:<kind> | reset ; then " acc=<0|1>:<s,c,sb,cb>"
//   popt <s,c,sb,cb>                  Parameters.Option() then Parse() of it

import (
	"fmt"
	"strconv"
	"strings"

	"github.com/gobwas/httphead"
	"github.com/gobwas/ws/wsflate"
)

func parseCfg14(s string) wsflate.Parameters {
	f := strings.Split(s, ",")
	sb, _ := strconv.Atoi(f[2])
	cb, _ := strconv.Atoi(f[3])
	return wsflate.Parameters{ServerNoContextTakeover: f[0] == "1", ClientNoContextTakeover: f[1] == "1",
		ServerMaxWindowBits: wsflate.WindowBits(sb), ClientMaxWindowBits: wsflate.WindowBits(cb)}
}

func paramsStr(p wsflate.Parameters) string {
	return fmt.Sprintf("%d,%d,%d,%d", b2i(p.ServerNoContextTakeover), b2i(p.ClientNoContextTakeover), p.ServerMaxWindowBits, p.ClientMaxWindowBits)
}

func mkOption(item string) httphead.Option {
	i := strings.IndexByte(item, ':')
	opt := httphead.Option{Name: unhx(item[:i])}
	if item[i+1:] != "" {
		for _, kv := range strings.Split(item[i+1:], ",") {
			j := strings.IndexByte(kv, '=')
			var v []byte
			if kv[j+1:] != "-" {
				v = unhx(kv[j+1:])
			}
			opt.Parameters.Set(unhx(kv[:j]), v)
		}
	}
	return opt
}

func optStr(o httphead.Option) string {
	var xs []string
	o.Parameters.ForEach(func(k, v []byte) bool {
		xs = append(xs, hx(k)+"="+hx(v))
		return true
	})
	return hx(o.Name) + ":" + strings.Join(xs, ",")
}

func errKind(err error) string {
	s := err.Error()
	for _, k := range []string{"duplicate", "invalid", "unexpected"} {
		if strings.Contains(s, "wsflate: "+k+" extension parameter") {
			i := strings.Index(s, "parameter \"")
			rest := s[i+len("parameter \""):]
			j := strings.Index(rest, "\"")
			return k + ":" + hx([]byte(rest[:j]))
		}
	}
	return "other:" + strings.ReplaceAll(s, " ", "_")
}

func init() {
	ops["neg"] = func(a []string) string {
		ext := wsflate.Extension{Parameters: parseCfg14(a[0])}
		var items []string
		for _, it := range a[1:] {
			if it == "reset" {
				ext.Reset()
				items = append(items, "reset")
				continue
			}
			if strings.HasPrefix(it, "cfg=") { // the owner reconfigures the extension between upgrades
				ext.Parameters = parseCfg14(it[4:])
				items = append(items, "cfg")
				continue
			}
			res := guard(func() string {
				acc, err := ext.Negotiate(mkOption(it))
				if err != nil {
					return "err:" + errKind(err)
				}
				if acc.Size() == 0 {
					return "none"
				}
				return "acc:" + optStr(acc)
			})
			items = append(items, res)
		}
		p, ok := ext.Accepted()
		// each offer alone against a fresh negotiator with the same configuration
		var solo, soloAns []string
		cur := a[0]
		for _, it := range a[1:] {
			if it == "reset" {
				solo, soloAns = append(solo, "r"), append(soloAns, "-")
				continue
			}
			if strings.HasPrefix(it, "cfg=") {
				cur = it[4:]
				solo, soloAns = append(solo, "c"), append(soloAns, "-")
				continue
			}
			ans := "-"
			solo = append(solo, guard(func() string {
				fresh := wsflate.Extension{Parameters: parseCfg14(cur)}
				acc, err := fresh.Negotiate(mkOption(it))
				if err != nil {
					return "e"
				}
				if acc.Size() == 0 {
					return "0"
				}
				ans = optStr(acc)
				return "1"
			}))
			soloAns = append(soloAns, ans)
		}
		return fmt.Sprintf("%s acc=%d:%s solo=%s soloans=%s", strings.Join(items, ";"), b2i(ok), paramsStr(p), strings.Join(solo, ""), strings.Join(soloAns, ";"))
	}
	ops["popt"] = func(a []string) string {
		p := parseCfg14(a[0])
		return guard(func() string {
			o := p.Option()
			var q wsflate.Parameters
			err := q.Parse(o)
			e := "nil"
			if err != nil {
				e = errKind(err)
			}
			return fmt.Sprintf("%s %s %s", optStr(o), e, paramsStr(q))
		})
	}
	register("C14", genC14)
}

var (
	kSnct = hx([]byte("server_no_context_takeover"))
	kCnct = hx([]byte("client_no_context_takeover"))
	kSmwb = hx([]byte("server_max_window_bits"))
	kCmwb = hx([]byte("client_max_window_bits"))
	nPMD  = hx([]byte("permessage-deflate"))
)

func offerItem(snct, cnct bool, smwb, cmwb int) string {
	var ps []string
	if snct {
		ps = append(ps, kSnct+"=-")
	}
	if cnct {
		ps = append(ps, kCnct+"=-")
	}
	if smwb > 0 {
		ps = append(ps, kSmwb+"="+hx([]byte(strconv.Itoa(smwb))))
	}
	if cmwb == 1 {
		ps = append(ps, kCmwb+"=-")
	} else if cmwb > 0 {
		ps = append(ps, kCmwb+"="+hx([]byte(strconv.Itoa(cmwb))))
	}
	return nPMD + ":" + strings.Join(ps, ",")
}

func genC14(tier string, r *rng) {
	// the negotiator as the upgraders drive it: several offers in ONE header line, an offer the negotiator
	// objects to in every position - the objection is an error of the handshake wherever it stands
	{
		base := baseHeaders()
		good := []string{"permessage-deflate", "permessage-deflate; client_max_window_bits", "x-other; k=v"}
		bad := []string{"permessage-deflate; server_max_window_bits=7", "permessage-deflate; unknown=1", "permessage-deflate; client_max_window_bits=16",
			"permessage-deflate; server_no_context_takeover=1", "permessage-deflate; client_no_context_takeover; client_no_context_takeover"}
		for bi, b := range bad {
			for gi, g := range good {
				for _, line := range []string{b + ", " + g, g + ", " + b, g + ", " + b + ", " + g, "x-other, " + b + ", " + g} {
					req := buildReq("GET", "/", "HTTP/1.1", append(append([]hdr{}, base...), hdr{"Sec-WebSocket-Extensions", " " + line}), "\r\n")
					cfg := []string{"neg:0;0;0;0", "neg:1;1;12;10"}[(bi+gi)%2]
					run(fmt.Sprintf("up %s %s %d E", cfg, hx(req), []int{0, 7}[(bi+gi)%2]))
					run(fmt.Sprintf("hup %s %s", cfg, hx(req)))
				}
			}
		}
	}
	bitsS := []int{0, 8, 9, 10, 11, 12, 13, 14, 15}       // server_max_window_bits in an offer / cfg
	bitsC := []int{0, 1, 8, 9, 10, 11, 12, 13, 14, 15}    // client_max_window_bits in an offer
	var cfgs []string
	for s := 0; s < 2; s++ {
		for c := 0; c < 2; c++ {
			for _, sb := range bitsS {
				for _, cb := range bitsS {
					cfgs = append(cfgs, fmt.Sprintf("%d,%d,%d,%d", s, c, sb, cb))
				}
			}
		}
	}
	var offers []string
	for s := 0; s < 2; s++ {
		for c := 0; c < 2; c++ {
			for _, sb := range bitsS {
				for _, cb := range bitsC {
					offers = append(offers, offerItem(s == 1, c == 1, sb, cb))
				}
			}
		}
	}
	// full grid: 324 configurations x 360 single offers
	for ci, cfg := range cfgs {
		run("popt " + cfg)
		for oi, o := range offers {
			if tier == "quick" && (ci*7+oi)%5 != 0 {
				continue
			}
			run("neg " + cfg + " " + o)
		}
	}
	// lists of up to three offers (incl. other extensions, resets, repeated negotiation)
	alpha := []string{offers[0], offers[37], offers[111], offers[200], offers[301], offers[359],
		offerItem(true, false, 10, 0), offerItem(false, false, 0, 1), offerItem(false, true, 15, 8),
		hx([]byte("x-other")) + ":", hx([]byte("permessage-deflate")) + ":" + hx([]byte("unknown")) + "=-", "reset"}
	n := 600
	if tier == "thorough" {
		n = 20000
	}
	for i := 0; i < n; i++ {
		k := 1 + r.intn(4)
		var items []string
		for j := 0; j < k; j++ {
			items = append(items, alpha[r.intn(len(alpha))])
		}
		run("neg " + cfgs[r.intn(len(cfgs))] + " " + strings.Join(items, " "))
	}
	// the same Extension value serving upgrade after upgrade with its Parameters changed in between (Reset, then a
	// new configuration): the answer follows the configuration in force
	for i := 0; i < n/6; i++ {
		var items []string
		for u := 0; u < 2+r.intn(2); u++ {
			if u > 0 {
				items = append(items, "reset", "cfg="+cfgs[r.intn(len(cfgs))])
			}
			for j := 0; j < 1+r.intn(2); j++ {
				items = append(items, alpha[r.intn(len(alpha)-1)])
			}
		}
		run("neg " + cfgs[r.intn(len(cfgs))] + " " + strings.Join(items, " "))
	}
	// malformed parameter lists
	vals := []string{"-", hx([]byte("8")), hx([]byte("15")), hx([]byte("7")), hx([]byte("16")), hx([]byte("0")), hx([]byte("08")), hx([]byte("010")),
		hx([]byte(":")), hx([]byte("1:")), hx([]byte("0:")), hx([]byte("1x")), hx([]byte("18446744073709551626")), hx([]byte("4294967306")),
		hx([]byte("266")), hx([]byte("-1")), hx([]byte(" 9")), hx([]byte("9 ")), hx([]byte("1e1")), hx([]byte("٩"))}
	keys := []string{kSnct, kCnct, kSmwb, kCmwb, hx([]byte("Client_max_window_bits")), hx([]byte("x"))}
	for _, k := range keys {
		for _, v := range vals {
			run(fmt.Sprintf("neg 0,0,0,0 %s:%s=%s", nPMD, k, v))
			run(fmt.Sprintf("neg 1,1,15,15 %s:%s=%s", nPMD, k, v))
		}
	}
	// duplicates in every order
	for _, k1 := range keys[:4] {
		for _, v1 := range []string{"-", hx([]byte("10"))} {
			for _, v2 := range []string{"-", hx([]byte("10")), hx([]byte("12"))} {
				run(fmt.Sprintf("neg 0,0,0,0 %s:%s=%s,%s=%s", nPMD, k1, v1, k1, v2))
				run(fmt.Sprintf("neg 0,0,0,0 %s:%s=%s,%s=-,%s=%s", nPMD, k1, v1, kCnct, k1, v2))
			}
		}
	}
}
