package main

// C18: reset / pooled reuse behaves as new. Every op runs an instance through a history, resets it,
// runs the `after` operations, and runs the same `after` operations on a freshly constructed
// instance with the same configuration; it reports both observations and whether they are equal.
//   rst w <side> <opcode> <ctor> <ext> <fail> <seed> <hist,> <S|C> <op2> <after,>      wsutil.Writer.Reset
//   rst ro <side> <opcode> <ctor> <ext> <fail> <seed> <hist,> <op2> <after,>           wsutil.Writer.ResetOp
//   rst pool <side> <opcode> <n> <fail> <seed> <hist,> <after,>                        PutWriter / GetWriter
//   rst pool2 <side> <opcode> <ctor> <fail> <seed> <hist,> <S|C> <n> <after,>          any writer through PutWriter, then GetWriter(n)
//   rst u8 <histhex> <k> <afterhex> <k2>                                               UTF8Reader.Reset
//   rst cr <mask1> <histhex> <mask2> <afterhex> <k>                                    CipherReader.Reset
//   rst cwr <mask1> <histhex> <mask2> <afterhex>                                       CipherWriter.Reset
//   rst fw <ftail> <fail> <histscript> <afterscript>                                   wsflate.Writer.Reset (scripted compressor)
//   rst fwreal <level> <histhex> <flush 0|1> <afterhex>                                wsflate.Writer.Reset (compress/flate, WriteResetter)
//   rst fr <histcomp> <readn> <aftercomp>                                              wsflate.Reader.Reset (compress/flate)

import (
	"bytes"
	"compress/flate"
	"fmt"
	"io"
	"math/rand"
	"runtime/debug"
	"strconv"
	"strings"

	"github.com/gobwas/ws"
	"github.com/gobwas/ws/wsflate"
	"github.com/gobwas/ws/wsutil"
)

func runWr(w *wsutil.Writer, d *recDst, ms *wsflate.MessageState, toks []string) []string {
	var items []string
	for _, o := range toks {
		if o == "" || o == "-" {
			continue
		}
		before := len(d.writes)
		f := strings.Split(o, ":")
		res := guard(func() string {
			switch f[0] {
			case "w":
				n, err := w.Write(unhx(f[1]))
				return fmt.Sprintf("%d,%s", n, classify(err))
			case "wt":
				n, err := w.WriteThrough(unhx(f[1]))
				return fmt.Sprintf("%d,%s", n, classify(err))
			case "ff":
				return classify(w.FlushFragment())
			case "fl":
				return classify(w.Flush())
			case "g":
				n, _ := strconv.Atoi(f[1])
				w.Grow(n)
				return fmt.Sprintf("%d", w.Size())
			case "nf":
				w.DisableFlush()
				return "ok"
			case "se":
				setExt(w, f[1], ms)
				return "ok"
			case "av":
				return fmt.Sprintf("%d,%d,%d", w.Size(), w.Available(), w.Buffered())
			}
			return "BADOP"
		})
		var ws_ []string
		for _, wr := range d.writes[before:] {
			ws_ = append(ws_, hx(wr))
		}
		if strings.HasPrefix(res, "PANIC") {
			items = append(items, "PANIC@")
			break
		}
		items = append(items, res+"@"+strings.Join(ws_, ","))
	}
	return items
}

func joinItems(xs []string) string {
	if len(xs) == 0 {
		return "-"
	}
	return strings.Join(xs, ";")
}

func readAllU8(u *wsutil.UTF8Reader, k int) string {
	var items []string
	p := make([]byte, k)
	for i := 0; i < 10000; i++ {
		n, err := u.Read(p)
		items = append(items, fmt.Sprintf("%d,%s,%d,%d", n, classify(err), u.Accepted(), b2i(u.Valid())))
		if err != nil {
			break
		}
	}
	return strings.Join(items, ";")
}

func init() {
	ops["rst"] = func(a []string) string {
		switch a[0] {
		case "w", "ro", "pool", "pool2":
			st := side(a[1])
			opn, _ := strconv.Atoi(a[2])
			var ctor, ext, fail, hist, after string
			var seed int64
			var st2 ws.State
			var op2 int
			switch a[0] {
			case "w":
				ctor, ext, fail = a[3], a[4], a[5]
				seed, _ = strconv.ParseInt(a[6], 10, 64)
				hist, after = a[7], a[10]
				st2 = side(a[8])
				op2, _ = strconv.Atoi(a[9])
			case "ro":
				ctor, ext, fail = a[3], a[4], a[5]
				seed, _ = strconv.ParseInt(a[6], 10, 64)
				hist, after = a[7], a[9]
				st2 = st
				op2, _ = strconv.Atoi(a[8])
			case "pool":
				ctor, ext, fail = "get:"+a[3], "-", a[4]
				seed, _ = strconv.ParseInt(a[5], 10, 64)
				hist, after = a[6], a[7]
				st2, op2 = st, opn
			case "pool2":
				ctor, ext, fail = a[3], "-", a[4]
				seed, _ = strconv.ParseInt(a[5], 10, 64)
				hist, after = a[6], a[9]
				st2, op2 = side(a[7]), opn
			}
			d := &recDst{failAt: -1}
			if fail != "-" {
				d.failAt, _ = strconv.Atoi(fail)
			}
			hmasks := seedMasks(seed, 24)
			var ms wsflate.MessageState
			w := mkWriter(d, st, ws.OpCode(opn), ctor)
			setExt(w, ext, &ms)
			runWr(w, d, &ms, strings.Split(hist, ","))
			d2 := &recDst{failAt: -1}
			var ms2 wsflate.MessageState
			switch a[0] {
			case "w":
				w.Reset(d2, st2, ws.OpCode(op2))
				ms = wsflate.MessageState{}
			case "ro":
				// ResetOp keeps the destination: the history's destination goes on (healthy from now on)
				d.failAt = -1
				d2 = d
				w.ResetOp(ws.OpCode(op2))
			case "pool":
				wsutil.PutWriter(w)
				n, _ := strconv.Atoi(a[3])
				w = wsutil.GetWriter(d2, st2, ws.OpCode(op2), n)
			case "pool2":
				// sync.Pool keeps what one goroutine puts and takes right back as long as no GC cycle intervenes
				gc := debug.SetGCPercent(-1)
				wsutil.PutWriter(w)
				n, _ := strconv.Atoi(a[8])
				w = wsutil.GetWriter(d2, st2, ws.OpCode(op2), n)
				// leave nothing of this case in the pool for the following ones
				for _, cls := range []int{128, 256, 512, 1024, 2048, 4096, 8192, 16384, 32768, 65536} {
					for i := 0; i < 3; i++ {
						wsutil.GetWriter(&recDst{failAt: -1}, 0, 1, cls)
					}
				}
				debug.SetGCPercent(gc)
				ms = wsflate.MessageState{}
			}
			size := w.Size()
			amasks := seedMasks(seed+1, 24)
			ia := runWr(w, d2, &ms, strings.Split(after, ","))
			// fresh instance with the same configuration
			d3 := &recDst{failAt: -1}
			fresh := wsutil.NewWriterSize(d3, st2, ws.OpCode(op2), size)
			if a[0] == "ro" {
				// ResetOp keeps extensions and the flush mode: the fresh one gets what the history left
				for _, o := range strings.Split(hist, ",") {
					if strings.HasPrefix(o, "se:") {
						ext = o[3:]
					}
					if o == "nf" {
						fresh.DisableFlush()
					}
				}
				setExt(fresh, ext, &ms2)
			}
			seedMasks(seed+1, 24)
			fsize := fresh.Size()
			ib := runWr(fresh, d3, &ms2, strings.Split(after, ","))
			sa, sb := joinItems(ia), joinItems(ib)
			return fmt.Sprintf("same=%d size=%d fsize=%d a=%s b=%s hmasks=%s masks=%s", b2i(sa == sb), size, fsize, sa, sb, hmasks, amasks)
		case "u8":
			k, _ := strconv.Atoi(a[2])
			k2, _ := strconv.Atoi(a[4])
			hs, _ := mkReader(unhx(a[1]), k, "E")
			u := wsutil.NewUTF8Reader(hs)
			readAllU8(u, 16)
			as, _ := mkReader(unhx(a[3]), k2, "E")
			u.Reset(as)
			sa := fmt.Sprintf("%d,%d|", u.Accepted(), b2i(u.Valid())) + readAllU8(u, 7)
			bs, _ := mkReader(unhx(a[3]), k2, "E")
			f := wsutil.NewUTF8Reader(bs)
			sb := fmt.Sprintf("%d,%d|", f.Accepted(), b2i(f.Valid())) + readAllU8(f, 7)
			return fmt.Sprintf("same=%d a=%s b=%s", b2i(sa == sb), sa, sb)
		case "cr":
			var m1, m2 [4]byte
			copy(m1[:], unhx(a[1]))
			copy(m2[:], unhx(a[3]))
			k, _ := strconv.Atoi(a[5])
			hs, _ := mkReader(unhx(a[2]), k, "E")
			c := wsutil.NewCipherReader(hs, m1)
			io.ReadAll(c)
			as, _ := mkReader(unhx(a[4]), k, "E")
			c.Reset(as, m2)
			ga, _ := io.ReadAll(c)
			bs, _ := mkReader(unhx(a[4]), k, "E")
			gb, _ := io.ReadAll(wsutil.NewCipherReader(bs, m2))
			return fmt.Sprintf("same=%d a=%s b=%s", b2i(bytes.Equal(ga, gb)), hx(ga), hx(gb))
		case "cwr":
			var m1, m2 [4]byte
			copy(m1[:], unhx(a[1]))
			copy(m2[:], unhx(a[3]))
			var d1, d2, d3 bytes.Buffer
			c := wsutil.NewCipherWriter(&d1, m1)
			c.Write(unhx(a[2]))
			c.Reset(&d2, m2)
			c.Write(unhx(a[4]))
			wsutil.NewCipherWriter(&d3, m2).Write(unhx(a[4]))
			return fmt.Sprintf("same=%d a=%s b=%s", b2i(bytes.Equal(d2.Bytes(), d3.Bytes())), hx(d2.Bytes()), hx(d3.Bytes()))
		case "fw":
			ftail := unhx(a[1])
			failAt, _ := strconv.Atoi(a[2])
			runScript := func(w *wsflate.Writer, cur **scriptComp, script string) []string {
				var res []string
				for _, it := range strings.Split(script, ";") {
					if it == "" || it == "-" {
						continue
					}
					switch it[0] {
					case 'w':
						f := strings.Split(it[1:], "/")
						(*cur).split = nil
						if len(f) > 1 && f[1] != "" {
							for _, s := range strings.Split(f[1], "+") {
								n, _ := strconv.Atoi(s)
								(*cur).split = append((*cur).split, n)
							}
						}
						_, err := w.Write(unhx(f[0]))
						res = append(res, flErr(err))
					case 'f':
						res = append(res, flErr(w.Flush()))
					case 'c':
						res = append(res, flErr(w.Close()))
					}
				}
				return res
			}
			mk := func(d *recDst) (*wsflate.Writer, **scriptComp) {
				var cur *scriptComp
				w := wsflate.NewWriter(d, func(w io.Writer) wsflate.Compressor {
					cur = &scriptComp{w: w, ftail: ftail}
					return cur
				})
				return w, &cur
			}
			d := &recDst{failAt: failAt}
			w, cur := mk(d)
			runScript(w, cur, a[3])
			d2 := &recDst{failAt: -1}
			w.Reset(d2)
			ra := runScript(w, cur, a[4])
			d3 := &recDst{failAt: -1}
			w3, cur3 := mk(d3)
			rb := runScript(w3, cur3, a[4])
			flat := func(d *recDst) string {
				var out []byte
				for _, x := range d.writes {
					out = append(out, x...)
				}
				return hx(out)
			}
			sa := strings.Join(ra, ",") + "/" + flat(d2)
			sb := strings.Join(rb, ",") + "/" + flat(d3)
			return fmt.Sprintf("same=%d a=%s b=%s", b2i(sa == sb), sa, sb)
		case "fwreal":
			level, _ := strconv.Atoi(a[1])
			ctor := func(w io.Writer) wsflate.Compressor {
				f, _ := flate.NewWriter(w, level)
				return f
			}
			var d1, d2, d3 bytes.Buffer
			w := wsflate.NewWriter(&d1, ctor)
			w.Write(unhx(a[2]))
			if a[3] == "1" {
				w.Flush()
			}
			w.Reset(&d2)
			_, e1 := w.Write(unhx(a[4]))
			e2 := w.Flush()
			w3 := wsflate.NewWriter(&d3, ctor)
			_, e3 := w3.Write(unhx(a[4]))
			e4 := w3.Flush()
			sa := fmt.Sprintf("%s,%s/%s", flErr(e1), flErr(e2), hx(d2.Bytes()))
			sb := fmt.Sprintf("%s,%s/%s", flErr(e3), flErr(e4), hx(d3.Bytes()))
			return fmt.Sprintf("same=%d a=%s b=%s", b2i(sa == sb), sa, sb)
		case "fr":
			n, _ := strconv.Atoi(a[2])
			// source kinds: b = implements io.ByteReader, p = plain io.Reader
			mk := func(kind byte, p []byte) io.Reader {
				if kind == 'b' {
					return bytes.NewReader(p)
				}
				return struct{ io.Reader }{bytes.NewReader(p)}
			}
			kinds := "bb"
			if len(a) > 4 {
				kinds = a[4]
			}
			// flags: R = the decompressor offers Reset(io.Reader) (wsflate.ReadResetter), C = the history ends with Close()
			flags := ""
			if len(a) > 5 {
				flags = a[5]
			}
			dec := flateDec
			if strings.Contains(flags, "R") {
				dec = func(r io.Reader) wsflate.Decompressor { return &resetDec{flate.NewReader(r)} }
			}
			if strings.Contains(flags, "D") {
				// a constructor that configures more than the source: a preset dictionary
				dec = func(r io.Reader) wsflate.Decompressor { return flate.NewReaderDict(r, c18Dict) }
			}
			r := wsflate.NewReader(mk(kinds[0], unhx(a[1])), dec)
			io.ReadFull(r, make([]byte, n))
			if strings.Contains(flags, "C") {
				r.Close()
			}
			r.Reset(mk(kinds[1], unhx(a[3])))
			ga, ea := io.ReadAll(r)
			if ea == nil {
				ea = r.Err()
			}
			gb, eb := io.ReadAll(wsflate.NewReader(mk(kinds[1], unhx(a[3])), dec))
			sa := fmt.Sprintf("%s/%s", hx(ga), b2s(ea != nil))
			sb := fmt.Sprintf("%s/%s", hx(gb), b2s(eb != nil))
			return fmt.Sprintf("same=%d a=%s b=%s", b2i(sa == sb), sa, sb)
		}
		return "BADOP"
	}
	register("C18", genC18)
}

var c18Dict = []byte("the quick brown fox jumps over the lazy dog; abcabcabc; websocket permessage-deflate")

// compDict: a complete deflate stream of p written with the preset dictionary.
func compDict(p []byte) []byte {
	var b bytes.Buffer
	w, _ := flate.NewWriterDict(&b, 9, c18Dict)
	w.Write(p)
	w.Close()
	return b.Bytes()
}

// resetDec: compress/flate's reader behind wsflate.ReadResetter (Reset(io.Reader)).
type resetDec struct{ rc io.ReadCloser }

func (d *resetDec) Read(p []byte) (int, error) { return d.rc.Read(p) }
func (d *resetDec) Close() error               { return d.rc.Close() }
func (d *resetDec) Reset(r io.Reader)          { d.rc.(flate.Resetter).Reset(r, nil) }

func genC18(tier string, r *rng) {
	_ = rand.Int
	// the extension negotiator reused with Reset, its exported Parameters changed by the owner in between: it
	// answers like a new Extension with the parameters it has NOW
	for _, c1 := range []string{"0,0,0,0", "1,1,0,0", "0,0,12,10"} {
		for _, c2 := range []string{"1,1,0,0", "0,0,0,0", "1,0,10,0", "0,1,0,12"} {
			if c1 == c2 {
				continue
			}
			for _, offer := range []string{offerItem(false, false, 0, 0), offerItem(true, false, 12, 1), offerItem(false, true, 0, 10)} {
				run(fmt.Sprintf("neg %s %s reset cfg=%s %s", c1, offer, c2, offer))
				run(fmt.Sprintf("neg %s %s %s reset cfg=%s %s reset %s", c1, offer, offer, c2, offer, offer))
			}
		}
	}
	// wsutil.Writer: histories x after-sequences
	hists := []string{"-", "w:" + hx(r.bytes(5)), "w:" + hx(r.bytes(40)), "w:" + hx(r.bytes(5)) + ",ff", "w:" + hx(r.bytes(5)) + ",fl", "g:100,w:" + hx(r.bytes(60)),
		"se:c1,w:" + hx(r.bytes(3)), "nf,w:" + hx(r.bytes(3)), "se:c1,nf", "w:" + hx(r.bytes(30)) + ",w:" + hx(r.bytes(30)) + ",w:" + hx(r.bytes(30)), "wt:" + hx(r.bytes(9))}
	afters := []string{"av", "w:" + hx(r.bytes(4)) + ",fl,av", "w:" + hx(r.bytes(50)) + ",fl", "w:" + hx(r.bytes(3)) + ",ff,w:" + hx(r.bytes(3)) + ",fl", "fl", "wt:" + hx(r.bytes(7)) + ",av"}
	for _, sd := range []string{"S", "C"} {
		for _, ctor := range []string{"buf:24", "bufsize:64", "size:125"} {
			for hi, h := range hists {
				for _, fail := range []string{"-", "0", "1"} {
					if fail != "-" && !strings.Contains(h, "w") {
						continue
					}
					for ai, af := range afters {
						if tier == "quick" && (hi+ai)%2 == 1 && fail == "-" {
							continue
						}
						sd2 := []string{"S", "C"}[(hi+ai)%2]
						run(fmt.Sprintf("rst w %s 1 %s - %s %d %s %s 2 %s", sd, ctor, fail, 100+hi*7+ai, h, sd2, af))
						if ai%2 == 0 {
							run(fmt.Sprintf("rst ro %s 1 %s - %s %d %s 2 %s", sd, ctor, fail, 100+hi*7+ai, h, af))
						}
					}
				}
			}
		}
		for _, n := range []int{16, 100, 128, 1000, 4096} {
			for hi, h := range hists[:8] {
				run(fmt.Sprintf("rst pool %s 1 %d - %d %s %s", sd, n, 300+hi, h, afters[hi%len(afters)]))
				if strings.Contains(h, "w") {
					run(fmt.Sprintf("rst pool %s 1 %d 0 %d %s %s", sd, n, 300+hi, h, afters[(hi+1)%len(afters)]))
				}
			}
		}
	}
	// any writer handed to the pool and whatever GetWriter hands out next for that or another class
	for _, sd := range []string{"S", "C"} {
		for ci, ctor := range []string{"size:128", "size:256", "size:4096", "size:100", "buf:260", "get:128", "size:8192", "bufsize:128"} {
			for hi, h := range []string{"-", "w:" + hx(r.bytes(5)), "nf,w:" + hx(r.bytes(3)), "se:c1,w:" + hx(r.bytes(3)), "nf,w:" + hx(r.bytes(300)), "w:" + hx(r.bytes(9)) + ",ff"} {
				for _, n := range []int{128, 200, 256, 4096, 8192, 16384} {
					if tier == "quick" && (ci+hi+n/128)%3 != 0 {
						continue
					}
					sd2 := []string{"S", "C"}[(ci+hi)%2]
					af := []string{"av", "w:" + hx(r.bytes(300)) + ",w:" + hx(r.bytes(9000)) + ",fl,av", "w:" + hx(r.bytes(4)) + ",fl"}[(hi+n)%3]
					run(fmt.Sprintf("rst pool2 %s 1 %s - %d %s %s %d %s", sd, ctor, 500+hi, h, sd2, n, af))
				}
			}
		}
	}
	// UTF8Reader
	u8h := [][]byte{{}, []byte("abc"), {0xe2, 0x82}, {0xe2, 0x82, 0xac}, {0xff}, []byte("ab\xffcd"), {0xf0, 0x9f, 0x98}, []byte("héllo wörld")}
	u8a := [][]byte{{}, []byte("xyz"), {0xe2, 0x82, 0xac}, {0x82, 0xac}, {0xac}, {0xc3}, []byte("ok\xc3\xa9")}
	for _, h := range u8h {
		for _, af := range u8a {
			run(fmt.Sprintf("rst u8 %s %d %s %d", hx(h), 1+r.intn(3), hx(af), 1+r.intn(3)))
		}
	}
	// cipher reader / writer
	for i := 0; i < 12; i++ {
		m1, m2 := r.bytes(4), r.bytes(4)
		h, af := r.bytes(r.intn(9)), r.bytes(r.intn(20))
		run(fmt.Sprintf("rst cr %s %s %s %s %d", hx(m1), hx(h), hx(m2), hx(af), 1+r.intn(5)))
		run(fmt.Sprintf("rst cwr %s %s %s %s", hx(m1), hx(h), hx(m2), hx(af)))
	}
	// special keys on either side of the Reset: the all-zero key (what the library's own client side may draw, and
	// what a mask reader built for an unmasked source holds), the same key again, four equal bytes; with and
	// without earlier traffic, at every residue of the earlier byte count
	skeys := []string{"00000000", "01020304", "5a5a5a5a", "ff807f0a"}
	for _, k1 := range skeys {
		for _, k2 := range skeys {
			for _, hl := range []int{0, 1, 2, 3, 4} {
				if tier == "quick" && hl > 1 && (k1 != k2 && k1 != "00000000") {
					continue
				}
				af := r.bytes(9 + hl)
				run(fmt.Sprintf("rst cr %s %s %s %s %d", k1, hx(r.bytes(hl)), k2, hx(af), 1+hl%3))
				run(fmt.Sprintf("rst cwr %s %s %s %s", k1, hx(r.bytes(hl)), k2, hx(af)))
			}
		}
	}
	// wsflate.Writer with a scripted compressor: clean / unflushed / bad tail / destination error histories
	tail := "0000ffff"
	fh := []string{"-", "w010203/;f", "w0102030405/2", "w01/;f;w02/", "w01/;c", "f"}
	fa := []string{"w0a0b0c/;f", "f", "w0102030405060708/3;f;w09/;f", "w01/"}
	for _, ft := range []string{tail, "ffff", "0000fffe"} {
		for _, h := range fh {
			for _, af := range fa {
				run(fmt.Sprintf("rst fw %s -1 %s %s", ft, h, af))
			}
		}
	}
	for _, h := range fh[1:] {
		for failAt := 0; failAt < 2; failAt++ {
			run(fmt.Sprintf("rst fw %s %d %s %s", tail, failAt, h, fa[0]))
		}
	}
	// real flate through the WriteResetter / ReadResetter paths
	msgs := [][]byte{{}, []byte("a"), bytes.Repeat([]byte("abc"), 100), r.bytes(200)}
	for _, lv := range []int{1, 9} {
		for _, h := range msgs {
			for _, af := range msgs {
				run(fmt.Sprintf("rst fwreal %d %s %d %s", lv, hx(h), r.intn(2), hx(af)))
			}
		}
	}
	comp := func(p []byte) []byte { return encFixed(p, true) }
	for _, h := range msgs {
		for _, af := range msgs {
			run(fmt.Sprintf("rst fr %s %d %s %s", hx(comp(h)), r.intn(len(h)+1), hx(comp(af)), []string{"bb", "bp", "pb", "pp"}[r.intn(4)]))
			run(fmt.Sprintf("rst fr %s %d %s bp", hx(comp(h)), len(h), hx(comp(af))))
			run(fmt.Sprintf("rst fr %s %d %s pb", hx(comp(h)), len(h), hx(comp(af))))
		}
		// messages that refer to a preset dictionary the constructor sets up
		for _, af := range [][]byte{[]byte("the lazy dog jumps over the quick brown fox"), []byte("abcabcabc websocket"), {}, r.bytes(40)} {
			run(fmt.Sprintf("rst fr %s %d %s bb D", hx(compDict(h)), len(h), hx(compDict(af))))
			run(fmt.Sprintf("rst fr %s %d %s pb DC", hx(compDict(h)), len(h)/2, hx(compDict(af))))
		}
		run(fmt.Sprintf("rst fr %s 1 %s", hx([]byte{0xff, 0xff, 0xff}), hx(comp(h)))) // corrupt history
		// corrupt or cut histories ended by Close(), decompressors with and without Reset(io.Reader)
		for _, fl := range []string{"C", "R", "RC"} {
			run(fmt.Sprintf("rst fr %s 4 %s bb %s", hx([]byte{0xff, 0xff, 0xff}), hx(comp(h)), fl))
			run(fmt.Sprintf("rst fr %s %d %s pb %s", hx(comp(h)[:len(comp(h))/2]), len(h), hx(comp(h)), fl))
			run(fmt.Sprintf("rst fr %s %d %s bp %s", hx(comp(h)), len(h)/2, hx(comp(h)), fl))
		}
	}
}
