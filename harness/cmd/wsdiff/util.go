package main

import (
	"bufio"
	"encoding/hex"
	"errors"
	"fmt"
	"io"
	"os"
	"strings"

	"github.com/gobwas/ws"
	"github.com/gobwas/ws/wsflate"
	"github.com/gobwas/ws/wsutil"
)

// ---- output ----

var out = bufio.NewWriterSize(os.Stdout, 1<<20)

// emit writes one case line: "<op line> => <observed>".
func emit(op string, observed string) {
	// one case = one line: control bytes that slipped into an observed string (error texts quoting the
	// input) must not break the line protocol
	if strings.ContainsAny(observed, "\n\r\v\f\x00") {
		observed = strings.Map(func(c rune) rune {
			if c < 0x20 || c == 0x7f || c == 0x85 || c == 0xa0 {
				return '?'
			}
			return c
		}, observed)
	}
	out.WriteString(op)
	out.WriteString(" => ")
	out.WriteString(observed)
	out.WriteByte('\n')
}

func hx(p []byte) string {
	if len(p) == 0 {
		return "-"
	}
	return hex.EncodeToString(p)
}

func unhx(s string) []byte {
	if s == "-" {
		return nil
	}
	b, err := hex.DecodeString(s)
	if err != nil {
		panic(err)
	}
	return b
}

func b2i(b bool) int {
	if b {
		return 1
	}
	return 0
}

// ---- PRNG (splitmix64), every random choice derives from VERIF_SEED ----

type rng struct{ s uint64 }

func (r *rng) next() uint64 {
	r.s += 0x9e3779b97f4a7c15
	z := r.s
	z = (z ^ (z >> 30)) * 0xbf58476d1ce4e5b9
	z = (z ^ (z >> 27)) * 0x94d049bb133111eb
	return z ^ (z >> 31)
}
func (r *rng) intn(n int) int {
	if n <= 0 {
		return 0
	}
	return int(r.next() % uint64(n))
}
func (r *rng) bytes(n int) []byte {
	p := make([]byte, n)
	for i := range p {
		p[i] = byte(r.next())
	}
	return p
}
func (r *rng) pick(xs []int) int { return xs[r.intn(len(xs))] }
func (r *rng) bool() bool        { return r.next()&1 == 1 }

// ---- transports ----

var errBoom = errors.New("boom")       // failing source transport
var errDst = errors.New("dstboom")     // failing destination

// chunkReader serves data in fixed chunks of k bytes (k == 0: one chunk); a Read returns at most the
// rest of the current chunk, then fin.
type chunkReader struct {
	data []byte
	k    int
	fin  error
	pos  int
}

func (c *chunkReader) Read(p []byte) (int, error) {
	if c.pos >= len(c.data) {
		return 0, c.fin
	}
	if len(p) == 0 {
		return 0, nil
	}
	n := len(c.data) - c.pos
	if c.k > 0 && n > c.k-c.pos%c.k {
		n = c.k - c.pos%c.k // fixed chunk boundaries at multiples of k, like the model's Src
	}
	if n > len(p) {
		n = len(p)
	}
	copy(p, c.data[c.pos:c.pos+n])
	c.pos += n
	return n, nil
}

func finErr(s string) error {
	if s == "F" {
		return errBoom
	}
	return io.EOF
}

// ---- error classes ----

func classify(err error) string {
	switch {
	case err == nil:
		return "nil"
	case err == io.EOF:
		return "eof"
	case err == io.ErrUnexpectedEOF:
		return "ueof"
	case err == errBoom:
		return "fail"
	case err == errDst:
		return "dfail"
	case err == ws.ErrHeaderLengthMSB:
		return "msb"
	case err == ws.ErrHeaderLengthUnexpected:
		return "unexpected"
	case err == wsutil.ErrFrameTooLarge:
		return "toolarge"
	case err == wsutil.ErrInvalidUTF8:
		return "utf8"
	case err == wsutil.ErrNoFrameAdvance:
		return "noadvance"
	case err == wsutil.ErrNotEmpty:
		return "notempty"
	case err == wsutil.ErrControlOverflow:
		return "ctloverflow"
	case err == wsutil.ErrNotControlFrame:
		return "notcontrol"
	case err == io.ErrNoProgress:
		return "noprogress"
	case err == io.ErrShortWrite:
		return "shortwrite"
	}
	var pe ws.ProtocolError
	if errors.As(err, &pe) {
		if n, ok := protoNames[pe]; ok {
			return "proto:" + n
		}
		return "proto:" + strings.ReplaceAll(string(pe), " ", "_")
	}
	var ce wsutil.ClosedError
	if errors.As(err, &ce) {
		// what was reported must stay the peer's code and reason whatever the pooled buffers are used for next
		poolChurn()
		return fmt.Sprintf("closed:%d:%s", ce.Code, hx([]byte(ce.Reason)))
	}
	return "other:" + strings.ReplaceAll(err.Error(), " ", "_")
}

var protoNames = map[ws.ProtocolError]string{
	ws.ErrProtocolOpCodeReserved:             "ErrProtocolOpCodeReserved",
	ws.ErrProtocolControlPayloadOverflow:     "ErrProtocolControlPayloadOverflow",
	ws.ErrProtocolControlNotFinal:            "ErrProtocolControlNotFinal",
	ws.ErrProtocolNonZeroRsv:                 "ErrProtocolNonZeroRsv",
	ws.ErrProtocolMaskRequired:               "ErrProtocolMaskRequired",
	ws.ErrProtocolMaskUnexpected:             "ErrProtocolMaskUnexpected",
	ws.ErrProtocolContinuationExpected:       "ErrProtocolContinuationExpected",
	ws.ErrProtocolContinuationUnexpected:     "ErrProtocolContinuationUnexpected",
	ws.ErrProtocolStatusCodeNotInUse:         "ErrProtocolStatusCodeNotInUse",
	ws.ErrProtocolStatusCodeApplicationLevel: "ErrProtocolStatusCodeApplicationLevel",
	ws.ErrProtocolStatusCodeNoMeaning:        "ErrProtocolStatusCodeNoMeaning",
	ws.ErrProtocolStatusCodeUnknown:          "ErrProtocolStatusCodeUnknown",
	ws.ErrProtocolInvalidUTF8:                "ErrProtocolInvalidUTF8",
	wsflate.ErrUnexpectedCompressionBit:      "ErrUnexpectedCompressionBit",
}

// guard runs f and converts a panic into a string.
func guard(f func() string) (res string) {
	defer func() {
		if r := recover(); r != nil {
			res = "PANIC:" + strings.ReplaceAll(fmt.Sprint(r), " ", "_")
		}
	}()
	return f()
}

func hdrStr(h ws.Header) string {
	return fmt.Sprintf("%d,%d,%d,%d,%s,%d", b2i(h.Fin), h.Rsv, h.OpCode, b2i(h.Masked), hx(h.Mask[:]), h.Length)
}
