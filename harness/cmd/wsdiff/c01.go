package main

// C01: header codec. ws.WriteHeader, ws.HeaderSize, ws.ReadHeader, Reader.NextFrame
// (SkipHeaderCheck), ws.WriteFrame, ws.CompileFrame, ws.ReadFrame.

import (
	"bytes"
	"fmt"
	"strconv"
	"strings"

	"github.com/gobwas/ws"
	"github.com/gobwas/ws/wsutil"
)

func parseHdr(a []string) ws.Header {
	var h ws.Header
	h.Fin = a[0] == "1"
	r, _ := strconv.Atoi(a[1])
	h.Rsv = byte(r)
	o, _ := strconv.Atoi(a[2])
	h.OpCode = ws.OpCode(o)
	h.Masked = a[3] == "1"
	copy(h.Mask[:], unhx(a[4]))
	l, _ := strconv.ParseInt(a[5], 10, 64)
	h.Length = l
	return h
}

func hdrArgs(h ws.Header) string {
	return fmt.Sprintf("%d %d %d %d %s %d", b2i(h.Fin), h.Rsv, h.OpCode, b2i(h.Masked), hx(h.Mask[:]), h.Length)
}

func init() {
	ops["wh"] = func(a []string) string {
		h := parseHdr(a)
		var buf bytes.Buffer
		err := ws.WriteHeader(&buf, h)
		if err != nil {
			return "ERR:" + classify(err) + " " + strconv.Itoa(ws.HeaderSize(h))
		}
		return hx(buf.Bytes()) + " " + strconv.Itoa(ws.HeaderSize(h))
	}
	ops["rh"] = func(a []string) string {
		data := unhx(a[0])
		k, _ := strconv.Atoi(a[1])
		fin := finErr(a[2])
		one := func(f func(r *chunkReader) (ws.Header, error)) string {
			cr := &chunkReader{data: data, k: k, fin: fin}
			return guard(func() string {
				h, err := f(cr)
				if err != nil {
					return fmt.Sprintf("err,%s,%d", classify(err), cr.pos)
				}
				return fmt.Sprintf("ok,%s,%d", hdrStr(h), cr.pos)
			})
		}
		w := one(func(r *chunkReader) (ws.Header, error) { return ws.ReadHeader(r) })
		u := one(func(r *chunkReader) (ws.Header, error) {
			rd := wsutil.Reader{Source: r, SkipHeaderCheck: true}
			return rd.NextFrame()
		})
		return "W:" + w + " U:" + u
	}
	// rhs <stream> <k> <fin> <n>: up to n headers decoded one after the other from one stream,
	// by ws.ReadHeader and by ONE wsutil.Reader (SkipHeaderCheck): the decoder keeps no state
	// from one header to the next.
	ops["rhs"] = func(a []string) string {
		data := unhx(a[0])
		k, _ := strconv.Atoi(a[1])
		fin := finErr(a[2])
		n, _ := strconv.Atoi(a[3])
		seq := func(f func(r *chunkReader) func() (ws.Header, error)) string {
			cr := &chunkReader{data: data, k: k, fin: fin}
			return guard(func() string {
				next := f(cr)
				var items []string
				for i := 0; i < n; i++ {
					h, err := next()
					if err != nil {
						items = append(items, fmt.Sprintf("err,%s,%d", classify(err), cr.pos))
						break
					}
					items = append(items, fmt.Sprintf("ok,%s,%d", hdrStr(h), cr.pos))
				}
				return strings.Join(items, "|")
			})
		}
		w := seq(func(r *chunkReader) func() (ws.Header, error) {
			return func() (ws.Header, error) { return ws.ReadHeader(r) }
		})
		u := seq(func(r *chunkReader) func() (ws.Header, error) {
			rd := &wsutil.Reader{Source: r, SkipHeaderCheck: true}
			return rd.NextFrame
		})
		return "W:" + w + " U:" + u
	}
	ops["wf"] = func(a []string) string {
		h := parseHdr([]string{a[0], a[1], a[2], a[3], a[4], "0"})
		p := unhx(a[5])
		h.Length = int64(len(p))
		f := ws.Frame{Header: h, Payload: p}
		var buf bytes.Buffer
		err := ws.WriteFrame(&buf, f)
		c, err2 := ws.CompileFrame(f)
		if err != nil || err2 != nil {
			return "ERR:" + classify(err) + ":" + classify(err2)
		}
		return hx(buf.Bytes()) + " " + hx(c)
	}
	ops["rf"] = func(a []string) string {
		data := unhx(a[0])
		k, _ := strconv.Atoi(a[1])
		cr := &chunkReader{data: data, k: k, fin: finErr(a[2])}
		f, err := ws.ReadFrame(cr)
		if err != nil {
			return "err," + classify(err)
		}
		return fmt.Sprintf("ok,%s,%s,%d", hdrStr(f.Header), hx(f.Payload), cr.pos)
	}
	register("C01", genC01)
}

var c01Lens = []int64{0, 1, 124, 125, 126, 127, 255, 256, 65534, 65535, 65536, 65537,
	1<<31 - 1, 1 << 31, 1 << 32, 1<<63 - 1}

func genC01(tier string, r *rng) {
	keys := [][4]byte{{0, 0, 0, 0}, {1, 2, 3, 4}, {0xff, 0x80, 0x7f, 0x0a}}
	// whole-frame reads through the streaming reader: header + exactly Length payload bytes, the frame being the
	// LAST thing on a transport that hands over its final bytes together with io.EOF (and, for comparison, one
	// that reports io.EOF on the next call) - every length form, masked and not, several chunkings
	for _, n := range []int{0, 1, 5, 125, 126, 300, 65535, 65536} {
		if tier == "quick" && n > 300 && n != 65536 {
			continue
		}
		for _, masked := range []bool{false, true} {
			st := 2
			if masked {
				st = 1
			}
			one := frameBytes(true, 0, ws.OpBinary, masked, r.bytes(n))
			two := append(frameBytes(true, 0, ws.OpBinary, masked, r.bytes(3)), one...)
			for _, fin := range []string{"Ed", "E"} {
				for _, k := range []int{0, 1, 7, 4096} {
					run(fmt.Sprintf("rdr %d - %s %d %s nf ra st", st, hx(one), k, fin))
					run(fmt.Sprintf("rdr %d - %s %d %s nf ra st nf ra st", st, hx(two), k, fin))
				}
			}
		}
	}
	var lattice []ws.Header
	// Bounded-exhaustive lattice: Fin x Rsv x OpCode x Masked x length class x key.
	for fin := 0; fin < 2; fin++ {
		for rsv := 0; rsv < 8; rsv++ {
			for op := 0; op < 16; op++ {
				for _, l := range c01Lens {
					h := ws.Header{Fin: fin == 1, Rsv: byte(rsv), OpCode: ws.OpCode(op), Length: l}
					lattice = append(lattice, h)
					for _, k := range keys {
						h.Masked = true
						h.Mask = k
						lattice = append(lattice, h)
					}
				}
			}
		}
	}
	for _, h := range lattice {
		run("wh " + hdrArgs(h))
	}
	// Decoders on every lattice header followed by garbage, whole and in 1-byte chunks.
	for i, h := range lattice {
		if tier == "quick" && i%3 != 0 {
			continue
		}
		var buf bytes.Buffer
		ws.WriteHeader(&buf, h)
		enc := append(buf.Bytes(), 0xde, 0xad, 0xbe)
		run(fmt.Sprintf("rh %s %d E", hx(enc), []int{0, 1, 3}[i%3]))
	}
	// Every truncation point of a sample of lattice headers, EOF and failing transport.
	for i := 0; i < len(lattice); i += 37 {
		var buf bytes.Buffer
		ws.WriteHeader(&buf, lattice[i])
		enc := buf.Bytes()
		for cut := 0; cut < len(enc); cut++ {
			run(fmt.Sprintf("rh %s %d E", hx(enc[:cut]), i%4))
			run(fmt.Sprintf("rh %s %d F", hx(enc[:cut]), i%3))
		}
	}
	// Random and structured byte strings (MSB-set, non-minimal forms).
	n := 20000
	if tier == "thorough" {
		n = 400000
	}
	for i := 0; i < n; i++ {
		var p []byte
		switch r.intn(4) {
		case 0:
			p = r.bytes(r.intn(16))
		case 1: // 64-bit form with random top bits
			p = append([]byte{byte(r.next()), 127 | byte(r.intn(2)<<7)}, r.bytes(r.intn(14))...)
		case 2: // 16-bit form, possibly non-minimal
			p = append([]byte{byte(r.next()), 126 | byte(r.intn(2)<<7), 0, byte(r.next())}, r.bytes(r.intn(6))...)
		default: // non-minimal 64-bit form of a small length
			p = append([]byte{byte(r.next()), 127 | byte(r.intn(2)<<7), 0, 0, 0, 0, 0, 0, byte(r.intn(2)), byte(r.next())}, r.bytes(r.intn(6))...)
		}
		fin := "E"
		if r.intn(8) == 0 {
			fin = "F"
		}
		run(fmt.Sprintf("rh %s %d %s", hx(p), r.intn(5), fin))
	}
	// Several headers one after the other on one stream and one reader (all final, so the
	// message reader is never inside a fragmented message): every ordered pair of
	// masked/unmasked x length form, then random runs.
	{
		forms := []int64{0, 125, 126, 65535, 65536, 1 << 40}
		mk := func(masked bool, l int64, i int) ws.Header {
			h := ws.Header{Fin: true, Rsv: byte(i % 8), OpCode: ws.OpCode([]int{1, 2, 8, 9, 10, 3, 11}[i%7]), Length: l, Masked: masked}
			if masked {
				h.Mask = [4]byte{byte(0x11 + i), byte(0xa0 + i), 0x5c, byte(i)}
			}
			return h
		}
		i := 0
		for _, m1 := range []bool{true, false} {
			for _, m2 := range []bool{true, false} {
				for _, l1 := range forms {
					for _, l2 := range forms {
						i++
						if tier == "quick" && m1 == m2 && i%3 != 0 {
							continue
						}
						var buf bytes.Buffer
						ws.WriteHeader(&buf, mk(m1, l1, i))
						ws.WriteHeader(&buf, mk(m2, l2, i+3))
						ws.WriteHeader(&buf, mk(m1, l2, i+5))
						run(fmt.Sprintf("rhs %s %d E 3", hx(buf.Bytes()), []int{0, 1, 5}[i%3]))
					}
				}
			}
		}
		n := 300
		if tier != "quick" {
			n = 6000
		}
		for j := 0; j < n; j++ {
			var buf bytes.Buffer
			cnt := 2 + r.intn(4)
			for c := 0; c < cnt; c++ {
				ws.WriteHeader(&buf, mk(r.intn(2) == 0, c01Lens[r.intn(len(c01Lens))], r.intn(64)))
			}
			b := buf.Bytes()
			if r.intn(5) == 0 {
				b = b[:r.intn(len(b)+1)]
			}
			run(fmt.Sprintf("rhs %s %d %s %d", hx(b), r.intn(6), []string{"E", "E", "F"}[r.intn(3)], cnt))
		}
	}
	// Whole frames with payload sizes straddling the 125/126 and 65535/65536 boundaries.
	sizes := []int{0, 1, 2, 124, 125, 126, 127, 300, 65535, 65536, 65537}
	for _, sz := range sizes {
		for m := 0; m < 2; m++ {
			p := r.bytes(sz)
			h := ws.Header{Fin: r.bool(), Rsv: byte(r.intn(8)), OpCode: ws.OpCode(r.intn(16)), Masked: m == 1}
			if m == 1 {
				copy(h.Mask[:], r.bytes(4))
			}
			run(fmt.Sprintf("wf %d %d %d %d %s %s", b2i(h.Fin), h.Rsv, h.OpCode, b2i(h.Masked), hx(h.Mask[:]), hx(p)))
			h.Length = int64(sz)
			var buf bytes.Buffer
			ws.WriteFrame(&buf, ws.Frame{Header: h, Payload: p})
			enc := append(buf.Bytes(), 1, 2, 3)
			run(fmt.Sprintf("rf %s %d E", hx(enc), []int{0, 1, 7, 4096}[r.intn(4)]))
			if sz > 0 {
				cut := len(enc) - 3 - 1 - r.intn(sz)
				run(fmt.Sprintf("rf %s %d %s", hx(enc[:cut]), r.intn(3), []string{"E", "F"}[r.intn(2)]))
			}
		}
	}
}
