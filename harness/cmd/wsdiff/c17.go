package main

// C17: returned data and caller buffers are never aliased to pooled or internal memory.
// Each op takes a snapshot (deep copy) of what the library returned, churns the pools with
// different contents, and reports the value again.
//   ali up <cfg> <reqhex> <churnreqhex>       Upgrader.Upgrade, then more upgrades + pool scribbling
//   ali hup <cfg> <reqhex> <churnreqhex>      HTTPUpgrader.Upgrade
//   ali dl <cfg> <urlhex> <resphex> <churnresphex>   Dialer.Upgrade
//   ali close <S|C> <payloadhex>              ControlHandler.HandleClose -> ClosedError.Reason
//   ali rm <S|C> <streamhex> <churnstreamhex> ReadMessage payloads
//   ali wr <kind> <S|C> <hex>                 caller's slice after wm|wt|big|cwr|mf|mfw|umf ; buffered = write, scribble, flush
// Observed: snap=<...> after=<...> [intact=<0|1>]

import (
	"bufio"
	"bytes"
	"fmt"
	"math/rand"
	"net/http"
	"net/url"
	"strconv"
	"strings"

	"github.com/gobwas/pool/pbufio"
	"github.com/gobwas/pool/pbytes"
	"github.com/gobwas/ws"
	"github.com/gobwas/ws/wsutil"
)

type fillRd struct{ b byte }

func (f fillRd) Read(p []byte) (int, error) {
	for i := range p {
		p[i] = f.b
	}
	return len(p), nil
}

// scribble overwrites whatever the byte and bufio pools currently hold for the usual size classes.
func scribble() {
	for _, size := range []int{16, 64, 128, 256, 512, 1024, 4096} {
		var rs []*bufio.Reader
		for i := 0; i < 4; i++ {
			br := pbufio.GetReader(fillRd{0xAA}, size)
			br.Peek(size)
			rs = append(rs, br)
		}
		for _, br := range rs {
			pbufio.PutReader(br)
		}
		var ps [][]byte
		for i := 0; i < 4; i++ {
			p := pbytes.GetLen(size)
			for j := range p[:cap(p)] {
				p[:cap(p)][j] = 0xAA
			}
			ps = append(ps, p)
		}
		for _, p := range ps {
			pbytes.Put(p)
		}
	}
}

func hsSnap(hs ws.Handshake) string {
	return hx([]byte(hs.Protocol)) + "/" + optsStr(hs.Extensions)
}

func init() {
	ops["ali"] = func(a []string) string {
		switch a[0] {
		case "up":
			c := parseUpCfg(a[1])
			src, _ := mkReader(unhx(a[2]), 0, "E")
			hs, err := c.u.Upgrade(rwPair{src, &recDst{failAt: -1}})
			snap := hsSnap(hs)
			for i := 0; i < 3; i++ {
				c2 := parseUpCfg(a[1])
				s2, _ := mkReader(unhx(a[3]), 0, "E")
				c2.u.Upgrade(rwPair{s2, &recDst{failAt: -1}})
			}
			scribble()
			return fmt.Sprintf("%s snap=%s after=%s", hsErrClass2(err), snap, hsSnap(hs))
		case "hup":
			c := parseUpCfg(a[1])
			req, err := http.ReadRequest(bufio.NewReader(bytes.NewReader(unhx(a[2]))))
			if err != nil {
				return "SKIP:net/http"
			}
			_, _, hs, err := c.hu.Upgrade(req, &hjWriter{conn: &hjConn{}, h: http.Header{}})
			snap := hsSnap(hs)
			for i := 0; i < 3; i++ {
				if r2, e := http.ReadRequest(bufio.NewReader(bytes.NewReader(unhx(a[3])))); e == nil {
					parseUpCfg(a[1]).hu.Upgrade(r2, &hjWriter{conn: &hjConn{}, h: http.Header{}})
				}
			}
			scribble()
			return fmt.Sprintf("%s snap=%s after=%s", hsErrClass2(err), snap, hsSnap(hs))
		case "dl":
			d := parseDialCfg(a[1])
			u, err := url.ParseRequestURI(string(unhx(a[2])))
			if err != nil {
				return "SKIP:net/url"
			}
			// what the dialer was configured with must not change either (it is shared between dials)
			offer := optsStr(d.Extensions)
			br, hs, err := d.Upgrade(&dlConn{resp: unhx(a[3]), k: 0, fin: "E"}, u)
			if br != nil {
				ws.PutReader(br)
			}
			snap := hsSnap(hs)
			for i := 0; i < 3; i++ {
				d2 := parseDialCfg(a[1])
				b2, _, _ := d2.Upgrade(&dlConn{resp: unhx(a[4]), k: 0, fin: "E"}, u)
				if b2 != nil {
					ws.PutReader(b2)
				}
			}
			scribble()
			return fmt.Sprintf("%s snap=%s after=%s offer=%s offerafter=%s", hsErrClass2(err), snap, hsSnap(hs), offer, optsStr(d.Extensions))
		case "close":
			st := side(a[1])
			payload := unhx(a[2])
			var frame bytes.Buffer
			f := ws.NewCloseFrame(payload)
			if st.ServerSide() {
				f = ws.MaskFrameWith(f, [4]byte{9, 8, 7, 6})
			}
			ws.WriteFrame(&frame, f)
			r := bytes.NewReader(frame.Bytes())
			h, _ := ws.ReadHeader(r)
			err := wsutil.ControlFrameHandler(rwPair{r, &recDst{failAt: -1}}, st)(h, r)
			ce, ok := err.(wsutil.ClosedError)
			if !ok {
				return "noclosed:" + classify(err)
			}
			snap := fmt.Sprintf("%d:%s", ce.Code, hx([]byte(ce.Reason)))
			scribble()
			for i := 0; i < 3; i++ {
				p := pbytes.GetLen(len(payload) + 8)
				for j := range p {
					p[j] = 0x55
				}
				pbytes.Put(p)
			}
			return fmt.Sprintf("closed snap=%s after=%d:%s", snap, ce.Code, hx([]byte(ce.Reason)))
		case "rm":
			st := side(a[1])
			ms, err := wsutil.ReadMessage(bytes.NewReader(unhx(a[2])), st, nil)
			snap := msgsStr(ms)
			for i := 0; i < 3; i++ {
				wsutil.ReadMessage(bytes.NewReader(unhx(a[3])), st, nil)
				if st.ServerSide() {
					wsutil.ReadClientData(rwPair{bytes.NewReader(unhx(a[3])), &recDst{failAt: -1}})
				} else {
					wsutil.ReadServerData(rwPair{bytes.NewReader(unhx(a[3])), &recDst{failAt: -1}})
				}
			}
			scribble()
			return fmt.Sprintf("%s snap=%s after=%s", classify(err), snap, msgsStr(ms))
		case "rmr":
			// ali rmr <S|C> <stream> <later stream>: the message slice is recycled with ms[:0] (as example/autobahn
			// does) while the application still holds the payloads it was given by the earlier call
			st := side(a[1])
			ms, err := wsutil.ReadMessage(bytes.NewReader(unhx(a[2])), st, nil)
			held := append([]wsutil.Message(nil), ms...)
			snap := msgsStr(held)
			for i := 0; i < 3; i++ {
				ms, _ = wsutil.ReadMessage(bytes.NewReader(unhx(a[3])), st, ms[:0])
			}
			scribble()
			return fmt.Sprintf("%s snap=%s after=%s", classify(err), snap, msgsStr(held))
		case "hcm":
			// ali hcm <S|C> <opcode> <payloadhex>: a control message returned by a read helper, handed to
			// HandleClientControlMessage / HandleServerControlMessage (which write the reply): the message the
			// application holds is not changed by answering it
			p := unhx(a[3])
			p = append(make([]byte, 0, len(p)), p...)
			op, _ := strconv.Atoi(a[2])
			msg := wsutil.Message{OpCode: ws.OpCode(op), Payload: p}
			snap := hx(msg.Payload)
			var out bytes.Buffer
			rand.Seed(9)
			if a[1] == "C" {
				wsutil.HandleServerControlMessage(&out, msg) // we are the client: the reply is masked
			} else {
				wsutil.HandleClientControlMessage(&out, msg)
			}
			scribble()
			return fmt.Sprintf("snap=%s after=%s", snap, hx(msg.Payload))
		case "wr":
			st := side(a[2])
			p := unhx(a[3])
			// the caller's slice has exactly the capacity of its length (for 128, 256, 4096, ... that is
			// one of the byte pool's size classes: a slice the library must not hand to the pool)
			p = append(make([]byte, 0, len(p)), p...)
			orig := append([]byte(nil), p...)
			rand.Seed(5)
			var out []byte
			d := &recDst{failAt: -1}
			if strings.HasSuffix(a[1], "f0") || strings.HasSuffix(a[1], "f1") {
				// the destination fails at its first / second write: the caller's bytes stay intact all the same
				d.failAt = int(a[1][len(a[1])-1] - '0')
			}
			switch strings.TrimRight(a[1], "f01") {
			case "wm":
				wsutil.WriteMessage(d, st, ws.OpBinary, p)
			case "wt":
				w := wsutil.NewWriterBufferSize(d, st, ws.OpBinary, 64)
				w.WriteThrough(p)
			case "big":
				w := wsutil.NewWriterBufferSize(d, st, ws.OpBinary, 32)
				w.Write(p)
				w.Flush()
			case "buffered":
				w := wsutil.NewWriterBufferSize(d, st, ws.OpBinary, 4096)
				w.Write(p)
				for i := range p {
					p[i] ^= 0xff // the caller reuses its slice before the flush
				}
				w.Flush()
				for i := range p {
					p[i] ^= 0xff
				}
			case "cwr":
				var b bytes.Buffer
				wsutil.NewCipherWriter(&b, [4]byte{1, 2, 3, 4}).Write(p)
				out = b.Bytes()
			case "mf":
				f := ws.MaskFrame(ws.NewBinaryFrame(p))
				out = f.Payload
			case "mfw":
				f := ws.MaskFrameWith(ws.NewBinaryFrame(p), [4]byte{1, 2, 3, 4})
				out = f.Payload
			case "umf":
				f := ws.NewBinaryFrame(p)
				f.Header.Masked = true
				f.Header.Mask = [4]byte{1, 2, 3, 4}
				f = ws.UnmaskFrame(f)
				out = f.Payload
			case "umf0": // masked with the (legal) all-zero key
				f := ws.NewBinaryFrame(p)
				f.Header.Masked = true
				f = ws.UnmaskFrame(f)
				out = f.Payload
			case "umfu": // an unmasked frame through the copying helper
				f := ws.UnmaskFrame(ws.NewBinaryFrame(p))
				out = f.Payload
			case "mfw0":
				f := ws.MaskFrameWith(ws.NewBinaryFrame(p), [4]byte{})
				out = f.Payload
			case "mfm", "mfwm": // re-keying a frame that is ALREADY masked (what ws.ReadFrame hands a relay)
				f := ws.NewBinaryFrame(p)
				f.Header.Masked = true
				f.Header.Mask = [4]byte{9, 8, 7, 6}
				if a[1] == "mfm" {
					f = ws.MaskFrame(f)
				} else {
					f = ws.MaskFrameWith(f, [4]byte{1, 2, 3, 4})
				}
				out = f.Payload
			}
			// the copying helpers return the caller's own frame: whatever is done to it later (forwarding it masked
			// in place, say) must not reach the bytes that were passed in
			switch a[1] {
			case "mf", "mfw", "umf", "umf0", "umfu", "mfw0", "mfm", "mfwm":
				for i := range out {
					out[i] ^= 0xff
				}
			}
			for _, w := range d.writes {
				out = append(out, w...)
			}
			// what reached the destination carries the ORIGINAL bytes (possibly masked)
			carried := "-"
			if d.failAt >= 0 {
				carried = "-"
			} else if a[1] == "buffered" || a[1] == "wm" || a[1] == "wt" || a[1] == "big" {
				carried = hx(payloadsOf(out, st))
			}
			// other users of the pools run before the caller looks at its slice again
			scribble()
			return fmt.Sprintf("intact=%d carried=%s", b2i(bytes.Equal(orig, p)), carried)
		}
		return "BADOP"
	}
	register("C17", genC17)
}

// payloadsOf concatenates the (unmasked) payloads of the frames in wire bytes.
func payloadsOf(wire []byte, st ws.State) []byte {
	var out []byte
	r := bytes.NewReader(wire)
	for r.Len() > 0 {
		f, err := ws.ReadFrame(r)
		if err != nil {
			break
		}
		if f.Header.Masked {
			ws.Cipher(f.Payload, f.Header.Mask, 0)
		}
		out = append(out, f.Payload...)
	}
	return out
}

func genC17(tier string, r *rng) {
	base := baseHeaders()
	pmd := hx([]byte("permessage-deflate"))
	mkReq := func(proto, ext, pad string) []byte {
		hs := append([]hdr{}, base...)
		if proto != "" {
			hs = append(hs, hdr{"Sec-WebSocket-Protocol", " " + proto})
		}
		if ext != "" {
			hs = append(hs, hdr{"Sec-WebSocket-Extensions", " " + ext})
		}
		if pad != "" {
			hs = append(hs, hdr{"X-Pad", " " + pad})
		}
		return buildReq("GET", "/ws", "HTTP/1.1", hs, "\r\n")
	}
	ucfgs := []string{"proto:" + hx([]byte("chat")) + "|" + hx([]byte("b")), "neg:0;0;0;0", "neg:1;1;12;10", "ext:" + pmd + "|" + hx([]byte("x-foo")),
		"proto:" + hx([]byte("b")) + ",neg:0;0;0;0", "rb:64,proto:" + hx([]byte("chat")) + ",ext:" + hx([]byte("x-foo")), "-"}
	reqs := [][]byte{
		mkReq("a, b, chat", "permessage-deflate; client_max_window_bits=10; server_no_context_takeover", ""),
		mkReq("chat", "x-foo; k=\"v w\"; z, permessage-deflate", strings.Repeat("p", 100)),
		mkReq("b", "", ""),
	}
	churn := [][]byte{
		mkReq("zzzz, yyyy, xxxx", "qqqqqqqqqqqqqqqqqq; rrrrrrrrrrrrrrrrrrrrrr=99; ssssssssssssssssssssssss", strings.Repeat("Z", 300)),
		buildReq("GET", "/"+strings.Repeat("Q", 200), "HTTP/1.1", base, "\r\n"),
	}
	for _, uc := range ucfgs {
		for _, rq := range reqs {
			for _, ch := range churn {
				run(fmt.Sprintf("ali up %s %s %s", uc, hx(rq), hx(ch)))
				run(fmt.Sprintf("ali hup %s %s %s", uc, hx(rq), hx(ch)))
			}
		}
	}
	ok101 := "HTTP/1.1 101 Switching Protocols"
	rb := baseRespHeaders()
	dcfgs := []string{"proto@" + hx([]byte("chat")) + "|" + hx([]byte("b")) + "/ext@" + pmd + ":" + hx([]byte("client_max_window_bits")) + "=",
		"ext@" + pmd + ":" + hx([]byte("client_max_window_bits")) + "=" + hx([]byte("15")) + "," + hx([]byte("server_no_context_takeover")) + "=" + "|" + hx([]byte("x-foo")) + ":" + hx([]byte("k")) + "=" + hx([]byte("v")),
		"rb@64/proto@" + hx([]byte("b")) + "/ext@" + pmd + ":"}
	resps := [][]byte{
		buildResp(ok101, append(append([]hdr{}, rb...), hdr{"Sec-WebSocket-Protocol", " b"}, hdr{"Sec-WebSocket-Extensions", " permessage-deflate; client_max_window_bits=11; server_max_window_bits=9"}, hdr{"X-Pad", " " + strings.Repeat("p", 120)}), "\r\n", []byte{0x81, 0x01, 0x41}),
		buildResp(ok101, append(append([]hdr{}, rb...), hdr{"Sec-WebSocket-Extensions", " permessage-deflate"}), "\r\n", nil),
		buildResp(ok101, append(append([]hdr{}, rb...), hdr{"Sec-WebSocket-Extensions", " x-foo; k=other, permessage-deflate; client_max_window_bits=8"}), "\r\n", nil),
	}
	churnResp := buildResp(ok101, append(append([]hdr{}, rb...), hdr{"Sec-WebSocket-Protocol", " chat"}, hdr{"Sec-WebSocket-Extensions", " permessage-deflate; client_max_window_bits=15; server_no_context_takeover"}, hdr{"X-Pad", " " + strings.Repeat("Z", 300)}), "\r\n", bytes.Repeat([]byte{0xEE}, 50))
	for _, dc := range dcfgs {
		for _, rs := range resps {
			run(fmt.Sprintf("ali dl %s %s %s %s", dc, hx([]byte("ws://example.com/")), hx(rs), hx(churnResp)))
		}
	}
	// close reasons and message payloads across the pool's size classes
	for _, sd := range []string{"S", "C"} {
		for _, n := range []int{0, 1, 10, 60, 123} {
			run(fmt.Sprintf("ali close %s %s", sd, hx(ws.NewCloseFrameBody(1000, strings.Repeat("r", n)))))
		}
		for _, n := range []int{0, 1, 100, 127, 128, 129, 1000, 4096, 70000} {
			masked := sd == "S"
			one := frameBytes(true, 0, ws.OpBinary, masked, r.bytes(n))
			frag := bytes.Join([][]byte{frameBytes(false, 0, ws.OpText, masked, []byte("ab")), frameBytes(true, 0, ws.OpPing, masked, []byte("pp")), frameBytes(true, 0, ws.OpContinuation, masked, bytes.Repeat([]byte("c"), n%200))}, nil)
			ch := frameBytes(true, 0, ws.OpBinary, masked, bytes.Repeat([]byte{0xEE}, n+7))
			run(fmt.Sprintf("ali rm %s %s %s", sd, hx(one), hx(ch)))
			run(fmt.Sprintf("ali rm %s %s %s", sd, hx(frag), hx(ch)))
			short := frameBytes(true, 0, ws.OpBinary, masked, bytes.Repeat([]byte{0xDD}, n/2))
			run(fmt.Sprintf("ali rmr %s %s %s", sd, hx(one), hx(short)))
			run(fmt.Sprintf("ali rmr %s %s %s", sd, hx(one), hx(ch)))
			run(fmt.Sprintf("ali rmr %s %s %s", sd, hx(frag), hx(short)))
		}
		for _, op := range []int{9, 10, 8} {
			for _, n := range []int{0, 1, 2, 16, 100, 125} {
				pl := r.bytes(n)
				if op == 8 && n >= 2 {
					pl = ws.NewCloseFrameBody(1000, string(bytes.Repeat([]byte("r"), n-2)))
				}
				run(fmt.Sprintf("ali hcm %s %d %s", sd, op, hx(pl)))
			}
		}
		for _, kind := range []string{"wm", "wt", "big", "buffered", "cwr", "mf", "mfw", "umf", "umf0", "umfu", "mfw0", "mfm", "mfwm"} {
			for _, n := range []int{0, 1, 7, 8, 9, 31, 100, 127, 128, 256, 1000, 1024, 4096, 5000} {
				run(fmt.Sprintf("ali wr %s %s %s", kind, sd, hx(r.bytes(n))))
			}
		}
		// across and beyond the byte pool's largest size class (65536), and with a failing destination
		for _, kind := range []string{"wm", "wt", "big", "wmf0", "wtf0", "bigf0", "bigf1", "mf", "cwr"} {
			for _, n := range []int{100, 4096, 65535, 65536, 65537, 70000, 140000} {
				if tier == "quick" && n > 70000 {
					continue
				}
				run(fmt.Sprintf("ali wr %s %s %s", kind, sd, hx(r.bytes(n))))
			}
		}
	}
}
