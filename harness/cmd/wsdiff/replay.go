package main

import (
	"bufio"
	"os"
	"strings"
	"time"
)

// ops maps the first token of an op line to the function that re-runs it on the real code.
var ops = map[string]func(args []string) string{}

// run executes one op line on the implementation and emits it with the observed output.
func run(opline string) {
	f := strings.Fields(opline)
	h, ok := ops[f[0]]
	if !ok {
		emit(opline, "UNKNOWN-OP")
		return
	}
	// watchdog: an operation that does not return (a spinning loop in the library) is reported as HANG;
	// its goroutine cannot be stopped and keeps one core busy, so after a few of them the run is cut short.
	if f[0] == "conc" || f[0] == "dialc" || hangs >= 3 {
		if hangs >= 3 {
			emit(opline, "HANG-SKIPPED")
			return
		}
		emit(opline, guard(func() string { return h(f[1:]) }))
		return
	}
	done := make(chan string, 1)
	go func() { done <- guard(func() string { return h(f[1:]) }) }()
	select {
	case res := <-done:
		emit(opline, res)
	case <-time.After(opTimeout):
		hangs++
		emit(opline, "HANG")
	}
}

var hangs int
var opTimeout = 30 * time.Second

// replayFile re-runs every op line of a corpus/replay file (text before " => " if present).
func replayFile(path string) {
	fh, err := os.Open(path)
	if err != nil {
		panic(err)
	}
	defer fh.Close()
	sc := bufio.NewScanner(fh)
	sc.Buffer(make([]byte, 1<<20), 1<<28)
	for sc.Scan() {
		line := strings.TrimSpace(sc.Text())
		if line == "" || strings.HasPrefix(line, "#") {
			continue
		}
		if i := strings.Index(line, " => "); i >= 0 {
			line = line[:i]
		}
		run(line)
	}
}
