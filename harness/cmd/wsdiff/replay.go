package main

import (
	"bufio"
	"os"
	"strings"
)

// ops maps the first token of an op line to the function that re-runs it on the real code.
var ops = map[string]func(args []string) string{}

// run executes one op line on the implementation and emits it with the observed output.
func run(opline string) {
	f := strings.Fields(opline)
	h, ok := ops[f[0]]
	if !ok {
		emit(opline, "UNKNOWN-OP")
		return
	}
	emit(opline, guard(func() string { return h(f[1:]) }))
}

// replayFile re-runs every op line of a corpus/replay file (text before " => " if present).
func replayFile(path string) {
	fh, err := os.Open(path)
	if err != nil {
		panic(err)
	}
	defer fh.Close()
	sc := bufio.NewScanner(fh)
	sc.Buffer(make([]byte, 1<<20), 1<<28)
	for sc.Scan() {
		line := strings.TrimSpace(sc.Text())
		if line == "" || strings.HasPrefix(line, "#") {
			continue
		}
		if i := strings.Index(line, " => "); i >= 0 {
			line = line[:i]
		}
		run(line)
	}
}
