package main

// C15: no input from the peer makes a decoding entry point panic, hang or allocate by an announced
// length (header decoding).
//   fz <entry> <hex> [arg]
// entries: rh (ws.ReadHeader) rf (ws.ReadFrame) rdr (wsutil.Reader: NextFrame+read all, loop)
//          rmax (wsutil.Reader with MaxFrameSize=arg) rm (wsutil.ReadMessage) rd (wsutil.ReadClientData/ReadServerData)
//          ctl (wsutil.ControlFrameHandler over a frame) up (Upgrader.Upgrade) hup (HTTPUpgrader.Upgrade)
//          dl (Dialer.Upgrade) dcf (wsflate.DecompressFrame) pp (Parameters.Parse) neg (Extension.Negotiate)
//          ptok (subprotocol header value through Upgrader) pext (extension header value through Upgrader)
// Observed: "ret alloc=<small|LARGE:n> reads=<payload bytes pulled from the source>" | PANIC:... | HANG

import (
	"os"
	"os/exec"
	"bufio"
	"bytes"
	"context"
	"net"
	"fmt"
	"io"
	"net/http"
	"net/url"
	"runtime"
	"strconv"
	"strings"
	"time"

	"github.com/gobwas/httphead"
	"github.com/gobwas/ws"
	"github.com/gobwas/ws/wsflate"
	"github.com/gobwas/ws/wsutil"
)

type countRd struct {
	r io.Reader
	n int
}

func (c *countRd) Read(p []byte) (int, error) {
	n, err := c.r.Read(p)
	c.n += n
	return n, err
}

type discardRW struct{ io.Reader }

func (discardRW) Write(p []byte) (int, error) { return len(p), nil }

func fzRun(entry string, data []byte, arg string) (extra string) {
	src := &countRd{r: bytes.NewReader(data)}
	switch entry {
	case "rh":
		ws.ReadHeader(src)
	case "rf":
		ws.ReadFrame(src)
	case "rmax":
		// one deterministic configuration: no header check, no UTF-8 check, so the only refusal is the size limit
		rd := &wsutil.Reader{Source: src, State: ws.StateServerSide, SkipHeaderCheck: true}
		rd.MaxFrameSize, _ = strconv.ParseInt(arg, 10, 64)
		rd.OnIntermediate = func(h ws.Header, r io.Reader) error { _, err := io.Copy(io.Discard, r); return err }
		for i := 0; i < len(data)+4; i++ {
			_, err := rd.NextFrame()
			if err == nil {
				// Read continues into the following fragments of the message by itself
				_, err = io.Copy(io.Discard, rd)
			}
			if err != nil {
				if err == wsutil.ErrFrameTooLarge {
					// nothing of the refused frame's payload may have been pulled: the source stands at the end of its header
					extra = fmt.Sprintf(" toolarge=%d", src.n)
				}
				break
			}
		}
	case "rdr":
		for _, st := range []ws.State{ws.StateServerSide, ws.StateClientSide, ws.StateServerSide | ws.StateExtended} {
			src = &countRd{r: bytes.NewReader(data)}
			rd := &wsutil.Reader{Source: src, State: st, CheckUTF8: true, SkipHeaderCheck: false}
			rd.OnIntermediate = func(h ws.Header, r io.Reader) error { _, err := io.Copy(io.Discard, r); return err }
			for i := 0; i < len(data)+4; i++ {
				_, err := rd.NextFrame()
				if err != nil {
					break
				}
				if _, err := io.Copy(io.Discard, rd); err != nil {
					break
				}
			}
		}
	case "rm":
		wsutil.ReadMessage(src, ws.StateServerSide, nil)
		wsutil.ReadMessage(&countRd{r: bytes.NewReader(data)}, ws.StateClientSide, nil)
	case "rd":
		rw := discardRW{src}
		wsutil.ReadClientData(rw)
		wsutil.ReadServerData(discardRW{bytes.NewReader(data)})
		wsutil.ReadClientText(discardRW{bytes.NewReader(data)})
	case "ctl":
		for _, st := range []ws.State{ws.StateServerSide, ws.StateClientSide} {
			r := bytes.NewReader(data)
			h, err := ws.ReadHeader(r)
			if err != nil {
				continue
			}
			if h.Length > int64(r.Len()) {
				h.Length = int64(r.Len())
			}
			wsutil.ControlFrameHandler(discardRW{r}, st)(h, io.LimitReader(r, h.Length))
		}
	case "up":
		ws.Upgrader{}.Upgrade(discardRW{src})
		sel := ws.SelectFromSlice([]string{"b", "chat"})
		ext := wsflate.Extension{Parameters: wsflate.DefaultParameters}
		ws.Upgrader{Protocol: func(b []byte) bool { return sel(string(b)) }, Negotiate: ext.Negotiate, ReadBufferSize: 16}.Upgrade(discardRW{bytes.NewReader(data)})
		ws.Upgrader{Extension: func(httphead.Option) bool { return true }}.Upgrade(discardRW{bytes.NewReader(data)})
	case "dup":
		// the debug wrapper around the upgrader, with every combination of its callbacks
		for m := 0; m < 4; m++ {
			du := wsutil.DebugUpgrader{}
			if m&1 != 0 {
				du.OnRequest = func([]byte) {}
			}
			if m&2 != 0 {
				du.OnResponse = func([]byte) {}
			}
			du.Upgrade(discardRW{bytes.NewReader(data)})
		}
	case "hup":
		req, err := http.ReadRequest(bufio.NewReader(bytes.NewReader(data)))
		if err == nil {
			conn := &hjConn{}
			ext := wsflate.Extension{Parameters: wsflate.DefaultParameters}
			ws.HTTPUpgrader{Protocol: ws.SelectFromSlice([]string{"b", "chat"}), Negotiate: ext.Negotiate}.Upgrade(req, &hjWriter{conn: conn, h: http.Header{}})
			ws.HTTPUpgrader{Extension: func(httphead.Option) bool { return true }}.Upgrade(req, &hjWriter{conn: &hjConn{}, h: http.Header{}})
		}
	case "dl":
		u, _ := url.Parse("ws://example.com/")
		d := ws.Dialer{Protocols: []string{"a", "chat"}, Extensions: []httphead.Option{wsflate.DefaultParameters.Option()}}
		d.Upgrade(&dlConn{resp: data, k: 0, fin: "E"}, u)
		ws.Dialer{ReadBufferSize: 16}.Upgrade(&dlConn{resp: data, k: 3, fin: "E"}, u)
	case "ddl":
		// the debug wrapper around the dialer, with and without its response callback
		for _, withCb := range []bool{true, false} {
			d := ws.Dialer{NetDial: func(ctx context.Context, n, ad string) (net.Conn, error) {
				return &scriptConn{dlc: &dlConn{resp: data, k: 0, fin: "E"}}, nil
			}}
			dd := wsutil.DebugDialer{Dialer: d}
			if withCb {
				dd.OnResponse = func([]byte) {}
				dd.OnRequest = func([]byte) {}
			}
			dd.Dial(context.Background(), "ws://example.com/")
		}
	case "dcf":
		wsflate.DecompressFrame(ws.Frame{Header: ws.Header{Fin: true, Rsv: 4, OpCode: ws.OpBinary, Length: int64(len(data))}, Payload: data})
	case "pp":
		var opt httphead.Option
		if os, ok := httphead.ParseOptions(data, nil); ok && len(os) > 0 {
			opt = os[0]
		} else {
			opt = httphead.Option{Name: []byte("permessage-deflate")}
			opt.Parameters.Set(data, data)
		}
		var p wsflate.Parameters
		p.Parse(opt)
	case "neg":
		os, _ := httphead.ParseOptions(data, nil)
		e := wsflate.Extension{Parameters: wsflate.Parameters{ServerMaxWindowBits: 12, ClientMaxWindowBits: 10}}
		for _, o := range os {
			e.Negotiate(o)
		}
	case "ptok", "pext":
		name := "Sec-WebSocket-Protocol"
		if entry == "pext" {
			name = "Sec-WebSocket-Extensions"
		}
		req := append(buildReq("GET", "/", "HTTP/1.1", baseHeaders(), "\r\n")[:0:0], buildReq("GET", "/", "HTTP/1.1", append(baseHeaders(), hdr{name, " " + string(data)}), "\r\n")...)
		sel := ws.SelectFromSlice([]string{"b", "chat"})
		ext := wsflate.Extension{Parameters: wsflate.DefaultParameters}
		ws.Upgrader{Protocol: func(b []byte) bool { return sel(string(b)) }, Negotiate: ext.Negotiate}.Upgrade(discardRW{bytes.NewReader(req)})
		ws.Upgrader{Extension: func(httphead.Option) bool { return true }}.Upgrade(discardRW{bytes.NewReader(req)})
	}
	return extra
}

func init() {
	ops["fz"] = func(a []string) string {
		data := unhx(a[1])
		arg := ""
		if len(a) > 2 {
			arg = a[2]
		}
		done := make(chan string, 1)
		go func() {
			done <- guard(func() string {
				var m0, m1 runtime.MemStats
				runtime.ReadMemStats(&m0)
				extra := fzRun(a[0], data, arg)
				runtime.ReadMemStats(&m1)
				alloc := m1.TotalAlloc - m0.TotalAlloc
				as := "small"
				// header decoding / streaming entry points must not allocate by the announced length
				if alloc > 1<<20+uint64(64*len(data)) {
					as = fmt.Sprintf("LARGE:%d", alloc)
				}
				return "ret alloc=" + as + extra
			})
		}()
		select {
		case r := <-done:
			if strings.HasPrefix(r, "PANIC") {
				return r
			}
			return r
		case <-time.After(5 * time.Second):
			return "HANG"
		}
	}
	register("C15", genC15)
}

// ---- mutation ----

var interesting = []byte{0, 1, 0x7d, 0x7e, 0x7f, 0x80, 0x81, 0x88, 0x89, 0x8a, 0xfe, 0xff, '\r', '\n', ':', ';', ',', '"', '\\', '(', ')', ' ', '\t', '=', '/', '0', '9'}

func mutate(r *rng, seedsIn [][]byte) []byte {
	b := append([]byte(nil), seedsIn[r.intn(len(seedsIn))]...)
	for k := 0; k < 1+r.intn(4); k++ {
		switch r.intn(8) {
		case 0:
			if len(b) > 0 {
				b[r.intn(len(b))] ^= 1 << uint(r.intn(8))
			}
		case 1:
			if len(b) > 0 {
				b[r.intn(len(b))] = interesting[r.intn(len(interesting))]
			}
		case 2:
			if len(b) > 0 {
				b = b[:r.intn(len(b))]
			}
		case 3:
			if len(b) > 1 {
				i := r.intn(len(b))
				j := i + r.intn(len(b)-i)
				b = append(b[:j:j], append(append([]byte(nil), b[i:j]...), b[j:]...)...)
			}
		case 4:
			i := 0
			if len(b) > 0 {
				i = r.intn(len(b))
			}
			ins := r.bytes(1 + r.intn(6))
			b = append(b[:i:i], append(ins, b[i:]...)...)
		case 5:
			o := seedsIn[r.intn(len(seedsIn))]
			if len(o) > 0 && len(b) > 0 {
				b = append(b[:r.intn(len(b))], o[r.intn(len(o)):]...)
			}
		case 6:
			if len(b) > 0 {
				i := r.intn(len(b))
				b = append(b[:i], b[i+1:]...)
			}
		case 7:
			if len(b) > 8 {
				i := r.intn(len(b) - 8)
				for j := 0; j < 8; j++ {
					b[i+j] = []byte{0xff, 0x7f, 0x80, 0}[r.intn(4)]
				}
			}
		}
	}
	if len(b) > 70000 {
		b = b[:70000]
	}
	return b
}

func frameBytes(fin bool, rsv byte, op ws.OpCode, masked bool, payload []byte) []byte {
	var buf bytes.Buffer
	f := ws.NewFrame(op, fin, payload)
	f.Header.Rsv = rsv
	if masked {
		f = ws.MaskFrameWith(f, [4]byte{1, 2, 3, 4})
	}
	ws.WriteFrame(&buf, f)
	return buf.Bytes()
}

func genC15(tier string, r *rng) {
	n := 400
	if tier == "thorough" {
		n = 20000
	}
	cat := func(xs ...[]byte) []byte { return bytes.Join(xs, nil) }
	frameSeeds := [][]byte{
		frameBytes(true, 0, ws.OpText, true, []byte("hello")),
		frameBytes(true, 0, ws.OpBinary, false, r.bytes(200)),
		cat(frameBytes(false, 0, ws.OpText, true, []byte("he")), frameBytes(true, 0, ws.OpPing, true, []byte("p")), frameBytes(true, 0, ws.OpContinuation, true, []byte("llo"))),
		frameBytes(true, 0, ws.OpClose, true, ws.NewCloseFrameBody(1000, "bye")),
		frameBytes(true, 4, ws.OpText, true, []byte{0xf2, 0x48, 0xcd, 0xc9, 0xc9, 0x07, 0x00}),
		frameBytes(true, 0, ws.OpBinary, true, r.bytes(70000)),
		frameBytes(true, 0, ws.OpPong, false, nil),
	}
	reqSeed := buildReq("GET", "/ws", "HTTP/1.1", append(baseHeaders(), hdr{"Sec-WebSocket-Protocol", " a, b"}, hdr{"Sec-WebSocket-Extensions", " permessage-deflate; client_max_window_bits"}), "\r\n")
	respSeed := buildResp("HTTP/1.1 101 Switching Protocols", append(baseRespHeaders(), hdr{"Sec-WebSocket-Protocol", " chat"}, hdr{"Sec-WebSocket-Extensions", " permessage-deflate; server_max_window_bits=10"}), "\r\n", []byte{0x81, 0})
	optSeeds := [][]byte{[]byte("permessage-deflate; client_max_window_bits=10; server_no_context_takeover"), []byte("a, b;c=\"d\\\"e\", permessage-deflate"), []byte("chat, superchat")}
	deflSeeds := [][]byte{{0xf2, 0x48, 0xcd, 0xc9, 0xc9, 0x07, 0x00}, encFixed([]byte(strings.Repeat("ab", 50)), true), encStored(r.bytes(30), 7)}
	plan := []struct {
		entry string
		seeds [][]byte
	}{
		{"rh", frameSeeds}, {"rf", frameSeeds[:5]}, {"rdr", frameSeeds}, {"rm", frameSeeds[:5]}, {"rd", frameSeeds[:5]}, {"ctl", frameSeeds},
		{"up", [][]byte{reqSeed}}, {"hup", [][]byte{reqSeed}}, {"dl", [][]byte{respSeed}}, {"dcf", deflSeeds}, {"pp", optSeeds}, {"neg", optSeeds},
		{"ptok", optSeeds}, {"pext", optSeeds}, {"ddl", [][]byte{respSeed}}, {"dup", [][]byte{reqSeed}},
	}
	// handshake heads cut at EVERY offset (and with the bytes around the cut doubled), CRLF and LF: each
	// entry point that reads a head returns
	for _, eol := range []string{"\r\n", "\n"} {
		rq := buildReq("GET", "/ws", "HTTP/1.1", baseHeaders(), eol)
		rs := buildResp("HTTP/1.1 101 Switching Protocols", baseRespHeaders(), eol, nil)
		for cut := 0; cut <= len(rs); cut++ {
			if tier == "quick" && cut < len(rs)-12 && cut%5 != 0 {
				continue
			}
			run(fmt.Sprintf("fz dl %s", hx(rs[:cut])))
			run(fmt.Sprintf("fz ddl %s", hx(rs[:cut])))
		}
		for cut := 0; cut <= len(rq); cut++ {
			if tier == "quick" && cut < len(rq)-12 && cut%5 != 0 {
				continue
			}
			run(fmt.Sprintf("fz up %s", hx(rq[:cut])))
			run(fmt.Sprintf("fz dup %s", hx(rq[:cut])))
		}
		// header lines whose first byte is the colon
		for _, line := range []string{": x", ":", ":::", ": "} {
			run(fmt.Sprintf("fz up %s", hx(bytes.Replace(rq, []byte(eol+"Upgrade"), []byte(eol+line+eol+"Upgrade"), 1))))
			run(fmt.Sprintf("fz dup %s", hx(bytes.Replace(rq, []byte(eol+"Upgrade"), []byte(eol+line+eol+"Upgrade"), 1))))
			run(fmt.Sprintf("fz dl %s", hx(bytes.Replace(rs, []byte(eol+"Upgrade"), []byte(eol+line+eol+"Upgrade"), 1))))
			run(fmt.Sprintf("fz ddl %s", hx(bytes.Replace(rs, []byte(eol+"Upgrade"), []byte(eol+line+eol+"Upgrade"), 1))))
		}
	}
	// a long run of payload-less frames inside one message (legal traffic: 2 bytes a frame): every read path keeps
	// going at constant depth - run in a child process with a 32 MiB stack limit
	for _, kind := range []string{"cont", "ping"} {
		for _, entry := range []string{"rd", "rdata", "rm"} {
			n := 700000
			if tier == "thorough" {
				n = 4000000
			}
			run(fmt.Sprintf("iso manyempty %d %s %s", n, kind, entry))
		}
	}
	for _, p := range plan {
		for _, s := range p.seeds {
			run(fmt.Sprintf("fz %s %s", p.entry, hx(s)))
		}
		for i := 0; i < n; i++ {
			m := mutate(r, p.seeds)
			if p.entry == "rf" || p.entry == "rm" || p.entry == "rd" {
				// keep announced lengths modest for the allocating helpers (see extremes below)
				if hasHugeLength(m) {
					continue
				}
			}
			run(fmt.Sprintf("fz %s %s", p.entry, hx(m)))
		}
	}
	// handshake requests whose key has the right length (24) but every kind of content: no padding, one '=', padding in
	// the middle, characters outside the base64 alphabet, whitespace
	for _, key := range []string{"AAAAAAAAAAAAAAAAAAAAAAAA", "dGhlIHNhbXBsZSBub25jZQE=", "dGhlIHNhbXBsZSBub25jZQ==", "AAAA====AAAAAAAAAAAAAAAA", "========================",
		"////////////////////////", "AAAAAAAAAAAAAAAAAAAAAAA=", "\x00\x01\x02AAAAAAAAAAAAAAAAAAAAA", "AAAAAAAAAAA AAAAAAAAAAAA", "-_-_-_-_-_-_-_-_-_-_-_-_"} {
		hs := baseHeaders()
		for i := range hs {
			if hs[i].k == "Sec-WebSocket-Key" {
				hs[i].v = " " + key
			}
		}
		req := buildReq("GET", "/ws", "HTTP/1.1", hs, "\r\n")
		run(fmt.Sprintf("fz up %s", hx(req)))
		run(fmt.Sprintf("fz hup %s", hx(req)))
	}
	// extreme announced lengths 2^31 .. 2^63-1 at every frame entry point
	for _, l := range []uint64{1 << 31, 1<<31 + 1, 1 << 32, 1 << 40, 1 << 62, 1<<63 - 1, 1 << 63, 1<<64 - 1} {
		for _, masked := range []bool{false, true} {
			h := []byte{0x82, 127}
			if masked {
				h[1] |= 0x80
			}
			for i := 7; i >= 0; i-- {
				h = append(h, byte(l>>(uint(i)*8)))
			}
			if masked {
				h = append(h, 1, 2, 3, 4)
			}
			h = append(h, []byte("some payload bytes")...)
			for _, e := range []string{"rh", "rdr", "ctl"} {
				run(fmt.Sprintf("fz %s %s", e, hx(h)))
			}
			run(fmt.Sprintf("fz rmax %s 1000", hx(h)))
			if l >= 1<<62 {
				// the allocating helpers: only lengths make() refuses outright (a length it accepts would
				// commit that much memory in this sandbox)
				for _, e := range []string{"rf", "rm", "rd"} {
					run(fmt.Sprintf("fz %s %s", e, hx(h)))
				}
			}
		}
	}
	// MaxFrameSize inside a fragmented message: oversized continuation and intermediate control frames
	for _, max := range []int{1, 4, 10, 100} {
		for _, op := range []ws.OpCode{ws.OpPing, ws.OpPong, ws.OpClose, ws.OpContinuation} {
			for _, plen := range []int{0, max, max + 1, 125} {
				stream := cat(frameBytes(false, 0, ws.OpText, true, []byte("a")), frameBytes(op != ws.OpContinuation, 0, op, true, r.bytes(plen)), frameBytes(true, 0, ws.OpContinuation, true, []byte("z")))
				run(fmt.Sprintf("fz rmax %s %d", hx(stream), max))
			}
		}
		// an intermediate pong announcing 2^63-1 bytes
		huge := append([]byte{0x8a, 0xff, 0x7f, 0xff, 0xff, 0xff, 0xff, 0xff, 0xff, 0xff, 1, 2, 3, 4}, r.bytes(40)...)
		run(fmt.Sprintf("fz rmax %s %d", hx(cat(frameBytes(false, 0, ws.OpBinary, true, []byte("a")), huge)), max))
	}
	// MaxFrameSize: refused before any payload is read
	for _, max := range []int{0, 1, 125, 126, 1000, 65535, 65536} {
		for _, plen := range []int{0, 1, 125, 126, 127, 1000, 1001, 65535, 65536, 70000} {
			run(fmt.Sprintf("fz rmax %s %d", hx(frameBytes(true, 0, ws.OpBinary, true, r.bytes(plen))), max))
		}
	}
}

func hasHugeLength(b []byte) bool {
	// walk the frames as the helpers will: any header announcing more than 16 MiB
	r := bytes.NewReader(b)
	for i := 0; i < 64; i++ {
		h, err := ws.ReadHeader(r)
		if err != nil {
			return false
		}
		if h.Length > 1<<24 || h.Length < 0 {
			return true
		}
		if h.Length > int64(r.Len()) {
			return false
		}
		r.Seek(h.Length, io.SeekCurrent)
	}
	return false
}


// ---- operations run in a process of their own ----

// repReader generates head ++ unit*n ++ tail without holding it in memory.
type repReader struct {
	head, unit, tail []byte
	n                int
	cur              []byte
	stage            int
}

func (g *repReader) Read(p []byte) (int, error) {
	for len(g.cur) == 0 {
		switch {
		case g.stage == 0:
			g.cur, g.stage = g.head, 1
		case g.stage == 1 && g.n > 0:
			// many units per refill
			k := g.n
			if k > 4096 {
				k = 4096
			}
			g.cur = bytes.Repeat(g.unit, k)
			g.n -= k
		case g.stage == 1:
			g.cur, g.stage = g.tail, 2
		default:
			return 0, io.EOF
		}
	}
	n := copy(p, g.cur)
	g.cur = g.cur[n:]
	return n, nil
}

func init() {
	// iso <op> <args...>: run <op> in a child process with a modest stack limit (32 MiB) and report its result, or how
	// the child died - a fatal runtime error (stack exhaustion, concurrent map access) cannot be recovered from
	// and would otherwise take the whole run with it
	ops["iso"] = func(a []string) string {
		cmd := exec.Command(os.Args[0], append([]string{"child"}, a...)...)
		var so, se bytes.Buffer
		cmd.Stdout, cmd.Stderr = &so, &se
		cmd.Env = append(os.Environ(), "GOMEMLIMIT=2GiB")
		done := make(chan error, 1)
		if err := cmd.Start(); err != nil {
			return "SKIP:cannot-start-child"
		}
		go func() { done <- cmd.Wait() }()
		select {
		case err := <-done:
			if err != nil {
				why := "exit"
				for _, l := range strings.Split(se.String(), "\n") {
					if strings.HasPrefix(l, "fatal error:") || strings.HasPrefix(l, "runtime: goroutine stack exceeds") || strings.HasPrefix(l, "panic:") {
						why = strings.ReplaceAll(strings.TrimSpace(l), " ", "_")
						break
					}
				}
				return "CRASH:" + why
			}
			return strings.TrimSpace(so.String())
		case <-time.After(120 * time.Second):
			cmd.Process.Kill()
			return "HANG"
		}
	}
	// manyempty <n> <cont|ping> <rd|rdata|rm>: ONE fragmented binary message "a" ... "z" with n payload-less frames
	// between the two fragments (empty non-final continuations, or empty pings), server-to-client (unmasked), read
	// through wsutil.Reader + ReadAll, ReadServerData, or ReadMessage
	ops["manyempty"] = func(a []string) string {
		n, _ := strconv.Atoi(a[0])
		unit := []byte{0x00, 0x00}
		if a[1] == "ping" {
			unit = []byte{0x89, 0x00}
		}
		src := &repReader{head: []byte{0x02, 0x01, 'a'}, unit: unit, n: n, tail: []byte{0x80, 0x01, 'z'}}
		switch a[2] {
		case "rd":
			rd := &wsutil.Reader{Source: src, State: ws.StateClientSide, OnIntermediate: func(ws.Header, io.Reader) error { return nil }}
			if _, err := rd.NextFrame(); err != nil {
				return "nf:" + classify(err)
			}
			b, err := io.ReadAll(rd)
			return fmt.Sprintf("%s %s", classify(err), hx(b))
		case "rdata":
			b, _, err := wsutil.ReadServerData(discardRW{src})
			return fmt.Sprintf("%s %s", classify(err), hx(b))
		default:
			ms, err := wsutil.ReadMessage(src, ws.StateClientSide, nil)
			last := []byte{}
			if len(ms) > 0 {
				last = ms[len(ms)-1].Payload
			}
			return fmt.Sprintf("%s %s", classify(err), hx(last))
		}
	}
}
