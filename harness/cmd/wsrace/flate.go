package main

import (
	"compress/flate"
	"io"

	"github.com/gobwas/ws/wsflate"
)

func newFlate(w io.Writer) wsflate.Compressor {
	f, _ := flate.NewWriter(w, 6)
	return f
}

func newInflate(r io.Reader) wsflate.Decompressor { return flate.NewReader(r) }
