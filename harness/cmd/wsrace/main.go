// wsrace: C19. N sessions, each on its own goroutine and its own in-memory connection, drive the real
// gobwas/ws code through handshakes (zero-copy Upgrader, HTTPUpgrader via the package defaults, Dialer
// from ONE shared Dialer value), message exchange in both directions (pooled frame writers, the byte pool,
// control-frame handling, precompiled frames) and compression (wsflate, DefaultHelper).
// Built with -race. Every session is deterministic given (seed, index); it is first run ALONE, then all
// sessions run together; the two transcripts of each session must be identical ("same"), and every
// session checks what it got against what it asked for ("self"). Values returned by the library are kept
// until the end of the session and re-read then, so a pooled buffer recycled under a live value shows.
//
// usage: wsrace <N> <procs> <seed> <mix> <rounds>
//
//	mix: letters cycled over the N sessions: U upgrader, H http upgrader, D dialer, M messages, Z compression,
//	     K control-frame storm, P writers through the shared writer pool
//
// stdout: same=<0|1> self=<0|1> diff=<index:kind:field|-> sessions=<N> ops=<total>
// The race detector reports on stderr (GORACE=halt_on_error=0 exitcode=0 is set by the caller).
package main

import (
	"bufio"
	"bytes"
	"crypto/sha1"
	"encoding/base64"
	"fmt"
	"io"
	"net"
	"net/http"
	"net/url"
	"os"
	"runtime"
	"strconv"
	"strings"
	"sync"
	"time"

	"github.com/gobwas/httphead"
	"github.com/gobwas/ws"
	"github.com/gobwas/ws/wsflate"
	"github.com/gobwas/ws/wsutil"
)

type rng struct{ s uint64 }

func (r *rng) next() uint64 {
	r.s += 0x9e3779b97f4a7c15
	z := r.s
	z = (z ^ (z >> 30)) * 0xbf58476d1ce4e5b9
	z = (z ^ (z >> 27)) * 0x94d049bb133111eb
	return z ^ (z >> 31)
}
func (r *rng) intn(n int) int { return int(r.next() % uint64(n)) }
func (r *rng) bytes(n int) []byte {
	p := make([]byte, n)
	for i := range p {
		p[i] = byte(r.next())
	}
	return p
}

type rw struct {
	io.Reader
	io.Writer
}

// a subprotocol selector over a long accept list, built ONCE by the application (per server start: anew before the
// sessions are run alone and before every concurrent round) and shared by every connection's upgrader
var sharedSelect func(string) bool

func newSharedSelect() func(string) bool {
	var accept []string
	for i := 0; i < 40; i++ {
		accept = append(accept, fmt.Sprintf("big.proto.%02d", i))
	}
	return ws.SelectFromSlice(accept)
}

// one message (above the byte pool's largest class) that every client session sends from the SAME read-only slice
var sharedBig = func() []byte {
	b := make([]byte, 65537+300)
	for i := range b {
		b[i] = byte(i*7 + i>>8)
	}
	return b
}()

// sharedUpgrade: the first thing an upgrading session does - a handshake through the shared selector
func (s *session) sharedUpgrade(r *rng) {
	s.ops++
	want := fmt.Sprintf("big.proto.%02d", 17+s.idx%20)
	req := fmt.Sprintf("GET /shared HTTP/1.1\r\nHost: h\r\nUpgrade: websocket\r\nConnection: Upgrade\r\nSec-WebSocket-Version: 13\r\n"+
		"Sec-WebSocket-Key: %s\r\nSec-WebSocket-Protocol: nope.%d, %s, big.proto.01\r\n\r\n", base64.StdEncoding.EncodeToString(r.bytes(16)), s.idx, want)
	var out bytes.Buffer
	hs, err := ws.Upgrader{Protocol: func(p []byte) bool { return sharedSelect(string(p)) }}.Upgrade(rw{strings.NewReader(req), &out})
	if err != nil || hs.Protocol != want {
		s.fail("shared selector: protocol %q (want %q) err %v", hs.Protocol, want, err)
	}
	s.rec("shared-upgrade proto=%s err=%v", hs.Protocol, err)
}

// sharedSend: the same read-only slice written by every client session: a Write larger than the (empty) buffer
func (s *session) sharedSend() {
	s.ops++
	var wire bytes.Buffer
	w := wsutil.NewWriterSize(&wire, ws.StateClientSide, ws.OpBinary, 512)
	_, err := w.Write(sharedBig)
	if err == nil {
		err = w.Flush()
	}
	s.rec("shared-send err=%v payload=%s", err, unmaskFrames(wire.Bytes()))
}

// the ONE dialer value every client session uses (by value, like ws.DefaultDialer)
var sharedDialer = ws.Dialer{
	Protocols: []string{"chat", "superchat", "v2.proto"},
	Extensions: []httphead.Option{
		httphead.NewOption("permessage-deflate", map[string]string{"client_max_window_bits": "", "server_max_window_bits": "15"}),
		httphead.NewOption("x-shared", map[string]string{"token": "configured-by-the-application"}),
	},
}

func optsStr(os []httphead.Option) string {
	var b strings.Builder
	for _, o := range os {
		b.WriteString(string(o.Name))
		b.WriteByte('{')
		var kv []string
		o.Parameters.ForEach(func(k, v []byte) bool { kv = append(kv, string(k)+"="+string(v)); return true })
		// parameter order is a map order inside httphead: canonicalise
		for i := range kv {
			for j := i + 1; j < len(kv); j++ {
				if kv[j] < kv[i] {
					kv[i], kv[j] = kv[j], kv[i]
				}
			}
		}
		b.WriteString(strings.Join(kv, ";"))
		b.WriteString("} ")
	}
	return b.String()
}

func accept(key string) string {
	s := sha1.Sum([]byte(key + "258EAFA5-E914-47DA-95CA-C5AB0DC85B11"))
	return base64.StdEncoding.EncodeToString(s[:])
}

func headerValue(head []byte, name string) string {
	for _, l := range strings.Split(string(head), "\r\n") {
		if strings.HasPrefix(strings.ToLower(l), strings.ToLower(name)+":") {
			return strings.TrimSpace(l[len(name)+1:])
		}
	}
	return ""
}

// unmaskFrames: header fields and plain payload digest of every frame in wire (masks are random).
func unmaskFrames(wire []byte) string {
	var b strings.Builder
	r := bytes.NewReader(wire)
	for r.Len() > 0 {
		f, err := ws.ReadFrame(r)
		if err != nil {
			fmt.Fprintf(&b, "[bad:%v]", err)
			break
		}
		if f.Header.Masked {
			ws.Cipher(f.Payload, f.Header.Mask, 0)
		}
		fmt.Fprintf(&b, "[%v %d %d %v %d %s]", f.Header.Fin, f.Header.Rsv, f.Header.OpCode, f.Header.Masked, f.Header.Length, dig(f.Payload))
	}
	return b.String()
}

func dig(p []byte) string {
	if len(p) <= 24 {
		return fmt.Sprintf("%x", p)
	}
	s := sha1.Sum(p)
	return fmt.Sprintf("%d:%x", len(p), s[:8])
}

type session struct {
	idx  int
	kind byte
	seed uint64
	log  []string // transcript
	bad  []string // self-check failures
	ops  int
}

func (s *session) rec(format string, a ...interface{}) {
	s.log = append(s.log, fmt.Sprintf(format, a...))
}
func (s *session) fail(format string, a ...interface{}) {
	s.bad = append(s.bad, fmt.Sprintf(format, a...))
}

var sizes = []int{0, 1, 5, 125, 126, 127, 500, 4096, 65535, 65536, 70000}

func (s *session) run(steps int) {
	r := &rng{s: s.seed}
	switch s.kind {
	case 'U':
		s.upgrader(r, steps)
	case 'H':
		s.httpUpgrader(r, steps)
	case 'D':
		s.dialer(r, steps)
	case 'M':
		s.messages(r, steps)
	case 'Z':
		s.compressed(r, steps)
	case 'K':
		s.controls(r, steps*4)
	case 'P':
		s.pooled(r, steps*2)
	}
}

// pooled: frame writers that really go through the shared writer pool (a writer whose Size() is one of the
// pool's classes is kept by PutWriter): one step leaves a writer with flushing disabled and an extension
// attached in the pool, the next takes a writer of that class and sends a long message in small pieces.
// What is compared is the message level (what a reader with a frame-size limit gets), not the framing,
// because a recycled writer may legitimately have a slightly different buffer than a new one.
func (s *session) pooled(r *rng, steps int) {
	for k := 0; k < steps; k++ {
		s.ops++
		if k%2 == 0 {
			var sink bytes.Buffer
			w := wsutil.NewWriterSize(&sink, ws.StateServerSide, ws.OpBinary, 4096)
			w.DisableFlush()
			var ms wsflate.MessageState
			ms.SetCompressed(true)
			w.SetExtensions(&ms)
			w.Write(r.bytes(100 + r.intn(2000)))
			w.Flush()
			wsutil.PutWriter(w)
			s.rec("P%d put", k)
			runtime.Gosched()
			continue
		}
		var wire bytes.Buffer
		client := (s.idx+k)%4 == 1
		st := ws.StateServerSide
		if client {
			st = ws.StateClientSide
		}
		w := wsutil.GetWriter(&wire, st, ws.OpBinary, 4096)
		msg := r.bytes(20000 + r.intn(3000))
		var err error
		for off := 0; off < len(msg) && err == nil; off += 1000 {
			end := off + 1000
			if end > len(msg) {
				end = len(msg)
			}
			_, err = w.Write(msg[off:end])
			runtime.Gosched()
		}
		if err == nil {
			err = w.Flush()
		}
		wsutil.PutWriter(w)
		rst := ws.StateClientSide
		if client {
			rst = ws.StateServerSide
		}
		rd := &wsutil.Reader{Source: &wire, State: rst, MaxFrameSize: 4200}
		h, rerr := rd.NextFrame()
		var back []byte
		if rerr == nil {
			back, rerr = io.ReadAll(rd)
		}
		s.rec("P%d client=%v werr=%v rsv=%d rerr=%v back=%s", k, client, err, h.Rsv, rerr, dig(back))
		if err != nil || rerr != nil || !bytes.Equal(back, msg) || h.Rsv != 0 {
			s.fail("P%d: pooled writer: write err %v, read err %v, rsv %d, got %s want %s", k, err, rerr, h.Rsv, dig(back), dig(msg))
		}
	}
}

// controls: a storm of control frames of every length through the control handler (which takes its reply
// buffers from the byte pool): pings must be answered with the identical payload, closes with the same
// code, invalid closes (which take the protocol-error path) with 1002.
func (s *session) controls(r *rng, steps int) {
	for k := 0; k < steps; k++ {
		s.ops++
		server := (s.idx+k)%2 == 0
		var in, out bytes.Buffer
		wr := func(f ws.Frame) {
			if server {
				f = ws.MaskFrame(f)
			}
			ws.WriteFrame(&in, f)
		}
		var want string
		n := r.intn(126)
		switch k % 4 {
		case 0, 1:
			p := bytes.Repeat([]byte{byte('A' + (s.idx+k)%26)}, n)
			wr(ws.NewPingFrame(p))
			want = fmt.Sprintf("[true 0 10 %v %d %s]", !server, n, dig(p))
		case 2:
			if n < 2 {
				n = 2
			}
			body := ws.NewCloseFrameBody(ws.StatusNormalClosure, strings.Repeat("r", n-2))
			wr(ws.NewCloseFrame(body))
			want = fmt.Sprintf("[true 0 8 %v 2 03e8]", !server)
		default:
			if n < 2 {
				n = 2
			}
			body := append([]byte{0x03, 0xed}, bytes.Repeat([]byte{byte('a' + (s.idx+k)%26)}, n-2)...) // 1005: not to be sent
			wr(ws.NewCloseFrame(body))
			want = "close-1002"
		}
		// a data frame behind it so that ReadData has something to return after a ping
		wr(ws.NewTextFrame([]byte("x")))
		runtime.Gosched()
		var err error
		if server {
			_, _, err = wsutil.ReadClientData(rw{&in, &out})
		} else {
			_, _, err = wsutil.ReadServerData(rw{&in, &out})
		}
		got := unmaskFrames(out.Bytes())
		s.rec("K%d server=%v n=%d err=%v reply=%s", k, server, n, err, got)
		if want == "close-1002" {
			f, ferr := ws.ReadFrame(bytes.NewReader(out.Bytes()))
			if ferr == nil && f.Header.Masked {
				ws.Cipher(f.Payload, f.Header.Mask, 0)
			}
			if ferr != nil || f.Header.OpCode != ws.OpClose || len(f.Payload) < 2 || f.Payload[0] != 0x03 || f.Payload[1] != 0xea || f.Header.Masked == server {
				s.fail("K%d: invalid close answered with %s", k, got)
			}
		} else if got != want {
			s.fail("K%d: reply %s, want %s", k, got, want)
		}
		runtime.Gosched()
	}
}

type keptHS struct {
	hs          ws.Handshake
	wantProto   string
	wantExtSnap string
}

func (s *session) upgrader(r *rng, steps int) {
	var kept []keptHS
	s.sharedUpgrade(r)
	for k := 0; k < steps; k++ {
		s.ops++
		want := fmt.Sprintf("proto.s%03d.k%03d.%x", s.idx, k, r.next()&0xffff)
		bits := 8 + r.intn(8)
		req := fmt.Sprintf("GET /s%d/k%d HTTP/1.1\r\nHost: h%d.example\r\nUpgrade: websocket\r\nConnection: Upgrade\r\n"+
			"Sec-WebSocket-Version: 13\r\nSec-WebSocket-Key: %s\r\nSec-WebSocket-Protocol: other.%d, %s, last\r\n"+
			"Sec-WebSocket-Extensions: permessage-deflate; client_max_window_bits=%d, x-sess; id=s%dk%d\r\nX-Pad: %s\r\n\r\n",
			s.idx, k, s.idx, base64.StdEncoding.EncodeToString(r.bytes(16)), k, want, bits, s.idx, k, strings.Repeat("p", r.intn(200)))
		var out bytes.Buffer
		var hs ws.Handshake
		var err error
		viewCase := false
		switch k % 4 {
		case 3:
			// zero-copy ExtensionCustom (its options are views into the handshake's pooled read
			// buffer, "valid until Upgrade returns") and an OnBeforeUpgrade hook during which other
			// sessions get to run whole handshakes: the response must still carry this client's offer
			viewCase = true
			u := ws.Upgrader{Protocol: func(p []byte) bool { return string(p) == want },
				ExtensionCustom: func(v []byte, dst []httphead.Option) ([]httphead.Option, bool) {
					return httphead.OptionSelector{Flags: httphead.SelectUnique,
						Check: func(o httphead.Option) bool { return string(o.Name) == "x-sess" }}.Select(v, dst)
				},
				OnBeforeUpgrade: func() (ws.HandshakeHeader, error) {
					for i := 0; i < 4; i++ {
						runtime.Gosched()
						time.Sleep(20 * time.Microsecond)
					}
					return nil, nil
				}}
			hs, err = u.Upgrade(rw{strings.NewReader(req), &out})
			hs.Extensions = nil // views: not to be read once Upgrade has returned
		case 0:
			e := wsflate.Extension{Parameters: wsflate.Parameters{ServerNoContextTakeover: k%2 == 0, ClientMaxWindowBits: wsflate.WindowBits(8 + (s.idx+k)%8)}}
			u := ws.Upgrader{Protocol: func(p []byte) bool { return string(p) == want }, Negotiate: e.Negotiate}
			hs, err = u.Upgrade(rw{strings.NewReader(req), &out})
		case 1:
			u := ws.Upgrader{Protocol: func(p []byte) bool { return string(p) == want },
				Extension: func(o httphead.Option) bool { return string(o.Name) == "x-sess" }, ReadBufferSize: 64 + 64*(k%4)}
			hs, err = u.Upgrade(rw{strings.NewReader(req), &out})
		default:
			hs, err = ws.Upgrade(rw{strings.NewReader(req), &out}) // DefaultUpgrader
			want = ""
		}
		resp := out.String()
		key := headerValue([]byte(req), "Sec-WebSocket-Key")
		s.rec("U%d err=%v proto=%q exts=%s acceptok=%v respproto=%q", k, err, hs.Protocol, optsStr(hs.Extensions),
			headerValue([]byte(resp), "Sec-WebSocket-Accept") == accept(key), headerValue([]byte(resp), "Sec-WebSocket-Protocol"))
		if err != nil {
			s.fail("U%d: upgrade failed: %v", k, err)
		}
		if viewCase {
			wantExt := fmt.Sprintf("x-sess;id=s%dk%d", s.idx, k)
			got := strings.ReplaceAll(headerValue([]byte(resp), "Sec-WebSocket-Extensions"), " ", "")
			s.rec("U%d respexts=%q", k, got)
			if got != wantExt {
				s.fail("U%d: client offered %q, the response answers %q", k, wantExt, got)
			}
			if p := headerValue([]byte(resp), "Sec-WebSocket-Protocol"); p != want {
				s.fail("U%d: response selects protocol %q, negotiated %q", k, p, want)
			}
		}
		kept = append(kept, keptHS{hs, want, optsStr(hs.Extensions)})
		runtime.Gosched()
	}
	for k, h := range kept {
		if h.hs.Protocol != h.wantProto {
			s.fail("U%d: kept handshake now says protocol %q, negotiated %q", k, h.hs.Protocol, h.wantProto)
		}
		if e := optsStr(h.hs.Extensions); e != h.wantExtSnap {
			s.fail("U%d: kept extensions changed: %s -> %s", k, h.wantExtSnap, e)
		}
		s.rec("U%d kept proto=%q exts=%s", k, h.hs.Protocol, optsStr(h.hs.Extensions))
	}
}

type hjConn struct {
	net.Conn
	buf bytes.Buffer
}

func (c *hjConn) Write(p []byte) (int, error)      { return c.buf.Write(p) }
func (c *hjConn) SetDeadline(time.Time) error      { return nil }
func (c *hjConn) SetWriteDeadline(time.Time) error { return nil }
func (c *hjConn) SetReadDeadline(time.Time) error  { return nil }
func (c *hjConn) Close() error                     { return nil }

type hjWriter struct {
	conn *hjConn
	h    http.Header
}

func (w *hjWriter) Header() http.Header         { return w.h }
func (w *hjWriter) Write(p []byte) (int, error) { return w.conn.buf.Write(p) }
func (w *hjWriter) WriteHeader(int)             {}
func (w *hjWriter) Hijack() (net.Conn, *bufio.ReadWriter, error) {
	return w.conn, bufio.NewReadWriter(bufio.NewReader(bytes.NewReader(nil)), bufio.NewWriter(&w.conn.buf)), nil
}

func (s *session) httpUpgrader(r *rng, steps int) {
	var kept []keptHS
	s.sharedUpgrade(r)
	for k := 0; k < steps; k++ {
		s.ops++
		want := fmt.Sprintf("hp.s%03d.k%03d", s.idx, k)
		key := base64.StdEncoding.EncodeToString(r.bytes(16))
		req := fmt.Sprintf("GET /h%d HTTP/1.1\r\nHost: h\r\nUpgrade: websocket\r\nConnection: Upgrade\r\nSec-WebSocket-Version: 13\r\n"+
			"Sec-WebSocket-Key: %s\r\nSec-WebSocket-Protocol: a, %s\r\nSec-WebSocket-Extensions: x-sess; id=s%dk%d\r\n\r\n", k, key, want, s.idx, k)
		hr, err := http.ReadRequest(bufio.NewReader(strings.NewReader(req)))
		if err != nil {
			s.fail("H%d: net/http: %v", k, err)
			continue
		}
		w := &hjWriter{conn: &hjConn{}, h: http.Header{}}
		var hs ws.Handshake
		if k%2 == 0 {
			_, _, hs, err = ws.UpgradeHTTP(hr, w) // DefaultHTTPUpgrader
			want = ""
		} else {
			u := ws.HTTPUpgrader{Protocol: func(p string) bool { return p == want }, Extension: func(o httphead.Option) bool { return true }}
			_, _, hs, err = u.Upgrade(hr, w)
		}
		resp := w.conn.buf.String()
		s.rec("H%d err=%v proto=%q exts=%s acceptok=%v", k, err, hs.Protocol, optsStr(hs.Extensions), headerValue([]byte(resp), "Sec-WebSocket-Accept") == accept(key))
		if err != nil {
			s.fail("H%d: %v", k, err)
		}
		kept = append(kept, keptHS{hs, want, optsStr(hs.Extensions)})
		runtime.Gosched()
	}
	for k, h := range kept {
		if h.hs.Protocol != h.wantProto || optsStr(h.hs.Extensions) != h.wantExtSnap {
			s.fail("H%d: kept handshake changed", k)
		}
		s.rec("H%d kept proto=%q exts=%s", k, h.hs.Protocol, optsStr(h.hs.Extensions))
	}
}

// dialConn answers the dialer's request with a 101 built from it.
type dialConn struct {
	w     bytes.Buffer
	mk    func(req []byte) []byte
	rd    io.Reader
	chunk int
}

func (c *dialConn) Write(p []byte) (int, error) { return c.w.Write(p) }
func (c *dialConn) Read(p []byte) (int, error) {
	if c.rd == nil {
		c.rd = bytes.NewReader(c.mk(c.w.Bytes()))
	}
	if c.chunk > 0 && len(p) > c.chunk {
		p = p[:c.chunk]
	}
	return c.rd.Read(p)
}

func (s *session) dialer(r *rng, steps int) {
	var kept []keptHS
	offer := optsStr(sharedDialer.Extensions)
	for k := 0; k < steps; k++ {
		s.ops++
		proto := sharedDialer.Protocols[(s.idx+k)%3]
		ansBits := 8 + (s.idx*7+k)%8
		tok := fmt.Sprintf("answer-s%d-k%d-%s", s.idx, k, strings.Repeat("t", r.intn(12)))
		var sentExt string
		tail := r.bytes(r.intn(40))
		c := &dialConn{chunk: []int{0, 7, 64}[k%3]}
		c.mk = func(req []byte) []byte {
			sentExt = headerValue(req, "Sec-WebSocket-Extensions")
			return append([]byte(fmt.Sprintf("HTTP/1.1 101 Switching Protocols\r\nUpgrade: websocket\r\nConnection: Upgrade\r\nSec-WebSocket-Accept: %s\r\n"+
				"Sec-WebSocket-Protocol: %s\r\nSec-WebSocket-Extensions: permessage-deflate; client_max_window_bits=%d; server_max_window_bits=%d, x-shared; token=%s\r\nX-Pad: %s\r\n\r\n",
				accept(headerValue(req, "Sec-WebSocket-Key")), proto, ansBits, 8+k%8, tok, strings.Repeat("z", r.intn(150)))), tail...)
		}
		d := sharedDialer // by value, as ws.Dial does with DefaultDialer
		u, _ := url.Parse(fmt.Sprintf("ws://h%d.example/s%d/k%d", s.idx, s.idx, k))
		br, hs, err := d.Upgrade(c, u)
		var rest []byte
		if err == nil {
			if br != nil {
				rest, _ = io.ReadAll(br)
				ws.PutReader(br)
			} else {
				rest, _ = io.ReadAll(c)
			}
		}
		wantExt := fmt.Sprintf("permessage-deflate{client_max_window_bits=%d;server_max_window_bits=%d} x-shared{token=%s} ", ansBits, 8+k%8, tok)
		s.rec("D%d err=%v proto=%q exts=%s rest=%s sentoffer=%q", k, err, hs.Protocol, optsStr(hs.Extensions), dig(rest), sentExt)
		if err != nil {
			s.fail("D%d: %v", k, err)
		}
		if !bytes.Equal(rest, tail) {
			s.fail("D%d: post-handshake bytes differ", k)
		}
		if !strings.Contains(sentExt, "token=configured-by-the-application") || !strings.Contains(sentExt, "server_max_window_bits=15") {
			s.fail("D%d: the request does not carry the configured offer: %q", k, sentExt)
		}
		kept = append(kept, keptHS{hs, proto, wantExt})
		runtime.Gosched()
	}
	for k, h := range kept {
		if h.hs.Protocol != h.wantProto {
			s.fail("D%d: kept protocol %q, server sent %q", k, h.hs.Protocol, h.wantProto)
		}
		if e := optsStr(h.hs.Extensions); e != h.wantExtSnap {
			s.fail("D%d: kept extensions %s, server sent %s", k, e, h.wantExtSnap)
		}
		s.rec("D%d kept proto=%q exts=%s", k, h.hs.Protocol, optsStr(h.hs.Extensions))
	}
	if o := optsStr(sharedDialer.Extensions); o != offer {
		s.fail("D: the shared dialer's configured extensions changed: %s -> %s", offer, o)
	}
}

func (s *session) messages(r *rng, steps int) {
	type keptMsg struct {
		got  []byte
		want string
	}
	var kept []keptMsg
	s.sharedSend()
	for k := 0; k < steps; k++ {
		s.ops++
		n := sizes[r.intn(len(sizes))]
		payload := r.bytes(n)
		orig := append([]byte(nil), payload...)
		clientToServer := (s.idx+k)%2 == 0
		var wire bytes.Buffer
		// a ping first, so that the reading side has a control frame to answer
		ping := r.bytes(r.intn(20))
		var err error
		if clientToServer {
			f := ws.MaskFrame(ws.NewPingFrame(ping))
			ws.WriteFrame(&wire, f)
			switch k % 3 {
			case 0:
				err = wsutil.WriteClientMessage(&wire, ws.OpBinary, payload)
			case 1:
				w := wsutil.GetWriter(&wire, ws.StateClientSide, ws.OpBinary, 256<<(k%4))
				_, err = w.Write(payload)
				if err == nil {
					err = w.Flush()
				}
				wsutil.PutWriter(w)
			default:
				w := wsutil.NewWriter(&wire, ws.StateClientSide, ws.OpBinary)
				_, err = w.Write(payload)
				if err == nil {
					err = w.Flush()
				}
			}
		} else {
			ws.WriteFrame(&wire, ws.NewPingFrame(ping))
			wire.Write(ws.CompiledPong) // a precompiled frame on the wire
			switch k % 2 {
			case 0:
				err = wsutil.WriteServerMessage(&wire, ws.OpBinary, payload)
			default:
				w := wsutil.GetWriter(&wire, ws.StateServerSide, ws.OpBinary, 128<<(k%5))
				_, err = w.Write(payload)
				if err == nil {
					err = w.Flush()
				}
				wsutil.PutWriter(w)
			}
		}
		if err != nil {
			s.fail("M%d: write: %v", k, err)
		}
		if !bytes.Equal(payload, orig) {
			s.fail("M%d: the caller's payload was modified", k)
		}
		sent := unmaskFrames(wire.Bytes())
		runtime.Gosched()
		var replies bytes.Buffer
		var got []byte
		var op ws.OpCode
		if clientToServer {
			got, op, err = wsutil.ReadClientData(rw{&wire, &replies})
		} else {
			got, op, err = wsutil.ReadServerData(rw{&wire, &replies})
		}
		s.rec("M%d c2s=%v n=%d sent=%s got=%s op=%d err=%v replies=%s", k, clientToServer, n, sent, dig(got), op, err, unmaskFrames(replies.Bytes()))
		if err != nil || !bytes.Equal(got, orig) {
			s.fail("M%d: read back %s (err %v), wrote %s", k, dig(got), err, dig(orig))
		}
		kept = append(kept, keptMsg{got, dig(orig)})
		// another connection whose peer sends a text that ends inside a character (refused), then a further
		// connection with a valid text: what one peer did is not held against the next
		if k%3 == 1 {
			var bad, good, rep bytes.Buffer
			ws.WriteFrame(&bad, ws.MaskFrame(ws.NewTextFrame([]byte{'o', 'k', 0xc3})))
			_, _, e1 := wsutil.ReadClientData(rw{&bad, &rep})
			txt := []byte(fmt.Sprintf("h\u00e9llo-s%d-k%d", s.idx, k))
			ws.WriteFrame(&good, ws.MaskFrame(ws.NewTextFrame(txt)))
			g, _, e2 := wsutil.ReadClientData(rw{&good, &rep})
			s.rec("M%d badpeer=%v goodpeer=%s err=%v", k, e1, dig(g), e2)
			if e1 != wsutil.ErrInvalidUTF8 {
				s.fail("M%d: text ending inside a character: %v", k, e1)
			}
			if e2 != nil || !bytes.Equal(g, txt) {
				s.fail("M%d: a valid text from another peer: got %s, err %v", k, dig(g), e2)
			}
		}
		// a close exchange every few messages: the reason is kept, too
		if k%4 == 3 {
			var cw, cr bytes.Buffer
			reason := fmt.Sprintf("bye-s%d-k%d", s.idx, k)
			ws.WriteFrame(&cw, ws.MaskFrame(ws.NewCloseFrame(ws.NewCloseFrameBody(ws.StatusNormalClosure, reason))))
			_, _, err := wsutil.ReadClientData(rw{&cw, &cr})
			ce, _ := err.(wsutil.ClosedError)
			s.rec("M%d close code=%d reason=%q reply=%s", k, ce.Code, ce.Reason, unmaskFrames(cr.Bytes()))
			if ce.Reason != reason {
				s.fail("M%d: close reason %q, sent %q", k, ce.Reason, reason)
			}
		}
		runtime.Gosched()
	}
	for k, m := range kept {
		if dig(m.got) != m.want {
			s.fail("M%d: a payload returned earlier changed", k)
		}
		s.rec("M%d kept %s", k, dig(m.got))
	}
}

func (s *session) compressed(r *rng, steps int) {
	for k := 0; k < steps; k++ {
		s.ops++
		n := sizes[r.intn(len(sizes)-2)]
		unit := []byte(fmt.Sprintf("s%dk%d-", s.idx, k))
		payload := bytes.Repeat(unit, n/len(unit)+1)[:n]
		if k%3 == 0 {
			payload = r.bytes(n)
		}
		f := ws.NewBinaryFrame(append([]byte(nil), payload...))
		cf, err := wsflate.CompressFrame(f) // DefaultHelper
		if err != nil {
			s.fail("Z%d: compress: %v", k, err)
			continue
		}
		runtime.Gosched()
		// through the writer/reader stack as well
		var wire bytes.Buffer
		var ms wsflate.MessageState
		ms.SetCompressed(true)
		w := wsutil.NewWriter(&wire, ws.StateClientSide|ws.StateExtended, ws.OpBinary)
		w.SetExtensions(&ms)
		fw := wsflate.NewWriter(w, func(w io.Writer) wsflate.Compressor { return newFlate(w) })
		fw.Write(payload)
		fw.Close()
		w.Flush()
		df, err := wsflate.DecompressFrame(cf)
		if err != nil || !bytes.Equal(df.Payload, payload) {
			s.fail("Z%d: frame round trip: err %v, got %s want %s", k, err, dig(df.Payload), dig(payload))
		}
		var rms wsflate.MessageState
		rd := &wsutil.Reader{Source: &wire, State: ws.StateServerSide | ws.StateExtended, Extensions: []wsutil.RecvExtension{&rms}}
		_, err = rd.NextFrame()
		var back []byte
		if err == nil {
			fr := wsflate.NewReader(rd, func(r io.Reader) wsflate.Decompressor { return newInflate(r) })
			back, err = io.ReadAll(fr)
		}
		if err != nil || !bytes.Equal(back, payload) || !rms.IsCompressed() {
			s.fail("Z%d: stack round trip: err %v compressed=%v got %s want %s", k, err, rms.IsCompressed(), dig(back), dig(payload))
		}
		s.rec("Z%d n=%d clen=%d rsv=%d back=%s", k, n, len(cf.Payload), cf.Header.Rsv, dig(back))
		runtime.Gosched()
	}
}

func main() {
	if len(os.Args) < 6 {
		fmt.Fprintln(os.Stderr, "usage: wsrace <N> <procs> <seed> <mix> <rounds>")
		os.Exit(2)
	}
	n, _ := strconv.Atoi(os.Args[1])
	procs, _ := strconv.Atoi(os.Args[2])
	seed, _ := strconv.ParseUint(os.Args[3], 10, 64)
	mix := os.Args[4]
	rounds, _ := strconv.Atoi(os.Args[5])
	steps := 6
	if v := os.Getenv("WSRACE_STEPS"); v != "" {
		steps, _ = strconv.Atoi(v)
	}
	runtime.GOMAXPROCS(procs)
	mk := func(i int) *session {
		return &session{idx: i, kind: mix[i%len(mix)], seed: seed*1000003 + uint64(i)*7919}
	}
	// alone
	sharedSelect = newSharedSelect()
	solo := make([]*session, n)
	for i := 0; i < n; i++ {
		solo[i] = mk(i)
		solo[i].run(steps)
	}
	same, self, diff, ops := 1, 1, "-", 0
	note := func(d string) {
		if diff == "-" {
			diff = strings.ReplaceAll(d, " ", "_")
		}
	}
	for i, s := range solo {
		if len(s.bad) > 0 {
			self = 0
			note(fmt.Sprintf("%d:%c:alone:%s", i, s.kind, s.bad[0]))
		}
	}
	for round := 0; round < rounds; round++ {
		sharedSelect = newSharedSelect()
		conc := make([]*session, n)
		var wg sync.WaitGroup
		start := make(chan struct{})
		for i := 0; i < n; i++ {
			conc[i] = mk(i)
			wg.Add(1)
			go func(s *session) {
				defer wg.Done()
				<-start
				s.run(steps)
			}(conc[i])
		}
		close(start)
		wg.Wait()
		for i, s := range conc {
			ops += s.ops
			if len(s.bad) > 0 {
				self = 0
				note(fmt.Sprintf("%d:%c:%s", i, s.kind, s.bad[0]))
			}
			if len(s.log) != len(solo[i].log) {
				same = 0
				note(fmt.Sprintf("%d:%c:transcript-length", i, s.kind))
				continue
			}
			for j := range s.log {
				if s.log[j] != solo[i].log[j] {
					same = 0
					note(fmt.Sprintf("%d:%c:alone<%s>together<%s>", i, s.kind, clip(solo[i].log[j]), clip(s.log[j])))
					break
				}
			}
		}
	}
	fmt.Printf("same=%d self=%d diff=%s sessions=%d ops=%d\n", same, self, diff, n, ops)
}

func clip(s string) string {
	if len(s) > 160 {
		return s[:160] + "..."
	}
	return s
}
