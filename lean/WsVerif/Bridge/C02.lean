/- Bridge C02: cipher.go's `remain` table, regenerated from source, is the model's `remain`
   and aligns the word loop on a key boundary. -/
import WsVerif.Gen.Consts
import WsVerif.Model.Cipher
namespace Ws.Bridge.C02

theorem remain_table : Gen.ws_remain = [Ws.remain 0, Ws.remain 1, Ws.remain 2, Ws.remain 3] := by decide

theorem remain_aligns : (List.range 4).all (fun m => (m + Gen.ws_remain.getD m 0) % 4 == 0) = true := by decide

end Ws.Bridge.C02
