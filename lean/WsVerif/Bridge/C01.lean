/-
  Bridge C01: the definitions regenerated from /repo's source (Gen.*) agree with the hand-written
  model the C01 theorems are stated about. Re-checked on every run.
-/
import WsVerif.Gen.Funcs
import WsVerif.Model.Header
namespace Ws.Bridge.C01
open Ws

def toGen (h : Ws.Header) : Gen.Header :=
  ⟨h.fin, h.rsv, h.op, h.masked, h.mask.toList, (h.len : Int)⟩

/-- write.go constants are the ones the model uses. -/
theorem consts_ok :
    Gen.ws_len7 = (Ws.len7 : Int) ∧ Gen.ws_len16 = (Ws.len16 : Int) ∧ Gen.ws_len64 = (Ws.len64 : Int)
      ∧ Gen.ws_bit0 = Ws.bit0 ∧ Gen.ws_MaxHeaderSize = 14 ∧ Gen.ws_MinHeaderSize = 2
      ∧ Gen.wsutil_len7 = 125 ∧ Gen.wsutil_len16 = 65535 ∧ Gen.wsutil_len64 = 2 ^ 63 - 1 := by
  decide

/-- The translated ws.HeaderSize is the model's headerSize on every header. -/
theorem headerSize_bridge (h : Ws.Header) : Gen.ws_HeaderSize (toGen h) = Ws.headerSize h := by
  unfold Gen.ws_HeaderSize Ws.headerSize toGen Gen.ws_len16 Gen.ws_len64 Ws.len16 Ws.len64
  simp only
  by_cases h1 : h.len < 126
  · have : ((h.len : Int) < 126) := by omega
    cases hm : h.masked <;> simp [h1, this]
  · have : ¬ ((h.len : Int) < 126) := by omega
    by_cases h2 : h.len ≤ 65535
    · have : ((h.len : Int) ≤ 65535) := by omega
      cases hm : h.masked <;> simp [*]
    · have h2' : ¬ ((h.len : Int) ≤ 65535) := by omega
      by_cases h3 : h.len ≤ 2 ^ 63 - 1
      · have : ((h.len : Int) ≤ 9223372036854775807) := by omega
        cases hm : h.masked <;> simp [*]
      · have : ¬ ((h.len : Int) ≤ 9223372036854775807) := by omega
        cases hm : h.masked <;> simp [*]

end Ws.Bridge.C01
