/-
  Bridge C18: what each Reset assigns, and the fields each resettable type has, as the source has
  them NOW. Every field of a resettable struct is either assigned by its Reset or is configuration
  (constructor function, raw buffer) - a new field that Reset forgets changes these lists.
-/
import WsVerif.Props.C18
import WsVerif.Gen.Facts
namespace Ws.Bridge.C18

theorem wsutil_resets :
    Gen.facts_wsutil_resets =
      ["CipherReader_Reset: r = r; mask = mask; pos = 0",
       "CipherWriter_Reset: w = w; mask = mask; pos = 0",
       "Reader_reset: raw = limitedReader{}; frame = nil; utf8 = UTF8Reader{}; opCode = 0",
       "Reader_resetFragment: raw = limitedReader{}; frame = nil; utf8.Source = nil",
       "UTF8Reader_Reset: Source = r; state = 0; codep = 0; accepted = 0",
       "Writer_Reset: dest = dest; state = state; op = op; call initBuf(); n = 0; dirty = false; fseq = 0; err = nil; extensions = w.extensions[:0]; noFlush = false",
       "Writer_ResetOp: op = op; n = 0; dirty = false; fseq = 0"] := by decide +kernel

theorem wsflate_resets :
    Gen.facts_wsflate_resets =
      ["Extension_Reset: accepted = false; params = Parameters{}",
       "Reader_Reset: err = nil; src = src; call sr.reset(src); d = r.ctor(r.sr.iface())",
       "Writer_Reset: err = nil; call cbuf.reset(dest); c = w.ctor(&w.cbuf)",
       "cbuf_reset: n = 0; err = nil; buf = [4]byte{0, 0, 0, 0}; dst = dst",
       "suffixedReader_reset: r = src; pos = 0"] := by decide +kernel

/-- Fields of the resettable types of wsutil. -/
theorem wsutil_structs :
    Gen.facts_wsutil_structs.filter (fun s => s.startsWith "Writer:" || s.startsWith "UTF8Reader:" || s.startsWith "CipherReader:" || s.startsWith "CipherWriter:" || s.startsWith "Reader:") =
      ["CipherReader: r io.Reader; mask [4]byte; pos int",
       "CipherWriter: w io.Writer; mask [4]byte; pos int",
       "Reader: Source io.Reader; State ws.State; SkipHeaderCheck bool; CheckUTF8 bool; Extensions []RecvExtension; MaxFrameSize int64; OnContinuation FrameHandlerFunc; OnIntermediate FrameHandlerFunc; opCode ws.OpCode; frame io.Reader; raw limitedReader; utf8 UTF8Reader; tmp [ws.MaxHeaderSize - 2]byte; cr *CipherReader",
       "UTF8Reader: Source io.Reader; accepted int; state uint32; codep uint32",
       "Writer: dest io.Writer; op ws.OpCode; state ws.State; extensions []SendExtension; noFlush bool; raw []byte; buf []byte; n int; dirty bool; fseq int; err error"] := by decide +kernel

/-- Fields of the resettable types of wsflate. -/
theorem wsflate_structs :
    Gen.facts_wsflate_structs.filter (fun s => s.startsWith "Writer:" || s.startsWith "Reader:" || s.startsWith "cbuf:" || s.startsWith "suffixedReader:" || s.startsWith "Extension:") =
      ["Extension: Parameters Parameters; accepted bool; params Parameters",
       "Reader: src io.Reader; ctor func(io.Reader) Decompressor; d Decompressor; sr suffixedReader; err error",
       "Writer: dest io.Writer; ctor func(io.Writer) Compressor; c Compressor; cbuf cbuf; err error",
       "cbuf: buf [4]byte; n int; dst io.Writer; err error",
       "suffixedReader: r io.Reader; pos int; suffix [9]byte; rx struct{ io.Reader }"] := by decide +kernel

end Ws.Bridge.C18
