/- Bridge C13: wsflate.MessageState.SetBits / UnsetBits regenerated from source agree with the
   model's extRsv / unsetBits (the writer and reader models call those). -/
import WsVerif.Gen.Funcs
import WsVerif.Model.Helper
import WsVerif.Bridge.C03
namespace Ws.Bridge.C13
open Ws Ws.Bridge.C01

theorem rsv_tbl :
    ((List.range 8).all fun r =>
      (Gen.ws_RsvBits r == (r &&& 4 != 0, r &&& 2 != 0, r &&& 1 != 0))
      && (Gen.ws_Rsv false (r &&& 2 != 0) (r &&& 1 != 0) == r &&& 3)
      && (Gen.ws_Rsv true (r &&& 2 != 0) (r &&& 1 != 0) == (r &&& 3) ||| 4)) = true := by decide

theorem rsv_facts {r : Nat} (h : r < 8) :
    Gen.ws_RsvBits r = (r &&& 4 != 0, r &&& 2 != 0, r &&& 1 != 0)
    ∧ Gen.ws_Rsv false (r &&& 2 != 0) (r &&& 1 != 0) = r &&& 3
    ∧ Gen.ws_Rsv true (r &&& 2 != 0) (r &&& 1 != 0) = (r &&& 3) ||| 4 := by
  have := (List.all_eq_true.mp rsv_tbl) r (List.mem_range.mpr h)
  simp only [Bool.and_eq_true, beq_iff_eq] at this
  exact ⟨this.1.1, this.1.2, this.2⟩

/-- UnsetBits: translated source = model, on every header with a 3-bit RSV field. -/
theorem unsetBits_bridge (c : Bool) (h : Ws.Header) (hr : h.rsv < 8) :
    Gen.wsflate_MessageState_UnsetBits ⟨c⟩ (toGen h)
      = (toGen (unsetBits c h).1, (unsetBits c h).2.1.map ProtoErr.goName, ⟨(unsetBits c h).2.2⟩) := by
  obtain ⟨f1, f2, _⟩ := rsv_facts hr
  unfold Gen.wsflate_MessageState_UnsetBits unsetBits
  simp only [toGen, f1, Ws.Bridge.C03.isData_bridge, Gen.wsflate_MessageState_SetCompressed]
  have e0 : Gen.ws_OpContinuation = opContinuation := rfl
  rw [e0]
  by_cases hd : (opIsData h.op && h.op != opContinuation) = true
  · simp only [hd, if_true, f2]
    rfl
  · have hd' : (opIsData h.op && h.op != opContinuation) = false := by simpa using hd
    simp only [hd', Bool.false_eq_true, if_false]
    cases h4 : (h.rsv &&& 4 != 0) <;> simp [ProtoErr.goName]

/-- SetBits on the fresh header the writer builds (RSV = 0): RSV becomes the model's extRsv. -/
theorem setBits_bridge (c : Bool) (h : Ws.Header) (h0 : h.rsv = 0) :
    Gen.wsflate_MessageState_SetBits ⟨c⟩ (toGen h)
      = (toGen { h with rsv := extRsv (some c) h.op }, none) := by
  unfold Gen.wsflate_MessageState_SetBits extRsv
  have e0 : Gen.ws_OpContinuation = opContinuation := rfl
  simp only [toGen, h0, Ws.Bridge.C03.isData_bridge, e0, Gen.wsflate_MessageState_IsCompressed]
  have hb : Gen.ws_RsvBits 0 = (false, false, false) := by decide
  have hr : Gen.ws_Rsv true false false = 4 := by decide
  simp only [hb, Bool.false_eq_true, if_false]
  cases c <;> cases hd : opIsData h.op <;> cases hc : (h.op == opContinuation) <;>
    simp_all [bne, hr]

/-- SetBits in general (any incoming RSV < 8): translated source = model. -/
theorem setBits_bridge_gen (c : Bool) (h : Ws.Header) (hr : h.rsv < 8) :
    Gen.wsflate_MessageState_SetBits ⟨c⟩ (toGen h) = (toGen (setBits c h).1, (setBits c h).2.map ProtoErr.goName) := by
  obtain ⟨f1, _, f3⟩ := rsv_facts hr
  have e0 : Gen.ws_OpContinuation = opContinuation := rfl
  have e4 : ∀ r < 8, (r &&& 4 != 0) = false → (r &&& 3 ||| 4) = (r ||| 4) := by decide
  unfold Gen.wsflate_MessageState_SetBits setBits
  simp only [toGen, f1, Ws.Bridge.C03.isData_bridge, e0, Gen.wsflate_MessageState_IsCompressed, f3]
  cases h4 : (h.rsv &&& 4 != 0)
  · simp only [Bool.false_eq_true, if_false]
    cases hd : opIsData h.op <;> cases hc : (h.op == opContinuation) <;> cases c <;>
      simp [e4 h.rsv hr h4]
  · simp [ProtoErr.goName]

end Ws.Bridge.C13
