/-
  Bridge C03: the translations of check.go / frame.go regenerated from /repo's source agree with
  the model the C03 theorems are about. Re-checked on every run.
-/
import WsVerif.Gen.Funcs
import WsVerif.Model.Check
import WsVerif.Bridge.C01
namespace Ws.Bridge.C03
open Ws Ws.Bridge.C01

theorem consts_ok :
    Gen.ws_OpContinuation = opContinuation ∧ Gen.ws_OpText = opText ∧ Gen.ws_OpBinary = opBinary
      ∧ Gen.ws_OpClose = opClose ∧ Gen.ws_OpPing = opPing ∧ Gen.ws_OpPong = opPong
      ∧ Gen.ws_StateServerSide = stServer ∧ Gen.ws_StateClientSide = stClient
      ∧ Gen.ws_StateExtended = stExtended ∧ Gen.ws_StateFragmented = stFragmented
      ∧ Gen.ws_MaxControlFramePayloadSize = maxControlFramePayloadSize
      ∧ Gen.ws_StatusProtocolError = 1002 ∧ Gen.ws_StatusInvalidFramePayloadData = 1007
      ∧ Gen.ws_StatusNoStatusRcvd = 1005 := by decide

theorem isControl_bridge (c : Nat) : Gen.ws_OpCode_IsControl c = opIsControl c := rfl
theorem isData_bridge (c : Nat) : Gen.ws_OpCode_IsData c = opIsData c := rfl
theorem isReserved_bridge (c : Nat) : Gen.ws_OpCode_IsReserved c = opIsReserved c := rfl

theorem state_bridge (s v : Nat) :
    Gen.ws_State_Is s v = stIs s v ∧ Gen.ws_State_Set s v = stSet s v ∧ Gen.ws_State_Clear s v = stClear s v
      ∧ Gen.ws_State_ServerSide s = stIs s stServer ∧ Gen.ws_State_ClientSide s = stIs s stClient
      ∧ Gen.ws_State_Extended s = stIs s stExtended ∧ Gen.ws_State_Fragmented s = stIs s stFragmented :=
  ⟨rfl, rfl, rfl, rfl, rfl, rfl, rfl⟩

/-- The translated ws.CheckHeader is the model's cascade, error for error. -/
theorem checkHeader_bridge (h : Ws.Header) (s : Nat) :
    Gen.ws_CheckHeader (toGen h) s = (checkHeader h s).map ProtoErr.goName := by
  have hgt : decide ((h.len : Int) > 125) = decide (h.len > 125) := by
    by_cases hl : h.len > 125
    · have : (h.len : Int) > 125 := by omega
      simp [hl, this]
    · have : ¬ (h.len : Int) > 125 := by omega
      simp [hl, this]
  unfold Gen.ws_CheckHeader checkHeader toGen
  simp only [isReserved_bridge, isControl_bridge, (state_bridge s 0).2.2.2.1, (state_bridge s 0).2.2.2.2.1,
    (state_bridge s 0).2.2.2.2.2.1, (state_bridge s 0).2.2.2.2.2.2, hgt]
  have e0 : Gen.ws_OpContinuation = opContinuation := rfl
  rw [e0]
  generalize opIsReserved h.op = a1
  generalize opIsControl h.op = a2
  generalize decide (h.len > 125) = a3
  generalize (h.rsv != 0) = a4
  generalize stIs s stExtended = a5
  generalize stIs s stServer = a6
  generalize stIs s stClient = a7
  generalize stIs s stFragmented = a8
  have e9 : (h.op == opContinuation) = !(h.op != opContinuation) := by simp [bne]
  rw [e9]
  generalize (h.op != opContinuation) = a9
  cases a1 <;> cases a2 <;> cases a3 <;> cases h.fin <;> cases a4 <;> cases a5 <;> cases a6 <;>
    cases h.masked <;> cases a7 <;> cases a8 <;> cases a9 <;> first | rfl | simp [ProtoErr.goName]

theorem ite_bool (b : Bool) : (if b = true then true else false) = b := by cases b <;> rfl

theorem status_bridge (c : Nat) :
    Gen.ws_StatusCode_IsNotUsed c = codeIsNotUsed c ∧ Gen.ws_StatusCode_IsProtocolSpec c = codeIsProtocolSpec c
      ∧ Gen.ws_StatusCode_IsApplicationSpec c = codeIsApplicationSpec c
      ∧ Gen.ws_StatusCode_IsPrivateSpec c = codeIsPrivateSpec c
      ∧ Gen.ws_StatusCode_IsProtocolReserved c = codeIsProtocolReserved c
      ∧ Gen.ws_StatusCode_IsProtocolDefined c = codeIsProtocolDefined c := by
  refine ⟨rfl, rfl, rfl, rfl, ?_, ?_⟩
  · unfold Gen.ws_StatusCode_IsProtocolReserved codeIsProtocolReserved
    simp only [Gen.ws_StatusNoStatusRcvd, Gen.ws_StatusAbnormalClosure, Gen.ws_StatusTLSHandshake]
    exact ite_bool _
  · unfold Gen.ws_StatusCode_IsProtocolDefined codeIsProtocolDefined
    simp only [Gen.ws_StatusNormalClosure, Gen.ws_StatusGoingAway, Gen.ws_StatusProtocolError,
      Gen.ws_StatusUnsupportedData, Gen.ws_StatusInvalidFramePayloadData, Gen.ws_StatusPolicyViolation,
      Gen.ws_StatusMessageTooBig, Gen.ws_StatusMandatoryExt, Gen.ws_StatusInternalServerError,
      Gen.ws_StatusNoStatusRcvd, Gen.ws_StatusAbnormalClosure, Gen.ws_StatusTLSHandshake]
    exact ite_bool _

/-- The translated ws.CheckCloseFrameData is the model's, for whatever utf8.ValidString answers. -/
theorem checkClose_bridge (c : Nat) (reason : Bytes) :
    Gen.ws_CheckCloseFrameData c reason
      = (checkCloseWith (Gen.Ext.utf8_ValidString reason) c).map ProtoErr.goName := by
  obtain ⟨b1, b2, _, _, b5, b6⟩ := status_bridge c
  unfold Gen.ws_CheckCloseFrameData checkCloseWith
  rw [b1, b2, b5, b6]
  have e : Gen.ws_StatusNoMeaningYet = 1004 := rfl
  rw [e]
  generalize codeIsNotUsed c = a1
  generalize codeIsProtocolReserved c = a2
  generalize (c == 1004) = a3
  generalize codeIsProtocolSpec c = a4
  generalize codeIsProtocolDefined c = a5
  generalize Gen.Ext.utf8_ValidString reason = a6
  cases a1 <;> cases a2 <;> cases a3 <;> cases a4 <;> cases a5 <;> cases a6 <;> rfl

/-- frame.go:Rsv / RsvBits: bit 4 = RSV1, 2 = RSV2, 1 = RSV3. -/
theorem rsv_bridge :
    ([true, false].all fun a => [true, false].all fun b => [true, false].all fun c =>
      Gen.ws_Rsv a b c == (if a then 4 else 0) + (if b then 2 else 0) + (if c then 1 else 0)) = true
    ∧ ((List.range 8).all fun r => Gen.ws_RsvBits r == (r / 4 % 2 == 1, r / 2 % 2 == 1, r % 2 == 1)) = true := by
  decide

end Ws.Bridge.C03
