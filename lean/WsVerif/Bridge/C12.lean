/-
  Bridge C12: the tail constants and the decision structure of cbuf, suffixedReader, the wsflate
  Writer/Reader and the frame helpers as the source has them NOW.
-/
import WsVerif.Props.C12
import WsVerif.Gen.Consts
import WsVerif.Gen.Facts
namespace Ws.Bridge.C12
open Ws

theorem tails : compressionTail = Gen.wsflate_compressionTail ∧ compressionReadTail = Gen.wsflate_compressionReadTail := by decide

/-- Reset methods put every field back (C18 uses the same facts). -/
theorem resets :
    Gen.facts_wsflate_resets.filter (fun s => !s.startsWith "Extension") =
      ["Reader_Reset: err = nil; src = src; call sr.reset(src); d = r.ctor(r.sr.iface())",
       "Writer_Reset: err = nil; call cbuf.reset(dest); c = w.ctor(&w.cbuf)",
       "cbuf_reset: n = 0; err = nil; buf = [4]byte{0, 0, 0, 0}; dst = dst",
       "suffixedReader_reset: r = src; pos = 0"] := by decide +kernel

theorem conds_cbuf_Write :
    Gen.facts_wsflate_conds.filter (·.startsWith "cbuf_Write:") =
      ["cbuf_Write: c.err != nil",
       "cbuf_Write: n > len(c.buf)",
       "cbuf_Write: len(head) > 0"] := by decide +kernel

theorem conds_cbuf_flush :
    Gen.facts_wsflate_conds.filter (·.startsWith "cbuf_flush:") =
      ["cbuf_flush: c.err == nil"] := by decide +kernel

theorem conds_cbuf_split :
    Gen.facts_wsflate_conds.filter (·.startsWith "cbuf_split:") =
      ["cbuf_split: n > len(c.buf)"] := by decide +kernel

theorem conds_suffixedReader_iface :
    Gen.facts_wsflate_conds.filter (·.startsWith "suffixedReader_iface:") =
      ["suffixedReader_iface: ok"] := by decide +kernel

theorem conds_suffixedReader_Read :
    Gen.facts_wsflate_conds.filter (·.startsWith "suffixedReader_Read:") =
      ["suffixedReader_Read: r.r != nil",
       "suffixedReader_Read: err == io.EOF",
       "suffixedReader_Read: r.pos >= len(r.suffix)"] := by decide +kernel

theorem conds_suffixedReader_ReadByte :
    Gen.facts_wsflate_conds.filter (·.startsWith "suffixedReader_ReadByte:") =
      ["suffixedReader_ReadByte: r.r != nil",
       "suffixedReader_ReadByte: !ok",
       "suffixedReader_ReadByte: err == io.EOF",
       "suffixedReader_ReadByte: r.pos >= len(r.suffix)"] := by decide +kernel

theorem conds_Writer_Write :
    Gen.facts_wsflate_conds.filter (·.startsWith "Writer_Write:") =
      ["Writer_Write: w.err != nil"] := by decide +kernel

theorem conds_Writer_Flush :
    Gen.facts_wsflate_conds.filter (·.startsWith "Writer_Flush:") =
      ["Writer_Flush: w.err != nil"] := by decide +kernel

theorem conds_Writer_Close :
    Gen.facts_wsflate_conds.filter (·.startsWith "Writer_Close:") =
      ["Writer_Close: w.err != nil",
       "Writer_Close: ok"] := by decide +kernel

theorem conds_Writer_checkTail :
    Gen.facts_wsflate_conds.filter (·.startsWith "Writer_checkTail:") =
      ["Writer_checkTail: w.err == nil && w.cbuf.buf != compressionTail"] := by decide +kernel

theorem conds_Reader_Read :
    Gen.facts_wsflate_conds.filter (·.startsWith "Reader_Read:") =
      ["Reader_Read: r.err != nil"] := by decide +kernel

theorem conds_Reader_Close :
    Gen.facts_wsflate_conds.filter (·.startsWith "Reader_Close:") =
      ["Reader_Close: r.err != nil",
       "Reader_Close: ok"] := by decide +kernel

theorem conds_Helper_CompressFrameBuffer :
    Gen.facts_wsflate_conds.filter (·.startsWith "Helper_CompressFrameBuffer:") =
      ["Helper_CompressFrameBuffer: !f.Header.Fin",
       "Helper_CompressFrameBuffer: err != nil",
       "Helper_CompressFrameBuffer: err != nil"] := by decide +kernel

theorem conds_Helper_DecompressFrameBuffer :
    Gen.facts_wsflate_conds.filter (·.startsWith "Helper_DecompressFrameBuffer:") =
      ["Helper_DecompressFrameBuffer: !f.Header.Fin",
       "Helper_DecompressFrameBuffer: err != nil",
       "Helper_DecompressFrameBuffer: !compressed",
       "Helper_DecompressFrameBuffer: err != nil"] := by decide +kernel

theorem conds_Helper_CompressTo :
    Gen.facts_wsflate_conds.filter (·.startsWith "Helper_CompressTo:") =
      ["Helper_CompressTo: err != nil",
       "Helper_CompressTo: err != nil",
       "Helper_CompressTo: err != nil"] := by decide +kernel

theorem conds_Helper_DecompressTo :
    Gen.facts_wsflate_conds.filter (·.startsWith "Helper_DecompressTo:") =
      ["Helper_DecompressTo: err != nil",
       "Helper_DecompressTo: err != nil"] := by decide +kernel

end Ws.Bridge.C12
