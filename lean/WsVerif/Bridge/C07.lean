/- Bridge C07: the DFA table and its two distinguished states, regenerated from wsutil/utf8.go,
   are the model's. Props.C07.table_ok then holds for the table the code contains now. -/
import WsVerif.Gen.Consts
import WsVerif.Model.Utf8
namespace Ws.Bridge.C07

theorem table_bridge : Gen.wsutil_utf8d = Ws.utf8d := by rfl

theorem states_bridge : Gen.wsutil_utf8Accept = Ws.utf8Accept ∧ Gen.wsutil_utf8Reject = Ws.utf8Reject := by decide

end Ws.Bridge.C07
