/-
  Bridge C09/C10: the handshake models use the header names, error values, status texts and
  decision conditions that the source has NOW (regenerated Gen/Strings, Gen/Consts, Gen/Facts).
-/
import WsVerif.Props.C09
import WsVerif.Gen.Consts
import WsVerif.Gen.Strings
import WsVerif.Gen.Facts
namespace Ws.Bridge.C09
open Ws

theorem header_names :
    C09.kHost = strBytes Gen.ws_str_headerHostCanonical ∧ C09.kUpgrade = strBytes Gen.ws_str_headerUpgradeCanonical
    ∧ C09.kConnection = strBytes Gen.ws_str_headerConnectionCanonical
    ∧ C09.kVersion = strBytes Gen.ws_str_headerSecVersionCanonical ∧ C09.kKey = strBytes Gen.ws_str_headerSecKeyCanonical
    ∧ C09.kProtocol = strBytes Gen.ws_str_headerSecProtocolCanonical
    ∧ C09.kExtensions = strBytes Gen.ws_str_headerSecExtensionsCanonical := by decide +kernel

theorem seen_bits :
    seenHost = Gen.ws_Upgrader_Upgrade__headerSeenHost ∧ seenUpgrade = Gen.ws_Upgrader_Upgrade__headerSeenUpgrade
    ∧ seenConnection = Gen.ws_Upgrader_Upgrade__headerSeenConnection
    ∧ seenSecVersion = Gen.ws_Upgrader_Upgrade__headerSeenSecVersion
    ∧ seenSecKey = Gen.ws_Upgrader_Upgrade__headerSeenSecKey ∧ seenAll = Gen.ws_Upgrader_Upgrade__headerSeenAll
    ∧ Gen.ws_nonceSize = 24 ∧ Gen.ws_acceptSize = 28 := by decide

def ofGen (name : String) (t : Nat × String × String) : HsErr := ⟨name, t.1, strBytes t.2.1, strBytes t.2.2⟩

/-- The built-in handshake errors of the model are the values server.go declares. -/
theorem builtin_errors :
    errBadProtocol = ofGen "ErrHandshakeBadProtocol" Gen.ws_rej_ErrHandshakeBadProtocol
    ∧ errBadMethod = ofGen "ErrHandshakeBadMethod" Gen.ws_rej_ErrHandshakeBadMethod
    ∧ errBadHost = ofGen "ErrHandshakeBadHost" Gen.ws_rej_ErrHandshakeBadHost
    ∧ errBadUpgrade = ofGen "ErrHandshakeBadUpgrade" Gen.ws_rej_ErrHandshakeBadUpgrade
    ∧ errBadConnection = ofGen "ErrHandshakeBadConnection" Gen.ws_rej_ErrHandshakeBadConnection
    ∧ errBadSecAccept = ofGen "ErrHandshakeBadSecAccept" Gen.ws_rej_ErrHandshakeBadSecAccept
    ∧ errBadSecKey = ofGen "ErrHandshakeBadSecKey" Gen.ws_rej_ErrHandshakeBadSecKey
    ∧ errBadSecVersion = ofGen "ErrHandshakeBadSecVersion" Gen.ws_rej_ErrHandshakeBadSecVersion
    ∧ errUpgradeRequired = ofGen "ErrHandshakeUpgradeRequired" Gen.ws_rej_ErrHandshakeUpgradeRequired
    ∧ errMalformedRequest = ofGen "ErrMalformedRequest" Gen.ws_rej_ErrMalformedRequest := by decide +kernel

/-- The fixed part of the 101 response and the GUID are the source's constants. -/
theorem response_consts :
    strBytes Gen.ws_str_textHeadUpgrade = strBytes "HTTP/1.1 101 Switching Protocols\r\nUpgrade: websocket\r\nConnection: Upgrade\r\n"
    ∧ Spec.wsGUID = strBytes Gen.ws_str_magic ∧ strBytes Gen.ws_str_headerSecAccept = strBytes "Sec-WebSocket-Accept"
    ∧ strBytes Gen.ws_str_headerSecProtocol = strBytes "Sec-WebSocket-Protocol"
    ∧ strBytes Gen.ws_str_headerSecExtensions = strBytes "Sec-WebSocket-Extensions"
    ∧ strBytes Gen.ws_str_crlf = crlf := by decide +kernel

/-- The decision structure of Upgrader.Upgrade the model mirrors (upRequestLine, upHeader, upFinish). -/
theorem upgrader_conds :
    Gen.facts_ws_conds.filter (·.startsWith "Upgrader_Upgrade:") =
      ["Upgrader_Upgrade: err != nil",
       "Upgrader_Upgrade: err != nil",
       "Upgrader_Upgrade: case req.major != 1 || req.minor < 1",
       "Upgrader_Upgrade: case btsToString(req.method) != http.MethodGet",
       "Upgrader_Upgrade: onRequest != nil",
       "Upgrader_Upgrade: e != nil",
       "Upgrader_Upgrade: len(line) == 0",
       "Upgrader_Upgrade: !ok",
       "Upgrader_Upgrade: case headerHostCanonical",
       "Upgrader_Upgrade: onHost != nil",
       "Upgrader_Upgrade: case headerUpgradeCanonical",
       "Upgrader_Upgrade: !bytes.Equal(v, specHeaderValueUpgrade) && !bytes.EqualFold(v, specHeaderValueUpgrade)",
       "Upgrader_Upgrade: case headerConnectionCanonical",
       "Upgrader_Upgrade: !bytes.Equal(v, specHeaderValueConnection) && !btsHasToken(v, specHeaderValueConnectionLower)",
       "Upgrader_Upgrade: case headerSecVersionCanonical",
       "Upgrader_Upgrade: !bytes.Equal(v, specHeaderValueSecVersion)",
       "Upgrader_Upgrade: case headerSecKeyCanonical",
       "Upgrader_Upgrade: len(v) != nonceSize",
       "Upgrader_Upgrade: case headerSecProtocolCanonical",
       "Upgrader_Upgrade: hs.Protocol == \"\" && (custom != nil || check != nil)",
       "Upgrader_Upgrade: custom != nil",
       "Upgrader_Upgrade: !ok",
       "Upgrader_Upgrade: case headerSecExtensionsCanonical",
       "Upgrader_Upgrade: err == nil && f != nil",
       "Upgrader_Upgrade: u.Negotiate == nil && (custom != nil || check != nil)",
       "Upgrader_Upgrade: custom != nil",
       "Upgrader_Upgrade: !ok",
       "Upgrader_Upgrade: onHeader != nil",
       "Upgrader_Upgrade: case err == nil && headerSeen != headerSeenAll",
       "Upgrader_Upgrade: case headerSeen&headerSeenHost == 0",
       "Upgrader_Upgrade: case headerSeen&headerSeenUpgrade == 0",
       "Upgrader_Upgrade: case headerSeen&headerSeenConnection == 0",
       "Upgrader_Upgrade: case headerSeen&headerSeenSecVersion == 0",
       "Upgrader_Upgrade: case headerSeen&headerSeenSecKey == 0",
       "Upgrader_Upgrade: case err == nil && u.OnBeforeUpgrade != nil",
       "Upgrader_Upgrade: err != nil",
       "Upgrader_Upgrade: ok",
       "Upgrader_Upgrade: code == 0"] := by decide +kernel

/-- The decision structure of HTTPUpgrader.Upgrade (httpErr0, httpProto, httpExts). -/
theorem httpUpgrader_conds :
    Gen.facts_ws_conds.filter (·.startsWith "HTTPUpgrader_Upgrade:") =
      ["HTTPUpgrader_Upgrade: err != nil",
       "HTTPUpgrader_Upgrade: r.Method != http.MethodGet",
       "HTTPUpgrader_Upgrade: r.ProtoMajor != 1 || r.ProtoMinor < 1",
       "HTTPUpgrader_Upgrade: r.Host == \"\"",
       "HTTPUpgrader_Upgrade: u != \"websocket\" && !strings.EqualFold(u, \"websocket\")",
       "HTTPUpgrader_Upgrade: c != \"Upgrade\" && !strHasToken(c, \"upgrade\")",
       "HTTPUpgrader_Upgrade: len(nonce) != nonceSize",
       "HTTPUpgrader_Upgrade: v != \"13\"",
       "HTTPUpgrader_Upgrade: v != \"\"",
       "HTTPUpgrader_Upgrade: err == nil && check != nil",
       "HTTPUpgrader_Upgrade: !ok",
       "HTTPUpgrader_Upgrade: err == nil && f != nil",
       "HTTPUpgrader_Upgrade: err != nil",
       "HTTPUpgrader_Upgrade: err == nil && check != nil && u.Negotiate == nil",
       "HTTPUpgrader_Upgrade: !ok",
       "HTTPUpgrader_Upgrade: t != 0",
       "HTTPUpgrader_Upgrade: h != nil",
       "HTTPUpgrader_Upgrade: err == nil",
       "HTTPUpgrader_Upgrade: ok",
       "HTTPUpgrader_Upgrade: code == 0"] := by decide +kernel

/-- asciiToInt: decimal digits only, overflow refused. -/
theorem asciiToInt_conds :
    Gen.facts_ws_conds.filter (·.startsWith "asciiToInt:") =
      ["asciiToInt: n < 1",
       "asciiToInt: bts[i] < '0' || bts[i] > '9'",
       "asciiToInt: ret > (maxInt-d)/10"] := by decide +kernel

/-- httpParseVersion. -/
theorem parseVersion_conds :
    Gen.facts_ws_conds.filter (·.startsWith "httpParseVersion:") =
      ["httpParseVersion: case bytes.Equal(bts, httpVersion1_0)",
       "httpParseVersion: case bytes.Equal(bts, httpVersion1_1)",
       "httpParseVersion: case len(bts) < 8",
       "httpParseVersion: case !bytes.Equal(bts[:5], httpVersionPrefix)",
       "httpParseVersion: dot == -1",
       "httpParseVersion: err != nil",
       "httpParseVersion: err != nil"] := by decide +kernel

/-- httpWriteResponseError. -/
theorem responseError_conds :
    Gen.facts_ws_conds.filter (·.startsWith "httpWriteResponseError:") =
      ["httpWriteResponseError: case http.StatusBadRequest",
       "httpWriteResponseError: case http.StatusInternalServerError",
       "httpWriteResponseError: case http.StatusUpgradeRequired",
       "httpWriteResponseError: header != nil",
       "httpWriteResponseError: case ErrHandshakeBadProtocol",
       "httpWriteResponseError: case ErrHandshakeBadMethod",
       "httpWriteResponseError: case ErrHandshakeBadHost",
       "httpWriteResponseError: case ErrHandshakeBadUpgrade",
       "httpWriteResponseError: case ErrHandshakeBadConnection",
       "httpWriteResponseError: case ErrHandshakeBadSecAccept",
       "httpWriteResponseError: case ErrHandshakeBadSecKey",
       "httpWriteResponseError: case ErrHandshakeBadSecVersion",
       "httpWriteResponseError: case ErrHandshakeUpgradeRequired",
       "httpWriteResponseError: case nil"] := by decide +kernel

end Ws.Bridge.C09
