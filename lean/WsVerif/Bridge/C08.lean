/-
  Bridge C08: the conditions of the control handler and the control writer, in source order.
-/
import WsVerif.Gen.Facts
namespace Ws.Bridge.C08

theorem conds_ControlHandler_Handle :
    Gen.facts_wsutil_conds.filter (·.startsWith "ControlHandler_Handle:") =
      ["ControlHandler_Handle: case ws.OpPing",
       "ControlHandler_Handle: case ws.OpPong",
       "ControlHandler_Handle: case ws.OpClose"] := by decide +kernel

theorem conds_ControlHandler_HandlePing :
    Gen.facts_wsutil_conds.filter (·.startsWith "ControlHandler_HandlePing:") =
      ["ControlHandler_HandlePing: h.Length == 0",
       "ControlHandler_HandlePing: c.State.ServerSide() && !c.DisableSrcCiphering",
       "ControlHandler_HandlePing: err == nil"] := by decide +kernel

theorem conds_ControlHandler_HandlePong :
    Gen.facts_wsutil_conds.filter (·.startsWith "ControlHandler_HandlePong:") =
      ["ControlHandler_HandlePong: h.Length == 0"] := by decide +kernel

theorem conds_ControlHandler_HandleClose :
    Gen.facts_wsutil_conds.filter (·.startsWith "ControlHandler_HandleClose:") =
      ["ControlHandler_HandleClose: h.Length == 0",
       "ControlHandler_HandleClose: err != nil",
       "ControlHandler_HandleClose: c.State.ServerSide() && !c.DisableSrcCiphering",
       "ControlHandler_HandleClose: err != nil",
       "ControlHandler_HandleClose: err != nil",
       "ControlHandler_HandleClose: err != nil",
       "ControlHandler_HandleClose: err != nil"] := by decide +kernel

theorem conds_ControlHandler_closeWithProtocolError :
    Gen.facts_wsutil_conds.filter (·.startsWith "ControlHandler_closeWithProtocolError:") =
      ["ControlHandler_closeWithProtocolError: c.State.ClientSide()"] := by decide +kernel

theorem conds_ControlWriter_Write :
    Gen.facts_wsutil_conds.filter (·.startsWith "ControlWriter_Write:") =
      ["ControlWriter_Write: c.n+len(p) > c.limit"] := by decide +kernel

end Ws.Bridge.C08
