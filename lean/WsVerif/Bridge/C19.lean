/-
  Bridge C19: the syntactic side of the get/put discipline and of "shared values are read-only",
  re-extracted from the source on every run (Gen/Facts.lean) and decided here.

  * every function that takes a buffer from a pool gives it back in a DEFERRED call (so after its
    last use on every path, panics included) — wsutil.GetWriter/PutWriter are the exported pair
    whose discipline is the caller's;
  * no function other than init assigns to a package-level variable (DefaultDialer,
    DefaultUpgrader, DefaultHTTPUpgrader, DefaultHelper, DefaultParameters, the Compiled* frames,
    the UTF-8 table, ...), appends/copies into one, or takes its address (one read-only use);
  * the methods invoked on the shared default values have value receivers, or (wsflate.Helper)
    never write through their pointer receiver.
-/
import WsVerif.Props.C17
import WsVerif.Props.C19
import WsVerif.Gen.Facts
namespace Ws.Bridge.C19
open Ws.C17

def fnOf (s : String) : List Char := s.toList.takeWhile (· != ':')

def isGet (s : String) : Bool := mentions s ".Get"
def isDeferredPut (s : String) : Bool := mentions s ": defer " && mentions s ".Put"

/-- every getter has a deferred put in the same function -/
def paired (facts : List String) : Bool :=
  (facts.filter isGet).all fun g =>
    fnOf g == "GetWriter".toList || facts.any fun p => isDeferredPut p && fnOf p == fnOf g

theorem pool_get_put_paired :
    paired Gen.facts_ws_pool = true ∧ paired Gen.facts_wsutil_pool = true := by decide +kernel

/-- and there is something to pair (non-vacuity): 2 + 5 acquiring functions -/
theorem pool_getters :
    ((Gen.facts_ws_pool ++ Gen.facts_wsutil_pool).filter isGet).map fnOf =
      ["Dialer_Upgrade", "Dialer_Upgrade", "Upgrader_Upgrade", "Upgrader_Upgrade", "CipherWriter_Write",
       "ControlHandler_HandleClose", "ControlHandler_HandlePing", "ControlHandler_HandlePong", "GetWriter",
       "Writer_WriteThrough", "writeFrame"].map String.toList := by decide +kernel

/-- text of a fact line after "<function>: " -/
def siteOf (s : String) : List Char := (s.toList.dropWhile (· != ':')).drop 2

/-- A release that is not inside a `defer`: the extractor lists a deferred release twice (once as
    "defer …", once as the call it finds inside the deferred statement), so a function releases
    only in deferred calls exactly when each release text occurs as often plain as deferred. The
    exported Put* wrappers are releases by definition. -/
def releasesOnlyDeferred (facts : List String) : Bool :=
  (facts.filter fun s => mentions s ".Put" && !mentions s ": defer ").all fun p =>
    "Put".toList.isPrefixOf (fnOf p) ||
    (facts.filter (· == p)).length
      == (facts.filter fun d => fnOf d == fnOf p && siteOf d == "defer ".toList ++ siteOf p).length

/-- No buffer goes back to a pool before the function that took it returns: every release is a
    deferred one (an early `PutReader(br)` while views into the buffer are still to be written out
    would hand another session a buffer that is still read). -/
theorem pool_released_only_on_return :
    releasesOnlyDeferred Gen.facts_ws_pool = true ∧ releasesOnlyDeferred Gen.facts_wsutil_pool = true := by
  decide +kernel

def isMutation (s : String) : Bool :=
  mentions s ": write " || mentions s ": copy " || mentions s ": append " || mentions s ": addr "

/-- package-level variables are never written outside init; the only address taken is the empty
    tls.Config handed (read-only) to crypto/tls -/
theorem globals_read_only :
    ((Gen.facts_ws_gtouch ++ Gen.facts_wsutil_gtouch ++ Gen.facts_wsflate_gtouch).filter isMutation)
      = ["tlsDefaultConfig: addr &tlsEmptyConfig"] := by decide +kernel

/-- methods of the types that have shared default values never write through their receiver -/
theorem shared_receivers_read_only :
    Gen.facts_ws_sharedwrites = [] ∧ Gen.facts_wsutil_sharedwrites = [] ∧ Gen.facts_wsflate_sharedwrites = [] := by
  decide +kernel

/-- the shared defaults are used through value receivers (a copy per call) -/
theorem default_values_by_value :
    ["Dialer_Dial: value", "Dialer_Upgrade: value", "Upgrader_Upgrade: value", "HTTPUpgrader_Upgrade: value"].all
      (fun s => Gen.facts_ws_recv.contains s) = true := by decide +kernel

/-- the shared values that exist (a new one must be looked at) -/
theorem shared_values :
    (Gen.facts_ws_globals.filter fun s => "Default".toList.isPrefixOf s.toList || "Compiled".toList.isPrefixOf s.toList).length = 17
    ∧ Gen.facts_wsutil_globals = ["DefaultWriteBuffer", "ErrControlOverflow", "ErrFrameTooLarge", "ErrInvalidUTF8",
        "ErrNoFrameAdvance", "ErrNotControlFrame", "ErrNotEmpty", "errNoSpace", "utf8d", "writers"]
    ∧ Gen.facts_wsflate_globals = ["DefaultHelper", "DefaultParameters", "ErrUnexpectedCompressionBit", "ExtensionNameBytes",
        "clientMaxWindowBitsBytes", "clientNoContextTakeoverBytes", "compressionReadTail", "compressionTail",
        "serverMaxWindowBitsBytes", "serverNoContextTakeoverBytes", "windowBits"] := by decide +kernel

end Ws.Bridge.C19
