/-
  Bridge C20: the control flow of Dialer.Dial and setupContextDeadliner as the source has it NOW
  (source-order list of conditions; the statements the model mirrors: dial-phase context from
  Timeout, background fast path, watcher select, done(&err), deferred Close).
-/
import WsVerif.Props.C20
import WsVerif.Gen.Facts
namespace Ws.Bridge.C20

theorem dial_conds :
    Gen.facts_ws_conds.filter (·.startsWith "Dialer_Dial:") =
      ["Dialer_Dial: err != nil",
       "Dialer_Dial: t != 0",
       "Dialer_Dial: !ok || deadline.Before(d)",
       "Dialer_Dial: err != nil",
       "Dialer_Dial: err != nil",
       "Dialer_Dial: ctx == context.Background()"] := by decide +kernel

theorem deadliner_conds :
    Gen.facts_ws_conds.filter (·.startsWith "setupContextDeadliner:") =
      ["setupContextDeadliner: ctxErr != nil && (*err == nil || isTimeoutError(*err))"] := by decide +kernel

/-- Every call, go statement, select arm and channel send of Dial, dial and the deadliner, in source
    order: the watcher is armed with the dial-phase context (fix 26ae365), the background path arms
    and clears the deadline, Close is deferred before done. -/
theorem dial_calls :
    Gen.facts_ws_calls.filter (fun c => !c.startsWith "Dialer_tlsClient:") =   -- (tlsClient's calls belong to Bridge.C10)
      ["Dialer_Dial: call url.ParseRequestURI(urlstr)",
       "Dialer_Dial: call time.Now().Add(t)",
       "Dialer_Dial: call time.Now()",
       "Dialer_Dial: call ctx.Deadline()",
       "Dialer_Dial: call deadline.Before(d)",
       "Dialer_Dial: call context.WithDeadline(ctx, deadline)",
       "Dialer_Dial: call cancel()",
       "Dialer_Dial: call d.dial(dialctx, u)",
       "Dialer_Dial: call func() { if err != nil { conn.Close() } }()",
       "Dialer_Dial: call conn.Close()",
       "Dialer_Dial: call context.Background()",
       "Dialer_Dial: call conn.SetDeadline(deadline)",
       "Dialer_Dial: call conn.SetDeadline(noDeadline)",
       "Dialer_Dial: call setupContextDeadliner(dialctx, conn)",
       "Dialer_Dial: call func() { done(&err) }()",
       "Dialer_Dial: call done(&err)",
       "Dialer_Dial: call d.Upgrade(conn, u)",
       "Dialer_dial: call hostport(u.Host, \":80\")",
       "Dialer_dial: call dial(ctx, \"tcp\", addr)",
       "Dialer_dial: call hostport(u.Host, \":443\")",
       "Dialer_dial: call dial(ctx, \"tcp\", addr)",
       "Dialer_dial: call tlsClient(conn, hostname)",
       "Dialer_dial: call fmt.Errorf(\"unexpected websocket scheme: %q\", u.Scheme)",
       "Dialer_dial: call wrap(conn)",
       "setupContextDeadliner: call make(chan struct{})",
       "setupContextDeadliner: call make(chan error, 1)",
       "setupContextDeadliner: go",
       "setupContextDeadliner: call func() { select { case <-quit: interrupt <- nil case <-ctx.Done(): conn.SetDeadline(aLongTimeAgo) interrupt <- ctx.Err() } }()",
       "setupContextDeadliner: select",
       "setupContextDeadliner: comm <-quit",
       "setupContextDeadliner: send interrupt <- nil",
       "setupContextDeadliner: comm <-ctx.Done()",
       "setupContextDeadliner: call ctx.Done()",
       "setupContextDeadliner: call conn.SetDeadline(aLongTimeAgo)",
       "setupContextDeadliner: send interrupt <- ctx.Err()",
       "setupContextDeadliner: call ctx.Err()",
       "setupContextDeadliner: call close(quit)",
       "setupContextDeadliner: call isTimeoutError(*err)"] := by decide +kernel

end Ws.Bridge.C20
