/- Bridge C14: facts about wsflate/extension.go and parameters.go regenerated from the source,
   compared with what the model (Model/Negotiate.lean) assumes. -/
import WsVerif.Gen.Funcs
import WsVerif.Gen.Facts
import WsVerif.Model.Negotiate
namespace Ws.Bridge.C14

/-- The decisions of Extension.Negotiate, in source order: not-ours, already accepted, parse error,
    then the three offer-vs-configuration comparisons the model's `negDecide` mirrors. -/
theorem negotiate_conds :
    Gen.facts_wsflate_conds.filter (·.startsWith "Extension_Negotiate") =
      ["Extension_Negotiate: !bytes.Equal(opt.Name, ExtensionNameBytes)",
       "Extension_Negotiate: n.accepted",
       "Extension_Negotiate: err != nil",
       "Extension_Negotiate: offer.Defined() && (!want.Defined() || want > offer)",
       "Extension_Negotiate: want > offer",
       "Extension_Negotiate: offer && !want"] := by decide +kernel

/-- Extension.Reset clears exactly the negotiation state. -/
theorem extension_reset :
    Gen.facts_wsflate_resets.filter (·.startsWith "Extension_Reset") =
      ["Extension_Reset: accepted = false; params = Parameters{}"] := by decide +kernel

theorem isValidBits_bridge (x : Nat) : Gen.wsflate_isValidBits (x : Int) = decide (8 ≤ x ∧ x ≤ 15) := by
  unfold Gen.wsflate_isValidBits
  by_cases h1 : 8 ≤ x <;> by_cases h2 : x ≤ 15 <;> simp [h1, h2] <;> omega

theorem defined_bridge (b : Nat) : Gen.wsflate_WindowBits_Defined b = decide (b ≠ 0) := by
  unfold Gen.wsflate_WindowBits_Defined
  by_cases h : b = 0 <;> simp [h]
  omega

end Ws.Bridge.C14
