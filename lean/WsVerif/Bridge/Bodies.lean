/-
  Bridge (tie 1) — the small straight-line methods whose models are written by hand and which contain no
  condition that Bridge/C0x could pin: their WHOLE bodies, as extracted from /repo's working tree on this run
  (comments dropped, white space collapsed), are what the models were written against; and the method sets of
  the mask reader / mask writer / UTF-8 reader are exactly the entry points the models and generators cover.
  Any edit — also a harmless one — breaks the obligation and has to be looked at (the check then searches for a
  failing input and otherwise reports no-failing-input-found).
    CipherReader.Read/Reset, CipherWriter.Write/Reset  ~  Model/Cipher (CipherRd.read, CipherWr.write, *.reset)
    UTF8Reader.*                                       ~  Model/Utf8 (Utf8Rd.feed / valid / accepted / reset)
    Reader.reset / resetFragment / fragmented          ~  Model/Reader (Rd.reset, Rd.resetFragment, Rd.fragmented)
    Writer.Reset / ResetOp / SetExtensions / flushFragment / opCode ~ Model/Writer (Wr.reset, Wr.resetOp, Wr.opCode, flushTemplate)
    MessageState.*, Rsv, RsvBits, StatusCode.Is*       ~  Model/Reader (setBits/unsetBits), Model/Check
-/
import WsVerif.Gen.Facts
namespace Ws.Bridge.Bodies
open Ws

theorem bodies_ws :
    Gen.facts_ws_bodies =
      ["Rsv: { if r1 { rsv |= bit5 } if r2 { rsv |= bit6 } if r3 { rsv |= bit7 } return rsv }",
       "RsvBits: { r1 = rsv&bit5 != 0 r2 = rsv&bit6 != 0 r3 = rsv&bit7 != 0 return r1, r2, r3 }",
       "SelectEqual: { return func(p string) bool { return v == p } }",
       "SelectFromSlice: { if len(accept) > 16 { mp := make(map[string]struct{}, len(accept)) for _, p := range accept { mp[p] = struct{}{} } return func(p string) bool { _, ok := mp[p] return ok } } return func(p string) bool { for _, ok := range accept { if p == ok { return true } } return false } }",
       "StatusCode_IsApplicationSpec: { return s.In(StatusRangeApplication) }",
       "StatusCode_IsNotUsed: { return s.In(StatusRangeNotInUse) }",
       "StatusCode_IsPrivateSpec: { return s.In(StatusRangePrivate) }",
       "StatusCode_IsProtocolDefined: { switch s { case StatusNormalClosure, StatusGoingAway, StatusProtocolError, StatusUnsupportedData, StatusInvalidFramePayloadData, StatusPolicyViolation, StatusMessageTooBig, StatusMandatoryExt, StatusInternalServerError, StatusNoStatusRcvd, StatusAbnormalClosure, StatusTLSHandshake: return true } return false }",
       "StatusCode_IsProtocolReserved: { switch s { case StatusNoStatusRcvd, StatusAbnormalClosure, StatusTLSHandshake: return true default: return false } }"] := rfl

theorem bodies_wsutil :
    Gen.facts_wsutil_bodies =
      ["CipherReader_Read: { n, err = c.r.Read(p) ws.Cipher(p[:n], c.mask, c.pos) c.pos += n return n, err }",
       "CipherReader_Reset: { c.r = r c.mask = mask c.pos = 0 }",
       "CipherWriter_Reset: { c.w = w c.mask = mask c.pos = 0 }",
       "CipherWriter_Write: { cp := pbytes.GetLen(len(p)) defer pbytes.Put(cp) copy(cp, p) ws.Cipher(cp, c.mask, c.pos) n, err = c.w.Write(cp) c.pos += n return n, err }",
       "NewCipherReader: { return &CipherReader{r, mask, 0} }",
       "NewCipherWriter: { return &CipherWriter{w, mask, 0} }",
       "Reader_fragmented: { return r.State.Fragmented() }",
       "Reader_reset: { r.raw = limitedReader{} r.frame = nil r.utf8 = UTF8Reader{} r.opCode = 0 }",
       "Reader_resetFragment: { r.raw = limitedReader{} r.frame = nil r.utf8.Source = nil }",
       "UTF8Reader_Accepted: { return u.accepted }",
       "UTF8Reader_Read: { n, err = u.Source.Read(p) accepted := 0 s, c := u.state, u.codep for i := 0; i < n; i++ { c, s = decode(s, c, p[i]) if s == utf8Reject { u.state = s return accepted, ErrInvalidUTF8 } if s == utf8Accept { accepted = i + 1 } } u.state, u.codep = s, c u.accepted = accepted return n, err }",
       "UTF8Reader_Reset: { u.Source = r u.state = 0 u.codep = 0 u.accepted = 0 }",
       "UTF8Reader_Valid: { return u.state == utf8Accept }",
       "Writer_DisableFlush: { w.noFlush = true }",
       "Writer_Reset: { w.dest = dest w.state = state w.op = op w.initBuf() w.n = 0 w.dirty = false w.fseq = 0 w.err = nil w.extensions = w.extensions[:0] w.noFlush = false }",
       "Writer_ResetOp: { w.op = op w.n = 0 w.dirty = false w.fseq = 0 }",
       "Writer_SetExtensions: { w.extensions = xs }",
       "Writer_flushFragment: { var ( payload = w.buf[:w.n] header = ws.Header{ OpCode: w.opCode(), Fin: fin, Length: int64(len(payload)), } ) for _, ext := range w.extensions { header, err = ext.SetBits(header) if err != nil { return err } } if w.state.ClientSide() { header.Masked = true header.Mask = ws.NewMask() ws.Cipher(payload, header.Mask, 0) } // Write header to the header segment of the raw buffer. var ( offset = len(w.raw) - len(w.buf) skip = offset - ws.HeaderSize(header) ) buf := bytesWriter{ buf: w.raw[skip:offset], } if err := ws.WriteHeader(&buf, header); err != nil { panic(\"dump header error: \" + err.Error()) } _, err = w.dest.Write(w.raw[skip : offset+w.n]) return err }",
       "Writer_opCode: { if w.fseq > 0 { return ws.OpContinuation } return w.op }"] := rfl

theorem bodies_wsflate :
    Gen.facts_wsflate_bodies =
      ["MessageState_IsCompressed: { return s.compressed }",
       "MessageState_SetCompressed: { s.compressed = v }",
       "Writer_Reset: { w.err = nil w.cbuf.reset(dest) if x, ok := w.c.(WriteResetter); ok { x.Reset(&w.cbuf) } else { w.c = w.ctor(&w.cbuf) } }"] := rfl

/-- every method of CipherReader: the entry points the models and the generators go through -/
theorem methods_CipherReader :
    Gen.facts_wsutil_recv.filter (·.startsWith "CipherReader_") =
      ["CipherReader_Read: pointer",
       "CipherReader_Reset: pointer"] := by decide +kernel

/-- every method of CipherWriter: the entry points the models and the generators go through -/
theorem methods_CipherWriter :
    Gen.facts_wsutil_recv.filter (·.startsWith "CipherWriter_") =
      ["CipherWriter_Reset: pointer",
       "CipherWriter_Write: pointer"] := by decide +kernel

/-- every method of UTF8Reader: the entry points the models and the generators go through -/
theorem methods_UTF8Reader :
    Gen.facts_wsutil_recv.filter (·.startsWith "UTF8Reader_") =
      ["UTF8Reader_Accepted: pointer",
       "UTF8Reader_Read: pointer",
       "UTF8Reader_Reset: pointer",
       "UTF8Reader_Valid: pointer"] := by decide +kernel

end Ws.Bridge.Bodies
