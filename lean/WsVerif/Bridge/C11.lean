/-
  Bridge C11: readLine and the debugging wrappers as the source has them NOW; the handshake
  buffers come from the pool with the configured sizes.
-/
import WsVerif.Props.C11
import WsVerif.Gen.Consts
import WsVerif.Gen.Facts
namespace Ws.Bridge.C11
open Ws

/-- readLine: reassemble across ErrBufferFull, strip LF / CRLF. -/
theorem readLine_conds :
    Gen.facts_ws_conds.filter (·.startsWith "readLine:") =
      ["readLine: err == bufio.ErrBufferFull",
       "readLine: line == nil",
       "readLine: err != nil",
       "readLine: n > 1 && line[n-2] == '\\r'"] := by decide +kernel

/-- DebugDialer.Dial. -/
theorem debugDialer_conds :
    Gen.facts_wsutil_conds.filter (·.startsWith "DebugDialer_Dial:") =
      ["DebugDialer_Dial: userWrap != nil",
       "DebugDialer_Dial: d.OnResponse != nil",
       "DebugDialer_Dial: d.OnRequest != nil",
       "DebugDialer_Dial: onRequest != nil",
       "DebugDialer_Dial: onResponse != nil",
       "DebugDialer_Dial: n > len(p)",
       "DebugDialer_Dial: br != nil",
       "DebugDialer_Dial: len(p) > h"] := by decide +kernel

theorem headEndIndex_conds :
    Gen.facts_wsutil_conds.filter (·.startsWith "headEndIndex:") =
      ["headEndIndex: j == -1",
       "headEndIndex: i < len(p) && p[i] == '\\n'",
       "headEndIndex: i+1 < len(p) && p[i] == '\\r' && p[i+1] == '\\n'"] := by decide +kernel

theorem prefetch_conds :
    Gen.facts_wsutil_conds.filter (·.startsWith "prefetchResponseReader_Read:") =
      ["prefetchResponseReader_Read: r.reader == nil",
       "prefetchResponseReader_Read: err == nil"] := by decide +kernel

/-- DebugUpgrader.Upgrade. -/
theorem debugUpgrader_conds :
    Gen.facts_wsutil_conds.filter (·.startsWith "DebugUpgrader_Upgrade:") =
      ["DebugUpgrader_Upgrade: onRequest != nil",
       "DebugUpgrader_Upgrade: err == nil",
       "DebugUpgrader_Upgrade: onResponse != nil"] := by decide +kernel

/-- Handshake I/O buffers: taken from the pool with the configured size and returned. -/
theorem handshake_pool :
    Gen.facts_ws_pool.filter (fun s => s.startsWith "Upgrader_Upgrade:" || s.startsWith "Dialer_Upgrade:") =
      ["Dialer_Upgrade: defer pbufio.PutReader(br)",
       "Dialer_Upgrade: defer pbufio.PutWriter(bw)",
       "Dialer_Upgrade: pbufio.GetReader(conn, nonZero(d.ReadBufferSize, DefaultClientReadBufferSize), )",
       "Dialer_Upgrade: pbufio.GetWriter(conn, nonZero(d.WriteBufferSize, DefaultClientWriteBufferSize), )",
       "Dialer_Upgrade: pbufio.PutReader(br)",
       "Dialer_Upgrade: pbufio.PutWriter(bw)",
       "Upgrader_Upgrade: defer pbufio.PutReader(br)",
       "Upgrader_Upgrade: defer pbufio.PutWriter(bw)",
       "Upgrader_Upgrade: pbufio.GetReader(conn, nonZero(u.ReadBufferSize, DefaultServerReadBufferSize), )",
       "Upgrader_Upgrade: pbufio.GetWriter(conn, nonZero(u.WriteBufferSize, DefaultServerWriteBufferSize), )",
       "Upgrader_Upgrade: pbufio.PutReader(br)",
       "Upgrader_Upgrade: pbufio.PutWriter(bw)"] := by decide +kernel

theorem buffer_defaults : Gen.ws_DefaultServerReadBufferSize = 4096 ∧ Gen.ws_DefaultClientReadBufferSize = 4096 := by decide

end Ws.Bridge.C11
