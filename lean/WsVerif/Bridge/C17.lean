/-
  Bridge C17: where the source converts between owned and viewed memory, where it takes and
  returns pooled buffers and where it uses the unsafe casts - as it does NOW.
-/
import WsVerif.Props.C17
import WsVerif.Gen.Facts
namespace Ws.Bridge.C17
open Ws.C17

/-- No result of the selection paths, the close handler, the copying mask helpers or the message
    reader is built from a viewing conversion (ParseCloseFrameDataUnsafe is the documented
    exception: it is the caller's choice and no library path uses it). -/
theorem no_view_in_results :
    ((Gen.facts_ws_own ++ Gen.facts_wsutil_own).filter (fun s => isResultSite s && !s.startsWith "ParseCloseFrameDataUnsafe")).all
      (fun s => !usesView s) = true := by decide +kernel

/-- The conversions, allocations, pool operations and in-place operations of the ws package's
    selection and mask helpers, in source order. -/
theorem ws_own :
    Gen.facts_ws_own =
      ["matchSelectedExtensions: return received, nil",
       "matchSelectedExtensions: assign want.Parameters = option.Parameters.Copy(make([]byte, option.Parameters.Size()))",
       "matchSelectedExtensions: own option.Parameters.Copy(make([]byte, option.Parameters.Size()))",
       "matchSelectedExtensions: alloc make([]byte, option.Parameters.Size())",
       "matchSelectedExtensions: return true",
       "matchSelectedExtensions: return false",
       "matchSelectedExtensions: return httphead.ControlBreak",
       "matchSelectedExtensions: return httphead.ControlContinue",
       "matchSelectedExtensions: return received, err",
       "matchSelectedExtensions: return received, ErrHandshakeBadExtensions",
       "matchSelectedExtensions: return received, err",
       "MaskFrame: return MaskFrameWith(f, NewMask())",
       "MaskFrameWith: alloc make([]byte, len(f.Payload))",
       "MaskFrameWith: copy copy(p, f.Payload)",
       "MaskFrameWith: assign f.Payload = p",
       "MaskFrameWith: return MaskFrameInPlaceWith(f, mask)",
       "MaskFrameWith: inplace MaskFrameInPlaceWith(f, mask)",
       "MaskFrameInPlace: return MaskFrameInPlaceWith(f, NewMask())",
       "MaskFrameInPlace: inplace MaskFrameInPlaceWith(f, NewMask())",
       "UnmaskFrame: alloc make([]byte, len(f.Payload))",
       "UnmaskFrame: copy copy(p, f.Payload)",
       "UnmaskFrame: assign f.Payload = p",
       "UnmaskFrame: return UnmaskFrameInPlace(f)",
       "UnmaskFrame: inplace UnmaskFrameInPlace(f)",
       "UnmaskFrameInPlace: inplace Cipher(f.Payload, f.Header.Mask, 0)",
       "UnmaskFrameInPlace: return f",
       "MaskFrameInPlaceWith: inplace Cipher(f.Payload, m, 0)",
       "MaskFrameInPlaceWith: return f",
       "httpGetHeader: return \"\"",
       "httpGetHeader: return \"\"",
       "httpGetHeader: return v[0]",
       "strSelectProtocol: view strToBytes(h)",
       "strSelectProtocol: view btsToString(v)",
       "strSelectProtocol: assign ret = string(v)",
       "strSelectProtocol: own string(v)",
       "strSelectProtocol: return false",
       "strSelectProtocol: return true",
       "strSelectProtocol: return ret, ok",
       "btsSelectProtocol: assign selected = v",
       "btsSelectProtocol: return false",
       "btsSelectProtocol: return true",
       "btsSelectProtocol: return string(selected), true",
       "btsSelectProtocol: own string(selected)",
       "btsSelectProtocol: return ret, ok",
       "btsSelectExtensions: own Flags: httphead.SelectCopy",
       "btsSelectExtensions: return s.Select(h, selected)",
       "negotiateMaybe: return dest, nil",
       "negotiateMaybe: return nil, err",
       "negotiateMaybe: return dest, nil",
       "negotiateExtensions: return httphead.ControlBreak",
       "negotiateExtensions: return httphead.ControlContinue",
       "negotiateExtensions: return nil, ErrMalformedRequest",
       "negotiateExtensions: return negotiateMaybe(current, dest, f)",
       "ParseCloseFrameData: return code, reason",
       "ParseCloseFrameData: own string(payload[2:])",
       "ParseCloseFrameData: return code, reason",
       "ParseCloseFrameDataUnsafe: return code, reason",
       "ParseCloseFrameDataUnsafe: view btsToString(payload[2:])",
       "ParseCloseFrameDataUnsafe: return code, reason",
       "HTTPUpgrader_Upgrade: return conn, rw, hs, err",
       "HTTPUpgrader_Upgrade: view strToBytes(h)",
       "HTTPUpgrader_Upgrade: view strToBytes(xs[i])",
       "HTTPUpgrader_Upgrade: view strToBytes(nonce)",
       "HTTPUpgrader_Upgrade: return conn, rw, hs, err"] := by decide +kernel

/-- … and of wsutil's close handler, message reader, writer and cipher writer: every client-side
    write masks a pooled COPY (copy(payload, p) before MaskFrameInPlace, frame.Payload = payload). -/
theorem wsutil_own :
    Gen.facts_wsutil_own =
      ["CipherWriter_Write: pool pbytes.GetLen(len(p))",
       "CipherWriter_Write: pool pbytes.Put(cp)",
       "CipherWriter_Write: copy copy(cp, p)",
       "CipherWriter_Write: inplace ws.Cipher(cp, c.mask, c.pos)",
       "CipherWriter_Write: return n, err",
       "ControlHandler_HandleClose: return err",
       "ControlHandler_HandleClose: return ClosedError{ Code: ws.StatusNoStatusRcvd, }",
       "ControlHandler_HandleClose: pool pbytes.GetLen(int(h.Length) + ws.HeaderSize(ws.Header{ Length: h.Length, Masked: c.State.ClientSide(), }))",
       "ControlHandler_HandleClose: pool pbytes.Put(p)",
       "ControlHandler_HandleClose: return err",
       "ControlHandler_HandleClose: own ws.ParseCloseFrameData(subp)",
       "ControlHandler_HandleClose: return err",
       "ControlHandler_HandleClose: return err",
       "ControlHandler_HandleClose: return err",
       "ControlHandler_HandleClose: return ClosedError{ Code: code, Reason: reason, }",
       "ReadMessage: return err",
       "ReadMessage: return nil",
       "ReadMessage: return m, err",
       "ReadMessage: alloc make([]byte, h.Length)",
       "ReadMessage: return m, err",
       "ReadMessage: return append(m, Message{h.OpCode, p}), nil",
       "Writer_Write: copy copy(w.buf[w.n:], p)",
       "Writer_Write: return n, w.err",
       "Writer_Write: copy copy(w.buf[w.n:], p)",
       "Writer_Write: return n, w.err",
       "Writer_WriteThrough: return 0, w.err",
       "Writer_WriteThrough: return 0, ErrNotEmpty",
       "Writer_WriteThrough: return 0, err",
       "Writer_WriteThrough: pool pbytes.GetLen(len(p))",
       "Writer_WriteThrough: pool pbytes.Put(payload)",
       "Writer_WriteThrough: copy copy(payload, p)",
       "Writer_WriteThrough: assign frame.Payload = payload",
       "Writer_WriteThrough: inplace ws.MaskFrameInPlace(frame)",
       "Writer_WriteThrough: assign frame.Payload = p",
       "Writer_WriteThrough: return n, w.err",
       "writeFrame: pool pbytes.GetLen(len(p))",
       "writeFrame: pool pbytes.Put(payload)",
       "writeFrame: copy copy(payload, p)",
       "writeFrame: inplace ws.MaskFrameInPlace(frame)",
       "writeFrame: return ws.WriteFrame(w, frame)"] := by decide +kernel

/-- Every use of the unsafe casts in the ws package. -/
theorem ws_unsafe_sites :
    Gen.facts_ws_unsafe =
      ["Dialer_Upgrade: btsToString(k)",
       "HTTPUpgrader_Upgrade: strToBytes(h)",
       "HTTPUpgrader_Upgrade: strToBytes(nonce)",
       "HTTPUpgrader_Upgrade: strToBytes(xs[i])",
       "ParseCloseFrameDataUnsafe: btsToString(payload[2:])",
       "Upgrader_Upgrade: btsToString(k)",
       "Upgrader_Upgrade: btsToString(req.method)",
       "httpWriteUpgradeRequest: btsToString(nonce)",
       "strHasToken: strToBytes(header)",
       "strHasToken: strToBytes(token)",
       "strSelectProtocol: btsToString(v)",
       "strSelectProtocol: strToBytes(h)",
       "writeAccept: btsToString(accept)"] := by decide +kernel

theorem wsutil_unsafe_sites : Gen.facts_wsutil_unsafe = [] := by decide +kernel

/-- Every pool acquisition and release (deferred releases after the last use). -/
theorem ws_pool_sites :
    Gen.facts_ws_pool =
      ["Dialer_Upgrade: defer pbufio.PutReader(br)",
       "Dialer_Upgrade: defer pbufio.PutWriter(bw)",
       "Dialer_Upgrade: pbufio.GetReader(conn, nonZero(d.ReadBufferSize, DefaultClientReadBufferSize), )",
       "Dialer_Upgrade: pbufio.GetWriter(conn, nonZero(d.WriteBufferSize, DefaultClientWriteBufferSize), )",
       "Dialer_Upgrade: pbufio.PutReader(br)",
       "Dialer_Upgrade: pbufio.PutWriter(bw)",
       "PutReader: pbufio.PutReader(br)",
       "Upgrader_Upgrade: defer pbufio.PutReader(br)",
       "Upgrader_Upgrade: defer pbufio.PutWriter(bw)",
       "Upgrader_Upgrade: pbufio.GetReader(conn, nonZero(u.ReadBufferSize, DefaultServerReadBufferSize), )",
       "Upgrader_Upgrade: pbufio.GetWriter(conn, nonZero(u.WriteBufferSize, DefaultServerWriteBufferSize), )",
       "Upgrader_Upgrade: pbufio.PutReader(br)",
       "Upgrader_Upgrade: pbufio.PutWriter(bw)"] := by decide +kernel

theorem wsutil_pool_sites :
    Gen.facts_wsutil_pool =
      ["CipherWriter_Write: defer pbytes.Put(cp)",
       "CipherWriter_Write: pbytes.GetLen(len(p))",
       "CipherWriter_Write: pbytes.Put(cp)",
       "ControlHandler_HandleClose: defer pbytes.Put(p)",
       "ControlHandler_HandleClose: pbytes.GetLen(int(h.Length) + ws.HeaderSize(ws.Header{ Length: h.Length, Masked: c.State.ClientSide(), }))",
       "ControlHandler_HandleClose: pbytes.Put(p)",
       "ControlHandler_HandlePing: defer pbytes.Put(p)",
       "ControlHandler_HandlePing: pbytes.GetLen(int(h.Length) + ws.HeaderSize(ws.Header{ Length: h.Length, Masked: c.State.ClientSide(), }))",
       "ControlHandler_HandlePing: pbytes.Put(p)",
       "ControlHandler_HandlePong: defer pbytes.Put(buf)",
       "ControlHandler_HandlePong: pbytes.GetLen(int(h.Length))",
       "ControlHandler_HandlePong: pbytes.Put(buf)",
       "GetWriter: writers.Get(n)",
       "PutWriter: writers.Put(w, w.Size())",
       "Writer_WriteThrough: defer pbytes.Put(payload)",
       "Writer_WriteThrough: pbytes.GetLen(len(p))",
       "Writer_WriteThrough: pbytes.Put(payload)",
       "writeFrame: defer pbytes.Put(payload)",
       "writeFrame: pbytes.GetLen(len(p))",
       "writeFrame: pbytes.Put(payload)"] := by decide +kernel

end Ws.Bridge.C17
