/-
  Bridge C10: the dialer model uses the constants and the decision conditions the source has NOW.
-/
import WsVerif.Props.C10
import WsVerif.Gen.Consts
import WsVerif.Gen.Strings
import WsVerif.Gen.Facts
namespace Ws.Bridge.C10
open Ws

theorem header_names :
    C10.kUpgrade = strBytes Gen.ws_str_headerUpgradeCanonical ∧ C10.kConnection = strBytes Gen.ws_str_headerConnectionCanonical
    ∧ C10.kAccept = strBytes Gen.ws_str_headerSecAcceptCanonical ∧ C10.kProtocol = strBytes Gen.ws_str_headerSecProtocolCanonical
    ∧ C10.kExtensions = strBytes Gen.ws_str_headerSecExtensionsCanonical := by decide +kernel

theorem seen_bits :
    dSeenUpgrade = Gen.ws_Dialer_Upgrade__headerSeenUpgrade ∧ dSeenConnection = Gen.ws_Dialer_Upgrade__headerSeenConnection
    ∧ dSeenSecAccept = Gen.ws_Dialer_Upgrade__headerSeenSecAccept ∧ Gen.ws_Dialer_Upgrade__headerSeenAll = 7
    ∧ Gen.ws_nonceSize = 24 ∧ Gen.ws_acceptSize = 28 ∧ Gen.ws_nonceKeySize = 16 := by decide

/-- The request writer's fixed strings. -/
theorem request_consts :
    strBytes Gen.ws_str_headerHost = strBytes "Host" ∧ strBytes Gen.ws_str_headerUpgrade = strBytes "Upgrade"
    ∧ strBytes Gen.ws_str_headerConnection = strBytes "Connection" ∧ strBytes Gen.ws_str_headerSecVersion = strBytes "Sec-WebSocket-Version"
    ∧ strBytes Gen.ws_str_headerSecKey = strBytes "Sec-WebSocket-Key" ∧ strBytes Gen.ws_str_headerSecProtocol = strBytes "Sec-WebSocket-Protocol"
    ∧ strBytes Gen.ws_str_headerSecExtensions = strBytes "Sec-WebSocket-Extensions"
    ∧ strBytes Gen.ws_str_colonAndSpace = strBytes ": " ∧ strBytes Gen.ws_str_commaAndSpace = strBytes ", "
    ∧ strBytes Gen.ws_str_crlf = crlf ∧ Spec.wsGUID = strBytes Gen.ws_str_magic := by decide +kernel

/-- The decision structure of Dialer.Upgrade the model mirrors (dlStatusLine, dlHeader, dlFinish). -/
theorem dialer_conds :
    Gen.facts_ws_conds.filter (·.startsWith "Dialer_Upgrade:") =
      ["Dialer_Upgrade: br.Buffered() == 0 || err != nil",
       "Dialer_Upgrade: err != nil",
       "Dialer_Upgrade: err != nil",
       "Dialer_Upgrade: err != nil",
       "Dialer_Upgrade: resp.major != 1 || resp.minor < 1",
       "Dialer_Upgrade: resp.status != http.StatusSwitchingProtocols",
       "Dialer_Upgrade: onStatusError != nil",
       "Dialer_Upgrade: e != nil",
       "Dialer_Upgrade: len(line) == 0",
       "Dialer_Upgrade: !ok",
       "Dialer_Upgrade: case headerUpgradeCanonical",
       "Dialer_Upgrade: !bytes.Equal(v, specHeaderValueUpgrade) && !bytes.EqualFold(v, specHeaderValueUpgrade)",
       "Dialer_Upgrade: case headerConnectionCanonical",
       "Dialer_Upgrade: !bytes.Equal(v, specHeaderValueConnection) && !bytes.EqualFold(v, specHeaderValueConnection)",
       "Dialer_Upgrade: case headerSecAcceptCanonical",
       "Dialer_Upgrade: !checkAcceptFromNonce(v, nonce)",
       "Dialer_Upgrade: case headerSecProtocolCanonical",
       "Dialer_Upgrade: string(v) == want",
       "Dialer_Upgrade: !matched || hs.Protocol == \"\"",
       "Dialer_Upgrade: case headerSecExtensionsCanonical",
       "Dialer_Upgrade: err != nil",
       "Dialer_Upgrade: onHeader != nil",
       "Dialer_Upgrade: e != nil",
       "Dialer_Upgrade: err == nil && headerSeen != headerSeenAll",
       "Dialer_Upgrade: case headerSeen&headerSeenUpgrade == 0",
       "Dialer_Upgrade: case headerSeen&headerSeenConnection == 0",
       "Dialer_Upgrade: case headerSeen&headerSeenSecAccept == 0"] := by decide +kernel

/-- matchSelectedExtensions. -/
theorem matchSelected_conds :
    Gen.facts_ws_conds.filter (·.startsWith "matchSelectedExtensions:") =
      ["matchSelectedExtensions: len(selected) == 0",
       "matchSelectedExtensions: bytes.Equal(option.Name, want.Name)",
       "matchSelectedExtensions: i != index",
       "matchSelectedExtensions: i != 0 && !match()",
       "matchSelectedExtensions: attr != nil",
       "matchSelectedExtensions: !ok",
       "matchSelectedExtensions: !match()"] := by decide +kernel

/-- httpParseResponseLine: 3DIGIT status. -/
theorem responseLine_conds :
    Gen.facts_ws_conds.filter (·.startsWith "httpParseResponseLine:") =
      ["httpParseResponseLine: !ok",
       "httpParseResponseLine: len(status) != 3",
       "httpParseResponseLine: convErr != nil"] := by decide +kernel

/-- hostport. -/
theorem hostport_conds :
    Gen.facts_ws_conds.filter (·.startsWith "hostport:") =
      ["hostport: colon > bracket"] := by decide +kernel

/-- httpWriteUpgradeRequest. -/
theorem writeRequest_conds :
    Gen.facts_ws_conds.filter (·.startsWith "httpWriteUpgradeRequest:") =
      ["httpWriteUpgradeRequest: host == \"\"",
       "httpWriteUpgradeRequest: len(protocols) > 0",
       "httpWriteUpgradeRequest: i > 0",
       "httpWriteUpgradeRequest: len(extensions) > 0",
       "httpWriteUpgradeRequest: header != nil"] := by decide +kernel

/-- Dialer.tlsClient: one test for "no configuration", one for "no server name"; the clone precedes
    the assignment (tlsServerName). Dialer.dial hands the URL host of hostport to it. -/
theorem tls_client_conds :
    Gen.facts_ws_conds.filter (·.startsWith "Dialer_tlsClient:") =
      ["Dialer_tlsClient: config == nil",
       "Dialer_tlsClient: config.ServerName == \"\""]
    ∧ Gen.facts_ws_calls.filter (·.startsWith "Dialer_tlsClient:") =
      ["Dialer_tlsClient: call tlsDefaultConfig()",
       "Dialer_tlsClient: call tlsCloneConfig(config)",
       "Dialer_tlsClient: call tls.Client(conn, config)"] := by decide +kernel

end Ws.Bridge.C10
