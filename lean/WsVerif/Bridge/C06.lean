/- Bridge C06: writer.go's reserve / headerSize, regenerated from source, are the model's. -/
import WsVerif.Gen.Facts
import WsVerif.Gen.Funcs
import WsVerif.Model.Writer
import WsVerif.Bridge.C03
namespace Ws.Bridge.C06
open Ws

theorem reserve_bridge (s n : Nat) :
    Gen.wsutil_reserve s (n : Int) = (reserve (stIs s stClient) n : Int) := by
  unfold Gen.wsutil_reserve reserve
  rw [(Ws.Bridge.C03.state_bridge s 0).2.2.2.2.1]
  simp only [Gen.wsutil_len7, Gen.wsutil_len16]
  cases stIs s stClient
  · by_cases h1 : n ≤ 127
    · have h1' : (n : Int) ≤ 127 := by omega
      simp [h1, h1']
    · have h1' : ¬ (n : Int) ≤ 127 := by omega
      by_cases h2 : n ≤ 65539
      · have h2' : (n : Int) ≤ 65539 := by omega
        simp [h1, h1', h2, h2']
      · have h2' : ¬ (n : Int) ≤ 65539 := by omega
        simp [h1, h1', h2, h2']
  · by_cases h1 : n ≤ 131
    · have h1' : (n : Int) ≤ 131 := by omega
      simp [h1, h1']
    · have h1' : ¬ (n : Int) ≤ 131 := by omega
      by_cases h2 : n ≤ 65543
      · have h2' : (n : Int) ≤ 65543 := by omega
        simp [h1, h1', h2, h2']
      · have h2' : ¬ (n : Int) ≤ 65543 := by omega
        simp [h1, h1', h2, h2']

theorem headerSize_bridge (s n : Nat) (hn : n < 2 ^ 63) :
    Gen.wsutil_headerSize s (n : Int) = (wHeaderSize (stIs s stClient) n : Int) := by
  unfold Gen.wsutil_headerSize Gen.ws_HeaderSize wHeaderSize
  rw [(Ws.Bridge.C03.state_bridge s 0).2.2.2.2.1]
  simp only [Gen.ws_len16, Gen.ws_len64]
  by_cases h1 : n < 126
  · have h1' : (n : Int) < 126 := by omega
    cases stIs s stClient <;> simp [h1, h1']
  · have h1' : ¬ (n : Int) < 126 := by omega
    by_cases h2 : n ≤ 65535
    · have h2' : (n : Int) ≤ 65535 := by omega
      cases stIs s stClient <;> simp [h1, h1', h2, h2']
    · have h2' : ¬ (n : Int) ≤ 65535 := by omega
      have h3' : (n : Int) ≤ 9223372036854775807 := by omega
      cases stIs s stClient <;> simp [h1, h1', h2, h2', h3']

theorem consts_ok : Gen.ws_MaxControlFramePayloadSize = 125 ∧ Gen.ws_MinHeaderSize = 2 := by decide

/-! the decision points of the writer's methods, in source order -/

theorem conds_Writer_Write :
    Gen.facts_wsutil_conds.filter (·.startsWith "Writer_Write:") =
      ["Writer_Write: w.noFlush",
       "Writer_Write: w.Buffered() == 0",
       "Writer_Write: w.err != nil"] := by decide +kernel

theorem conds_Writer_WriteThrough :
    Gen.facts_wsutil_conds.filter (·.startsWith "Writer_WriteThrough:") =
      ["Writer_WriteThrough: w.err != nil",
       "Writer_WriteThrough: w.Buffered() != 0",
       "Writer_WriteThrough: err != nil",
       "Writer_WriteThrough: w.state.ClientSide()",
       "Writer_WriteThrough: w.err == nil"] := by decide +kernel

theorem conds_Writer_ReadFrom :
    Gen.facts_wsutil_conds.filter (·.startsWith "Writer_ReadFrom:") =
      ["Writer_ReadFrom: w.Available() == 0",
       "Writer_ReadFrom: w.noFlush",
       "Writer_ReadFrom: nn != 0 || err != nil",
       "Writer_ReadFrom: nr == maxEmptyReads",
       "Writer_ReadFrom: nn > 0",
       "Writer_ReadFrom: err == io.EOF"] := by decide +kernel

theorem conds_Writer_Grow :
    Gen.facts_wsutil_conds.filter (·.startsWith "Writer_Grow:") =
      ["Writer_Grow: size < len(w.raw)",
       "Writer_Grow: size == len(w.raw)"] := by decide +kernel

theorem conds_Writer_Flush :
    Gen.facts_wsutil_conds.filter (·.startsWith "Writer_Flush:") =
      ["Writer_Flush: (!w.dirty && w.Buffered() == 0) || w.err != nil"] := by decide +kernel

theorem conds_Writer_FlushFragment :
    Gen.facts_wsutil_conds.filter (·.startsWith "Writer_FlushFragment:") =
      ["Writer_FlushFragment: w.Buffered() == 0 || w.err != nil"] := by decide +kernel

theorem conds_writeFrame :
    Gen.facts_wsutil_conds.filter (·.startsWith "writeFrame:") =
      ["writeFrame: s.ClientSide()"] := by decide +kernel

end Ws.Bridge.C06
