/- Bridge C06: writer.go's reserve / headerSize, regenerated from source, are the model's. -/
import WsVerif.Gen.Funcs
import WsVerif.Model.Writer
import WsVerif.Bridge.C03
namespace Ws.Bridge.C06
open Ws

theorem reserve_bridge (s n : Nat) :
    Gen.wsutil_reserve s (n : Int) = (reserve (stIs s stClient) n : Int) := by
  unfold Gen.wsutil_reserve reserve
  rw [(Ws.Bridge.C03.state_bridge s 0).2.2.2.2.1]
  simp only [Gen.wsutil_len7, Gen.wsutil_len16]
  cases stIs s stClient
  · by_cases h1 : n ≤ 127
    · have h1' : (n : Int) ≤ 127 := by omega
      simp [h1, h1']
    · have h1' : ¬ (n : Int) ≤ 127 := by omega
      by_cases h2 : n ≤ 65539
      · have h2' : (n : Int) ≤ 65539 := by omega
        simp [h1, h1', h2, h2']
      · have h2' : ¬ (n : Int) ≤ 65539 := by omega
        simp [h1, h1', h2, h2']
  · by_cases h1 : n ≤ 131
    · have h1' : (n : Int) ≤ 131 := by omega
      simp [h1, h1']
    · have h1' : ¬ (n : Int) ≤ 131 := by omega
      by_cases h2 : n ≤ 65543
      · have h2' : (n : Int) ≤ 65543 := by omega
        simp [h1, h1', h2, h2']
      · have h2' : ¬ (n : Int) ≤ 65543 := by omega
        simp [h1, h1', h2, h2']

theorem headerSize_bridge (s n : Nat) (hn : n < 2 ^ 63) :
    Gen.wsutil_headerSize s (n : Int) = (wHeaderSize (stIs s stClient) n : Int) := by
  unfold Gen.wsutil_headerSize Gen.ws_HeaderSize wHeaderSize
  rw [(Ws.Bridge.C03.state_bridge s 0).2.2.2.2.1]
  simp only [Gen.ws_len16, Gen.ws_len64]
  by_cases h1 : n < 126
  · have h1' : (n : Int) < 126 := by omega
    cases stIs s stClient <;> simp [h1, h1']
  · have h1' : ¬ (n : Int) < 126 := by omega
    by_cases h2 : n ≤ 65535
    · have h2' : (n : Int) ≤ 65535 := by omega
      cases stIs s stClient <;> simp [h1, h1', h2, h2']
    · have h2' : ¬ (n : Int) ≤ 65535 := by omega
      have h3' : (n : Int) ≤ 9223372036854775807 := by omega
      cases stIs s stClient <;> simp [h1, h1', h2, h2', h3']

theorem consts_ok : Gen.ws_MaxControlFramePayloadSize = 125 ∧ Gen.ws_MinHeaderSize = 2 := by decide

end Ws.Bridge.C06
