/-
  C08 — Automatic control-frame replies are always valid frames with the right content.
-/
import WsVerif.Model.Control
import WsVerif.Props.C06
import WsVerif.Props.C03
namespace Ws.C08
open Ws Ws.Spec Ws.C06

/-- Invariant of a ControlWriter between calls: everything accepted so far is sitting in the
    underlying buffer, the running count is exact, and it never exceeds the 125-byte limit. -/
structure CInv (c : CtlWr) : Prop where
  inv : Inv c.w
  count : c.w.buf.length = c.n
  le_limit : c.n ≤ c.limit
  limit_le : c.limit ≤ 125
  limit_size : c.limit ≤ c.w.size
  flushing : c.w.noFlush = false
  no_err : c.w.err = false
  first : c.w.fseq = 0

/-- A Write that fits is buffered (nothing is sent); a Write that would take the running total
    past the limit fails with ErrControlOverflow and accepts nothing. -/
theorem ctl_write_spec (c : CtlWr) (e : Env) (p : Bytes) (h : CInv c) :
    (c.n + p.length > c.limit → c.write e p = some (0, some .ctlOverflow, c, e))
    ∧ (c.n + p.length ≤ c.limit →
        ∃ c', c.write e p = some (p.length, none, c', e) ∧ CInv c'
          ∧ c'.w.buf = c.w.buf ++ p ∧ c'.limit = c.limit ∧ c'.w.op = c.w.op ∧ c'.w.client = c.w.client
          ∧ c'.w.ext = c.w.ext ∧ c'.w.dirty = true) := by
  constructor
  · intro hgt; unfold CtlWr.write; simp [hgt]
  · intro hle
    have hav : p.length ≤ c.w.available := by
      have h1 := h.limit_size; have h2 := h.count
      simp only [Wr.available] at *
      omega
    have hng : ¬ (c.n + p.length > c.limit) := by omega
    unfold CtlWr.write
    simp only [hng, if_false, write_fits c.w e p hav h.no_err]
    refine ⟨_, rfl, ⟨⟨h.inv.off_eq, h.inv.room, ?_⟩, ?_, ?_, h.limit_le, h.limit_size, h.flushing, h.no_err, h.first⟩,
      rfl, rfl, rfl, rfl, rfl, rfl⟩
    · have h1 := h.limit_size; have h2 := h.count
      simp only [Wr.size, List.length_append] at *; omega
    · simp only [List.length_append]; have := h.count; omega
    · simp only; omega

/-- Whatever sequence of writes a ControlWriter is given, the invariant survives and nothing
    reaches the destination before Flush: no fragment can be emitted, and the bytes accepted in
    total never exceed 125. -/
def ctlWrites (c : CtlWr) (e : Env) : List Bytes → Option (CtlWr × Env)
  | [] => some (c, e)
  | p :: ps => match c.write e p with
    | none => none
    | some (_, _, c', e') => ctlWrites c' e' ps

theorem ctlwriter_never_oversized (ps : List Bytes) (c : CtlWr) (e : Env) (h : CInv c) :
    ∃ c', ctlWrites c e ps = some (c', e) ∧ CInv c' ∧ c'.w.buf.length ≤ 125
      ∧ c'.w.op = c.w.op ∧ c'.w.client = c.w.client := by
  induction ps generalizing c with
  | nil => exact ⟨c, rfl, h, by have := h.count; have := h.le_limit; have := h.limit_le; omega, rfl, rfl⟩
  | cons p ps ih =>
    obtain ⟨h1, h2⟩ := ctl_write_spec c e p h
    by_cases hgt : c.n + p.length > c.limit
    · simp only [ctlWrites, h1 hgt]
      exact ih c h
    · obtain ⟨c1, g1, g2, _, _, g5, g6, _, _⟩ := h2 (by omega)
      simp only [ctlWrites, g1]
      obtain ⟨c', k1, k2, k3, k4, k5⟩ := ih c1 g2
      exact ⟨c', k1, k2, k3, by rw [k4, g5], by rw [k5, g6]⟩

/-- Flush of a ControlWriter sends exactly one frame: final, the control opcode, at most 125
    payload bytes (everything accepted), masked with the drawn key iff client. -/
theorem ctl_flush_spec (c : CtlWr) (e : Env) (h : CInv c) (he : EnvOk e) (hop : c.w.op < 16)
    (hbuf : Bytes.WF c.w.buf) (hd : c.w.dirty = true ∨ c.w.buf ≠ []) :
    ∃ c' e', c.flush e = some (none, c', e') ∧ EnvOk e'
      ∧ e'.dst.writes = e.dst.writes ++
          [rfcEncode (wireHeader c.w.client (flushTemplate c.w true) e.popMask.1)
            ++ wirePayload c.w.client c.w.buf e.popMask.1]
      ∧ (flushTemplate c.w true).fin = true ∧ (flushTemplate c.w true).op = c.w.op
      ∧ (flushTemplate c.w true).len ≤ 125 := by
  have hlen : c.w.buf.length < 2 ^ 63 := by
    have := h.count; have := h.le_limit; have := h.limit_le; omega
  obtain ⟨w', e', h1, _, h3, _, h5, _⟩ := flush_spec c.w e h.inv he hop hbuf hlen h.no_err hd
  unfold CtlWr.flush
  simp only [h1]
  refine ⟨_, _, rfl, h3, h5, rfl, ?_, ?_⟩
  · simp [flushTemplate, Wr.opCode, h.first]
  · simp only [flushTemplate]; have := h.count; have := h.le_limit; have := h.limit_le; omega

/-- A ControlWriter built over a buffer of `len + headerSize(len)` bytes (what HandlePing /
    HandleClose allocate) satisfies the invariant with limit = len. -/
theorem newCtl_inv (client : Bool) (op len : Nat) (hlen : len ≤ 125) (hpos : 0 < len) :
    ∃ c, newControlWriterBuffer client op (len + wHeaderSize client len) = some c ∧ CInv c
      ∧ c.limit = len ∧ c.w.op = op ∧ c.w.client = client ∧ c.w.buf = [] ∧ c.w.ext = none ∧ c.n = 0 := by
  unfold newControlWriterBuffer maxControlFramePayloadSize
  have hh : wHeaderSize client len = (if client then 6 else 2) := by
    unfold wHeaderSize; cases client <;> simp <;> omega
  have hmx : wHeaderSize client 125 = (if client then 6 else 2) := by
    unfold wHeaderSize; cases client <;> simp
  have hnot : ¬ (len + wHeaderSize client len > 125 + wHeaderSize client 125) := by rw [hh, hmx]; omega
  simp only [hnot, if_false]
  have hres : reserve client (len + wHeaderSize client len) = (if client then 6 else 2) := by
    unfold reserve; rw [hh]; cases client <;> simp <;> omega
  unfold newWriterBuffer
  simp only [hres]
  have hnle : ¬ (len + wHeaderSize client len ≤ if client = true then 6 else 2) := by
    rw [hh]; cases client <;> simp <;> omega
  simp only [hnle, if_false, Option.map_some]
  refine ⟨_, rfl, ⟨⟨by simp [hres], by simp only; rw [hh]; cases client <;> simp <;> omega, by simp [Wr.size]⟩,
    rfl, by simp, ?_, ?_, rfl, rfl, rfl⟩, ?_, rfl, rfl, rfl, rfl, rfl⟩
  · simp only [Wr.size]; rw [hh]; cases client <;> simp <;> omega
  · simp only [Wr.size]; rw [hh]; cases client <;> simp
  · simp only [Wr.size]; rw [hh]; cases client <;> simp

/-- io.Copy into the control writer: any chunking of bytes that fit ends up buffered whole. -/
theorem copyInto_all (chunks : List Bytes) (c : CtlWr) (e : Env) (h : CInv c)
    (hfit : c.n + chunks.flatten.length ≤ c.limit) :
    ∃ c', copyInto c e chunks = some (none, c', e) ∧ CInv c' ∧ c'.w.buf = c.w.buf ++ chunks.flatten
      ∧ c'.limit = c.limit ∧ c'.w.op = c.w.op ∧ c'.w.client = c.w.client ∧ c'.w.ext = c.w.ext
      ∧ ((c.w.dirty = true ∨ chunks.flatten ≠ []) → c'.w.dirty = true) := by
  induction chunks generalizing c with
  | nil => exact ⟨c, rfl, h, by simp, rfl, rfl, rfl, rfl, by simp⟩
  | cons ch rest ih =>
    simp only [List.flatten_cons, List.length_append] at hfit
    by_cases hemp : ch.isEmpty = true
    · have : ch = [] := List.isEmpty_iff.mp hemp
      subst this
      simp only [copyInto, List.isEmpty_nil, if_true, List.flatten_cons, List.nil_append]
      exact ih c h (by simpa using hfit)
    · obtain ⟨c1, g1, g2, g3, g4, g5, g6, g7, g8⟩ := (ctl_write_spec c e ch h).2 (by omega)
      have hn1 : c1.n = c.n + ch.length := by
        have a := g2.count; have b := h.count; rw [g3, List.length_append] at a; omega
      obtain ⟨c', k1, k2, k3, k4, k5, k6, k7, k8⟩ := ih c1 g2 (by rw [hn1, g4]; omega)
      simp only [copyInto, hemp, Bool.false_eq_true, if_false, g1]
      refine ⟨c', k1, k2, ?_, by rw [k4, g4], by rw [k5, g5], by rw [k6, g6], by rw [k7, g7], ?_⟩
      · rw [k3, g3, List.flatten_cons, List.append_assoc]
      · intro _; exact k8 (Or.inl g8)

/-- A ping of 1..125 bytes, whose payload the handler can read in full (in any chunking), is
    answered with exactly one frame: final, opcode pong, the identical payload, masked with the
    drawn key iff the handler is on the client side; the handler reports no error. -/
theorem ping_reply_ok (client : Bool) (h : Header) (src : CtlSrc) (e : Env) (he : EnvOk e)
    (hlen : 0 < h.len ∧ h.len ≤ 125) (hsrc : src.bytes.length = h.len) (hwf : Bytes.WF src.bytes)
    (hfin : src.fin = .eof) (hue : src.ueofEnd = false) :
    ∃ e', handlePing client h src false e = some (none, e') ∧ EnvOk e'
      ∧ e'.dst.writes = e.dst.writes ++
          [rfcEncode (wireHeader client ⟨true, 0, opPong, false, Mask.zero, h.len⟩ e.popMask.1)
            ++ wirePayload client src.bytes e.popMask.1] := by
  obtain ⟨c, hc1, hc2, hc3, hc4, hc5, hc6, hc7, hc8⟩ := newCtl_inv client opPong h.len hlen.2 hlen.1
  have hne : h.len ≠ 0 := by omega
  unfold handlePing
  simp only [hne, if_false, hc1, Bool.false_eq_true]
  -- the chunks handed to the writer: either as read, or everything at once (WriterTo sources)
  have key : ∀ chunks : List Bytes, chunks.flatten = src.bytes →
      ∃ c', copyInto c e chunks = some (none, c', e) ∧ CInv c' ∧ c'.w.buf = src.bytes
        ∧ c'.w.op = opPong ∧ c'.w.client = client ∧ c'.w.ext = none ∧ c'.w.dirty = true := by
    intro chunks hfl
    obtain ⟨c', k1, k2, k3, _, k5, k6, k7, k8⟩ := copyInto_all chunks c e hc2 (by rw [hc8, hfl, hsrc, hc3]; omega)
    refine ⟨c', k1, k2, by rw [k3, hc6, hfl]; simp, by rw [k5, hc4], by rw [k6, hc5], by rw [k7, hc7], ?_⟩
    apply k8; right; rw [hfl]; intro hnil; rw [hnil] at hsrc; simp at hsrc; omega
  have hend : src.endErr = none := by simp [CtlSrc.endErr, hfin, hue]
  obtain ⟨c', k1, k2, k3, k4, k5, k6, k7⟩ :=
    key (if src.writerTo then [src.chunks.flatten] else src.chunks) (by split <;> simp [CtlSrc.bytes])
  simp only [k1, hend]
  obtain ⟨c'', e', f1, f2, f3, _, _, _⟩ := ctl_flush_spec c' e k2 he (by rw [k4]; decide) (by rw [k3]; exact hwf) (Or.inl k7)
  simp only [f1, Option.map_none]
  refine ⟨e', rfl, f2, ?_⟩
  rw [f3, k5, k3]
  congr 3
  simp [flushTemplate, Wr.opCode, k2.first, k4, k6, extRsv, k3, hsrc]

/-- Every automatic reply header passes the PEER's own header check (whether or not the peer is
    in the middle of a fragmented message): final, control opcode, at most 125 bytes, no reserved
    bits, masked exactly when we are the client. -/
theorem reply_header_ok (client : Bool) (op len : Nat) (m : Mask) (hop : op = opPong ∨ op = opClose)
    (hlen : len ≤ 125) (frag : Bool) :
    checkHeader (wireHeader client ⟨true, 0, op, false, Mask.zero, len⟩ m)
      ((if client then stServer else stClient) ||| (if frag then stFragmented else 0)) = none := by
  have hl : decide (len > 125) = false := by simp; omega
  rcases hop with h | h <;> subst h <;> cases client <;> cases frag <;>
    simp [checkHeader, wireHeader, hl, opIsReserved, opIsControl, opPong, opClose, stIs, stServer, stClient,
      stFragmented, stExtended, opContinuation]

/-- A close frame without payload is answered with an empty close frame and reported as 1005. -/
theorem close_empty_ok (client : Bool) (h : Header) (src : CtlSrc) (e : Env) (he : EnvOk e) (hl : h.len = 0)
    (errText : ProtoErr → Bytes) :
    ∃ e', handleClose client h src false e errText = some (some (.closed 1005 []), e')
      ∧ e'.dst.writes = e.dst.writes ++ [frameHeaderOnly client opClose] ∧ e'.masks = e.masks := by
  unfold handleClose
  simp only [hl, if_true, dst_write_ok _ _ he.no_fail]
  exact ⟨_, rfl, rfl, rfl⟩

/-- A close frame with an acceptable code and a valid UTF-8 reason is echoed: one final close frame
    carrying exactly the 2-byte status code, and the peer's code and reason are reported. -/
theorem close_valid_ok (client : Bool) (h : Header) (src : CtlSrc) (e : Env) (he : EnvOk e)
    (errText : ProtoErr → Bytes) (hlen : 2 ≤ h.len ∧ h.len ≤ 125) (hsrc : src.bytes.length = h.len)
    (hwf : Bytes.WF src.bytes)
    (hok : checkCloseFrameData (parseCloseFrameData src.bytes).1 (parseCloseFrameData src.bytes).2 = none) :
    ∃ e', handleClose client h src false e errText
        = some (some (.closed (parseCloseFrameData src.bytes).1 (parseCloseFrameData src.bytes).2), e')
      ∧ EnvOk e'
      ∧ e'.dst.writes = e.dst.writes ++
          [rfcEncode (wireHeader client ⟨true, 0, opClose, false, Mask.zero, 2⟩ e.popMask.1)
            ++ wirePayload client (src.bytes.take 2) e.popMask.1] := by
  obtain ⟨c, hc1, hc2, hc3, hc4, hc5, hc6, hc7, hc8⟩ := newCtl_inv client opClose h.len hlen.2 (by omega)
  have hne : h.len ≠ 0 := by omega
  have hnlt : ¬ src.bytes.length < h.len := by omega
  have htake : src.bytes.take h.len = src.bytes := List.take_of_length_le (by omega)
  unfold handleClose
  simp only [hne, if_false, hnlt, Bool.false_eq_true, htake, hok, hc1]
  have hp2 : (src.bytes.take 2).length = 2 := by rw [List.length_take]; omega
  obtain ⟨c1, g1, g2, g3, _, g5, g6, g7, g8⟩ := (ctl_write_spec c e (src.bytes.take 2) hc2).2 (by rw [hc8, hp2, hc3]; omega)
  simp only [g1]
  have hbuf : c1.w.buf = src.bytes.take 2 := by rw [g3, hc6]; simp
  obtain ⟨c'', e', f1, f2, f3, _, _, _⟩ := ctl_flush_spec c1 e g2 he (by rw [g5, hc4]; decide)
    (by rw [hbuf]; exact fun x hx => hwf x (List.mem_of_mem_take hx)) (Or.inl g8)
  simp only [f1]
  refine ⟨e', rfl, f2, ?_⟩
  rw [f3, g6, hc5, hbuf]
  congr 3
  simp [flushTemplate, Wr.opCode, g2.first, g5, hc4, g7, hc7, extRsv, hbuf, hp2]

/-- The texts of the protocol errors are acceptable close reasons for status 1002. -/
theorem errText_ok (pe : ProtoErr) : checkCloseFrameData 1002 (pe.textBytes.take 123) = none
    ∧ Bytes.WF pe.textBytes := by
  cases pe <;> exact ⟨by decide +kernel, by decide +kernel⟩

/-- A close frame with an unacceptable code or an invalid UTF-8 reason is answered with ONE final
    close frame carrying status 1002 (masked with the drawn key iff client) whose payload the peer's
    close-payload check accepts, and the protocol error is reported to the caller. -/
theorem close_invalid_ok (client : Bool) (h : Header) (src : CtlSrc) (e : Env) (he : EnvOk e)
    (hlen : 0 < h.len) (hsrc : src.bytes.length = h.len) (pe : ProtoErr)
    (hbad : checkCloseFrameData (parseCloseFrameData src.bytes).1 (parseCloseFrameData src.bytes).2 = some pe) :
    ∃ e' body, handleClose client h src false e ProtoErr.textBytes = some (some (.proto pe), e')
      ∧ newCloseFrameBody 1002 pe.textBytes = some body ∧ body.length ≤ 125
      ∧ parseCloseFrameData body = (1002, pe.textBytes.take 123)
      ∧ checkCloseFrameData 1002 (pe.textBytes.take 123) = none
      ∧ e'.dst.writes = e.dst.writes ++
          [rfcEncode (wireHeader client ⟨true, 0, opClose, false, Mask.zero, body.length⟩ e.popMask.1),
           wirePayload client body e.popMask.1] := by
  obtain ⟨body, hb1, hb2, hb3⟩ := C03.body_roundtrip 1002 (by omega) pe.textBytes
  obtain ⟨ht1, ht2⟩ := errText_ok pe
  have hne : h.len ≠ 0 := by omega
  have hnlt : ¬ src.bytes.length < h.len := by omega
  have htake : src.bytes.take h.len = src.bytes := List.take_of_length_le (by omega)
  have hbwf : Bytes.WF body := by
    -- body = code bytes ++ cropped text
    unfold newCloseFrameBody putCloseFrameBody at hb1
    simp only at hb1
    split at hb1
    · simp at hb1
    · simp only [Option.some.injEq] at hb1
      subst hb1
      intro x hx
      simp only [List.mem_append, putU16, List.mem_cons, List.not_mem_nil, or_false] at hx
      rcases hx with (hx | hx) | hx
      · rcases hx with hx | hx <;> subst hx <;> omega
      · exact ht2 x (List.mem_of_mem_take hx)
      · have := List.mem_of_mem_drop hx
        simp at this; omega
  have htw : (⟨true, 0, opClose, false, Mask.zero, body.length⟩ : Header).WF := by
    refine ⟨?_, ?_, ?_, Mask.zero_wf, fun _ => rfl⟩
    · show 0 < 8; omega
    · show opClose < 16; decide
    · show body.length < 2 ^ 63; omega
  obtain ⟨hs, _⟩ := sealFrame_spec client _ body e he htw rfl hbwf
  obtain ⟨_, he2⟩ := popMask_wf e he
  have hf2 : e.popMask.2.dst.failAt = none := he2.no_fail
  unfold handleClose
  simp only [hne, if_false, hnlt, Bool.false_eq_true, htake, hbad]
  unfold closeWithProtocolError
  simp only [hb1, hs]
  cases client
  · generalize hH : rfcEncode (wireHeader false ⟨true, 0, opClose, false, Mask.zero, body.length⟩ e.popMask.1) = H
    generalize hP : wirePayload false body e.popMask.1 = P
    refine ⟨{ e with dst := { e.dst with writes := e.dst.writes ++ [H, P], calls := e.dst.calls + 1 + 1 } }, body,
      ?_, rfl, hb2, hb3, ht1, by rw [hH, hP]⟩
    simp [Dst.write, he.no_fail]
  · generalize hH : rfcEncode (wireHeader true ⟨true, 0, opClose, false, Mask.zero, body.length⟩ e.popMask.1) = H
    generalize hP : wirePayload true body e.popMask.1 = P
    refine ⟨{ masks := e.popMask.2.masks,
              dst := { writes := e.dst.writes ++ [H, P], calls := e.popMask.2.dst.calls + 1 + 1,
                       failAt := e.popMask.2.dst.failAt } }, body,
      ?_, rfl, hb2, hb3, ht1, by rw [hH, hP]⟩
    simp [Dst.write, hf2, he.no_fail, popMask_dst]

end Ws.C08
