/-
  C13 over histories.  Sending: in EVERY history of Write / WriteThrough / FlushFragment / Flush on a writer
  with the compression state attached, the k-th frame of each message — complete or still open — carries
  RSV1 exactly when k = 0 and the message is a compressed data message; every other frame carries no RSV bit
  at all, however the message was fragmented.  Receiving: after ANY sequence of headers accepted by the
  state, 'compressed' is the RSV1 of the most recent first data frame (untouched if there was none) —
  continuation and control frames in between do not disturb it — and each header handed on has RSV1
  cleared exactly on first data frames, the other bits as they came.
-/
import WsVerif.Props.C13
namespace Ws.C13
open Ws Ws.Spec Ws.C06

/-! ### sending -/

theorem extRsv_cont (ext : Option Bool) : extRsv ext opContinuation = 0 := by
  unfold extRsv; split <;> simp [opContinuation]

/-- RSV1 for a message start: 4 exactly for a compressed data message (text / binary / reserved data opcode) -/
theorem extRsv_first (ext : Option Bool) (op : Nat) :
    extRsv ext op = if ext = some true ∧ opIsData op = true ∧ op ≠ opContinuation then 4 else 0 := by
  unfold extRsv
  cases ext with
  | none => simp
  | some b => cases b <;> simp

theorem openOK_rsv (op : Nat) (ext : Option Bool) : ∀ (fs : List AF) (i : Nat), openOK op ext i fs →
    ∀ (k : Nat) (hk : k < fs.length), fs[k].rsv = if i + k = 0 then extRsv ext op else 0
  | [], _, _, k, hk => by simp at hk
  | f :: fs, i, h, k, hk => by
    obtain ⟨_, _, hr, hrest⟩ := h
    cases k with
    | zero =>
      simp only [List.getElem_cons_zero, Nat.add_zero, hr, opAt]
      by_cases hi : i = 0
      · simp [hi]
      · simp [hi, extRsv_cont]
    | succ k =>
      have := openOK_rsv op ext fs (i + 1) hrest k (by simpa using hk)
      simp only [List.getElem_cons_succ]
      rw [this]
      have h1 : ¬ (i + 1 + k = 0) := by omega
      have h2 : ¬ (i + (k + 1) = 0) := by omega
      simp [h1, h2]

theorem msgOK_rsv (op : Nat) (ext : Option Bool) (m : List AF) (h : msgOK op ext m) :
    ∀ (k : Nat) (hk : k < m.length), m[k].rsv = if k = 0 then extRsv ext op else 0 := by
  obtain ⟨pre, last, rfl, hopen, _, _, hr⟩ := h
  intro k hk
  by_cases hlt : k < pre.length
  · rw [List.getElem_append_left hlt]
    simpa using openOK_rsv op ext pre 0 hopen k hlt
  · have hk' : k = pre.length := by simp at hk; omega
    subst hk'
    simp only [List.getElem_append_right (Nat.le_refl _), Nat.sub_self, List.getElem_cons_zero, hr, opAt]
    by_cases h0 : pre.length = 0
    · simp [h0]
    · simp [h0, extRsv_cont]

/-- **Every history of the writer**: what was sent splits into whole messages and the frames of the message
    still open; in each, frame 0 carries `extRsv` of the configured opcode (RSV1 iff a compressed data message)
    and EVERY other frame carries RSV = 0. -/
theorem sent_rsv1_first_frame_only (w0 : Wr) (ops : List WOp) (hfresh : w0.fseq = 0) :
    ∃ (msgs : List (List AF)) (opn : List AF), (runA w0 ops).2.1 = msgs.flatten ++ opn
      ∧ (∀ m ∈ msgs, ∀ (k : Nat) (hk : k < m.length), m[k].rsv = if k = 0 then extRsv w0.ext w0.op else 0)
      ∧ (∀ (k : Nat) (hk : k < opn.length), opn[k].rsv = if k = 0 then extRsv w0.ext w0.op else 0) := by
  obtain ⟨⟨msgs, opn, hsplit, hm, ho, _⟩, _⟩ := (history_ok w0 ops hfresh).1
  refine ⟨msgs, opn, hsplit, fun m hmem => msgOK_rsv _ _ m (hm m hmem), ?_⟩
  intro k hk
  simpa using openOK_rsv _ _ opn 0 ho k hk

/-- no frame of any history carries RSV2 or RSV3, and none carries RSV1 unless compression is on for the message -/
theorem sent_rsv_values (w0 : Wr) (ops : List WOp) (hfresh : w0.fseq = 0) :
    ∀ f ∈ (runA w0 ops).2.1, f.rsv = 0 ∨ (f.rsv = 4 ∧ w0.ext = some true ∧ opIsData w0.op = true ∧ w0.op ≠ opContinuation) := by
  obtain ⟨msgs, opn, hsplit, hm, ho⟩ := sent_rsv1_first_frame_only w0 ops hfresh
  have hval : ∀ (k : Nat), (if k = 0 then extRsv w0.ext w0.op else 0) = 0
      ∨ ((if k = 0 then extRsv w0.ext w0.op else 0) = 4 ∧ w0.ext = some true ∧ opIsData w0.op = true ∧ w0.op ≠ opContinuation) := by
    intro k
    by_cases hk : k = 0
    · simp only [hk, if_true]
      rw [extRsv_first]
      by_cases hc : w0.ext = some true ∧ opIsData w0.op = true ∧ w0.op ≠ opContinuation
      · rw [if_pos hc]; exact Or.inr ⟨rfl, hc⟩
      · simp [hc]
    · simp [hk]
  intro f hf
  rw [hsplit, List.mem_append] at hf
  rcases hf with hf | hf
  · obtain ⟨m, hmem, hfm⟩ := List.mem_flatten.mp hf
    obtain ⟨k, hk, rfl⟩ := List.getElem_of_mem hfm
    rw [hm m hmem k hk]; exact hval k
  · obtain ⟨k, hk, rfl⟩ := List.getElem_of_mem hf
    rw [ho k hk]; exact hval k

/-! ### receiving -/

def isFirstData (h : Header) : Bool := opIsData h.op && h.op != opContinuation

/-- the state run over a sequence of headers, stopping at the first refusal: the headers handed on, the
    refusal if any, the final state -/
def recvRun (c : Bool) : List Header → List Header × Option ProtoErr × Bool
  | [] => ([], none, c)
  | h :: hs =>
    match unsetBits c h with
    | (_, some e, c') => ([], some e, c')
    | (h', none, c') =>
      let (out, e, c'') := recvRun c' hs
      (h' :: out, e, c'')

/-- RSV1 of the most recent first data frame; `c` when there has been none -/
def lastStart (c : Bool) : List Header → Bool
  | [] => c
  | h :: hs => lastStart (if isFirstData h then h.rsv &&& 4 != 0 else c) hs

/-- what the application is handed for an accepted header -/
def handed (h : Header) : Header := if isFirstData h then { h with rsv := h.rsv &&& 3 } else h

/-- a header the state refuses: RSV1 on a continuation or control frame -/
def misplaced (h : Header) : Bool := !isFirstData h && h.rsv &&& 4 != 0

theorem unsetBits_eq (c : Bool) (h : Header) :
    unsetBits c h = (handed h, (if misplaced h then some .unexpectedCompressionBit else none),
                     if isFirstData h then h.rsv &&& 4 != 0 else c) := by
  unfold unsetBits handed misplaced isFirstData
  by_cases hd : (opIsData h.op && h.op != opContinuation) = true
  · simp [hd]
  · have hd' : (opIsData h.op && h.op != opContinuation) = false := by simpa using hd
    by_cases h4 : (h.rsv &&& 4 != 0) = true
    · simp [hd', h4]
    · have h4' : (h.rsv &&& 4 != 0) = false := by simpa using h4
      simp [hd', h4']

/-- **Every accepted history**: no refusal, every header handed on with RSV1 cleared exactly where it may stand,
    and the state is the RSV1 of the most recent message start — continuation and control frames in between
    leave it alone. -/
theorem recv_history (hs : List Header) (hok : ∀ h ∈ hs, misplaced h = false) :
    ∀ c, recvRun c hs = (hs.map handed, none, lastStart c hs) := by
  induction hs with
  | nil => intro c; rfl
  | cons h hs ih =>
    intro c
    have hm := hok h (List.mem_cons_self ..)
    rw [recvRun, unsetBits_eq, hm]
    simp only [Bool.false_eq_true, if_false]
    rw [ih (fun g hg => hok g (List.mem_cons_of_mem _ hg))]
    rfl

/-- **… and the first misplaced RSV1 ends it**: everything before it was handed on, the error is the protocol
    error, and the state is still that of the last message start before it. -/
theorem recv_history_refused (pre : List Header) (bad : Header) (post : List Header)
    (hok : ∀ h ∈ pre, misplaced h = false) (hbad : misplaced bad = true) :
    ∀ c, recvRun c (pre ++ bad :: post) = (pre.map handed, some .unexpectedCompressionBit, lastStart c pre) := by
  induction pre with
  | nil =>
    intro c
    have hnf : isFirstData bad = false := by
      unfold misplaced at hbad; cases hf : isFirstData bad <;> simp_all
    simp only [List.nil_append, recvRun, unsetBits_eq, hbad, if_true, hnf, Bool.false_eq_true, if_false, List.map_nil, lastStart]
  | cons h hs ih =>
    intro c
    have hm := hok h (List.mem_cons_self ..)
    rw [List.cons_append, recvRun, unsetBits_eq, hm]
    simp only [Bool.false_eq_true, if_false]
    rw [ih (fun g hg => hok g (List.mem_cons_of_mem _ hg))]
    rfl

/-- control frames and continuations between fragments do not disturb the state -/
theorem recv_state_undisturbed (c : Bool) (hs : List Header) (hn : ∀ h ∈ hs, isFirstData h = false) :
    lastStart c hs = c := by
  induction hs with
  | nil => rfl
  | cons h hs ih =>
    rw [lastStart, hn h (List.mem_cons_self ..)]
    exact ih (fun g hg => hn g (List.mem_cons_of_mem _ hg))

/-- the handed-on header differs from the received one in RSV1 only -/
theorem handed_fields (h : Header) (hr : h.rsv < 8) :
    (handed h).fin = h.fin ∧ (handed h).op = h.op ∧ (handed h).masked = h.masked ∧ (handed h).mask = h.mask
      ∧ (handed h).len = h.len ∧ (handed h).rsv % 4 = h.rsv % 4 ∧ (isFirstData h = true → (handed h).rsv < 4) := by
  have e2 : ∀ r < 8, (r &&& 3) % 4 = r % 4 ∧ r &&& 3 < 4 := by decide
  unfold handed
  by_cases hf : isFirstData h = true
  · rw [if_pos hf]
    exact ⟨rfl, rfl, rfl, rfl, rfl, (e2 _ hr).1, fun _ => (e2 _ hr).2⟩
  · simp [hf]

/-! Non-vacuity: a compressed text in three fragments with a ping in between, then an uncompressed binary -/
example : recvRun false [⟨false, 4, 1, false, Mask.zero, 1⟩, ⟨true, 0, 9, false, Mask.zero, 0⟩, ⟨false, 0, 0, false, Mask.zero, 1⟩,
                         ⟨true, 0, 0, false, Mask.zero, 1⟩, ⟨true, 0, 2, false, Mask.zero, 1⟩] =
    ([⟨false, 0, 1, false, Mask.zero, 1⟩, ⟨true, 0, 9, false, Mask.zero, 0⟩, ⟨false, 0, 0, false, Mask.zero, 1⟩,
      ⟨true, 0, 0, false, Mask.zero, 1⟩, ⟨true, 0, 2, false, Mask.zero, 1⟩], none, false) := by decide
example : lastStart false [⟨false, 4, 1, false, Mask.zero, 1⟩, ⟨true, 0, 9, false, Mask.zero, 0⟩, ⟨false, 0, 0, false, Mask.zero, 1⟩] = true := by decide

end Ws.C13
