/-
  C12 — permessage-deflate payloads round-trip and interoperate with standard DEFLATE.

  The compressor/decompressor are parameters of the model (compress/flate is outside gobwas/ws);
  what the library adds is the tail handling, and that is what is proved, for EVERY sequence of
  compressor writes and EVERY pattern of reads:
    * cbuf withholds exactly the last min(4, total) bytes and passes everything before them to the
      destination unchanged and in order (`cbuf_write_spec`, `feed_spec`);
    * after a Flush/Close that reports success, destination ++ 00 00 ff ff = everything the
      compressor produced (`flush_ok_output`) — so appending the tail restores the compressor's
      stream, which by the compressor's contract inflates to the message;
    * a compressor whose output does not end in 00 00 ff ff makes Flush/Close fail
      (`flush_bad_tail`);
    * the suffixed reader delivers the source followed by 00 00 ff ff 01 00 00 ff ff, once and in
      order, for every pattern of read sizes (`sufrd_read_conserve`, `sufrd_drain_all`).
  That DEFLATE itself round-trips is decided by the independent decoder/encoder oracles.
-/
import WsVerif.Model.Flate
import WsVerif.Model.FlateFrame
import WsVerif.Proofs.Bufio
namespace Ws.C12
open Ws

/-- A destination that never fails. -/
def Dst.Good (d : Dst) : Prop := d.failAt = none

theorem dst_write_good (d : Dst) (p : Bytes) (h : Dst.Good d) :
    (d.write p).1 = true ∧ (d.write p).2.bytes = d.bytes ++ p ∧ Dst.Good (d.write p).2 := by
  unfold Dst.Good at h
  simp [Dst.write, h, Dst.bytes, Dst.Good]

theorem flush_good (c : CBuf) (p : Bytes) (hf : c.failed = false) (hg : Dst.Good c.dst) :
    (c.flush p).failed = false ∧ (c.flush p).dst.bytes = c.dst.bytes ++ p ∧ Dst.Good (c.flush p).dst
      ∧ (c.flush p).buf = c.buf := by
  obtain ⟨a, b, d⟩ := dst_write_good c.dst p hg
  unfold CBuf.flush
  simp [hf, a, b, d]

/-- cbuf.Write: nothing is lost or reordered, and exactly the last min(4, total) bytes stay. -/
theorem cbuf_write_spec (c : CBuf) (p : Bytes) (hf : c.failed = false) (hg : Dst.Good c.dst) (hb : c.buf.length ≤ 4) :
    (c.write p).1 = true ∧ (c.write p).2.failed = false ∧ Dst.Good (c.write p).2.dst
      ∧ (c.write p).2.dst.bytes ++ (c.write p).2.buf = c.dst.bytes ++ c.buf ++ p
      ∧ (c.write p).2.buf.length = min 4 (c.buf.length + p.length) := by
  unfold CBuf.write
  simp only [hf, Bool.false_eq_true, if_false]
  by_cases hp : p.length > 4
  · -- head = p[:len-4], tail = last four
    simp only [hp, if_true]
    have htl : (p.drop (p.length - 4)).length = 4 := by simp; omega
    have hhd : (p.take (p.length - 4)).length > 0 := by simp; omega
    by_cases hn : c.buf.length + (p.drop (p.length - 4)).length > 4
    · simp only [hn, if_true, hhd]
      have hx : c.buf.length + (p.drop (p.length - 4)).length - 4 = c.buf.length := by omega
      rw [hx]
      obtain ⟨f1, f2, f3, f4⟩ := flush_good c (c.buf.take c.buf.length) hf hg
      let c1 : CBuf := { (c.flush (c.buf.take c.buf.length)) with buf := c.buf.drop c.buf.length }
      have c1f : c1.failed = false := f1
      have c1g : Dst.Good c1.dst := f3
      obtain ⟨g1, g2, g3, g4⟩ := flush_good c1 (p.take (p.length - 4)) c1f c1g
      refine ⟨?_, g1, g3, ?_, ?_⟩
      · show (!(c1.flush (p.take (p.length - 4))).failed) = true
        rw [g1]; rfl
      · show (c1.flush _).dst.bytes ++ ((c1.flush _).buf ++ _) = _
        rw [g2, g4]
        show (c.flush _).dst.bytes ++ _ ++ (c.buf.drop c.buf.length ++ _) = _
        rw [f2]
        simp [List.append_assoc]
      · show ((c1.flush _).buf ++ _).length = _
        rw [g4]
        show (c.buf.drop c.buf.length ++ _).length = _
        simp; omega
    · have : c.buf.length = 0 := by omega
      simp only [hn, if_false, hhd, if_true]
      obtain ⟨g1, g2, g3, g4⟩ := flush_good c (p.take (p.length - 4)) hf hg
      have hbuf : c.buf = [] := List.length_eq_zero_iff.mp this
      refine ⟨?_, g1, g3, ?_, ?_⟩
      · show (!(c.flush (p.take (p.length - 4))).failed) = true
        rw [g1]; rfl
      · show (c.flush _).dst.bytes ++ ((c.flush _).buf ++ _) = _
        rw [g2, g4, hbuf]; simp [List.append_assoc]
      · show ((c.flush _).buf ++ _).length = _
        rw [g4, hbuf]; simp; omega
  · simp only [hp, if_false, List.length_nil, Nat.lt_irrefl]
    by_cases hn : c.buf.length + p.length > 4
    · simp only [hn, if_true]
      obtain ⟨f1, f2, f3, f4⟩ := flush_good c (c.buf.take (c.buf.length + p.length - 4)) hf hg
      refine ⟨?_, f1, f3, ?_, ?_⟩
      · show (!(c.flush (c.buf.take (c.buf.length + p.length - 4))).failed) = true
        rw [f1]; rfl
      · show (c.flush _).dst.bytes ++ (c.buf.drop _ ++ p) = _
        rw [f2]; simp [List.append_assoc]
        rw [← List.append_assoc, List.take_append_drop]
      · show (c.buf.drop _ ++ p).length = _
        simp; omega
    · simp only [hn, if_false]
      refine ⟨by simp [hf], hf, hg, by simp [List.append_assoc], by simp; omega⟩

/-- Any sequence of compressor writes: destination ++ withheld = everything written, and the
    withheld part has min(4, total) bytes. -/
theorem feed_spec (w : FlWr) (chunks : List Bytes) (hf : w.cbuf.failed = false) (hg : Dst.Good w.cbuf.dst)
    (hb : w.cbuf.buf.length ≤ 4) :
    (w.feed chunks).1 = true ∧ (w.feed chunks).2.failed = false ∧ Dst.Good (w.feed chunks).2.dst
      ∧ (w.feed chunks).2.dst.bytes ++ (w.feed chunks).2.buf = w.cbuf.dst.bytes ++ w.cbuf.buf ++ chunks.flatten
      ∧ (w.feed chunks).2.buf.length = min 4 (w.cbuf.buf.length + chunks.flatten.length) := by
  unfold FlWr.feed
  generalize w.cbuf = c at *
  induction chunks generalizing c with
  | nil => simp [hf, hg]; omega
  | cons ch rest ih =>
    simp only [List.foldl_cons, Bool.not_true, Bool.false_eq_true, if_false]
    obtain ⟨a1, a2, a3, a4, a5⟩ := cbuf_write_spec c ch hf hg hb
    have hb' : (c.write ch).2.buf.length ≤ 4 := by rw [a5]; omega
    have := ih (c.write ch).2 a2 a3 hb'
    have e : c.write ch = (true, (c.write ch).2) := by rw [← a1]
    rw [e]
    obtain ⟨b1, b2, b3, b4, b5⟩ := this
    refine ⟨b1, b2, b3, ?_, ?_⟩
    · rw [b4, a4]; simp [List.append_assoc]
    · rw [b5, a5]; simp; omega

theorem tailOk_iff (c : CBuf) (hb : c.buf.length ≤ 4) : c.tailOk = true ↔ c.buf = compressionTail := by
  unfold CBuf.tailOk compressionTail
  constructor
  · intro h
    have h' : c.buf ++ List.replicate (4 - c.buf.length) 0 = [0, 0, 255, 255] := by simpa using h
    match hc : c.buf, hb with
    | [], _ => rw [hc] at h'; simp at h'
    | [a], _ => rw [hc] at h'; simp [List.replicate] at h'
    | [a, b], _ => rw [hc] at h'; simp [List.replicate] at h'
    | [a, b, d], _ => rw [hc] at h'; simp [List.replicate] at h'
    | [a, b, d, e], _ => rw [hc] at h'; simpa using h'
    | _ :: _ :: _ :: _ :: _ :: _, hb => simp at hb
  · intro h; rw [h]; decide

/-- After a successful Flush/Close, appending 00 00 ff ff to what reached the destination gives
    back exactly what the compressor produced since the writer was (re)set. -/
theorem flush_ok_output (w : FlWr) (chunks : List Bytes) (he : w.err = none) (hf : w.cbuf.failed = false)
    (hg : Dst.Good w.cbuf.dst) (hb : w.cbuf.buf.length ≤ 4) (hok : (w.flush chunks).1 = none) :
    (w.flush chunks).2.cbuf.dst.bytes ++ compressionTail = w.cbuf.dst.bytes ++ w.cbuf.buf ++ chunks.flatten := by
  obtain ⟨b1, b2, b3, b4, b5⟩ := feed_spec w chunks hf hg hb
  unfold FlWr.flush at hok ⊢
  rw [he] at hok ⊢
  simp only at hok ⊢
  rw [show w.feed chunks = ((w.feed chunks).1, (w.feed chunks).2) from rfl] at hok ⊢
  simp only [b1, Bool.not_true, Bool.false_eq_true, if_false] at hok ⊢
  by_cases ht : (w.feed chunks).2.tailOk = true
  · have := (tailOk_iff _ (by rw [b5]; omega)).mp ht
    rw [← b4, this]
  · simp [ht] at hok

/-- A compressor that does not end its flush with 00 00 ff ff is reported. -/
theorem flush_bad_tail (w : FlWr) (chunks : List Bytes) (he : w.err = none) (hf : w.cbuf.failed = false)
    (hg : Dst.Good w.cbuf.dst) (hb : w.cbuf.buf.length ≤ 4)
    (hbad : ∀ pre, w.cbuf.dst.bytes ++ w.cbuf.buf ++ chunks.flatten ≠ pre ++ compressionTail) :
    (w.flush chunks).1 = some .badTail := by
  obtain ⟨b1, b2, b3, b4, b5⟩ := feed_spec w chunks hf hg hb
  unfold FlWr.flush
  rw [he]
  simp only
  rw [show w.feed chunks = ((w.feed chunks).1, (w.feed chunks).2) from rfl]
  simp only [b1, Bool.not_true, Bool.false_eq_true, if_false]
  by_cases ht : (w.feed chunks).2.tailOk = true
  · have := (tailOk_iff _ (by rw [b5]; omega)).mp ht
    exact absurd (by rw [← b4, this]) (hbad (w.feed chunks).2.dst.bytes)
  · simp [ht]

/-- Once the writer has failed it stays failed and writes nothing more. -/
theorem writer_err_sticky (w : FlWr) (e : FlErr) (h : w.err = some e) (chunks : List Bytes) :
    w.write chunks = (some e, w) ∧ w.flush chunks = (some e, w) := by
  simp [FlWr.write, FlWr.flush, h]

/-! ### suffixedReader -/

theorem take_drop_len {α} (x : List α) (k : Nat) : x.take k ++ x.drop (x.take k).length = x := by
  by_cases h : k ≤ x.length
  · rw [List.length_take, Nat.min_eq_left h]; exact List.take_append_drop _ _
  · rw [List.take_of_length_le (by omega), List.drop_of_length_le (Nat.le_refl _)]; simp

theorem read_err_rest (s : Src) (k : Nat) (f : Fin) (h : (s.read k).2.1 = some f) : (s.read k).2.2.bytes = [] := by
  unfold Src.read at h ⊢
  cases hch : s.chunks with
  | nil => simp [Src.bytes, hch]
  | cons c cs =>
    rw [hch] at h
    simp only at h ⊢
    by_cases hl : c.length ≤ k
    · rw [if_pos hl] at h ⊢
      simp only at h ⊢
      by_cases hd : (cs.isEmpty && s.dataWithFin) = true
      · simp only [Bool.and_eq_true] at hd
        simp [Src.bytes, List.isEmpty_iff.mp hd.1]
      · rw [if_neg hd] at h; cases h
    · rw [if_neg hl] at h; cases h

theorem sufrd_read_conserve (r : SufRd) (k : Nat) (hp : r.pos ≤ 9) :
    r.all = (r.read k).1 ++ (r.read k).2.2.all ∧ (r.read k).2.2.pos ≤ 9 := by
  unfold SufRd.read SufRd.all
  cases hs : r.src with
  | none =>
    simp only
    by_cases h9 : r.pos ≥ 9
    · simp [h9, hp, hs]
    · simp only [h9, if_false, List.nil_append]
      have hlen : compressionReadTail.length = 9 := rfl
      refine ⟨?_, ?_⟩
      · have := take_drop_len (compressionReadTail.drop r.pos) k
        rw [List.drop_drop] at this
        exact this.symm
      · rw [List.length_take, List.length_drop, hlen]; omega
  | some s =>
    simp only
    have hc := Src.read_conserve s k
    cases he : (s.read k).2.1 with
    | none => simp [hc, hp, List.append_assoc]
    | some f =>
      have hrest := read_err_rest s k f he
      cases f with
      | eof => simp only; exact ⟨by rw [hc, hrest]; simp, hp⟩
      | fail => simp only; exact ⟨by rw [hc]; simp [List.append_assoc], hp⟩

/-- Draining to EOF yields exactly source ++ 00 00 ff ff 01 00 00 ff ff, whatever the read sizes. -/
theorem sufrd_drain_all (sizes : List Nat) (r : SufRd) (hp : r.pos ≤ 9) (out : Bytes)
    (h : r.drain sizes = (out, some .eof)) : out = r.all := by
  induction sizes generalizing r out with
  | nil => simp [SufRd.drain] at h
  | cons k ks ih =>
    unfold SufRd.drain at h
    obtain ⟨hc, hp'⟩ := sufrd_read_conserve r k hp
    split at h
    · rename_i got e r' heq
      injection h with h1 h2
      injection h2 with h2
      subst h2
      -- EOF is only reported once everything, suffix included, has been delivered
      rw [heq] at hc
      simp only at hc
      have : r'.all = [] ∧ got = [] := by
        unfold SufRd.read at heq
        cases hs : r.src with
        | none =>
          rw [hs] at heq
          simp only at heq
          split at heq
          · rename_i h9
            injection heq with e1 e2; injection e2 with _ e3
            subst e3 e1
            simp [SufRd.all, hs]
            exact h9
          · injection heq with _ e2; injection e2 with e2; cases e2
        | some s =>
          rw [hs] at heq
          simp only at heq
          split at heq
          · injection heq with _ e2; injection e2 with e2; cases e2
          · injection heq with _ e2; injection e2 with e2; cases e2
          · injection heq with _ e2; injection e2 with e2; cases e2
      rw [hc, this.1, ← h1, this.2]; rfl
    · rename_i got r' heq
      rw [heq] at hc hp'
      simp only at hc hp'
      cases hd : r'.drain ks with
      | mk rest e =>
        rw [hd] at h
        simp only at h
        injection h with h1 h2
        subst h2
        have := ih r' hp' rest hd
        rw [hc, ← h1, this]

example : (SufRd.drain { src := some { chunks := [[1, 2], [3]], fin := .eof } } [1, 5, 4, 2, 100, 1]).1
    = [1, 2, 3, 0, 0, 255, 255, 1, 0, 0, 255, 255] := by decide

/-! ### the frame-level helpers -/

/-- Neither helper touches a non-final frame, whatever its bits, opcode or payload. -/
theorem helpers_refuse_non_final (codec : Bytes → Option Bytes) (h : Header) (p : Bytes) (hf : h.fin = false) :
    compressFrame codec h p = .error .fragmented ∧ decompressFrame codec h p = .error .fragmented := by
  unfold compressFrame decompressFrame; simp [hf]

theorem rsv_bits : ∀ r, r < 8 → r &&& 4 = 0 → (r ||| 4) &&& 3 = r ∧ ((r ||| 4) &&& 4 != 0) = true := by decide

/-- A final text/binary frame whose compression bit is clear, through CompressFrame and back through
    DecompressFrame: the compressed frame differs from the original in the compression bit, the
    length and the payload only; decompressing gives the original header and payload back. The codec's
    own round trip (`decomp (comp p) = p`) is the hypothesis — DEFLATE is not the library's. -/
theorem frame_roundtrip (comp decomp : Bytes → Option Bytes) (h : Header) (p c : Bytes)
    (hf : h.fin = true) (hop : opIsData h.op = true) (hnc : h.op ≠ opContinuation)
    (hr : h.rsv < 8) (hb : h.rsv &&& 4 = 0) (hl : h.len = p.length)
    (hc : comp p = some c) (hd : decomp c = some p) :
    compressFrame comp h p = .ok ({ h with rsv := h.rsv ||| 4, len := c.length }, c)
    ∧ decompressFrame decomp { h with rsv := h.rsv ||| 4, len := c.length } c = .ok (h, p) := by
  obtain ⟨h1, h2⟩ := rsv_bits h.rsv hr hb
  have hne : (h.op == opContinuation) = false := by simpa using hnc
  constructor
  · unfold compressFrame setBits
    simp [hf, hc, hb, hop, hne]
  · unfold decompressFrame unsetBits
    simp only [hf, hop, hne, Bool.not_true, Bool.false_eq_true, ↓reduceIte, bne_iff_ne, ne_eq,
      Bool.and_self, Bool.not_false, Bool.and_true]
    simp only [h2, h1, hd]
    cases h; simp_all

/-- A frame whose compression bit is clear passes DecompressFrame untouched; the bit on a control or
    continuation frame is refused. -/
theorem decompress_plain_untouched (decomp : Bytes → Option Bytes) (h : Header) (p : Bytes)
    (hf : h.fin = true) (hr : h.rsv < 8) (hb : h.rsv &&& 4 = 0) :
    decompressFrame decomp h p = .ok (h, p) := by
  have h3 : h.rsv &&& 3 = h.rsv := by
    have : ∀ r, r < 8 → r &&& 4 = 0 → r &&& 3 = r := by decide
    exact this _ hr hb
  unfold decompressFrame unsetBits
  by_cases hd : (opIsData h.op && h.op != opContinuation) = true
  · simp only [hf, hd, hb, h3]; cases h; simp_all
  · simp only [hf, hd, hb]; simp

example : compressFrame (fun _ => some [1, 2]) { fin := true, rsv := 2, op := 1, masked := false, mask := Mask.zero, len := 3 } [7, 7, 7]
    = .ok ({ fin := true, rsv := 6, op := 1, masked := false, mask := Mask.zero, len := 2 }, [1, 2]) := by rfl

end Ws.C12
