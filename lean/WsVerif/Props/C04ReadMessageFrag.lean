/-
  C04 / C08 — `wsutil.ReadMessage` on a FRAGMENTED message that is not text (CheckUTF8 is on in
  ReadMessage's reader): for every fragmentation, every placement of control frames between the
  fragments and every transport chunking it returns the interleaved control frames first — each once,
  in stream order, with its exact unmasked payload — then ONE message with the first frame's opcode and
  the concatenation of the fragments' payloads, no error, and leaves the transport at the first byte
  after the message. Obtained from `readAll_message` (the non-checking reader) through Proofs/ReaderBin:
  while the message is not text the checking reader is, step for step, the non-checking one.
-/
import WsVerif.Props.C04ReadAll
import WsVerif.Proofs.ReaderBin
namespace Ws.C04
open Ws Ws.Spec Ws.RdProof Ws.RdCb Ws.RdText Ws.RdBin

theorem collectCb_eq : collectCb = collect := rfl

theorem readMessage_fragmented (state : Nat) (s : Src) (f0 : WFrame) (fs : List WFrame) (rest : Bytes)
    (hst : state < 256) (hnf : stIs state stFragmented = false)
    (hm : Message ({ state } : Rd) f0 fs) (hfin : f0.h.fin = false) (hnt : f0.h.op ≠ opText)
    (hb : s.bytes = encodeFs (f0 :: fs) ++ rest) (hwf : Bytes.WF s.bytes) (htame : Src.Tame s) :
    ∃ s', readMessage state s = (controls fs ++ [(f0.h.op, dataPlain (f0 :: fs))], none, s') ∧ s'.bytes = rest := by
  let r0 : Rd := { state }
  let rd : Rd := { state, checkUTF8 := true }
  have hr0 : strip rd = r0 := rfl
  have hfr0 : r0.fragmented = false := by simp [r0, Rd.fragmented, hnf]
  obtain ⟨r1', s1, r', s', hnext, hall, hb'⟩ :=
    readAll_message r0 s {} f0 fs rest hfr0 hst rfl rfl hm hb hwf htame
  -- the checking reader enters the first frame the same way
  have hns := nextFrame_strip_collect rd s {}
  rw [hr0, hnext] at hns
  rcases hA : rd.nextFrame s {} (some collect) with ⟨hd, e1, r1, s1a, cx1⟩
  rw [hA] at hns
  simp only [Prod.mk.injEq] at hns
  obtain ⟨rfl, rfl, hr1, rfl, rfl⟩ := hns
  -- r1 is inside a message that is not text
  have hfields := nextFrame_fields_collect2 rd s {}
  rw [hA] at hfields
  obtain ⟨f1, f2, f3, f4, f5⟩ := hfields
  simp only at f1 f2 f3 f4 f5
  have hr1has : r1.hasFrame = true := by
    have : (strip r1).hasFrame = r1.hasFrame := rfl
    rw [← this, ← hr1]
    have := (message_enter r0 s {} (some collect) f0 fs rest hfr0 hst rfl rfl hm hb hwf htame)
    obtain ⟨s1b, hn2, _⟩ := this
    rw [hnext] at hn2
    simp only [Prod.mk.injEq] at hn2
    rw [hn2.2.2.1]; simp [enter]
  have hbin : Bin r1 := by
    rcases f5 with ⟨g1, _, _⟩ | ⟨_, _, h, g4, g5, g6, _, _⟩
    · rw [g1] at hr1has; simp [rd] at hr1has
    · simp only [Option.some.injEq] at g6
      subst g6
      refine ⟨fun _ => ?_, (by rw [f4]), ?_, (by rw [f1]), (by rw [f2]), (fun h => by rw [hr1has] at h; cases h)⟩
      · rw [g4]
        have : (f0.h.op == opText) = false := by simpa using hnt
        simp [this, rd, Rd.fragmented, hnf]
      · rw [g5]; simp [rd, Rd.fragmented, hnf]; exact hnt
  -- ReadAll over it
  have hp := pull_bin (pullFuel s1) r1 s1 {} [] hbin
  rw [hr1] at hall
  unfold readAllRd at hall
  rw [hp] at hall
  rcases hP : Rd.pull true 512 (some collect) (pullFuel s1) r1 s1 {} [] with ⟨chunks, e, r'', s'', cx''⟩
  rw [hP] at hall
  simp only [Prod.mk.injEq] at hall
  obtain ⟨hc1, hc2, _, hc4, hc5⟩ := hall
  refine ⟨s', ?_, hb'⟩
  have hA' : ({ state, checkUTF8 := true } : Rd).nextFrame s {} (some collect) = (some f0.h, none, r1, s1, {}) := hA
  unfold readMessage
  simp only [collectCb_eq, hA', hfin, Bool.false_eq_true, if_false]
  unfold readAllRd
  rw [hP]
  simp only [hc1, hc2, hc4, hc5]
  simp

/-- Non-vacuity: a masked binary message in three fragments (the middle one empty) with the ping of Props/C04
    between them, server side, two transport chunks, two bytes of the next frame behind: the ping first, then
    the message. -/
def bF0 : WFrame := ⟨⟨false, 0, 2, true, ⟨1, 2, 3, 4⟩, 3⟩, [0x69, 0x67, 0x6f]⟩

example : Message ({ state := 1 } : Rd) bF0 [exPing, exF1, exF2] := by
  refine ⟨⟨by decide, by decide, by decide, by decide⟩, by decide, ⟨by decide, by decide⟩, ?_⟩
  show Tail false false 9 0 [exPing, exF1, exF2]
  refine Tail.ctl _ _ ⟨by decide, by decide, by decide, by decide⟩ (by decide) ⟨by decide, by decide⟩ ?_
  refine Tail.cont _ _ ⟨by decide, by decide, by decide, by decide⟩ (by decide) (by decide) ⟨by decide, by decide⟩ ?_
  exact Tail.last _ ⟨by decide, by decide, by decide, by decide⟩ (by decide) (by decide) ⟨by decide, by decide⟩

example :
    readMessage 1 { chunks := [(encodeFs [bF0, exPing, exF1, exF2]).take 7, (encodeFs [bF0, exPing, exF1, exF2]).drop 7 ++ [0x81, 0x85]], fin := .eof }
      = ([(9, exPing.plain), (2, [0x68, 0x65, 0x6c, 0x6c, 0x6f])], none, { chunks := [[0x81, 0x85]], fin := .eof }) := by decide

end Ws.C04
