/-
  C05 at the helper level — the `wsutil.ReadData` family meets a frame that breaks the RFC 6455 header rules for
  the connection's state, after any history of pings and unwanted messages: it returns that protocol error,
  no payload and no opcode, with the transport right behind the offending header — nothing of its payload
  was read, and whatever follows is not consulted.
-/
import WsVerif.Props.C08ReadData
import WsVerif.Props.C05
namespace Ws.C05
open Ws Ws.Spec Ws.RdProof Ws.RdText Ws.C06 Ws.C08 Ws.C07 Ws.C04

/-- the loop at an offending header, from any idle reader -/
theorem loop_refuses (state want : Nat) (errText : ProtoErr → Bytes) (client : Bool) (inter : Callback)
    (r0 : Rd) (s : Src) (cx : Ctx) (fuel : Nat) (h : Header) (junk : Bytes) (pe : ProtoErr)
    (hi : Idle state r0) (hhwf : h.WF)
    (hbad : checkHeader h state = some pe)
    (hb : s.bytes = rfcEncode h ++ junk) (hwf : Bytes.WF s.bytes) (htame : Src.Tame s) :
    ∃ s1, readData.loop want errText client inter (fuel + 1) r0 s cx = ([], 0, some (.proto pe), s1, cx) ∧ s1.bytes = junk := by
  have hjw : Bytes.WF junk := by rw [hb] at hwf; exact wf_append_right hwf
  obtain ⟨s1, hrh, hb1, _, _⟩ := readHeader_ok h hhwf _ hjw s hb htame
  have hnext := nextFrame_rejects r0 s s1 cx (some inter) h pe hrh hi.skip (by rw [hi.st]; exact hbad)
  refine ⟨s1, ?_, hb1⟩
  rw [readData.loop]
  simp only [hnext]

/-- **ReadData reports the first offending frame** behind any history of pings and unwanted messages: the
    protocol error naming the broken rule, no data, transport right behind the header. -/
theorem readData_refuses_bad_frame (state want : Nat) (errText : ProtoErr → Bytes) (s : Src) (env : Env) (fuel : Nat)
    (items : List Item) (h : Header) (junk : Bytes) (pe : ProtoErr)
    (hst : state < 256) (hnf : stIs state stFragmented = false) (he : EnvOk env)
    (hall : ∀ it ∈ items, it.Good state want)
    (hhwf : h.WF) (hbad : checkHeader h state = some pe)
    (hb : s.bytes = encodeFs (items.map Item.frame) ++ (rfcEncode h ++ junk)) (hwf : Bytes.WF s.bytes) (htame : Src.Tame s) :
    ∃ s' cx', readData state want errText s env (fuel + 1 + items.length) = ([], 0, some (.proto pe), s', cx')
      ∧ s'.bytes = junk := by
  unfold readData
  simp only
  generalize controlFrameHandler (stIs state stClient) errText false none = inter
  obtain ⟨r2, s2, cx2, ws, h2, hi2, hb2, hwf2, ht2, _, _, _, _⟩ := loop_history state want errText inter (fuel + 1)
    (rfcEncode h ++ junk) hst hnf items hall _ s { env } (idle_init state) he hb hwf htame
  rw [h2]
  obtain ⟨s1, h3, hb3⟩ := loop_refuses state want errText (stIs state stClient) inter r2 s2 cx2 fuel h junk pe hi2 hhwf hbad hb2 hwf2 ht2
  exact ⟨s1, cx2, h3, hb3⟩

/-- the rule it names is really broken by that frame in that state -/
theorem readData_error_sound (state : Nat) (h : Header) (pe : ProtoErr) (hop : h.op < 16) (hst : state < 256)
    (hbad : checkHeader h state = some pe) : ∃ rule, ruleOf pe = some rule ∧ Broken rule h (stOf state) :=
  C03.check_some_sound h state hop hst pe hbad

/-- non-vacuity: an unmasked text frame sent to a server -/
example : (checkHeader { fin := true, rsv := 0, op := opText, masked := false, mask := Mask.zero, len := 1 } stServer).isSome = true := by decide

end Ws.C05
