/-
  C04 / C07 — the `wsutil.ReadData` family over a HISTORY of messages on one connection: any number of
  unfragmented data messages of a type the caller did not ask for are skipped (Discard) — each leaves the
  reader idle again: not fragmented, a fresh UTF-8 validator, no frame — and the first wanted message after
  them is returned exactly as if it had come first.  Stated on the helper's loop for an arbitrary idle
  reader, so the statement does not depend on how many messages the same reader has already gone through.
-/
import WsVerif.Props.C04ReadData
namespace Ws.C04
open Ws Ws.Spec Ws.RdProof Ws.RdText

/-- the reader the ReadData loop holds between two messages -/
structure Idle (state : Nat) (r : Rd) : Prop where
  st : r.state = state
  chk : r.checkUTF8 = true
  ext : r.ext = false
  skip : r.skipCheck = false
  maxF : r.maxFrame = 0
  u8 : r.utf8 = {}

theorem idle_init (state : Nat) : Idle state ({ state, checkUTF8 := true } : Rd) := ⟨rfl, rfl, rfl, rfl, rfl, rfl⟩

theorem clear_id (st : Nat) (h : st < 256) (hnf : stIs st stFragmented = false) : stClear st stFragmented = st := by
  have := List.all_eq_true.mp (by decide +kernel :
    ((List.range 256).all fun s => stIs s stFragmented || stClear s stFragmented == s) = true) st (List.mem_range.mpr h)
  simpa [hnf] using this

/-- the loop on a wanted unfragmented non-text message, from any idle reader -/
theorem loop_single (state want : Nat) (errText : ProtoErr → Bytes) (client : Bool) (inter : Callback)
    (r0 : Rd) (s : Src) (cx : Ctx) (fuel : Nat) (f : WFrame) (rest : Bytes)
    (hi : Idle state r0)
    (hst : state < 256) (hnf : stIs state stFragmented = false)
    (hok : f.OK) (hfin : f.h.fin = true) (hdata : opIsControl f.h.op = false) (hnt : f.h.op ≠ opText)
    (hwant : (f.h.op &&& want == 0) = false)
    (hacc : checkHeader f.h state = none)
    (hb : s.bytes = f.enc ++ rest) (hwf : Bytes.WF s.bytes) (htame : Src.Tame s) :
    ∃ s', readData.loop want errText client inter (fuel + 1) r0 s cx = (f.plain, f.h.op, none, s', cx) ∧ s'.bytes = rest := by
  have hbytes : s.bytes = rfcEncode f.h ++ (f.wire ++ rest) := by rw [hb]; simp [WFrame.enc]
  have hwt : Bytes.WF (f.wire ++ rest) := by rw [hbytes] at hwf; exact wf_append_right hwf
  obtain ⟨s1, hrh, hb1, ht1, hmu1⟩ := readHeader_ok f.h hok.hwf _ hwt s hbytes htame
  have haccept : Accepts r0 f.h := ⟨by simp [hi.skip, hi.st, hacc], by simp [hi.maxF]⟩
  have hfr0 : r0.fragmented = false := by simp [Rd.fragmented, hi.st, hnf]
  have hin : InFrame (enter r0 f.h) s1 f.wire rest :=
    ⟨by simp [enter], by simp [enter, hfr0, hnt], hb1, by simp [enter, hok.len], by rw [hb1]; exact hwt,
     by simp [enter]; exact hok.mwf, ht1⟩
  have hnf1 : (enter r0 f.h).fragmented = false := by
    simp [enter, Rd.fragmented, hfin, hi.st, clear_not_fragmented state hst]
  have hnext := nextFrame_data r0 s s1 cx (some inter) f.h hrh haccept hi.ext hdata
  obtain ⟨chunks, r', s', hp, hfl, hb'⟩ := pull_final (some inter) (pullFuel s1) (enter r0 f.h) s1 cx [] f.wire rest hin hnf1
    (Or.inr (by simp [enter, hi.u8, Utf8Rd.valid]; rfl)) (by unfold pullFuel Src.fuel mu; omega)
  refine ⟨s', ?_, hb'⟩
  rw [readData.loop]
  simp only [hnext, hdata, Bool.false_eq_true, if_false, hwant]
  unfold readAllRd
  rw [hp]
  simp [hfl, plainOf, enter, WFrame.plain]
  rfl

/-- the loop on a wanted unfragmented text message, from any idle reader -/
theorem loop_single_text (state want : Nat) (errText : ProtoErr → Bytes) (client : Bool) (inter : Callback)
    (r0 : Rd) (s : Src) (cx : Ctx) (fuel : Nat) (f : WFrame) (rest : Bytes)
    (hi : Idle state r0)
    (hst : state < 256) (hnf : stIs state stFragmented = false)
    (hok : f.OK) (hfin : f.h.fin = true) (htext : f.h.op = opText)
    (hwant : (opText &&& want == 0) = false)
    (hacc : checkHeader f.h state = none)
    (hb : s.bytes = f.enc ++ rest) (hwf : Bytes.WF s.bytes) (htame : Src.Tame s) :
    (wfUtf8 f.plain = true →
        ∃ s', readData.loop want errText client inter (fuel + 1) r0 s cx = (f.plain, opText, none, s', cx) ∧ s'.bytes = rest)
    ∧ (wfUtf8 f.plain = false → (readData.loop want errText client inter (fuel + 1) r0 s cx).2.2.1 = some .utf8) := by
  have hdata : opIsControl f.h.op = false := by rw [htext]; rfl
  have hbytes : s.bytes = rfcEncode f.h ++ (f.wire ++ rest) := by rw [hb]; simp [WFrame.enc]
  have hwt : Bytes.WF (f.wire ++ rest) := by rw [hbytes] at hwf; exact wf_append_right hwf
  obtain ⟨s1, hrh, hb1, ht1, hmu1⟩ := readHeader_ok f.h hok.hwf _ hwt s hbytes htame
  have haccept : Accepts r0 f.h := ⟨by simp [hi.skip, hi.st, hacc], by simp [hi.maxF]⟩
  have hfr0 : r0.fragmented = false := by simp [Rd.fragmented, hi.st, hnf]
  have hnf1 : (enter r0 f.h).fragmented = false := by
    simp [enter, Rd.fragmented, hfin, hi.st, clear_not_fragmented state hst]
  have htm : TM .acc (enter r0 f.h) :=
    ⟨by simp [enter, hi.chk], by simp [enter, hi.u8]; rfl, by decide, fun _ => by simp [enter, hi.chk, htext],
     (fun hfr => by rw [hnf1] at hfr; cases hfr), Or.inl (by simp [enter])⟩
  have hin : InFrame (strip (enter r0 f.h)) s1 f.wire rest :=
    ⟨by simp [strip, enter], rfl, hb1, by simp [strip, enter, hok.len], by rw [hb1]; exact hwt,
     by simp [strip, enter]; exact hok.mwf, ht1⟩
  have hpl : plainOf (enter r0 f.h) f.wire = f.plain := by simp [plainOf, enter, WFrame.plain]; rfl
  have hnext := nextFrame_data r0 s s1 cx (some inter) f.h hrh haccept hi.ext hdata
  have hpull := pull_final_text (some inter) (pullFuel s1) .acc (enter r0 f.h) s1 cx [] f.wire rest htm (by simp [enter]) hnf1 hin
    (by unfold pullFuel Src.fuel mu; omega)
  rw [hpl] at hpull
  have hw' : (f.h.op &&& want == 0) = false := by rw [htext]; exact hwant
  constructor
  · intro hgood
    have hacc2 : u8Run .acc f.plain = .acc := by simpa [wfUtf8] using hgood
    obtain ⟨chunks, r', s', hp, hfl, hb'⟩ := hpull.1 hacc2
    refine ⟨s', ?_, hb'⟩
    rw [readData.loop]
    simp only [hnext, hdata, Bool.false_eq_true, if_false, hw']
    unfold readAllRd
    rw [hp]
    simp [hfl, htext]
  · intro hbad
    have hna : u8Run .acc f.plain ≠ .acc := by
      intro h; simp [wfUtf8, h] at hbad
    have hp := hpull.2 hna
    rw [readData.loop]
    simp only [hnext, hdata, Bool.false_eq_true, if_false, hw']
    unfold readAllRd
    rcases hP : Rd.pull true 512 (some inter) (pullFuel s1) (enter r0 f.h) s1 cx [] with ⟨c2, e2, r2, s2, cx2⟩
    rw [hP] at hp
    simp only at hp
    subst hp
    simp

/-- one unfragmented data message of a type NOT asked for is skipped whole, and the reader is idle again -/
theorem loop_skip (state want : Nat) (errText : ProtoErr → Bytes) (client : Bool) (inter : Callback)
    (r0 : Rd) (s : Src) (cx : Ctx) (fuel : Nat) (f : WFrame) (rest : Bytes)
    (hi : Idle state r0)
    (hst : state < 256) (hnf : stIs state stFragmented = false)
    (hok : f.OK) (hfin : f.h.fin = true) (hdata : opIsControl f.h.op = false)
    (hunw : (f.h.op &&& want == 0) = true)
    (hacc : checkHeader f.h state = none)
    (hb : s.bytes = f.enc ++ rest) (hwf : Bytes.WF s.bytes) (htame : Src.Tame s) :
    ∃ r2 s2, readData.loop want errText client inter (fuel + 1) r0 s cx = readData.loop want errText client inter fuel r2 s2 cx
      ∧ Idle state r2 ∧ s2.bytes = rest ∧ Src.Tame s2 := by
  have hbytes : s.bytes = rfcEncode f.h ++ (f.wire ++ rest) := by rw [hb]; simp [WFrame.enc]
  have hwt : Bytes.WF (f.wire ++ rest) := by rw [hbytes] at hwf; exact wf_append_right hwf
  obtain ⟨s1, hrh, hb1, ht1, hmu1⟩ := readHeader_ok f.h hok.hwf _ hwt s hbytes htame
  have haccept : Accepts r0 f.h := ⟨by simp [hi.skip, hi.st, hacc], by simp [hi.maxF]⟩
  have hnf1 : (enter r0 f.h).fragmented = false := by
    simp [enter, Rd.fragmented, hfin, hi.st, clear_not_fragmented state hst]
  have hnext := nextFrame_data r0 s s1 cx (some inter) f.h hrh haccept hi.ext hdata
  have hpf : pullFuel s1 = (pullFuel s1 - 1) + 1 := by unfold pullFuel; omega
  obtain ⟨s2, hdisc, hb2, ht2⟩ := discard_final_frame (enter r0 f.h) s1 cx (some inter) (pullFuel s1 - 1) f.wire rest hnf1 hb1
    (by simp [enter, hok.len]) ht1
  rw [← hpf] at hdisc
  refine ⟨({ enter r0 f.h with rawN := 0 } : Rd).reset, s2, ?_, ?_, hb2, ht2⟩
  · rw [readData.loop]
    simp only [hnext, hdata, Bool.false_eq_true, if_false, hunw, if_true, hdisc]
  · have hfr0 : r0.fragmented = false := by simp [Rd.fragmented, hi.st, hnf]
    refine ⟨?_, ?_, ?_, ?_, ?_, rfl⟩
    · simp only [Rd.reset, enter, hfin, if_true, hi.st]
      exact clear_id state hst hnf
    · simp [Rd.reset, enter, hi.chk]
    · simp [Rd.reset, enter, hi.ext]
    · simp [Rd.reset, enter, hi.skip]
    · simp [Rd.reset, enter, hi.maxF]

/-- a message the caller did not ask for: one unfragmented data frame, valid in `state`, of a type outside `want` -/
structure Unwanted (state want : Nat) (f : WFrame) : Prop where
  ok : f.OK
  fin : f.h.fin = true
  data : opIsControl f.h.op = false
  unw : (f.h.op &&& want == 0) = true
  acc : checkHeader f.h state = none

/-- any number of unwanted messages are skipped, whatever the chunking; the loop is then where it started -/
theorem loop_skips (state want : Nat) (errText : ProtoErr → Bytes) (client : Bool) (inter : Callback)
    (cx : Ctx) (fuel : Nat) (rest : Bytes) (hst : state < 256) (hnf : stIs state stFragmented = false)
    (us : List WFrame) (hus : ∀ u ∈ us, Unwanted state want u) :
    ∀ (r0 : Rd) (s : Src), Idle state r0 → s.bytes = encodeFs us ++ rest → Bytes.WF s.bytes → Src.Tame s →
    ∃ r2 s2, readData.loop want errText client inter (fuel + us.length) r0 s cx = readData.loop want errText client inter fuel r2 s2 cx
      ∧ Idle state r2 ∧ s2.bytes = rest ∧ Bytes.WF s2.bytes ∧ Src.Tame s2 := by
  induction us with
  | nil =>
    intro r0 s hi hb hwf ht
    exact ⟨r0, s, rfl, hi, by simpa [encodeFs] using hb, hwf, ht⟩
  | cons u us ih =>
    intro r0 s hi hb hwf ht
    have hu := hus u (List.mem_cons_self ..)
    have hb' : s.bytes = u.enc ++ (encodeFs us ++ rest) := by rw [hb]; simp [encodeFs]
    obtain ⟨r1, s1, h1, hi1, hb1, ht1⟩ := loop_skip state want errText client inter r0 s cx (fuel + us.length) u
      (encodeFs us ++ rest) hi hst hnf hu.ok hu.fin hu.data hu.unw hu.acc hb' hwf ht
    have hwf1 : Bytes.WF s1.bytes := by rw [hb1]; exact wf_append_right (hb' ▸ hwf)
    obtain ⟨r2, s2, h2, hi2, hb2, hwf2, ht2⟩ := ih (fun g hg => hus g (List.mem_cons_of_mem _ hg)) r1 s1 hi1 hb1 hwf1 ht1
    refine ⟨r2, s2, ?_, hi2, hb2, hwf2, ht2⟩
    rw [List.length_cons, ← Nat.add_assoc, h1, h2]

/-- **ReadData after a history of unwanted messages** (non-text wanted): the first message of a wanted type is
    returned whole with its opcode, the transport stands right after it, nothing was written. -/
theorem readData_after_unwanted (state want : Nat) (errText : ProtoErr → Bytes) (s : Src) (env : Env) (fuel : Nat)
    (us : List WFrame) (f : WFrame) (rest : Bytes)
    (hst : state < 256) (hnf : stIs state stFragmented = false)
    (hus : ∀ u ∈ us, Unwanted state want u)
    (hok : f.OK) (hfin : f.h.fin = true) (hdata : opIsControl f.h.op = false) (hnt : f.h.op ≠ opText)
    (hwant : (f.h.op &&& want == 0) = false)
    (hacc : checkHeader f.h state = none)
    (hb : s.bytes = encodeFs us ++ (f.enc ++ rest)) (hwf : Bytes.WF s.bytes) (htame : Src.Tame s) :
    ∃ s', readData state want errText s env (fuel + 1 + us.length) = (f.plain, f.h.op, none, s', { env }) ∧ s'.bytes = rest := by
  unfold readData
  simp only
  generalize controlFrameHandler (stIs state stClient) errText false none = inter
  obtain ⟨r2, s2, h2, hi2, hb2, hwf2, ht2⟩ := loop_skips state want errText (stIs state stClient) inter { env } (fuel + 1)
    (f.enc ++ rest) hst hnf us hus _ s (idle_init state) hb hwf htame
  rw [h2]
  exact loop_single state want errText _ inter r2 s2 { env } fuel f rest hi2 hst hnf hok hfin hdata hnt hwant hacc hb2 hwf2 ht2

/-- **… and a wanted text message after them** is returned iff it is well-formed UTF-8 (the validator of the
    reader that skipped the others is fresh), ErrInvalidUTF8 otherwise. -/
theorem readData_text_after_unwanted (state want : Nat) (errText : ProtoErr → Bytes) (s : Src) (env : Env) (fuel : Nat)
    (us : List WFrame) (f : WFrame) (rest : Bytes)
    (hst : state < 256) (hnf : stIs state stFragmented = false)
    (hus : ∀ u ∈ us, Unwanted state want u)
    (hok : f.OK) (hfin : f.h.fin = true) (htext : f.h.op = opText)
    (hwant : (opText &&& want == 0) = false)
    (hacc : checkHeader f.h state = none)
    (hb : s.bytes = encodeFs us ++ (f.enc ++ rest)) (hwf : Bytes.WF s.bytes) (htame : Src.Tame s) :
    (wfUtf8 f.plain = true →
        ∃ s', readData state want errText s env (fuel + 1 + us.length) = (f.plain, opText, none, s', { env }) ∧ s'.bytes = rest)
    ∧ (wfUtf8 f.plain = false → (readData state want errText s env (fuel + 1 + us.length)).2.2.1 = some .utf8) := by
  unfold readData
  simp only
  generalize controlFrameHandler (stIs state stClient) errText false none = inter
  obtain ⟨r2, s2, h2, hi2, hb2, hwf2, ht2⟩ := loop_skips state want errText (stIs state stClient) inter { env } (fuel + 1)
    (f.enc ++ rest) hst hnf us hus _ s (idle_init state) hb hwf htame
  rw [h2]
  exact loop_single_text state want errText _ inter r2 s2 { env } fuel f rest hi2 hst hnf hok hfin htext hwant hacc hb2 hwf2 ht2

/-- the hypotheses are satisfiable: a server asked for text skips two binary messages from a client -/
example : Unwanted stServer opText ⟨{ fin := true, rsv := 0, op := opBinary, masked := true, mask := ⟨1, 2, 3, 4⟩, len := 2 }, [9, 9]⟩ :=
  ⟨⟨by decide, rfl, by decide, by decide⟩, rfl, rfl, by decide, by decide⟩

end Ws.C04
