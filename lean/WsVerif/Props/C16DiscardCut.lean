/-
  C16 — a message cut INSIDE the payload of a later data frame (after any number of complete
  fragments and interleaved control frames) cannot be skipped either: Discard from anywhere before
  the cut reports io.ErrUnexpectedEOF when the transport ends there. `discard_open_tail_gen` is the
  induction over the complete frames with the situation at their end left as a parameter.
-/
import WsVerif.Props.C16DiscardMsg
namespace Ws.C16
open Ws Ws.Spec Ws.RdProof

theorem discard_open_tail_gen (skip : Bool) (st maxF : Nat) (cx : Ctx) (rest : Bytes) (E : Option RErr) (fn : Fin)
    (hbase : ∀ (r : Rd) (s : Src) (wire : Bytes) (n : Nat), Common skip st maxF r s → r.state = st → r.rawN = wire.length →
      s.bytes = wire ++ rest → s.fin = fn → (r.discard s cx none (n + 2)).1 = E)
    (fs : List WFrame) (ht : Tail true skip st maxF fs) (hopen : closed fs = false) :
    ∀ (r : Rd) (s : Src) (wire : Bytes) (fuel : Nat),
      Common skip st maxF r s → r.state = st → r.rawN = wire.length → s.bytes = wire ++ (encodeFs fs ++ rest) →
      s.fin = fn → fs.length + 1 < fuel →
      (r.discard s cx none fuel).1 = E := by
  induction ht with
  | opn _ =>
    intro r s wire fuel hc hst hn hb hfin hfuel
    match fuel, hfuel with
    | n + 2, _ =>
    exact hbase r s wire n hc hst hn (by simpa [encodeFs] using hb) hfin
  | last f hok hdata hfin' hacc =>
    simp [closed, hdata, hfin'] at hopen
  | cont f fs hok hdata hfin' hacc _ ih =>
    intro r s wire fuel hc hst hn hb hfin hfuel
    match fuel, hfuel with
    | n + 1, hfuel =>
    obtain ⟨s1, hd, hb1, ht1, _, _⟩ := drainRaw_ok s.fuel r s wire (encodeFs (f :: fs) ++ rest) hb hn hc.tame (by unfold Src.fuel mu; omega)
    have hf1 : s1.fin = fn := by have := drainRaw_fin s.fuel r s; rw [hd] at this; simpa [hfin] using this
    have hfr : ({ r with rawN := 0 } : Rd).fragmented = true := by simp [Rd.fragmented, hst, hc.stF]
    have hbytes : s1.bytes = rfcEncode f.h ++ (f.wire ++ (encodeFs fs ++ rest)) := by rw [hb1]; simp [encodeFs, WFrame.enc]
    have hwf1 : Bytes.WF s1.bytes := by rw [hb1]; exact wf_append_right (hb ▸ hc.wf)
    have hwt : Bytes.WF (f.wire ++ (encodeFs fs ++ rest)) := by rw [hbytes] at hwf1; exact wf_append_right hwf1
    obtain ⟨s2, hrh, hb2, ht2, _⟩ := readHeader_ok f.h hok.hwf _ hwt s1 hbytes ht1
    have hf2 : s2.fin = fn := by have := readHeaderUtil_fin s1; rw [hrh] at this; simpa [hf1] using this
    have hacc' : Accepts ({ r with rawN := 0 } : Rd) f.h := by
      unfold Accepts; simp only [hc.skip, hst, hc.maxF]; exact hacc
    have hnext := nextFrame_data ({ r with rawN := 0 } : Rd) s1 s2 cx none f.h hrh hacc' (by simp [hc.ext]) hdata
    have hc2 : Common skip st maxF (enter ({ r with rawN := 0 } : Rd) f.h) s2 :=
      common_of skip st maxF hc _ s2 (by simp [enter]) (by simp [enter]) (by simp [enter]) (by simp [enter]) ht2 (by rw [hb2]; exact hwt)
    have := ih (closed_tail hopen (Or.inr hfin')) (enter ({ r with rawN := 0 } : Rd) f.h) s2 f.wire n hc2
      (by simp [enter, hfin', hst, hc.stSet]) (by simp [enter, hok.len]) hb2 hf2 (by simp at hfuel; omega)
    rw [Rd.discard]
    simp only [hd, hfr, Bool.not_true, Bool.false_eq_true, if_false, hnext]
    exact this
  | ctl f fs hok hctl hacc _ ih =>
    intro r s wire fuel hc hst hn hb hfin hfuel
    match fuel, hfuel with
    | n + 1, hfuel =>
    obtain ⟨s1, hd, hb1, ht1, _, _⟩ := drainRaw_ok s.fuel r s wire (encodeFs (f :: fs) ++ rest) hb hn hc.tame (by unfold Src.fuel mu; omega)
    have hf1 : s1.fin = fn := by have := drainRaw_fin s.fuel r s; rw [hd] at this; simpa [hfin] using this
    have hfr : ({ r with rawN := 0 } : Rd).fragmented = true := by simp [Rd.fragmented, hst, hc.stF]
    have hbytes : s1.bytes = rfcEncode f.h ++ (f.wire ++ (encodeFs fs ++ rest)) := by rw [hb1]; simp [encodeFs, WFrame.enc]
    have hwf1 : Bytes.WF s1.bytes := by rw [hb1]; exact wf_append_right (hb ▸ hc.wf)
    have hwt : Bytes.WF (f.wire ++ (encodeFs fs ++ rest)) := by rw [hbytes] at hwf1; exact wf_append_right hwf1
    obtain ⟨s2, hrh, hb2, ht2, _⟩ := readHeader_ok f.h hok.hwf _ hwt s1 hbytes ht1
    have hacc' : Accepts ({ r with rawN := 0 } : Rd) f.h := by
      unfold Accepts; simp only [hc.skip, hst, hc.maxF]; exact hacc
    obtain ⟨s3, hnext, hb3, ht3, _⟩ := nextFrame_ctl ({ r with rawN := 0 } : Rd) s1 s2 cx f (encodeFs fs ++ rest) hrh hacc'
      (by simp [hc.ext]) hctl hfr hb2 hok.len ht2
    have hf3 : s3.fin = fn := by
      have := nextFrame_src_fin ({ r with rawN := 0 } : Rd) s1 cx; rw [hnext] at this; simpa [hf1] using this
    have hc3 : Common skip st maxF (skipCtl ({ r with rawN := 0 } : Rd) f.h) s3 :=
      common_of skip st maxF hc _ s3 (by simp [skipCtl]) (by simp [skipCtl]) (by simp [skipCtl]) (by simp [skipCtl]) ht3
        (by rw [hb3]; exact wf_append_right hwt)
    have := ih (closed_tail hopen (Or.inl hctl)) (skipCtl ({ r with rawN := 0 } : Rd) f.h) s3 [] n hc3
      (by simp [skipCtl, hst]) (by simp [skipCtl]) (by simpa using hb3) hf3 (by simp at hfuel; omega)
    rw [Rd.discard]
    simp only [hd, hfr, Bool.not_true, Bool.false_eq_true, if_false, hnext]
    exact this


/-- the next frame `h` (a data frame the reader accepts) announces more than the `part` that arrives -/
theorem discard_cut_in_later_frame (skip : Bool) (st maxF : Nat) (cx : Ctx) (h : Header) (part : Bytes)
    (hw : h.WF) (hdata : opIsControl h.op = false) (hacc : AcceptsAt skip st maxF h) (hshort : part.length < h.len)
    (fs : List WFrame) (ht : Tail true skip st maxF fs) (hopen : closed fs = false)
    (r : Rd) (s : Src) (wire : Bytes)
    (hc : Common skip st maxF r s) (hst : r.state = st) (hn : r.rawN = wire.length)
    (hb : s.bytes = wire ++ (encodeFs fs ++ (rfcEncode h ++ part))) (hfin : s.fin = .eof) :
    (r.discard s cx none (fs.length + 3)).1 = some .ueof := by
  refine discard_open_tail_gen skip st maxF cx (rfcEncode h ++ part) (some .ueof) .eof ?_ fs ht hopen r s wire _ hc hst hn hb hfin (by omega)
  intro r s wire n hc hst hn hb hfin
  obtain ⟨s1, hd, hb1, ht1, _, _⟩ := drainRaw_ok s.fuel r s wire (rfcEncode h ++ part) hb hn hc.tame (by unfold Src.fuel mu; omega)
  have hf1 : s1.fin = .eof := by have := drainRaw_fin s.fuel r s; rw [hd] at this; simpa [hfin] using this
  have hfr : ({ r with rawN := 0 } : Rd).fragmented = true := by simp [Rd.fragmented, hst, hc.stF]
  have hwf1 : Bytes.WF s1.bytes := by rw [hb1]; exact wf_append_right (hb ▸ hc.wf)
  have hwt : Bytes.WF part := by rw [hb1] at hwf1; exact wf_append_right hwf1
  obtain ⟨s2, hrh, hb2, ht2, _⟩ := readHeader_ok h hw _ hwt s1 hb1 ht1
  have hf2 : s2.fin = .eof := by have := readHeaderUtil_fin s1; rw [hrh] at this; simpa [hf1] using this
  have hacc' : Accepts ({ r with rawN := 0 } : Rd) h := by
    unfold Accepts; simp only [hc.skip, hst, hc.maxF]; exact hacc
  have hnext := nextFrame_data ({ r with rawN := 0 } : Rd) s1 s2 cx none h hrh hacc' (by simp [hc.ext]) hdata
  have hcut := discard_cut (enter ({ r with rawN := 0 } : Rd) h) s2 cx none n (by rw [hb2]; simpa [enter] using hshort)
  rw [Rd.discard]
  simp only [hd, hfr, Bool.not_true, Bool.false_eq_true, if_false, hnext]
  rcases hcut with ⟨he, _⟩ | ⟨_, hf⟩
  · exact he
  · rw [hf2] at hf; cases hf

/-- NextFrame on an interleaved control frame whose payload the transport does not hold in full. -/
theorem nextFrame_ctl_cut (r : Rd) (s s1 : Src) (cx : Ctx) (h : Header)
    (hh : readHeaderUtil s = (.ok h, s1)) (ha : Accepts r h) (hext : r.ext = false)
    (hctl : opIsControl h.op = true) (hfrag : r.fragmented = true)
    (hshort : s1.bytes.length < h.len) (hfin : s1.fin = .eof) :
    (r.nextFrame s cx none).2.1 = some .ueof := by
  unfold Rd.nextFrame
  simp only [hh, ha.1, ha.2, if_false, hext, Bool.false_eq_true]
  have hfr : ({ r with ext := false, rawN := h.len, masked := h.masked, mask := h.mask, cpos := 0, utf8on := false } : Rd).fragmented = true := by
    simpa [Rd.fragmented] using hfrag
  simp only [hfr, hctl, Bool.and_self, if_true]
  have hcut := drainRaw_cut s1.fuel
    ({ r with ext := false, rawN := h.len, masked := h.masked, mask := h.mask, cpos := 0, utf8on := false } : Rd) s1
    (by simpa using hshort) (by unfold Src.fuel mu; omega)
  rcases hcut with ⟨he, _⟩ | ⟨_, hf⟩
  · exact he
  · rw [hfin] at hf; cases hf

/-- the next frame `h` is a control frame (accepted) of which only `part` arrives -/
theorem discard_cut_in_later_control (skip : Bool) (st maxF : Nat) (cx : Ctx) (h : Header) (part : Bytes)
    (hw : h.WF) (hctl : opIsControl h.op = true) (hacc : AcceptsAt skip st maxF h) (hshort : part.length < h.len)
    (fs : List WFrame) (ht : Tail true skip st maxF fs) (hopen : closed fs = false)
    (r : Rd) (s : Src) (wire : Bytes)
    (hc : Common skip st maxF r s) (hst : r.state = st) (hn : r.rawN = wire.length)
    (hb : s.bytes = wire ++ (encodeFs fs ++ (rfcEncode h ++ part))) (hfin : s.fin = .eof) :
    (r.discard s cx none (fs.length + 3)).1 = some .ueof := by
  refine discard_open_tail_gen skip st maxF cx (rfcEncode h ++ part) (some .ueof) .eof ?_ fs ht hopen r s wire _ hc hst hn hb hfin (by omega)
  intro r s wire n hc hst hn hb hfin
  obtain ⟨s1, hd, hb1, ht1, _, _⟩ := drainRaw_ok s.fuel r s wire (rfcEncode h ++ part) hb hn hc.tame (by unfold Src.fuel mu; omega)
  have hf1 : s1.fin = .eof := by have := drainRaw_fin s.fuel r s; rw [hd] at this; simpa [hfin] using this
  have hfr : ({ r with rawN := 0 } : Rd).fragmented = true := by simp [Rd.fragmented, hst, hc.stF]
  have hwf1 : Bytes.WF s1.bytes := by rw [hb1]; exact wf_append_right (hb ▸ hc.wf)
  have hwt : Bytes.WF part := by rw [hb1] at hwf1; exact wf_append_right hwf1
  obtain ⟨s2, hrh, hb2, ht2, _⟩ := readHeader_ok h hw _ hwt s1 hb1 ht1
  have hf2 : s2.fin = .eof := by have := readHeaderUtil_fin s1; rw [hrh] at this; simpa [hf1] using this
  have hacc' : Accepts ({ r with rawN := 0 } : Rd) h := by
    unfold Accepts; simp only [hc.skip, hst, hc.maxF]; exact hacc
  have hnx := nextFrame_ctl_cut ({ r with rawN := 0 } : Rd) s1 s2 cx h hrh hacc' (by simp [hc.ext]) hctl hfr
    (by rw [hb2]; exact hshort) hf2
  rw [Rd.discard]
  simp only [hd, hfr, Bool.not_true, Bool.false_eq_true, if_false]
  rcases hx : ({ r with rawN := 0 } : Rd).nextFrame s1 cx none with ⟨h', e2, r2, s3, cx2⟩
  rw [hx] at hnx
  simp only at hnx ⊢
  subst hnx
  rfl

/-- Non-vacuity with the frames of Props/C04: first fragment and a ping complete, then the header of the
    final fragment (2 bytes announced) with 1 byte behind it, end of stream. -/
example :
    (match C04.exR0.nextFrame { chunks := [encodeFs [C04.exF0, C04.exPing], rfcEncode C04.exF2.h ++ [0x69]], fin := .eof } {} none with
     | (_, _, r1, s1, cx) => (r1.discard s1 cx none 4).1) = some .ueof := by decide

end Ws.C16
