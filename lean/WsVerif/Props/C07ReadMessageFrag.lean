/-
  C07 — `wsutil.ReadMessage` on a FRAGMENTED TEXT message: for every fragmentation (a character may
  straddle fragments), every placement of control frames between the fragments and every transport
  chunking, the message is returned — after the interleaved control frames, as one text message with
  the concatenated payload and no error — exactly when that payload is well-formed UTF-8; otherwise the
  error is ErrInvalidUTF8. From C04.readAll_message (non-checking reader) through the text simulation
  with the collecting handler installed (Proofs/ReaderBin: read_sim_collect, pull_sim).
-/
import WsVerif.Props.C04ReadMessageFrag
import WsVerif.Props.C07Stream
namespace Ws.C07
open Ws Ws.Spec Ws.RdProof Ws.RdCb Ws.RdText Ws.RdBin Ws.C04

theorem readMessage_fragmented_text (state : Nat) (s : Src) (f0 : WFrame) (fs : List WFrame) (rest : Bytes)
    (hst : state < 256) (hnf : stIs state stFragmented = false)
    (hm : Message ({ state } : Rd) f0 fs) (hfin : f0.h.fin = false) (htext : f0.h.op = opText)
    (hb : s.bytes = encodeFs (f0 :: fs) ++ rest) (hwf : Bytes.WF s.bytes) (htame : Src.Tame s) :
    (wfUtf8 (dataPlain (f0 :: fs)) = true →
        ∃ s', readMessage state s = (controls fs ++ [(opText, dataPlain (f0 :: fs))], none, s') ∧ s'.bytes = rest)
    ∧ (wfUtf8 (dataPlain (f0 :: fs)) = false → (readMessage state s).2.1 = some .utf8) := by
  let r0 : Rd := { state }
  let rd : Rd := { state, checkUTF8 := true }
  have hr0 : strip rd = r0 := rfl
  have hfr0 : r0.fragmented = false := by simp [r0, Rd.fragmented, hnf]
  obtain ⟨r1', s1, r', s', hnext, hall, hb'⟩ :=
    readAll_message r0 s {} f0 fs rest hfr0 hst rfl rfl hm hb hwf htame
  have hns := nextFrame_strip_collect rd s {}
  rw [hr0, hnext] at hns
  rcases hA : rd.nextFrame s {} (some collect) with ⟨hd, e1, r1, s1a, cx1⟩
  rw [hA] at hns
  simp only [Prod.mk.injEq] at hns
  obtain ⟨rfl, rfl, hr1, rfl, rfl⟩ := hns
  have hfields := nextFrame_fields_collect2 rd s {}
  rw [hA] at hfields
  obtain ⟨f1, f2, f3, f4, f5⟩ := hfields
  simp only at f1 f2 f3 f4 f5
  have hr1has : r1.hasFrame = true := by
    have : (strip r1).hasFrame = r1.hasFrame := rfl
    rw [← this, ← hr1]
    obtain ⟨s1b, hn2, _⟩ := message_enter r0 s {} (some collect) f0 fs rest hfr0 hst rfl rfl hm hb hwf htame
    rw [hnext] at hn2
    simp only [Prod.mk.injEq] at hn2
    rw [hn2.2.2.1]; simp [enter]
  have htm : TM .acc r1 := by
    rcases f5 with ⟨g1, _, _⟩ | ⟨_, _, h, g4, g5, g6, _, _⟩
    · rw [g1] at hr1has; simp [rd] at hr1has
    · simp only [Option.some.injEq] at g6
      subst g6
      refine ⟨(by rw [f3]), (by rw [f4]; rfl), (by decide), (fun _ => ?_), (fun _ => ?_), Or.inl hr1has⟩
      · rw [g4]; simp [rd, htext]
      · rw [g5]; simp [rd, Rd.fragmented, hnf, htext]
  -- the non-checking loop ran to io.EOF with the whole text
  rw [hr1] at hall
  unfold readAllRd at hall
  rcases hS : Rd.pull true 512 (some collect) (pullFuel s1) (strip r1) s1 {} [] with ⟨chunks, e, q, sq, cxq⟩
  rw [hS] at hall
  simp only [Prod.mk.injEq] at hall
  obtain ⟨hc1, hc2, _, rfl, rfl⟩ := hall
  have he : e = .eof := by
    by_cases h : e = .eof
    · exact h
    · simp [h] at hc2
  subst he
  have hwfd : Bytes.WF (dataPlain (f0 :: fs)) := dataPlain_wf _ (message_allOK r0 f0 fs hm)
  obtain ⟨p1, p2⟩ := pull_sim (pullFuel s1) .acc r1 s1 {} chunks q sq _ htm hS (by rw [hc1]; exact hwfd)
  rw [hc1] at p1 p2
  have hA' : ({ state, checkUTF8 := true } : Rd).nextFrame s {} (some collect) = (some f0.h, none, r1, s1, {}) := hA
  constructor
  · intro hgood
    have hacc : u8Run .acc (dataPlain (f0 :: fs)) = .acc := by simpa [wfUtf8] using hgood
    obtain ⟨r'', hp⟩ := p1 hacc
    refine ⟨sq, ?_, hb'⟩
    unfold readMessage
    simp only [collectCb_eq, hA', hfin, Bool.false_eq_true, if_false]
    unfold readAllRd
    rw [hp]
    simp [hc1, htext]
  · intro hbad
    have hna : u8Run .acc (dataPlain (f0 :: fs)) ≠ .acc := by
      intro h; simp [wfUtf8, h] at hbad
    have hp := p2 hna
    unfold readMessage
    simp only [collectCb_eq, hA', hfin, Bool.false_eq_true, if_false]
    unfold readAllRd
    rcases hP : Rd.pull true 512 (some collect) (pullFuel s1) r1 s1 {} [] with ⟨c2, e2, r2, s2, cx2⟩
    rw [hP] at hp
    simp only at hp
    subst hp
    simp

/-- Non-vacuity: the message of Props/C04 ("hel" | ping | "" | "lo", masked, server side, five transport chunks)
    through ReadMessage: the ping, then the text; and the euro sign split across two fragments, whole and with
    its last byte missing (Props/C07Stream), client side. -/
example : (readMessage 1 exSrc).1 = [(9, exPing.plain), (1, [0x68, 0x65, 0x6c, 0x6c, 0x6f])] ∧ (readMessage 1 exSrc).2.1 = none := by
  constructor <;> decide
example : (readMessage 2 (euSrc euF2)).1 = [(1, [0x61, 0xe2, 0x82, 0xac])] ∧ (readMessage 2 (euSrc euF2)).2.1 = none
    ∧ (readMessage 2 (euSrc euF2bad)).2.1 = some .utf8 := by
  refine ⟨by decide, by decide, by decide⟩

end Ws.C07
