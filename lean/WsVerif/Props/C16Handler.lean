/-
  C16 / C08 — `wsutil.ControlFrameHandler` never turns a control frame that was cut short into a clean end:
  handed a control frame's payload through the frame stack (`rawN` = the announced length), whatever the
  transport does — ends early, fails, delivers in any chunks — the handler's error is never io.EOF. (A payload
  that ends early is io.ErrUnexpectedEOF or the transport's failure; io.EOF from an OnIntermediate handler
  would make Reader.Read report the end of the MESSAGE.) No well-formedness assumption on the bytes.
-/
import WsVerif.Proofs.HandlerEof
namespace Ws.C16
open Ws Ws.Spec Ws.RdProof Ws.RdBin

/-- **The control handler never reports io.EOF.** -/
theorem control_handler_never_eof (client : Bool) (errText : ProtoErr → Bytes) (h : Header) (r : Rd) (s : Src) (cx : Ctx)
    (hoff : r.utf8on = false) (hraw : r.rawN = h.len) :
    (controlFrameHandler client errText false none h r s cx).err ≠ some .eof :=
  ctlHandler_ne_eof client errText h r s cx hoff hraw

/-- reading a frame to its clean end has delivered bytes unless the frame was empty -/
theorem clean_end_means_bytes (k fuel : Nat) (r : Rd) (s : Src) (cx : Ctx) (hoff : r.utf8on = false) (hn : r.rawN ≠ 0)
    (h : (Rd.pull false k none fuel r s cx []).2.1 = .eof) : (Rd.pull false k none fuel r s cx []).1.flatten ≠ [] := by
  obtain ⟨c, hc, hne⟩ := pull_eof_nonempty k fuel r s cx [] hoff (Or.inl hn) h
  intro hf
  exact hne (List.flatten_eq_nil_iff.mp hf c hc)

/-- ws.Cipher maps a non-empty payload to a non-empty payload whenever it does not panic -/
theorem cipher_keeps_nonempty (p : Bytes) (m : Mask) (off : Nat) (q : Bytes) (h : cipher p m off = some q) (hp : p ≠ []) : q ≠ [] :=
  cipher_ne_nil p m off q h hp

end Ws.C16
