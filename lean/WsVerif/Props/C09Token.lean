/-
  C09 / C10 — "the header's comma list names the token": `btsHasToken` (which stops scanning at the
  first match) is true exactly when SOME element of the list, as the tokenizer splits it, equals
  the token ASCII-case-insensitively — wherever it stands, whatever the length of the elements
  around it.
-/
import WsVerif.Props.C09
namespace Ws.C09
open Ws Ws.Lex

def lastSat (p : Bytes → Bool) (ts : List Bytes) : Bool :=
  match ts.getLast? with
  | some t => p t
  | none => false

theorem lastSat_reverse_of_none (p : Bytes → Bool) (acc : List Bytes) (h : ∀ t ∈ acc, p t = false) :
    lastSat p acc.reverse = false := by
  unfold lastSat
  cases acc with
  | nil => rfl
  | cons a as => simp [h a (by simp)]

theorem any_reverse_of_none (p : Bytes → Bool) (acc : List Bytes) (h : ∀ t ∈ acc, p t = false) :
    acc.reverse.any p = false := by
  simp only [List.any_reverse, List.any_eq_false]
  intro x hx; simp [h x hx]

/-- what has been collected stays in the result -/
theorem go_mem_acc (cont : Bytes → Bool) (fuel : Nat) (l : Scanner) (ok : Bool) (acc : List Bytes) :
    ∀ x ∈ acc, x ∈ (scanTokens.go cont fuel l ok acc).1 := by
  induction fuel generalizing l ok acc with
  | zero => intro x hx; simp only [scanTokens.go]; simpa using hx
  | succ n ih =>
    intro x hx
    unfold scanTokens.go
    split
    · simpa using hx
    · rename_i tok l' _
      split
      · exact ih l' true (tok :: acc) x (List.mem_cons_of_mem _ hx)
      · simp only [List.reverse_cons, List.mem_append, List.mem_reverse]; exact Or.inl hx
    · split
      · exact ih _ ok acc x hx
      · simpa using hx
    · simpa using hx

theorem go_stop_eq_any (p : Bytes → Bool) (fuel : Nat) (l : Scanner) (ok : Bool) (acc : List Bytes)
    (hacc : ∀ t ∈ acc, p t = false) :
    lastSat p (scanTokens.go (fun v => !p v) fuel l ok acc).1 = (scanTokens.go (fun _ => true) fuel l ok acc).1.any p := by
  induction fuel generalizing l ok acc with
  | zero =>
    simp only [scanTokens.go]
    rw [lastSat_reverse_of_none p acc hacc, any_reverse_of_none p acc hacc]
  | succ n ih =>
    unfold scanTokens.go
    split
    · simp only; rw [lastSat_reverse_of_none p acc hacc, any_reverse_of_none p acc hacc]
    · rename_i tok l' _
      cases hp : p tok
      · simp only [Bool.not_false, if_true]
        exact ih l' true (tok :: acc) (by intro x hx; cases hx with | head => exact hp | tail _ hm => exact hacc x hm)
      · simp only [Bool.not_true, Bool.false_eq_true, if_false, if_true]
        have hmem := go_mem_acc (fun _ => true) n l' true (tok :: acc) tok (by simp)
        have : (scanTokens.go (fun _ => true) n l' true (tok :: acc)).1.any p = true :=
          List.any_eq_true.mpr ⟨tok, hmem, hp⟩
        rw [this]
        simp [lastSat, hp]
    · split
      · exact ih _ ok acc hacc
      · simp only; rw [lastSat_reverse_of_none p acc hacc, any_reverse_of_none p acc hacc]
    · simp only; rw [lastSat_reverse_of_none p acc hacc, any_reverse_of_none p acc hacc]

/-- **`btsHasToken` finds the token wherever it stands.** -/
theorem hasToken_iff_any (header token : Bytes) :
    btsHasToken header token = (scanTokens header (fun _ => true)).1.any (fun t => equalFold t token) := by
  unfold btsHasToken scanTokens
  have := go_stop_eq_any (fun t => equalFold t token) (header.length + 2) { rest := header } false [] (by simp)
  simp only [lastSat] at this
  exact this

/-- the round-5 shapes: elements of the token's own length before and after it -/
example : btsHasToken (strBytes "Trailer, Upgrade") (strBytes "upgrade") = true
        ∧ btsHasToken (strBytes "Upgrade, Trailer") (strBytes "upgrade") = true
        ∧ btsHasToken (strBytes "Trailer, X-Trace") (strBytes "upgrade") = false := by
  decide +kernel

end Ws.C09
