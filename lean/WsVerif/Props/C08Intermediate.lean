/-
  C08 / C04 — a `wsutil.Reader` with `wsutil.ControlFrameHandler` installed as OnIntermediate (the documented
  set-up) reading a FRAGMENTED message with pings and pongs interleaved between the fragments, for every
  fragmentation, placement of the control frames and transport chunking (no receive extension, CheckUTF8 off):
  ioutil.ReadAll over the reader returns exactly the message's data with no error, the transport stands right
  behind the message, and what was written meanwhile is exactly one pong per interleaved ping — final, the
  identical payload, masked iff we are the client — in stream order, nothing for pongs, nothing else.
-/
import WsVerif.Proofs.ReaderPong
import WsVerif.Props.C04ReadAll
namespace Ws.C08
open Ws Ws.Spec Ws.RdProof Ws.RdCb Ws.RdPong Ws.C06 Ws.C04

theorem pull_message_h (client : Bool) (errText : ProtoErr → Bytes) (skip : Bool) (st maxF : Nat) (rest : Bytes) (fuel : Nat) :
    ∀ (r : Rd) (s : Src) (cx : Ctx) (rem : Bytes) (fs0 : List WFrame) (acc : List Bytes),
      Sync false skip st maxF rest r s rem fs0 → EnvOk cx.env → (∀ f ∈ fs0, opIsControl f.h.op = true → GoodCtl f) →
      weight r s < fuel →
      ∃ chunks r' s' cx', Rd.pull true 512 (some (pongH client errText)) fuel r s cx acc = (acc.reverse ++ chunks, .eof, r', s', cx')
        ∧ chunks.flatten = rem ∧ s'.bytes = rest ∧ Src.Tame s' ∧ Handled client fs0 cx cx' := by
  induction fuel with
  | zero => intro r s cx rem fs0 acc _ _ _ h; omega
  | succ n ih =>
    intro r s cx rem fs0 acc hs henv hg hw
    rcases step_h client errText false skip st maxF rest r s cx 512 (by decide) rem fs0 hs henv hg with
      ⟨b, e, r1, s1, cx1, hrd, henv1, hcase⟩ | hend
    · have hpad : (b ++ List.replicate (b.length - b.length) 0).take b.length = b := by simp
      rcases hcase with ⟨he, rem1, fs1, hr1, hs1, hw1, hsub, hl1⟩ | ⟨he, hr1, hb1, ht1, _, hl1⟩
      · subst he
        obtain ⟨chunks, r', s', cx', hp, hfl, hb', ht', hh'⟩ := ih r1 s1 cx1 rem1 fs1 (if b.length = 0 then acc else b :: acc) hs1 henv1
          (fun f hf hc => hg f (hsub f hf) hc) (by omega)
        rw [Rd.pull]
        simp only [if_true, hrd, hpad]
        rw [hp]
        by_cases hz : b.length = 0
        · have hb0 : b = [] := List.length_eq_zero_iff.mp hz
          refine ⟨chunks, r', s', cx', by simp [hz], by rw [hfl, hr1, hb0]; rfl, hb', ht', hl1 _ hh'⟩
        · refine ⟨b :: chunks, r', s', cx', by simp [hz], by simp [hfl, hr1], hb', ht', hl1 _ hh'⟩
      · subst he
        rw [Rd.pull]
        simp only [if_true, hrd, hpad]
        by_cases hz : b.length = 0
        · have hb0 : b = [] := List.length_eq_zero_iff.mp hz
          exact ⟨[], r1, s1, cx1, by simp [hz], by rw [hr1, hb0]; rfl, hb1, ht1, hl1⟩
        · exact ⟨[b], r1, s1, cx1, by simp [hz], by simp [hr1], hb1, ht1, hl1⟩
    · exact absurd hend.opn (by decide)

/-- the interleaved pings of a frame list, in order -/
def pingsIn : List WFrame → List WFrame
  | [] => []
  | f :: fs => if f.h.op = opPing then f :: pingsIn fs else pingsIn fs

/-- `ws` are the pongs for `ps`, one each, in order, each under some drawn mask -/
inductive Pongs (client : Bool) : List Bytes → List WFrame → Prop
  | nil : Pongs client [] []
  | cons (f : WFrame) (m : Mask) (ws : List Bytes) (ps : List WFrame) :
      Pongs client ws ps → Pongs client (pongWire client f m :: ws) (f :: ps)

/-- what the handler did, read off the destination: one pong per interleaved ping, nothing else -/
theorem handled_writes (client : Bool) (fs : List WFrame) (cx cx' : Ctx) (h : Handled client fs cx cx') :
    ∃ ws, cx'.env.dst.writes = cx.env.dst.writes ++ ws ∧ Pongs client ws (pingsIn fs) ∧ cx'.msgs = cx.msgs := by
  induction h with
  | nil cx => exact ⟨[], by simp, Pongs.nil, rfl⟩
  | data f fs cx cxF hd _ ih =>
    obtain ⟨ws, h1, h2, h3⟩ := ih
    have hnp : ¬ f.h.op = opPing := by intro hp; rw [hp] at hd; exact absurd hd (by decide)
    exact ⟨ws, h1, by simp only [pingsIn, hnp, if_false]; exact h2, h3⟩
  | ctl f fs cx cx1 cxF _ hrep _ ih =>
    obtain ⟨ws, h1, h2, h3⟩ := ih
    obtain ⟨_, hm, hcase⟩ := hrep
    rcases hcase with ⟨hp, hw⟩ | ⟨hp, hw⟩
    · refine ⟨pongWire client f cx.env.popMask.1 :: ws, by rw [h1, hw]; simp, ?_, by rw [h3, hm]⟩
      simp only [pingsIn, hp, if_true]
      exact Pongs.cons _ _ _ _ h2
    · have hnp : ¬ f.h.op = opPing := by rw [hp]; decide
      exact ⟨ws, by rw [h1, hw], by simp only [pingsIn, hnp, if_false]; exact h2, by rw [h3, hm]⟩

/-- **ReadAll over a whole message with wsutil.ControlFrameHandler as OnIntermediate.** -/
theorem readAll_message_pongs (client : Bool) (errText : ProtoErr → Bytes)
    (r0 : Rd) (s : Src) (cx : Ctx) (f0 : WFrame) (fs : List WFrame) (rest : Bytes)
    (hnf : r0.fragmented = false) (hst : r0.state < 256)
    (hext : r0.ext = false) (hu8 : r0.checkUTF8 = false)
    (hm : Message r0 f0 fs) (henv : EnvOk cx.env)
    (hg : ∀ f ∈ fs, opIsControl f.h.op = true → GoodCtl f)
    (hb : s.bytes = encodeFs (f0 :: fs) ++ rest) (hwf : Bytes.WF s.bytes) (htame : Src.Tame s) :
    ∃ r1 s1 r' s' cx' ws,
      r0.nextFrame s cx (some (pongH client errText)) = (some f0.h, none, r1, s1, cx)
      ∧ readAllRd r1 s1 cx (some (pongH client errText)) = (dataPlain (f0 :: fs), none, r', s', cx')
      ∧ s'.bytes = rest
      ∧ cx'.env.dst.writes = cx.env.dst.writes ++ ws ∧ Pongs client ws (pingsIn fs) ∧ cx'.msgs = cx.msgs := by
  obtain ⟨s1, hnext, hsync, hmu1, _⟩ := message_enter r0 s cx (some (pongH client errText)) f0 fs rest hnf hst hext hu8 hm hb hwf htame
  obtain ⟨chunks, r', s', cx', hp, hfl, hb', _, hh⟩ :=
    pull_message_h client errText r0.skipCheck (stSet r0.state stFragmented) r0.maxFrame rest (pullFuel s1) (enter r0 f0.h) s1 cx _ fs []
      hsync henv hg (by simp only [weight, enter]; unfold pullFuel Src.fuel mu; split <;> omega)
  obtain ⟨ws, hw1, hw2, hw3⟩ := handled_writes client fs cx cx' hh
  refine ⟨enter r0 f0.h, s1, r', s', cx', ws, hnext, ?_, hb', hw1, hw2, hw3⟩
  unfold readAllRd
  rw [hp]
  simp [hfl]

/-- the hypotheses are satisfiable: the example message of Props/C04 ("hel" PING "l" "o") -/
example : GoodCtl exPing := by unfold GoodCtl; decide
example : (pingsIn [exPing, exF1, exF2]).length = 1 := by decide

end Ws.C08
