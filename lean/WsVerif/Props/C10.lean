/-
  C10 — Client handshake sends a compliant request and accepts only a valid 101.

  Stated on the model of dialer.go (Model/Dialer.lean), tied to the code by the correspondence run
  (`dl`/`dial` ops) and Bridge.C10.  Proved here, for every configuration, nonce and response:
    * the request written has the fixed shape (GET uri HTTP/1.1, Host, Upgrade, Connection,
      Version, Key = the nonce, then the configured lists and headers, then the blank line);
    * success implies: HTTP/1.x with x ≥ 1, a status token that is literally "101", every header
      line read acceptable, Upgrade/Connection/Accept all seen, the accept value equal to
      base64(SHA-1(nonce ++ GUID)), every Sec-WebSocket-Protocol value one that was requested and
      the returned subprotocol the last of them, every extension named one that was offered;
    * whatever the outcome, the bytes still readable afterwards (buffer, then connection) are a
      suffix of what the server sent — nothing is lost, duplicated or reordered;
    * the dial address is the URL host with the scheme's default port appended iff it has none.
-/
import WsVerif.Model.Dialer
import WsVerif.Proofs.Bufio
namespace Ws.C10
open Ws Ws.Lex

/-! ### the request -/

theorem request_shape (cfg : DialCfg) (uri urlHost nonce : Bytes) :
    writeUpgradeRequest cfg uri urlHost nonce =
      strBytes "GET " ++ uri ++ strBytes " HTTP/1.1\r\n"
        ++ strBytes "Host: " ++ (if cfg.host.isEmpty then urlHost else cfg.host) ++ crlf
        ++ strBytes "Upgrade: websocket\r\nConnection: Upgrade\r\nSec-WebSocket-Version: 13\r\n"
        ++ strBytes "Sec-WebSocket-Key: " ++ nonce ++ crlf
        ++ (if cfg.protocols.isEmpty then []
            else strBytes "Sec-WebSocket-Protocol: " ++ (cfg.protocols.intersperse (strBytes ", ")).flatten ++ crlf)
        ++ (if cfg.extensions.isEmpty then []
            else strBytes "Sec-WebSocket-Extensions: " ++ writeOptions cfg.extensions ++ crlf)
        ++ cfg.header ++ crlf := rfl

/-- The request always ends with the blank line. -/
theorem request_terminated (cfg : DialCfg) (uri urlHost nonce : Bytes) :
    ∃ pre, writeUpgradeRequest cfg uri urlHost nonce = pre ++ cfg.header ++ crlf := ⟨_, rfl⟩

/-! ### the status line -/

def asciiStep (acc : Option Nat) (c : Nat) : Option Nat :=
    match acc with
    | none => none
    | some n => if 48 ≤ c ∧ c ≤ 57 then (let n' := n * 10 + (c - 48); if n' > 9223372036854775807 then none else some n') else none

theorem asciiStep_some (acc : Option Nat) (c m : Nat) (h : asciiStep acc c = some m) :
    ∃ n, acc = some n ∧ 48 ≤ c ∧ c ≤ 57 ∧ m = n * 10 + (c - 48) := by
  unfold asciiStep at h
  cases acc with
  | none => cases h
  | some n =>
    simp only at h
    split at h
    · split at h
      · cases h
      · injection h with h; exact ⟨n, rfl, by omega, by omega, h.symm⟩
    · cases h

theorem digit3_101 (s : Bytes) (hl : s.length = 3) (h : asciiToInt s = some 101) : s = strBytes "101" := by
  match s, hl with
  | [a, b, c], _ =>
    have e : asciiToInt [a, b, c] = asciiStep (asciiStep (asciiStep (some 0) a) b) c := rfl
    rw [e] at h
    obtain ⟨n2, h2, c1, c2, c3⟩ := asciiStep_some _ _ _ h
    obtain ⟨n1, h1, b1, b2, b3⟩ := asciiStep_some _ _ _ h2
    obtain ⟨n0, h0, a1, a2, a3⟩ := asciiStep_some _ _ _ h1
    injection h0 with h0
    have : a = 49 ∧ b = 48 ∧ c = 49 := by omega
    obtain ⟨x1, x2, x3⟩ := this
    subst x1 x2 x3
    decide +kernel

/-- Passing the status line means HTTP/1.x (x ≥ 1) and a status token that is literally "101". -/
theorem status_line_ok (sl : Bytes) (h : dlStatusLine sl = none) :
    (∃ minor, httpParseVersion (bsplit3 sl 32).1 = some (1, minor) ∧ 1 ≤ minor)
      ∧ (bsplit3 sl 32).2.1 = strBytes "101" := by
  unfold dlStatusLine at h
  split at h
  · cases h
  · rename_i major minor hv
    split at h
    · cases h
    · rename_i st hst
      split at h
      · cases h
      · split at h
        · cases h
        · rename_i h1 h2
          have hst101 : st = 101 := by simpa using h2
          subst hst101
          by_cases hl : (bsplit3 sl 32).2.1.length = 3
          · rw [if_pos hl] at hst
            refine ⟨⟨minor, ?_, by omega⟩, digit3_101 _ hl hst⟩
            have : major = 1 := by omega
            rw [hv, this]
          · rw [if_neg hl] at hst; cases hst

/-! ### the header loop as a fold over parsed lines -/

def runDl (cfg : DialCfg) (nonce : Bytes) : List (Bytes × Bytes) → Handshake → Nat → Handshake × Nat × Option DialErr
  | [], hs, seen => (hs, seen, none)
  | (k, v) :: r, hs, seen =>
    match (dlHeader cfg nonce hs seen k v).2.2 with
    | some e => ((dlHeader cfg nonce hs seen k v).1, seen, some e)
    | none => runDl cfg nonce r (dlHeader cfg nonce hs seen k v).1 (dlHeader cfg nonce hs seen k v).2.1

theorem dlLoop_history (cfg : DialCfg) (nonce : Bytes) (fuel : Nat) (b : Bufio) (hs hs' : Handshake)
    (seen seen' : Nat) (b' : Bufio) (h : dlLoop cfg nonce fuel b hs seen = (hs', none, b', seen')) :
    ∃ hist, runDl cfg nonce hist hs seen = (hs', seen', none) := by
  induction fuel generalizing b hs seen with
  | zero => simp [dlLoop] at h
  | succ n ih =>
    unfold dlLoop at h
    split at h
    · cases h
    · split at h
      · injection h with h1 h; injection h with _ h; injection h with _ h3
        exact ⟨[], by simp [runDl, h1, h3]⟩
      · split at h
        · cases h
        · rename_i k v _
          split at h
          · cases h
          · rename_i he
            obtain ⟨hist, hh⟩ := ih _ _ _ h
            exact ⟨(k, v) :: hist, by simp [runDl, he, hh]⟩

def kUpgrade := strBytes "Upgrade"
def kConnection := strBytes "Connection"
def kAccept := strBytes "Sec-Websocket-Accept"
def kProtocol := strBytes "Sec-Websocket-Protocol"
def kExtensions := strBytes "Sec-Websocket-Extensions"

def bitOf (k : Bytes) : Nat :=
  if k = kUpgrade then 1 else if k = kConnection then 2 else if k = kAccept then 4 else 0

/-- What an accepted response header line must look like. -/
def lineGood (cfg : DialCfg) (nonce k v : Bytes) : Prop :=
  (k = kUpgrade → equalFold v (strBytes "websocket") = true) ∧
  (k = kConnection → equalFold v (strBytes "Upgrade") = true) ∧
  (k = kAccept → v = Spec.acceptOf nonce) ∧
  (k = kProtocol → v ∈ cfg.protocols ∧ v ≠ []) ∧
  (k = kExtensions → ∀ o ∈ (parseOptions v).1, ∃ w ∈ cfg.extensions, w.name = o.name)

theorem keys_distinct : kUpgrade ≠ kConnection ∧ kUpgrade ≠ kAccept ∧ kUpgrade ≠ kProtocol ∧ kUpgrade ≠ kExtensions
    ∧ kConnection ≠ kAccept ∧ kConnection ≠ kProtocol ∧ kConnection ≠ kExtensions ∧ kAccept ≠ kProtocol
    ∧ kAccept ≠ kExtensions ∧ kProtocol ≠ kExtensions := by decide +kernel

/-- matchSelectedExtensions: without error, every option the server listed names an offered one,
    and what is appended is the offered name with the server's parameters. -/
theorem matchSel_go (wanted : List Opt) (os received : List Opt) (rcv : List Opt)
    (h : matchSelectedExtensions.go wanted os received = (rcv, true)) :
    (∀ o ∈ os, ∃ w ∈ wanted, w.name = o.name) ∧
      rcv = received ++ os.filterMap (fun o => (wanted.find? (fun w => w.name == o.name)).map (fun w => { w with params := o.params })) := by
  induction os generalizing received with
  | nil => simp [matchSelectedExtensions.go] at h; simp [h]
  | cons o r ih =>
    unfold matchSelectedExtensions.go at h
    split at h
    · rename_i w hw
      obtain ⟨i1, i2⟩ := ih _ h
      refine ⟨?_, ?_⟩
      · intro x hx
        cases hx with
        | head =>
          have := List.find?_some hw
          exact ⟨w, List.mem_of_find?_eq_some hw, by simpa using this⟩
        | tail _ hm => exact i1 x hm
      · rw [i2]; simp [hw, List.append_assoc]
    · simp at h

theorem matchSel_ok (v : Bytes) (wanted received rcv : List Opt)
    (h : matchSelectedExtensions v wanted received = (rcv, none)) :
    v = [] ∧ rcv = received ∨
    ((∀ o ∈ (parseOptions v).1, ∃ w ∈ wanted, w.name = o.name) ∧
      rcv = received ++ (parseOptions v).1.filterMap (fun o =>
        (wanted.find? (fun w => w.name == o.name)).map (fun w => { w with params := o.params }))) := by
  unfold matchSelectedExtensions at h
  split at h
  · rename_i he
    left; injection h with h1 _
    exact ⟨by simpa using he, h1.symm⟩
  · right
    simp only at h
    cases hg : matchSelectedExtensions.go wanted (groupOptions (scanOptionsCalls v).1) received with
    | mk r ok =>
      rw [hg] at h
      simp only at h
      cases ok with
      | false => simp at h
      | true =>
        have hr : rcv = r := by
          split at h
          · cases h
          · split at h
            · cases h
            · split at h
              · cases h
              · injection h with h1 _; exact h1.symm
        subst hr
        exact matchSel_go wanted _ received rcv hg

theorem dlHeader_ok (cfg : DialCfg) (nonce : Bytes) (hs : Handshake) (seen : Nat) (k v : Bytes)
    (h : (dlHeader cfg nonce hs seen k v).2.2 = none) :
    lineGood cfg nonce k v ∧ (dlHeader cfg nonce hs seen k v).2.1 = seen ||| bitOf k
      ∧ (dlHeader cfg nonce hs seen k v).1.protocol = (if k = kProtocol then v else hs.protocol) := by
  obtain ⟨d1, d2, d3, d4, d5, d6, d7, d8, d9, d10⟩ := keys_distinct
  unfold dlHeader at h ⊢
  unfold lineGood bitOf
  simp only [show strBytes "Upgrade" = kUpgrade from rfl, show strBytes "Connection" = kConnection from rfl,
    show strBytes "Sec-Websocket-Accept" = kAccept from rfl, show strBytes "Sec-Websocket-Protocol" = kProtocol from rfl,
    show strBytes "Sec-Websocket-Extensions" = kExtensions from rfl] at h ⊢
  by_cases h1 : k = kUpgrade
  · subst h1; simp_all [dSeenUpgrade]
  · by_cases h2 : k = kConnection
    · subst h2
      simp only [if_neg h1, if_true] at h ⊢
      simp_all [dSeenConnection]
    · by_cases h3 : k = kAccept
      · subst h3
        simp only [if_neg h1, if_neg h2, if_true] at h ⊢
        simp_all [dSeenSecAccept]
      · by_cases h4 : k = kProtocol
        · subst h4
          simp only [if_neg h1, if_neg h2, if_neg h3, if_true] at h ⊢
          cases hf : cfg.protocols.find? (fun w => w == v) with
          | none => rw [hf] at h; simp at h
          | some w =>
            rw [hf] at h
            have hw : w = v := by simpa using List.find?_some hf
            have hm : w ∈ cfg.protocols := List.mem_of_find?_eq_some hf
            subst hw
            by_cases hwe : w.isEmpty
            · simp [hwe] at h
            · simp only [hwe, Bool.false_eq_true, if_false] at h ⊢
              refine ⟨⟨fun e => absurd e.symm d3, fun e => absurd e.symm d6, fun e => absurd e.symm d8,
                fun _ => ⟨hm, by simpa using hwe⟩, fun e => absurd e d10⟩, by simp, by simp⟩
        · by_cases h5 : k = kExtensions
          · subst h5
            simp only [if_neg h1, if_neg h2, if_neg h3, if_neg h4, if_true] at h ⊢
            refine ⟨⟨fun e => absurd e h1, fun e => absurd e h2, fun e => absurd e h3, fun e => absurd e h4, fun _ => ?_⟩,
              by simp, by simp⟩
            cases hm : matchSelectedExtensions v cfg.extensions hs.extensions with
            | mk rcv e =>
              rw [hm] at h; simp only at h; subst h
              rcases matchSel_ok v _ _ _ hm with ⟨hv, _⟩ | ⟨hall, _⟩
              · subst hv; intro o ho; simp [parseOptions, scanOptionsCalls, scanOptionsCalls.go, Scanner.next, skipSpace, groupOptions] at ho
              · exact hall
          · simp only [if_neg h1, if_neg h2, if_neg h3, if_neg h4, if_neg h5] at h ⊢
            refine ⟨⟨fun e => absurd e h1, fun e => absurd e h2, fun e => absurd e h3, fun e => absurd e h4, fun e => absurd e h5⟩, ?_, ?_⟩
            · split <;> simp
            · split <;> simp

/-- The last Sec-WebSocket-Protocol value of the head. -/
def lastProto (hist : List (Bytes × Bytes)) (dflt : Bytes) : Bytes :=
  hist.foldl (fun p kv => if kv.1 = kProtocol then kv.2 else p) dflt

theorem runDl_sound (cfg : DialCfg) (nonce : Bytes) (hist : List (Bytes × Bytes)) (hs hs' : Handshake) (seen seen' : Nat)
    (h : runDl cfg nonce hist hs seen = (hs', seen', none)) :
    (∀ kv ∈ hist, lineGood cfg nonce kv.1 kv.2)
      ∧ seen' = hist.foldl (fun a kv => a ||| bitOf kv.1) seen
      ∧ hs'.protocol = lastProto hist hs.protocol := by
  induction hist generalizing hs seen with
  | nil => simp [runDl] at h; obtain ⟨h1, h2⟩ := h; subst h1 h2; simp [lastProto]
  | cons kv r ih =>
    obtain ⟨k, v⟩ := kv
    unfold runDl at h
    cases he : (dlHeader cfg nonce hs seen k v).2.2 with
    | some e => rw [he] at h; simp at h
    | none =>
      rw [he] at h
      obtain ⟨g, s, p⟩ := dlHeader_ok cfg nonce hs seen k v he
      obtain ⟨i1, i2, i3⟩ := ih _ _ h
      refine ⟨?_, ?_, ?_⟩
      · intro kv hkv
        cases hkv with
        | head => exact g
        | tail _ hm => exact i1 kv hm
      · rw [i2, s]; rfl
      · rw [i3, p]; rfl

theorem fold_testBit (hist : List (Bytes × Bytes)) (s i : Nat) :
    (hist.foldl (fun a kv => a ||| bitOf kv.1) s).testBit i
      = (s.testBit i || hist.any (fun kv => (bitOf kv.1).testBit i)) := by
  induction hist generalizing s with
  | nil => simp
  | cons kv r ih => simp [ih, Nat.testBit_or, Bool.or_assoc]

theorem bitOf_testBit (k : Bytes) :
    ((bitOf k).testBit 0 = true → k = kUpgrade) ∧ ((bitOf k).testBit 1 = true → k = kConnection)
    ∧ ((bitOf k).testBit 2 = true → k = kAccept) := by
  unfold bitOf
  split
  · simp_all [Nat.testBit]
  · split
    · simp_all [Nat.testBit]
    · split
      · simp_all [Nat.testBit]
      · simp [Nat.testBit]

theorem seen7_present (hist : List (Bytes × Bytes))
    (h : hist.foldl (fun a kv => a ||| bitOf kv.1) 0 = 7) :
    (∃ kv ∈ hist, kv.1 = kUpgrade) ∧ (∃ kv ∈ hist, kv.1 = kConnection) ∧ (∃ kv ∈ hist, kv.1 = kAccept) := by
  have get : ∀ i, i < 3 → ∃ kv ∈ hist, (bitOf kv.1).testBit i = true := by
    intro i hi
    have := fold_testBit hist 0 i
    rw [h] at this
    have h7 : (7 : Nat).testBit i = true := by
      have : i = 0 ∨ i = 1 ∨ i = 2 := by omega
      rcases this with h | h | h <;> subst h <;> decide
    rw [h7] at this
    have := this.symm
    simp only [Nat.zero_testBit, Bool.false_or, List.any_eq_true] at this
    exact this
  obtain ⟨a, ha, ha'⟩ := get 0 (by omega)
  obtain ⟨b, hb, hb'⟩ := get 1 (by omega)
  obtain ⟨c, hc, hc'⟩ := get 2 (by omega)
  exact ⟨⟨a, ha, (bitOf_testBit a.1).1 ha'⟩, ⟨b, hb, (bitOf_testBit b.1).2.1 hb'⟩, ⟨c, hc, (bitOf_testBit c.1).2.2 hc'⟩⟩

/-- SOUNDNESS.  The dialer reports success only if the status line is HTTP/1.x (x ≥ 1) with the
    status token literally "101", every header line read was acceptable, Upgrade, Connection and
    Sec-WebSocket-Accept were all present, and the subprotocol returned is the last one sent. -/
theorem dial_success_sound (cfg : DialCfg) (nonce : Bytes) (src : Src) (hs : Handshake) (b : Bufio)
    (h : dialerUpgrade cfg nonce src = (hs, none, b)) :
    ∃ sl hist,
      (∃ minor, httpParseVersion (bsplit3 sl 32).1 = some (1, minor) ∧ 1 ≤ minor)
      ∧ (bsplit3 sl 32).2.1 = strBytes "101"
      ∧ (∀ kv ∈ hist, lineGood cfg nonce kv.1 kv.2)
      ∧ (∃ kv ∈ hist, kv.1 = kUpgrade) ∧ (∃ kv ∈ hist, kv.1 = kConnection) ∧ (∃ kv ∈ hist, kv.1 = kAccept)
      ∧ hs.protocol = lastProto hist [] := by
  unfold dialerUpgrade at h
  simp only at h
  split at h
  · cases h
  · rename_i sl b1 _
    split at h
    · cases h
    · rename_i hsl
      split at h
      · cases h
      · rename_i hs' b' seen hl
        injection h with h1 h; injection h with h2 _
        obtain ⟨hist, hh⟩ := dlLoop_history cfg nonce _ _ _ _ _ _ _ hl
        obtain ⟨g, s, p⟩ := runDl_sound cfg nonce hist {} hs' 0 seen hh
        have hseen : seen = 7 := by
          unfold dlFinish at h2
          by_cases h7 : seen = 7
          · exact h7
          · rw [if_pos h7] at h2; cases h2
        obtain ⟨p1, p2, p3⟩ := seen7_present hist (by rw [← s, hseen])
        obtain ⟨v1, v2⟩ := status_line_ok sl hsl
        exact ⟨sl, hist, v1, v2, g, p1, p2, p3, by rw [← h1, p]⟩

/-! ### nothing the server sent is lost -/

theorem dlLoop_conserve (cfg : DialCfg) (nonce : Bytes) (fuel : Nat) (b : Bufio) (hs : Handshake) (seen : Nat) :
    ∃ consumed, b.all = consumed ++ (dlLoop cfg nonce fuel b hs seen).2.2.1.all := by
  induction fuel generalizing b hs seen with
  | zero => exact ⟨[], by simp [dlLoop]⟩
  | succ n ih =>
    unfold dlLoop
    have hr := readLine_all b
    split
    · rename_i f b' heq
      rw [heq] at hr
      exact ⟨_, hr.1 rfl⟩
    · rename_i line b' heq
      rw [heq] at hr
      obtain ⟨eol, _, hc⟩ := hr.2 rfl
      simp only at hc
      split
      · exact ⟨_, by rw [hc, ← List.append_assoc]⟩
      · split
        · exact ⟨_, by rw [hc, ← List.append_assoc]⟩
        · rename_i k v _
          split
          · exact ⟨_, by rw [hc, ← List.append_assoc]⟩
          · obtain ⟨c2, h2⟩ := ih b' (dlHeader cfg nonce hs seen k v).1 (dlHeader cfg nonce hs seen k v).2.1
            exact ⟨line ++ eol ++ c2, by rw [hc, h2]; simp [List.append_assoc]⟩

/-- Whatever the outcome, what remains readable through the returned buffer followed by the
    connection is a suffix of the bytes the server sent: once, in order, nothing dropped. -/
theorem rest_preserved (cfg : DialCfg) (nonce : Bytes) (src : Src) :
    ∃ head, src.bytes = head ++ (dialerUpgrade cfg nonce src).2.2.all := by
  unfold dialerUpgrade
  simp only
  have hr := readLine_all { cap := max 16 (if cfg.readBuf = 0 then 4096 else cfg.readBuf), src := src }
  have h0 : ({ cap := max 16 (if cfg.readBuf = 0 then 4096 else cfg.readBuf), src := src } : Bufio).all = src.bytes := by
    simp [Bufio.all]
  rw [h0] at hr
  split
  · rename_i f b1 heq
    rw [heq] at hr
    exact ⟨_, hr.1 rfl⟩
  · rename_i sl b1 heq
    rw [heq] at hr
    obtain ⟨eol, _, hc⟩ := hr.2 rfl
    simp only at hc
    split
    · exact ⟨_, by rw [hc, ← List.append_assoc]⟩
    · obtain ⟨c2, h2⟩ := dlLoop_conserve cfg nonce (src.bytes.length + 4) b1 {} 0
      split
      · rename_i heq2
        rw [heq2] at h2
        exact ⟨sl ++ eol ++ c2, by rw [hc, h2]; simp [List.append_assoc]⟩
      · rename_i heq2
        rw [heq2] at h2
        exact ⟨sl ++ eol ++ c2, by rw [hc, h2]; simp [List.append_assoc]⟩

/-! ### the address dialed -/

/-- The address is the URL host itself when it carries a port (a ':' after any ']'), and the host
    with the scheme's default port appended otherwise. -/
theorem hostport_addr (host port : Bytes) :
    (hostport host port).2 = host ∨ (hostport host port).2 = host ++ port := by
  unfold hostport
  simp only
  cases (host.reverse.idxOf? 58).map (fun i => host.length - 1 - i) with
  | none => simp
  | some c =>
    simp only
    split <;> split <;> simp

theorem hostport_no_colon (host port : Bytes) (h : 58 ∉ host) : hostport host port = (host, host ++ port) := by
  unfold hostport
  have : host.reverse.idxOf? 58 = none := by
    rw [List.idxOf?_eq_none_iff]; simpa using h
  simp [this]

example : hostport (strBytes "example.com") (strBytes ":80") = (strBytes "example.com", strBytes "example.com:80") := by decide +kernel
example : hostport (strBytes "example.com:8080") (strBytes ":80") = (strBytes "example.com", strBytes "example.com:8080") := by decide +kernel
example : hostport (strBytes "[::1]") (strBytes ":443") = (strBytes "[::1]", strBytes "[::1]:443") := by decide +kernel
example : hostport (strBytes "[::1]:9000") (strBytes ":443") = (strBytes "[::1]", strBytes "[::1]:9000") := by decide +kernel

/-! ### the TLS session of a wss URL -/

/-- With no name configured (no TLS configuration at all, or one without a ServerName) the session
    is set up for the URL's own host name, whatever was dialed before: the shared configuration
    (the caller's, or the package-level default) is left as it was. -/
theorem tls_name_is_url_host (cfgName : Option Bytes) (hostname : Bytes) (h : (cfgName.getD []) = []) :
    tlsServerName cfgName hostname = (hostname, []) := by
  unfold tlsServerName; simp [h]

theorem tls_name_configured (name hostname : Bytes) (h : name ≠ []) :
    tlsServerName (some name) hostname = (name, name) := by
  unfold tlsServerName
  cases name with
  | nil => exact absurd rfl h
  | cons a as => simp

/-- Any history of dials through the same configuration: the configuration never changes, so every
    dial's server name is a function of that dial's own URL host alone. -/
def dialAll (cfgName : Option Bytes) : List Bytes → List Bytes × Option Bytes
  | [] => ([], cfgName)
  | h :: hs =>
    let (n, after) := tlsServerName cfgName h
    let (ns, fin) := dialAll (cfgName.map fun _ => after) hs
    (n :: ns, fin)

theorem dial_history_independent (cfgName : Option Bytes) (hosts : List Bytes) :
    dialAll cfgName hosts = (hosts.map fun h => (tlsServerName cfgName h).1, cfgName) := by
  induction hosts with
  | nil => rfl
  | cons h hs ih =>
    have hsame : (cfgName.map fun _ => (tlsServerName cfgName h).2) = cfgName := by
      cases cfgName with
      | none => rfl
      | some n => unfold tlsServerName; simp only [Option.getD_some, Option.map_some]; split <;> rfl
    simp only [dialAll, hsame, ih, List.map_cons]

example : dialAll none [strBytes "first.example", strBytes "second.example"]
    = ([strBytes "first.example", strBytes "second.example"], none) := by decide +kernel

end Ws.C10
