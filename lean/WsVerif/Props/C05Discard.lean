/-
  C05 — skipping is no way around a protocol violation: Discard, called anywhere inside a message
  whose later frame breaks a framing rule (after any number of valid fragments and interleaved
  control frames), returns that protocol error — it does not skip past the offending frame.
-/
import WsVerif.Props.C16DiscardCut
import WsVerif.Props.C05
namespace Ws.C05
open Ws Ws.Spec Ws.RdProof

theorem discard_rejects_later_bad (st maxF : Nat) (cx : Ctx) (hbad : Header) (junk : Bytes) (pe : ProtoErr)
    (hw : hbad.WF) (hcheck : checkHeader hbad st = some pe)
    (fs : List WFrame) (ht : Tail true false st maxF fs) (hopen : closed fs = false)
    (r : Rd) (s : Src) (wire : Bytes)
    (hc : Common false st maxF r s) (hst : r.state = st) (hn : r.rawN = wire.length)
    (hb : s.bytes = wire ++ (encodeFs fs ++ (rfcEncode hbad ++ junk))) :
    (r.discard s cx none (fs.length + 3)).1 = some (.proto pe) := by
  refine C16.discard_open_tail_gen false st maxF cx (rfcEncode hbad ++ junk) (some (.proto pe)) s.fin ?_ fs ht hopen r s wire _ hc hst hn hb rfl (by omega)
  intro r s wire n hc hst hn hb _
  obtain ⟨s1, hd, hb1, ht1, _, _⟩ := drainRaw_ok s.fuel r s wire (rfcEncode hbad ++ junk) hb hn hc.tame (by unfold Src.fuel mu; omega)
  have hfr : ({ r with rawN := 0 } : Rd).fragmented = true := by simp [Rd.fragmented, hst, hc.stF]
  have hwf1 : Bytes.WF s1.bytes := by rw [hb1]; exact wf_append_right (hb ▸ hc.wf)
  have hwt : Bytes.WF junk := by rw [hb1] at hwf1; exact wf_append_right hwf1
  obtain ⟨s2, hrh, _, _, _⟩ := readHeader_ok hbad hw _ hwt s1 hb1 ht1
  have hrej := nextFrame_rejects ({ r with rawN := 0 } : Rd) s1 s2 cx none hbad pe hrh (by simp [hc.skip]) (by simpa [hst] using hcheck)
  rw [Rd.discard]
  simp only [hd, hfr, Bool.not_true, Bool.false_eq_true, if_false, hrej]

/-- … and the same for a later frame that announces more than MaxFrameSize: ErrFrameTooLarge, from its
    header alone (whatever `junk` follows, however short). -/
theorem discard_rejects_later_toolarge (skip : Bool) (st maxF : Nat) (cx : Ctx) (hbig : Header) (junk : Bytes)
    (hw : hbig.WF) (hcheck : (if skip then none else checkHeader hbig st) = none) (hmax : maxF > 0) (hlen : hbig.len > maxF)
    (fs : List WFrame) (ht : Tail true skip st maxF fs) (hopen : closed fs = false)
    (r : Rd) (s : Src) (wire : Bytes)
    (hc : Common skip st maxF r s) (hst : r.state = st) (hn : r.rawN = wire.length)
    (hb : s.bytes = wire ++ (encodeFs fs ++ (rfcEncode hbig ++ junk))) :
    (r.discard s cx none (fs.length + 3)).1 = some .tooLarge := by
  refine C16.discard_open_tail_gen skip st maxF cx (rfcEncode hbig ++ junk) (some .tooLarge) s.fin ?_ fs ht hopen r s wire _ hc hst hn hb rfl (by omega)
  intro r s wire n hc hst hn hb _
  obtain ⟨s1, hd, hb1, ht1, _, _⟩ := drainRaw_ok s.fuel r s wire (rfcEncode hbig ++ junk) hb hn hc.tame (by unfold Src.fuel mu; omega)
  have hfr : ({ r with rawN := 0 } : Rd).fragmented = true := by simp [Rd.fragmented, hst, hc.stF]
  have hwf1 : Bytes.WF s1.bytes := by rw [hb1]; exact wf_append_right (hb ▸ hc.wf)
  have hwt : Bytes.WF junk := by rw [hb1] at hwf1; exact wf_append_right hwf1
  obtain ⟨s2, hrh, _, _, _⟩ := readHeader_ok hbig hw _ hwt s1 hb1 ht1
  have hrej := toolarge_before_payload ({ r with rawN := 0 } : Rd) s1 s2 cx none hbig hrh
    (by simpa [hc.skip, hst] using hcheck) (by simpa [hc.maxF] using hmax) (by simpa [hc.maxF] using hlen)
  rw [Rd.discard]
  simp only [hd, hfr, Bool.not_true, Bool.false_eq_true, if_false, hrej]

/-- Non-vacuity with the frames of Props/C04: first fragment and a ping complete, then a NEW text frame
    (0x81: data frame while a message is open) — Discard reports the protocol error. -/
example :
    (match C04.exR0.nextFrame { chunks := [encodeFs [C04.exF0, C04.exPing], [0x81, 0x80, 0, 0, 0, 0, 0x8a]], fin := .eof } {} none with
     | (_, _, r1, s1, cx) => (r1.discard s1 cx none 4).1) = some (.proto .continuationExpected) := by decide

end Ws.C05
