/-
  C04 — `ioutil.ReadAll` over the message reader (the loop `wsutil.ReadMessage` uses for fragmented
  messages, and what applications do with `wsutil.Reader`), OnIntermediate = the collecting handler:
  from anywhere inside a message the loop returns exactly the rest of the message's data — all
  fragments, in order — with no error, every interleaved control frame has been handed to the handler
  once, in stream order, with its exact payload, and the transport stands at the first byte after
  the message. For every fragmentation, placement of control frames and transport chunking.
  (No receive extension, CheckUTF8 off.)
-/
import WsVerif.Props.C04Cb
namespace Ws.C04
open Ws Ws.Spec Ws.RdProof Ws.RdCb

theorem pull_message (skip : Bool) (st maxF : Nat) (rest : Bytes) (fuel : Nat) :
    ∀ (r : Rd) (s : Src) (cx : Ctx) (rem : Bytes) (fs0 : List WFrame) (acc : List Bytes),
      Sync false skip st maxF rest r s rem fs0 → weight r s < fuel →
      ∃ chunks r' s', Rd.pull true 512 (some collect) fuel r s cx acc = (acc.reverse ++ chunks, .eof, r', s', ctlLog fs0 cx)
        ∧ chunks.flatten = rem ∧ s'.bytes = rest ∧ Src.Tame s' := by
  induction fuel with
  | zero => intro r s cx rem fs0 acc _ h; omega
  | succ n ih =>
    intro r s cx rem fs0 acc hs hw
    rcases step_cb false skip st maxF rest r s cx 512 (by decide) rem fs0 hs with ⟨b, e, r1, s1, cx1, hrd, hcase⟩ | hend
    · have hpad : (b ++ List.replicate (b.length - b.length) 0).take b.length = b := by simp
      rcases hcase with ⟨he, rem1, fs1, hr1, hs1, hw1, hl1⟩ | ⟨he, hr1, hb1, ht1, _, hl1⟩
      · subst he
        obtain ⟨chunks, r', s', hp, hfl, hb', ht'⟩ := ih r1 s1 cx1 rem1 fs1 (if b.length = 0 then acc else b :: acc) hs1 (by omega)
        rw [Rd.pull]
        simp only [if_true, hrd, hpad]
        rw [hp, hl1]
        by_cases hz : b.length = 0
        · have hb0 : b = [] := List.length_eq_zero_iff.mp hz
          refine ⟨chunks, r', s', by simp [hz], by rw [hfl, hr1, hb0]; rfl, hb', ht'⟩
        · refine ⟨b :: chunks, r', s', by simp [hz], by simp [hfl, hr1], hb', ht'⟩
      · subst he
        rw [Rd.pull]
        simp only [if_true, hrd, hpad]
        by_cases hz : b.length = 0
        · have hb0 : b = [] := List.length_eq_zero_iff.mp hz
          exact ⟨[], r1, s1, by simp [hz, hl1], by rw [hr1, hb0]; rfl, hb1, ht1⟩
        · exact ⟨[b], r1, s1, by simp [hz, hl1], by simp [hr1], hb1, ht1⟩
    · exact absurd hend.opn (by decide)

/-- **ReadAll over a whole message.** -/
theorem readAll_message (r0 : Rd) (s : Src) (cx : Ctx) (f0 : WFrame) (fs : List WFrame) (rest : Bytes)
    (hnf : r0.fragmented = false) (hst : r0.state < 256)
    (hext : r0.ext = false) (hu8 : r0.checkUTF8 = false)
    (hm : Message r0 f0 fs)
    (hb : s.bytes = encodeFs (f0 :: fs) ++ rest) (hwf : Bytes.WF s.bytes) (htame : Src.Tame s) :
    ∃ r1 s1 r' s',
      r0.nextFrame s cx (some collect) = (some f0.h, none, r1, s1, cx)
      ∧ readAllRd r1 s1 cx (some collect) = (dataPlain (f0 :: fs), none, r', s', { cx with msgs := cx.msgs ++ controls fs })
      ∧ s'.bytes = rest := by
  obtain ⟨s1, hnext, hsync, hmu1, _⟩ := message_enter r0 s cx (some collect) f0 fs rest hnf hst hext hu8 hm hb hwf htame
  obtain ⟨chunks, r', s', hp, hfl, hb', _⟩ :=
    pull_message r0.skipCheck (stSet r0.state stFragmented) r0.maxFrame rest (pullFuel s1) (enter r0 f0.h) s1 cx _ fs [] hsync
      (by simp only [weight, enter]; unfold pullFuel Src.fuel mu; split <;> omega)
  refine ⟨enter r0 f0.h, s1, r', s', hnext, ?_, hb'⟩
  unfold readAllRd
  rw [hp]
  simp [hfl, ctlLog_spec]

/-- The same without a handler (plain `wsutil.Reader` + ReadAll): interleaved control frames are skipped. -/
theorem pull_message_plain (skip : Bool) (st maxF : Nat) (rest : Bytes) (fuel : Nat) :
    ∀ (r : Rd) (s : Src) (cx : Ctx) (rem : Bytes) (fs0 : List WFrame) (acc : List Bytes),
      Sync false skip st maxF rest r s rem fs0 → weight r s < fuel →
      ∃ chunks r' s', Rd.pull true 512 none fuel r s cx acc = (acc.reverse ++ chunks, .eof, r', s', cx)
        ∧ chunks.flatten = rem ∧ s'.bytes = rest ∧ Src.Tame s' := by
  induction fuel with
  | zero => intro r s cx rem fs0 acc _ h; omega
  | succ n ih =>
    intro r s cx rem fs0 acc hs hw
    rcases step false skip st maxF rest r s cx 512 (by decide) rem fs0 hs with ⟨b, e, r1, s1, hrd, hcase⟩ | hend
    · have hpad : (b ++ List.replicate (b.length - b.length) 0).take b.length = b := by simp
      rcases hcase with ⟨he, rem1, fs1, hr1, hs1, hw1⟩ | ⟨he, hr1, hb1, ht1, _⟩
      · subst he
        obtain ⟨chunks, r', s', hp, hfl, hb', ht'⟩ := ih r1 s1 cx rem1 fs1 (if b.length = 0 then acc else b :: acc) hs1 (by omega)
        rw [Rd.pull]
        simp only [if_true, hrd, hpad]
        rw [hp]
        by_cases hz : b.length = 0
        · have hb0 : b = [] := List.length_eq_zero_iff.mp hz
          refine ⟨chunks, r', s', by simp [hz], by rw [hfl, hr1, hb0]; rfl, hb', ht'⟩
        · refine ⟨b :: chunks, r', s', by simp [hz], by simp [hfl, hr1], hb', ht'⟩
      · subst he
        rw [Rd.pull]
        simp only [if_true, hrd, hpad]
        by_cases hz : b.length = 0
        · have hb0 : b = [] := List.length_eq_zero_iff.mp hz
          exact ⟨[], r1, s1, by simp [hz], by rw [hr1, hb0]; rfl, hb1, ht1⟩
        · exact ⟨[b], r1, s1, by simp [hz], by simp [hr1], hb1, ht1⟩
    · exact absurd hend.opn (by decide)

theorem readAll_message_plain (r0 : Rd) (s : Src) (cx : Ctx) (f0 : WFrame) (fs : List WFrame) (rest : Bytes)
    (hnf : r0.fragmented = false) (hst : r0.state < 256)
    (hext : r0.ext = false) (hu8 : r0.checkUTF8 = false)
    (hm : Message r0 f0 fs)
    (hb : s.bytes = encodeFs (f0 :: fs) ++ rest) (hwf : Bytes.WF s.bytes) (htame : Src.Tame s) :
    ∃ r1 s1 r' s',
      r0.nextFrame s cx none = (some f0.h, none, r1, s1, cx)
      ∧ readAllRd r1 s1 cx none = (dataPlain (f0 :: fs), none, r', s', cx)
      ∧ s'.bytes = rest := by
  obtain ⟨s1, hnext, hsync, hmu1, _⟩ := message_enter r0 s cx none f0 fs rest hnf hst hext hu8 hm hb hwf htame
  obtain ⟨chunks, r', s', hp, hfl, hb', _⟩ :=
    pull_message_plain r0.skipCheck (stSet r0.state stFragmented) r0.maxFrame rest (pullFuel s1) (enter r0 f0.h) s1 cx _ fs [] hsync
      (by simp only [weight, enter]; unfold pullFuel Src.fuel mu; split <;> omega)
  refine ⟨enter r0 f0.h, s1, r', s', hnext, ?_, hb'⟩
  unfold readAllRd
  rw [hp]
  simp [hfl]

/-- The example message of Props/C04 through ReadAll: "hello", no error, the ping logged, two bytes left. -/
example :
    (match exR0.nextFrame exSrc {} (some collect) with
     | (_, _, r1, s1, cx) =>
       let x := readAllRd r1 s1 cx (some collect)
       (x.1, x.2.1, x.2.2.2.1.bytes, x.2.2.2.2.msgs))
      = ([0x68, 0x65, 0x6c, 0x6c, 0x6f], none, [0x81, 0x85], [(9, exPing.plain)]) := by decide

end Ws.C04
