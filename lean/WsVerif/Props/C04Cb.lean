/-
  C04 / C08, message level, with an OnIntermediate handler: the clause "hand every interleaved control
  frame with its exact payload to the control handler in stream order".

  `message_delivered_collect`: the reader of C04.message_delivered with OnIntermediate set to the
  handler wsutil.ReadMessage installs (it reads the control payload through the frame reader it is
  given, to its end, and records (opcode, payload)). For every fragmentation, every placement of
  control frames between the fragments, every transport chunking and every sequence of caller buffer
  sizes: the Reads deliver exactly the data payload (as without a handler), and when the message has
  been read to io.EOF the handler has been called exactly once per interleaved control frame, in
  stream order, each time with that frame's opcode and its exact unmasked payload — nothing else was
  logged, nothing was written. Scope: no receive extension, CheckUTF8 off.
-/
import WsVerif.Props.C04
import WsVerif.Proofs.ReaderCb
namespace Ws.C04
open Ws Ws.Spec Ws.RdProof Ws.RdCb

/-- the interleaved control frames of a frame list, as (opcode, unmasked payload), in stream order -/
def controls : List WFrame → List (Nat × Bytes)
  | [] => []
  | f :: fs => (if opIsControl f.h.op then [(f.h.op, f.plain)] else []) ++ controls fs

theorem ctlLog_spec (fs : List WFrame) (cx : Ctx) :
    ctlLog fs cx = { cx with msgs := cx.msgs ++ controls fs } := by
  induction fs generalizing cx with
  | nil => simp [ctlLog, controls]
  | cons f fs ih =>
    simp only [ctlLog, controls]
    split
    · rw [ih]; simp [logMsg, List.append_assoc]
    · rw [ih]; simp

theorem message_delivered_collect (r0 : Rd) (s : Src) (cx : Ctx) (f0 : WFrame) (fs : List WFrame) (rest : Bytes)
    (ks : List Nat) (hpos : ∀ k ∈ ks, 0 < k)
    (hnf : r0.fragmented = false) (hst : r0.state < 256)
    (hext : r0.ext = false) (hu8 : r0.checkUTF8 = false)
    (hm : Message r0 f0 fs)
    (hb : s.bytes = encodeFs (f0 :: fs) ++ rest) (hwf : Bytes.WF s.bytes) (htame : Src.Tame s) :
    ∃ r1 s1 out e r' s' cx',
      r0.nextFrame s cx (some collect) = (some f0.h, none, r1, s1, cx)
      ∧ readsCb (some collect) r1 s1 cx ks = some (out, e, r', s', cx')
      ∧ (∃ more, dataPlain (f0 :: fs) = out ++ more)
      ∧ (e = none ∨ e = some .eof)
      ∧ (e = some .eof → out = dataPlain (f0 :: fs) ∧ s'.bytes = rest ∧ r'.state = r0.state ∧ r'.hasFrame = false
            ∧ cx' = { cx with msgs := cx.msgs ++ controls fs })
      ∧ (e = none → ∃ fs', cx'.msgs ++ controls fs' = cx.msgs ++ controls fs ∧ cx'.env = cx.env)
      ∧ (mu s < ks.length → e = some .eof) := by
  obtain ⟨s1, hnext, hsync, hmu1, hb4⟩ := message_enter r0 s cx (some collect) f0 fs rest hnf hst hext hu8 hm hb hwf htame
  obtain ⟨out, e, r', s', cx', hrd, hcase⟩ :=
    reads_cb r0.skipCheck (stSet r0.state stFragmented) r0.maxFrame rest ks hpos _ s1 cx _ _ hsync
  refine ⟨enter r0 f0.h, s1, out, e, r', s', cx', hnext, hrd, ?_, ?_, ?_, ?_, ?_⟩
  · rcases hcase with ⟨_, rem', _, h1, _⟩ | ⟨_, h1, _⟩
    · exact ⟨rem', h1⟩
    · exact ⟨[], by rw [h1]; simp⟩
  · rcases hcase with ⟨h1, _⟩ | ⟨h1, _⟩
    · exact Or.inl h1
    · exact Or.inr h1
  · intro he
    rcases hcase with ⟨h1, _⟩ | ⟨_, h1, h2, _, h4, h5⟩
    · rw [h1] at he; exact absurd he (by simp)
    · refine ⟨h1.symm, h2, by rw [h4.state]; exact hb4, h4.has, ?_⟩
      rw [h5, ctlLog_spec]
  · intro he
    rcases hcase with ⟨_, rem', fs', _, _, _, hl⟩ | ⟨h1, _⟩
    · -- what has been logged so far, followed by what the remaining frames will add, is the whole list
      rw [ctlLog_spec, ctlLog_spec] at hl
      injection hl with h1 h2 h3
      exact ⟨fs', h2, h1⟩
    · rw [h1] at he; cases he
  · intro hlen
    rcases hcase with ⟨_, _, _, _, _, hw, _⟩ | ⟨h1, _⟩
    · exfalso
      have : weight (enter r0 f0.h) s1 = mu s1 + 1 := by simp [weight, enter]
      omega
    · exact h1

/-! Non-vacuity: the C04 example stream ("hel" | ping "yp"-masked | "" | "lo") read with the collecting
    handler: the five bytes are delivered and the ping's unmasked payload is what the handler recorded. -/
example :
    (match exR0.nextFrame exSrc {} (some collect) with
     | (_, _, r1, s1, cx) => (readsCb (some collect) r1 s1 cx [1, 2, 64, 64, 64, 64, 64, 64, 64]).map
         fun (x : Bytes × Option RErr × Rd × Src × Ctx) => (x.1, x.2.1, x.2.2.2.2.msgs))
      = some ([0x68, 0x65, 0x6c, 0x6c, 0x6f], some .eof, [(9, exPing.plain)]) := by decide

example : controls [exPing, exF1, exF2] = [(9, exPing.plain)] := by decide

/-- wsutil.ReadMessage (Model/Helper.readMessage, which installs this handler) on a lone ping. -/
example : (readMessage 1 { chunks := [encodeFs [exPing]], fin := .eof }).1 = [(9, exPing.plain)] := by decide

end Ws.C04
