/-
  C11 — Handshake outcome is shared by both peers and independent of transport chunking.

  Proved here (models of server.go / dialer.go / util.go:readLine):
    * byte conservation on the server side: whatever Upgrader.Upgrade leaves readable is a suffix
      of what the client sent, for every chunking, buffer size and outcome
      (`upgrade_consumes_prefix`; the client side is C10.rest_preserved); both rest on
      `readLine_all`, which holds for EVERY chunking of the transport and every buffer size;
    * the accept value always has the 28 characters the client insists on (`acceptOf_length`);
    * agreement of the two peers on the base handshake at the level of parsed lines: the header
      lines the dialer writes are accepted by the upgrader for every server configuration without
      objecting callbacks, the key the server keeps is the client's nonce, and the three lines
      the server answers with are accepted by the dialer (`pair_lines`).
  That the parsed lines — and with them the whole outcome on either side — are a function of the
  flat byte stream alone (chunking independence) is Props/C11Flat.lean (`upgrade_flat`,
  `dialerUpgrade_flat`, from `readLine_spec`).
-/
import WsVerif.Props.C09
import WsVerif.Props.C10
namespace Ws.C11
open Ws Ws.Lex

/-! ### conservation on the server side -/

def loopBuf : Sum (Fin × Bufio × UpState) (UpState × Option HsErr × Bufio) → Bufio
  | .inl (_, b', _) => b'
  | .inr (_, _, b') => b'

theorem hdrLoop_conserve (cfg : UpCfg) (fuel : Nat) (b : Bufio) (st : UpState) (err : Option HsErr) :
    ∃ consumed, b.all = consumed ++ (loopBuf (hdrLoop cfg fuel b st err)).all := by
  induction fuel generalizing b st err with
  | zero => exact ⟨[], by simp [hdrLoop, loopBuf]⟩
  | succ n ih =>
    unfold hdrLoop
    by_cases he : err.isSome = true
    · rw [if_pos he]; exact ⟨[], by simp [loopBuf]⟩
    · rw [if_neg he]
      have hr := readLine_all b
      split
      · rename_i f b' heq
        rw [heq] at hr
        exact ⟨_, hr.1 rfl⟩
      · rename_i line b' heq
        rw [heq] at hr
        obtain ⟨eol, _, hc⟩ := hr.2 rfl
        simp only at hc
        split
        · exact ⟨_, by rw [hc, ← List.append_assoc]; rfl⟩
        · split
          · exact ⟨_, by rw [hc, ← List.append_assoc]; rfl⟩
          · rename_i k v _
            obtain ⟨c2, h2⟩ := ih b' (upHeader cfg st k v).1 (upHeader cfg st k v).2
            exact ⟨line ++ eol ++ c2, by rw [hc, h2]; simp [List.append_assoc]⟩

/-- Whatever the outcome, chunking and buffer size, what Upgrader.Upgrade leaves readable (its
    buffer, then the connection) is a suffix of the bytes the client sent. -/
theorem upgrade_consumes_prefix (cfg : UpCfg) (src : Src) :
    ∃ head, src.bytes = head ++ (upgrade cfg src).2.2.2.all := by
  unfold upgrade
  simp only
  have hr := readLine_all { cap := max 16 (if cfg.readBuf = 0 then 4096 else cfg.readBuf), src := src }
  have h0 : ({ cap := max 16 (if cfg.readBuf = 0 then 4096 else cfg.readBuf), src := src } : Bufio).all = src.bytes := by
    simp [Bufio.all]
  rw [h0] at hr
  split
  · rename_i f b1 heq
    rw [heq] at hr
    exact ⟨_, hr.1 rfl⟩
  · rename_i rl b1 heq
    rw [heq] at hr
    obtain ⟨eol, _, hc⟩ := hr.2 rfl
    simp only at hc
    split
    · exact ⟨_, by rw [hc, ← List.append_assoc]⟩
    · rename_i major minor _
      obtain ⟨c2, h2⟩ := hdrLoop_conserve cfg (src.bytes.length + 4) b1 {} (upRequestLine cfg (bsplit3 rl 32).1 major minor)
      split
      · rename_i heq2
        rw [heq2] at h2
        exact ⟨rl ++ eol ++ c2, by rw [hc, h2]; simp [List.append_assoc, loopBuf]⟩
      · rename_i heq2
        rw [heq2] at h2
        simp only [loopBuf] at h2
        split <;> exact ⟨rl ++ eol ++ c2, by rw [hc, h2]; simp [List.append_assoc]⟩

/-! ### the accept value -/

theorem sha1_length (m : Bytes) : (Spec.sha1 m).length = 20 := by
  unfold Spec.sha1
  simp only
  generalize (List.foldl Spec.sha1Block _ _) = r
  obtain ⟨a, b, c, d, e⟩ := r
  simp [Spec.toBe32]

theorem base64_length20 (l : Bytes) (h : l.length = 20) : (Spec.base64 l).length = 28 := by
  match l, h with
  | [_, _, _, _, _, _, _, _, _, _, _, _, _, _, _, _, _, _, _, _], _ => simp [Spec.base64]

/-- Sec-WebSocket-Accept always has 28 characters. -/
theorem acceptOf_length (key : Bytes) : (Spec.acceptOf key).length = 28 :=
  base64_length20 _ (sha1_length _)

/-! ### the two peers agree on the base handshake (line level) -/

/-- The header lines httpWriteUpgradeRequest emits (canonical names), without the optional ones. -/
def clientLines (host nonce : Bytes) : List (Bytes × Bytes) :=
  [(C09.kHost, host), (C09.kUpgrade, strBytes "websocket"), (C09.kConnection, strBytes "Upgrade"),
   (C09.kVersion, strBytes "13"), (C09.kKey, nonce)]

/-- The header lines httpWriteResponseUpgrade emits for a handshake without subprotocol and
    extensions. -/
def serverLines (nonce : Bytes) : List (Bytes × Bytes) :=
  [(C10.kUpgrade, strBytes "websocket"), (C10.kConnection, strBytes "Upgrade"), (C10.kAccept, Spec.acceptOf nonce)]

theorem client_lines_ok (ucfg : UpCfg) (host nonce : Bytes) (hn : nonce.length = 24)
    (hh : ucfg.onHost = none) (hk : ucfg.onHeader = none) :
    ∀ kv ∈ clientLines host nonce, C09.lineOk ucfg kv.1 kv.2 := by
  have e1 : equalFold (strBytes "websocket") (strBytes "websocket") = true := by decide +kernel
  intro kv hkv
  simp only [clientLines, List.mem_cons, List.mem_nil_iff, or_false] at hkv
  have kd : C09.kHost ≠ C09.kUpgrade ∧ C09.kHost ≠ C09.kConnection ∧ C09.kHost ≠ C09.kVersion ∧ C09.kHost ≠ C09.kKey
      ∧ C09.kUpgrade ≠ C09.kConnection ∧ C09.kUpgrade ≠ C09.kVersion ∧ C09.kUpgrade ≠ C09.kKey
      ∧ C09.kConnection ≠ C09.kVersion ∧ C09.kConnection ≠ C09.kKey ∧ C09.kVersion ≠ C09.kKey := C09.keys_distinct
  have kp : C09.kHost ≠ C09.kProtocol ∧ C09.kUpgrade ≠ C09.kProtocol ∧ C09.kConnection ≠ C09.kProtocol
      ∧ C09.kVersion ≠ C09.kProtocol ∧ C09.kKey ≠ C09.kProtocol ∧ C09.kHost ≠ C09.kExtensions
      ∧ C09.kUpgrade ≠ C09.kExtensions ∧ C09.kConnection ≠ C09.kExtensions ∧ C09.kVersion ≠ C09.kExtensions
      ∧ C09.kKey ≠ C09.kExtensions := by decide +kernel
  obtain ⟨d1, d2, d3, d4, d5, d6, d7, d8, d9, d10⟩ := kd
  obtain ⟨p1, p2, p3, p4, p5, p6, p7, p8, p9, p10⟩ := kp
  rcases hkv with h | h | h | h | h <;> subst h <;> unfold C09.lineOk C09.lineGood <;> simp only
  · exact ⟨⟨fun e => absurd e d1, fun e => absurd e d2, fun e => absurd e d3, fun e => absurd e d4⟩,
      fun _ => hh, fun e => absurd e p1, fun e => absurd e p6, fun _ => hk⟩
  · exact ⟨⟨fun _ => e1, fun e => absurd e d5, fun e => absurd e d6, fun e => absurd e d7⟩,
      fun e => absurd e.symm d1, fun e => absurd e p2, fun e => absurd e p7, fun _ => hk⟩
  · exact ⟨⟨fun e => absurd e.symm d5, fun _ => by simp, fun e => absurd e d8, fun e => absurd e d9⟩,
      fun e => absurd e.symm d2, fun e => absurd e p3, fun e => absurd e p8, fun _ => hk⟩
  · exact ⟨⟨fun e => absurd e.symm d6, fun e => absurd e.symm d8, fun _ => by simp, fun e => absurd e d10⟩,
      fun e => absurd e.symm d3, fun e => absurd e p4, fun e => absurd e p9, fun _ => hk⟩
  · exact ⟨⟨fun e => absurd e.symm d7, fun e => absurd e.symm d9, fun e => absurd e.symm d10, fun _ => hn⟩,
      fun e => absurd e.symm d4, fun e => absurd e p5, fun e => absurd e p10, fun _ => hk⟩

theorem upHeader_hs (cfg : UpCfg) (st : UpState) (k v : Bytes) (h1 : k ≠ C09.kProtocol) (h2 : k ≠ C09.kExtensions) :
    (upHeader cfg st k v).1.hs = st.hs := by
  unfold upHeader
  simp only [show strBytes "Sec-Websocket-Protocol" = C09.kProtocol from rfl,
    show strBytes "Sec-Websocket-Extensions" = C09.kExtensions from rfl, if_neg h1, if_neg h2]
  repeat' split
  all_goals rfl

theorem runHeaders_hs (cfg : UpCfg) (hist : List (Bytes × Bytes)) (st st' : UpState)
    (hk : ∀ kv ∈ hist, kv.1 ≠ C09.kProtocol ∧ kv.1 ≠ C09.kExtensions)
    (h : C09.runHeaders cfg hist st = (st', none)) : st'.hs = st.hs := by
  induction hist generalizing st with
  | nil => simp [C09.runHeaders] at h; rw [h]
  | cons kv r ih =>
    obtain ⟨k, v⟩ := kv
    unfold C09.runHeaders at h
    cases he : (upHeader cfg st k v).2 with
    | some e => rw [he] at h; simp at h
    | none =>
      rw [he] at h
      have := ih _ (fun kv hkv => hk kv (List.mem_cons_of_mem _ hkv)) h
      rw [this]
      exact upHeader_hs cfg st k v (hk (k, v) List.mem_cons_self).1 (hk (k, v) List.mem_cons_self).2

/-- BOTH PEERS AGREE (base handshake, parsed-line level): for every server configuration whose
    callbacks do not object and every client configuration, the dialer's header lines pass the
    upgrader, the key it keeps is the dialer's nonce, the decision is "write the 101", and the
    lines of that 101 pass the dialer with all three mandatory headers seen. -/
theorem pair_lines (ucfg : UpCfg) (dcfg : DialCfg) (host nonce : Bytes) (hn : nonce.length = 24)
    (h1 : ucfg.onRequest = none) (h2 : ucfg.onHost = none) (h3 : ucfg.onHeader = none) (h4 : ucfg.onBeforeUpgrade = none) :
    upRequestLine ucfg (strBytes "GET") 1 1 = none ∧
    ∃ st, C09.runHeaders ucfg (clientLines host nonce) {} = (st, none) ∧ upFinish ucfg st none = (none, [])
      ∧ st.nonce = nonce ∧ st.hs = {}
      ∧ C10.runDl dcfg nonce (serverLines st.nonce) {} 0 = ({}, 7, none) ∧ dlFinish 7 = none := by
  have hok := client_lines_ok ucfg host nonce hn h2 h3
  have hc : C09.Compliant ucfg (strBytes "GET") 1 1 (clientLines host nonce) :=
    { get := rfl, version := ⟨rfl, Nat.le_refl _⟩, onRequest := h1, onHost := h2,
      host := ⟨_, List.mem_cons_self, rfl⟩,
      upgrade := ⟨(C09.kUpgrade, strBytes "websocket"), by simp [clientLines], rfl⟩,
      connection := ⟨(C09.kConnection, strBytes "Upgrade"), by simp [clientLines], rfl⟩,
      secVersion := ⟨(C09.kVersion, strBytes "13"), by simp [clientLines], rfl⟩,
      key := ⟨(C09.kKey, nonce), by simp [clientLines], rfl⟩,
      values := fun kv hkv => (hok kv hkv).1,
      before := by intro e he; rw [h4] at he; cases he }
  obtain ⟨r1, st, r2, r3⟩ := C09.decision_complete ucfg _ _ _ _ hc hok h4
  obtain ⟨_, _, hnonce, _⟩ := C09.runHeaders_sound ucfg _ _ _ r2
  have hn' : st.nonce = nonce := by
    rw [hnonce]
    simp [C09.lastKey, clientLines]
  refine ⟨r1, st, r2, r3, hn', ?_, ?_, by decide⟩
  · -- none of the five lines touches the handshake data
    have := runHeaders_hs ucfg (clientLines host nonce) {} st (by
      intro kv hkv
      simp only [clientLines, List.mem_cons, List.mem_nil_iff, or_false] at hkv
      have kp : C09.kHost ≠ C09.kProtocol ∧ C09.kUpgrade ≠ C09.kProtocol ∧ C09.kConnection ≠ C09.kProtocol
          ∧ C09.kVersion ≠ C09.kProtocol ∧ C09.kKey ≠ C09.kProtocol ∧ C09.kHost ≠ C09.kExtensions
          ∧ C09.kUpgrade ≠ C09.kExtensions ∧ C09.kConnection ≠ C09.kExtensions ∧ C09.kVersion ≠ C09.kExtensions
          ∧ C09.kKey ≠ C09.kExtensions := by decide +kernel
      obtain ⟨p1, p2, p3, p4, p5, p6, p7, p8, p9, p10⟩ := kp
      rcases hkv with h | h | h | h | h <;> subst h <;> simp only <;> constructor <;> assumption) r2
    exact this
  · rw [hn']
    have a28 := acceptOf_length nonce
    have u1 : ∀ hs s, dlHeader dcfg nonce hs s C10.kUpgrade (strBytes "websocket") = (hs, s ||| dSeenUpgrade, none) := by
      intro hs s
      have : equalFold (strBytes "websocket") (strBytes "websocket") = true := by decide +kernel
      simp [dlHeader, C10.kUpgrade, this]
    have u2 : ∀ hs s, dlHeader dcfg nonce hs s C10.kConnection (strBytes "Upgrade") = (hs, s ||| dSeenConnection, none) := by
      intro hs s
      have e : equalFold (strBytes "Upgrade") (strBytes "Upgrade") = true := by decide +kernel
      have ne : C10.kConnection ≠ strBytes "Upgrade" := by decide +kernel
      simp [dlHeader, ne, e]
      simp [C10.kConnection]
    have u3 : ∀ hs s, dlHeader dcfg nonce hs s C10.kAccept (Spec.acceptOf nonce) = (hs, s ||| dSeenSecAccept, none) := by
      intro hs s
      have n1 : C10.kAccept ≠ strBytes "Upgrade" := by decide +kernel
      have n2 : C10.kAccept ≠ strBytes "Connection" := by decide +kernel
      simp [dlHeader, n1, n2, a28]
      simp [C10.kAccept]
    simp [C10.runDl, serverLines, u1, u2, u3, dSeenUpgrade, dSeenConnection, dSeenSecAccept]

end Ws.C11
