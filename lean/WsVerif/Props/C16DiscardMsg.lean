/-
  C16 — a message cut BETWEEN two of its frames, after any number of complete fragments and
  interleaved control frames, cannot be skipped as if it were whole: `Reader.Discard()` called
  anywhere before the cut reports io.ErrUnexpectedEOF when the transport then ends cleanly — for
  every transport chunking. (No receive extension, CheckUTF8 off, OnIntermediate unset.)
-/
import WsVerif.Props.C16Discard
import WsVerif.Props.C04
namespace Ws.C16
open Ws Ws.Spec Ws.RdProof

theorem readFull_fin (s : Src) (n : Nat) : (s.readFull n).2.fin = s.fin := by
  unfold Src.readFull
  simp only
  split <;> rfl

theorem readHeaderUtil_fin (s : Src) : (readHeaderUtil s).2.fin = s.fin := by
  have h1 := readFull_fin s 2
  unfold readHeaderUtil
  rcases hr : s.readFull 2 with ⟨res, s1⟩
  rw [hr] at h1
  simp only at h1
  cases res with
  | error e => simpa using h1
  | ok bs =>
    match bs with
    | [] => simpa using h1
    | [_] => simpa using h1
    | _ :: _ :: _ :: _ => simpa using h1
    | [b0, b1] =>
      simp only
      cases hx : hdrExtraU (hdrFirstU b0 b1) with
      | error e => simpa using h1
      | ok extra =>
        simp only
        by_cases h0 : extra = 0
        · simpa [h0] using h1
        · simp only [h0, if_false]
          have h2 := readFull_fin s1 extra
          rcases hr2 : s1.readFull extra with ⟨res2, s2⟩
          rw [hr2] at h2
          simp only at h2
          cases res2 with
          | error e => simp only; rw [h2, h1]
          | ok bts => simp only; rw [h2, h1]

theorem nextFrame_src_fin (r : Rd) (s : Src) (cx : Ctx) : (r.nextFrame s cx none).2.2.2.1.fin = s.fin := by
  have hf := readHeaderUtil_fin s
  unfold Rd.nextFrame
  rcases hr : readHeaderUtil s with ⟨res, s1⟩
  rw [hr] at hf
  simp only at hf
  cases res with
  | error e => cases e <;> simp only <;> exact hf
  | ok hdr =>
    simp only
    repeat (first | exact hf | (rw [drainRaw_fin]; exact hf) | split)

theorem closed_tail {f : WFrame} {fs : List WFrame} (h : closed (f :: fs) = false) (_hne : opIsControl f.h.op = true ∨ f.h.fin = false) :
    closed fs = false := by
  cases fs with
  | nil => rfl
  | cons g gs => simpa [closed] using h

theorem discard_open_tail (skip : Bool) (st maxF : Nat) (cx : Ctx) (fs : List WFrame)
    (ht : Tail true skip st maxF fs) (hopen : closed fs = false) :
    ∀ (r : Rd) (s : Src) (wire : Bytes) (fuel : Nat),
      Common skip st maxF r s → r.state = st → r.rawN = wire.length → s.bytes = wire ++ encodeFs fs →
      s.fin = .eof → fs.length < fuel →
      (r.discard s cx none fuel).1 = some .ueof := by
  induction ht with
  | opn _ =>
    intro r s wire fuel hc hst hn hb hfin hfuel
    match fuel, hfuel with
    | n + 1, _ =>
    have hfr : r.fragmented = true := by simp [Rd.fragmented, hst, hc.stF]
    exact discard_ends_between_fragments r s cx none n hfr (by rw [hb, hn]; simp [encodeFs]) hc.tame hfin
  | last f hok hdata hfin' hacc =>
    simp [closed, hdata, hfin'] at hopen
  | cont f fs hok hdata hfin' hacc _ ih =>
    intro r s wire fuel hc hst hn hb hfin hfuel
    match fuel, hfuel with
    | n + 1, hfuel =>
    obtain ⟨s1, hd, hb1, ht1, _, _⟩ := drainRaw_ok s.fuel r s wire (encodeFs (f :: fs) ++ []) (by simpa using hb) hn hc.tame (by unfold Src.fuel mu; omega)
    have hf1 : s1.fin = .eof := by have := drainRaw_fin s.fuel r s; rw [hd] at this; simpa [hfin] using this
    have hfr : ({ r with rawN := 0 } : Rd).fragmented = true := by simp [Rd.fragmented, hst, hc.stF]
    have hbytes : s1.bytes = rfcEncode f.h ++ (f.wire ++ encodeFs fs) := by rw [hb1]; simp [encodeFs, WFrame.enc]
    have hwf1 : Bytes.WF s1.bytes := by rw [hb1]; simp only [List.append_nil]; exact wf_append_right (hb ▸ hc.wf)
    have hwt : Bytes.WF (f.wire ++ encodeFs fs) := by rw [hbytes] at hwf1; exact wf_append_right hwf1
    obtain ⟨s2, hrh, hb2, ht2, _⟩ := readHeader_ok f.h hok.hwf _ hwt s1 hbytes ht1
    have hf2 : s2.fin = .eof := by have := readHeaderUtil_fin s1; rw [hrh] at this; simpa [hf1] using this
    have hacc' : Accepts ({ r with rawN := 0 } : Rd) f.h := by
      unfold Accepts; simp only [hc.skip, hst, hc.maxF]; exact hacc
    have hnext := nextFrame_data ({ r with rawN := 0 } : Rd) s1 s2 cx none f.h hrh hacc' (by simp [hc.ext]) hdata
    have hc2 : Common skip st maxF (enter ({ r with rawN := 0 } : Rd) f.h) s2 :=
      common_of skip st maxF hc _ s2 (by simp [enter]) (by simp [enter]) (by simp [enter]) (by simp [enter]) ht2 (by rw [hb2]; exact hwt)
    have := ih (closed_tail hopen (Or.inr hfin')) (enter ({ r with rawN := 0 } : Rd) f.h) s2 f.wire n hc2
      (by simp [enter, hfin', hst, hc.stSet]) (by simp [enter, hok.len]) hb2 hf2 (by simp at hfuel; omega)
    rw [Rd.discard]
    simp only [hd, hfr, Bool.not_true, Bool.false_eq_true, if_false, hnext]
    exact this
  | ctl f fs hok hctl hacc _ ih =>
    intro r s wire fuel hc hst hn hb hfin hfuel
    match fuel, hfuel with
    | n + 1, hfuel =>
    obtain ⟨s1, hd, hb1, ht1, _, _⟩ := drainRaw_ok s.fuel r s wire (encodeFs (f :: fs) ++ []) (by simpa using hb) hn hc.tame (by unfold Src.fuel mu; omega)
    have hf1 : s1.fin = .eof := by have := drainRaw_fin s.fuel r s; rw [hd] at this; simpa [hfin] using this
    have hfr : ({ r with rawN := 0 } : Rd).fragmented = true := by simp [Rd.fragmented, hst, hc.stF]
    have hbytes : s1.bytes = rfcEncode f.h ++ (f.wire ++ encodeFs fs) := by rw [hb1]; simp [encodeFs, WFrame.enc]
    have hwf1 : Bytes.WF s1.bytes := by rw [hb1]; simp only [List.append_nil]; exact wf_append_right (hb ▸ hc.wf)
    have hwt : Bytes.WF (f.wire ++ encodeFs fs) := by rw [hbytes] at hwf1; exact wf_append_right hwf1
    obtain ⟨s2, hrh, hb2, ht2, _⟩ := readHeader_ok f.h hok.hwf _ hwt s1 hbytes ht1
    have hacc' : Accepts ({ r with rawN := 0 } : Rd) f.h := by
      unfold Accepts; simp only [hc.skip, hst, hc.maxF]; exact hacc
    obtain ⟨s3, hnext, hb3, ht3, _⟩ := nextFrame_ctl ({ r with rawN := 0 } : Rd) s1 s2 cx f (encodeFs fs) hrh hacc'
      (by simp [hc.ext]) hctl hfr hb2 hok.len ht2
    have hf3 : s3.fin = .eof := by
      have := nextFrame_src_fin ({ r with rawN := 0 } : Rd) s1 cx; rw [hnext] at this; simpa [hf1] using this
    have hc3 : Common skip st maxF (skipCtl ({ r with rawN := 0 } : Rd) f.h) s3 :=
      common_of skip st maxF hc _ s3 (by simp [skipCtl]) (by simp [skipCtl]) (by simp [skipCtl]) (by simp [skipCtl]) ht3
        (by rw [hb3]; exact wf_append_right hwt)
    have := ih (closed_tail hopen (Or.inl hctl)) (skipCtl ({ r with rawN := 0 } : Rd) f.h) s3 [] n hc3
      (by simp [skipCtl, hst]) (by simp [skipCtl]) (by simpa using hb3) hf3 (by simp at hfuel; omega)
    rw [Rd.discard]
    simp only [hd, hfr, Bool.not_true, Bool.false_eq_true, if_false, hnext]
    exact this

/-- Non-vacuity with the frames of Props/C04: the reader is in the first fragment ("hel"), a ping and an
    empty non-final fragment follow complete, then the stream ends: an open tail, and Discard says
    io.ErrUnexpectedEOF. -/
example : Tail true false 9 0 [C04.exPing, C04.exF1] ∧ closed [C04.exPing, C04.exF1] = false := by
  refine ⟨?_, by decide⟩
  refine Tail.ctl _ _ ⟨by decide, by decide, by decide, by decide⟩ (by decide) ⟨by decide, by decide⟩ ?_
  refine Tail.cont _ _ ⟨by decide, by decide, by decide, by decide⟩ (by decide) (by decide) ⟨by decide, by decide⟩ ?_
  exact Tail.opn rfl
example :
    (match C04.exR0.nextFrame { chunks := [encodeFs [C04.exF0, C04.exPing], encodeFs [C04.exF1]], fin := .eof } {} none with
     | (_, _, r1, s1, cx) => (r1.discard s1 cx none 4).1) = some .ueof := by decide

end Ws.C16
