/-
  C04 / C08 — the `wsutil.ReadData` family on a FRAGMENTED message of a wanted type that is not text, with pings
  (1..125 bytes) and pongs interleaved anywhere between its fragments, behind any history of pings, pongs and
  unwanted messages: the payloads of the fragments concatenated, the first frame's opcode, no error, the
  transport right behind the message — and what was written is exactly one pong per ping met (before the message
  and between its fragments), in order, each with the identical payload, nothing else. For every fragmentation,
  placement of the control frames and transport chunking. The reader of ReadData has CheckUTF8 on: the theorem
  is `C08Intermediate.readAll_message_pongs` (non-checking reader) transported through Proofs/ReaderBinG.
-/
import WsVerif.Props.C08Intermediate
import WsVerif.Proofs.ReaderBinG
import WsVerif.Props.C08ReadData
import WsVerif.Props.C04ReadMessageFrag
namespace Ws.C08
open Ws Ws.Spec Ws.RdProof Ws.RdCb Ws.RdText Ws.RdBin Ws.RdPong Ws.C06 Ws.C04

/-- the loop on a wanted fragmented non-text message, from any idle reader -/
theorem loop_fragmented (state want : Nat) (errText : ProtoErr → Bytes)
    (r0 : Rd) (s : Src) (cx : Ctx) (fuel : Nat) (f0 : WFrame) (fs : List WFrame) (rest : Bytes)
    (hi : Idle state r0) (henv : EnvOk cx.env) (hst : state < 256) (hnf : stIs state stFragmented = false)
    (hm : Message (strip r0) f0 fs) (hfin : f0.h.fin = false) (hnt : f0.h.op ≠ opText)
    (hwant : (f0.h.op &&& want == 0) = false)
    (hg : ∀ f ∈ fs, opIsControl f.h.op = true → GoodCtl f)
    (hb : s.bytes = encodeFs (f0 :: fs) ++ rest) (hwf : Bytes.WF s.bytes) (htame : Src.Tame s) :
    ∃ s' cx' ws, readData.loop want errText (stIs state stClient) (pongH (stIs state stClient) errText) (fuel + 1) r0 s cx
        = (dataPlain (f0 :: fs), f0.h.op, none, s', cx')
      ∧ s'.bytes = rest
      ∧ cx'.env.dst.writes = cx.env.dst.writes ++ ws ∧ Pongs (stIs state stClient) ws (pingsIn fs) ∧ cx'.msgs = cx.msgs := by
  have hcb := ctlHandler_ok (stIs state stClient) errText
  have hfr0 : (strip r0).fragmented = false := by simp [strip, Rd.fragmented, hi.st, hnf]
  have hfr0' : r0.fragmented = false := by simp [Rd.fragmented, hi.st, hnf]
  obtain ⟨r1', s1, r', s', cx', ws, hnext, hall, hb', hw1, hw2, hw3⟩ :=
    readAll_message_pongs (stIs state stClient) errText (strip r0) s cx f0 fs rest hfr0 (by simp [strip, hi.st]; exact hst)
      (by simp [strip, hi.ext]) rfl hm henv hg hb hwf htame
  -- the checking reader enters the first frame the same way
  have hns := nextFrame_strip_g _ hcb r0 s cx
  rw [hnext] at hns
  rcases hA : r0.nextFrame s cx (some (pongH (stIs state stClient) errText)) with ⟨hd, e1, r1, s1a, cx1⟩
  rw [hA] at hns
  simp only [Prod.mk.injEq] at hns
  obtain ⟨rfl, rfl, hr1, rfl, rfl⟩ := hns
  have hfields := nextFrame_fields_g2 _ hcb r0 s cx
  rw [hA] at hfields
  obtain ⟨f1, f2, f3, f4, f5⟩ := hfields
  simp only at f1 f2 f3 f4 f5
  have hr1has : r1.hasFrame = true := by
    have : (strip r1).hasFrame = r1.hasFrame := rfl
    rw [← this, ← hr1]
    obtain ⟨s1b, hn2, _⟩ := message_enter (strip r0) s cx (some (pongH (stIs state stClient) errText)) f0 fs rest hfr0
      (by simp [strip, hi.st]; exact hst) (by simp [strip, hi.ext]) rfl hm hb hwf htame
    rw [hnext] at hn2
    simp only [Prod.mk.injEq] at hn2
    rw [hn2.2.2.1]; simp [enter]
  have hbin : Bin r1 := by
    rcases f5 with ⟨g1, g2, g3⟩ | ⟨_, _, h, g4, g5, g6, _, _⟩
    · -- no data frame entered: impossible, the non-checking side has set the fragmented bit
      exfalso
      have hs2 : (strip r1).state = r1.state := rfl
      obtain ⟨s1b, hn2, _⟩ := message_enter (strip r0) s cx (some (pongH (stIs state stClient) errText)) f0 fs rest hfr0
        (by simp [strip, hi.st]; exact hst) (by simp [strip, hi.ext]) rfl hm hb hwf htame
      rw [hnext] at hn2
      simp only [Prod.mk.injEq] at hn2
      have hst1 : (strip r1).state = stSet state stFragmented := by
        rw [← hr1, hn2.2.2.1]; simp [enter, hfin, strip, hi.st]
      rw [hs2, g3, hi.st] at hst1
      have := (stbits state hst).1
      rw [← hst1, hnf] at this
      cases this
    · simp only [Option.some.injEq] at g6
      subst g6
      refine ⟨fun _ => ?_, (by rw [f4]; exact hi.u8), ?_, (by rw [f1]; exact hi.skip), (by rw [f2]; exact hi.ext),
        (fun h => by rw [hr1has] at h; cases h)⟩
      · rw [g4]
        have : (f0.h.op == opText) = false := by simpa using hnt
        simp [this, hfr0']
      · rw [g5]; simp [hfr0']; exact hnt
  have hp := pull_bin_g _ hcb (pullFuel s1) r1 s1 cx [] hbin
  rw [hr1] at hall
  unfold readAllRd at hall
  rw [hp] at hall
  rcases hP : Rd.pull true 512 (some (pongH (stIs state stClient) errText)) (pullFuel s1) r1 s1 cx [] with ⟨chunks, e, r'', s'', cx''⟩
  rw [hP] at hall
  simp only [Prod.mk.injEq] at hall
  obtain ⟨hc1, hc2, _, hc4, hc5⟩ := hall
  refine ⟨s', cx', ws, ?_, hb', hw1, hw2, hw3⟩
  have hdata : opIsControl f0.h.op = false := hm.data0
  rw [readData.loop]
  simp only [hA, hdata, Bool.false_eq_true, if_false, hwant]
  unfold readAllRd
  rw [hP]
  simp only [hc1, hc2, hc4, hc5]

/-- a message stated for the plain reader `{ state }` is one for (the non-checking side of) any idle reader -/
theorem message_of_idle (state : Nat) (r : Rd) (hi : Idle state r) (f0 : WFrame) (fs : List WFrame)
    (hm : Message ({ state } : Rd) f0 fs) : Message (strip r) f0 fs := by
  have h1 : (strip r).skipCheck = false := by simp [strip, hi.skip]
  have h2 : (strip r).state = state := by simp [strip, hi.st]
  have h3 : (strip r).maxFrame = 0 := by simp [strip, hi.maxF]
  refine ⟨hm.ok0, hm.data0, ?_, ?_⟩
  · rw [h1, h2, h3]; exact hm.acc0
  · rw [h1, h2, h3]; exact hm.rest

/-- **ReadData on a fragmented wanted message with pings and pongs between its fragments, behind any history.** -/
theorem readData_fragmented_after_history (state want : Nat) (errText : ProtoErr → Bytes) (s : Src) (env : Env) (fuel : Nat)
    (items : List Item) (f0 : WFrame) (fs : List WFrame) (rest : Bytes)
    (hst : state < 256) (hnf : stIs state stFragmented = false) (he : EnvOk env)
    (hall : ∀ it ∈ items, it.Good state want)
    (hm : Message ({ state } : Rd) f0 fs) (hfin : f0.h.fin = false) (hnt : f0.h.op ≠ opText)
    (hwant : (f0.h.op &&& want == 0) = false)
    (hg : ∀ f ∈ fs, opIsControl f.h.op = true → GoodCtl f)
    (hb : s.bytes = encodeFs (items.map Item.frame) ++ (encodeFs (f0 :: fs) ++ rest)) (hwf : Bytes.WF s.bytes) (htame : Src.Tame s) :
    ∃ s' cx' ws1 ws2, readData state want errText s env (fuel + 1 + items.length) = (dataPlain (f0 :: fs), f0.h.op, none, s', cx')
      ∧ s'.bytes = rest
      ∧ cx'.env.dst.writes = env.dst.writes ++ ws1 ++ ws2
      ∧ PongsFor (stIs state stClient) ws1 (pingsOf items) ∧ Pongs (stIs state stClient) ws2 (pingsIn fs) := by
  unfold readData
  simp only
  obtain ⟨r2, s2, cx2, ws1, h2, hi2, hb2, hwf2, ht2, he2, hw2, hp2, _⟩ := loop_history state want errText
    (controlFrameHandler (stIs state stClient) errText false none) (fuel + 1)
    (encodeFs (f0 :: fs) ++ rest) hst hnf items hall _ s { env } (idle_init state) he hb hwf htame
  rw [h2]
  obtain ⟨s', cx', ws2, h3, hb3, hw3, hp3, _⟩ := loop_fragmented state want errText r2 s2 cx2 fuel f0 fs rest hi2 he2 hst hnf
    (message_of_idle state r2 hi2 f0 fs hm) hfin hnt hwant hg hb2 hwf2 ht2
  exact ⟨s', cx', ws1, ws2, h3, hb3, by rw [hw3, hw2], hp2, hp3⟩

/-- the hypotheses are satisfiable: the binary message of Props/C04ReadMessageFrag ("igo" PING "l" "o"), server side -/
example : Message ({ state := 1 } : Rd) bF0 [exPing, exF1, exF2] ∧ bF0.h.fin = false ∧ bF0.h.op ≠ opText ∧ GoodCtl exPing := by
  refine ⟨?_, rfl, by decide, by unfold GoodCtl; decide⟩
  refine ⟨⟨by decide, by decide, by decide, by decide⟩, by decide, ⟨by decide, by decide⟩, ?_⟩
  show Tail false false 9 0 [exPing, exF1, exF2]
  refine Tail.ctl _ _ ⟨by decide, by decide, by decide, by decide⟩ (by decide) ⟨by decide, by decide⟩ ?_
  refine Tail.cont _ _ ⟨by decide, by decide, by decide, by decide⟩ (by decide) (by decide) ⟨by decide, by decide⟩ ?_
  exact Tail.last _ ⟨by decide, by decide, by decide, by decide⟩ (by decide) (by decide) ⟨by decide, by decide⟩

/- The model run on it (`#eval`, not part of the build: `decide` on it takes minutes): a ping, then "igo" PING "l" "o"
   in two transport chunks with two bytes of the next frame behind, want = binary:
     readData 1 2 … = ("hello", 2, none, rest [0x81, 0x85], writes [[0x8a, 2, 'p', 'y'], [0x8a, 2, 'p', 'y']]) -/

end Ws.C08
