/-
  C04 — skipping a whole fragmented message: `Reader.Discard()` called anywhere inside a message
  (inside any of its fragments, however much was read) consumes exactly the rest of that message —
  the remaining fragments and every control frame interleaved between them — for every transport
  chunking, reports no error, and leaves the transport standing at the first byte after the
  message. (No receive extension, CheckUTF8 off, OnIntermediate unset, as for message_delivered.)
-/
import WsVerif.Props.C04Discard
import WsVerif.Props.C04
namespace Ws.C04
open Ws Ws.Spec Ws.RdProof

theorem discard_tail (skip : Bool) (st maxF : Nat) (rest : Bytes) (cx : Ctx) (fs : List WFrame)
    (ht : Tail false skip st maxF fs) :
    ∀ (r : Rd) (s : Src) (wire : Bytes) (fuel : Nat),
      Common skip st maxF r s → r.state = st → r.rawN = wire.length → s.bytes = wire ++ (encodeFs fs ++ rest) →
      fs.length < fuel →
      ∃ r' s', r.discard s cx none fuel = (none, r', s', cx) ∧ s'.bytes = rest ∧ Src.Tame s' := by
  induction ht with
  | opn h => cases h
  | last f hok hdata hfin hacc =>
    intro r s wire fuel hc hst hn hb hfuel
    match fuel, hfuel with
    | n + 2, _ =>
    obtain ⟨s1, hd, hb1, ht1, _, _⟩ := drainRaw_ok s.fuel r s wire (encodeFs [f] ++ rest) hb hn hc.tame (by unfold Src.fuel mu; omega)
    have hfr : ({ r with rawN := 0 } : Rd).fragmented = true := by simp [Rd.fragmented, hst, hc.stF]
    have hbytes : s1.bytes = rfcEncode f.h ++ (f.wire ++ rest) := by rw [hb1]; simp [encodeFs, WFrame.enc]
    have hwf1 : Bytes.WF s1.bytes := by rw [hb1]; exact wf_append_right (hb ▸ hc.wf)
    have hwt : Bytes.WF (f.wire ++ rest) := by rw [hbytes] at hwf1; exact wf_append_right hwf1
    obtain ⟨s2, hrh, hb2, ht2, _⟩ := readHeader_ok f.h hok.hwf _ hwt s1 hbytes ht1
    have hacc' : Accepts ({ r with rawN := 0 } : Rd) f.h := by
      unfold Accepts; simp only [hc.skip, hst, hc.maxF]; exact hacc
    have hnext := nextFrame_data ({ r with rawN := 0 } : Rd) s1 s2 cx none f.h hrh hacc' (by simp [hc.ext]) hdata
    have hnf : (enter ({ r with rawN := 0 } : Rd) f.h).fragmented = false := by
      simp [enter, Rd.fragmented, hfin, hst, hc.stClr]
    obtain ⟨s', hdisc, hb', ht'⟩ := discard_final_frame (enter ({ r with rawN := 0 } : Rd) f.h) s2 cx none n f.wire rest hnf hb2
      (by simp [enter, hok.len]) ht2
    refine ⟨(({ enter ({ r with rawN := 0 } : Rd) f.h with rawN := 0 } : Rd)).reset, s', ?_, hb', ht'⟩
    rw [Rd.discard]
    simp only [hd, hfr, Bool.not_true, Bool.false_eq_true, if_false, hnext, hdisc]
  | cont f fs hok hdata hfin hacc _ ih =>
    intro r s wire fuel hc hst hn hb hfuel
    match fuel, hfuel with
    | n + 1, hfuel =>
    obtain ⟨s1, hd, hb1, ht1, _, _⟩ := drainRaw_ok s.fuel r s wire (encodeFs (f :: fs) ++ rest) hb hn hc.tame (by unfold Src.fuel mu; omega)
    have hfr : ({ r with rawN := 0 } : Rd).fragmented = true := by simp [Rd.fragmented, hst, hc.stF]
    have hbytes : s1.bytes = rfcEncode f.h ++ (f.wire ++ (encodeFs fs ++ rest)) := by rw [hb1]; simp [encodeFs, WFrame.enc]
    have hwf1 : Bytes.WF s1.bytes := by rw [hb1]; exact wf_append_right (hb ▸ hc.wf)
    have hwt : Bytes.WF (f.wire ++ (encodeFs fs ++ rest)) := by rw [hbytes] at hwf1; exact wf_append_right hwf1
    obtain ⟨s2, hrh, hb2, ht2, _⟩ := readHeader_ok f.h hok.hwf _ hwt s1 hbytes ht1
    have hacc' : Accepts ({ r with rawN := 0 } : Rd) f.h := by
      unfold Accepts; simp only [hc.skip, hst, hc.maxF]; exact hacc
    have hnext := nextFrame_data ({ r with rawN := 0 } : Rd) s1 s2 cx none f.h hrh hacc' (by simp [hc.ext]) hdata
    have hc2 : Common skip st maxF (enter ({ r with rawN := 0 } : Rd) f.h) s2 :=
      common_of skip st maxF hc _ s2 (by simp [enter]) (by simp [enter]) (by simp [enter]) (by simp [enter]) ht2 (by rw [hb2]; exact hwt)
    obtain ⟨r', s', hdisc, hb', ht'⟩ := ih (enter ({ r with rawN := 0 } : Rd) f.h) s2 f.wire n hc2
      (by simp [enter, hfin, hst, hc.stSet]) (by simp [enter, hok.len]) hb2 (by simp at hfuel; omega)
    refine ⟨r', s', ?_, hb', ht'⟩
    rw [Rd.discard]
    simp only [hd, hfr, Bool.not_true, Bool.false_eq_true, if_false, hnext, hdisc]
  | ctl f fs hok hctl hacc _ ih =>
    intro r s wire fuel hc hst hn hb hfuel
    match fuel, hfuel with
    | n + 1, hfuel =>
    obtain ⟨s1, hd, hb1, ht1, _, _⟩ := drainRaw_ok s.fuel r s wire (encodeFs (f :: fs) ++ rest) hb hn hc.tame (by unfold Src.fuel mu; omega)
    have hfr : ({ r with rawN := 0 } : Rd).fragmented = true := by simp [Rd.fragmented, hst, hc.stF]
    have hbytes : s1.bytes = rfcEncode f.h ++ (f.wire ++ (encodeFs fs ++ rest)) := by rw [hb1]; simp [encodeFs, WFrame.enc]
    have hwf1 : Bytes.WF s1.bytes := by rw [hb1]; exact wf_append_right (hb ▸ hc.wf)
    have hwt : Bytes.WF (f.wire ++ (encodeFs fs ++ rest)) := by rw [hbytes] at hwf1; exact wf_append_right hwf1
    obtain ⟨s2, hrh, hb2, ht2, _⟩ := readHeader_ok f.h hok.hwf _ hwt s1 hbytes ht1
    have hacc' : Accepts ({ r with rawN := 0 } : Rd) f.h := by
      unfold Accepts; simp only [hc.skip, hst, hc.maxF]; exact hacc
    obtain ⟨s3, hnext, hb3, ht3, _⟩ := nextFrame_ctl ({ r with rawN := 0 } : Rd) s1 s2 cx f (encodeFs fs ++ rest) hrh hacc'
      (by simp [hc.ext]) hctl hfr hb2 hok.len ht2
    have hc3 : Common skip st maxF (skipCtl ({ r with rawN := 0 } : Rd) f.h) s3 :=
      common_of skip st maxF hc _ s3 (by simp [skipCtl]) (by simp [skipCtl]) (by simp [skipCtl]) (by simp [skipCtl]) ht3
        (by rw [hb3]; exact wf_append_right hwt)
    obtain ⟨r', s', hdisc, hb', ht'⟩ := ih (skipCtl ({ r with rawN := 0 } : Rd) f.h) s3 [] n hc3
      (by simp [skipCtl, hst]) (by simp [skipCtl]) (by simpa using hb3) (by simp at hfuel; omega)
    refine ⟨r', s', ?_, hb', ht'⟩
    rw [Rd.discard]
    simp only [hd, hfr, Bool.not_true, Bool.false_eq_true, if_false, hnext, hdisc]

/-- From anywhere inside a message (the `Sync` invariant of Proofs/Reader: in a fragment with `out`
    still to deliver, or between two fragments): Discard reports no error and leaves the transport
    at `rest`, the first byte after the message. -/
theorem discard_from_sync (skip : Bool) (st maxF : Nat) (rest : Bytes) (cx : Ctx) (r : Rd) (s : Src) (out : Bytes)
    (fs : List WFrame) (hs : Sync false skip st maxF rest r s out fs) (hraw : r.hasFrame = false → r.rawN = 0) :
    ∃ r' s', r.discard s cx none (fs.length + 2) = (none, r', s', cx) ∧ s'.bytes = rest ∧ Src.Tame s' := by
  cases hs with
  | mid wire _ hc hin hst ht =>
    exact discard_tail skip st maxF rest cx fs ht r s wire _ hc hst hin.n hin.bytes (by omega)
  | lastFrame wire hc hin hst =>
    have hnf : r.fragmented = false := by simp [Rd.fragmented, hst, hc.stClr]
    obtain ⟨s', h1, h2, h3⟩ := discard_final_frame r s cx none 1 wire rest hnf hin.bytes hin.n hc.tame
    exact ⟨_, s', h1, h2, h3⟩
  | between _ hc hno hst hb ht =>
    exact discard_tail skip st maxF rest cx fs ht r s [] _ hc hst (by simp [hraw hno]) (by simpa using hb) (by omega)

/-- **Skipping a message.** NextFrame on the first frame of a message (any fragmentation, control
    frames interleaved, any transport chunking), then Discard without reading a byte: no error, and
    the transport stands at the first byte after the message. -/
theorem message_skipped (r0 : Rd) (s : Src) (cx : Ctx) (f0 : WFrame) (fs : List WFrame) (rest : Bytes)
    (hnf : r0.fragmented = false) (hst : r0.state < 256)
    (hext : r0.ext = false) (hu8 : r0.checkUTF8 = false)
    (hm : Message r0 f0 fs)
    (hb : s.bytes = encodeFs (f0 :: fs) ++ rest) (hwf : Bytes.WF s.bytes) (htame : Src.Tame s) :
    ∃ r1 s1, r0.nextFrame s cx none = (some f0.h, none, r1, s1, cx)
      ∧ ∃ r' s', r1.discard s1 cx none (fs.length + 2) = (none, r', s', cx) ∧ s'.bytes = rest ∧ Src.Tame s' := by
  obtain ⟨s1, hnext, hsync, _, _⟩ := message_enter r0 s cx none f0 fs rest hnf hst hext hu8 hm hb hwf htame
  refine ⟨enter r0 f0.h, s1, hnext, ?_⟩
  exact discard_from_sync r0.skipCheck (stSet r0.state stFragmented) r0.maxFrame rest cx (enter r0 f0.h) s1 _ fs hsync
    (by intro h; simp [enter] at h)

/-- The example message of Props/C04 (a text message in three fragments with a ping and an empty
    fragment in between, five transport chunks, two bytes of the next frame behind it), skipped:
    the premises are those already shown there, and the transport is left at those two bytes. -/
example :
    (match exR0.nextFrame exSrc {} none with
     | (_, _, r1, s1, cx) => ((r1.discard s1 cx none 5).1, (r1.discard s1 cx none 5).2.2.1.bytes))
      = (none, [0x81, 0x85]) := by decide

end Ws.C04
