/-
  C07 — `wsutil.ReadMessage` on an unfragmented TEXT message: the helper (make([]byte, Length) +
  io.ReadFull over the checking reader) returns the payload as one text message with no error
  exactly when the payload is well-formed UTF-8, and ErrInvalidUTF8 (no message) otherwise — for
  every chunking of the transport. io.ReadFull drops an error that comes with the bytes that fill its
  buffer; the proof needs that the checking reader reports FEWER bytes than the buffer still has room
  for whenever it reports ErrInvalidUTF8 (`SimOut`'s count bound), so the error is never dropped.
-/
import WsVerif.Props.C04ReadMessage
import WsVerif.Proofs.ReaderText
namespace Ws.C07
open Ws Ws.Spec Ws.RdProof Ws.RdText

theorem read_has_cb (r : Rd) (s : Src) (cx : Ctx) (k : Nat) (cb : Option Callback) (h : r.hasFrame = true) :
    r.read s cx k cb = tail r s cx k := by
  unfold Rd.read tail
  simp only [h, Bool.not_true, Bool.false_eq_true, if_false]
  rfl

theorem plainOf_wf (r : Rd) (hm : r.mask.WF) (w : Bytes) (hw : Bytes.WF w) : Bytes.WF (plainOf r w) := by
  unfold plainOf
  split
  · rw [← xorFrom_eq_spec]; exact xorFrom_wf r.mask hm _ _ hw
  · exact hw

/-- The io.ReadFull loop of ReadMessage inside the only frame of a text message, checking on. -/
theorem fill_final_text (collect : Callback) (h : Header) (fuel : Nat) :
    ∀ (σ : U8) (r : Rd) (s : Src) (cx : Ctx) (acc wire rest : Bytes),
      TM σ r → r.hasFrame = true → r.fragmented = false → InFrame (strip r) s wire rest →
      acc.length + wire.length = h.len → (wire = [] → σ = .acc) → mu s + 1 < fuel →
      (u8Run σ (plainOf r wire) = .acc →
          ∃ s', readMessage.fill collect h fuel r s cx acc = (acc ++ plainOf r wire, none, s', cx) ∧ s'.bytes = rest)
      ∧ (u8Run σ (plainOf r wire) ≠ .acc →
          ∃ p s' cx', readMessage.fill collect h fuel r s cx acc = (p, some .utf8, s', cx')) := by
  induction fuel with
  | zero => intro σ r s cx acc wire rest _ _ _ _ _ _ hf; omega
  | succ n ih =>
    intro σ r s cx acc wire rest htm hhas hnf hin hlen hempty hf
    rw [readMessage.fill]
    by_cases hdone : acc.length ≥ h.len
    · have hw : wire = [] := List.length_eq_zero_iff.mp (by omega)
      subst hw
      have hσ := hempty rfl
      simp only [hdone, if_true]
      refine ⟨fun _ => ⟨s, by simp [plainOf, xorSpec], by simpa using hin.bytes⟩, fun hna => ?_⟩
      exfalso; apply hna
      have : plainOf r [] = [] := by unfold plainOf xorSpec; split <;> simp
      rw [this, hσ]; rfl
    · simp only [hdone, if_false]
      have hk : 0 < h.len - acc.length := by omega
      have hwpos : 0 < wire.length := by omega
      obtain ⟨g, s1, hg, hb1, ht1, hwf1, hmu, _, hcase⟩ :=
        read_inframe (strip r) s cx (some collect) wire rest (h.len - acc.length) hin hk (Or.inl rfl)
      have hwwf : Bytes.WF wire := wf_left (hin.bytes ▸ hin.wf)
      have hpo : ∀ w, plainOf (strip r) w = plainOf r w := fun _ => rfl
      rw [read_has_cb r s cx _ (some collect) hhas]
      rw [read_has_cb (strip r) s cx _ (some collect) hhas] at hcase
      rcases hcase with ⟨hlt, hread⟩ | ⟨heq, hread⟩
      · -- a proper prefix of the frame
        have hbwf : Bytes.WF (plainOf (strip r) (wire.take g)) :=
          plainOf_wf (strip r) hin.mwf _ (fun x hx => hwwf x (List.mem_of_mem_take hx))
        obtain ⟨hnlen, hsim⟩ := tail_sim σ r s cx _ htm hhas _ _ _ _ _ _ hread hbwf
        have hsplit : plainOf r wire = plainOf r (wire.take g) ++ plainOf (adv r g) (wire.drop g) :=
          (plainOf_split r wire g hg).symm
        rcases hsim with ⟨a1, _, r', a3, a4, a5⟩ | ⟨a1, m, r', a3, hm1, hm2⟩
        · -- same step; go on with the rest of the frame
          have htm' := a5 rfl
          rw [a3]
          simp only [hpo]
          have htake : (plainOf r (wire.take g)).take g = plainOf r (wire.take g) := by
            apply List.take_of_length_le; rw [plainOf_length]; simp; omega
          rw [htake]
          have hr'has : r'.hasFrame = true := by
            have : (strip r').hasFrame = (adv (strip r) g).hasFrame := by rw [a4]
            simpa [strip, adv, hhas] using this
          have hr'nf : r'.fragmented = false := by
            have : (strip r').fragmented = (adv (strip r) g).fragmented := by rw [a4]
            simpa [strip, adv, Rd.fragmented] using this.trans (by simpa [strip, adv, Rd.fragmented] using hnf)
          have hin' : InFrame (strip r') s1 (wire.drop g) rest := by
            rw [a4]
            exact ⟨by simp [adv, hin.has], by simp [adv, hin.noU], hb1, by simp [adv, hin.n], hwf1, by simp [adv]; exact hin.mwf, ht1⟩
          have hpo' : plainOf r' (wire.drop g) = plainOf (adv r g) (wire.drop g) := by
            have : plainOf (strip r') (wire.drop g) = plainOf (adv (strip r) g) (wire.drop g) := by rw [a4]
            exact this
          have hih := ih (u8Run σ (plainOf r (wire.take g))) r' s1 cx (acc ++ plainOf r (wire.take g)) (wire.drop g) rest
            htm' hr'has hr'nf hin' (by simp [plainOf_length]; omega)
            (fun hd => by have := congrArg List.length hd; simp at this; omega) (by have := hmu hwpos; omega)
          rw [hpo', ← u8Run_append, ← hsplit] at hih
          refine ⟨fun hacc => ?_, fun hna => hih.2 hna⟩
          obtain ⟨s', hfill, hb'⟩ := hih.1 hacc
          exact ⟨s', by rw [hfill, List.append_assoc, ← hsplit], hb'⟩
        · -- ErrInvalidUTF8 inside the frame: fewer bytes than asked for, so ReadFull reports it
          rw [a3]
          simp only [hpo] at hm1 hm2 a1 ⊢
          have hrej : u8Run σ (plainOf r (wire.take g)) = .rej := by
            rcases a1 with a1 | ⟨a1, _⟩
            · exact a1
            · exact absurd rfl a1
          have hlen2 : ¬ (acc ++ (plainOf r (wire.take g)).take m).length ≥ h.len := by
            have e1 : (acc ++ (plainOf r (wire.take g)).take m).length = acc.length + min m (min g wire.length) := by
              simp [plainOf_length]
            rw [e1]; omega
          simp only [hlen2, if_false]
          refine ⟨fun hacc => ?_, fun _ => ⟨acc ++ (plainOf r (wire.take g)).take m, s1, cx, by simp⟩⟩
          rw [hsplit, u8Run_append, hrej, u8Run_rej] at hacc
          cases hacc
      · -- the last bytes of the frame
        subst heq
        have hbwf : Bytes.WF (plainOf (strip r) (wire.take wire.length)) :=
          plainOf_wf (strip r) hin.mwf _ (fun x hx => hwwf x (List.mem_of_mem_take hx))
        have haf : (afterFrame (adv (strip r) wire.length)) = (some .eof, (adv (strip r) wire.length).reset) := by
          unfold afterFrame
          have : (adv (strip r) wire.length).fragmented = false := by simpa [strip, adv, Rd.fragmented] using hnf
          simp [this]
        rw [haf] at hread
        obtain ⟨hnlen, hsim⟩ := tail_sim σ r s cx _ htm hhas _ _ _ _ _ _ hread hbwf
        simp only [List.take_length, hpo] at hsim
        rcases hsim with ⟨_, a2, r', a3, _, _⟩ | ⟨a1, m, r', a3, hm1, hm2⟩
        · have hacc := a2 (by simp)
          rw [a3]
          simp only [List.take_length]
          have htake : (plainOf r wire).take wire.length = plainOf r wire := by
            apply List.take_of_length_le; rw [plainOf_length]; omega
          have hfull : (acc ++ plainOf r wire).length ≥ h.len := by simp [plainOf_length]; omega
          simp only [htake, hfull, if_true]
          exact ⟨fun _ => ⟨s1, rfl, by simpa using hb1⟩, fun hna => absurd hacc hna⟩
        · rw [a3]
          have hne : plainOf r wire ≠ [] := by
            intro hd
            have h1 : (plainOf r wire).length = 0 := by rw [hd]; rfl
            rw [plainOf_length] at h1; omega
          have hmlt := hm2 hne
          have hlen2 : ¬ (acc ++ (plainOf r wire).take m).length ≥ h.len := by
            have e1 : (acc ++ (plainOf r wire).take m).length = acc.length + min m wire.length := by
              simp [plainOf_length]
            rw [plainOf_length] at hmlt
            rw [e1]; omega
          simp only [hlen2, if_false]
          refine ⟨fun hacc => ?_, fun _ => ⟨acc ++ (plainOf r wire).take m, s1, cx, by simp⟩⟩
          rcases a1 with a1 | ⟨_, a1⟩
          · rw [a1] at hacc; cases hacc
          · exact absurd hacc a1

/-- **ReadMessage on an unfragmented text message**: delivered, as one text message and with no error, iff the
    payload is well-formed UTF-8 (Table 3-7); otherwise the error is ErrInvalidUTF8 — never nil, whatever the
    chunking of the transport (and so whichever Read happens to fill io.ReadFull's buffer). -/
theorem readMessage_single_text (state : Nat) (s : Src) (f : WFrame) (rest : Bytes)
    (hst : state < 256) (hnf : stIs state stFragmented = false)
    (hok : f.OK) (hfin : f.h.fin = true) (htext : f.h.op = opText)
    (hacc : checkHeader f.h state = none)
    (hb : s.bytes = f.enc ++ rest) (hwf : Bytes.WF s.bytes) (htame : Src.Tame s) :
    (wfUtf8 f.plain = true → ∃ s', readMessage state s = ([(opText, f.plain)], none, s') ∧ s'.bytes = rest)
    ∧ (wfUtf8 f.plain = false → (readMessage state s).2.1 = some .utf8) := by
  have hdata : opIsControl f.h.op = false := by rw [htext]; rfl
  have hbytes : s.bytes = rfcEncode f.h ++ (f.wire ++ rest) := by rw [hb]; simp [WFrame.enc]
  have hwt : Bytes.WF (f.wire ++ rest) := by rw [hbytes] at hwf; exact wf_append_right hwf
  obtain ⟨s1, hrh, hb1, ht1, hmu1⟩ := readHeader_ok f.h hok.hwf _ hwt s hbytes htame
  let rd : Rd := { state, checkUTF8 := true }
  have haccept : Accepts rd f.h := ⟨by simp [rd, hacc], by simp [rd]⟩
  have hfr0 : rd.fragmented = false := by simp [rd, Rd.fragmented, hnf]
  have hnext := nextFrame_data rd s s1 {} (some collectCb) f.h hrh haccept rfl hdata
  have hnext' : ({ state, checkUTF8 := true } : Rd).nextFrame s {} (some collectCb) = (some f.h, none, enter rd f.h, s1, {}) := hnext
  have htm : TM .acc (enter rd f.h) :=
    ⟨by simp [enter, rd], by simp [enter, rd]; rfl, by decide, fun _ => by simp [enter, rd, htext],
     fun hfr => by simp [enter, Rd.fragmented, hfin, rd, C04.clear_not_fragmented state hst] at hfr, Or.inl (by simp [enter])⟩
  have hin : InFrame (strip (enter rd f.h)) s1 f.wire rest :=
    ⟨by simp [strip, enter], rfl, hb1, by simp [strip, enter, hok.len], by rw [hb1]; exact hwt,
     by simp [strip, enter]; exact hok.mwf, ht1⟩
  have hnf1 : (enter rd f.h).fragmented = false := by
    simp [enter, Rd.fragmented, hfin, rd, C04.clear_not_fragmented state hst]
  have hpl : plainOf (enter rd f.h) f.wire = f.plain := by simp [plainOf, enter, WFrame.plain, rd]
  have hfill := fill_final_text collectCb f.h (pullFuel s1) .acc (enter rd f.h) s1 {} [] f.wire rest htm (by simp [enter]) hnf1 hin
    (by simp [hok.len]) (fun _ => rfl) (by unfold pullFuel Src.fuel mu; omega)
  rw [hpl] at hfill
  constructor
  · intro hgood
    have hacc2 : u8Run .acc f.plain = .acc := by simpa [wfUtf8] using hgood
    obtain ⟨s', hf, hb'⟩ := hfill.1 hacc2
    refine ⟨s', ?_, hb'⟩
    unfold readMessage
    simp only [hnext', hfin, if_true, hf, htext]
    simp
  · intro hbad
    have hna : u8Run .acc f.plain ≠ .acc := by
      intro h; simp [wfUtf8, h] at hbad
    obtain ⟨p, s', cx', hf⟩ := hfill.2 hna
    unfold readMessage
    simp only [hnext', hfin, if_true, hf]

/-- Non-vacuity: "é" (C3 A9) and a lone C3, masked, read by a server-side ReadMessage off two chunks. -/
example :
    readMessage 1 { chunks := [[0x81, 0x82, 0, 0], [0, 0, 0xc3, 0xa9, 0x88]], fin := .eof }
      = ([(1, [0xc3, 0xa9])], none, { chunks := [[0x88]], fin := .eof })
    ∧ (readMessage 1 { chunks := [[0x81, 0x81, 0, 0], [0, 0, 0xc3, 0x88]], fin := .eof }).2.1 = some .utf8 := by
  constructor <;> decide

end Ws.C07
