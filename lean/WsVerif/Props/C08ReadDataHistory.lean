/-
  C04 / C08 / C18 — the `wsutil.ReadData` family behind ANY history made of pings (0..125 bytes), pongs, unwanted
  unfragmented messages and unwanted FRAGMENTED messages (text or not, with pings and pongs between their
  fragments): the loop's reader is idle again behind all of it — as good as new — every ping met on the way, between
  messages or between fragments, has been answered with exactly one pong with the identical payload, in order,
  and nothing else was written; the wanted message that follows (unfragmented: text iff well-formed; fragmented
  non-text) is returned as if it had come first.
-/
import WsVerif.Props.C08DiscardFrag
namespace Ws.C08
open Ws Ws.Spec Ws.RdProof Ws.RdCb Ws.RdText Ws.RdBin Ws.RdPong Ws.C06 Ws.C04

/-- a stretch of the history: control frames and unfragmented unwanted messages, or one fragmented unwanted message -/
inductive Seg where
  | items (its : List Item)
  | frag (f0 : WFrame) (fs : List WFrame)

def Seg.bytes : Seg → Bytes
  | .items its => encodeFs (its.map Item.frame)
  | .frag f0 fs => encodeFs (f0 :: fs)

def Seg.fuel : Seg → Nat
  | .items its => its.length
  | .frag _ _ => 1

def Seg.Good (state want : Nat) : Seg → Prop
  | .items its => ∀ it ∈ its, it.Good state want
  | .frag f0 fs => Message ({ state } : Rd) f0 fs ∧ f0.h.fin = false ∧ (f0.h.op &&& want == 0) = true
      ∧ ∀ f ∈ fs, opIsControl f.h.op = true → GoodCtl f

def segsBytes : List Seg → Bytes
  | [] => []
  | g :: gs => g.bytes ++ segsBytes gs

def segsFuel : List Seg → Nat
  | [] => 0
  | g :: gs => g.fuel + segsFuel gs

/-- what the history makes the handler write: per stretch, one pong per ping, in order -/
inductive SegWrites (client : Bool) : List Seg → List Bytes → Prop
  | nil : SegWrites client [] []
  | items (its : List Item) (gs : List Seg) (ws wr : List Bytes) :
      PongsFor client ws (pingsOf its) → SegWrites client gs wr → SegWrites client (.items its :: gs) (ws ++ wr)
  | frag (f0 : WFrame) (fs : List WFrame) (gs : List Seg) (ws wr : List Bytes) :
      Pongs client ws (pingsIn fs) → SegWrites client gs wr → SegWrites client (.frag f0 fs :: gs) (ws ++ wr)

theorem loop_history2 (state want : Nat) (errText : ProtoErr → Bytes)
    (fuel : Nat) (rest : Bytes) (hst : state < 256) (hnf : stIs state stFragmented = false)
    (gs : List Seg) (hall : ∀ g ∈ gs, g.Good state want) :
    ∀ (r0 : Rd) (s : Src) (cx : Ctx), Idle state r0 → EnvOk cx.env →
      s.bytes = segsBytes gs ++ rest → Bytes.WF s.bytes → Src.Tame s →
    ∃ r2 s2 cx2 ws, readData.loop want errText (stIs state stClient) (pongH (stIs state stClient) errText) (fuel + segsFuel gs) r0 s cx
        = readData.loop want errText (stIs state stClient) (pongH (stIs state stClient) errText) fuel r2 s2 cx2
      ∧ Idle state r2 ∧ s2.bytes = rest ∧ Bytes.WF s2.bytes ∧ Src.Tame s2 ∧ EnvOk cx2.env
      ∧ cx2.env.dst.writes = cx.env.dst.writes ++ ws ∧ SegWrites (stIs state stClient) gs ws
      ∧ cx2.msgs = cx.msgs := by
  induction gs with
  | nil =>
    intro r0 s cx hi he hb hwf ht
    exact ⟨r0, s, cx, [], rfl, hi, by simpa [segsBytes] using hb, hwf, ht, he, by simp, SegWrites.nil, rfl⟩
  | cons g gs ih =>
    intro r0 s cx hi he hb hwf ht
    have hg := hall g (List.mem_cons_self ..)
    have ih := ih (fun x hx => hall x (List.mem_cons_of_mem _ hx))
    have hb' : s.bytes = g.bytes ++ (segsBytes gs ++ rest) := by rw [hb]; simp [segsBytes]
    have hfu : fuel + segsFuel (g :: gs) = (fuel + segsFuel gs) + g.fuel := by simp [segsFuel]; omega
    rw [hfu]
    cases g with
    | items its =>
      obtain ⟨r1, s1, cx1, ws, h1, hi1, hb1, hwf1, ht1, he1, hw1, hp1, hm1⟩ := loop_history state want errText
        (pongH (stIs state stClient) errText) (fuel + segsFuel gs) (segsBytes gs ++ rest) hst hnf its hg r0 s cx hi he hb' hwf ht
      obtain ⟨r2, s2, cx2, wr, h2, hi2, hb2, hwf2, ht2, he2, hw2, hp2, hm2⟩ := ih r1 s1 cx1 hi1 he1 hb1 hwf1 ht1
      refine ⟨r2, s2, cx2, ws ++ wr, ?_, hi2, hb2, hwf2, ht2, he2, by rw [hw2, hw1]; simp, SegWrites.items its gs ws wr hp1 hp2, by rw [hm2, hm1]⟩
      show readData.loop want errText _ _ (fuel + segsFuel gs + its.length) r0 s cx = _
      rw [h1, h2]
    | frag f0 fs =>
      obtain ⟨hm, hfin, hunw, hgc⟩ := hg
      obtain ⟨r1, s1, cx1, ws, h1, hi1, hb1, ht1, he1, hw1, hp1, hm1⟩ := loop_skip_frag state want errText r0 s cx (fuel + segsFuel gs) f0 fs
        (segsBytes gs ++ rest) hi he hst hnf hm hfin hunw hgc hb' hwf ht
      have hwf1 : Bytes.WF s1.bytes := by rw [hb1]; exact wf_append_right (hb' ▸ hwf)
      obtain ⟨r2, s2, cx2, wr, h2, hi2, hb2, hwf2, ht2, he2, hw2, hp2, hm2⟩ := ih r1 s1 cx1 hi1 he1 hb1 hwf1 ht1
      refine ⟨r2, s2, cx2, ws ++ wr, ?_, hi2, hb2, hwf2, ht2, he2, by rw [hw2, hw1]; simp, SegWrites.frag f0 fs gs ws wr hp1 hp2, by rw [hm2, hm1]⟩
      show readData.loop want errText _ _ (fuel + segsFuel gs + 1) r0 s cx = _
      rw [h1, h2]

/-- **ReadData behind any such history, fragmented wanted message** (not text, pings and pongs between its fragments). -/
theorem readData_fragmented_after_any_history (state want : Nat) (errText : ProtoErr → Bytes) (s : Src) (env : Env) (fuel : Nat)
    (gs : List Seg) (f0 : WFrame) (fs : List WFrame) (rest : Bytes)
    (hst : state < 256) (hnf : stIs state stFragmented = false) (he : EnvOk env)
    (hall : ∀ g ∈ gs, g.Good state want)
    (hm : Message ({ state } : Rd) f0 fs) (hfin : f0.h.fin = false) (hnt : f0.h.op ≠ opText)
    (hwant : (f0.h.op &&& want == 0) = false)
    (hg : ∀ f ∈ fs, opIsControl f.h.op = true → GoodCtl f)
    (hb : s.bytes = segsBytes gs ++ (encodeFs (f0 :: fs) ++ rest)) (hwf : Bytes.WF s.bytes) (htame : Src.Tame s) :
    ∃ s' cx' ws1 ws2, readData state want errText s env (fuel + 1 + segsFuel gs) = (dataPlain (f0 :: fs), f0.h.op, none, s', cx')
      ∧ s'.bytes = rest
      ∧ cx'.env.dst.writes = env.dst.writes ++ ws1 ++ ws2
      ∧ SegWrites (stIs state stClient) gs ws1 ∧ Pongs (stIs state stClient) ws2 (pingsIn fs) := by
  unfold readData
  simp only
  obtain ⟨r2, s2, cx2, ws1, h2, hi2, hb2, hwf2, ht2, he2, hw2, hp2, _⟩ := loop_history2 state want errText (fuel + 1)
    (encodeFs (f0 :: fs) ++ rest) hst hnf gs hall _ s { env } (idle_init state) he hb hwf htame
  rw [h2]
  obtain ⟨s', cx', ws2, h3, hb3, hw3, hp3, _⟩ := loop_fragmented state want errText r2 s2 cx2 fuel f0 fs rest hi2 he2 hst hnf
    (message_of_idle state r2 hi2 f0 fs hm) hfin hnt hwant hg hb2 hwf2 ht2
  exact ⟨s', cx', ws1, ws2, h3, hb3, by rw [hw3, hw2], hp2, hp3⟩

/-- **… unfragmented wanted message** (not text). -/
theorem readData_single_after_any_history (state want : Nat) (errText : ProtoErr → Bytes) (s : Src) (env : Env) (fuel : Nat)
    (gs : List Seg) (f : WFrame) (rest : Bytes)
    (hst : state < 256) (hnf : stIs state stFragmented = false) (he : EnvOk env)
    (hall : ∀ g ∈ gs, g.Good state want)
    (hok : f.OK) (hfin : f.h.fin = true) (hdata : opIsControl f.h.op = false) (hnt : f.h.op ≠ opText)
    (hwant : (f.h.op &&& want == 0) = false)
    (hacc : checkHeader f.h state = none)
    (hb : s.bytes = segsBytes gs ++ (f.enc ++ rest)) (hwf : Bytes.WF s.bytes) (htame : Src.Tame s) :
    ∃ s' cx' ws, readData state want errText s env (fuel + 1 + segsFuel gs) = (f.plain, f.h.op, none, s', cx')
      ∧ s'.bytes = rest ∧ cx'.env.dst.writes = env.dst.writes ++ ws ∧ SegWrites (stIs state stClient) gs ws := by
  unfold readData
  simp only
  obtain ⟨r2, s2, cx2, ws, h2, hi2, hb2, hwf2, ht2, _, hw2, hp2, _⟩ := loop_history2 state want errText (fuel + 1)
    (f.enc ++ rest) hst hnf gs hall _ s { env } (idle_init state) he hb hwf htame
  rw [h2]
  obtain ⟨s', h3, hb3⟩ := loop_single state want errText (stIs state stClient) (pongH (stIs state stClient) errText) r2 s2 cx2 fuel f rest
    hi2 hst hnf hok hfin hdata hnt hwant hacc hb2 hwf2 ht2
  exact ⟨s', cx2, ws, h3, hb3, hw2, hp2⟩

/-- **… unfragmented wanted TEXT message**: returned iff well-formed UTF-8 — whatever the reader skipped before, also
    fragmented texts that were not valid —, ErrInvalidUTF8 otherwise. -/
theorem readData_text_after_any_history (state want : Nat) (errText : ProtoErr → Bytes) (s : Src) (env : Env) (fuel : Nat)
    (gs : List Seg) (f : WFrame) (rest : Bytes)
    (hst : state < 256) (hnf : stIs state stFragmented = false) (he : EnvOk env)
    (hall : ∀ g ∈ gs, g.Good state want)
    (hok : f.OK) (hfin : f.h.fin = true) (htext : f.h.op = opText)
    (hwant : (opText &&& want == 0) = false)
    (hacc : checkHeader f.h state = none)
    (hb : s.bytes = segsBytes gs ++ (f.enc ++ rest)) (hwf : Bytes.WF s.bytes) (htame : Src.Tame s) :
    (wfUtf8 f.plain = true →
        ∃ s' cx' ws, readData state want errText s env (fuel + 1 + segsFuel gs) = (f.plain, opText, none, s', cx')
          ∧ s'.bytes = rest ∧ cx'.env.dst.writes = env.dst.writes ++ ws ∧ SegWrites (stIs state stClient) gs ws)
    ∧ (wfUtf8 f.plain = false → (readData state want errText s env (fuel + 1 + segsFuel gs)).2.2.1 = some .utf8) := by
  unfold readData
  simp only
  obtain ⟨r2, s2, cx2, ws, h2, hi2, hb2, hwf2, ht2, _, hw2, hp2, _⟩ := loop_history2 state want errText (fuel + 1)
    (f.enc ++ rest) hst hnf gs hall _ s { env } (idle_init state) he hb hwf htame
  rw [h2]
  have h3 := loop_single_text state want errText (stIs state stClient) (pongH (stIs state stClient) errText) r2 s2 cx2 fuel f rest
    hi2 hst hnf hok hfin htext hwant hacc hb2 hwf2 ht2
  refine ⟨fun hgd => ?_, h3.2⟩
  obtain ⟨s', h4, hb4⟩ := h3.1 hgd
  exact ⟨s', cx2, ws, h4, hb4, hw2, hp2⟩

end Ws.C08
