/-
  C19 — Concurrent connections do not interfere through the library's shared pools.

  Theorem (for every number of sessions, every program obeying the library's get/put discipline,
  every initial pool content and every schedule): what each session observes is what its own
  program computes alone (`symRun`, which mentions neither the heap nor the pool nor any other
  session), and no buffer is ever held by two sessions or held while in the pool.

  PARTIAL by nature (DESIGN.md §6.C19): the scheduler interleaves whole actions; the Go memory
  model (data races inside an action), sync.Pool's internals, the garbage collector and
  math/rand's lock are not in the model. They are observed by the race-detector harness.
-/
import WsVerif.Model.Pools
namespace Ws.C19
open Ws Ws.Pools

/-- A session's concrete state agrees with its own heap-free computation. -/
structure SessOk (mem : Buf → Bytes) (s : Sess) : Prop where
  hist : s.hist = (symRun s.done).hist
  len : s.held.length = (symRun s.done).stack.length
  cont : ∀ (k : Nat) (b : Buf) (c : Bytes), s.held[k]? = some b → (symRun s.done).stack[k]? = some (some c) → mem b = c
  disc : discFrom (symRun s.done) s.todo = true

structure Inv (w : World) : Prop where
  poolNodup : w.pool.Nodup
  poolLt : ∀ b ∈ w.pool, b < w.next
  heldNodup : ∀ i, (w.ss i).held.Nodup
  heldLt : ∀ i, ∀ b ∈ (w.ss i).held, b < w.next
  heldNotPool : ∀ i, ∀ b ∈ (w.ss i).held, b ∉ w.pool
  disjoint : ∀ i j, i ≠ j → ∀ b ∈ (w.ss i).held, b ∉ (w.ss j).held
  ok : ∀ i, SessOk w.mem (w.ss i)

theorem symRun_snoc (as : List Act) (a : Act) : symRun (as ++ [a]) = symStep (symRun as) a := by
  simp [symRun, List.foldl_append]

/-- a write to a buffer the session does not hold leaves its agreement intact -/
theorem SessOk.of_upd {mem : Buf → Bytes} {s : Sess} (h : SessOk mem s) (b : Buf) (v : Bytes)
    (hb : b ∉ s.held) : SessOk (upd mem b v) s := by
  refine ⟨h.hist, h.len, ?_, h.disc⟩
  intro k b' c hk hc
  have : b' ≠ b := by
    intro e; subst e
    exact hb (List.mem_of_getElem? hk)
  simp only [upd, this, if_false]
  exact h.cont k b' c hk hc

theorem inv_step (w : World) (i : Nat) (h : Inv w) : Inv (w.step i) := by
  unfold World.step
  cases htodo : (w.ss i).todo with
  | nil => simp only [htodo]; exact h
  | cons a rest =>
    simp only [htodo]
    have hok := h.ok i
    have hdisc := hok.disc
    rw [htodo] at hdisc
    simp only [discFrom, Bool.and_eq_true] at hdisc
    obtain ⟨hpre, hrest⟩ := hdisc
    cases a with
    | get =>
      cases hp : w.pool with
      | cons b p' =>
        simp only
        have hbp : b ∈ w.pool := by rw [hp]; simp
        have hnd := h.poolNodup; rw [hp] at hnd
        have hbp' : b ∉ p' := (List.nodup_cons.mp hnd).1
        refine ⟨(List.nodup_cons.mp hnd).2, fun x hx => h.poolLt x (by rw [hp]; simp [hx]), ?_, ?_, ?_, ?_, ?_⟩
        · intro j; by_cases hj : j = i
          · subst hj; simp only [if_true]
            exact List.nodup_cons.mpr ⟨fun hm => h.heldNotPool j b hm hbp, h.heldNodup j⟩
          · simp only [hj, if_false]; exact h.heldNodup j
        · intro j x hx; by_cases hj : j = i
          · subst hj; simp only [if_true, List.mem_cons] at hx
            rcases hx with rfl | hx
            · exact h.poolLt _ hbp
            · exact h.heldLt j x hx
          · simp only [hj, if_false] at hx; exact h.heldLt j x hx
        · intro j x hx hxp; by_cases hj : j = i
          · subst hj; simp only [if_true, List.mem_cons] at hx
            rcases hx with rfl | hx
            · exact hbp' hxp
            · exact h.heldNotPool j x hx (by rw [hp]; simp [hxp])
          · simp only [hj, if_false] at hx; exact h.heldNotPool j x hx (by rw [hp]; simp [hxp])
        · intro j l hjl x hx hx'
          by_cases hj : j = i <;> by_cases hl : l = i
          · exact hjl (hj.trans hl.symm)
          · subst hj; simp only [if_true, hl, if_false, List.mem_cons] at hx hx'
            rcases hx with rfl | hx
            · exact h.heldNotPool l _ hx' hbp
            · exact h.disjoint j l hjl x hx hx'
          · subst hl; simp only [if_true, hj, if_false, List.mem_cons] at hx hx'
            rcases hx' with rfl | hx'
            · exact h.heldNotPool j _ hx hbp
            · exact h.disjoint j l hjl x hx hx'
          · simp only [hj, hl, if_false] at hx hx'; exact h.disjoint j l hjl x hx hx'
        · intro j; by_cases hj : j = i
          · subst hj; simp only [if_true]
            refine ⟨?_, ?_, ?_, ?_⟩
            · simp [symRun_snoc, symStep, hok.hist]
            · simp [symRun_snoc, symStep, hok.len]
            · intro k b' c hk hc
              simp only [symRun_snoc, symStep] at hc
              cases k with
              | zero => simp at hc
              | succ k => simp only [List.getElem?_cons_succ] at hk hc; exact hok.cont k b' c hk hc
            · simpa [symRun_snoc] using hrest
          · simp only [hj, if_false]; exact h.ok j
      | nil =>
        simp only
        refine ⟨by simp, by simp, ?_, ?_, ?_, ?_, ?_⟩
        · intro j; by_cases hj : j = i
          · subst hj; simp only [if_true]
            exact List.nodup_cons.mpr ⟨fun hm => Nat.lt_irrefl _ (h.heldLt j _ hm), h.heldNodup j⟩
          · simp only [hj, if_false]; exact h.heldNodup j
        · intro j x hx; by_cases hj : j = i
          · subst hj; simp only [if_true, List.mem_cons] at hx
            rcases hx with rfl | hx
            · exact Nat.lt_succ_self _
            · exact Nat.lt_succ_of_lt (h.heldLt j x hx)
          · simp only [hj, if_false] at hx; exact Nat.lt_succ_of_lt (h.heldLt j x hx)
        · intro j x _ hxp; simp at hxp
        · intro j l hjl x hx hx'
          by_cases hj : j = i <;> by_cases hl : l = i
          · exact hjl (hj.trans hl.symm)
          · subst hj; simp only [if_true, hl, if_false, List.mem_cons] at hx hx'
            rcases hx with rfl | hx
            · exact Nat.lt_irrefl _ (h.heldLt l _ hx')
            · exact h.disjoint j l hjl x hx hx'
          · subst hl; simp only [if_true, hj, if_false, List.mem_cons] at hx hx'
            rcases hx' with rfl | hx'
            · exact Nat.lt_irrefl _ (h.heldLt j _ hx)
            · exact h.disjoint j l hjl x hx hx'
          · simp only [hj, hl, if_false] at hx hx'; exact h.disjoint j l hjl x hx hx'
        · intro j; by_cases hj : j = i
          · subst hj; simp only [if_true]
            refine ⟨?_, ?_, ?_, ?_⟩
            · simp [symRun_snoc, symStep, hok.hist]
            · simp [symRun_snoc, symStep, hok.len]
            · intro k b' c hk hc
              simp only [symRun_snoc, symStep] at hc
              cases k with
              | zero => simp at hc
              | succ k => simp only [List.getElem?_cons_succ] at hk hc; exact hok.cont k b' c hk hc
            · simpa [symRun_snoc] using hrest
          · simp only [hj, if_false]; exact h.ok j
    | fill k f =>
      have hklen : k < (symRun (w.ss i).done).stack.length := by simpa using hpre
      have hkheld : k < (w.ss i).held.length := by rw [hok.len]; exact hklen
      have hget : (w.ss i).held[k]? = some ((w.ss i).held[k]) := List.getElem?_eq_getElem hkheld
      simp only [hget]
      have hbmem : (w.ss i).held[k] ∈ (w.ss i).held := List.getElem_mem hkheld
      refine ⟨h.poolNodup, h.poolLt, ?_, ?_, ?_, ?_, ?_⟩
      · intro j; by_cases hj : j = i
        · subst hj; simp only [if_true]; exact h.heldNodup j
        · simp only [hj, if_false]; exact h.heldNodup j
      · intro j x hx; by_cases hj : j = i
        · subst hj; simp only [if_true] at hx; exact h.heldLt j x hx
        · simp only [hj, if_false] at hx; exact h.heldLt j x hx
      · intro j x hx; by_cases hj : j = i
        · subst hj; simp only [if_true] at hx; exact h.heldNotPool j x hx
        · simp only [hj, if_false] at hx; exact h.heldNotPool j x hx
      · intro j l hjl x hx hx'
        have e1 : (if j = i then ({ (w.ss i) with todo := rest, done := (w.ss i).done ++ [Act.fill k f] } : Sess) else w.ss j).held = (w.ss j).held := by
          by_cases hj : j = i
          · subst hj; simp
          · simp [hj]
        have e2 : (if l = i then ({ (w.ss i) with todo := rest, done := (w.ss i).done ++ [Act.fill k f] } : Sess) else w.ss l).held = (w.ss l).held := by
          by_cases hl : l = i
          · subst hl; simp
          · simp [hl]
        rw [e1] at hx; rw [e2] at hx'
        exact h.disjoint j l hjl x hx hx'
      · intro j; by_cases hj : j = i
        · subst hj; simp only [if_true]
          refine ⟨?_, ?_, ?_, ?_⟩
          · simp [symRun_snoc, symStep, hklen, hok.hist]
          · simp [symRun_snoc, symStep, hklen, hok.len]
          · intro k' b' c hk' hc
            simp only [symRun_snoc, symStep, hklen, if_true] at hc
            by_cases hkk : k' = k
            · subst hkk
              rw [hget] at hk'
              simp only [Option.some.injEq] at hk'
              subst hk'
              rw [List.getElem?_set_self hklen] at hc
              simp only [Option.some.injEq] at hc
              simp [upd, ← hc, hok.hist]
            · rw [List.getElem?_set_ne (Ne.symm hkk)] at hc
              have hne : b' ≠ (w.ss j).held[k] := by
                intro e
                have hk'lt : k' < (w.ss j).held.length := by
                  rcases List.getElem?_eq_some_iff.mp hk' with ⟨hlt, _⟩; exact hlt
                have e' : (w.ss j).held[k']? = (w.ss j).held[k]? := by rw [hk', hget, e]
                exact hkk ((List.getElem?_inj hk'lt (h.heldNodup j)).mp e')
              simp only [upd, hne, if_false]
              exact hok.cont k' b' c hk' hc
          · simpa [symRun_snoc] using hrest
        · simp only [hj, if_false]
          exact (h.ok j).of_upd _ _ (fun hm => h.disjoint i j (Ne.symm hj) _ hbmem hm)
    | read k =>
      simp only [] at hpre
      have hsome : ∃ c, (symRun (w.ss i).done).stack[k]? = some (some c) := by
        cases hq : (symRun (w.ss i).done).stack[k]? with
        | none => rw [hq] at hpre; simp at hpre
        | some o => cases o with
          | none => rw [hq] at hpre; simp at hpre
          | some c => exact ⟨c, rfl⟩
      obtain ⟨c, hc⟩ := hsome
      have hklen : k < (symRun (w.ss i).done).stack.length := by
        rcases List.getElem?_eq_some_iff.mp hc with ⟨hlt, _⟩; exact hlt
      have hkheld : k < (w.ss i).held.length := by rw [hok.len]; exact hklen
      have hget : (w.ss i).held[k]? = some ((w.ss i).held[k]) := List.getElem?_eq_getElem hkheld
      have hmem : w.mem ((w.ss i).held[k]) = c := hok.cont k _ c hget hc
      simp only [hget]
      refine ⟨h.poolNodup, h.poolLt, ?_, ?_, ?_, ?_, ?_⟩
      · intro j; by_cases hj : j = i
        · subst hj; simp only [if_true]; exact h.heldNodup j
        · simp only [hj, if_false]; exact h.heldNodup j
      · intro j x hx; by_cases hj : j = i
        · subst hj; simp only [if_true] at hx; exact h.heldLt j x hx
        · simp only [hj, if_false] at hx; exact h.heldLt j x hx
      · intro j x hx; by_cases hj : j = i
        · subst hj; simp only [if_true] at hx; exact h.heldNotPool j x hx
        · simp only [hj, if_false] at hx; exact h.heldNotPool j x hx
      · intro j l hjl x hx hx'
        by_cases hj : j = i <;> by_cases hl : l = i
        · exact hjl (hj.trans hl.symm)
        · subst hj; simp only [if_true, hl, if_false] at hx hx'; exact h.disjoint j l hjl x hx hx'
        · subst hl; simp only [if_true, hj, if_false] at hx hx'; exact h.disjoint j l hjl x hx hx'
        · simp only [hj, hl, if_false] at hx hx'; exact h.disjoint j l hjl x hx hx'
      · intro j; by_cases hj : j = i
        · subst hj; simp only [if_true]
          refine ⟨?_, ?_, ?_, ?_⟩
          · simp [symRun_snoc, symStep, hc, hmem, hok.hist]
          · simp [symRun_snoc, symStep, hc, hok.len]
          · intro k' b' c' hk' hc'
            simp only [symRun_snoc, symStep, hc] at hc'
            exact hok.cont k' b' c' hk' hc'
          · simpa [symRun_snoc] using hrest
        · simp only [hj, if_false]; exact h.ok j
    | put =>
      have hne : (symRun (w.ss i).done).stack ≠ [] := by
        intro e; rw [e] at hpre; simp at hpre
      cases hh : (w.ss i).held with
      | nil =>
        exfalso
        have := hok.len; rw [hh] at this
        exact hne (List.length_eq_zero_iff.mp this.symm)
      | cons b hs =>
        simp only
        have hbheld : b ∈ (w.ss i).held := by rw [hh]; simp
        have hnd := h.heldNodup i; rw [hh] at hnd
        refine ⟨?_, ?_, ?_, ?_, ?_, ?_, ?_⟩
        · exact List.nodup_cons.mpr ⟨h.heldNotPool i b hbheld, h.poolNodup⟩
        · intro x hx; simp only [List.mem_cons] at hx
          rcases hx with rfl | hx
          · exact h.heldLt i _ hbheld
          · exact h.poolLt x hx
        · intro j; by_cases hj : j = i
          · subst hj; simp only [if_true]; exact (List.nodup_cons.mp hnd).2
          · simp only [hj, if_false]; exact h.heldNodup j
        · intro j x hx; by_cases hj : j = i
          · subst hj; simp only [if_true] at hx; exact h.heldLt j x (by rw [hh]; simp [hx])
          · simp only [hj, if_false] at hx; exact h.heldLt j x hx
        · intro j x hx hxp; by_cases hj : j = i
          · subst hj; simp only [if_true] at hx
            simp only [List.mem_cons] at hxp
            rcases hxp with rfl | hxp
            · exact (List.nodup_cons.mp hnd).1 hx
            · exact h.heldNotPool j x (by rw [hh]; simp [hx]) hxp
          · simp only [hj, if_false] at hx
            simp only [List.mem_cons] at hxp
            rcases hxp with rfl | hxp
            · exact h.disjoint i j (Ne.symm hj) _ hbheld hx
            · exact h.heldNotPool j x hx hxp
        · intro j l hjl x hx hx'
          by_cases hj : j = i <;> by_cases hl : l = i
          · exact hjl (hj.trans hl.symm)
          · subst hj; simp only [if_true, hl, if_false] at hx hx'
            exact h.disjoint j l hjl x (by rw [hh]; simp [hx]) hx'
          · subst hl; simp only [if_true, hj, if_false] at hx hx'
            exact h.disjoint j l hjl x hx (by rw [hh]; simp [hx'])
          · simp only [hj, hl, if_false] at hx hx'; exact h.disjoint j l hjl x hx hx'
        · intro j; by_cases hj : j = i
          · subst hj; simp only [if_true]
            have hlen := hok.len; rw [hh] at hlen
            refine ⟨?_, ?_, ?_, ?_⟩
            · simp [symRun_snoc, symStep, hok.hist]
            · simp only [symRun_snoc, symStep, List.length_tail]
              simp only [List.length_cons] at hlen; omega
            · intro k' b' c' hk' hc'
              simp only [symRun_snoc, symStep] at hc'
              rw [List.getElem?_tail] at hc'
              exact hok.cont (k' + 1) b' c' (by rw [hh]; simpa using hk') hc'
            · simpa [symRun_snoc] using hrest
          · simp only [hj, if_false]; exact h.ok j

theorem inv_run (w : World) (sched : List Nat) (h : Inv w) : Inv (w.run sched) := by
  induction sched generalizing w with
  | nil => exact h
  | cons i is ih => exact ih _ (inv_step w i h)

/-- Any pool content (distinct buffers, stale bytes of any kind) is a legal start. -/
theorem inv_init (progs : List (List Act)) (pool : List Buf) (next : Nat) (mem : Buf → Bytes)
    (hnd : pool.Nodup) (hlt : ∀ b ∈ pool, b < next) (hd : ∀ p ∈ progs, Disc p = true) :
    Inv (World.init progs pool next mem) := by
  refine ⟨hnd, hlt, fun _ => List.nodup_nil, ?_, ?_, ?_, ?_⟩
  · intro i b hb; simp [World.init] at hb
  · intro i b hb; simp [World.init] at hb
  · intro i j _ b hb; simp [World.init] at hb
  · intro i
    refine ⟨rfl, rfl, ?_, ?_⟩
    · intro k b c hk; simp [World.init] at hk
    · simp only [World.init, symRun, List.foldl_nil]
      by_cases hi : i < progs.length
      · have : progs.getD i [] ∈ progs := by
          simp [List.getD, List.getElem?_eq_getElem hi]
        exact hd _ this
      · simp [List.getD, List.getElem?_eq_none (Nat.le_of_not_lt hi), discFrom]

/-- **Non-interference.** Whatever the number of sessions, their programs (under the discipline),
    the initial pool and its stale contents, and the schedule: what session `i` has observed is
    what its own executed actions compute alone. -/
theorem noninterference (progs : List (List Act)) (pool : List Buf) (next : Nat) (mem : Buf → Bytes)
    (hnd : pool.Nodup) (hlt : ∀ b ∈ pool, b < next) (hd : ∀ p ∈ progs, Disc p = true)
    (sched : List Nat) (i : Nat) :
    let s := ((World.init progs pool next mem).run sched).ss i
    s.hist = (symRun s.done).hist :=
  ((inv_run _ sched (inv_init progs pool next mem hnd hlt hd)).ok i).hist

/-- No buffer is ever held by two sessions, or held while sitting in the pool. -/
theorem ownership_inv (progs : List (List Act)) (pool : List Buf) (next : Nat) (mem : Buf → Bytes)
    (hnd : pool.Nodup) (hlt : ∀ b ∈ pool, b < next) (hd : ∀ p ∈ progs, Disc p = true)
    (sched : List Nat) :
    let w := (World.init progs pool next mem).run sched
    (∀ i j, i ≠ j → ∀ b ∈ (w.ss i).held, b ∉ (w.ss j).held) ∧ (∀ i, ∀ b ∈ (w.ss i).held, b ∉ w.pool) :=
  let h := inv_run _ sched (inv_init progs pool next mem hnd hlt hd)
  ⟨h.disjoint, h.heldNotPool⟩

theorem step_done_todo (w : World) (j i : Nat) :
    ((w.step j).ss i).done ++ ((w.step j).ss i).todo = (w.ss i).done ++ (w.ss i).todo := by
  unfold World.step
  cases htodo : (w.ss j).todo with
  | nil => simp only [htodo]
  | cons a rest =>
    simp only [htodo]
    by_cases hij : i = j
    · subst hij
      cases a with
      | get => cases hp : w.pool <;> simp [htodo, hp]
      | fill k f => cases hq : (w.ss i).held[k]? <;> simp [htodo, hq]
      | read k => cases hq : (w.ss i).held[k]? <;> simp [htodo, hq]
      | put => cases hq : (w.ss i).held <;> simp [htodo, hq]
    · cases a with
      | get => cases hp : w.pool <;> simp [hij, hp]
      | fill k f => cases hq : (w.ss j).held[k]? <;> simp [hij, hq]
      | read k => cases hq : (w.ss j).held[k]? <;> simp [hij, hq]
      | put => cases hq : (w.ss j).held <;> simp [hij, hq]

/-- The executed part of a session's program is a prefix of it, whatever the schedule. -/
theorem done_todo (w : World) (sched : List Nat) (i : Nat) :
    ((w.run sched).ss i).done ++ ((w.run sched).ss i).todo = (w.ss i).done ++ (w.ss i).todo := by
  induction sched generalizing w with
  | nil => rfl
  | cons j js ih => rw [World.run, ih, step_done_todo]

/-- **Same as running alone.** A session that has run to completion among any number of others,
    under any schedule and any pool history, has observed exactly what it observes when it is the
    only session and starts from an empty pool. -/
theorem same_as_alone (progs : List (List Act)) (pool : List Buf) (next : Nat) (mem mem' : Buf → Bytes)
    (hnd : pool.Nodup) (hlt : ∀ b ∈ pool, b < next) (hd : ∀ p ∈ progs, Disc p = true)
    (sched solo : List Nat) (i : Nat) (hi : i < progs.length)
    (hfin : (((World.init progs pool next mem).run sched).ss i).todo = [])
    (hfin' : (((World.init [progs[i]] [] 0 mem').run solo).ss 0).todo = []) :
    (((World.init progs pool next mem).run sched).ss i).hist
      = (((World.init [progs[i]] [] 0 mem').run solo).ss 0).hist := by
  have h1 := noninterference progs pool next mem hnd hlt hd sched i
  have h2 := noninterference [progs[i]] [] 0 mem' List.nodup_nil (by simp)
    (by intro p hp; simp at hp; subst hp; exact hd _ (List.getElem_mem hi)) solo 0
  have d1 : (((World.init progs pool next mem).run sched).ss i).done = progs[i] := by
    have := done_todo (World.init progs pool next mem) sched i
    rw [hfin, List.append_nil] at this
    rw [this]; simp [World.init, List.getD, List.getElem?_eq_getElem hi]
  have d2 : (((World.init [progs[i]] [] 0 mem').run solo).ss 0).done = progs[i] := by
    have := done_todo (World.init [progs[i]] [] 0 mem') solo 0
    rw [hfin', List.append_nil] at this
    rw [this]; simp [World.init]
  simp only at h1 h2
  rw [h1, h2, d1, d2]

/-! ### non-vacuity: the shape of the library's handshake and write paths satisfies the discipline -/

/-- Upgrader.Upgrade: GetReader, GetWriter, fill the reader from the connection, read it, fill the
    writer with the response (a function of what was read), flush (read), deferred PutWriter, PutReader. -/
def upgradeProg (req : Bytes) : List Act :=
  [.get, .get, .fill 1 (fun _ => req), .read 1, .fill 0 (fun h => h.flatten.reverse), .read 0, .put, .put]

/-- writeFrame on the client side: GetLen, copy the caller's payload, mask in place, write, Put. -/
def writeProg (p : Bytes) (k : Nat) : List Act :=
  [.get, .fill 0 (fun _ => p), .fill 0 (fun _ => p.map (· ^^^ k)), .read 0, .put]

example : Disc (upgradeProg [1, 2, 3]) = true ∧ Balanced (upgradeProg [1, 2, 3]) = true := by decide
example : Disc (writeProg [7, 8] 5) = true ∧ Balanced (writeProg [7, 8] 5) = true := by decide
/-- two sessions fighting over one pooled buffer with stale contents, interleaved action by action -/
example :
    let w := (World.init [upgradeProg [1, 2, 3], writeProg [7, 8] 5] [0] 1 (fun _ => [0xAA, 0xAA])).run
      [0, 1, 0, 1, 1, 0, 1, 1, 0, 0, 0, 0, 0]
    (w.ss 0).hist = [[1, 2, 3], [3, 2, 1]] ∧ (w.ss 1).hist = [[2, 13]] ∧ (w.ss 0).todo = [] ∧ (w.ss 1).todo = [] := by
  decide

/-- A program that reads a pooled buffer before writing it is outside the discipline — and really
    does observe another session's bytes (why the discipline is needed). -/
def leakyProg : List Act := [.get, .read 0, .put]
theorem leaky_not_disc : Disc leakyProg = false := by decide
theorem leaky_observes_others :
    (((World.init [writeProg [7, 8] 0, leakyProg] [] 0 (fun _ => [])).run [0, 0, 0, 0, 0, 1, 1, 1]).ss 1).hist
      = [[7, 8]] := by decide

end Ws.C19
