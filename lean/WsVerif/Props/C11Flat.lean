/-
  C11, chunking independence by theorem: the outcome of Upgrader.Upgrade — handshake, error, every
  byte written, and what remains readable afterwards — is a function of the FLAT request bytes (and of
  how the stream ends), not of how the transport cuts them into reads, nor of whether the last bytes
  arrive together with the end of the stream. (`upgrade_flat`; the buffer size is covered too, because
  readLine_spec holds for every capacity.) Assumption on the transport: it never returns (0, nil).
-/
import WsVerif.Props.C11
import WsVerif.Proofs.BufioFlat
namespace Ws.C11
open Ws

/-- two bufio readers over transports holding the same bytes with the same end -/
structure Same (b1 b2 : Bufio) : Prop where
  ok1 : BOK b1
  ok2 : BOK b2
  all : b1.all = b2.all
  fin : b1.src.fin = b2.src.fin

theorem readLine_same (b1 b2 : Bufio) (h : Same b1 b2) :
    (readLine b1).1 = (readLine b2).1 ∧ (readLine b1).2.1 = (readLine b2).2.1
    ∧ Same (readLine b1).2.2 (readLine b2).2.2 := by
  obtain ⟨a1, a2, a3, _⟩ := readLine_spec b1 h.ok1
  obtain ⟨c1, c2, c3, _⟩ := readLine_spec b2 h.ok2
  rw [h.all, h.fin] at a1
  have := a1.trans c1.symm
  simp only [Prod.mk.injEq] at this
  exact ⟨this.1, this.2.1, ⟨a2, c2, this.2.2, by rw [a3, c3, h.fin]⟩⟩

def loopSame : Sum (Fin × Bufio × UpState) (UpState × Option HsErr × Bufio) →
    Sum (Fin × Bufio × UpState) (UpState × Option HsErr × Bufio) → Prop
  | .inl (f1, b1, st1), .inl (f2, b2, st2) => f1 = f2 ∧ st1 = st2 ∧ b1.all = b2.all
  | .inr (st1, e1, b1), .inr (st2, e2, b2) => st1 = st2 ∧ e1 = e2 ∧ b1.all = b2.all
  | _, _ => False

theorem hdrLoop_same (cfg : UpCfg) (fuel : Nat) (b1 b2 : Bufio) (st : UpState) (err : Option HsErr) (h : Same b1 b2) :
    loopSame (hdrLoop cfg fuel b1 st err) (hdrLoop cfg fuel b2 st err) := by
  induction fuel generalizing b1 b2 st err with
  | zero => exact ⟨rfl, rfl, h.all⟩
  | succ n ih =>
    unfold hdrLoop
    by_cases he : err.isSome = true
    · rw [if_pos he, if_pos he]; exact ⟨rfl, rfl, h.all⟩
    · rw [if_neg he, if_neg he]
      obtain ⟨r1, r2, r3⟩ := readLine_same b1 b2 h
      rcases hr1 : readLine b1 with ⟨l1, e1, b1'⟩
      rcases hr2 : readLine b2 with ⟨l2, e2, b2'⟩
      rw [hr1, hr2] at r1 r2 r3
      simp only at r1 r2 r3 ⊢
      subst r1 r2
      cases e1 with
      | some f => exact ⟨rfl, rfl, r3.all⟩
      | none =>
        simp only
        by_cases hl : l1.isEmpty = true
        · rw [if_pos hl, if_pos hl]; exact ⟨rfl, rfl, r3.all⟩
        · rw [if_neg hl, if_neg hl]
          cases httpParseHeaderLine l1 with
          | none => exact ⟨rfl, rfl, r3.all⟩
          | some kv => exact ih b1' b2' _ _ r3

/-- **The server's outcome is a function of the flat request bytes.** -/
theorem upgrade_flat (cfg : UpCfg) (s1 s2 : Src) (h1 : s1.NoEmpty) (h2 : s2.NoEmpty)
    (hb : s1.bytes = s2.bytes) (hf : s1.fin = s2.fin) :
    (upgrade cfg s1).1 = (upgrade cfg s2).1 ∧ (upgrade cfg s1).2.1 = (upgrade cfg s2).2.1
    ∧ (upgrade cfg s1).2.2.1 = (upgrade cfg s2).2.2.1
    ∧ (upgrade cfg s1).2.2.2.all = (upgrade cfg s2).2.2.2.all := by
  have hcap : 0 < max 16 (if cfg.readBuf = 0 then 4096 else cfg.readBuf) := by omega
  have hs : Same { cap := max 16 (if cfg.readBuf = 0 then 4096 else cfg.readBuf), src := s1 }
      { cap := max 16 (if cfg.readBuf = 0 then 4096 else cfg.readBuf), src := s2 } :=
    ⟨⟨hcap, h1, fun f hf' => by cases hf'⟩, ⟨hcap, h2, fun f hf' => by cases hf'⟩, by simp [Bufio.all, hb], hf⟩
  obtain ⟨r1, r2, r3⟩ := readLine_same _ _ hs
  unfold upgrade
  simp only
  rcases hr1 : readLine { cap := max 16 (if cfg.readBuf = 0 then 4096 else cfg.readBuf), src := s1 } with ⟨l1, e1, b1'⟩
  rcases hr2 : readLine { cap := max 16 (if cfg.readBuf = 0 then 4096 else cfg.readBuf), src := s2 } with ⟨l2, e2, b2'⟩
  rw [hr1, hr2] at r1 r2 r3
  simp only at r1 r2 r3 ⊢
  subst r1 r2
  cases e1 with
  | some f => exact ⟨rfl, rfl, rfl, r3.all⟩
  | none =>
    simp only
    cases httpParseVersion (bsplit3 l1 32).2.2 with
    | none => exact ⟨rfl, rfl, rfl, r3.all⟩
    | some mm =>
      obtain ⟨major, minor⟩ := mm
      simp only
      have hl := hdrLoop_same cfg (s1.bytes.length + 4) b1' b2' {} (upRequestLine cfg (bsplit3 l1 32).1 major minor) r3
      rw [← hb]
      rcases hh1 : hdrLoop cfg (s1.bytes.length + 4) b1' {} (upRequestLine cfg (bsplit3 l1 32).1 major minor) with x1 | x1
      <;> rcases hh2 : hdrLoop cfg (s1.bytes.length + 4) b2' {} (upRequestLine cfg (bsplit3 l1 32).1 major minor) with x2 | x2
      <;> rw [hh1, hh2] at hl
      · obtain ⟨f1, c1, t1⟩ := x1
        obtain ⟨f2, c2, t2⟩ := x2
        obtain ⟨g1, g2, g3⟩ := hl
        subst g1 g2
        exact ⟨rfl, rfl, rfl, g3⟩
      · obtain ⟨f1, c1, t1⟩ := x1
        obtain ⟨t2, e2, c2⟩ := x2
        exact absurd hl (by simp [loopSame])
      · obtain ⟨t1, e1, c1⟩ := x1
        obtain ⟨f2, c2, t2⟩ := x2
        exact absurd hl (by simp [loopSame])
      · obtain ⟨t1, e1, c1⟩ := x1
        obtain ⟨t2, e2, c2⟩ := x2
        obtain ⟨g1, g2, g3⟩ := hl
        subst g1 g2
        simp only
        cases upFinish cfg t1 e1 with
        | mk fe extra =>
          cases fe with
          | some e => exact ⟨rfl, rfl, rfl, g3⟩
          | none => exact ⟨rfl, rfl, rfl, g3⟩

/-! ### the client side -/

theorem dlLoop_same (cfg : DialCfg) (nonce : Bytes) (fuel : Nat) (b1 b2 : Bufio) (hs : Handshake) (seen : Nat)
    (h : Same b1 b2) :
    (dlLoop cfg nonce fuel b1 hs seen).1 = (dlLoop cfg nonce fuel b2 hs seen).1
    ∧ (dlLoop cfg nonce fuel b1 hs seen).2.1 = (dlLoop cfg nonce fuel b2 hs seen).2.1
    ∧ (dlLoop cfg nonce fuel b1 hs seen).2.2.1.all = (dlLoop cfg nonce fuel b2 hs seen).2.2.1.all
    ∧ (dlLoop cfg nonce fuel b1 hs seen).2.2.2 = (dlLoop cfg nonce fuel b2 hs seen).2.2.2 := by
  induction fuel generalizing b1 b2 hs seen with
  | zero => exact ⟨rfl, rfl, h.all, rfl⟩
  | succ n ih =>
    unfold dlLoop
    obtain ⟨r1, r2, r3⟩ := readLine_same b1 b2 h
    rcases hr1 : readLine b1 with ⟨l1, e1, b1'⟩
    rcases hr2 : readLine b2 with ⟨l2, e2, b2'⟩
    rw [hr1, hr2] at r1 r2 r3
    simp only at r1 r2 r3 ⊢
    subst r1 r2
    cases e1 with
    | some f => exact ⟨rfl, rfl, r3.all, rfl⟩
    | none =>
      simp only
      by_cases hl : l1.isEmpty = true
      · rw [if_pos hl, if_pos hl]; exact ⟨rfl, rfl, r3.all, rfl⟩
      · rw [if_neg hl, if_neg hl]
        cases httpParseHeaderLine l1 with
        | none => exact ⟨rfl, rfl, r3.all, rfl⟩
        | some kv =>
          simp only
          cases (dlHeader cfg nonce hs seen kv.1 kv.2).2.2 with
          | some e => exact ⟨rfl, rfl, r3.all, rfl⟩
          | none => exact ih b1' b2' _ _ r3

/-- **The client's outcome is a function of the flat response bytes**: handshake, error, and every
    byte that stays readable afterwards (buffer, then connection). -/
theorem dialerUpgrade_flat (cfg : DialCfg) (nonce : Bytes) (s1 s2 : Src) (h1 : s1.NoEmpty) (h2 : s2.NoEmpty)
    (hb : s1.bytes = s2.bytes) (hf : s1.fin = s2.fin) :
    (dialerUpgrade cfg nonce s1).1 = (dialerUpgrade cfg nonce s2).1
    ∧ (dialerUpgrade cfg nonce s1).2.1 = (dialerUpgrade cfg nonce s2).2.1
    ∧ (dialerUpgrade cfg nonce s1).2.2.all = (dialerUpgrade cfg nonce s2).2.2.all := by
  have hcap : 0 < max 16 (if cfg.readBuf = 0 then 4096 else cfg.readBuf) := by omega
  have hs : Same { cap := max 16 (if cfg.readBuf = 0 then 4096 else cfg.readBuf), src := s1 }
      { cap := max 16 (if cfg.readBuf = 0 then 4096 else cfg.readBuf), src := s2 } :=
    ⟨⟨hcap, h1, fun f hf' => by cases hf'⟩, ⟨hcap, h2, fun f hf' => by cases hf'⟩, by simp [Bufio.all, hb], hf⟩
  obtain ⟨r1, r2, r3⟩ := readLine_same _ _ hs
  unfold dialerUpgrade
  simp only
  rcases hr1 : readLine { cap := max 16 (if cfg.readBuf = 0 then 4096 else cfg.readBuf), src := s1 } with ⟨l1, e1, b1'⟩
  rcases hr2 : readLine { cap := max 16 (if cfg.readBuf = 0 then 4096 else cfg.readBuf), src := s2 } with ⟨l2, e2, b2'⟩
  rw [hr1, hr2] at r1 r2 r3
  simp only at r1 r2 r3 ⊢
  subst r1 r2
  cases e1 with
  | some f => exact ⟨rfl, rfl, r3.all⟩
  | none =>
    simp only
    cases dlStatusLine l1 with
    | some e => exact ⟨rfl, rfl, r3.all⟩
    | none =>
      simp only
      obtain ⟨g1, g2, g3, g4⟩ := dlLoop_same cfg nonce (s1.bytes.length + 4) b1' b2' {} 0 r3
      rw [← hb]
      rcases hd1 : dlLoop cfg nonce (s1.bytes.length + 4) b1' {} 0 with ⟨x1, y1, z1, w1⟩
      rcases hd2 : dlLoop cfg nonce (s1.bytes.length + 4) b2' {} 0 with ⟨x2, y2, z2, w2⟩
      rw [hd1, hd2] at g1 g2 g3 g4
      simp only at g1 g2 g3 g4 ⊢
      subst g1 g2 g4
      cases y1 with
      | some e => exact ⟨rfl, rfl, g3⟩
      | none => exact ⟨rfl, rfl, g3⟩

/-! ### the loops' fuel is never exhausted (C15: the handshake cannot spin) -/

theorem lineSpec_shrinks (all : Bytes) (fin : Fin) (h : (lineSpec all fin).2.1 = none) :
    (lineSpec all fin).2.2.length < all.length := by
  unfold lineSpec at h ⊢
  cases hi : all.idxOf? 10 with
  | none => simp [hi] at h
  | some i =>
    obtain ⟨hlt, _, _⟩ := List.idxOf?_eq_some_iff.mp hi
    simp only [List.length_drop]; omega

theorem readLine_shrinks (b : Bufio) (hok : BOK b) (h : (readLine b).2.1 = none) :
    (readLine b).2.2.all.length < b.all.length := by
  obtain ⟨a1, _, _, _⟩ := readLine_spec b hok
  have e1 : (readLine b).2.1 = (lineSpec b.all b.src.fin).2.1 := congrArg (fun x => x.2.1) a1
  have e2 : (readLine b).2.2.all = (lineSpec b.all b.src.fin).2.2 := congrArg (fun x => x.2.2) a1
  rw [e2]
  exact lineSpec_shrinks _ _ (by rw [← e1]; exact h)

/-- Every header line read consumes at least its LF: the header loop of Upgrader.Upgrade ends by
    itself — giving it more fuel than the bytes there are changes nothing. -/
theorem hdrLoop_fuel (cfg : UpCfg) (n m : Nat) (b : Bufio) (st : UpState) (err : Option HsErr) (hok : BOK b)
    (hn : b.all.length < n) (hm : n ≤ m) : hdrLoop cfg n b st err = hdrLoop cfg m b st err := by
  induction n generalizing m b st err with
  | zero => omega
  | succ n ih =>
    cases m with
    | zero => omega
    | succ m =>
      unfold hdrLoop
      by_cases he : err.isSome = true
      · rw [if_pos he, if_pos he]
      · rw [if_neg he, if_neg he]
        have hs := readLine_shrinks b hok
        obtain ⟨_, ok', _, _⟩ := readLine_spec b hok
        rcases hr : readLine b with ⟨l, e, b'⟩
        rw [hr] at hs ok'
        simp only at hs ok' ⊢
        cases e with
        | some f => rfl
        | none =>
          simp only
          by_cases hl : l.isEmpty = true
          · rw [if_pos hl, if_pos hl]
          · rw [if_neg hl, if_neg hl]
            cases httpParseHeaderLine l with
            | none => rfl
            | some kv => exact ih m b' _ _ ok' (by have := hs rfl; omega) (by omega)

theorem dlLoop_fuel (cfg : DialCfg) (nonce : Bytes) (n m : Nat) (b : Bufio) (hs : Handshake) (seen : Nat) (hok : BOK b)
    (hn : b.all.length < n) (hm : n ≤ m) : dlLoop cfg nonce n b hs seen = dlLoop cfg nonce m b hs seen := by
  induction n generalizing m b hs seen with
  | zero => omega
  | succ n ih =>
    cases m with
    | zero => omega
    | succ m =>
      unfold dlLoop
      have hsh := readLine_shrinks b hok
      obtain ⟨_, ok', _, _⟩ := readLine_spec b hok
      rcases hr : readLine b with ⟨l, e, b'⟩
      rw [hr] at hsh ok'
      simp only at hsh ok' ⊢
      cases e with
      | some f => rfl
      | none =>
        simp only
        by_cases hl : l.isEmpty = true
        · rw [if_pos hl, if_pos hl]
        · rw [if_neg hl, if_neg hl]
          cases httpParseHeaderLine l with
          | none => rfl
          | some kv =>
            simp only
            cases (dlHeader cfg nonce hs seen kv.1 kv.2).2.2 with
            | some e => rfl
            | none => exact ih m b' _ _ ok' (by have := hsh rfl; omega) (by omega)

/-- Non-vacuity: the same request delivered whole, byte by byte, and in two pieces with the last one
    arriving together with EOF — all without empty chunks. -/
example : Src.NoEmpty { chunks := [[71, 69, 84], [32], [47, 13, 10]], fin := .eof, dataWithFin := true } := by
  intro c hc; simp at hc; rcases hc with rfl | rfl | rfl <;> simp

end Ws.C11
