/-
  C07, stream level — a text message is accepted iff its whole payload is valid UTF-8.

  `text_message`: a server- or client-side reader with CheckUTF8 on, standing between messages,
  receives a text message — any fragmentation, control frames between the fragments, any chunking by
  the transport, any sequence of caller buffer sizes. Then
    * if the concatenated payload is well-formed UTF-8 (Table 3-7), everything C04.message_delivered
      says holds: the Reads hand out exactly the payload bytes, in order, the message ends with
      io.EOF after at most (transport units + 1) Reads, and the reader is back between messages;
    * if it is not, no sequence of Reads ever ends the message with io.EOF: the Reads hand out a
      prefix of the payload and then ErrInvalidUTF8 — at the Read that delivers the first byte
      leaving Table 3-7, or, for a payload that stops inside a character, at the Read that reaches
      the end of the final fragment — again after at most (transport units + 1) Reads.
  A frame boundary (or a ping) in the middle of a multi-byte character changes nothing: validity is a
  property of the concatenation.

  Proof: the checking reader is simulated by the non-checking one (Proofs/ReaderText.lean), for
  which the stream-level theorem is C04.message_delivered.
  Scope as there: no receive extension, OnIntermediate unset.
-/
import WsVerif.Props.C04
import WsVerif.Props.C05
import WsVerif.Props.C07
import WsVerif.Proofs.ReaderText
namespace Ws.C07
open Ws Ws.Spec Ws.RdProof Ws.RdText

theorem plain_wf (f : WFrame) (h : f.OK) : Bytes.WF f.plain := by
  unfold WFrame.plain
  split
  · rw [← xorFrom_eq_spec]; exact xorFrom_wf f.h.mask h.mwf 0 _ h.wwf
  · exact h.wwf

theorem dataPlain_wf (fs : List WFrame) (h : ∀ f ∈ fs, f.OK) : Bytes.WF (dataPlain fs) := by
  induction fs with
  | nil => intro x hx; simp [dataPlain] at hx
  | cons f fs ih =>
    simp only [dataPlain]
    intro x hx
    rcases List.mem_append.mp hx with hx | hx
    · split at hx
      · cases hx
      · exact plain_wf f (h f (by simp)) x hx
    · exact ih (fun g hg => h g (by simp [hg])) x hx

theorem message_allOK (r0 : Rd) (f0 : WFrame) (fs : List WFrame) (hm : C04.Message r0 f0 fs) : ∀ f ∈ f0 :: fs, f.OK := by
  intro f hf
  simp only [List.mem_cons] at hf
  rcases hf with rfl | hf
  · exact hm.ok0
  · have := hm.rest
    split at this
    · subst this; cases hf
    · exact this.allOK f hf

/-- **C07, message level.** See the file header. -/
theorem text_message (r0 : Rd) (s : Src) (cx : Ctx) (f0 : WFrame) (fs : List WFrame) (rest : Bytes)
    (ks : List Nat) (hpos : ∀ k ∈ ks, 0 < k)
    (hidle : r0.hasFrame = false) (hnf : r0.fragmented = false) (hst : r0.state < 256)
    (hext : r0.ext = false) (hu8 : r0.checkUTF8 = true) (hfresh : r0.utf8.state = utf8Accept)
    (htext : f0.h.op = opText)
    (hm : C04.Message r0 f0 fs)
    (hb : s.bytes = encodeFs (f0 :: fs) ++ rest) (hwf : Bytes.WF s.bytes) (htame : Src.Tame s) :
    ∃ r1 s1 out e r' s' cx',
      r0.nextFrame s cx none = (some f0.h, none, r1, s1, cx)
      ∧ reads r1 s1 cx ks = some (out, e, r', s', cx')
      ∧ (∃ more, dataPlain (f0 :: fs) = out ++ more)
      ∧ (wfUtf8 (dataPlain (f0 :: fs)) = true →
          (e = none ∨ e = some .eof)
          ∧ (e = some .eof → out = dataPlain (f0 :: fs) ∧ s'.bytes = rest ∧ r'.state = r0.state ∧ r'.hasFrame = false)
          ∧ (mu s < ks.length → e = some .eof))
      ∧ (wfUtf8 (dataPlain (f0 :: fs)) = false →
          (e = none ∨ e = some .utf8) ∧ (mu s < ks.length → e = some .utf8)) := by
  -- the same reader without the check
  have hm' : C04.Message (strip r0) f0 fs := ⟨hm.ok0, hm.data0, hm.acc0, hm.rest⟩
  obtain ⟨q1, s1, out, e, q', s', hnext, hq1, hrd, hpre, hee, heof, hlive⟩ :=
    C04.message_delivered (strip r0) s cx f0 fs rest ks hpos hidle hnf hst hext rfl hm' hb hwf htame
  rw [nextFrame_strip] at hnext
  obtain ⟨f1, f2, f3⟩ := nextFrame_fields r0 s cx
  rcases hN : r0.nextFrame s cx none with ⟨hd, e1, r1, s1', cx1⟩
  rw [hN] at hnext f1 f2 f3
  simp only [Prod.mk.injEq] at hnext f1 f2 f3
  obtain ⟨rfl, rfl, rfl, rfl, rfl⟩ := hnext
  have hh1 : r1.hasFrame = true := hq1
  -- the checking reader is in text mode at the first byte of the message
  have htm : TM .acc r1 := by
    rcases f3 with ⟨g1, _, _⟩ | ⟨_, _, h, g4, g5, g6⟩
    · rw [hidle] at g1; rw [g1] at hh1; cases hh1
    · simp only [Option.some.injEq] at g6
      subst g6
      refine ⟨by rw [f1]; exact hu8, by rw [f2, hfresh]; rfl, by decide, fun _ => ?_, fun _ => ?_, Or.inl hh1⟩
      · rw [g4, hu8, htext]; simp
      · rw [g5, hnf]; simpa using htext
  obtain ⟨more, hmore⟩ := hpre
  have hwfd : Bytes.WF (dataPlain (f0 :: fs)) := dataPlain_wf _ (message_allOK r0 f0 fs hm)
  have hwfo : Bytes.WF out := by rw [hmore] at hwfd; exact wf_left hwfd
  have hsim := reads_sim ks .acc r1 s1' cx1 htm out e q' s' cx1 hrd hwfo
  -- validity of the whole payload, seen from the delivered prefix
  have hrun : u8Run .acc (dataPlain (f0 :: fs)) = u8Run (u8Run .acc out) more := by rw [hmore, u8Run_append]
  rcases hsim with ⟨a1, a2, r', a3, a4, a5⟩ | ⟨a1, out', r', s'', cx'', a3, more', a4⟩
  · -- the checking reader went the same way
    refine ⟨r1, s1', out, e, r', s', cx1, rfl, a3, ⟨more, hmore⟩, ?_, ?_⟩
    · intro _
      refine ⟨hee, fun he => ?_, hlive⟩
      obtain ⟨h1, h2, h3, h4⟩ := heof he
      refine ⟨h1, h2, ?_, ?_⟩
      · have h5 : q'.state = r0.state := h4
        rw [← h5, ← a4]; rfl
      · have := h3.has; rw [← a4] at this; exact this
    · intro hbad
      -- not reaching io.EOF: at io.EOF the whole payload has been delivered and was found valid
      have hne : e ≠ some .eof := by
        intro he
        obtain ⟨h1, _⟩ := heof he
        have := a2 he
        rw [h1] at this
        simp [wfUtf8, this] at hbad
      rcases hee with h | h
      · refine ⟨Or.inl h, fun hl => absurd (hlive hl) hne⟩
      · exact absurd h hne
  · -- ErrInvalidUTF8
    refine ⟨r1, s1', out', some .utf8, r', s'', cx'', rfl, a3, ⟨more' ++ more, by rw [hmore, a4, List.append_assoc]⟩, ?_, ?_⟩
    · intro hgood
      exfalso
      have hacc : u8Run .acc (dataPlain (f0 :: fs)) = .acc := by simpa [wfUtf8] using hgood
      rcases a1 with a1 | ⟨hne, a1⟩
      · rw [hrun, a1, u8Run_rej] at hacc; cases hacc
      · have he : e = some .eof := by
          rcases hee with h | h
          · exact absurd h hne
          · exact h
        obtain ⟨h1, _⟩ := heof he
        rw [h1] at a1; exact a1 hacc
    · intro _
      exact ⟨Or.inr rfl, fun _ => rfl⟩

/-- **C05 for text messages** (CheckUTF8 on): the valid frames `f0 :: fs` of a text message, then a
    frame the reader must refuse. Any sequence of Reads either stays inside the known frames — handing
    out a prefix of their text, ending (if at all) with io.EOF for a complete message or with
    ErrInvalidUTF8 — or delivers all of the text and returns the refusal `err` at the Read that reaches
    the offending header, with nothing behind that header read. No byte of or after the offending frame
    is ever delivered, and no other error is possible. -/
theorem reject_at_first_bad_text (r0 : Rd) (s : Src) (cx : Ctx) (f0 : WFrame) (fs : List WFrame) (hbad : Header)
    (junk : Bytes) (err : RErr) (ks : List Nat) (hpos : ∀ k ∈ ks, 0 < k)
    (hidle : r0.hasFrame = false) (hnf : r0.fragmented = false) (hst : r0.state < 256)
    (hext : r0.ext = false) (hu8 : r0.checkUTF8 = true) (hfresh : r0.utf8.state = utf8Accept)
    (htext : f0.h.op = opText)
    (hok0 : f0.OK) (hdata0 : opIsControl f0.h.op = false) (hfin0 : f0.h.fin = false)
    (hacc0 : AcceptsAt r0.skipCheck r0.state r0.maxFrame f0.h)
    (htail : Tail true r0.skipCheck (stSet r0.state stFragmented) r0.maxFrame fs)
    (hbw : hbad.WF) (hrej : C05.RefusedWith r0.skipCheck (stSet r0.state stFragmented) r0.maxFrame hbad err)
    (hb : s.bytes = encodeFs (f0 :: fs) ++ (rfcEncode hbad ++ junk)) (hwf : Bytes.WF s.bytes) (htame : Src.Tame s) :
    ∃ r1 s1, r0.nextFrame s cx none = (some f0.h, none, r1, s1, cx) ∧
      ((∃ out e r' s' cx', reads r1 s1 cx ks = some (out, e, r', s', cx')
          ∧ (∃ more, dataPlain (f0 :: fs) = out ++ more) ∧ (e = none ∨ e = some .eof ∨ e = some .utf8))
       ∨ (∃ r' s', reads r1 s1 cx ks = some (dataPlain (f0 :: fs), some err, r', s', cx) ∧ s'.bytes = junk)) := by
  obtain ⟨q1, s1, hnext, hq1, hcases⟩ :=
    C05.reject_at_first_bad (strip r0) s cx f0 fs hbad junk err ks hpos hidle hnf hst hext rfl hok0 hdata0 hfin0
      hacc0 htail hbw hrej hb hwf htame
  rw [nextFrame_strip] at hnext
  obtain ⟨f1, f2, f3⟩ := nextFrame_fields r0 s cx
  rcases hN : r0.nextFrame s cx none with ⟨hd, e1, r1, s1', cx1⟩
  rw [hN] at hnext f1 f2 f3
  simp only [Prod.mk.injEq] at hnext f1 f2 f3
  obtain ⟨rfl, rfl, rfl, rfl, rfl⟩ := hnext
  have hh1 : r1.hasFrame = true := hq1
  have hallOK : ∀ f ∈ f0 :: fs, f.OK := by
    intro f hf
    simp only [List.mem_cons] at hf
    rcases hf with rfl | hf
    · exact hok0
    · exact htail.allOK f hf
  have hwfd : Bytes.WF (dataPlain (f0 :: fs)) := dataPlain_wf _ hallOK
  have htm : TM .acc r1 := by
    rcases f3 with ⟨g1, _, _⟩ | ⟨_, _, h, g4, g5, g6⟩
    · rw [hidle] at g1; rw [g1] at hh1; cases hh1
    · simp only [Option.some.injEq] at g6
      subst g6
      refine ⟨by rw [f1]; exact hu8, by rw [f2, hfresh]; rfl, by decide, fun _ => ?_, fun _ => ?_, Or.inl hh1⟩
      · rw [g4, hu8, htext]; simp
      · rw [g5, hnf]; simpa using htext
  refine ⟨r1, s1', rfl, ?_⟩
  rcases hcases with ⟨out, e, q', s', hrd, ⟨more, hmore⟩, hee⟩ | ⟨q', s', hrd, hjunk⟩
  · have hwfo : Bytes.WF out := by rw [hmore] at hwfd; exact wf_left hwfd
    left
    rcases reads_sim ks .acc r1 s1' cx1 htm out e q' s' cx1 hrd hwfo with
      ⟨_, _, r', a3, _, _⟩ | ⟨_, out', r', s'', cx'', a3, more', a4⟩
    · refine ⟨out, e, r', s', cx1, a3, ⟨more, hmore⟩, ?_⟩
      rcases hee with he | he
      · exact Or.inl he
      · exact Or.inr (Or.inl he)
    · exact ⟨out', some .utf8, r', s'', cx'', a3, ⟨more' ++ more, by rw [hmore, a4, List.append_assoc]⟩, Or.inr (Or.inr rfl)⟩
  · rcases reads_sim ks .acc r1 s1' cx1 htm _ (some err) q' s' cx1 hrd hwfd with
      ⟨_, _, r', a3, _, _⟩ | ⟨_, out', r', s'', cx'', a3, more', a4⟩
    · right; exact ⟨r', s', a3, hjunk⟩
    · left; exact ⟨out', some .utf8, r', s'', cx'', a3, ⟨more', a4⟩, Or.inr (Or.inr rfl)⟩

/-! Non-vacuity: the C04 example stream ("hel" | ping | "" | "lo", masked, server side, cut by the
    transport inside header, mask and payload) read with CheckUTF8 on; and the same message with the
    euro sign E2 82 AC split after its first byte across the first two data fragments, and with its
    last byte missing (a message that ends inside a character). -/
def exR0 : Rd := { state := 1, checkUTF8 := true }
def euF0 : WFrame := ⟨⟨false, 0, 1, false, Mask.zero, 2⟩, [0x61, 0xe2]⟩         -- "a" E2
def euF2 : WFrame := ⟨⟨true, 0, 0, false, Mask.zero, 2⟩, [0x82, 0xac]⟩          -- 82 AC
def euF2bad : WFrame := ⟨⟨true, 0, 0, false, Mask.zero, 1⟩, [0x82]⟩             -- 82, then the message ends
def euR0 : Rd := { state := 2, checkUTF8 := true }                               -- client side
def euSrc (last : WFrame) : Src :=
  { chunks := [(encodeFs [euF0, last]).take 3, (encodeFs [euF0, last]).drop 3], fin := .eof, dataWithFin := false }

example : C04.Message exR0 C04.exF0 [C04.exPing, C04.exF1, C04.exF2] ∧ exR0.utf8.state = utf8Accept
    ∧ C04.exF0.h.op = opText ∧ wfUtf8 (dataPlain [C04.exF0, C04.exPing, C04.exF1, C04.exF2]) = true := by
  refine ⟨⟨⟨by decide, by decide, by decide, by decide⟩, by decide, ⟨by decide, by decide⟩, ?_⟩, rfl, rfl, by decide⟩
  show Tail false false 9 0 [C04.exPing, C04.exF1, C04.exF2]
  refine Tail.ctl _ _ ⟨by decide, by decide, by decide, by decide⟩ (by decide) ⟨by decide, by decide⟩ ?_
  refine Tail.cont _ _ ⟨by decide, by decide, by decide, by decide⟩ (by decide) (by decide) ⟨by decide, by decide⟩ ?_
  exact Tail.last _ ⟨by decide, by decide, by decide, by decide⟩ (by decide) (by decide) ⟨by decide, by decide⟩

example : wfUtf8 (dataPlain [euF0, euF2]) = true ∧ wfUtf8 (dataPlain [euF0, euF2bad]) = false := by decide

example :
    (match euR0.nextFrame (euSrc euF2) {} none with
     | (_, _, r1, s1, cx) => (reads r1 s1 cx [1, 1, 1, 1, 1, 1, 1, 1]).map fun x => (x.1, x.2.1))
      = some ([0x61, 0xe2, 0x82, 0xac], some .eof) := by decide

example :
    (match euR0.nextFrame (euSrc euF2bad) {} none with
     | (_, _, r1, s1, cx) => (reads r1 s1 cx [1, 1, 1, 1, 1, 1, 1, 1]).map fun x => (x.1, x.2.1))
      = some ([0x61, 0xe2], some .utf8) := by decide

end Ws.C07
