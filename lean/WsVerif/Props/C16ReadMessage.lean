/-
  C05 / C16 at the helper level — `wsutil.ReadMessage`: an offending first frame is reported with its protocol
  error (nothing appended, transport right behind the header); an unfragmented non-text message whose payload is
  cut short is never returned — io.ReadFull's verdict is io.ErrUnexpectedEOF (transport ended) or the transport's
  failure, for every chunking of what did arrive.
-/
import WsVerif.Props.C16ReadData
import WsVerif.Props.C05ReadData
namespace Ws.C16
open Ws Ws.Spec Ws.RdProof Ws.RdText Ws.C06 Ws.C08 Ws.C07 Ws.C04

/-- the make + io.ReadFull loop over a cut frame -/
theorem fill_cut (collect : Callback) (h : Header) (fuel : Nat) :
    ∀ (r : Rd) (s : Src) (cx : Ctx) (acc : Bytes), CutFrame r s → acc.length + r.rawN = h.len → mu s + 1 < fuel →
      ∃ p e s', readMessage.fill collect h fuel r s cx acc = (p, some e, s', cx)
        ∧ ((e = .ueof ∧ s.fin = .eof) ∨ (e = .fail ∧ s.fin = .fail)) := by
  induction fuel with
  | zero => intro r s cx acc _ _ hf; omega
  | succ n ih =>
    intro r s cx acc hc hlen hf
    have hshort := hc.short
    have hnd : ¬ acc.length ≥ h.len := by omega
    have hk : 0 < h.len - acc.length := by omega
    obtain ⟨got, e, s1, hread, hsplit, hfin, hcase⟩ := read_cut r s cx (some collect) (h.len - acc.length) hc hk
    rw [readMessage.fill]
    simp only [hnd, if_false, hread]
    have hgl : got.length ≤ s.bytes.length := by rw [← hsplit]; simp
    have htake : (plainOf r got).take got.length = plainOf r got := List.take_of_length_le (by rw [plainOf_length]; exact Nat.le_refl _)
    rcases hcase with ⟨he, hmu, hc1⟩ | ⟨he, hfe⟩ | ⟨he, hfe⟩
    · subst he
      simp only
      obtain ⟨p, e2, s', hf2, hc2⟩ := ih (adv r got.length) s1 cx (acc ++ (plainOf r got).take got.length) hc1
        (by rw [htake]; simp [adv, plainOf_length]; omega) (by omega)
      rw [hfin] at hc2
      exact ⟨p, e2, s', hf2, hc2⟩
    · subst he
      have hnot : ¬ (acc ++ (plainOf r got).take got.length).length ≥ h.len := by
        rw [htake]; simp [plainOf_length]; omega
      simp only [hnot, if_false]
      exact ⟨acc ++ (plainOf r got).take got.length, .ueof, s1, by simp, Or.inl ⟨rfl, hfe⟩⟩
    · subst he
      have hnot : ¬ (acc ++ (plainOf r got).take got.length).length ≥ h.len := by
        rw [htake]; simp [plainOf_length]; omega
      simp only [hnot, if_false]
      exact ⟨acc ++ (plainOf r got).take got.length, .fail, s1, by simp, Or.inr ⟨rfl, hfe⟩⟩

/-- **ReadMessage never returns a cut message** (unfragmented, not text): nothing is appended and the error is
    io.ErrUnexpectedEOF or the transport's failure. -/
theorem readMessage_cut_never_succeeds (state : Nat) (s : Src) (h : Header) (part : Bytes)
    (hnf : stIs state stFragmented = false)
    (hhwf : h.WF) (hfin : h.fin = true) (hdata : opIsControl h.op = false) (hnt : h.op ≠ opText)
    (hacc : checkHeader h state = none)
    (hcut : part.length < h.len)
    (hb : s.bytes = rfcEncode h ++ part) (hwf : Bytes.WF s.bytes) (htame : Src.Tame s) :
    ((readMessage state s).2.1 = some .ueof ∨ (readMessage state s).2.1 = some .fail) ∧ (readMessage state s).1 = [] := by
  have hwt : Bytes.WF part := by rw [hb] at hwf; exact wf_append_right hwf
  have hb0 : s.bytes = rfcEncode h ++ (part ++ []) := by simpa using hb
  obtain ⟨s1, hrh, hb1, ht1, hmu1⟩ := readHeader_ok h hhwf _ (by simpa using hwt) s hb0 htame
  have hb1' : s1.bytes = part := by simpa using hb1
  have hi := idle_init state
  have haccept : Accepts ({ state, checkUTF8 := true } : Rd) h := ⟨by simp [hacc], by simp⟩
  have hnext := nextFrame_data ({ state, checkUTF8 := true } : Rd) s s1 {} (some collectCb) h hrh haccept rfl hdata
  have hcf : CutFrame (enter ({ state, checkUTF8 := true } : Rd) h) s1 :=
    ⟨by simp [enter], by simp [enter, hnt, Rd.fragmented, hnf], by simp [enter, hb1']; exact hcut, by rw [hb1']; exact hwt,
     by simp [enter]; exact hhwf.2.2.2.1⟩
  obtain ⟨p, e, s2, hF, hc2⟩ := fill_cut collectCb h (pullFuel s1) (enter ({ state, checkUTF8 := true } : Rd) h) s1 {} [] hcf
    (by simp [enter]) (by unfold pullFuel Src.fuel mu; omega)
  unfold readMessage
  simp only [hnext, hfin, if_true, hF]
  rcases hc2 with ⟨he, _⟩ | ⟨he, _⟩ <;> subst he
  · simp
  · simp

/-- **ReadMessage reports an offending first frame**: its protocol error, nothing appended, the transport right
    behind that header. -/
theorem readMessage_refuses_bad_frame (state : Nat) (s : Src) (h : Header) (junk : Bytes) (pe : ProtoErr)
    (hhwf : h.WF) (hbad : checkHeader h state = some pe)
    (hb : s.bytes = rfcEncode h ++ junk) (hwf : Bytes.WF s.bytes) (htame : Src.Tame s) :
    ∃ s1, readMessage state s = ([], some (.proto pe), s1) ∧ s1.bytes = junk := by
  have hjw : Bytes.WF junk := by rw [hb] at hwf; exact wf_append_right hwf
  obtain ⟨s1, hrh, hb1, _, _⟩ := readHeader_ok h hhwf _ hjw s hb htame
  have hnext := C05.nextFrame_rejects ({ state, checkUTF8 := true } : Rd) s s1 {} (some collectCb) h pe hrh rfl hbad
  refine ⟨s1, ?_, hb1⟩
  unfold readMessage
  simp only [hnext]

end Ws.C16
