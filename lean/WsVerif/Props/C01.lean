/-
  C01 — Frame header codec is byte-exact per RFC 6455 §5.2 and its own inverse.
  Property theorems only; helper lemmas live in Proofs/Header.lean.
-/
import WsVerif.Proofs.Header
namespace Ws.C01
open Ws Ws.Spec

/-- The encoder emits exactly the §5.2 layout (minimal length form). -/
theorem write_eq_rfc (h : Header) (hw : h.WF) : writeHeader h = .ok (rfcEncode h) := by
  obtain ⟨hr, ho, hl, _, _⟩ := hw
  unfold writeHeader rfcEncode
  simp only [b0_encode h.fin hr ho]
  unfold len7 len16 len64 len7code lenExt
  by_cases h1 : h.len ≤ 125
  · have : h.len % 256 = h.len := by omega
    cases hm : h.masked <;> simp [h1, this, b2n]
    exact b1_mask (by omega)
  · by_cases h2 : h.len ≤ 65535
    · have e : h.len % 65536 = h.len := by omega
      cases hm : h.masked <;> simp [h1, h2, e, b2n, putU16, digitsBE, b1_mask]
    · have h3 : h.len ≤ 2 ^ 63 - 1 := by omega
      cases hm : h.masked <;> simp [h1, h2, h3, b2n, putU64, digitsBE, b1_mask]

/-- Minimal length form: 2, 4 or 10 bytes, plus 4 when masked. -/
theorem rfc_len (h : Header) : (rfcEncode h).length = rfcSize h := by
  unfold rfcEncode rfcSize lenExt
  by_cases h1 : h.len ≤ 125 <;> by_cases h2 : h.len ≤ 65535 <;> cases hm : h.masked <;>
    simp [h1, h2, digitsBE, Mask.toList]

/-- The size query reports the number of bytes the encoder emits. -/
theorem headerSize_eq (h : Header) (hw : h.WF) : headerSize h = (rfcSize h : Int) := by
  obtain ⟨_, _, hl, _, _⟩ := hw
  unfold headerSize rfcSize len16 len64
  by_cases h1 : h.len ≤ 125
  · have : h.len < 126 := by omega
    cases hm : h.masked <;> simp [h1, this]
  · have h1' : ¬ h.len < 126 := by omega
    by_cases h2 : h.len ≤ 65535
    · cases hm : h.masked <;> simp [h1, h1', h2]
    · have h3 : h.len ≤ 2 ^ 63 - 1 := by omega
      cases hm : h.masked <;> simp [h1, h1', h2, h3]

/-- Spec-level round trip: decoding the encoding returns the header and its exact size,
    whatever follows it. -/
theorem decode_encode (h : Header) (hw : h.WF) (rest : Bytes) :
    rfcDecode (rfcEncode h ++ rest) = .ok h (rfcSize h) := by
  obtain ⟨hr, ho, hl, hmw, hz⟩ := hw
  obtain ⟨f, r, o, m, ⟨m0, m1, m2, m3⟩, len⟩ := h
  simp only at hr ho hl hz
  have hb0 : ∀ x, x = 128 * b2n f + 16 * r + o →
      (x / 128 % 2 == 1) = f ∧ x / 16 % 8 = r ∧ x % 16 = o := by
    intro x hx; cases f <;> simp [b2n] at hx ⊢ <;> omega
  have hb1 : ∀ x c, c < 128 → x = 128 * b2n m + c → (x / 128 % 2 == 1) = m ∧ x % 128 = c := by
    intro x c hc hx; cases m <;> simp [b2n] at hx ⊢ <;> omega
  unfold rfcEncode rfcSize lenExt len7code
  simp only
  generalize hx0 : 128 * b2n f + 16 * r + o = b0
  obtain ⟨e1, e2, e3⟩ := hb0 b0 hx0.symm
  by_cases h1 : len ≤ 125
  · simp only [h1, if_true]
    generalize hx1 : 128 * b2n m + len = b1
    obtain ⟨e4, e5⟩ := hb1 b1 len (by omega) hx1.symm
    have e6 : len < 126 := by omega
    cases m
    · simp [rfcDecode, e1, e2, e3, e4, e5, e6, hz]; omega
    · simp [rfcDecode, e1, e2, e3, e4, e5, e6, Mask.toList]
      rw [if_neg (by omega), if_neg (by omega)]
  · simp only [h1, if_false]
    by_cases h2 : len ≤ 65535
    · simp only [h2, if_true]
      generalize hx1 : 128 * b2n m + 126 = b1
      obtain ⟨e4, e5⟩ := hb1 b1 126 (by omega) hx1.symm
      have hd : beVal (digitsBE 2 len) = len := by simp [digitsBE, beVal]; omega
      cases m
      · simp [rfcDecode, e1, e2, e3, e4, e5, hz, digitsBE] at hd ⊢
        rw [if_neg (by omega), hd]
      · simp [rfcDecode, e1, e2, e3, e4, e5, digitsBE, Mask.toList] at hd ⊢
        rw [if_neg (by omega), hd]
    · simp only [h2, if_false]
      generalize hx1 : 128 * b2n m + 127 = b1
      obtain ⟨e4, e5⟩ := hb1 b1 127 (by omega) hx1.symm
      have hd : beVal (digitsBE 8 len) = len := by simp [digitsBE, beVal]; omega
      cases m
      · simp [rfcDecode, e1, e2, e3, e4, e5, hz, digitsBE] at hd ⊢
        rw [if_neg (by omega), hd, if_neg (by omega)]
      · simp [rfcDecode, e1, e2, e3, e4, e5, digitsBE, Mask.toList] at hd ⊢
        rw [if_neg (by omega), hd, if_neg (by omega)]

/-- What "the decoder agrees with the RFC layout on source `s`" means: on a complete header it
    returns exactly the §5.2 fields and leaves the source positioned right after the header
    (not one byte beyond); it fails iff the header is incomplete or the 64-bit length has its top
    bit set. -/
def AgreesWithRfc (res : Except HdrErr Header × Src) (s : Src) : Prop :=
  match rfcDecode s.bytes with
  | .ok h k => res.1 = .ok h ∧ res.2.bytes = s.bytes.drop k ∧ res.2.fin = s.fin
  | .incomplete => ∃ e, res.1 = .error (.io e)
  | .msb => res.1 = .error .lengthMSB

/-- For every byte string and every chunking of it, the low-level decoder agrees with §5.2. -/
theorem readWs_decode (s : Src) (hs : Bytes.WF s.bytes) : AgreesWithRfc (readHeaderWs s) s := by
  unfold AgreesWithRfc
  match hb : s.bytes, hs with
  | [], _ =>
    obtain ⟨e, s', h1, _⟩ := s.readFull_err 2 (by simp [hb])
    simp [rfcDecode, readHeaderWs, h1]
  | [_], _ =>
    obtain ⟨e, s', h1, _⟩ := s.readFull_err 2 (by simp [hb])
    simp [rfcDecode, readHeaderWs, h1]
  | b0 :: b1 :: rest, hs =>
    obtain ⟨s1, h1, hb1, hf1⟩ := s.readFull_ok 2 (by simp [hb])
    simp only [hb, List.take_succ_cons, List.take_zero, List.drop_succ_cons, List.drop_zero] at h1 hb1
    have hw : b0 < 256 ∧ b1 < 256 ∧ Bytes.WF rest := by
      simp [Bytes.WF] at hs ⊢; exact ⟨hs.1, hs.2.1, hs.2.2⟩
    obtain ⟨extra, he, hinc, hok⟩ := finish_decode b0 b1 rest hw.1 hw.2.1 hw.2.2
    simp only [readHeaderWs, h1, he]
    by_cases hlen : extra ≤ rest.length
    · have hag := hok hlen
      unfold FinishAgrees at hag
      by_cases hz : extra = 0
      · subst hz
        simp only [if_true]
        simp only [List.take_zero] at hag
        cases hd : rfcDecode (b0 :: b1 :: rest) with
        | ok h k => rw [hd] at hag; simp [hag.1, hag.2, hb1, hf1]
        | msb => rw [hd] at hag; simp [hag]
        | incomplete => rw [hd] at hag; exact hag.elim
      · obtain ⟨s2, h2, hb2, hf2⟩ := s1.readFull_ok extra (by rw [hb1]; exact hlen)
        simp only [if_neg hz, h2, hb1]
        cases hd : rfcDecode (b0 :: b1 :: rest) with
        | ok h k =>
          rw [hd] at hag
          simp [hag.1, hag.2, hb2, hf2, hf1, hb1]
          rw [Nat.add_comm]; rfl
        | msb => rw [hd] at hag; simp [hag]
        | incomplete => rw [hd] at hag; exact hag.elim
    · have hlt : rest.length < extra := by omega
      rw [hinc hlt]
      have hz : extra ≠ 0 := by omega
      obtain ⟨e, s2, h2, _⟩ := s1.readFull_err extra (by rw [hb1]; exact hlt)
      simp [if_neg hz, h2]

/-- The decoder kept inside the streaming reader decides exactly like the low-level one:
    same value, same error class, same remaining source — on every input. -/
theorem readers_agree (s : Src) : readHeaderUtil s = readHeaderWs s := rfl

/-- Hence it, too, agrees with §5.2 on every byte string and chunking. -/
theorem readUtil_decode (s : Src) (hs : Bytes.WF s.bytes) : AgreesWithRfc (readHeaderUtil s) s := by
  rw [readers_agree]; exact readWs_decode s hs

theorem rfcEncode_wf (h : Header) (hw : h.WF) : Bytes.WF (rfcEncode h) := by
  obtain ⟨hr, ho, hl, hm, _⟩ := hw
  obtain ⟨m0, m1, m2, m3⟩ := hm
  unfold rfcEncode Bytes.WF
  intro b hb
  rcases List.mem_append.mp hb with hb | hb
  · rcases List.mem_append.mp hb with hb | hb
    · simp only [List.mem_cons, List.not_mem_nil, or_false] at hb
      rcases hb with hb | hb
      · subst hb; cases h.fin <;> simp [b2n] <;> omega
      · subst hb; unfold len7code
        have : (if h.len ≤ 125 then h.len else if h.len ≤ 65535 then 126 else 127) < 128 := by
          split
          · omega
          · split <;> omega
        cases h.masked <;> simp [b2n] <;> omega
    · unfold lenExt at hb
      split at hb
      · simp at hb
      · split at hb <;> simp [digitsBE] at hb <;> omega
  · split at hb
    · simp [Mask.toList] at hb; omega
    · simp at hb

/-- Decoding the encoder's bytes returns the identical header and consumes not one byte beyond
    it, however the transport chunks the bytes: the payload that follows is untouched. -/
theorem read_write (h : Header) (hw : h.WF) (rest : Bytes) (hr : Bytes.WF rest) (s : Src)
    (hs : s.bytes = rfcEncode h ++ rest) :
    (readHeaderWs s).1 = .ok h ∧ (readHeaderWs s).2.bytes = rest ∧ (readHeaderWs s).2.fin = s.fin := by
  have hwf : Bytes.WF s.bytes := by
    rw [hs]; intro b hb
    rcases List.mem_append.mp hb with hb | hb
    · exact rfcEncode_wf h hw b hb
    · exact hr b hb
  have := readWs_decode s hwf
  unfold AgreesWithRfc at this
  rw [hs, decode_encode h hw rest] at this
  refine ⟨this.1, ?_, this.2.2⟩
  rw [this.2.1, ← rfc_len, List.drop_left]

/-- Whole-frame write = header codec followed by exactly the payload. -/
theorem writeFrame_eq (f : Frame) (hw : f.header.WF) :
    writeFrame f = .ok (rfcEncode f.header ++ f.payload) ∧ compileFrame f = writeFrame f := by
  simp [writeFrame, compileFrame, write_eq_rfc f.header hw]

/-- Whole-frame read of a written frame returns the frame and leaves what follows untouched,
    for every chunking. -/
theorem frame_roundtrip (f : Frame) (hw : f.header.WF) (hp : Bytes.WF f.payload)
    (hlen : f.payload.length = f.header.len) (hmax : f.header.len ≤ maxSliceLen) (rest : Bytes) (hr : Bytes.WF rest) (s : Src)
    (hs : s.bytes = rfcEncode f.header ++ f.payload ++ rest) :
    (readFrame s).1 = .ok f ∧ (readFrame s).2.bytes = rest := by
  have hwf : Bytes.WF (f.payload ++ rest) := by
    intro b hb; rcases List.mem_append.mp hb with hb | hb
    · exact hp b hb
    · exact hr b hb
  obtain ⟨h1, h2, h3⟩ := read_write f.header hw (f.payload ++ rest) hwf s (by rw [hs, List.append_assoc])
  unfold readFrame
  rcases hrd : readHeaderWs s with ⟨r, s1⟩
  rw [hrd] at h1 h2 h3
  simp only at h1 h2 h3
  subst h1
  have hnm : ¬ f.header.len > maxSliceLen := by omega
  simp only [if_neg hnm]
  by_cases hz : f.header.len > 0
  · obtain ⟨s2, g1, g2, _⟩ := s1.readFull_ok f.header.len (by rw [h2]; simp; omega)
    simp only [if_pos hz, g1, h2, g2]
    rw [← hlen]
    simp
  · have : f.payload = [] := by
      apply List.eq_nil_of_length_eq_zero; omega
    obtain ⟨hd, pl⟩ := f
    simp only at this hz h2 ⊢
    subst this
    simp [if_neg hz, h2]

/-! Non-vacuity: a masked header with a 65 536-byte length satisfies the hypotheses, and the
    theorems compute on it. -/
example : (⟨true, 5, 2, true, ⟨1, 2, 3, 4⟩, 65536⟩ : Header).WF := by decide
example : writeHeader ⟨true, 5, 2, true, ⟨1, 2, 3, 4⟩, 65536⟩
    = .ok [0xd2, 0xff, 0, 0, 0, 0, 0, 1, 0, 0, 1, 2, 3, 4] := by rfl
example : rfcDecode [0x81, 0xfe, 0x01] = .incomplete := by decide
example : rfcDecode [0x81, 0x7f, 0x80, 0, 0, 0, 0, 0, 0, 0] = .msb := by decide

end Ws.C01
