/-
  C20 — Dial honours cancellation at any moment without poisoning or leaking the conn.

  Stated on the model of Dialer.Dial's control flow (Model/Dial.lean), for EVERY combination of
  background / non-background context, Timeout, cancellation or deadline instant, NetDial and
  handshake durations (incl. a silent peer), handshake failure and the watcher's scheduling choice.
-/
import WsVerif.Model.Dial
namespace Ws.C20
open Ws.Dial

/-- The error reported for an ended context is never nil and never an I/O timeout. -/
theorem limitErr_is_ctx (i : In) : limitErr i = .canceled ∨ limitErr i = .deadlineExceeded := by
  unfold limitErr
  repeat' split
  all_goals simp

theorem limitErr_ne_nil (i : In) : limitErr i ≠ .nil := by
  rcases limitErr_is_ctx i with h | h <;> rw [h] <;> simp

/-- A nil error comes with a connection that was not closed and whose deadlines are left
    cleared (never set, or reset to the zero time) — never poisoned. -/
theorem success_clean (i : In) (h : (dial i).err = .nil) :
    (dial i).closed = false ∧ ((dial i).dl = .cleared ∨ (dial i).dl = .untouched) := by
  have hne := limitErr_ne_nil i
  obtain ⟨bg, timeout, ctxEnd, cid, dialDur, hsDur, hsFail, pick, ign⟩ := i
  generalize hle : limitErr _ = le at hne
  unfold dial at h ⊢
  simp only [hle] at h ⊢
  cases dialDur <;> cases hsDur <;> cases timeout <;> cases ctxEnd <;> cases bg <;> cases hsFail <;> cases pick <;>
    simp only [minO, Option.map] at h ⊢ <;> (repeat' split at h) <;> (repeat' split) <;> simp_all

/-- A non-nil error after NetDial succeeded comes with the connection closed. -/
theorem failure_closed (i : In) (hc : (dial i).connected = true) (h : (dial i).err ≠ .nil) :
    (dial i).closed = true := by
  unfold dial at h hc ⊢
  simp only at h hc ⊢
  split
  · rename_i hx; rw [hx] at hc; simp at hc
  · rename_i t0 hx
    rw [hx] at h
    simp only at h ⊢
    repeat' split
    all_goals simp_all

/-- Dial returns by the earlier of the context's end and the dial timeout, whenever there is one
    — also when the peer never answers. (A NetDial supplied by the user that ignores its context is
    the one thing Dial cannot cut short: see `returns_after_late_dial`.) -/
theorem returns_by_limit (i : In) (l : Nat) (hl : minO i.ctxEnd i.timeout = some l) (hbg : i.bg = true → i.ctxEnd = none)
    (hig : i.dialIgnores = false) :
    ∃ r, (dial i).ret = some r ∧ r ≤ l := by
  unfold dial
  simp only [hl, hig, Bool.or_false]
  cases hd : i.dialDur with
  | none => exact ⟨l, by simp, Nat.le_refl _⟩
  | some d =>
    simp only
    by_cases hdl : d < l
    · simp only [hdl, if_true]
      by_cases hb : i.bg = true
      · have hce := hbg hb
        have ht : i.timeout = some l := by rw [hce] at hl; simpa [minO] using hl
        simp only [hb, if_true, ht]
        have hmx : max l d = l := Nat.max_eq_left (Nat.le_of_lt hdl)
        cases hh : i.hsDur with
        | none => exact ⟨l, by simp [hmx], Nat.le_refl _⟩
        | some hs =>
          simp only [Option.map]
          by_cases hf : d + hs ≤ l
          · exact ⟨d + hs, by simp [hf], hf⟩
          · exact ⟨l, by simp [hf, hmx], Nat.le_refl _⟩
      · simp only [hb, Bool.false_eq_true, if_false]
        have hmx : max l d = l := Nat.max_eq_left (Nat.le_of_lt hdl)
        cases hh : i.hsDur with
        | none => exact ⟨l, by simp [hmx], Nat.le_refl _⟩
        | some hs =>
          simp only [Option.map]
          by_cases h1 : d + hs < l
          · exact ⟨d + hs, by simp [h1], by omega⟩
          · by_cases h2 : l < d + hs
            · exact ⟨l, by simp [h1, h2, hmx], Nat.le_refl _⟩
            · have : d + hs = l := by omega
              by_cases hp : i.pickCtx = true
              · exact ⟨d + hs, by simp [h1, h2, hp], by omega⟩
              · exact ⟨d + hs, by simp [h1, h2, hp], by omega⟩
    · exact ⟨l, by simp [hdl], Nat.le_refl _⟩

/-- If the context (or the dial timeout) ends strictly before the handshake I/O would have
    finished, the error is that context's error, the connection is closed, and Dial returns at
    that instant. -/
theorem ended_before_finish (i : In) (hb : i.bg = false) (l d : Nat) (hl : minO i.ctxEnd i.timeout = some l)
    (hd : i.dialDur = some d) (hdl : d < l) (hlate : ∀ hs, i.hsDur = some hs → l < d + hs) :
    (dial i).err = limitErr i ∧ (dial i).closed = true ∧ (dial i).ret = some l := by
  have hmx : max l d = l := Nat.max_eq_left (Nat.le_of_lt hdl)
  unfold dial
  simp only [hl, hd, hdl, decide_true, Bool.true_or, if_true, hb, Bool.false_eq_true, if_false]
  cases hh : i.hsDur with
  | none => simp [hmx]
  | some hs =>
    have := hlate hs hh
    simp only [Option.map]
    have h1 : ¬ d + hs < l := by omega
    simp [h1, this, hmx]

/-- A NetDial that ignores its context and hands over a connection only after the limit has passed:
    Dial still fails with the context's error (the timeout error on the background fast path), CLOSES
    that connection, and returns as soon as NetDial did — whatever the peer does next (unless it answers
    in no time at all at that very instant). -/
theorem returns_after_late_dial (i : In) (l d : Nat) (hl : minO i.ctxEnd i.timeout = some l)
    (hbg : i.bg = true → i.ctxEnd = none) (hig : i.dialIgnores = true) (hd : i.dialDur = some d) (hdl : l ≤ d)
    (hhs : ∀ hs, i.hsDur = some hs → l < d + hs) :
    (dial i).connected = true ∧ (dial i).err ≠ .nil ∧ (dial i).closed = true ∧ (dial i).ret = some d := by
  have hmx : max l d = d := Nat.max_eq_right hdl
  have hne := limitErr_ne_nil i
  unfold dial
  simp only [hl, hd, hig, Bool.or_true, if_true]
  by_cases hb : i.bg = true
  · have hce := hbg hb
    have ht : i.timeout = some l := by rw [hce] at hl; simpa [minO] using hl
    simp only [hb, if_true, ht]
    cases hh : i.hsDur with
    | none => simp [hmx]
    | some hs =>
      have := hhs hs hh
      have hf : ¬ d + hs ≤ l := by omega
      simp [Option.map, hf, hmx]
  · simp only [hb, Bool.false_eq_true, if_false]
    cases hh : i.hsDur with
    | none => simp [hmx, hne]
    | some hs =>
      have := hhs hs hh
      have h1 : ¬ d + hs < l := by omega
      simp [Option.map, h1, this, hmx, hne]

/-- The watcher goroutine has always replied by the time Dial returns: done() blocks on its reply
    (structural: the model has no state in which Dial returns without that receive). -/
theorem watcher_done (i : In) : (dial i).watcherDone = true := by
  unfold dial
  simp only
  repeat' split
  all_goals rfl

/-! Non-vacuity -/
example : dial { bg := false, timeout := some 100, ctxEnd := none, dialDur := some 10, hsDur := none }
    = { connected := true, err := .deadlineExceeded, closed := true, dl := .poisoned, ret := some 100 } := by decide
example : dial { bg := false, timeout := none, ctxEnd := some 50, dialDur := some 10, hsDur := some 20 }
    = { connected := true, err := .nil, closed := false, dl := .untouched, ret := some 30 } := by decide
example : dial { bg := true, timeout := some 100, ctxEnd := none, dialDur := some 10, hsDur := some 20 }
    = { connected := true, err := .nil, closed := false, dl := .cleared, ret := some 30 } := by decide

end Ws.C20
