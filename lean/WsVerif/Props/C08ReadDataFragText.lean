/-
  C07 / C04 / C08 — the `wsutil.ReadData` family on a FRAGMENTED TEXT message of a wanted type, with pings
  (0..125 bytes) and pongs between its fragments, behind any history: returned — concatenated payloads, opcode
  text, no error, transport behind the message, one pong per ping written — iff the WHOLE payload is well-formed
  UTF-8, wherever the fragment boundaries fall (inside a character too); ErrInvalidUTF8 otherwise. For every
  fragmentation, placement of the control frames and transport chunking. `C08Intermediate.readAll_message_pongs`
  (non-checking reader) transported through the text simulation for any handler (Proofs/ReaderBinG2), which
  needs that the control handler never reports io.EOF (Proofs/HandlerEof).
-/
import WsVerif.Props.C08ReadDataHistory
import WsVerif.Proofs.ReaderBinG2
import WsVerif.Props.C07ReadMessageFrag
namespace Ws.C08
open Ws Ws.Spec Ws.RdProof Ws.RdCb Ws.RdText Ws.RdBin Ws.RdPong Ws.C06 Ws.C04 Ws.C07

/-- the loop on a wanted fragmented TEXT message, from any idle reader -/
theorem loop_fragmented_text (state want : Nat) (errText : ProtoErr → Bytes)
    (r0 : Rd) (s : Src) (cx : Ctx) (fuel : Nat) (f0 : WFrame) (fs : List WFrame) (rest : Bytes)
    (hi : Idle state r0) (henv : EnvOk cx.env) (hst : state < 256) (hnf : stIs state stFragmented = false)
    (hm : Message (strip r0) f0 fs) (hfin : f0.h.fin = false) (htext : f0.h.op = opText)
    (hwant : (opText &&& want == 0) = false)
    (hg : ∀ f ∈ fs, opIsControl f.h.op = true → GoodCtl f)
    (hb : s.bytes = encodeFs (f0 :: fs) ++ rest) (hwf : Bytes.WF s.bytes) (htame : Src.Tame s) :
    (wfUtf8 (dataPlain (f0 :: fs)) = true →
      ∃ s' cx' ws, readData.loop want errText (stIs state stClient) (pongH (stIs state stClient) errText) (fuel + 1) r0 s cx
          = (dataPlain (f0 :: fs), opText, none, s', cx')
        ∧ s'.bytes = rest
        ∧ cx'.env.dst.writes = cx.env.dst.writes ++ ws ∧ Pongs (stIs state stClient) ws (pingsIn fs) ∧ cx'.msgs = cx.msgs)
    ∧ (wfUtf8 (dataPlain (f0 :: fs)) = false →
      (readData.loop want errText (stIs state stClient) (pongH (stIs state stClient) errText) (fuel + 1) r0 s cx).2.2.1 = some .utf8) := by
  have hcb := ctlHandler_ok (stIs state stClient) errText
  have hne : CbNe (pongH (stIs state stClient) errText) := fun h r s cx hoff hraw =>
    ctlHandler_ne_eof (stIs state stClient) errText h r s cx hoff hraw
  have hfr0 : (strip r0).fragmented = false := by simp [strip, Rd.fragmented, hi.st, hnf]
  have hfr0' : r0.fragmented = false := by simp [Rd.fragmented, hi.st, hnf]
  obtain ⟨r1', s1, r', s', cx', ws, hnext, hall, hb', hw1, hw2, hw3⟩ :=
    readAll_message_pongs (stIs state stClient) errText (strip r0) s cx f0 fs rest hfr0 (by simp [strip, hi.st]; exact hst)
      (by simp [strip, hi.ext]) rfl hm henv hg hb hwf htame
  have hns := nextFrame_strip_g _ hcb r0 s cx
  rw [hnext] at hns
  rcases hA : r0.nextFrame s cx (some (pongH (stIs state stClient) errText)) with ⟨hd, e1, r1, s1a, cx1⟩
  rw [hA] at hns
  simp only [Prod.mk.injEq] at hns
  obtain ⟨rfl, rfl, hr1, rfl, rfl⟩ := hns
  have hfields := nextFrame_fields_g2 _ hcb r0 s cx
  rw [hA] at hfields
  obtain ⟨f1, f2, f3, f4, f5⟩ := hfields
  simp only at f1 f2 f3 f4 f5
  obtain ⟨s1b, hn2, _⟩ := message_enter (strip r0) s cx (some (pongH (stIs state stClient) errText)) f0 fs rest hfr0
    (by simp [strip, hi.st]; exact hst) (by simp [strip, hi.ext]) rfl hm hb hwf htame
  rw [hnext] at hn2
  simp only [Prod.mk.injEq] at hn2
  have hr1has : r1.hasFrame = true := by
    have : (strip r1).hasFrame = r1.hasFrame := rfl
    rw [← this, ← hr1, hn2.2.2.1]; simp [enter]
  have htm : TM .acc r1 := by
    rcases f5 with ⟨g1, g2, g3⟩ | ⟨_, _, h, g4, g5, g6, _, _⟩
    · exfalso
      have hs2 : (strip r1).state = r1.state := rfl
      have hst1 : (strip r1).state = stSet state stFragmented := by
        rw [← hr1, hn2.2.2.1]; simp [enter, hfin, strip, hi.st]
      rw [hs2, g3, hi.st] at hst1
      have := (stbits state hst).1
      rw [← hst1, hnf] at this
      cases this
    · simp only [Option.some.injEq] at g6
      subst g6
      refine ⟨(by rw [f3]; exact hi.chk), (by rw [f4, hi.u8]; rfl), (by decide), (fun _ => ?_), (fun _ => ?_), Or.inl hr1has⟩
      · rw [g4]; simp [hi.chk, htext]
      · rw [g5]; simp [hfr0', htext]
  rw [hr1] at hall
  unfold readAllRd at hall
  rcases hS : Rd.pull true 512 (some (pongH (stIs state stClient) errText)) (pullFuel s1) (strip r1) s1 cx [] with ⟨chunks, e, q, sq, cxq⟩
  rw [hS] at hall
  simp only [Prod.mk.injEq] at hall
  obtain ⟨hc1, hc2, _, rfl, rfl⟩ := hall
  have he : e = .eof := by
    by_cases h : e = .eof
    · exact h
    · simp [h] at hc2
  subst he
  have hwfd : Bytes.WF (dataPlain (f0 :: fs)) := dataPlain_wf _ (message_allOK (strip r0) f0 fs hm)
  obtain ⟨p1, p2⟩ := pull_sim_g _ hcb hne (pullFuel s1) .acc r1 s1 cx chunks q sq _ htm hS (by rw [hc1]; exact hwfd)
  rw [hc1] at p1 p2
  have hdata : opIsControl f0.h.op = false := hm.data0
  have hw' : (f0.h.op &&& want == 0) = false := by rw [htext]; exact hwant
  constructor
  · intro hgood
    have hacc : u8Run .acc (dataPlain (f0 :: fs)) = .acc := by simpa [wfUtf8] using hgood
    obtain ⟨r'', hp⟩ := p1 hacc
    refine ⟨sq, cxq, ws, ?_, hb', hw1, hw2, hw3⟩
    rw [readData.loop]
    simp only [hA, hdata, Bool.false_eq_true, if_false, hw']
    unfold readAllRd
    rw [hp]
    simp [hc1, htext]
  · intro hbad
    have hna : u8Run .acc (dataPlain (f0 :: fs)) ≠ .acc := by
      intro h; simp [wfUtf8, h] at hbad
    have hp := p2 hna
    rw [readData.loop]
    simp only [hA, hdata, Bool.false_eq_true, if_false, hw']
    unfold readAllRd
    rcases hP : Rd.pull true 512 (some (pongH (stIs state stClient) errText)) (pullFuel s1) r1 s1 cx [] with ⟨c2, e2, r2, s2, cx2⟩
    rw [hP] at hp
    simp only at hp
    subst hp
    simp

/-- **ReadData on a fragmented TEXT message behind any history**: delivered iff the whole payload is well-formed. -/
theorem readData_fragmented_text_after_any_history (state want : Nat) (errText : ProtoErr → Bytes) (s : Src) (env : Env) (fuel : Nat)
    (gs : List Seg) (f0 : WFrame) (fs : List WFrame) (rest : Bytes)
    (hst : state < 256) (hnf : stIs state stFragmented = false) (he : EnvOk env)
    (hall : ∀ g ∈ gs, g.Good state want)
    (hm : Message ({ state } : Rd) f0 fs) (hfin : f0.h.fin = false) (htext : f0.h.op = opText)
    (hwant : (opText &&& want == 0) = false)
    (hg : ∀ f ∈ fs, opIsControl f.h.op = true → GoodCtl f)
    (hb : s.bytes = segsBytes gs ++ (encodeFs (f0 :: fs) ++ rest)) (hwf : Bytes.WF s.bytes) (htame : Src.Tame s) :
    (wfUtf8 (dataPlain (f0 :: fs)) = true →
      ∃ s' cx' ws1 ws2, readData state want errText s env (fuel + 1 + segsFuel gs) = (dataPlain (f0 :: fs), opText, none, s', cx')
        ∧ s'.bytes = rest
        ∧ cx'.env.dst.writes = env.dst.writes ++ ws1 ++ ws2
        ∧ SegWrites (stIs state stClient) gs ws1 ∧ Pongs (stIs state stClient) ws2 (pingsIn fs))
    ∧ (wfUtf8 (dataPlain (f0 :: fs)) = false → (readData state want errText s env (fuel + 1 + segsFuel gs)).2.2.1 = some .utf8) := by
  unfold readData
  simp only
  obtain ⟨r2, s2, cx2, ws1, h2, hi2, hb2, hwf2, ht2, he2, hw2, hp2, _⟩ := loop_history2 state want errText (fuel + 1)
    (encodeFs (f0 :: fs) ++ rest) hst hnf gs hall _ s { env } (idle_init state) he hb hwf htame
  rw [h2]
  have h3 := loop_fragmented_text state want errText r2 s2 cx2 fuel f0 fs rest hi2 he2 hst hnf
    (message_of_idle state r2 hi2 f0 fs hm) hfin htext hwant hg hb2 hwf2 ht2
  refine ⟨fun hgd => ?_, h3.2⟩
  obtain ⟨s', cx', ws2, h4, hb4, hw4, hp4, _⟩ := h3.1 hgd
  exact ⟨s', cx', ws1, ws2, h4, hb4, by rw [hw4, hw2], hp2, hp4⟩

end Ws.C08
