/-
  C14 — permessage-deflate negotiation answers every offer as RFC 7692 §7.1 requires.
-/
import WsVerif.Spec.Negotiate
namespace Ws.C14
open Ws Ws.Spec

/-- A server configuration the library documents as valid: window bits unset or 8..15. -/
def CfgValid (c : Params) : Prop := (c.smwb = 0 ∨ validBits c.smwb) ∧ (c.cmwb = 0 ∨ validBits c.cmwb)
instance (c : Params) : Decidable (CfgValid c) := by unfold CfgValid validBits; infer_instance

/-- bitsFromASCII only ever yields 8..15. -/
theorem bits_range (v : Bytes) (b : Nat) (h : bitsFromASCII v = some b) : validBits b := by
  unfold bitsFromASCII at h
  split at h
  · simp at h
  · cases hd : digitsVal v with
    | none => rw [hd] at h; simp at h
    | some n =>
      rw [hd] at h
      simp only at h
      split at h
      · simp only [Option.some.injEq] at h; subst h; assumption
      · simp at h

/-- The decision of Negotiate on a not-yet-accepted negotiator does not depend on what was
    negotiated (and declined or rejected) before. -/
theorem negotiate_indep (cfg : Params) (st : NegSt) (o : Opt) (h : st.accepted = false) :
    (negotiate cfg st o).1 = (negotiate cfg {} o).1 := by
  unfold negotiate
  simp only [h]
  split
  · rfl
  · simp only [Bool.false_eq_true, if_false]

/-- What an accepting call looks like. -/
theorem accept_inv (cfg : Params) (st st' : NegSt) (o a : Opt)
    (h : negotiate cfg st o = (.accept a, st')) :
    ∃ offer, parseParamsFull o.params = (none, offer) ∧ negDecide cfg offer = true ∧ cfg.option = some a
      ∧ st.accepted = false ∧ st' = { accepted := true, params := offer } ∧ o.name = extName := by
  unfold negotiate at h
  split at h
  · simp at h
  · rename_i hname
    split at h
    · simp at h
    · rename_i hacc
      split at h
      · simp at h
      · rename_i offer hp
        split at h
        · rename_i hd
          simp only [Prod.mk.injEq] at h
          obtain ⟨h1, h2⟩ := h
          cases ho : cfg.option with
          | none => rw [ho] at h1; simp at h1
          | some a' =>
            rw [ho] at h1
            simp only [NegRes.accept.injEq] at h1
            subst h1
            exact ⟨offer, hp, hd, rfl, by simpa using hacc, h2.symm, by simpa using hname⟩
        · simp at h

theorem accept_state (cfg : Params) (st st' : NegSt) (o a : Opt)
    (h : negotiate cfg st o = (.accept a, st')) : st'.accepted = true := by
  obtain ⟨_, _, _, _, _, h5, _⟩ := accept_inv cfg st st' o a h
  rw [h5]

/-- Whenever an offer is accepted, the answer sent (the configuration) is a legal answer to that
    offer per RFC 7692 §7.1, and the negotiator had not accepted anything before. -/
theorem accept_is_legal (cfg : Params) (hc : CfgValid cfg) (st st' : NegSt) (o : Opt) (a : Opt)
    (h : negotiate cfg st o = (.accept a, st')) :
    ∃ offer, parseParams o.params = .ok offer ∧ LegalAnswer offer cfg ∧ cfg.option = some a
      ∧ st.accepted = false ∧ st'.accepted = true ∧ o.name = extName := by
  obtain ⟨offer, hp, hd, ho, hacc, hs, hname⟩ := accept_inv cfg st st' o a h
  refine ⟨offer, by simp [parseParams, hp], ?_, ho, hacc, by rw [hs], hname⟩
  obtain ⟨cs, cc⟩ := hc
  unfold negDecide at hd
  simp only [Bool.and_eq_true, Bool.not_eq_true', Bool.and_eq_false_iff, Bool.or_eq_false_iff,
    decide_eq_false_iff_not, decide_eq_true_eq] at hd
  obtain ⟨⟨h1, h2⟩, h3⟩ := hd
  unfold LegalAnswer validBits at *
  refine ⟨?_, ?_, ?_, ?_⟩
  · intro hs1
    cases hcs : cfg.snct
    · simp [hs1, hcs] at h3
    · rfl
  · intro hne; omega
  · intro hne; omega
  · intro hne; omega

/-- At most one offer is accepted: once accepted, every further offer gets the zero option. -/
theorem at_most_one (cfg : Params) (st : NegSt) (o : Opt) (h : st.accepted = true) :
    negotiate cfg st o = (.none_, st) := by
  unfold negotiate; split <;> simp [h]

/-- Run a whole list of offers (Negotiate is called once per option of the header). -/
def negAll (cfg : Params) : NegSt → List Opt → List NegRes
  | _, [] => []
  | st, o :: os => (negotiate cfg st o).1 :: negAll cfg (negotiate cfg st o).2 os

def isAccept : NegRes → Bool
  | .accept _ => true
  | _ => false

theorem negAll_after_accept (cfg : Params) (st : NegSt) (os : List Opt) (h : st.accepted = true) :
    (negAll cfg st os).all (fun r => r == .none_) = true := by
  induction os generalizing st with
  | nil => rfl
  | cons o os ih =>
    simp only [negAll, at_most_one cfg st o h, List.all_cons, beq_self_eq_true, Bool.true_and]
    exact ih st h

/-- For every list of offers: at most one is accepted. -/
theorem neg_at_most_one (cfg : Params) (os : List Opt) (st : NegSt) :
    ((negAll cfg st os).filter isAccept).length ≤ 1 := by
  induction os generalizing st with
  | nil => simp [negAll]
  | cons o os ih =>
    simp only [negAll]
    cases hr : (negotiate cfg st o).1 with
    | accept a =>
      have hst : (negotiate cfg st o).2.accepted = true :=
        accept_state cfg st _ o a (Prod.ext hr rfl)
      have := negAll_after_accept cfg _ os hst
      have hnone : (negAll cfg (negotiate cfg st o).2 os).filter isAccept = [] := by
        rw [List.filter_eq_nil_iff]
        intro r hr'
        have := (List.all_eq_true.mp this) r hr'
        have : r = .none_ := by simpa using this
        subst this; simp [isAccept]
      simp [List.filter_cons, isAccept, hnone]
    | none_ => simpa [List.filter_cons, isAccept] using ih _
    | error e => simpa [List.filter_cons, isAccept] using ih _
    | panic => simpa [List.filter_cons, isAccept] using ih _

/-- A call that does not accept leaves the "accepted" flag as it was. -/
theorem not_accept_state (cfg : Params) (st : NegSt) (o : Opt) (h : isAccept (negotiate cfg st o).1 = false)
    (hc : cfg.option.isSome = true) : (negotiate cfg st o).2.accepted = st.accepted := by
  unfold negotiate at h ⊢
  split
  · rfl
  · split
    · rfl
    · split
      · rfl
      · rename_i offer hp
        split
        · rename_i hn ha _ hd
          have hn' : o.name = extName := by simpa using hn
          have ha' : st.accepted = false := by simpa using ha
          simp only [hp, hd, if_true, hn', ha', ne_eq, not_true_eq_false, if_false, Bool.false_eq_true] at h
          cases ho : cfg.option with
          | none => rw [ho] at hc; simp at hc
          | some a => simp [ho, isAccept] at h
        · rfl

/-- An offer is acceptable for a configuration when a fresh negotiator accepts it. -/
def acceptable (cfg : Params) (o : Opt) : Bool := isAccept (negotiate cfg {} o).1

/-- The accepted offer is the FIRST acceptable one in the client's order: the i-th call accepts
    exactly when offer i is acceptable and no earlier offer was. -/
theorem first_acceptable (cfg : Params) (hc : cfg.option.isSome = true) (os : List Opt) (st : NegSt)
    (hst : st.accepted = false) (i : Nat) (hi : i < os.length) :
    (((negAll cfg st os)[i]?).map isAccept = some true)
      ↔ (acceptable cfg os[i] = true ∧ ∀ j, (hj : j < i) → acceptable cfg (os[j]'(by omega)) = false) := by
  induction os generalizing st i with
  | nil => simp at hi
  | cons o os ih =>
    have hind := negotiate_indep cfg st o hst
    cases i with
    | zero =>
      simp only [negAll, List.getElem?_cons_zero, Option.map_some, Option.some.injEq, List.getElem_cons_zero,
        acceptable, hind]
      constructor
      · intro h; exact ⟨h, fun j hj => absurd hj (by omega)⟩
      · intro h; exact h.1
    | succ k =>
      simp only [negAll, List.getElem?_cons_succ, List.getElem_cons_succ]
      by_cases hacc : isAccept (negotiate cfg st o).1 = true
      · -- first offer accepted: nothing later is
        have hst' : (negotiate cfg st o).2.accepted = true := by
          cases hr : (negotiate cfg st o).1 with
          | accept a => exact accept_state cfg st _ o a (Prod.ext hr rfl)
          | none_ => rw [hr] at hacc; simp [isAccept] at hacc
          | error e => rw [hr] at hacc; simp [isAccept] at hacc
          | panic => rw [hr] at hacc; simp [isAccept] at hacc
        have hall := negAll_after_accept cfg _ os hst'
        constructor
        · intro h
          have hk : k < (negAll cfg (negotiate cfg st o).2 os).length := by
            cases hg : (negAll cfg (negotiate cfg st o).2 os)[k]? with
            | none => rw [hg] at h; simp at h
            | some r => exact (List.getElem?_eq_some_iff.mp hg).1
          have := (List.all_eq_true.mp hall) _ (List.getElem_mem hk)
          rw [List.getElem?_eq_getElem hk] at h
          have hn : (negAll cfg (negotiate cfg st o).2 os)[k] = .none_ := by simpa using this
          rw [hn] at h; simp [isAccept] at h
        · intro h
          have := h.2 0 (by omega)
          simp only [List.getElem_cons_zero, acceptable] at this
          rw [← hind] at this
          rw [this] at hacc; simp at hacc
      · have hacc' : isAccept (negotiate cfg st o).1 = false := by simpa using hacc
        have hst' := not_accept_state cfg st o hacc' hc
        rw [hst] at hst'
        rw [ih _ hst' k (by simpa using hi)]
        constructor
        · intro h
          refine ⟨h.1, ?_⟩
          intro j hj
          cases j with
          | zero => simp only [List.getElem_cons_zero, acceptable]; rw [← hind]; exact hacc'
          | succ j' => simpa using h.2 j' (by omega)
        · intro h
          exact ⟨h.1, fun j hj => by simpa using h.2 (j + 1) (by omega)⟩

/-- After a reset the negotiator is the freshly constructed one. -/
theorem reset_fresh (st : NegSt) : st.reset = ({} : NegSt) := rfl

/-- After Reset the answer to an offer is the one a NEW negotiator gives with the parameters the extension has
    NOW: nothing of an earlier upgrade — its offer, its answer, the parameters it was answered with — survives
    (the owner may have changed `Extension.Parameters` in between). -/
theorem answer_after_reset (old new : Params) (st : NegSt) (o o' : Opt) :
    negotiate new (negotiate old st o).2.reset o' = negotiate new {} o' := by
  rw [reset_fresh]

/-! ### encoder / parser -/

theorem digitsVal_spec (v : Bytes) (n : Nat) (h : digitsVal v = some n) :
    v.all (fun c => decide (48 ≤ c) && decide (c ≤ 57)) = true ∧ v.foldl (fun a c => a * 10 + (c - 48)) 0 = n := by
  unfold digitsVal at h
  suffices hgen : ∀ (v : Bytes) (a n : Nat),
      v.foldl (fun (acc : Option Nat) c => match acc with
        | none => none
        | some n => if 48 ≤ c ∧ c ≤ 57 then (if n * 10 + (c - 48) > 15 then none else some (n * 10 + (c - 48))) else none) (some a) = some n →
      v.all (fun c => decide (48 ≤ c) && decide (c ≤ 57)) = true ∧ v.foldl (fun a c => a * 10 + (c - 48)) a = n from hgen v 0 n h
  intro v
  induction v with
  | nil => intro a n h; simp at h; simp [h]
  | cons c cs ih =>
    intro a n h
    simp only [List.foldl_cons] at h
    by_cases hc : 48 ≤ c ∧ c ≤ 57
    · simp only [hc, and_self, if_true] at h
      by_cases hb : a * 10 + (c - 48) > 15
      · simp only [hb, if_true] at h
        have : ∀ (l : Bytes), l.foldl (fun (acc : Option Nat) c => match acc with
            | none => none
            | some n => if 48 ≤ c ∧ c ≤ 57 then (if n * 10 + (c - 48) > 15 then none else some (n * 10 + (c - 48))) else none) none = none := by
          intro l; induction l with
          | nil => rfl
          | cons x xs ihx => simpa using ihx
        rw [this] at h; simp at h
      · simp only [hb, if_false] at h
        obtain ⟨h1, h2⟩ := ih _ _ h
        simp [hc.1, hc.2, h1, h2]
    · simp only [hc, if_false] at h
      have : ∀ (l : Bytes), l.foldl (fun (acc : Option Nat) c => match acc with
          | none => none
          | some n => if 48 ≤ c ∧ c ≤ 57 then (if n * 10 + (c - 48) > 15 then none else some (n * 10 + (c - 48))) else none) none = none := by
        intro l; induction l with
        | nil => rfl
        | cons x xs ihx => simpa using ihx
      rw [this] at h; simp at h

/-- A value bitsFromASCII accepts is a plain decimal number in 8..15. -/
theorem bits_decimal (v : Bytes) (b : Nat) (h : bitsFromASCII v = some b) : decimal8to15 v = true := by
  unfold bitsFromASCII at h
  split at h
  · simp at h
  · rename_i hne
    cases hd : digitsVal v with
    | none => rw [hd] at h; simp at h
    | some n =>
      rw [hd] at h
      simp only at h
      split at h
      · rename_i hr
        obtain ⟨h1, h2⟩ := digitsVal_spec v n hd
        unfold decimal8to15
        simp only [Bool.and_eq_true, Bool.not_eq_true', decide_eq_true_eq]
        refine ⟨⟨by simpa using hne, h1⟩, ?_⟩
        simp only [h2]; simp [hr.1, hr.2]
      · simp at h



theorem keys_distinct : kCmwb ≠ kSmwb ∧ kCmwb ≠ kCnct ∧ kCmwb ≠ kSnct ∧ kSmwb ≠ kCnct ∧ kSmwb ≠ kSnct ∧ kCnct ≠ kSnct := by
  decide +kernel

def seenKey (s : Seen) (k : Bytes) : Bool :=
  if k = kCmwb then s.cmwb else if k = kSmwb then s.smwb else if k = kCnct then s.cnct else if k = kSnct then s.snct else false

def valueOk (kv : Bytes × Bytes) : Bool :=
  if kv.1 == kSnct || kv.1 == kCnct then kv.2.isEmpty
  else if kv.1 == kSmwb then decimal8to15 kv.2
  else kv.2.isEmpty || decimal8to15 kv.2

def knownKey (k : Bytes) : Bool := k == kSnct || k == kCnct || k == kSmwb || k == kCmwb

theorem seen_mono (s s' : Seen) (h1 : s.cmwb = true → s'.cmwb = true) (h2 : s.smwb = true → s'.smwb = true)
    (h3 : s.cnct = true → s'.cnct = true) (h4 : s.snct = true → s'.snct = true) (k : Bytes)
    (h : seenKey s k = true) : seenKey s' k = true := by
  unfold seenKey at h ⊢
  split
  · rename_i e; simp only [e, if_true] at h; exact h1 h
  · rename_i e; simp only [e, if_false] at h
    split
    · rename_i e2; simp only [e2, if_true] at h; exact h2 h
    · rename_i e2; simp only [e2, if_false] at h
      split
      · rename_i e3; simp only [e3, if_true] at h; exact h3 h
      · rename_i e3; simp only [e3, if_false] at h
        split
        · rename_i e4; simp only [e4, if_true] at h; exact h4 h
        · rename_i e4; simp [e4] at h

theorem go_ok (ps : List (Bytes × Bytes)) (p q : Params) (seen : Seen)
    (h : parseParamsFull.go ps p seen = (none, q)) :
    (ps.map (·.1)).all knownKey = true ∧ allDistinct (ps.map (·.1)) = true
      ∧ (∀ k ∈ ps.map (·.1), seenKey seen k = false) ∧ ps.all valueOk = true := by
  obtain ⟨d1, d2, d3, d4, d5, d6⟩ := keys_distinct
  induction ps generalizing p seen with
  | nil => simp [allDistinct]
  | cons kv rest ih =>
    obtain ⟨k, v⟩ := kv
    unfold parseParamsFull.go at h
    -- common closing step once the head key is identified, not seen before, its value fine, and the
    -- recursive call (with the head key now marked seen) succeeded
    have close : ∀ (p' : Params) (seen' : Seen), parseParamsFull.go rest p' seen' = (none, q) →
        knownKey k = true → seenKey seen k = false → valueOk (k, v) = true →
        seenKey seen' k = true → (∀ k', seenKey seen k' = true → seenKey seen' k' = true) →
        ((k, v) :: rest |>.map (·.1)).all knownKey = true ∧ allDistinct ((k, v) :: rest |>.map (·.1)) = true
          ∧ (∀ k' ∈ ((k, v) :: rest).map (·.1), seenKey seen k' = false) ∧ ((k, v) :: rest).all valueOk = true := by
      intro p' seen' hrec hk hns hv hnow hmono
      obtain ⟨i1, i2, i3, i4⟩ := ih p' seen' hrec
      refine ⟨by simp [hk, i1], ?_, ?_, by simp [hv, i4]⟩
      · simp only [List.map_cons, allDistinct, Bool.and_eq_true, Bool.not_eq_true', i2, and_true]
        cases hc : (rest.map (·.1)).contains k with
        | false => rfl
        | true =>
          have hmem : k ∈ rest.map (·.1) := by simpa using hc
          have := i3 k hmem
          rw [hnow] at this; simp at this
      · intro k' hk'
        simp only [List.map_cons, List.mem_cons] at hk'
        rcases hk' with rfl | hk'
        · exact hns
        · have h3 := i3 k' hk'
          cases hc : seenKey seen k' with
          | false => rfl
          | true =>
            have : seenKey seen' k' = true := hmono k' hc
            rw [h3] at this; simp at this
    by_cases e1 : k = kCmwb
    · subst e1
      simp only [if_true] at h
      by_cases hs : seen.cmwb = true
      · simp [hs] at h
      · simp only [hs, Bool.false_eq_true, if_false] at h
        by_cases hv : v.isEmpty = true
        · simp only [hv, if_true] at h
          exact close _ _ h (by simp [knownKey]) (by simp [seenKey, hs]) (by simp [valueOk, d1, d2, d3, hv])
            (by simp [seenKey]) (fun k' hk' => seen_mono seen { seen with cmwb := true } (fun _ => rfl) id id id k' hk')
        · simp only [hv, Bool.false_eq_true, if_false] at h
          cases hb : bitsFromASCII v with
          | none => simp [hb] at h
          | some b =>
            simp only [hb] at h
            exact close _ _ h (by simp [knownKey]) (by simp [seenKey, hs])
              (by simp [valueOk, d1, d2, d3, bits_decimal v b hb]) (by simp [seenKey])
              (fun k' hk' => seen_mono seen { seen with cmwb := true } (fun _ => rfl) id id id k' hk')
    · simp only [e1, if_false] at h
      by_cases e2 : k = kSmwb
      · subst e2
        simp only [if_true] at h
        by_cases hv : v.isEmpty = true
        · simp [hv] at h
        · simp only [hv, Bool.false_eq_true, if_false] at h
          by_cases hs : seen.smwb = true
          · simp [hs] at h
          · simp only [hs, Bool.false_eq_true, if_false] at h
            cases hb : bitsFromASCII v with
            | none => simp [hb] at h
            | some b =>
              simp only [hb] at h
              exact close _ _ h (by simp [knownKey]) (by simp [seenKey, hs, Ne.symm d1])
                (by simp [valueOk, d4, d5, bits_decimal v b hb]) (by simp [seenKey, Ne.symm d1])
                (fun k' hk' => seen_mono seen { seen with smwb := true } id (fun _ => rfl) id id k' hk')
      · simp only [e2, if_false] at h
        by_cases e3 : k = kCnct
        · subst e3
          simp only [if_true] at h
          by_cases hv : v.isEmpty = true
          · simp only [hv, Bool.not_true, Bool.false_eq_true, if_false] at h
            by_cases hs : seen.cnct = true
            · simp [hs] at h
            · simp only [hs, Bool.false_eq_true, if_false] at h
              exact close _ _ h (by simp [knownKey]) (by simp [seenKey, hs, Ne.symm d2, Ne.symm d4])
                (by simp [valueOk, hv]) (by simp [seenKey, Ne.symm d2, Ne.symm d4])
                (fun k' hk' => seen_mono seen { seen with cnct := true } id id (fun _ => rfl) id k' hk')
          · simp [hv] at h
        · simp only [e3, if_false] at h
          by_cases e4 : k = kSnct
          · subst e4
            simp only [if_true] at h
            by_cases hv : v.isEmpty = true
            · simp only [hv, Bool.not_true, Bool.false_eq_true, if_false] at h
              by_cases hs : seen.snct = true
              · simp [hs] at h
              · simp only [hs, Bool.false_eq_true, if_false] at h
                exact close _ _ h (by simp [knownKey]) (by simp [seenKey, hs, Ne.symm d3, Ne.symm d5, Ne.symm d6])
                  (by simp [valueOk, hv]) (by simp [seenKey, Ne.symm d3, Ne.symm d5, Ne.symm d6])
                  (fun k' hk' => seen_mono seen { seen with snct := true } id id id (fun _ => rfl) k' hk')
            · simp [hv] at h
          · simp [e4] at h

/-- Offers with unknown, duplicated or ill-valued parameters are rejected as errors: whatever
    Parse accepts has only the four known parameter names, each at most once, with the
    *_no_context_takeover value-less and window values plain decimals in 8..15. -/
theorem parse_ok_wellformed (ps : List (Bytes × Bytes)) (p : Params) (h : parseParams ps = .ok p) :
    wellFormedParams ps = true := by
  unfold parseParams at h
  split at h
  · simp at h
  · rename_i q hq
    unfold parseParamsFull at hq
    obtain ⟨h1, h2, _, h4⟩ := go_ok ps {} q {} hq
    unfold wellFormedParams
    simp only [Bool.and_eq_true]
    refine ⟨⟨by simpa [knownKey] using h1, h2⟩, ?_⟩
    rw [List.all_eq_true] at h4 ⊢
    intro kv hkv
    have := h4 kv hkv
    obtain ⟨k, v⟩ := kv
    simpa [valueOk] using this

def validCfgs : List Params :=
  [false, true].flatMap fun s => [false, true].flatMap fun c =>
    [0, 8, 9, 10, 11, 12, 13, 14, 15].flatMap fun sb => [0, 1, 8, 9, 10, 11, 12, 13, 14, 15].map fun cb =>
      { snct := s, cnct := c, smwb := sb, cmwb := cb }

/-- Parameter encoding and parsing are mutual inverses on all 360 representable parameter sets. -/
theorem parse_option_tbl :
    (validCfgs.all fun p => match p.option with
      | some o => (match parseParams o.params with | .ok q => q == p | .error _ => false) && o.name == extName
      | none => false) = true := by decide +kernel

/-! Non-vacuity -/
example : CfgValid { smwb := 10, cmwb := 12 } := by decide
example : (negotiate { smwb := 12 } {} ⟨extName, [(kSmwb, strBytes "10")]⟩).1 = .none_ := by decide +kernel
example : isAccept (negotiate { smwb := 10 } {} ⟨extName, [(kSmwb, strBytes "12")]⟩).1 = true := by decide +kernel

end Ws.C14
