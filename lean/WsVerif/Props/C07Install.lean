/-
  C07 — which frames go through the UTF-8 validator is decided by the opcode of the MESSAGE alone:
  every accepted frame of a text message does (first frame or continuation, whatever reserved bits
  it carries, whatever its length), no frame of a binary message does.
-/
import WsVerif.Model.Reader
namespace Ws.C07
open Ws

/-- Accepting a data frame (no receive extension) installs the validator exactly when checking is on
    and the message this frame belongs to is a text message — the frame's own opcode for a first
    frame, the remembered opcode for a continuation. Nothing else (RSV bits, length, masking, FIN)
    enters the decision. -/
theorem validator_iff_text (r : Rd) (s s1 : Src) (cx : Ctx) (cb : Option Callback) (hdr : Header)
    (hh : readHeaderUtil s = (.ok hdr, s1))
    (hc : (if r.skipCheck then none else checkHeader hdr r.state) = none)
    (hmax : ¬ (r.maxFrame > 0 ∧ hdr.len > r.maxFrame)) (hext : r.ext = false)
    (hdata : opIsControl hdr.op = false) :
    (r.nextFrame s cx cb).2.2.1.utf8on
      = (r.checkUTF8 && (hdr.op == opText || (r.fragmented && r.opCode == opText))) := by
  unfold Rd.nextFrame
  simp only [hh, hc, hmax, hext, if_false, Bool.false_eq_true]
  simp only [Rd.fragmented, hdata, Bool.and_false, Bool.false_eq_true, if_false]
  by_cases hf : stIs r.state stFragmented = true
  · simp only [hf, if_true]
  · have hf' : stIs r.state stFragmented = false := by simpa using hf
    simp [hf']

/-- Non-vacuity, and the case the statement is about: an extended-state server reader with checking
    on accepts a masked final text frame carrying RSV2, and the validator is installed for it. -/
example :
    (Rd.nextFrame { state := 5, checkUTF8 := true } { chunks := [[0xa1, 0x81, 1, 2, 3, 4, 0xfe]], fin := .eof } {} none).2.1 = none
    ∧ (Rd.nextFrame { state := 5, checkUTF8 := true } { chunks := [[0xa1, 0x81, 1, 2, 3, 4, 0xfe]], fin := .eof } {} none).2.2.1.utf8on = true := by
  constructor <;> rfl

/-- A control frame met OUTSIDE a fragmented message (the reader hands it to the caller like a message of its
    own: ReadMessage returns it, ReadData answers it) is never put through the validator, whatever its opcode
    bits and payload: control payloads are not text. -/
theorem control_never_validated (r : Rd) (s s1 : Src) (cx : Ctx) (cb : Option Callback) (hdr : Header)
    (hh : readHeaderUtil s = (.ok hdr, s1))
    (hc : (if r.skipCheck then none else checkHeader hdr r.state) = none)
    (hmax : ¬ (r.maxFrame > 0 ∧ hdr.len > r.maxFrame)) (hext : r.ext = false)
    (hctl : opIsControl hdr.op = true) (hnf : r.fragmented = false) :
    (r.nextFrame s cx cb).2.2.1.utf8on = false := by
  have hne : (hdr.op == opText) = false := by
    cases hb : hdr.op == opText
    · rfl
    · have h1 : hdr.op = opText := by simpa using hb
      rw [h1] at hctl
      exact absurd hctl (by decide)
  have hfr : stIs r.state stFragmented = false := by simpa [Rd.fragmented] using hnf
  unfold Rd.nextFrame
  simp only [hh, hc, hmax, hext, if_false, Bool.false_eq_true]
  simp [Rd.fragmented, hfr, hne]

/-- a ping whose payload is not UTF-8, between messages, checking on: accepted, validator not installed -/
example :
    (Rd.nextFrame { state := 1, checkUTF8 := true } { chunks := [[0x89, 0x81, 0, 0, 0, 0, 0xff]], fin := .eof } {} none).2.1 = none
    ∧ (Rd.nextFrame { state := 1, checkUTF8 := true } { chunks := [[0x89, 0x81, 0, 0, 0, 0, 0xff]], fin := .eof } {} none).2.2.1.utf8on = false := by
  constructor <;> rfl

end Ws.C07
