/-
  C04 — Message reader reassembles every valid frame stream exactly under any chunking.
  (Work in progress: the per-read layer is proved here; the message-level refinement theorem
  `reader_refines_frames` is being built on top of it.)
-/
import WsVerif.Model.Helper
import WsVerif.Props.C02
namespace Ws.C04
open Ws Ws.Spec

/-- One read of the per-frame limited reader, described on the flat byte string: it hands out a
    prefix of what is left of the frame (at most k bytes, never past the frame's end), removes
    exactly those bytes from the transport, and reports io.ErrUnexpectedEOF — never a clean EOF —
    when the transport ends inside the frame. -/
theorem rawRead_flat (r : Rd) (s : Src) (k : Nat) :
    let res := r.rawRead s k
    res.1 ++ res.2.2.2.bytes = s.bytes
    ∧ res.1.length ≤ min k r.rawN
    ∧ res.2.2.1.rawN = r.rawN - res.1.length
    ∧ (res.2.1 = some .eof → res.2.2.1.rawN = 0) := by
  unfold Rd.rawRead
  by_cases h0 : r.rawN = 0
  · simp [h0]
  · simp only [h0, if_false]
    have hsplit := C02.src_read_split s (min k r.rawN)
    have hlen : (s.read (min k r.rawN)).1.length ≤ min k r.rawN := by
      unfold Src.read
      split
      · simp
      · split
        · simp only; assumption
        · simp only [List.length_take]; omega
    rcases hr : s.read (min k r.rawN) with ⟨got, e, s'⟩
    rw [hr] at hsplit hlen
    simp only at hsplit hlen ⊢
    refine ⟨hsplit, hlen, trivial, ?_⟩
    cases e with
    | none => simp
    | some f =>
      cases f with
      | fail => simp
      | eof =>
        by_cases hn : r.rawN - got.length > 0
        · simp [hn]
        · simp only [hn, if_false]; intro _; omega

/-- The bytes a frame read delivers are the §5.3 unmasking of the raw bytes it took from the
    transport, at the running offset inside the frame — whatever the chunking. -/
theorem frameRead_plain (r : Rd) (s : Src) (k : Nat) (hs : Bytes.WF s.bytes) (hm : r.mask.WF)
    (hu : r.utf8on = false) :
    ∃ bytes n e r' s', r.frameRead s k = some (bytes, n, e, r', s')
      ∧ n = bytes.length
      ∧ bytes = (if r.masked then xorSpec (r.rawRead s k).1 r.mask r.cpos else (r.rawRead s k).1)
      ∧ r'.cpos = (if r.masked then r.cpos + bytes.length else r.cpos)
      ∧ s'.bytes = (r.rawRead s k).2.2.2.bytes ∧ r'.rawN = (r.rawRead s k).2.2.1.rawN := by
  have hflat := rawRead_flat r s k
  unfold Rd.frameRead
  rcases hr : r.rawRead s k with ⟨got, e, r1, s1⟩
  rw [hr] at hflat
  simp only at hflat ⊢
  have hgot : Bytes.WF got := fun x hx => hs x (by rw [← hflat.1]; simp [hx])
  have hr1 : r1.masked = r.masked ∧ r1.mask = r.mask ∧ r1.cpos = r.cpos ∧ r1.utf8on = r.utf8on := by
    unfold Rd.rawRead at hr
    split at hr
    · simp only [Prod.mk.injEq] at hr; obtain ⟨_, _, h, _⟩ := hr; subst h; simp
    · simp only [Prod.mk.injEq] at hr; obtain ⟨_, _, h, _⟩ := hr; subst h; simp
  obtain ⟨a1, a2, a3, a4⟩ := hr1
  cases hmk : r.masked
  · simp only [a1, hmk, a4, hu, Bool.false_eq_true, if_false]
    exact ⟨_, _, _, _, _, rfl, rfl, rfl, a3, rfl, rfl⟩
  · simp only [a1, hmk, a2, a3, a4, hu, C02.cipher_eq_spec got hgot r.mask hm r.cpos, if_true,
      Bool.false_eq_true, if_false]
    refine ⟨_, _, _, _, _, rfl, rfl, rfl, ?_, rfl, rfl⟩
    simp [a3, xorSpec]

end Ws.C04
