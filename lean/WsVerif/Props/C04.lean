/-
  C04 — Message reader reassembles every valid frame stream exactly under any chunking.

  Per-read layer (`rawRead_flat`, `frameRead_plain`) and the message level:
  `message_delivered` — for every data message (any number of fragments, empty ones included,
  control frames interleaved anywhere, masked or not), every chunking of the transport (empty
  chunks and data-with-EOF included) and every sequence of positive caller buffer sizes, the bytes
  Reader.Read hands out are a prefix of the concatenation of the unmasked fragment payloads, in
  order; no error other than the final io.EOF is possible; the loop reaches that io.EOF after at
  most (bytes + chunks of the transport + 1) reads; at that point the whole message has been
  delivered, the transport stands exactly behind the message's last frame and the reader is in
  the state of a new reader (`Done`).
  Scope of the Lean statement (the rest of the property is carried by the stream oracle and the
  correspondence, DESIGN.md §0.3): reader without receive extension, CheckUTF8 off, OnIntermediate
  unset (interleaved control frames are skipped — their exact hand-over to a handler is C08 /
  oracle territory), transport that does not deliver its last bytes together with a *failure*.
-/
import WsVerif.Model.Helper
import WsVerif.Props.C02
import WsVerif.Proofs.Reader
namespace Ws.C04
open Ws Ws.Spec

/-- One read of the per-frame limited reader, described on the flat byte string: it hands out a
    prefix of what is left of the frame (at most k bytes, never past the frame's end), removes
    exactly those bytes from the transport, and reports io.ErrUnexpectedEOF — never a clean EOF —
    when the transport ends inside the frame. -/
theorem rawRead_flat (r : Rd) (s : Src) (k : Nat) :
    let res := r.rawRead s k
    res.1 ++ res.2.2.2.bytes = s.bytes
    ∧ res.1.length ≤ min k r.rawN
    ∧ res.2.2.1.rawN = r.rawN - res.1.length
    ∧ (res.2.1 = some .eof → res.2.2.1.rawN = 0) := by
  unfold Rd.rawRead
  by_cases h0 : r.rawN = 0
  · simp [h0]
  · simp only [h0, if_false]
    have hsplit := C02.src_read_split s (min k r.rawN)
    have hlen : (s.read (min k r.rawN)).1.length ≤ min k r.rawN := by
      unfold Src.read
      split
      · simp
      · split
        · simp only; assumption
        · simp only [List.length_take]; omega
    rcases hr : s.read (min k r.rawN) with ⟨got, e, s'⟩
    rw [hr] at hsplit hlen
    simp only at hsplit hlen ⊢
    refine ⟨hsplit, hlen, trivial, ?_⟩
    cases e with
    | none => simp
    | some f =>
      cases f with
      | fail => simp
      | eof =>
        by_cases hn : r.rawN - got.length > 0
        · simp [hn]
        · simp only [hn, if_false]; intro _; omega

/-- The bytes a frame read delivers are the §5.3 unmasking of the raw bytes it took from the
    transport, at the running offset inside the frame — whatever the chunking. -/
theorem frameRead_plain (r : Rd) (s : Src) (k : Nat) (hs : Bytes.WF s.bytes) (hm : r.mask.WF)
    (hu : r.utf8on = false) :
    ∃ bytes n e r' s', r.frameRead s k = some (bytes, n, e, r', s')
      ∧ n = bytes.length
      ∧ bytes = (if r.masked then xorSpec (r.rawRead s k).1 r.mask r.cpos else (r.rawRead s k).1)
      ∧ r'.cpos = (if r.masked then r.cpos + bytes.length else r.cpos)
      ∧ s'.bytes = (r.rawRead s k).2.2.2.bytes ∧ r'.rawN = (r.rawRead s k).2.2.1.rawN := by
  have hflat := rawRead_flat r s k
  unfold Rd.frameRead
  rcases hr : r.rawRead s k with ⟨got, e, r1, s1⟩
  rw [hr] at hflat
  simp only at hflat ⊢
  have hgot : Bytes.WF got := fun x hx => hs x (by rw [← hflat.1]; simp [hx])
  have hr1 : r1.masked = r.masked ∧ r1.mask = r.mask ∧ r1.cpos = r.cpos ∧ r1.utf8on = r.utf8on := by
    unfold Rd.rawRead at hr
    split at hr
    · simp only [Prod.mk.injEq] at hr; obtain ⟨_, _, h, _⟩ := hr; subst h; simp
    · simp only [Prod.mk.injEq] at hr; obtain ⟨_, _, h, _⟩ := hr; subst h; simp
  obtain ⟨a1, a2, a3, a4⟩ := hr1
  cases hmk : r.masked
  · simp only [a1, hmk, a4, hu, Bool.false_eq_true, if_false]
    exact ⟨_, _, _, _, _, rfl, rfl, rfl, a3, rfl, rfl⟩
  · simp only [a1, hmk, a2, a3, a4, hu, C02.cipher_eq_spec got hgot r.mask hm r.cpos, if_true,
      Bool.false_eq_true, if_false]
    refine ⟨_, _, _, _, _, rfl, rfl, rfl, ?_, rfl, rfl⟩
    simp [a3, xorSpec]


/-! ### whole messages -/

open Ws.RdProof

theorem stbits_tbl :
    ((List.range 256).all fun s =>
      stIs (stSet s stFragmented) stFragmented
      && (stSet (stSet s stFragmented) stFragmented == stSet s stFragmented)
      && !stIs (stClear (stSet s stFragmented) stFragmented) stFragmented
      && (stIs s stFragmented || stClear (stSet s stFragmented) stFragmented == s)) = true := by decide +kernel

theorem stbits (s : Nat) (h : s < 256) :
    stIs (stSet s stFragmented) stFragmented = true
    ∧ stSet (stSet s stFragmented) stFragmented = stSet s stFragmented
    ∧ stIs (stClear (stSet s stFragmented) stFragmented) stFragmented = false
    ∧ (stIs s stFragmented = false → stClear (stSet s stFragmented) stFragmented = s) := by
  have := List.all_eq_true.mp stbits_tbl s (List.mem_range.mpr h)
  simp only [Bool.and_eq_true, beq_iff_eq, Bool.not_eq_true', Bool.or_eq_true] at this
  obtain ⟨⟨⟨h1, h2⟩, h3⟩, h4⟩ := this
  refine ⟨h1, h2, h3, fun hf => ?_⟩
  rcases h4 with h4 | h4
  · rw [hf] at h4; exact absurd h4 (by decide)
  · exact h4

/-- the frames of one data message as the peer sends them: a first data frame `f0`; if it is not
    final, the rest `fs` (fragments and interleaved control frames, the final fragment last) -/
structure Message (r0 : Rd) (f0 : WFrame) (fs : List WFrame) : Prop where
  ok0 : f0.OK
  data0 : opIsControl f0.h.op = false
  acc0 : AcceptsAt r0.skipCheck r0.state r0.maxFrame f0.h
  rest : if f0.h.fin then fs = [] else Tail false r0.skipCheck (stSet r0.state stFragmented) r0.maxFrame fs

/-- Entering a message (any OnIntermediate handler): NextFrame installs the first frame and the
    stream invariant of Proofs/Reader holds with all of the message still to deliver. -/
theorem message_enter (r0 : Rd) (s : Src) (cx : Ctx) (cb : Option Callback) (f0 : WFrame) (fs : List WFrame) (rest : Bytes)
    (hnf : r0.fragmented = false) (hst : r0.state < 256)
    (hext : r0.ext = false) (hu8 : r0.checkUTF8 = false)
    (hm : Message r0 f0 fs)
    (hb : s.bytes = encodeFs (f0 :: fs) ++ rest) (hwf : Bytes.WF s.bytes) (htame : Src.Tame s) :
    ∃ s1, r0.nextFrame s cx cb = (some f0.h, none, enter r0 f0.h, s1, cx)
      ∧ Sync false r0.skipCheck (stSet r0.state stFragmented) r0.maxFrame rest (enter r0 f0.h) s1 (dataPlain (f0 :: fs)) fs
      ∧ mu s1 < mu s
      ∧ stClear (stSet r0.state stFragmented) stFragmented = r0.state := by
  obtain ⟨b1, b2, b3, b4⟩ := stbits r0.state hst
  have hfr0 : stIs r0.state stFragmented = false := by simpa [Rd.fragmented] using hnf
  have hbytes : s.bytes = rfcEncode f0.h ++ (f0.wire ++ (encodeFs fs ++ rest)) := by
    rw [hb]; simp [encodeFs, WFrame.enc, List.append_assoc]
  have hwt : Bytes.WF (f0.wire ++ (encodeFs fs ++ rest)) := by
    rw [hbytes] at hwf; exact wf_append_right hwf
  obtain ⟨s1, hrh, hb1, ht1, hmu1⟩ := readHeader_ok f0.h hm.ok0.hwf _ hwt s hbytes htame
  have hacc : Accepts r0 f0.h := hm.acc0
  have hnext := nextFrame_data r0 s s1 cx cb f0.h hrh hacc hext hm.data0
  let st := stSet r0.state stFragmented
  have hc : Common r0.skipCheck st r0.maxFrame (enter r0 f0.h) s1 :=
    ⟨by simp [enter, hext], by simp [enter, hu8], by simp [enter], by simp [enter], ht1, by rw [hb1]; exact hwt, b1, b2, b3⟩
  have hpl : plainOf (enter r0 f0.h) f0.wire = f0.plain := rfl
  have hsync : Sync false r0.skipCheck st r0.maxFrame rest (enter r0 f0.h) s1 (dataPlain (f0 :: fs)) fs := by
    have hrest := hm.rest
    by_cases hfin : f0.h.fin = true
    · simp only [hfin, if_true] at hrest
      subst hrest
      have : dataPlain [f0] = plainOf (enter r0 f0.h) f0.wire := by
        simp [dataPlain, hm.data0, hpl]
      rw [this]
      refine Sync.lastFrame _ s1 f0.wire hc ?_ ?_
      · exact ⟨by simp [enter], by simp [enter, hu8], by rw [hb1]; simp [encodeFs], by simp [enter, hm.ok0.len],
          by rw [hb1]; exact hwt, by simp [enter]; exact hm.ok0.mwf, ht1⟩
      · simp [enter, hfin, st, b4 hfr0]
        have : stClear r0.state stFragmented = r0.state := by
          have h1 := b4 hfr0
          -- clearing a bit that is not set changes nothing
          have := List.all_eq_true.mp (by decide +kernel :
            ((List.range 256).all fun s => stIs s stFragmented || stClear s stFragmented == s) = true) r0.state (List.mem_range.mpr hst)
          simp only [Bool.or_eq_true, beq_iff_eq] at this
          rcases this with h | h
          · rw [hfr0] at h; exact absurd h (by decide)
          · exact h
        exact this
    · have hfin' : f0.h.fin = false := by simpa using hfin
      simp only [hfin', Bool.false_eq_true, if_false] at hrest
      have : dataPlain (f0 :: fs) = plainOf (enter r0 f0.h) f0.wire ++ dataPlain fs := by
        simp [dataPlain, hm.data0, hpl]
      rw [this]
      refine Sync.mid _ s1 f0.wire fs hc ?_ (by simp [enter, hfin', st]) hrest
      exact ⟨by simp [enter], by simp [enter, hu8], hb1, by simp [enter, hm.ok0.len],
          by rw [hb1]; exact hwt, by simp [enter]; exact hm.ok0.mwf, ht1⟩
  exact ⟨s1, hnext, hsync, hmu1, b4 hfr0⟩

/-- **C04, message level.** See the file header. -/
theorem message_delivered (r0 : Rd) (s : Src) (cx : Ctx) (f0 : WFrame) (fs : List WFrame) (rest : Bytes)
    (ks : List Nat) (hpos : ∀ k ∈ ks, 0 < k)
    (hidle : r0.hasFrame = false) (hnf : r0.fragmented = false) (hst : r0.state < 256)
    (hext : r0.ext = false) (hu8 : r0.checkUTF8 = false)
    (hm : Message r0 f0 fs)
    (hb : s.bytes = encodeFs (f0 :: fs) ++ rest) (hwf : Bytes.WF s.bytes) (htame : Src.Tame s) :
    ∃ r1 s1 out e r' s',
      r0.nextFrame s cx none = (some f0.h, none, r1, s1, cx) ∧ r1.hasFrame = true
      ∧ reads r1 s1 cx ks = some (out, e, r', s', cx)
      ∧ (∃ more, dataPlain (f0 :: fs) = out ++ more)
      ∧ (e = none ∨ e = some .eof)
      ∧ (e = some .eof → out = dataPlain (f0 :: fs) ∧ s'.bytes = rest ∧ Done (stSet r0.state stFragmented) r0 r'
                          ∧ r'.state = r0.state)
      ∧ (mu s < ks.length → e = some .eof) := by
  obtain ⟨s1, hnext, hsync, hmu1, hb4⟩ := message_enter r0 s cx none f0 fs rest hnf hst hext hu8 hm hb hwf htame
  let st := stSet r0.state stFragmented
  have key := reads_sync false r0.skipCheck st r0.maxFrame rest ks hpos _ s1 cx _ _ hsync
  have key' : ∃ out e r' s', reads (enter r0 f0.h) s1 cx ks = some (out, e, r', s', cx) ∧
      ((e = none ∧ ∃ rem' fs', dataPlain (f0 :: fs) = out ++ rem' ∧ Sync false r0.skipCheck st r0.maxFrame rest r' s' rem' fs'
          ∧ weight r' s' + ks.length ≤ weight (enter r0 f0.h) s1)
       ∨ (e = some .eof ∧ dataPlain (f0 :: fs) = out ∧ s'.bytes = rest ∧ Src.Tame s' ∧ Done st (enter r0 f0.h) r')) := by
    rcases key with h | ⟨_, _, _, _, _, _, _, _, _, hend⟩
    · exact h
    · exact absurd hend.opn (by decide)
  obtain ⟨out, e, r', s', hrd, hcase⟩ := key'
  refine ⟨enter r0 f0.h, s1, out, e, r', s', hnext, rfl, hrd, ?_, ?_, ?_, ?_⟩
  · rcases hcase with ⟨_, rem', _, h1, _, _⟩ | ⟨_, h1, _⟩
    · exact ⟨rem', h1⟩
    · exact ⟨[], by rw [h1]; simp⟩
  · rcases hcase with ⟨h1, _⟩ | ⟨h1, _⟩
    · exact Or.inl h1
    · exact Or.inr h1
  · intro he
    rcases hcase with ⟨h1, _⟩ | ⟨_, h1, h2, _, h4⟩
    · rw [h1] at he; exact absurd he (by simp)
    · refine ⟨h1.symm, h2, ?_, ?_⟩
      · exact ⟨h4.has, h4.state, h4.op, h4.u8, h4.raw, h4.u8on, by simpa [enter] using h4.cfg⟩
      · rw [h4.state]; exact hb4
  · intro hlen
    rcases hcase with ⟨_, _, _, _, _, hw⟩ | ⟨h1, _⟩
    · exfalso
      have : weight (enter r0 f0.h) s1 = mu s1 + 1 := by simp [weight, enter]
      omega
    · exact h1

/-! Non-vacuity: a server-side reader, a masked text message in three fragments (the middle one
    empty) with a masked ping between them, followed by the first bytes of the next frame; the
    transport delivers it in chunks that cut the header, the mask and a payload, with an empty
    chunk and the last data arriving together with io.EOF; the caller reads with buffers 1, 2, 64, … -/
def exF0 : WFrame := ⟨⟨false, 0, 1, true, ⟨1, 2, 3, 4⟩, 3⟩, [0x69, 0x67, 0x6f]⟩          -- "hel" masked
def exPing : WFrame := ⟨⟨true, 0, 9, true, ⟨9, 9, 9, 9⟩, 2⟩, [0x79, 0x70]⟩
def exF1 : WFrame := ⟨⟨false, 0, 0, true, ⟨0, 0, 0, 0⟩, 0⟩, []⟩
def exF2 : WFrame := ⟨⟨true, 0, 0, true, ⟨5, 6, 7, 8⟩, 2⟩, [0x69, 0x69]⟩                 -- "lo" masked
def exR0 : Rd := { state := 1 }
def exBytes : Bytes := encodeFs [exF0, exPing, exF1, exF2] ++ [0x81, 0x85]
def exSrc : Src := { chunks := [exBytes.take 1, exBytes.drop 1 |>.take 4, [], exBytes.drop 5 |>.take 3, exBytes.drop 8], fin := .eof, dataWithFin := true }

example : Message exR0 exF0 [exPing, exF1, exF2] := by
  refine ⟨⟨by decide, by decide, by decide, by decide⟩, by decide, ⟨by decide, by decide⟩, ?_⟩
  show Tail false false 9 0 [exPing, exF1, exF2]
  refine Tail.ctl _ _ ⟨by decide, by decide, by decide, by decide⟩ (by decide) ⟨by decide, by decide⟩ ?_
  refine Tail.cont _ _ ⟨by decide, by decide, by decide, by decide⟩ (by decide) (by decide) ⟨by decide, by decide⟩ ?_
  exact Tail.last _ ⟨by decide, by decide, by decide, by decide⟩ (by decide) (by decide) ⟨by decide, by decide⟩
example : exSrc.bytes = exBytes ∧ Bytes.WF exSrc.bytes ∧ Src.Tame exSrc := by
  refine ⟨by decide, by decide, fun _ => rfl⟩
example :
    (match exR0.nextFrame exSrc {} none with
     | (_, _, r1, s1, cx) => (reads r1 s1 cx [1, 2, 64, 64, 64, 64, 64, 64, 64]).map fun x => (x.1, x.2.1, x.2.2.2.1.bytes))
      = some ([0x68, 0x65, 0x6c, 0x6c, 0x6f], some .eof, [0x81, 0x85]) := by decide

end Ws.C04
