/-
  C16 at the helper level — the `wsutil.ReadData` family on a stream that ENDS inside the payload of the
  message it was asked for (after any history of pings and unwanted messages): the helper never returns the
  partial payload as a message — its error is io.ErrUnexpectedEOF when the transport ended, the transport's
  own failure when it failed — for every chunking of what did arrive.
-/
import WsVerif.Props.C08ReadData
import WsVerif.Props.C16DiscardMsg
namespace Ws.C16
open Ws Ws.Spec Ws.RdProof Ws.RdText Ws.C06 Ws.C08 Ws.C07 Ws.C04

/-- read-until-error over a cut frame: the error is never the clean end -/
theorem pull_cut (cb : Option Callback) (k : Nat) (hk : 0 < k) (fuel : Nat) :
    ∀ (r : Rd) (s : Src) (cx : Ctx) (acc : List Bytes), CutFrame r s → mu s + 1 < fuel →
      ∃ chunks e r' s', Rd.pull true k cb fuel r s cx acc = (chunks, e, r', s', cx)
        ∧ ((e = .ueof ∧ s.fin = .eof) ∨ (e = .fail ∧ s.fin = .fail)) := by
  induction fuel with
  | zero => intro r s cx acc _ hf; omega
  | succ n ih =>
    intro r s cx acc hc hf
    obtain ⟨got, e, s1, hread, _, hfin, hcase⟩ := read_cut r s cx cb k hc hk
    rw [Rd.pull]
    simp only [if_true, hread]
    rcases hcase with ⟨he, hmu, hc1⟩ | ⟨he, hfe⟩ | ⟨he, hfe⟩
    · subst he
      simp only
      obtain ⟨chunks, e2, r', s', hp, hcase2⟩ := ih (adv r got.length) s1 cx _ hc1 (by omega)
      rw [hfin] at hcase2
      exact ⟨chunks, e2, r', s', hp, hcase2⟩
    · subst he
      exact ⟨_, _, _, _, rfl, Or.inl ⟨rfl, hfe⟩⟩
    · subst he
      exact ⟨_, _, _, _, rfl, Or.inr ⟨rfl, hfe⟩⟩

/-- the loop on a wanted non-text message whose payload is cut, from any idle reader -/
theorem loop_cut (state want : Nat) (errText : ProtoErr → Bytes) (client : Bool) (inter : Callback)
    (r0 : Rd) (s : Src) (cx : Ctx) (fuel : Nat) (h : Header) (part : Bytes)
    (hi : Idle state r0) (hnf : stIs state stFragmented = false)
    (hhwf : h.WF) (hdata : opIsControl h.op = false) (hnt : h.op ≠ opText)
    (hwant : (h.op &&& want == 0) = false)
    (hacc : checkHeader h state = none)
    (hcut : part.length < h.len)
    (hb : s.bytes = rfcEncode h ++ part) (hwf : Bytes.WF s.bytes) (htame : Src.Tame s) :
    ((readData.loop want errText client inter (fuel + 1) r0 s cx).2.2.1 = some .ueof ∧ s.fin = .eof)
    ∨ ((readData.loop want errText client inter (fuel + 1) r0 s cx).2.2.1 = some .fail ∧ s.fin = .fail) := by
  have hwt : Bytes.WF part := by rw [hb] at hwf; exact wf_append_right hwf
  have hb0 : s.bytes = rfcEncode h ++ (part ++ []) := by simpa using hb
  obtain ⟨s1, hrh, hb1, ht1, hmu1⟩ := readHeader_ok h hhwf _ (by simpa using hwt) s hb0 htame
  have hb1' : s1.bytes = part := by simpa using hb1
  have haccept : Accepts r0 h := ⟨by simp [hi.skip, hi.st, hacc], by simp [hi.maxF]⟩
  have hnext := nextFrame_data r0 s s1 cx (some inter) h hrh haccept hi.ext hdata
  have hcf : CutFrame (enter r0 h) s1 :=
    ⟨by simp [enter], by simp [enter, hnt, Rd.fragmented, hi.st, hnf], by simp [enter, hb1']; exact hcut, by rw [hb1']; exact hwt, by simp [enter]; exact hhwf.2.2.2.1⟩
  obtain ⟨chunks, e, r', s', hp, hcase⟩ := pull_cut (some inter) 512 (by decide) (pullFuel s1) (enter r0 h) s1 cx [] hcf
    (by unfold pullFuel Src.fuel mu; omega)
  have hfin1 : s1.fin = s.fin := by have := readHeaderUtil_fin s; rw [hrh] at this; exact this
  rw [readData.loop]
  simp only [hnext, hdata, Bool.false_eq_true, if_false, hwant]
  unfold readAllRd
  rw [hp]
  rcases hcase with ⟨he, hf⟩ | ⟨he, hf⟩
  · left; subst he; exact ⟨by simp, by rw [← hfin1]; exact hf⟩
  · right; subst he; exact ⟨by simp, by rw [← hfin1]; exact hf⟩

/-- **ReadData never takes a cut message for a whole one** — after any history of pings and unwanted messages the
    wanted message's payload is cut short: the result is io.ErrUnexpectedEOF (transport ended) or the transport's
    failure, for every chunking of the bytes that did arrive. -/
theorem readData_cut_never_succeeds (state want : Nat) (errText : ProtoErr → Bytes) (s : Src) (env : Env) (fuel : Nat)
    (items : List Item) (h : Header) (part : Bytes)
    (hst : state < 256) (hnf : stIs state stFragmented = false) (he : EnvOk env)
    (hall : ∀ it ∈ items, it.Good state want)
    (hhwf : h.WF) (hdata : opIsControl h.op = false) (hnt : h.op ≠ opText)
    (hwant : (h.op &&& want == 0) = false)
    (hacc : checkHeader h state = none)
    (hcut : part.length < h.len)
    (hb : s.bytes = encodeFs (items.map Item.frame) ++ (rfcEncode h ++ part)) (hwf : Bytes.WF s.bytes) (htame : Src.Tame s) :
    (readData state want errText s env (fuel + 1 + items.length)).2.2.1 = some .ueof
    ∨ (readData state want errText s env (fuel + 1 + items.length)).2.2.1 = some .fail := by
  unfold readData
  simp only
  generalize controlFrameHandler (stIs state stClient) errText false none = inter
  obtain ⟨r2, s2, cx2, ws, h2, hi2, hb2, hwf2, ht2, _, _, _, _⟩ := loop_history state want errText inter (fuel + 1)
    (rfcEncode h ++ part) hst hnf items hall _ s { env } (idle_init state) he hb hwf htame
  rw [h2]
  rcases loop_cut state want errText (stIs state stClient) inter r2 s2 cx2 fuel h part hi2 hnf hhwf hdata hnt hwant hacc hcut hb2 hwf2 ht2
    with ⟨h3, _⟩ | ⟨h3, _⟩
  · exact Or.inl h3
  · exact Or.inr h3

end Ws.C16
