/-
  C07 — Text messages are accepted iff their whole payload is valid UTF-8.
  Part 1 (this section): the DFA table and the standalone validating reader against Table 3-7,
  for every byte string and every chunking. Part 2 (the reader, stream level) is in Props/C07Stream.lean.
-/
import WsVerif.Proofs.Utf8
namespace Ws.C07
open Ws Ws.Spec

/-- Every one of the 9 × 256 transitions of utf8d is the Table 3-7 transition. -/
theorem table_ok (s : U8) (b : Nat) (hb : b < 256) :
    utf8Step (u8Enc s) b = some (u8Enc (u8Step s b)) := utf8Step_ok s hb

/-- Run of the Go DFA from a state over a byte string (`none` = index panic). -/
def utf8Run : Nat → Bytes → Option Nat
  | s, [] => some s
  | s, b :: bs => match utf8Step s b with
    | none => none
    | some s' => utf8Run s' bs

/-- The DFA never indexes out of its table and tracks the Table 3-7 position exactly. -/
theorem run_ok (s : U8) (bs : Bytes) (hb : Bytes.WF bs) :
    utf8Run (u8Enc s) bs = some (u8Enc (u8Run s bs)) := by
  induction bs generalizing s with
  | nil => rfl
  | cons b bs ih =>
    have hb0 : b < 256 := hb b (by simp)
    simp only [utf8Run, table_ok s b hb0, u8Run_cons]
    exact ih _ (fun x hx => hb x (by simp [hx]))

/-- The DFA ends in ACCEPT exactly on well-formed UTF-8 (no overlongs, no surrogates, nothing
    above U+10FFFF). -/
theorem dfa_iff (bs : Bytes) (hb : Bytes.WF bs) : utf8Run utf8Accept bs = some utf8Accept ↔ wfUtf8 bs = true := by
  have := run_ok .acc bs hb
  simp only [u8Enc] at this
  unfold utf8Accept wfUtf8
  rw [this]
  constructor
  · intro h
    have : u8Enc (u8Run .acc bs) = u8Enc .acc := by simpa [u8Enc] using h
    simp [u8Enc_inj this]
  · intro h
    have : u8Run .acc bs = .acc := by simpa using h
    simp [this, u8Enc]

/-- REJECT is sticky. -/
theorem dfa_reject_sticky (bs : Bytes) (hb : Bytes.WF bs) : utf8Run utf8Reject bs = some utf8Reject := by
  have := run_ok .rej bs hb
  simpa [u8Enc, u8Run_rej, utf8Reject] using this

/-- Validity does not depend on where the byte string is split — in the middle of a code point
    included. -/
theorem dfa_split (s : U8) (a b : Bytes) : u8Run s (a ++ b) = u8Run (u8Run s a) b := u8Run_append s a b

/-! ### the standalone validating reader -/

theorem feed_go (u : Utf8Rd) (s : U8) (acc i : Nat) (p : Bytes) (hp : Bytes.WF p) :
    ∃ n bad u', Utf8Rd.feed.go u (u8Enc s) acc i p = some (n, bad, u')
      ∧ u'.state = u8Enc (u8Run s p) ∧ (bad = true → u8Run s p = .rej) := by
  induction p generalizing s acc i with
  | nil => exact ⟨_, _, _, rfl, rfl, by simp⟩
  | cons b bs ih =>
    have hb0 : b < 256 := hp b (by simp)
    simp only [Utf8Rd.feed.go, table_ok s b hb0, u8Run_cons]
    by_cases hr : u8Enc (u8Step s b) = utf8Reject
    · have : u8Step s b = .rej := u8Enc_inj (by simpa [u8Enc, utf8Reject] using hr)
      simp only [hr, if_true]
      refine ⟨_, _, _, rfl, ?_, ?_⟩
      · simp [this, u8Run_rej, u8Enc, utf8Reject]
      · intro _; simp [this, u8Run_rej]
    · simp only [hr, if_false]
      exact ih _ _ _ (fun x hx => hp x (by simp [hx]))

/-- One Read of the validating reader moves its state exactly along Table 3-7, whatever the
    previous reads were. -/
theorem feed_state (u : Utf8Rd) (s : U8) (hs : u.state = u8Enc s) (p : Bytes) (hp : Bytes.WF p) :
    ∃ n bad u', u.feed p = some (n, bad, u') ∧ u'.state = u8Enc (u8Run s p) := by
  unfold Utf8Rd.feed
  rw [hs]
  obtain ⟨n, bad, u', h1, h2, _⟩ := feed_go u s 0 0 p hp
  exact ⟨n, bad, u', h1, h2⟩

/-- Feed a fresh validating reader the chunks of any chunking, one Read per chunk. -/
def feedAll (u : Utf8Rd) : List Bytes → Option Utf8Rd
  | [] => some u
  | c :: cs => match u.feed c with
    | none => none
    | some (_, _, u') => feedAll u' cs

/-- The validating reader's verdict after reading a byte string in any chunking is the standard
    definition of UTF-8 validity. -/
theorem utf8reader_any_chunking (cs : List Bytes) (hc : Bytes.WF cs.flatten) :
    ∃ u, feedAll {} cs = some u ∧ (u.valid = wfUtf8 cs.flatten) := by
  suffices h : ∀ (cs : List Bytes) (u0 : Utf8Rd) (s : U8), u0.state = u8Enc s → Bytes.WF cs.flatten →
      ∃ u, feedAll u0 cs = some u ∧ u.state = u8Enc (u8Run s cs.flatten) by
    obtain ⟨u, h1, h2⟩ := h cs {} .acc rfl hc
    refine ⟨u, h1, ?_⟩
    unfold Utf8Rd.valid wfUtf8 utf8Accept
    rw [h2]
    cases hr : u8Run .acc cs.flatten <;> simp [u8Enc]
  intro cs
  induction cs with
  | nil => intro u0 s hs _; exact ⟨u0, rfl, by simpa [u8Run] using hs⟩
  | cons c cs ih =>
    intro u0 s hs hw
    have hwc : Bytes.WF c := fun x hx => hw x (by simp [hx])
    have hwr : Bytes.WF cs.flatten := fun x hx => hw x (by
      simp only [List.flatten_cons, List.mem_append]; exact Or.inr hx)
    obtain ⟨n, bad, u', h1, h2⟩ := feed_state u0 s hs c hwc
    obtain ⟨u, g1, g2⟩ := ih u' (u8Run s c) h2 hwr
    refine ⟨u, by simp [feedAll, h1, g1], ?_⟩
    rw [g2, List.flatten_cons, u8Run_append]

/-! Non-vacuity: "é" split in the middle of its two bytes is valid; an overlong slash and a
    surrogate are not. -/
example : wfUtf8 [0xC3, 0xA9] = true ∧ wfUtf8 [0xC0, 0xAF] = false ∧ wfUtf8 [0xED, 0xA0, 0x80] = false
    ∧ wfUtf8 [0xF4, 0x90, 0x80, 0x80] = false := by decide
example : (feedAll {} [[0xC3], [0xA9]]).map (·.valid) = some true := by decide

end Ws.C07
