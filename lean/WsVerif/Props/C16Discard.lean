/-
  C16 — skipping a message is no way around a cut transport either: `Reader.Discard()` on a frame
  whose payload the transport does not hold in full reports io.ErrUnexpectedEOF (clean end of
  stream) or the transport's own failure — never nil, never io.EOF — for every chunking.
-/
import WsVerif.Props.C16
namespace Ws.C16
open Ws Ws.RdProof

/-- `io.Copy(ioutil.Discard, &r.raw)` over a transport that holds fewer bytes than the frame still
    announces. -/
theorem drainRaw_cut (fuel : Nat) (r : Rd) (s : Src) (hshort : s.bytes.length < r.rawN) (hf : mu s < fuel) :
    ((r.drainRaw s fuel).1 = some .ueof ∧ s.fin = .eof) ∨ ((r.drainRaw s fuel).1 = some .fail ∧ s.fin = .fail) := by
  induction fuel generalizing r s with
  | zero => omega
  | succ fuel ih =>
    have hrn : r.rawN ≠ 0 := by omega
    have hsplit := C02.src_read_split s (min 32768 r.rawN)
    have hfin := src_read_fin s (min 32768 r.rawN)
    unfold Rd.drainRaw Rd.rawRead
    simp only [hrn, if_false]
    rcases hr : s.read (min 32768 r.rawN) with ⟨got, e, s1⟩
    rw [hr] at hsplit hfin
    simp only at hsplit hfin ⊢
    have hgl : got.length ≤ s.bytes.length := by rw [← hsplit]; simp
    have hleft : r.rawN - got.length > 0 := by omega
    have hb1 : s1.bytes.length = s.bytes.length - got.length := by rw [← hsplit]; simp
    cases e with
    | none =>
      have hne : s.chunks ≠ [] := by
        intro hc
        have : (s.read (min 32768 r.rawN)).2.1 = some s.fin := by unfold Src.read; simp [hc]
        rw [hr] at this; simp at this
      have hmu := src_read_mu s (min 32768 r.rawN) (by omega) hne
      rw [hr] at hmu
      simp only at hmu
      have hguard : ¬ (got.isEmpty = true ∧ r.rawN - got.length = r.rawN ∧ s1.chunks.length = s.chunks.length) := by
        intro ⟨h1, _, h3⟩
        have hg : got = [] := List.isEmpty_iff.mp h1
        subst hg
        simp only [mu, List.length_nil, Nat.sub_zero] at hmu hb1
        omega
      simp only [hguard, if_false]
      have := ih { r with rawN := r.rawN - got.length } s1 (by simp only; omega) (by omega)
      rw [hfin.1] at this
      exact this
    | some f =>
      have he : (s.read (min 32768 r.rawN)).2.1 = some f := by rw [hr]
      have hsf := (src_read_err s (min 32768 r.rawN) f he).2
      cases f with
      | eof => left; simp [hleft]; exact hsf.symm
      | fail => right; simp; exact hsf.symm

/-- **Discard of a cut frame**: the error is io.ErrUnexpectedEOF when the transport ended, the
    transport's failure when it failed — in particular never nil, so `Discard` (and the helpers that
    skip messages of the other type) cannot take a cut message for a skipped one. -/
theorem discard_cut (r : Rd) (s : Src) (cx : Ctx) (cb : Option Callback) (fuel : Nat)
    (hshort : s.bytes.length < r.rawN) :
    ((r.discard s cx cb (fuel + 1)).1 = some .ueof ∧ s.fin = .eof)
    ∨ ((r.discard s cx cb (fuel + 1)).1 = some .fail ∧ s.fin = .fail) := by
  have h := drainRaw_cut s.fuel r s hshort (by unfold Src.fuel mu; omega)
  unfold Rd.discard
  rcases hd : r.drainRaw s s.fuel with ⟨e, r1, s1⟩
  rw [hd] at h
  simp only at h ⊢
  rcases h with ⟨he, hf⟩ | ⟨he, hf⟩
  · subst he; exact Or.inl ⟨rfl, hf⟩
  · subst he; exact Or.inr ⟨rfl, hf⟩

/-- Non-vacuity: a masked 5-byte frame of which 2 bytes arrived, the stream then ending cleanly. -/
example : (Rd.discard { state := 1, hasFrame := true, rawN := 5, masked := true, mask := ⟨1, 2, 3, 4⟩ }
    { chunks := [[9], [8]], fin := .eof } {} none 3).1 = some .ueof := by rfl

/-- draining never changes how the transport will end -/
theorem drainRaw_fin (fuel : Nat) (r : Rd) (s : Src) : (r.drainRaw s fuel).2.2.fin = s.fin := by
  induction fuel generalizing r s with
  | zero => rfl
  | succ n ih =>
    unfold Rd.drainRaw Rd.rawRead
    by_cases h0 : r.rawN = 0
    · simp [h0]
    · simp only [h0, if_false]
      have hfin := (src_read_fin s (min 32768 r.rawN)).1
      rcases hr : s.read (min 32768 r.rawN) with ⟨got, e, s1⟩
      rw [hr] at hfin
      simp only at hfin ⊢
      cases e with
      | none =>
        simp only
        by_cases hg : (got.isEmpty = true ∧ r.rawN - got.length = r.rawN ∧ s1.chunks.length = s.chunks.length)
        · rw [if_pos hg]; exact hfin
        · rw [if_neg hg, ih]; exact hfin
      | some f =>
        cases f with
        | eof =>
          simp only
          by_cases hl : r.rawN - got.length > 0
          · simp only [hl, if_true]; exact hfin
          · simp only [hl, if_false]; exact hfin
        | fail => exact hfin

/-- **Discard when the stream ends cleanly between two fragments** (the current, non-final frame is
    complete, nothing follows): io.ErrUnexpectedEOF — the message was cut, it was not skipped. -/
theorem discard_ends_between_fragments (r : Rd) (s : Src) (cx : Ctx) (cb : Option Callback) (fuel : Nat)
    (hfrag : r.fragmented = true) (hn : r.rawN = s.bytes.length) (htame : Src.Tame s) (hfin : s.fin = .eof) :
    (r.discard s cx cb (fuel + 1)).1 = some .ueof := by
  obtain ⟨s', hd, hb, _, _, _⟩ := drainRaw_ok s.fuel r s s.bytes [] (by simp) hn htame (by unfold Src.fuel mu; omega)
  have hf' : s'.fin = .eof := by
    have := drainRaw_fin s.fuel r s
    rw [hd] at this
    simpa [hfin] using this
  have hfr : ({ r with rawN := 0 } : Rd).fragmented = true := by simpa [Rd.fragmented] using hfrag
  have hnf := cut_between_fragments_is_error { r with rawN := 0 } s' cx cb hfr hb hf'
  unfold Rd.discard
  simp only [hd, hfr, Bool.not_true, Bool.false_eq_true, if_false]
  rcases hx : ({ r with rawN := 0 } : Rd).nextFrame s' cx cb with ⟨h, e2, r2, s2, cx2⟩
  rw [hx] at hnf
  simp only at hnf ⊢
  subst hnf
  rfl

end Ws.C16
