/-
  C07 — the verdict at the end of a text message does not depend on what the transport says along
  with the last bytes: whenever a Read leaves the reader at the end of the final frame of a message
  (nothing left of the frame, no fragment to follow) with checking on and the text NOT ending on a
  character boundary, the error that Read returned is ErrInvalidUTF8 — in particular never nil, never
  io.EOF, and not the transport's own failure (which helpers like io.ReadFull drop once their
  buffer is full: the defect F20 repaired in /repo).
-/
import WsVerif.Model.Helper
namespace Ws.C07
open Ws

theorem end_of_invalid_text_is_reported (r : Rd) (s : Src) (cx : Ctx) (k : Nat) (cb : Option Callback)
    (hhas : r.hasFrame = true)
    (bytes : Bytes) (n : Nat) (e : Option RErr) (r' : Rd) (s' : Src) (cx' : Ctx)
    (h : r.read s cx k cb = some (bytes, n, e, r', s', cx'))
    (hraw : r'.rawN = 0) (hfin : r'.fragmented = false) (hchk : r'.checkUTF8 = true) (hinv : r'.utf8.valid = false) :
    e = some .utf8 := by
  unfold Rd.read at h
  simp only [hhas, Bool.not_true, Bool.false_eq_true, if_false] at h
  rcases hfr : r.frameRead s k with _ | ⟨p, n0, e0, r2, s2⟩
  · rw [hfr] at h; simp at h
  rw [hfr] at h
  simp only at h
  have key : ∀ (isn : Bool),
      (if (isn && r2.rawN != 0) = true then some (p, n0, (none : Option RErr), r2, s2, cx)
        else if (r2.rawN != 0) = true then some (p, n0, some .ueof, r2, s2, cx)
        else if r2.fragmented = true then some (p, n0, none, r2.resetFragment, s2, cx)
        else if (r2.checkUTF8 && !r2.utf8.valid) = true then some (p, r2.utf8.accepted, some .utf8, r2, s2, cx)
        else some (p, n0, some .eof, r2.reset, s2, cx)) = some (bytes, n, e, r', s', cx') → e = some .utf8 := by
    intro isn hh
    by_cases c1 : (isn && r2.rawN != 0) = true
    · rw [if_pos c1] at hh
      simp only [Option.some.injEq, Prod.mk.injEq] at hh
      obtain ⟨_, _, _, rfl, _⟩ := hh
      simp [hraw] at c1
    · rw [if_neg c1] at hh
      by_cases c2 : (r2.rawN != 0) = true
      · rw [if_pos c2] at hh
        simp only [Option.some.injEq, Prod.mk.injEq] at hh
        obtain ⟨_, _, _, rfl, _⟩ := hh
        simp [hraw] at c2
      · rw [if_neg c2] at hh
        by_cases c3 : r2.fragmented = true
        · rw [if_pos c3] at hh
          simp only [Option.some.injEq, Prod.mk.injEq] at hh
          obtain ⟨_, _, _, rfl, _⟩ := hh
          have : r2.resetFragment.fragmented = r2.fragmented := rfl
          rw [this, c3] at hfin; cases hfin
        · rw [if_neg c3] at hh
          by_cases c4 : (r2.checkUTF8 && !r2.utf8.valid) = true
          · rw [if_pos c4] at hh
            simp only [Option.some.injEq, Prod.mk.injEq] at hh
            exact hh.2.2.1.symm
          · rw [if_neg c4] at hh
            simp only [Option.some.injEq, Prod.mk.injEq] at hh
            obtain ⟨_, _, _, rfl, _⟩ := hh
            have : r2.reset.utf8.valid = true := rfl
            rw [this] at hinv; cases hinv
  have oth : ∀ x : RErr,
      (if (x != RErr.utf8 && r2.rawN == 0 && !r2.fragmented && r2.checkUTF8 && !r2.utf8.valid) = true then
          some (p, r2.utf8.accepted, some RErr.utf8, r2, s2, cx)
        else some (p, n0, some x, r2, s2, cx)) = some (bytes, n, e, r', s', cx') → e = some .utf8 := by
    intro x hh
    by_cases hc : (x != RErr.utf8 && r2.rawN == 0 && !r2.fragmented && r2.checkUTF8 && !r2.utf8.valid) = true
    · rw [if_pos hc] at hh
      simp only [Option.some.injEq, Prod.mk.injEq] at hh
      exact hh.2.2.1.symm
    · rw [if_neg hc] at hh
      simp only [Option.some.injEq, Prod.mk.injEq] at hh
      obtain ⟨_, _, rfl, rfl, _⟩ := hh
      -- everything but the first conjunct of the condition holds, so the error itself is ErrInvalidUTF8
      simp only [hraw, hfin, hchk, hinv, beq_self_eq_true, Bool.not_false, Bool.and_true] at hc
      have h1 : (x != RErr.utf8) = false := by simpa using hc
      have h2 : x = .utf8 := by simpa using h1
      rw [h2]
  cases e0 with
  | none => exact key true (by simpa using h)
  | some e1 =>
    cases e1 with
    | eof => exact key false (by simpa using h)
    | _ => exact oth _ h

/-- The witness of F20 on the repaired model: a client-side ReadMessage, an unmasked final text frame whose
    one payload byte 0xC3 opens a two-byte character, the transport handing that byte over TOGETHER with
    a failure. Before the repair the result was ([(1, [0xc3])], nil): io.ReadFull had its one byte and
    dropped the transport's error, and nothing had looked at the validator's state. -/
example : (readMessage 2 { chunks := [[0x81, 0x01, 0xc3]], fin := .fail, dataWithFin := true }).2.1 = some .utf8 := by decide
example : (readMessage 2 { chunks := [[0x81, 0x02, 0xc3, 0xa9]], fin := .fail, dataWithFin := true }).1 = [(1, [0xc3, 0xa9])] := by decide

end Ws.C07
