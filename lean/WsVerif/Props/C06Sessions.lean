/-
  C06 — every `Reset(dest, state, op)` starts a clean frame stream: whatever the writer went through
  before (an unfinished message, DisableFlush, an extension, a failed destination), the writer it leaves
  satisfies the preconditions of the history theorems, so everything written from then on — any
  sequence of Write / WriteThrough / FlushFragment / Flush — is again whole messages of the NEW opcode
  and side on the NEW destination, byte for byte the RFC encodings of `history_ok`'s frames.
-/
import WsVerif.Props.C06
import WsVerif.Props.C18
namespace Ws.C06
open Ws Ws.Spec

/-- the writer after Reset is `Good`, at a message boundary, with an empty buffer -/
theorem reset_good (w w' : Wr) (client : Bool) (op : Nat) (hop : op < 16) (hraw : w.rawLen < 2 ^ 63)
    (h : w.reset client op = some w') :
    Good w' ∧ w'.fseq = 0 ∧ w'.buf = [] ∧ w'.client = client ∧ w'.op = op ∧ w'.ext = none ∧ w'.rawLen = w.rawLen := by
  rw [C18.writer_reset_fresh] at h
  have hinv := inv_new client op w.rawLen w' h
  unfold newWriterBuffer at h
  simp only at h
  by_cases hc : w.rawLen ≤ reserve client w.rawLen
  · rw [if_pos hc] at h; cases h
  · rw [if_neg hc] at h
    simp only [Option.some.injEq] at h
    subst h
    exact ⟨⟨hinv, hop, wf_nil, rfl, rfl, hraw⟩, rfl, rfl, rfl, rfl, rfl, rfl⟩

/-- **A session after Reset.** -/
theorem session_after_reset (w w' : Wr) (client : Bool) (op : Nat) (hop : op < 16) (hraw : w.rawLen < 2 ^ 63)
    (h : w.reset client op = some w') (e : Env) (he : EnvOk e) (ops : List WOp) (hops : ∀ o ∈ ops, OpOK w.rawLen o) :
    ∃ e', runC w' e ops = some ((runA w' ops).1, e')
      ∧ e'.dst.writes.flatten = e.dst.writes.flatten ++ encFrames client (runA w' ops).2.1 e
      ∧ Trace op none (runA w' ops).2.1 (runA w' ops).1
      ∧ (runA w' ops).2.1.flatMap (·.plain) ++ (runA w' ops).1.buf = (runA w' ops).2.2 := by
  obtain ⟨hg, hf, hb, hcl, hop', hext, hrl⟩ := reset_good w w' client op hop hraw h
  have := wire_history_ok w' e ops hg he hf hb (by rw [hrl]; exact hops)
  rw [hcl, hop', hext] at this
  exact this

end Ws.C06
