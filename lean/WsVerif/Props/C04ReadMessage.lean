/-
  C04 — `wsutil.ReadMessage` on an unfragmented binary message: the helper's outer loop
  (make([]byte, Length) + io.ReadFull over the message reader) returns exactly the frame's unmasked
  payload as ONE message with the frame's opcode and no error, for every chunking of the transport,
  and leaves the transport at the first byte after the frame.
-/
import WsVerif.Props.C04
namespace Ws.C04
open Ws Ws.Spec Ws.RdProof

/-- The io.ReadFull loop of ReadMessage inside the (final, only) frame of a message. -/
theorem fill_final (collect : Callback) (h : Header) (fuel : Nat) :
    ∀ (r : Rd) (s : Src) (cx : Ctx) (acc wire rest : Bytes),
      InFrame r s wire rest → r.fragmented = false → (r.checkUTF8 = false ∨ r.utf8.valid = true) →
      acc.length + wire.length = h.len → mu s + 1 < fuel →
      ∃ s', readMessage.fill collect h fuel r s cx acc = (acc ++ plainOf r wire, none, s', cx) ∧ s'.bytes = rest := by
  induction fuel with
  | zero => intro r s cx acc wire rest _ _ _ _ hf; omega
  | succ n ih =>
    intro r s cx acc wire rest hin hnf hv hlen hf
    rw [readMessage.fill]
    by_cases hdone : acc.length ≥ h.len
    · have hw : wire = [] := List.length_eq_zero_iff.mp (by omega)
      subst hw
      simp only [hdone, if_true]
      exact ⟨s, by simp [plainOf, xorSpec], by simpa using hin.bytes⟩
    · simp only [hdone, if_false]
      have hk : 0 < h.len - acc.length := by omega
      obtain ⟨g, s1, hg, hb1, ht1, hwf1, hmu, _, hcase⟩ := read_inframe r s cx (some collect) wire rest (h.len - acc.length) hin hk hv
      have hwpos : 0 < wire.length := by omega
      rcases hcase with ⟨hlt, hread⟩ | ⟨heq, hread⟩
      · simp only [hread]
        have htake : (plainOf r (wire.take g)).take g = plainOf r (wire.take g) := by
          apply List.take_of_length_le; rw [plainOf_length]; simp; omega
        rw [htake]
        have hin' : InFrame (adv r g) s1 (wire.drop g) rest :=
          ⟨by simp [adv, hin.has], by simp [adv, hin.noU], hb1, by simp [adv, hin.n], hwf1, by simp [adv]; exact hin.mwf, ht1⟩
        obtain ⟨s', hfill, hb'⟩ := ih (adv r g) s1 cx (acc ++ plainOf r (wire.take g)) (wire.drop g) rest hin'
          (by simpa [adv, Rd.fragmented] using hnf) (by simpa [adv] using hv)
          (by simp [plainOf_length]; omega) (by have := hmu hwpos; omega)
        refine ⟨s', ?_, hb'⟩
        rw [hfill, List.append_assoc, plainOf_split r wire g hg]
      · subst heq
        simp only [hread, List.take_length]
        have haf : afterFrame (adv r wire.length) = (some .eof, (adv r wire.length).reset) := by
          unfold afterFrame
          have : (adv r wire.length).fragmented = false := by simpa [adv, Rd.fragmented] using hnf
          simp [this]
        have htake : (plainOf r wire).take wire.length = plainOf r wire := by
          apply List.take_of_length_le; rw [plainOf_length]; omega
        simp only [haf, htake]
        have hfull : (acc ++ plainOf r wire).length ≥ h.len := by simp [plainOf_length]; omega
        simp only [hfull, if_true]
        exact ⟨s1, rfl, by simpa using hb1⟩

theorem clear_not_fragmented (st : Nat) (h : st < 256) : stIs (stClear st stFragmented) stFragmented = false := by
  have := List.all_eq_true.mp (by decide +kernel :
    ((List.range 256).all fun s => !stIs (stClear s stFragmented) stFragmented) = true) st (List.mem_range.mpr h)
  simpa using this

/-- **ReadMessage on an unfragmented non-text data message.** (A text message goes through the
    validating reader: C07.) -/
theorem readMessage_single (state : Nat) (s : Src) (f : WFrame) (rest : Bytes)
    (hst : state < 256) (hnf : stIs state stFragmented = false)
    (hok : f.OK) (hfin : f.h.fin = true) (hdata : opIsControl f.h.op = false) (hnt : f.h.op ≠ opText)
    (hacc : checkHeader f.h state = none)
    (hb : s.bytes = f.enc ++ rest) (hwf : Bytes.WF s.bytes) (htame : Src.Tame s) :
    ∃ s', readMessage state s = ([(f.h.op, f.plain)], none, s') ∧ s'.bytes = rest := by
  have hbytes : s.bytes = rfcEncode f.h ++ (f.wire ++ rest) := by rw [hb]; simp [WFrame.enc]
  have hwt : Bytes.WF (f.wire ++ rest) := by rw [hbytes] at hwf; exact wf_append_right hwf
  obtain ⟨s1, hrh, hb1, ht1, hmu1⟩ := readHeader_ok f.h hok.hwf _ hwt s hbytes htame
  let rd : Rd := { state, checkUTF8 := true }
  have haccept : Accepts rd f.h := ⟨by simp [rd, hacc], by simp [rd]⟩
  have hfr0 : rd.fragmented = false := by simp [rd, Rd.fragmented, hnf]
  have hin : InFrame (enter rd f.h) s1 f.wire rest :=
    ⟨by simp [enter], by simp [enter, rd, hfr0, hnt], hb1, by simp [enter, hok.len], by rw [hb1]; exact hwt,
     by simp [enter]; exact hok.mwf, ht1⟩
  have hnf1 : (enter rd f.h).fragmented = false := by
    simp [enter, Rd.fragmented, hfin, rd, clear_not_fragmented state hst]
  have hnext := nextFrame_data rd s s1 {} (some collectCb) f.h hrh haccept rfl hdata
  obtain ⟨s', hfill, hb'⟩ := fill_final collectCb f.h (pullFuel s1) (enter rd f.h) s1 {} [] f.wire rest hin hnf1
    (Or.inr (by simp [enter, rd, Utf8Rd.valid]; rfl)) (by simp [hok.len]) (by unfold pullFuel Src.fuel mu; omega)
  refine ⟨s', ?_, hb'⟩
  have hnext' : ({ state, checkUTF8 := true } : Rd).nextFrame s {} (some collectCb) = (some f.h, none, enter rd f.h, s1, {}) := hnext
  unfold readMessage
  simp only [hnext', hfin, if_true, hfill]
  simp [plainOf, enter, WFrame.plain, rd]

/-- Non-vacuity: a masked final binary frame "ab" read by a server-side ReadMessage off three chunks,
    one byte of the next frame behind it. -/
example :
    let f : WFrame := ⟨⟨true, 0, 2, true, ⟨1, 2, 3, 4⟩, 2⟩, [0x60, 0x60]⟩
    f.OK ∧ checkHeader f.h 1 = none ∧
    readMessage 1 { chunks := [[0x82], [0x82, 1, 2, 3], [4, 0x60, 0x60, 0x89]], fin := .eof }
      = ([(2, [0x61, 0x62])], none, { chunks := [[0x89]], fin := .eof }) := by
  refine ⟨⟨by decide, by decide, by decide, by decide⟩, by decide, by decide⟩

end Ws.C04
