/-
  C04 — skipping instead of reading: `Reader.Discard()` on the final frame of a message (however much
  of it was already read) consumes exactly the rest of that frame, for every transport chunking,
  reports no error, and leaves a reset reader with the transport standing at the next message.
-/
import WsVerif.Proofs.Reader
namespace Ws.C04
open Ws Ws.RdProof

theorem discard_final_frame (r : Rd) (s : Src) (cx : Ctx) (cb : Option Callback) (fuel : Nat) (wire rest : Bytes)
    (hnf : r.fragmented = false) (hb : s.bytes = wire ++ rest) (hn : r.rawN = wire.length) (htame : Src.Tame s) :
    ∃ s', r.discard s cx cb (fuel + 1) = (none, ({ r with rawN := 0 } : Rd).reset, s', cx)
      ∧ s'.bytes = rest ∧ Src.Tame s' := by
  obtain ⟨s', hd, hb', ht', _, _⟩ := drainRaw_ok s.fuel r s wire rest hb hn htame (by unfold Src.fuel mu; omega)
  have hfr : ({ r with rawN := 0 } : Rd).fragmented = false := by simpa [Rd.fragmented] using hnf
  refine ⟨s', ?_, hb', ht'⟩
  unfold Rd.discard
  simp only [hd, hfr, Bool.not_false, if_true]

/-- A size limit refuses only what EXCEEDS it: a data frame announcing exactly MaxFrameSize bytes (first frame or
    continuation) that passes the header check is installed like any other. -/
theorem frame_at_limit_accepted (r : Rd) (s s1 : Src) (cx : Ctx) (cb : Option Callback) (h : Header)
    (hh : readHeaderUtil s = (.ok h, s1))
    (hc : (if r.skipCheck then none else checkHeader h r.state) = none)
    (hlen : h.len = r.maxFrame) (hext : r.ext = false) (hdata : opIsControl h.op = false) :
    r.nextFrame s cx cb = (some h, none, enter r h, s1, cx) :=
  nextFrame_data r s s1 cx cb h hh ⟨hc, by omega⟩ hext hdata

/-- Non-vacuity: 2 of 5 payload bytes already read from a final masked frame, 3 left on the transport in
    two chunks, followed by the first byte of the next frame. -/
example : (Rd.discard { state := 1, hasFrame := true, rawN := 3, masked := true, mask := ⟨1, 2, 3, 4⟩, cpos := 2 }
    { chunks := [[7, 8], [9, 0x81]], fin := .eof } {} none 1).2.2.1.bytes = [0x81] := by rfl

end Ws.C04
