/-
  C05 — Message reader rejects a protocol violation at the first offending frame.
  Frame-level wiring theorems (the k-th-frame statement over whole streams builds on C04's
  refinement theorem and is in progress).
-/
import WsVerif.Model.Helper
import WsVerif.Props.C03
namespace Ws.C05
open Ws Ws.Spec

/-- A frame whose header breaks a rule in the reader's current state is refused with that protocol
    error, the reader state is untouched, and not one payload byte has been read: the transport
    is positioned right after the header. -/
theorem nextFrame_rejects (r : Rd) (s s1 : Src) (cx : Ctx) (cb : Option Callback) (hdr : Header)
    (pe : ProtoErr) (hh : readHeaderUtil s = (.ok hdr, s1)) (hskip : r.skipCheck = false)
    (hc : checkHeader hdr r.state = some pe) :
    r.nextFrame s cx cb = (some hdr, some (.proto pe), r, s1, cx) := by
  unfold Rd.nextFrame
  simp [hh, hskip, hc]

/-- The error it reports names a rule the frame really breaks given the state built up so far. -/
theorem nextFrame_error_sound (r : Rd) (hdr : Header) (pe : ProtoErr) (hop : hdr.op < 16)
    (hst : r.state < 256) (hc : checkHeader hdr r.state = some pe) :
    ∃ rule, ruleOf pe = some rule ∧ Broken rule hdr (stOf r.state) :=
  C03.check_some_sound hdr r.state hop hst pe hc

/-- A frame announcing more than MaxFrameSize is refused before its payload is touched. -/
theorem toolarge_before_payload (r : Rd) (s s1 : Src) (cx : Ctx) (cb : Option Callback) (hdr : Header)
    (hh : readHeaderUtil s = (.ok hdr, s1))
    (hc : (if r.skipCheck then none else checkHeader hdr r.state) = none)
    (hmax : r.maxFrame > 0) (hbig : hdr.len > r.maxFrame) :
    r.nextFrame s cx cb = (some hdr, some .tooLarge, r, s1, cx) := by
  unfold Rd.nextFrame
  simp [hh, hc, hmax, hbig]

/-- Accepting a data frame (no extension attached) installs it as the current frame and makes the
    fragmentation state track exactly "an unfinished data message is open". -/
theorem accept_data_frame (r : Rd) (s s1 : Src) (cx : Ctx) (cb : Option Callback) (hdr : Header)
    (hh : readHeaderUtil s = (.ok hdr, s1))
    (hc : (if r.skipCheck then none else checkHeader hdr r.state) = none)
    (hmax : ¬ (r.maxFrame > 0 ∧ hdr.len > r.maxFrame)) (hext : r.ext = false)
    (hdata : opIsControl hdr.op = false) :
    ∃ r', r.nextFrame s cx cb = (some hdr, none, r', s1, cx)
      ∧ r'.hasFrame = true ∧ r'.rawN = hdr.len ∧ r'.masked = hdr.masked ∧ r'.mask = hdr.mask ∧ r'.cpos = 0
      ∧ r'.state = (if hdr.fin then stClear r.state stFragmented else stSet r.state stFragmented)
      ∧ r'.opCode = (if r.fragmented then r.opCode else hdr.op) := by
  unfold Rd.nextFrame
  simp only [hh, hc, hmax, hext, if_false, Bool.false_eq_true]
  simp only [Rd.fragmented, hdata, Bool.and_false, Bool.false_eq_true, if_false]
  by_cases hf : stIs r.state stFragmented = true
  · simp only [hf, if_true]
    exact ⟨_, rfl, rfl, rfl, rfl, rfl, rfl, rfl, rfl⟩
  · simp only [hf, if_false]
    exact ⟨_, rfl, rfl, rfl, rfl, rfl, rfl, rfl, rfl⟩

end Ws.C05
