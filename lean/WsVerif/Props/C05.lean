/-
  C05 — Message reader rejects a protocol violation at the first offending frame.
  Frame-level wiring theorems, and the stream level: `reject_at_first_bad` — a message whose
  frames are valid up to some point (any fragments and interleaved control frames) followed by an
  offending frame (a broken framing rule in the state built up so far, or a length over
  MaxFrameSize): for every transport chunking and every sequence of caller buffers, the Reads
  deliver exactly the data of the valid frames with no error, and the Read that reaches the
  offending frame returns the protocol error (resp. ErrFrameTooLarge) with zero bytes, the
  transport standing right behind the offending header: not one payload byte of it was read.
  `first_frame_rejected` is the same for an offending frame at the start of a message.
  Scope as for C04.message_delivered (no receive extension, CheckUTF8 off, OnIntermediate unset).
-/
import WsVerif.Model.Helper
import WsVerif.Props.C03
import WsVerif.Props.C04
namespace Ws.C05
open Ws Ws.Spec

/-- A frame whose header breaks a rule in the reader's current state is refused with that protocol
    error, the reader state is untouched, and not one payload byte has been read: the transport
    is positioned right after the header. -/
theorem nextFrame_rejects (r : Rd) (s s1 : Src) (cx : Ctx) (cb : Option Callback) (hdr : Header)
    (pe : ProtoErr) (hh : readHeaderUtil s = (.ok hdr, s1)) (hskip : r.skipCheck = false)
    (hc : checkHeader hdr r.state = some pe) :
    r.nextFrame s cx cb = (some hdr, some (.proto pe), r, s1, cx) := by
  unfold Rd.nextFrame
  simp [hh, hskip, hc]

/-- The error it reports names a rule the frame really breaks given the state built up so far. -/
theorem nextFrame_error_sound (r : Rd) (hdr : Header) (pe : ProtoErr) (hop : hdr.op < 16)
    (hst : r.state < 256) (hc : checkHeader hdr r.state = some pe) :
    ∃ rule, ruleOf pe = some rule ∧ Broken rule hdr (stOf r.state) :=
  C03.check_some_sound hdr r.state hop hst pe hc

/-- A frame announcing more than MaxFrameSize is refused before its payload is touched. -/
theorem toolarge_before_payload (r : Rd) (s s1 : Src) (cx : Ctx) (cb : Option Callback) (hdr : Header)
    (hh : readHeaderUtil s = (.ok hdr, s1))
    (hc : (if r.skipCheck then none else checkHeader hdr r.state) = none)
    (hmax : r.maxFrame > 0) (hbig : hdr.len > r.maxFrame) :
    r.nextFrame s cx cb = (some hdr, some .tooLarge, r, s1, cx) := by
  unfold Rd.nextFrame
  simp [hh, hc, hmax, hbig]

/-- Accepting a data frame (no extension attached) installs it as the current frame and makes the
    fragmentation state track exactly "an unfinished data message is open". -/
theorem accept_data_frame (r : Rd) (s s1 : Src) (cx : Ctx) (cb : Option Callback) (hdr : Header)
    (hh : readHeaderUtil s = (.ok hdr, s1))
    (hc : (if r.skipCheck then none else checkHeader hdr r.state) = none)
    (hmax : ¬ (r.maxFrame > 0 ∧ hdr.len > r.maxFrame)) (hext : r.ext = false)
    (hdata : opIsControl hdr.op = false) :
    ∃ r', r.nextFrame s cx cb = (some hdr, none, r', s1, cx)
      ∧ r'.hasFrame = true ∧ r'.rawN = hdr.len ∧ r'.masked = hdr.masked ∧ r'.mask = hdr.mask ∧ r'.cpos = 0
      ∧ r'.state = (if hdr.fin then stClear r.state stFragmented else stSet r.state stFragmented)
      ∧ r'.opCode = (if r.fragmented then r.opCode else hdr.op) := by
  unfold Rd.nextFrame
  simp only [hh, hc, hmax, hext, if_false, Bool.false_eq_true]
  simp only [Rd.fragmented, hdata, Bool.and_false, Bool.false_eq_true, if_false]
  by_cases hf : stIs r.state stFragmented = true
  · simp only [hf, if_true]
    exact ⟨_, rfl, rfl, rfl, rfl, rfl, rfl, rfl, rfl⟩
  · simp only [hf, if_false]
    exact ⟨_, rfl, rfl, rfl, rfl, rfl, rfl, rfl, rfl⟩


/-! ### stream level -/

open Ws.RdProof

/-- how the reader in configuration (skip, state st, limit maxF) refuses header `h` -/
def RefusedWith (skip : Bool) (st maxF : Nat) (h : Header) (err : RErr) : Prop :=
  (skip = false ∧ ∃ pe, checkHeader h st = some pe ∧ err = .proto pe)
  ∨ ((if skip then none else checkHeader h st) = none ∧ maxF > 0 ∧ h.len > maxF ∧ err = .tooLarge)

/-- NextFrame on an offending header, read off any chunking of the transport. -/
theorem nextFrame_refuses (r : Rd) (s : Src) (cx : Ctx) (cb : Option Callback) (h : Header) (junk : Bytes) (err : RErr)
    (hw : h.WF) (hb : s.bytes = rfcEncode h ++ junk) (hjw : Bytes.WF junk) (htame : Src.Tame s)
    (hrej : RefusedWith r.skipCheck r.state r.maxFrame h err) :
    ∃ s1, r.nextFrame s cx cb = (some h, some err, r, s1, cx) ∧ s1.bytes = junk := by
  obtain ⟨s1, hrh, hb1, _, _⟩ := readHeader_ok h hw junk hjw s hb htame
  refine ⟨s1, ?_, hb1⟩
  rcases hrej with ⟨hs, pe, hc, he⟩ | ⟨hc, hm, hl, he⟩
  · subst he; exact nextFrame_rejects r s s1 cx cb h pe hrh hs hc
  · subst he; exact toolarge_before_payload r s s1 cx cb h hrh hc hm hl

/-- An offending frame where a message should start: refused by NextFrame, nothing read of it. -/
theorem first_frame_rejected (r : Rd) (s : Src) (cx : Ctx) (h : Header) (junk : Bytes) (err : RErr)
    (hw : h.WF) (hb : s.bytes = rfcEncode h ++ junk) (hjw : Bytes.WF junk) (htame : Src.Tame s)
    (hrej : RefusedWith r.skipCheck r.state r.maxFrame h err) :
    ∃ s1, r.nextFrame s cx none = (some h, some err, r, s1, cx) ∧ s1.bytes = junk :=
  nextFrame_refuses r s cx none h junk err hw hb hjw htame hrej

/-- a Read that has to fetch the next fragment and finds an offending frame -/
theorem read_at_end_refuses (ao skip : Bool) (st maxF : Nat) (r : Rd) (s : Src) (cx : Ctx) (k : Nat) (h : Header)
    (junk : Bytes) (err : RErr) (hend : AtEnd ao skip st maxF (rfcEncode h ++ junk) r s [])
    (hw : h.WF) (hrej : RefusedWith skip st maxF h err) :
    ∃ s1, r.read s cx k none = some ([], 0, some err, r, s1, cx) ∧ s1.bytes = junk := by
  have hc := hend.common
  have hjw : Bytes.WF junk := by
    have := hc.wf; rw [hend.bytes] at this; exact wf_append_right this
  have hrej' : RefusedWith r.skipCheck r.state r.maxFrame h err := by
    rw [hc.skip, hend.state, hc.maxF]; exact hrej
  obtain ⟨s1, hnf, hb1⟩ := nextFrame_refuses r s cx none h junk err hw hend.bytes hjw hc.tame hrej'
  refine ⟨s1, ?_, hb1⟩
  have hfrag : r.fragmented = true := by simp [Rd.fragmented, hend.state, hc.stF]
  unfold Rd.read
  simp [hend.has, hfrag, hnf]

/-- **C05, stream level.** `f0 :: fs` are the valid frames of a still open message; then comes a
    frame with header `hbad` that the reader must refuse. -/
theorem reject_at_first_bad (r0 : Rd) (s : Src) (cx : Ctx) (f0 : WFrame) (fs : List WFrame) (hbad : Header)
    (junk : Bytes) (err : RErr) (ks : List Nat) (hpos : ∀ k ∈ ks, 0 < k)
    (hidle : r0.hasFrame = false) (hnf : r0.fragmented = false) (hst : r0.state < 256)
    (hext : r0.ext = false) (hu8 : r0.checkUTF8 = false)
    (hok0 : f0.OK) (hdata0 : opIsControl f0.h.op = false) (hfin0 : f0.h.fin = false)
    (hacc0 : AcceptsAt r0.skipCheck r0.state r0.maxFrame f0.h)
    (htail : Tail true r0.skipCheck (stSet r0.state stFragmented) r0.maxFrame fs)
    (hbw : hbad.WF) (hrej : RefusedWith r0.skipCheck (stSet r0.state stFragmented) r0.maxFrame hbad err)
    (hb : s.bytes = encodeFs (f0 :: fs) ++ (rfcEncode hbad ++ junk)) (hwf : Bytes.WF s.bytes) (htame : Src.Tame s) :
    ∃ r1 s1, r0.nextFrame s cx none = (some f0.h, none, r1, s1, cx) ∧ r1.hasFrame = true ∧
      ((∃ out e r' s', reads r1 s1 cx ks = some (out, e, r', s', cx)
          ∧ (∃ more, dataPlain (f0 :: fs) = out ++ more)
          ∧ (e = none ∨ e = some .eof))
       ∨ (∃ r' s', reads r1 s1 cx ks = some (dataPlain (f0 :: fs), some err, r', s', cx) ∧ s'.bytes = junk)) := by
  obtain ⟨b1, b2, b3, b4⟩ := C04.stbits r0.state hst
  let rest := rfcEncode hbad ++ junk
  have hbytes : s.bytes = rfcEncode f0.h ++ (f0.wire ++ (encodeFs fs ++ rest)) := by
    rw [hb]; simp [encodeFs, WFrame.enc, List.append_assoc, rest]
  have hwt : Bytes.WF (f0.wire ++ (encodeFs fs ++ rest)) := by
    rw [hbytes] at hwf; exact wf_append_right hwf
  obtain ⟨s1, hrh, hb1, ht1, hmu1⟩ := readHeader_ok f0.h hok0.hwf _ hwt s hbytes htame
  have hnext := nextFrame_data r0 s s1 cx none f0.h hrh hacc0 hext hdata0
  let st := stSet r0.state stFragmented
  have hc : Common r0.skipCheck st r0.maxFrame (enter r0 f0.h) s1 :=
    ⟨by simp [enter, hext], by simp [enter, hu8], by simp [enter], by simp [enter], ht1, by rw [hb1]; exact hwt, b1, b2, b3⟩
  have hpl : plainOf (enter r0 f0.h) f0.wire = f0.plain := rfl
  have hdp : dataPlain (f0 :: fs) = plainOf (enter r0 f0.h) f0.wire ++ dataPlain fs := by
    simp [dataPlain, hdata0, hpl]
  have hsync : Sync true r0.skipCheck st r0.maxFrame rest (enter r0 f0.h) s1 (dataPlain (f0 :: fs)) fs := by
    rw [hdp]
    refine Sync.mid _ s1 f0.wire fs hc ?_ (by simp [enter, hfin0, st]) htail
    exact ⟨by simp [enter], by simp [enter, hu8], hb1, by simp [enter, hok0.len],
        by rw [hb1]; exact hwt, by simp [enter]; exact hok0.mwf, ht1⟩
  refine ⟨enter r0 f0.h, s1, hnext, rfl, ?_⟩
  rcases reads_sync true r0.skipCheck st r0.maxFrame rest ks hpos _ s1 cx _ _ hsync with
    ⟨out, e, r', s', hrd, hcase⟩ | ⟨ks1, k2, ks2, out1, r1, s2, hks, hrd1, hrem, hend⟩
  · left
    refine ⟨out, e, r', s', hrd, ?_, ?_⟩
    · rcases hcase with ⟨_, rem', _, h1, _, _⟩ | ⟨_, h1, _⟩
      · exact ⟨rem', h1⟩
      · exact ⟨[], by rw [h1]; simp⟩
    · rcases hcase with ⟨h1, _⟩ | ⟨h1, _, _, _, _⟩
      · exact Or.inl h1
      · exact Or.inr h1
  · right
    obtain ⟨s3, hread, hb3⟩ := read_at_end_refuses true r0.skipCheck st r0.maxFrame r1 s2 cx k2 hbad junk err hend hbw hrej
    refine ⟨r1, s3, ?_, hb3⟩
    rw [hks, reads_append _ _ _ ks1 (k2 :: ks2) out1 r1 s2 cx hrd1]
    simp only [reads, hread, List.take_nil, Option.map_some, List.append_nil]
    rw [hrem]

end Ws.C05
