/-
  C04 / C07 — skipping a message does not depend on CheckUTF8: Discard works on the raw frames (the
  validator is never fed), so with checking on the same holds as with checking off — whatever the
  text is, valid or not: no error, transport at the first byte after the message.
-/
import WsVerif.Props.C04DiscardMsg
import WsVerif.Proofs.ReaderText
namespace Ws.C04
open Ws Ws.Spec Ws.RdProof Ws.RdText

theorem reset_strip (r : Rd) : (strip r).reset = strip r.reset := rfl

/-- Discard does not look at the UTF-8 fields. -/
theorem discard_strip (n : Nat) (r : Rd) (s : Src) (cx : Ctx) :
    (strip r).discard s cx none n =
      ((r.discard s cx none n).1, strip (r.discard s cx none n).2.1, (r.discard s cx none n).2.2.1, (r.discard s cx none n).2.2.2) := by
  induction n generalizing r s cx with
  | zero => rfl
  | succ n ih =>
    unfold Rd.discard
    rw [drainRaw_strip]
    rcases hd : r.drainRaw s s.fuel with ⟨e, r1, s1⟩
    simp only
    cases e with
    | some e => rfl
    | none =>
      simp only [strip_fragmented]
      by_cases hf : r1.fragmented = true
      · simp only [hf, Bool.not_true, Bool.false_eq_true, if_false]
        rw [nextFrame_strip]
        rcases hx : r1.nextFrame s1 cx none with ⟨h, e2, r2, s2, cx2⟩
        simp only
        cases e2 with
        | some e => rfl
        | none => exact ih r2 s2 cx2
      · have hf' : r1.fragmented = false := by simpa using hf
        simp only [hf', Bool.not_false, if_true]
        rfl

/-- **Skipping a message, CheckUTF8 on or off.** -/
theorem message_skipped_any (r0 : Rd) (s : Src) (cx : Ctx) (f0 : WFrame) (fs : List WFrame) (rest : Bytes)
    (hnf : r0.fragmented = false) (hst : r0.state < 256) (hext : r0.ext = false)
    (hm : Message r0 f0 fs)
    (hb : s.bytes = encodeFs (f0 :: fs) ++ rest) (hwf : Bytes.WF s.bytes) (htame : Src.Tame s) :
    ∃ r1 s1, r0.nextFrame s cx none = (some f0.h, none, r1, s1, cx)
      ∧ ∃ r' s', r1.discard s1 cx none (fs.length + 2) = (none, r', s', cx) ∧ s'.bytes = rest ∧ Src.Tame s' := by
  have hm' : Message (strip r0) f0 fs := ⟨hm.ok0, hm.data0, hm.acc0, hm.rest⟩
  obtain ⟨q1, s1, hq, q', s', hdq, hb', ht'⟩ := message_skipped (strip r0) s cx f0 fs rest hnf hst hext rfl hm' hb hwf htame
  rw [nextFrame_strip] at hq
  rcases hA : r0.nextFrame s cx none with ⟨h, e, r1, s1', cx'⟩
  rw [hA] at hq
  simp only [Prod.mk.injEq] at hq
  obtain ⟨rfl, rfl, rfl, rfl, rfl⟩ := hq
  refine ⟨r1, s1', rfl, ?_⟩
  have hds := discard_strip (fs.length + 2) r1 s1' cx'
  rw [hdq] at hds
  rcases hB : r1.discard s1' cx' none (fs.length + 2) with ⟨e, r', s'', cx''⟩
  rw [hB] at hds
  simp only [Prod.mk.injEq] at hds
  obtain ⟨rfl, _, rfl, rfl⟩ := hds
  exact ⟨r', s', rfl, hb', ht'⟩

/-- With checking on, a text message that is NOT valid UTF-8 (a lone 0xff, masked) is skipped all
    the same: Discard returns nil and the transport is at the next frame. -/
example :
    (match Rd.nextFrame { state := 1, checkUTF8 := true } { chunks := [[0x81, 0x81, 0, 0, 0, 0, 0xff, 0x8a]], fin := .eof } {} none with
     | (_, e, r1, s1, cx) => (e, r1.utf8on, (r1.discard s1 cx none 2).1, (r1.discard s1 cx none 2).2.2.1.bytes))
      = (none, true, none, [0x8a]) := by decide

end Ws.C04
