/-
  C05 / C13 — an extension attached to the reader does not by itself lift the RSV rule: while the
  reader's State does not say that extensions were negotiated, a frame with any reserved bit set is
  refused by the header check, at its header, whatever `Reader.Extensions` holds — the extension
  never gets to see (and clear) the bit.
-/
import WsVerif.Props.C05
namespace Ws.C05
open Ws Ws.Spec

theorem rsv_refused_without_negotiation (r : Rd) (s s1 : Src) (cx : Ctx) (cb : Option Callback) (hdr : Header)
    (hh : readHeaderUtil s = (.ok hdr, s1)) (hskip : r.skipCheck = false)
    (hop : hdr.op < 16) (hst : r.state < 256)
    (hrsv : hdr.rsv ≠ 0) (hne : (stOf r.state).extended = false) :
    ∃ pe, r.nextFrame s cx cb = (some hdr, some (.proto pe), r, s1, cx) := by
  cases hc : checkHeader hdr r.state with
  | none =>
    have := (C03.check_none_iff hdr r.state hop hst).mp hc .rsvWithoutExtension
    exact absurd ⟨hrsv, hne⟩ this
  | some pe => exact ⟨pe, nextFrame_rejects r s s1 cx cb hdr pe hh hskip hc⟩

/-- The masking rule does not look at the payload: a frame with the wrong MASK bit for the side that reads
    it is refused at its header whatever length it announces — zero included (an empty final fragment, an
    empty ping). -/
theorem wrong_mask_refused (r : Rd) (s s1 : Src) (cx : Ctx) (cb : Option Callback) (hdr : Header)
    (hh : readHeaderUtil s = (.ok hdr, s1)) (hskip : r.skipCheck = false)
    (hop : hdr.op < 16) (hst : r.state < 256)
    (hm : ((stOf r.state).server = true ∧ hdr.masked = false) ∨ ((stOf r.state).client = true ∧ hdr.masked = true)) :
    ∃ pe, r.nextFrame s cx cb = (some hdr, some (.proto pe), r, s1, cx) := by
  cases hc : checkHeader hdr r.state with
  | none =>
    rcases hm with hm | hm
    · exact absurd hm ((C03.check_none_iff hdr r.state hop hst).mp hc .serverGotUnmasked)
    · exact absurd hm ((C03.check_none_iff hdr r.state hop hst).mp hc .clientGotMasked)
  | some pe => exact ⟨pe, nextFrame_rejects r s s1 cx cb hdr pe hh hskip hc⟩

/-- an unmasked EMPTY final continuation closing a fragmented message on a server: refused -/
example :
    (Rd.nextFrame { state := 9 } { chunks := [[0x80, 0x00]], fin := .eof } {} none).2.1 = some (.proto .maskRequired) := by rfl

/-- Non-vacuity: a server-side reader (state 1: not extended) WITH the compression extension attached,
    given a masked final text frame with RSV1: refused with ErrProtocolNonZeroRsv. -/
example :
    (Rd.nextFrame { state := 1, ext := true } { chunks := [[0xc1, 0x80, 1, 2, 3, 4]], fin := .eof } {} none).2.1
      = some (.proto .nonZeroRsv) := by rfl

end Ws.C05
