/-
  C18 — Reset or pooled reuse makes writers, readers and negotiators behave as new.

  In the models a reset is a function of the old state; "behaves as new whatever happened before"
  is the statement that the result does not depend on the old state at all — it EQUALS the
  freshly constructed value — for every old state (hence for every history that led to it).
-/
import WsVerif.Model.Writer
import WsVerif.Model.Flate
import WsVerif.Model.Utf8
import WsVerif.Model.Cipher
import WsVerif.Props.C14
namespace Ws.C18
open Ws

/-- wsutil.Writer.Reset = NewWriterBuffer on the same raw buffer, whatever state the writer was in:
    buffered data, dirty flag, fragment counter, extension, DisableFlush, the other side, an earlier
    destination error. -/
theorem writer_reset_fresh (w : Wr) (client : Bool) (op : Nat) :
    w.reset client op = newWriterBuffer client op w.rawLen := by
  unfold Wr.reset newWriterBuffer
  rfl

/-- Buffer growth is the one thing that survives: the reset writer is the fresh writer for the
    grown buffer. -/
theorem writer_reset_keeps_only_rawLen (w w' : Wr) (client : Bool) (op : Nat) (h : w.rawLen = w'.rawLen) :
    w.reset client op = w'.reset client op := by
  rw [writer_reset_fresh, writer_reset_fresh, h]

/-- ResetOp: unflushed fragments dropped; side, buffer, extensions, flush mode and error kept. -/
theorem resetOp_spec (w : Wr) (op : Nat) :
    (w.resetOp op).buf = [] ∧ (w.resetOp op).dirty = false ∧ (w.resetOp op).fseq = 0 ∧ (w.resetOp op).op = op
      ∧ (w.resetOp op).ext = w.ext ∧ (w.resetOp op).noFlush = w.noFlush ∧ (w.resetOp op).client = w.client
      ∧ (w.resetOp op).rawLen = w.rawLen ∧ (w.resetOp op).off = w.off := by
  simp [Wr.resetOp]

/-- GetWriter never depends on what was put before: it is a constructor (the pool key PutWriter
    uses, Size(), is never a size class GetWriter asks for). -/
theorem getWriter_is_constructor (client : Bool) (op n : Nat) :
    getWriter client op n = newWriterBufferSize client op (poolCeil n) := rfl

/-- wsflate.Writer.Reset = a new Writer on that destination: sticky error, withheld tail bytes
    and destination failure all gone. -/
theorem flwriter_reset_fresh (w : FlWr) (d : Dst) : w.reset d = { cbuf := { dst := d } } := rfl

/-- The suffixed reader after reset(src): source set, suffix position 0 — as NewReader makes it. -/
def sufReset (_ : SufRd) (s : Src) : SufRd := { src := some s, pos := 0 }
theorem sufrd_reset_fresh (r : SufRd) (s : Src) : sufReset r s = { src := some s } := rfl

/-- UTF8Reader.Reset: state, code point and accepted counter cleared (fix ee45f83). -/
def u8Reset (_ : Utf8Rd) : Utf8Rd := {}
theorem utf8_reset_fresh (u : Utf8Rd) : u8Reset u = {} := rfl

/-- CipherReader/CipherWriter.Reset: new mask, position 0. -/
def cipherRdReset (_ : CipherRd) (m : Mask) : CipherRd := ⟨m, 0⟩
def cipherWrReset (_ : CipherWr) (m : Mask) : CipherWr := ⟨m, 0⟩
theorem cipher_reset_fresh (c : CipherRd) (c' : CipherWr) (m : Mask) :
    cipherRdReset c m = ⟨m, 0⟩ ∧ cipherWrReset c' m = ⟨m, 0⟩ := ⟨rfl, rfl⟩

/-- The negotiator after Reset is the fresh negotiator (C14.reset_fresh). -/
theorem negotiator_reset_fresh (s : NegSt) : s.reset = {} := C14.reset_fresh s

/-! Non-vacuity: a writer that has failed and holds data, reset, equals the fresh one. -/
example : (({ client := false, op := 1, rawLen := 64, off := 2, buf := [1, 2, 3], dirty := true, fseq := 2,
              noFlush := true, err := true, ext := some true } : Wr).reset true 2)
    = newWriterBuffer true 2 64 := by decide

end Ws.C18
