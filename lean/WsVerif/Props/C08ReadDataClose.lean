/-
  C08 / C04 — the `wsutil.ReadData` family meets a CLOSE frame (behind any history of pings and unwanted
  messages): it answers with exactly one close frame — empty for an empty close, echoing the 2-byte status for a
  close with an acceptable status and reason — and returns ClosedError carrying the peer's code and reason; no
  data is returned and whatever follows on the transport is not read.
-/
import WsVerif.Props.C08ReadData
namespace Ws.C08
open Ws Ws.Spec Ws.RdProof Ws.RdText Ws.C06 Ws.C07 Ws.C04

/-- an empty close frame in front of the loop -/
theorem loop_close_empty (state want : Nat) (errText : ProtoErr → Bytes) (inter : Callback)
    (r0 : Rd) (s : Src) (cx : Ctx) (fuel : Nat) (h : Header) (rest : Bytes)
    (hi : Idle state r0) (he : EnvOk cx.env) (hnf : stIs state stFragmented = false)
    (hhwf : h.WF) (hop : h.op = opClose) (hlen : h.len = 0)
    (hacc : checkHeader h state = none)
    (hb : s.bytes = rfcEncode h ++ rest) (hwf : Bytes.WF s.bytes) (htame : Src.Tame s) :
    ∃ s1 cx1, readData.loop want errText (stIs state stClient) inter (fuel + 1) r0 s cx
        = ([], 0, some (.closed 1005 []), s1, cx1)
      ∧ s1.bytes = rest
      ∧ cx1.env.dst.writes = cx.env.dst.writes ++ [frameHeaderOnly (stIs state stClient) opClose] := by
  have hctl : opIsControl h.op = true := by rw [hop]; rfl
  have hrw : Bytes.WF rest := by rw [hb] at hwf; exact wf_append_right hwf
  obtain ⟨s1, hrh, hb1, _, _⟩ := readHeader_ok h hhwf _ hrw s hb htame
  have haccept : Accepts r0 h := ⟨by simp [hi.skip, hi.st, hacc], by simp [hi.maxF]⟩
  have hfr0 : r0.fragmented = false := by simp [Rd.fragmented, hi.st, hnf]
  have hnext := nextFrame_unfragmented r0 s s1 cx (some inter) h hrh haccept hi.ext hfr0
  obtain ⟨e', hh, hw', _⟩ := close_empty_ok (stIs state stClient) h { chunks := [] } cx.env he hlen errText
  have hh2 : handleControl (stIs state stClient) h { chunks := [] } false cx.env errText = some (some (.closed 1005 []), e') := by
    unfold handleControl
    have h1 : ¬ h.op = opPing := by rw [hop]; decide
    have h2 : ¬ h.op = opPong := by rw [hop]; decide
    rw [if_neg h1, if_neg h2, if_pos hop]; exact hh
  refine ⟨s1, { cx with env := e', events := cx.events ++ [(h.op, [])] }, ?_, hb1, hw'⟩
  rw [readData.loop]
  simp only [hnext, hctl, if_true]
  unfold controlFrameHandler
  simp only [hlen, ne_eq, not_true_eq_false, false_and, not_false_eq_true, if_true, hh2]
  simp [cerrToR]

/-- **ReadData at an empty close frame**, behind any history: one empty close frame in reply (after the pongs),
    ClosedError 1005, no data. -/
theorem readData_close_empty (state want : Nat) (errText : ProtoErr → Bytes) (s : Src) (env : Env) (fuel : Nat)
    (items : List Item) (h : Header) (rest : Bytes)
    (hst : state < 256) (hnf : stIs state stFragmented = false) (he : EnvOk env)
    (hall : ∀ it ∈ items, it.Good state want)
    (hhwf : h.WF) (hop : h.op = opClose) (hlen : h.len = 0) (hacc : checkHeader h state = none)
    (hb : s.bytes = encodeFs (items.map Item.frame) ++ (rfcEncode h ++ rest)) (hwf : Bytes.WF s.bytes) (htame : Src.Tame s) :
    ∃ s' cx' ws, readData state want errText s env (fuel + 1 + items.length) = ([], 0, some (.closed 1005 []), s', cx')
      ∧ s'.bytes = rest
      ∧ cx'.env.dst.writes = env.dst.writes ++ ws ++ [frameHeaderOnly (stIs state stClient) opClose]
      ∧ PongsFor (stIs state stClient) ws (pingsOf items) := by
  unfold readData
  simp only
  generalize controlFrameHandler (stIs state stClient) errText false none = inter
  obtain ⟨r2, s2, cx2, ws, h2, hi2, hb2, hwf2, ht2, he2, hw2, hp2, _⟩ := loop_history state want errText inter (fuel + 1)
    (rfcEncode h ++ rest) hst hnf items hall _ s { env } (idle_init state) he hb hwf htame
  rw [h2]
  obtain ⟨s1, cx1, h3, hb3, hw3⟩ := loop_close_empty state want errText inter r2 s2 cx2 fuel h rest hi2 he2 hnf hhwf hop hlen hacc hb2 hwf2 ht2
  exact ⟨s1, cx1, ws, h3, hb3, by rw [hw3, hw2], hp2⟩

/-- a close frame with an acceptable status and reason in front of the loop -/
theorem loop_close_valid (state want : Nat) (errText : ProtoErr → Bytes) (inter : Callback)
    (r0 : Rd) (s : Src) (cx : Ctx) (fuel : Nat) (f : WFrame) (rest : Bytes)
    (hi : Idle state r0) (he : EnvOk cx.env)
    (hst : state < 256) (hnf : stIs state stFragmented = false)
    (hok : f.OK) (hop : f.h.op = opClose) (hfin : f.h.fin = true) (hlen : 2 ≤ f.h.len ∧ f.h.len ≤ 125)
    (hacc : checkHeader f.h state = none)
    (hbody : checkCloseFrameData (parseCloseFrameData f.plain).1 (parseCloseFrameData f.plain).2 = none)
    (hb : s.bytes = f.enc ++ rest) (hwf : Bytes.WF s.bytes) (htame : Src.Tame s) :
    ∃ s1 cx1, readData.loop want errText (stIs state stClient) inter (fuel + 1) r0 s cx
        = ([], 0, some (.closed (parseCloseFrameData f.plain).1 (parseCloseFrameData f.plain).2), s1, cx1)
      ∧ s1.bytes = rest
      ∧ cx1.env.dst.writes = cx.env.dst.writes ++
          [rfcEncode (wireHeader (stIs state stClient) ⟨true, 0, opClose, false, Mask.zero, 2⟩ cx.env.popMask.1)
            ++ wirePayload (stIs state stClient) (f.plain.take 2) cx.env.popMask.1] := by
  have hctl : opIsControl f.h.op = true := by rw [hop]; rfl
  have hbytes : s.bytes = rfcEncode f.h ++ (f.wire ++ rest) := by rw [hb]; simp [WFrame.enc]
  have hwt : Bytes.WF (f.wire ++ rest) := by rw [hbytes] at hwf; exact wf_append_right hwf
  obtain ⟨s1, hrh, hb1, ht1, hmu1⟩ := readHeader_ok f.h hok.hwf _ hwt s hbytes htame
  have haccept : Accepts r0 f.h := ⟨by simp [hi.skip, hi.st, hacc], by simp [hi.maxF]⟩
  have hfr0 : r0.fragmented = false := by simp [Rd.fragmented, hi.st, hnf]
  have hnt : f.h.op ≠ opText := by rw [hop]; decide
  have hin : InFrame (enter r0 f.h) s1 f.wire rest :=
    ⟨by simp [enter], by simp [enter, hfr0, hnt], hb1, by simp [enter, hok.len], by rw [hb1]; exact hwt,
     by simp [enter]; exact hok.mwf, ht1⟩
  have hnf1 : (enter r0 f.h).fragmented = false := by
    simp [enter, Rd.fragmented, hfin, hi.st, clear_not_fragmented state hst]
  have hnext := nextFrame_unfragmented r0 s s1 cx (some inter) f.h hrh haccept hi.ext hfr0
  obtain ⟨chunks, r', s', hp, hfl, hb', _, _⟩ := pull_final_k (some inter) 32768 (by decide) (pullFuel s1) (enter r0 f.h) s1 cx []
    f.wire rest hin hnf1 (Or.inr (by simp [enter, hi.u8, Utf8Rd.valid]; rfl)) (by unfold pullFuel Src.fuel mu; omega)
  have hpl : plainOf (enter r0 f.h) f.wire = f.plain := by simp [plainOf, enter, WFrame.plain]; rfl
  rw [hpl] at hfl
  have hplen : f.plain.length = f.h.len := by rw [← hpl, plainOf_length, hok.len]
  have hpwf : Bytes.WF f.plain := by
    rw [← hpl]; exact plainOf_wf _ (by simp [enter]; exact hok.mwf) _ hok.wwf
  have hsb : ({ chunks := chunks, fin := .eof, ueofEnd := false } : CtlSrc).bytes = f.plain := by simp [CtlSrc.bytes, hfl]
  obtain ⟨e', hh, _, hw'⟩ := close_valid_ok (stIs state stClient) f.h
    { chunks := chunks, fin := .eof, ueofEnd := false } cx.env he errText hlen
    (by rw [hsb]; exact hplen) (by rw [hsb]; exact hpwf) (by rw [hsb]; exact hbody)
  rw [hsb] at hh hw'
  have hne : f.h.len ≠ 0 := by omega
  have hh2 : handleControl (stIs state stClient) f.h { chunks := chunks, fin := .eof, ueofEnd := false } false cx.env errText
      = some (some (.closed (parseCloseFrameData f.plain).1 (parseCloseFrameData f.plain).2), e') := by
    unfold handleControl
    have h1 : ¬ f.h.op = opPing := by rw [hop]; decide
    have h2 : ¬ f.h.op = opPong := by rw [hop]; decide
    rw [if_neg h1, if_neg h2, if_pos hop]; exact hh
  refine ⟨s', { cx with env := e', events := cx.events ++ [(f.h.op, chunks.flatten)] }, ?_, hb', hw'⟩
  rw [readData.loop]
  simp only [hnext, hctl, if_true]
  unfold controlFrameHandler
  simp only [hne, ne_eq, not_false_eq_true, hop, or_true, and_self, not_true_eq_false, if_false]
  simp only [hp, List.reverse_nil, List.nil_append]
  rw [← hop]
  simp [rdErrOf, hh2, cerrToR]

/-- **ReadData at a close frame with an acceptable status and reason**, behind any history: the 2-byte status is
    echoed in one final close frame (after the pongs), and ClosedError carries the peer's code and reason. -/
theorem readData_close_valid (state want : Nat) (errText : ProtoErr → Bytes) (s : Src) (env : Env) (fuel : Nat)
    (items : List Item) (f : WFrame) (rest : Bytes)
    (hst : state < 256) (hnf : stIs state stFragmented = false) (he : EnvOk env)
    (hall : ∀ it ∈ items, it.Good state want)
    (hok : f.OK) (hop : f.h.op = opClose) (hfin : f.h.fin = true) (hlen : 2 ≤ f.h.len ∧ f.h.len ≤ 125)
    (hacc : checkHeader f.h state = none)
    (hbody : checkCloseFrameData (parseCloseFrameData f.plain).1 (parseCloseFrameData f.plain).2 = none)
    (hb : s.bytes = encodeFs (items.map Item.frame) ++ (f.enc ++ rest)) (hwf : Bytes.WF s.bytes) (htame : Src.Tame s) :
    ∃ s' cx' ws m, readData state want errText s env (fuel + 1 + items.length)
        = ([], 0, some (.closed (parseCloseFrameData f.plain).1 (parseCloseFrameData f.plain).2), s', cx')
      ∧ s'.bytes = rest
      ∧ cx'.env.dst.writes = env.dst.writes ++ ws ++
          [rfcEncode (wireHeader (stIs state stClient) ⟨true, 0, opClose, false, Mask.zero, 2⟩ m)
            ++ wirePayload (stIs state stClient) (f.plain.take 2) m]
      ∧ PongsFor (stIs state stClient) ws (pingsOf items) := by
  unfold readData
  simp only
  generalize controlFrameHandler (stIs state stClient) errText false none = inter
  obtain ⟨r2, s2, cx2, ws, h2, hi2, hb2, hwf2, ht2, he2, hw2, hp2, _⟩ := loop_history state want errText inter (fuel + 1)
    (f.enc ++ rest) hst hnf items hall _ s { env } (idle_init state) he hb hwf htame
  rw [h2]
  obtain ⟨s1, cx1, h3, hb3, hw3⟩ := loop_close_valid state want errText inter r2 s2 cx2 fuel f rest hi2 he2 hst hnf hok hop hfin hlen hacc hbody hb2 hwf2 ht2
  exact ⟨s1, cx1, ws, _, h3, hb3, by rw [hw3, hw2], hp2⟩

end Ws.C08
