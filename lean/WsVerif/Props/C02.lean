/-
  C02 — Payload masking equals the RFC 6455 §5.3 XOR for any offset and chunking.
  Property theorems only; helper lemmas live in Proofs/Cipher.lean.
-/
import WsVerif.Proofs.Cipher
namespace Ws.C02
open Ws Ws.Spec

/-- ws.Cipher is the §5.3 XOR: byte i becomes payload[i] XOR key[(offset+i) mod 4] — for every
    length (the <8 byte loop, the head, every residue of the 16-byte unrolled loop, the tail),
    every offset (≥ 4 included) and every key; and it never panics. -/
theorem cipher_eq_spec (p : Bytes) (hp : Bytes.WF p) (m : Mask) (hm : m.WF) (off : Nat) :
    cipher p m off = some (xorSpec p m off) := by
  unfold cipher
  simp only
  by_cases h8 : p.length < 8
  · simp [h8, xorFrom_eq_spec]
  · simp only [h8, if_false]
    have hmp : off % 4 < 4 := Nat.mod_lt _ (by omega)
    generalize hmpos : off % 4 = mpos at hmp
    have hln : remain mpos ≤ 3 ∧ (mpos + remain mpos) % 4 = 0 := by
      match mpos, hmp with
      | 0, _ => simp [remain]
      | 1, _ => simp [remain]
      | 2, _ => simp [remain]
      | 3, _ => simp [remain]
    generalize remain mpos = ln at hln
    obtain ⟨hln3, hal⟩ := hln
    generalize hn : p.length = n at h8
    generalize hrn : (n - ln) % 16 = rn
    have hrn16 : rn < 16 := by rw [← hrn]; exact Nat.mod_lt _ (by omega)
    have hrnle : rn ≤ n - ln := by rw [← hrn]; exact Nat.mod_le _ _
    have hmidlen : ((p.drop ln).take (n - ln - rn)).length = 16 * ((n - ln - rn) >>> 4) := by
      rw [List.length_take, List.length_drop, hn, Nat.shiftRight_eq_div_pow]
      have : (n - ln - rn) % 16 = 0 := by omega
      omega
    have wf_mid : Bytes.WF ((p.drop ln).take (n - ln - rn)) :=
      fun x hx => hp x (List.mem_of_mem_drop (List.mem_of_mem_take hx))
    rw [wordLoop_eq m hm _ _ wf_mid hmidlen (mpos + ln) hal]
    simp only [Option.some.injEq]
    rw [← xorFrom_eq_spec]
    have hsplit : p = p.take ln ++ ((p.drop ln).take (n - ln - rn) ++ p.drop (n - rn)) := by
      have : p.drop (n - rn) = (p.drop ln).drop (n - ln - rn) := by
        rw [List.drop_drop]; congr 1; omega
      rw [this, List.take_append_drop, List.take_append_drop]
    have hl1 : (p.take ln).length = ln := by rw [List.length_take]; omega
    have hl2 : ((p.drop ln).take (n - ln - rn)).length = n - ln - rn := by
      rw [List.length_take, List.length_drop]; omega
    conv => rhs; rw [hsplit]
    rw [xorFrom_append, xorFrom_append, hl1, hl2, List.append_assoc]
    congr 1
    · exact xorFrom_congr m (by omega) _
    congr 1
    · exact xorFrom_congr m (by omega) _
    · exact xorFrom_congr m (by omega) _

/-- Applying the mask twice restores the input. -/
theorem xor_involutive (p : Bytes) (k : Mask) (off : Nat) :
    xorSpec (xorSpec p k off) k off = p := by
  rw [← xorFrom_eq_spec, ← xorFrom_eq_spec]
  induction p generalizing off with
  | nil => rfl
  | cons b bs ih =>
    simp only [xorFrom, ih]
    congr 1
    rw [Nat.xor_assoc, Nat.xor_self, Nat.xor_zero]

/-- Processing a payload as consecutive chunks with a running offset gives the same bytes as
    one call. -/
theorem xor_append (a b : Bytes) (k : Mask) (off : Nat) :
    xorSpec (a ++ b) k off = xorSpec a k off ++ xorSpec b k (off + a.length) := by
  simp only [← xorFrom_eq_spec, xorFrom_append]

theorem xor_chunks (cs : List Bytes) (k : Mask) (off : Nat) :
    xorSpec cs.flatten k off
      = (cs.foldl (fun (acc : Bytes × Nat) c => (acc.1 ++ xorSpec c k acc.2, acc.2 + c.length)) ([], off)).1 := by
  suffices h : ∀ (pre : Bytes) (o : Nat),
      (cs.foldl (fun (acc : Bytes × Nat) c => (acc.1 ++ xorSpec c k acc.2, acc.2 + c.length)) (pre, o)).1
        = pre ++ xorSpec cs.flatten k o by
    rw [h]; simp
  induction cs with
  | nil => intro pre o; simp [xorSpec]
  | cons c cs ih =>
    intro pre o
    simp only [List.foldl_cons, List.flatten_cons, ih, xor_append, List.append_assoc]

/-! ### streaming reader / writer under any chunking -/

/-- Drive a CipherReader with caller buffers of sizes `ks` until the list is exhausted or the
    source reports its end; returns the concatenated output. -/
def drainRd (c : CipherRd) (s : Src) : List Nat → Option (Bytes × CipherRd × Src)
  | [] => some ([], c, s)
  | k :: ks =>
    match c.read s k with
    | (none, _, _, _) => none
    | (some out, some _, c', s') => some (out, c', s')
    | (some out, none, c', s') =>
      match drainRd c' s' ks with
      | none => none
      | some (o2, c2, s2) => some (out ++ o2, c2, s2)

theorem src_read_split (s : Src) (k : Nat) :
    (s.read k).1 ++ (s.read k).2.2.bytes = s.bytes := by
  unfold Src.read Src.bytes
  cases hc : s.chunks with
  | nil => simp [hc]
  | cons c cs =>
    simp only
    split
    · simp
    · simp only [List.flatten_cons]
      rw [← List.append_assoc, List.take_append_drop]

theorem src_read_wf (s : Src) (k : Nat) (h : Bytes.WF s.bytes) :
    Bytes.WF (s.read k).1 ∧ Bytes.WF (s.read k).2.2.bytes := by
  have := src_read_split s k
  constructor <;> intro x hx <;> apply h <;> rw [← this] <;> simp [hx]

/-- The mask reader produces exactly the §5.3 XOR of the bytes it consumed, for any transport
    chunking, any caller buffer sizes, and data arriving together with the end-of-stream error;
    its position advances by the bytes actually transferred. -/
theorem reader_any_chunking (ks : List Nat) (c : CipherRd) (hm : c.mask.WF) (s : Src)
    (hs : Bytes.WF s.bytes) :
    ∃ out c' s', drainRd c s ks = some (out, c', s') ∧
      ∃ consumed, consumed ++ s'.bytes = s.bytes ∧ out = xorSpec consumed c.mask c.pos
        ∧ c'.pos = c.pos + consumed.length ∧ c'.mask = c.mask := by
  induction ks generalizing c s with
  | nil => exact ⟨[], c, s, rfl, [], by simp, by simp [xorSpec], by simp, rfl⟩
  | cons k ks ih =>
    have hsplit := src_read_split s k
    obtain ⟨hw1, hw2⟩ := src_read_wf s k hs
    simp only [drainRd, CipherRd.read]
    rcases hr : s.read k with ⟨got, e, s1⟩
    rw [hr] at hsplit hw1 hw2
    simp only at hsplit hw1 hw2
    simp only [cipher_eq_spec got hw1 c.mask hm c.pos]
    cases e with
    | some e =>
      exact ⟨_, _, _, rfl, got, hsplit, rfl, rfl, rfl⟩
    | none =>
      obtain ⟨o2, c2, s2, h2, cons2, hc2, ho2, hp2, hm2⟩ :=
        ih ⟨c.mask, c.pos + got.length⟩ hm s1 hw2
      simp only [h2]
      refine ⟨_, _, _, rfl, got ++ cons2, ?_, ?_, ?_, hm2⟩
      · rw [List.append_assoc, hc2, hsplit]
      · rw [xor_append, ho2]
      · simp only at hp2
        rw [hp2, List.length_append]; omega

/-- Drive a CipherWriter with writes `ps`, the destination accepting `acc` bytes of each (a short
    accept is an error and stops the writer's user). Returns what the destination received. -/
def drainWr (c : CipherWr) : List (Bytes × Nat) → Option (Bytes × CipherWr)
  | [] => some ([], c)
  | (p, n) :: rest =>
    match c.write p n with
    | (none, _, _) => none
    | (some sent, c', _) =>
      if n < p.length then some (sent, c')
      else match drainWr c' rest with
        | none => none
        | some (o2, c2) => some (sent ++ o2, c2)

/-- The mask writer sends exactly the §5.3 XOR of what it was given (fully accepted writes
    followed by at most one short write), never touching the caller's slices. -/
theorem writer_any_chunking (ws : List (Bytes × Nat)) (c : CipherWr) (hm : c.mask.WF)
    (hw : ∀ w ∈ ws, Bytes.WF w.1) :
    ∃ out c', drainWr c ws = some (out, c') ∧
      ∃ given, out = (xorSpec given c.mask c.pos).take out.length ∧ out.length ≤ given.length
        ∧ given <+: (ws.map (·.1)).flatten := by
  induction ws generalizing c with
  | nil => exact ⟨[], c, rfl, [], by simp [xorSpec], by simp, by simp⟩
  | cons w ws ih =>
    obtain ⟨p, n⟩ := w
    have hp : Bytes.WF p := hw (p, n) (by simp)
    simp only [drainWr, CipherWr.write, cipher_eq_spec p hp c.mask hm c.pos, Option.map_some]
    by_cases hn : n < p.length
    · simp only [if_pos hn]
      refine ⟨_, _, rfl, p, ?_, ?_, ?_⟩
      · simp [List.take_take]
      · simp [xorSpec]; omega
      · simp
    · simp only [if_neg hn]
      obtain ⟨o2, c2, h2, g2, e2, l2, pre2⟩ :=
        ih ⟨c.mask, c.pos + min n p.length⟩ hm (fun w hw' => hw w (by simp [hw']))
      simp only [h2]
      have hmin : min n p.length = p.length := by omega
      have hfull : (xorSpec p c.mask c.pos).take n = xorSpec p c.mask c.pos := by
        apply List.take_of_length_le; simp [xorSpec]; omega
      refine ⟨_, _, rfl, p ++ g2, ?_, ?_, ?_⟩
      · rw [hfull, xor_append, List.length_append]
        have hl : (xorSpec p c.mask c.pos).length = p.length := by simp [xorSpec]
        rw [List.take_append, hl, List.take_of_length_le (by omega)]
        congr 1
        simp only [hmin] at e2
        rw [Nat.add_sub_cancel_left]; exact e2
      · simp only [hfull, List.length_append]
        have hl : (xorSpec p c.mask c.pos).length = p.length := by simp [xorSpec]
        omega
      · simp only [List.map_cons, List.flatten_cons]
        exact (List.prefix_append_right_inj p).mpr pre2

/-! ### frame helpers -/

/-- MaskFrameWith / MaskFrameInPlaceWith: Masked and Mask set, payload = §5.3 XOR at offset 0;
    the copying variant leaves the caller's bytes unmodified, the in-place one rewrites them. -/
theorem maskFrame_fields (f : Frame) (hp : Bytes.WF f.payload) (m : Mask) (hm : m.WF) :
    maskFrameWith f m = some (⟨{ f.header with masked := true, mask := m }, xorSpec f.payload m 0⟩, f.payload)
    ∧ maskFrameInPlaceWith f m
        = some (⟨{ f.header with masked := true, mask := m }, xorSpec f.payload m 0⟩, xorSpec f.payload m 0) := by
  simp [maskFrameWith, maskFrameInPlaceWith, cipher_eq_spec f.payload hp m hm 0]

/-- UnmaskFrame / UnmaskFrameInPlace: Masked and Mask cleared (for every key, the all-zero key
    included), payload = §5.3 XOR with the header's key; the copying variant leaves the caller's
    bytes unmodified. -/
theorem unmaskFrame_fields (f : Frame) (hp : Bytes.WF f.payload) (hm : f.header.mask.WF) :
    unmaskFrame f = some (⟨{ f.header with masked := false, mask := Mask.zero },
                           xorSpec f.payload f.header.mask 0⟩, f.payload)
    ∧ unmaskFrameInPlace f = some (⟨{ f.header with masked := false, mask := Mask.zero },
                           xorSpec f.payload f.header.mask 0⟩, xorSpec f.payload f.header.mask 0) := by
  simp [unmaskFrame, unmaskFrameInPlace, cipher_eq_spec f.payload hp f.header.mask hm 0]

/-- Mask then unmask is the identity on the payload. -/
theorem mask_unmask (f : Frame) (hp : Bytes.WF f.payload) (m : Mask) (hm : m.WF) :
    ∃ g, (maskFrameWith f m).map (·.1) = some g ∧
      (unmaskFrame g).map (·.1.payload) = some f.payload := by
  have hx : Bytes.WF (xorSpec f.payload m 0) := by
    rw [← xorFrom_eq_spec]; exact xorFrom_wf m hm 0 _ hp
  refine ⟨_, by rw [(maskFrame_fields f hp m hm).1]; rfl, ?_⟩
  rw [(unmaskFrame_fields _ hx hm).1]
  simp [xor_involutive]

/-! Non-vacuity: a 21-byte payload at offset 6 exercises head (2), one 16-byte round and tail (3). -/
example : cipher (List.range 21) ⟨1, 2, 3, 4⟩ 6
    = some (xorSpec (List.range 21) ⟨1, 2, 3, 4⟩ 6) := by decide
example : (cipher (List.range 21) ⟨1, 2, 3, 4⟩ 6).map (·.take 4) = some [3, 5, 3, 1] := by decide

end Ws.C02
