/-
  C06 — Fragmenting writer emits one well-formed message per flush and loses no byte.
-/
import WsVerif.Model.Writer
import WsVerif.Spec.Header
import WsVerif.Spec.Cipher
import WsVerif.Props.C01
import WsVerif.Props.C02
namespace Ws.C06
open Ws Ws.Spec

/-- The arithmetic core: whatever fits the payload area of a buffer needs a header that fits the
    space `reserve` set aside for it — across the 125/126 and 65535/65536 thresholds, both sides. -/
theorem reserve_sufficient (client : Bool) (rawLen n : Nat)
    (h : n ≤ rawLen - reserve client rawLen) : wHeaderSize client n ≤ reserve client rawLen := by
  unfold wHeaderSize reserve at *
  cases client <;> simp only [if_true, if_false, Bool.false_eq_true] at * <;>
    (split at h <;> (try split at h) <;> split <;> (try split) <;> omega)

/-- The writer's structural invariant: header space was reserved for the current buffer size, the
    buffer has room for at least one payload byte, and the buffered bytes fit. -/
structure Inv (w : Wr) : Prop where
  off_eq : w.off = reserve w.client w.rawLen
  room : w.off < w.rawLen
  fits : w.buf.length ≤ w.size

theorem inv_new (client : Bool) (op rawLen : Nat) (w : Wr) (h : newWriterBuffer client op rawLen = some w) :
    Inv w := by
  unfold newWriterBuffer at h
  simp only at h
  split at h
  · simp at h
  · rename_i hlt
    simp only [Option.some.injEq] at h
    subst h
    exact ⟨rfl, by simp only; omega, by simp [Wr.size]⟩

/-- Length of the header the encoder emits = wHeaderSize. -/
theorem writeHeader_len (h : Header) (hw : h.WF) :
    ∃ hb, writeHeader h = .ok hb ∧ hb.length = wHeaderSize h.masked h.len := by
  refine ⟨rfcEncode h, C01.write_eq_rfc h hw, ?_⟩
  rw [C01.rfc_len]
  unfold rfcSize wHeaderSize
  by_cases h1 : h.len ≤ 125 <;> by_cases h2 : h.len ≤ 65535 <;> cases h.masked <;> simp [h1, h2] <;> omega

/-- Environment well-formedness: drawn masks are bytes; no destination failure is scheduled. -/
structure EnvOk (e : Env) : Prop where
  masks_wf : ∀ m ∈ e.masks, m.WF
  no_fail : e.dst.failAt = none

theorem extRsv_lt (ext : Option Bool) (op : Nat) : extRsv ext op < 8 := by
  unfold extRsv; split <;> (try split) <;> omega

theorem dst_write_ok (d : Dst) (p : Bytes) (h : d.failAt = none) :
    d.write p = (true, { d with writes := d.writes ++ [p], calls := d.calls + 1 }) := by
  unfold Dst.write; simp [h]

theorem popMask_dst (e : Env) : e.popMask.2.dst = e.dst := by
  unfold Env.popMask; split <;> rfl

theorem Mask.zero_wf : Mask.zero.WF := by decide

theorem popMask_wf (e : Env) (h : EnvOk e) : e.popMask.1.WF ∧ EnvOk e.popMask.2 := by
  unfold Env.popMask
  split
  · exact ⟨Mask.zero_wf, h⟩
  · rename_i m ms hm
    refine ⟨h.masks_wf m (by simp [hm]), ⟨?_, h.no_fail⟩⟩
    intro x hx; exact h.masks_wf x (by simp [hm, hx])

/-- The header that goes on the wire for an unmasked template `h0`. -/
def wireHeader (client : Bool) (h0 : Header) (m : Mask) : Header :=
  if client then { h0 with masked := true, mask := m } else h0

def wirePayload (client : Bool) (p : Bytes) (m : Mask) : Bytes :=
  if client then xorSpec p m 0 else p

/-- Sealing a frame yields the §5.2 bytes of its header (masked iff client, with the drawn key)
    and the §5.3-masked payload; it never panics and leaves the caller's bytes alone. -/
theorem sealFrame_spec (client : Bool) (h0 : Header) (p : Bytes) (e : Env) (he : EnvOk e)
    (hh : h0.WF) (hnm : h0.masked = false) (hp : Bytes.WF p) :
    sealFrame client h0 p e = some (rfcEncode (wireHeader client h0 e.popMask.1),
      wirePayload client p e.popMask.1, if client then e.popMask.2 else e)
    ∧ (wireHeader client h0 e.popMask.1).WF := by
  obtain ⟨hmwf, _⟩ := popMask_wf e he
  obtain ⟨a, b, c, _, _⟩ := hh
  unfold sealFrame wireHeader wirePayload
  cases client
  · have hw : h0.WF := ⟨a, b, c, by assumption, by assumption⟩
    simp [C01.write_eq_rfc h0 hw, hw]
  · have hw : ({ h0 with masked := true, mask := e.popMask.1 } : Header).WF :=
      ⟨a, b, c, hmwf, by simp⟩
    simp [C01.write_eq_rfc _ hw, C02.cipher_eq_spec p hp _ hmwf 0, hw]

/-- The unmasked header template of the frame a flush emits. -/
def flushTemplate (w : Wr) (fin : Bool) : Header :=
  { fin, rsv := extRsv w.ext w.opCode, op := w.opCode, masked := false, mask := Mask.zero, len := w.buf.length }

theorem flushTemplate_wf (w : Wr) (fin : Bool) (hop : w.op < 16) (hlen : w.buf.length < 2 ^ 63) :
    (flushTemplate w fin).WF := by
  refine ⟨extRsv_lt _ _, ?_, hlen, Mask.zero_wf, fun _ => rfl⟩
  show w.opCode < 16
  unfold Wr.opCode opContinuation; split <;> omega

/-- A flush sends, in ONE destination write, exactly one frame: the §5.2 header for (fin, opcode
    or continuation, RSV1 only from the compression extension on a first frame, masked iff client)
    followed by the buffered bytes, XOR-masked with the drawn key on the client side. It never
    panics: the header always fits the reserved space. -/
theorem flushFragment_spec (w : Wr) (e : Env) (fin : Bool) (hinv : Inv w) (he : EnvOk e)
    (hop : w.op < 16) (hbuf : Bytes.WF w.buf) (hlen : w.buf.length < 2 ^ 63) :
    ∃ e', w.flushFragment e fin = some (true, e') ∧ EnvOk e'
      ∧ e'.dst.writes = e.dst.writes ++ [rfcEncode (wireHeader w.client (flushTemplate w fin) e.popMask.1)
                                          ++ wirePayload w.client w.buf e.popMask.1]
      ∧ e'.masks = (if w.client then e.popMask.2.masks else e.masks) := by
  have htw := flushTemplate_wf w fin hop hlen
  obtain ⟨hs, hwf⟩ := sealFrame_spec w.client (flushTemplate w fin) w.buf e he htw rfl hbuf
  obtain ⟨_, he2⟩ := popMask_wf e he
  have hfit : ¬ (rfcEncode (wireHeader w.client (flushTemplate w fin) e.popMask.1)).length > w.off := by
    rw [C01.rfc_len, hinv.off_eq]
    have h1 := reserve_sufficient w.client w.rawLen w.buf.length (by
      have := hinv.fits; unfold Wr.size at this; rw [hinv.off_eq] at this; exact this)
    unfold wHeaderSize at h1
    unfold rfcSize wireHeader flushTemplate
    generalize reserve w.client w.rawLen = r at h1 ⊢
    generalize w.client = c at h1 ⊢
    cases c <;> simp only [if_true, if_false, Bool.false_eq_true] at h1 ⊢ <;>
      (split <;> (try split) <;> split at h1 <;> (try split at h1) <;> omega)
  unfold Wr.flushFragment
  have : ({ fin := fin, rsv := extRsv w.ext w.opCode, op := w.opCode, masked := false, mask := Mask.zero,
            len := w.buf.length } : Header) = flushTemplate w fin := rfl
  simp only [this, hs, if_neg hfit]
  cases hc : w.client
  · simp only [Bool.false_eq_true, if_false, dst_write_ok _ _ he.no_fail]
    exact ⟨_, rfl, ⟨he.masks_wf, he.no_fail⟩, rfl, rfl⟩
  · simp only [if_true, dst_write_ok _ _ he2.no_fail]
    refine ⟨_, rfl, ⟨he2.masks_wf, he2.no_fail⟩, ?_, rfl⟩
    simp only [popMask_dst]

/-- A final flush with nothing written emits nothing and changes nothing. -/
theorem empty_flush_emits_nothing (w : Wr) (e : Env) (hd : w.dirty = false) (hb : w.buf = [])
    (herr : w.err = false) : w.flush e = some (none, w, e) := by
  unfold Wr.flush; simp [hd, hb, herr]

/-- Flush: one final frame carrying everything buffered; afterwards the writer is at a message
    boundary (fseq = 0, not dirty, empty buffer) and the invariant holds. -/
theorem flush_spec (w : Wr) (e : Env) (hinv : Inv w) (he : EnvOk e) (hop : w.op < 16)
    (hbuf : Bytes.WF w.buf) (hlen : w.buf.length < 2 ^ 63) (herr : w.err = false)
    (hdirty : w.dirty = true ∨ w.buf ≠ []) :
    ∃ w' e', w.flush e = some (none, w', e') ∧ Inv w' ∧ EnvOk e'
      ∧ w' = { w with buf := [], dirty := false, fseq := 0 }
      ∧ e'.dst.writes = e.dst.writes ++ [rfcEncode (wireHeader w.client (flushTemplate w true) e.popMask.1)
                                          ++ wirePayload w.client w.buf e.popMask.1] := by
  obtain ⟨e', h1, h2, h3, _⟩ := flushFragment_spec w e true hinv he hop hbuf hlen
  have hc : ((!w.dirty && w.buf.length == 0) || w.err) = false := by
    rcases hdirty with h | h
    · simp [h, herr]
    · cases hb : w.buf with
      | nil => exact absurd hb h
      | cons x xs => simp [herr]
  unfold Wr.flush
  simp only [hc, h1, Bool.false_eq_true, if_false]
  refine ⟨_, _, rfl, ?_, h2, by simp [herr], h3⟩
  exact ⟨hinv.off_eq, hinv.room, by simp [Wr.size]⟩

/-- FlushFragment: one non-final frame carrying everything buffered; the next frame of the message
    will be a continuation. With an empty buffer it sends nothing. -/
theorem flushFrag_spec (w : Wr) (e : Env) (hinv : Inv w) (he : EnvOk e) (hop : w.op < 16)
    (hbuf : Bytes.WF w.buf) (hlen : w.buf.length < 2 ^ 63) (herr : w.err = false) :
    (w.buf = [] → w.flushFrag e = some (none, w, e))
    ∧ (w.buf ≠ [] → ∃ w' e', w.flushFrag e = some (none, w', e') ∧ Inv w' ∧ EnvOk e'
        ∧ w' = { w with buf := [], fseq := w.fseq + 1 }
        ∧ e'.dst.writes = e.dst.writes ++ [rfcEncode (wireHeader w.client (flushTemplate w false) e.popMask.1)
                                            ++ wirePayload w.client w.buf e.popMask.1]) := by
  constructor
  · intro hb; unfold Wr.flushFrag; simp [hb, herr]
  · intro hb
    obtain ⟨e', h1, h2, h3, _⟩ := flushFragment_spec w e false hinv he hop hbuf hlen
    have hc : (w.buf.length == 0 || w.err) = false := by
      cases hb' : w.buf with
      | nil => exact absurd hb' hb
      | cons x xs => simp [herr]
    unfold Wr.flushFrag
    simp only [hc, h1, Bool.false_eq_true, if_false]
    refine ⟨_, _, rfl, ?_, h2, by simp [herr], h3⟩
    exact ⟨hinv.off_eq, hinv.room, by simp [Wr.size]⟩

/-- WriteThrough on an empty buffer: exactly one non-final frame with the caller's bytes (two
    destination writes: header, payload); the caller's bytes are reported as accepted in full. -/
theorem writeThrough_spec (w : Wr) (e : Env) (p : Bytes) (hinv : Inv w) (he : EnvOk e) (hop : w.op < 16)
    (hp : Bytes.WF p) (hlen : p.length < 2 ^ 63) (herr : w.err = false) (hb : w.buf = []) :
    ∃ w' e', w.writeThrough e p = some (p.length, none, w', e') ∧ Inv w' ∧ EnvOk e'
      ∧ w' = { w with dirty := true, fseq := w.fseq + 1 }
      ∧ e'.dst.writes = e.dst.writes ++
          [rfcEncode (wireHeader w.client { flushTemplate w false with len := p.length } e.popMask.1),
           wirePayload w.client p e.popMask.1] := by
  have htw : ({ flushTemplate w false with len := p.length } : Header).WF := by
    obtain ⟨a, b, _, d, f⟩ := flushTemplate_wf w false hop (by simp [hb])
    exact ⟨a, b, hlen, d, f⟩
  obtain ⟨hs, _⟩ := sealFrame_spec w.client _ p e he htw rfl hp
  obtain ⟨_, he2⟩ := popMask_wf e he
  unfold Wr.writeThrough
  have : ({ fin := false, rsv := extRsv w.ext w.opCode, op := w.opCode, masked := false, mask := Mask.zero,
            len := p.length } : Header) = { flushTemplate w false with len := p.length } := rfl
  simp only [herr, hb, this, hs, List.length_nil, bne_self_eq_false, Bool.false_eq_true, if_false]
  have hf2 : e.popMask.2.dst.failAt = none := he2.no_fail
  generalize hH : rfcEncode (wireHeader w.client { flushTemplate w false with len := p.length } e.popMask.1) = H
  generalize hP : wirePayload w.client p e.popMask.1 = P
  cases hc : w.client
  · refine ⟨{ w with dirty := true, fseq := w.fseq + 1 },
      { e with dst := { e.dst with writes := e.dst.writes ++ [H, P], calls := e.dst.calls + 1 + 1 } },
      ?_, ⟨hinv.off_eq, hinv.room, by simp [Wr.size, hb]⟩, ⟨he.masks_wf, he.no_fail⟩, by rw [hc, hb, herr], rfl⟩
    simp [Dst.write, he.no_fail, herr, hc, hb]
  · refine ⟨{ w with dirty := true, fseq := w.fseq + 1 },
      { e.popMask.2 with dst := { e.popMask.2.dst with writes := e.dst.writes ++ [H, P], calls := e.popMask.2.dst.calls + 1 + 1 } },
      ?_, ⟨hinv.off_eq, hinv.room, by simp [Wr.size, hb]⟩, ⟨he2.masks_wf, hf2⟩, by rw [hc, hb, herr], rfl⟩
    simp [Dst.write, hf2, he.no_fail, herr, popMask_dst, hc, hb]

/-- Data that fits the free space of the buffer is buffered: nothing is sent, nothing is lost. -/
theorem write_loop_fits (fuel : Nat) (w : Wr) (e : Env) (p : Bytes) (n : Nat)
    (hfit : p.length ≤ w.available) (herr : w.err = false) :
    Wr.write.loop fuel w e p n = some (n + p.length, none, { w with buf := w.buf ++ p }, e) := by
  have hc : (decide (p.length > w.available) && !false) = false := by
    have : ¬ p.length > w.available := by omega
    simp [this]
  unfold Wr.write.loop
  simp only [herr, hc, Bool.false_eq_true, if_false]

theorem write_fits (w : Wr) (e : Env) (p : Bytes) (hfit : p.length ≤ w.available) (herr : w.err = false) :
    w.write e p = some (p.length, none, { w with dirty := true, buf := w.buf ++ p }, e) := by
  unfold Wr.write
  rw [write_loop_fits 6 { w with dirty := true } e p 0 (by simpa [Wr.available, Wr.size] using hfit) (by simpa using herr)]
  simp

/-! Non-vacuity: a 16-byte server buffer reserves 2 bytes; writing 15 bytes flushes a full
    14-byte fragment... no pre-emptive flush: 14 bytes stay buffered, then one final frame. -/
example : (newWriterBuffer false 1 16).map (·.size) = some 14 := by decide
example : ∃ w, newWriterBuffer true 2 131 = some w ∧ Inv w := ⟨_, rfl, inv_new true 2 131 _ rfl⟩

end Ws.C06
