/-
  C06 — Fragmenting writer emits one well-formed message per flush and loses no byte.
-/
import WsVerif.Model.Writer
import WsVerif.Spec.Header
import WsVerif.Spec.Cipher
import WsVerif.Props.C01
import WsVerif.Props.C02
namespace Ws.C06
open Ws Ws.Spec

/-- The arithmetic core: whatever fits the payload area of a buffer needs a header that fits the
    space `reserve` set aside for it — across the 125/126 and 65535/65536 thresholds, both sides. -/
theorem reserve_sufficient (client : Bool) (rawLen n : Nat)
    (h : n ≤ rawLen - reserve client rawLen) : wHeaderSize client n ≤ reserve client rawLen := by
  unfold wHeaderSize reserve at *
  cases client <;> simp only [if_true, if_false, Bool.false_eq_true] at * <;>
    (split at h <;> (try split at h) <;> split <;> (try split) <;> omega)

/-- The writer's structural invariant: header space was reserved for the current buffer size, the
    buffer has room for at least one payload byte, and the buffered bytes fit. -/
structure Inv (w : Wr) : Prop where
  off_eq : w.off = reserve w.client w.rawLen
  room : w.off < w.rawLen
  fits : w.buf.length ≤ w.size

theorem inv_new (client : Bool) (op rawLen : Nat) (w : Wr) (h : newWriterBuffer client op rawLen = some w) :
    Inv w := by
  unfold newWriterBuffer at h
  simp only at h
  split at h
  · simp at h
  · rename_i hlt
    simp only [Option.some.injEq] at h
    subst h
    exact ⟨rfl, by simp only; omega, by simp [Wr.size]⟩

/-- Length of the header the encoder emits = wHeaderSize. -/
theorem writeHeader_len (h : Header) (hw : h.WF) :
    ∃ hb, writeHeader h = .ok hb ∧ hb.length = wHeaderSize h.masked h.len := by
  refine ⟨rfcEncode h, C01.write_eq_rfc h hw, ?_⟩
  rw [C01.rfc_len]
  unfold rfcSize wHeaderSize
  by_cases h1 : h.len ≤ 125 <;> by_cases h2 : h.len ≤ 65535 <;> cases h.masked <;> simp [h1, h2] <;> omega

/-- Environment well-formedness: drawn masks are bytes; no destination failure is scheduled. -/
structure EnvOk (e : Env) : Prop where
  masks_wf : ∀ m ∈ e.masks, m.WF
  no_fail : e.dst.failAt = none

theorem extRsv_lt (ext : Option Bool) (op : Nat) : extRsv ext op < 8 := by
  unfold extRsv; split <;> (try split) <;> omega

theorem dst_write_ok (d : Dst) (p : Bytes) (h : d.failAt = none) :
    d.write p = (true, { d with writes := d.writes ++ [p], calls := d.calls + 1 }) := by
  unfold Dst.write; simp [h]

theorem popMask_dst (e : Env) : e.popMask.2.dst = e.dst := by
  unfold Env.popMask; split <;> rfl

theorem popMask_masks (e : Env) : e.popMask.2.masks = e.masks.drop 1 := by
  obtain ⟨d, ms⟩ := e; cases ms <;> rfl

theorem Mask.zero_wf : Mask.zero.WF := by decide

theorem popMask_wf (e : Env) (h : EnvOk e) : e.popMask.1.WF ∧ EnvOk e.popMask.2 := by
  unfold Env.popMask
  split
  · exact ⟨Mask.zero_wf, h⟩
  · rename_i m ms hm
    refine ⟨h.masks_wf m (by simp [hm]), ⟨?_, h.no_fail⟩⟩
    intro x hx; exact h.masks_wf x (by simp [hm, hx])

/-- The header that goes on the wire for an unmasked template `h0`. -/
def wireHeader (client : Bool) (h0 : Header) (m : Mask) : Header :=
  if client then { h0 with masked := true, mask := m } else h0

def wirePayload (client : Bool) (p : Bytes) (m : Mask) : Bytes :=
  if client then xorSpec p m 0 else p

/-- Sealing a frame yields the §5.2 bytes of its header (masked iff client, with the drawn key)
    and the §5.3-masked payload; it never panics and leaves the caller's bytes alone. -/
theorem sealFrame_spec (client : Bool) (h0 : Header) (p : Bytes) (e : Env) (he : EnvOk e)
    (hh : h0.WF) (hnm : h0.masked = false) (hp : Bytes.WF p) :
    sealFrame client h0 p e = some (rfcEncode (wireHeader client h0 e.popMask.1),
      wirePayload client p e.popMask.1, if client then e.popMask.2 else e)
    ∧ (wireHeader client h0 e.popMask.1).WF := by
  obtain ⟨hmwf, _⟩ := popMask_wf e he
  obtain ⟨a, b, c, _, _⟩ := hh
  unfold sealFrame wireHeader wirePayload
  cases client
  · have hw : h0.WF := ⟨a, b, c, by assumption, by assumption⟩
    simp [C01.write_eq_rfc h0 hw, hw]
  · have hw : ({ h0 with masked := true, mask := e.popMask.1 } : Header).WF :=
      ⟨a, b, c, hmwf, by simp⟩
    simp [C01.write_eq_rfc _ hw, C02.cipher_eq_spec p hp _ hmwf 0, hw]

/-- The unmasked header template of the frame a flush emits. -/
def flushTemplate (w : Wr) (fin : Bool) : Header :=
  { fin, rsv := extRsv w.ext w.opCode, op := w.opCode, masked := false, mask := Mask.zero, len := w.buf.length }

theorem flushTemplate_wf (w : Wr) (fin : Bool) (hop : w.op < 16) (hlen : w.buf.length < 2 ^ 63) :
    (flushTemplate w fin).WF := by
  refine ⟨extRsv_lt _ _, ?_, hlen, Mask.zero_wf, fun _ => rfl⟩
  show w.opCode < 16
  unfold Wr.opCode opContinuation; split <;> omega

/-- A flush sends, in ONE destination write, exactly one frame: the §5.2 header for (fin, opcode
    or continuation, RSV1 only from the compression extension on a first frame, masked iff client)
    followed by the buffered bytes, XOR-masked with the drawn key on the client side. It never
    panics: the header always fits the reserved space. -/
theorem flushFragment_spec (w : Wr) (e : Env) (fin : Bool) (hinv : Inv w) (he : EnvOk e)
    (hop : w.op < 16) (hbuf : Bytes.WF w.buf) (hlen : w.buf.length < 2 ^ 63) :
    ∃ e', w.flushFragment e fin = some (true, e') ∧ EnvOk e'
      ∧ e'.dst.writes = e.dst.writes ++ [rfcEncode (wireHeader w.client (flushTemplate w fin) e.popMask.1)
                                          ++ wirePayload w.client w.buf e.popMask.1]
      ∧ e'.masks = (if w.client then e.popMask.2.masks else e.masks) := by
  have htw := flushTemplate_wf w fin hop hlen
  obtain ⟨hs, hwf⟩ := sealFrame_spec w.client (flushTemplate w fin) w.buf e he htw rfl hbuf
  obtain ⟨_, he2⟩ := popMask_wf e he
  have hfit : ¬ (rfcEncode (wireHeader w.client (flushTemplate w fin) e.popMask.1)).length > w.off := by
    rw [C01.rfc_len, hinv.off_eq]
    have h1 := reserve_sufficient w.client w.rawLen w.buf.length (by
      have := hinv.fits; unfold Wr.size at this; rw [hinv.off_eq] at this; exact this)
    unfold wHeaderSize at h1
    unfold rfcSize wireHeader flushTemplate
    generalize reserve w.client w.rawLen = r at h1 ⊢
    generalize w.client = c at h1 ⊢
    cases c <;> simp only [if_true, if_false, Bool.false_eq_true] at h1 ⊢ <;>
      (split <;> (try split) <;> split at h1 <;> (try split at h1) <;> omega)
  unfold Wr.flushFragment
  have : ({ fin := fin, rsv := extRsv w.ext w.opCode, op := w.opCode, masked := false, mask := Mask.zero,
            len := w.buf.length } : Header) = flushTemplate w fin := rfl
  simp only [this, hs, if_neg hfit]
  cases hc : w.client
  · simp only [Bool.false_eq_true, if_false, dst_write_ok _ _ he.no_fail]
    exact ⟨_, rfl, ⟨he.masks_wf, he.no_fail⟩, rfl, rfl⟩
  · simp only [if_true, dst_write_ok _ _ he2.no_fail]
    refine ⟨_, rfl, ⟨he2.masks_wf, he2.no_fail⟩, ?_, rfl⟩
    simp only [popMask_dst]

/-- A final flush with nothing written emits nothing and changes nothing. -/
theorem empty_flush_emits_nothing (w : Wr) (e : Env) (hd : w.dirty = false) (hb : w.buf = [])
    (herr : w.err = false) : w.flush e = some (none, w, e) := by
  unfold Wr.flush; simp [hd, hb, herr]

/-- Flush: one final frame carrying everything buffered; afterwards the writer is at a message
    boundary (fseq = 0, not dirty, empty buffer) and the invariant holds. -/
theorem flush_spec (w : Wr) (e : Env) (hinv : Inv w) (he : EnvOk e) (hop : w.op < 16)
    (hbuf : Bytes.WF w.buf) (hlen : w.buf.length < 2 ^ 63) (herr : w.err = false)
    (hdirty : w.dirty = true ∨ w.buf ≠ []) :
    ∃ w' e', w.flush e = some (none, w', e') ∧ Inv w' ∧ EnvOk e'
      ∧ w' = { w with buf := [], dirty := false, fseq := 0 }
      ∧ e'.dst.writes = e.dst.writes ++ [rfcEncode (wireHeader w.client (flushTemplate w true) e.popMask.1)
                                          ++ wirePayload w.client w.buf e.popMask.1]
      ∧ e'.masks = (if w.client then e.masks.drop 1 else e.masks) := by
  obtain ⟨e', h1, h2, h3, h4⟩ := flushFragment_spec w e true hinv he hop hbuf hlen
  rw [popMask_masks] at h4
  have hc : ((!w.dirty && w.buf.length == 0) || w.err) = false := by
    rcases hdirty with h | h
    · simp [h, herr]
    · cases hb : w.buf with
      | nil => exact absurd hb h
      | cons x xs => simp [herr]
  unfold Wr.flush
  simp only [hc, h1, Bool.false_eq_true, if_false]
  refine ⟨_, _, rfl, ?_, h2, by simp [herr], h3, h4⟩
  exact ⟨hinv.off_eq, hinv.room, by simp [Wr.size]⟩

/-- FlushFragment: one non-final frame carrying everything buffered; the next frame of the message
    will be a continuation. With an empty buffer it sends nothing. -/
theorem flushFrag_spec (w : Wr) (e : Env) (hinv : Inv w) (he : EnvOk e) (hop : w.op < 16)
    (hbuf : Bytes.WF w.buf) (hlen : w.buf.length < 2 ^ 63) (herr : w.err = false) :
    (w.buf = [] → w.flushFrag e = some (none, w, e))
    ∧ (w.buf ≠ [] → ∃ w' e', w.flushFrag e = some (none, w', e') ∧ Inv w' ∧ EnvOk e'
        ∧ w' = { w with buf := [], fseq := w.fseq + 1 }
        ∧ e'.dst.writes = e.dst.writes ++ [rfcEncode (wireHeader w.client (flushTemplate w false) e.popMask.1)
                                            ++ wirePayload w.client w.buf e.popMask.1]
        ∧ e'.masks = (if w.client then e.masks.drop 1 else e.masks)) := by
  constructor
  · intro hb; unfold Wr.flushFrag; simp [hb, herr]
  · intro hb
    obtain ⟨e', h1, h2, h3, h4⟩ := flushFragment_spec w e false hinv he hop hbuf hlen
    rw [popMask_masks] at h4
    have hc : (w.buf.length == 0 || w.err) = false := by
      cases hb' : w.buf with
      | nil => exact absurd hb' hb
      | cons x xs => simp [herr]
    unfold Wr.flushFrag
    simp only [hc, h1, Bool.false_eq_true, if_false]
    refine ⟨_, _, rfl, ?_, h2, by simp [herr], h3, h4⟩
    exact ⟨hinv.off_eq, hinv.room, by simp [Wr.size]⟩

/-- WriteThrough on an empty buffer: exactly one non-final frame with the caller's bytes (two
    destination writes: header, payload); the caller's bytes are reported as accepted in full. -/
theorem writeThrough_spec (w : Wr) (e : Env) (p : Bytes) (hinv : Inv w) (he : EnvOk e) (hop : w.op < 16)
    (hp : Bytes.WF p) (hlen : p.length < 2 ^ 63) (herr : w.err = false) (hb : w.buf = []) :
    ∃ w' e', w.writeThrough e p = some (p.length, none, w', e') ∧ Inv w' ∧ EnvOk e'
      ∧ w' = { w with dirty := true, fseq := w.fseq + 1 }
      ∧ e'.dst.writes = e.dst.writes ++
          [rfcEncode (wireHeader w.client { flushTemplate w false with len := p.length } e.popMask.1),
           wirePayload w.client p e.popMask.1]
      ∧ e'.masks = (if w.client then e.masks.drop 1 else e.masks) := by
  have htw : ({ flushTemplate w false with len := p.length } : Header).WF := by
    obtain ⟨a, b, _, d, f⟩ := flushTemplate_wf w false hop (by simp [hb])
    exact ⟨a, b, hlen, d, f⟩
  obtain ⟨hs, _⟩ := sealFrame_spec w.client _ p e he htw rfl hp
  obtain ⟨_, he2⟩ := popMask_wf e he
  unfold Wr.writeThrough
  have : ({ fin := false, rsv := extRsv w.ext w.opCode, op := w.opCode, masked := false, mask := Mask.zero,
            len := p.length } : Header) = { flushTemplate w false with len := p.length } := rfl
  simp only [herr, hb, this, hs, List.length_nil, bne_self_eq_false, Bool.false_eq_true, if_false]
  have hf2 : e.popMask.2.dst.failAt = none := he2.no_fail
  generalize hH : rfcEncode (wireHeader w.client { flushTemplate w false with len := p.length } e.popMask.1) = H
  generalize hP : wirePayload w.client p e.popMask.1 = P
  cases hc : w.client
  · refine ⟨{ w with dirty := true, fseq := w.fseq + 1 },
      { e with dst := { e.dst with writes := e.dst.writes ++ [H, P], calls := e.dst.calls + 1 + 1 } },
      ?_, ⟨hinv.off_eq, hinv.room, by simp [Wr.size, hb]⟩, ⟨he.masks_wf, he.no_fail⟩, by rw [hc, hb, herr], rfl, by simp⟩
    simp [Dst.write, he.no_fail, herr, hc, hb]
  · refine ⟨{ w with dirty := true, fseq := w.fseq + 1 },
      { e.popMask.2 with dst := { e.popMask.2.dst with writes := e.dst.writes ++ [H, P], calls := e.popMask.2.dst.calls + 1 + 1 } },
      ?_, ⟨hinv.off_eq, hinv.room, by simp [Wr.size, hb]⟩, ⟨he2.masks_wf, hf2⟩, by rw [hc, hb, herr], rfl, by simp [popMask_masks]⟩
    simp [Dst.write, hf2, he.no_fail, herr, popMask_dst, hc, hb]

/-- Data that fits the free space of the buffer is buffered: nothing is sent, nothing is lost. -/
theorem write_loop_fits (fuel : Nat) (w : Wr) (e : Env) (p : Bytes) (n : Nat)
    (hfit : p.length ≤ w.available) (herr : w.err = false) :
    Wr.write.loop fuel w e p n = some (n + p.length, none, { w with buf := w.buf ++ p }, e) := by
  have hc : (decide (p.length > w.available) && !false) = false := by
    have : ¬ p.length > w.available := by omega
    simp [this]
  unfold Wr.write.loop
  simp only [herr, hc, Bool.false_eq_true, if_false]

theorem write_fits (w : Wr) (e : Env) (p : Bytes) (hfit : p.length ≤ w.available) (herr : w.err = false) :
    w.write e p = some (p.length, none, { w with dirty := true, buf := w.buf ++ p }, e) := by
  unfold Wr.write
  rw [write_loop_fits 6 { w with dirty := true } e p 0 (by simpa [Wr.available, Wr.size] using hfit) (by simpa using herr)]
  simp

/-! Non-vacuity: a 16-byte server buffer reserves 2 bytes; writing 15 bytes flushes a full
    14-byte fragment... no pre-emptive flush: 14 bytes stay buffered, then one final frame. -/
example : (newWriterBuffer false 1 16).map (·.size) = some 14 := by decide
example : ∃ w, newWriterBuffer true 2 131 = some w ∧ Inv w := ⟨_, rfl, inv_new true 2 131 _ rfl⟩

/-! ### every history of writes and flushes (frame level)

  `stepA` is the writer seen at the level of frames: what each operation emits (as abstract frames:
  fin, opcode, RSV, plain payload) and how the state moves, with flushing enabled and a healthy
  destination. `write_refines` … `flush_refines` tie the byte-level model (`Wr.write` etc. with the
  destination, the drawn masks and the header encoder) to it; `history_ok` is the property for
  every operation sequence. SetExtensions / ResetOp / Grow / DisableFlush / ReadFrom inside a
  history are not part of this statement (per-operation theorems and the correspondence cover them). -/

structure AF where
  fin : Bool
  op : Nat
  rsv : Nat
  plain : Bytes
  deriving DecidableEq, Repr

def opAt (op i : Nat) : Nat := if i = 0 then op else opContinuation

/-- the i-th frame of a message of a writer configured with (op, ext) -/
def frameAt (op : Nat) (ext : Option Bool) (i : Nat) (fin : Bool) (p : Bytes) : AF :=
  ⟨fin, opAt op i, extRsv ext (opAt op i), p⟩

def _root_.Ws.Wr.af (w : Wr) (fin : Bool) (p : Bytes) : AF := frameAt w.op w.ext w.fseq fin p

theorem af_eq (w : Wr) (fin : Bool) (p : Bytes) :
    w.af fin p = ⟨fin, w.opCode, extRsv w.ext w.opCode, p⟩ := by
  unfold Wr.af frameAt opAt Wr.opCode
  by_cases h : w.fseq = 0
  · simp [h]
  · have : w.fseq > 0 := Nat.pos_of_ne_zero h
    simp [h, this]

@[simp] theorem af_plain (w : Wr) (fin : Bool) (p : Bytes) : (w.af fin p).plain = p := rfl
@[simp] theorem af_fin (w : Wr) (fin : Bool) (p : Bytes) : (w.af fin p).fin = fin := rfl

inductive WOp where
  | write (p : Bytes)
  | writeThrough (p : Bytes)
  | flushFrag
  | flush

/-- frame-level semantics: new state, frames emitted, bytes reported as accepted -/
def _root_.Ws.Wr.stepA (w : Wr) : WOp → Wr × List AF × Bytes
  | .flush =>
    if !w.dirty && w.buf.length == 0 then (w, [], [])
    else ({ w with buf := [], dirty := false, fseq := 0 }, [w.af true w.buf], [])
  | .flushFrag =>
    if w.buf.length == 0 then (w, [], [])
    else ({ w with buf := [], fseq := w.fseq + 1 }, [w.af false w.buf], [])
  | .writeThrough p =>
    if w.buf.length != 0 then (w, [], [])      -- ErrNotEmpty: nothing accepted, nothing sent
    else ({ w with dirty := true, fseq := w.fseq + 1 }, [w.af false p], p)
  | .write p =>
    let w0 := { w with dirty := true }
    if p.length ≤ w0.available then ({ w0 with buf := w0.buf ++ p }, [], p)
    else if w0.buf.length == 0 then ({ w0 with fseq := w0.fseq + 1 }, [w0.af false p], p)
    else
      let av := w0.available
      let f1 := w0.af false (w0.buf ++ p.take av)
      let w1 := { w0 with buf := [], fseq := w0.fseq + 1 }
      let p' := p.drop av
      if p'.length ≤ w1.available then ({ w1 with buf := p' }, [f1], p)
      else ({ w1 with fseq := w1.fseq + 1 }, [f1, w1.af false p'], p)

def runA (w : Wr) : List WOp → Wr × List AF × Bytes
  | [] => (w, [], [])
  | o :: os =>
    let (w1, f1, a1) := w.stepA o
    let (w2, f2, a2) := runA w1 os
    (w2, f1 ++ f2, a1 ++ a2)

/-- frames i, i+1, … of a message still open: none final, opcode and RSV as the position demands -/
def openOK (op : Nat) (ext : Option Bool) : Nat → List AF → Prop
  | _, [] => True
  | i, f :: fs => f.fin = false ∧ f.op = opAt op i ∧ f.rsv = extRsv ext (opAt op i) ∧ openOK op ext (i + 1) fs

/-- one whole message: frames 0..k-1 not final, frame k final -/
def msgOK (op : Nat) (ext : Option Bool) (m : List AF) : Prop :=
  ∃ pre last, m = pre ++ [last] ∧ openOK op ext 0 pre ∧ last.fin = true ∧ last.op = opAt op pre.length
    ∧ last.rsv = extRsv ext (opAt op pre.length)

theorem openOK_append (op : Nat) (ext : Option Bool) (i : Nat) (a b : List AF) :
    openOK op ext i (a ++ b) ↔ openOK op ext i a ∧ openOK op ext (i + a.length) b := by
  induction a generalizing i with
  | nil => simp [openOK]
  | cons f fs ih =>
    simp only [List.cons_append, openOK, ih, List.length_cons]
    have : i + 1 + fs.length = i + (fs.length + 1) := by omega
    rw [this]
    constructor
    · rintro ⟨a, b, c, d, e⟩; exact ⟨⟨a, b, c, d⟩, e⟩
    · rintro ⟨⟨a, b, c, d⟩, e⟩; exact ⟨a, b, c, d, e⟩

/-- what has been sent so far: complete messages, then the frames of the message still open -/
structure Trace (op : Nat) (ext : Option Bool) (fs : List AF) (w : Wr) : Prop where
  split : ∃ (msgs : List (List AF)) (opn : List AF), fs = msgs.flatten ++ opn ∧ (∀ m ∈ msgs, msgOK op ext m) ∧ openOK op ext 0 opn
            ∧ opn.length = w.fseq
  cfg : w.op = op ∧ w.ext = ext

theorem trace_emit_open (op : Nat) (ext : Option Bool) (fs : List AF) (w : Wr) (h : Trace op ext fs w) (p : Bytes) (w' : Wr)
    (hf : w'.fseq = w.fseq + 1) (hc : w'.op = w.op ∧ w'.ext = w.ext) :
    Trace op ext (fs ++ [w.af false p]) w' := by
  obtain ⟨⟨msgs, opn, h1, h2, h3, h4⟩, hcfg⟩ := h
  refine ⟨⟨msgs, opn ++ [w.af false p], by rw [h1, List.append_assoc], h2, ?_, by simp [h4, hf]⟩,
    by rw [hc.1, hc.2]; exact hcfg⟩
  rw [openOK_append]
  refine ⟨h3, ?_⟩
  simp only [openOK, Wr.af, frameAt, Nat.zero_add, h4, hcfg.1, hcfg.2, and_self]

theorem trace_emit_fin (op : Nat) (ext : Option Bool) (fs : List AF) (w : Wr) (h : Trace op ext fs w) (p : Bytes) (w' : Wr)
    (hf : w'.fseq = 0) (hc : w'.op = w.op ∧ w'.ext = w.ext) :
    Trace op ext (fs ++ [w.af true p]) w' := by
  obtain ⟨⟨msgs, opn, h1, h2, h3, h4⟩, hcfg⟩ := h
  refine ⟨⟨msgs ++ [opn ++ [w.af true p]], [], ?_, ?_, trivial, by simp [hf]⟩, by rw [hc.1, hc.2]; exact hcfg⟩
  · rw [h1]; simp
  · intro m hm
    rcases List.mem_append.mp hm with hm | hm
    · exact h2 m hm
    · simp only [List.mem_singleton] at hm
      subst hm
      exact ⟨opn, w.af true p, rfl, h3, rfl, by simp [Wr.af, frameAt, h4, hcfg.1], by simp [Wr.af, frameAt, h4, hcfg.1, hcfg.2]⟩

theorem trace_same (op : Nat) (ext : Option Bool) (fs : List AF) (w : Wr) (h : Trace op ext fs w) (w' : Wr)
    (hf : w'.fseq = w.fseq) (hc : w'.op = w.op ∧ w'.ext = w.ext) : Trace op ext fs w' := by
  obtain ⟨⟨msgs, opn, h1, h2, h3, h4⟩, hcfg⟩ := h
  exact ⟨⟨msgs, opn, h1, h2, h3, by rw [hf]; exact h4⟩, by rw [hc.1, hc.2]; exact hcfg⟩

/-- one operation keeps the trace well formed and loses no byte -/
theorem stepA_ok (op : Nat) (ext : Option Bool) (fs : List AF) (w : Wr) (o : WOp) (h : Trace op ext fs w) :
    Trace op ext (fs ++ (w.stepA o).2.1) (w.stepA o).1
    ∧ ((w.stepA o).2.1.flatMap (·.plain)) ++ (w.stepA o).1.buf = w.buf ++ (w.stepA o).2.2
    ∧ (∀ f ∈ (w.stepA o).2.1, f.fin = true → o = .flush) := by
  cases o with
  | flush =>
    simp only [Wr.stepA]
    split
    · rename_i hc
      simp only [Bool.and_eq_true, Bool.not_eq_true', beq_iff_eq, List.length_eq_zero_iff] at hc
      refine ⟨by rw [List.append_nil]; exact h, by simp, by simp⟩
    · refine ⟨trace_emit_fin op ext fs w h w.buf _ rfl ⟨rfl, rfl⟩, by simp, by simp⟩
  | flushFrag =>
    simp only [Wr.stepA]
    split
    · rename_i hc
      simp only [beq_iff_eq, List.length_eq_zero_iff] at hc
      refine ⟨by rw [List.append_nil]; exact h, by simp, by simp⟩
    · refine ⟨trace_emit_open op ext fs w h w.buf _ rfl ⟨rfl, rfl⟩, by simp, by simp⟩
  | writeThrough p =>
    simp only [Wr.stepA]
    split
    · refine ⟨by rw [List.append_nil]; exact h, by simp, by simp⟩
    · rename_i hc
      have hb : w.buf = [] := by
        simp only [bne_iff_ne, ne_eq, List.length_eq_zero_iff, Decidable.not_not] at hc; exact hc
      refine ⟨trace_emit_open op ext fs w h p _ rfl ⟨rfl, rfl⟩, by simp [hb], by simp⟩
  | write p =>
    simp only [Wr.stepA]
    have h0 : Trace op ext fs { w with dirty := true } := trace_same op ext fs w h _ rfl ⟨rfl, rfl⟩
    split
    · refine ⟨by rw [List.append_nil]; exact trace_same op ext fs _ h0 _ rfl ⟨rfl, rfl⟩, by simp, by simp⟩
    · split
      · rename_i hc
        have hb : w.buf = [] := by
          simp only [beq_iff_eq, List.length_eq_zero_iff] at hc; exact hc
        refine ⟨trace_emit_open op ext fs _ h0 p _ rfl ⟨rfl, rfl⟩, by simp [hb], by simp⟩
      · have t1 := trace_emit_open op ext fs _ h0 (w.buf ++ p.take ({ w with dirty := true } : Wr).available)
          ({ w with dirty := true, buf := [], fseq := w.fseq + 1 } : Wr) rfl ⟨rfl, rfl⟩
        split
        · refine ⟨trace_same op ext _ _ t1 _ rfl ⟨rfl, rfl⟩, by simp [List.append_assoc], by simp⟩
        · have t2 := trace_emit_open op ext _ _ t1 (p.drop ({ w with dirty := true } : Wr).available)
            ({ w with dirty := true, buf := [], fseq := w.fseq + 1 + 1 } : Wr) rfl ⟨rfl, rfl⟩
          refine ⟨by rw [List.append_assoc] at t2; exact t2, by simp [List.append_assoc], by simp⟩

/-- **Every history.** From a writer at a message boundary, after ANY sequence of Write /
    WriteThrough / FlushFragment / Flush: the frames sent are whole messages followed by the
    (non-final) frames of the message still open — first frame with the configured opcode and the
    extension's RSV, the others continuations with RSV 0, exactly the last frame of each message
    final; final frames come from Flush only; and the concatenated payloads followed by what is
    still buffered are exactly the bytes reported as accepted, in order. -/
theorem history_ok (w0 : Wr) (ops : List WOp) (hfresh : w0.fseq = 0) :
    let r := runA w0 ops
    Trace w0.op w0.ext r.2.1 r.1 ∧ (r.2.1.flatMap (·.plain)) ++ r.1.buf = w0.buf ++ r.2.2 := by
  suffices H : ∀ (ops : List WOp) (w : Wr) (pre : List AF), Trace w0.op w0.ext pre w →
      Trace w0.op w0.ext (pre ++ (runA w ops).2.1) (runA w ops).1
      ∧ ((runA w ops).2.1.flatMap (·.plain)) ++ (runA w ops).1.buf = w.buf ++ (runA w ops).2.2 by
    have := H ops w0 [] ⟨⟨[], [], rfl, by simp, trivial, by simp [hfresh]⟩, rfl, rfl⟩
    simpa using this
  intro ops
  induction ops with
  | nil => intro w pre h; simpa [runA] using h
  | cons o os ih =>
    intro w pre h
    obtain ⟨t1, b1, _⟩ := stepA_ok w0.op w0.ext pre w o h
    obtain ⟨t2, b2⟩ := ih (w.stepA o).1 (pre ++ (w.stepA o).2.1) t1
    simp only [runA]
    refine ⟨by simpa [List.append_assoc] using t2, ?_⟩
    simp only [List.flatMap_append, List.append_assoc]
    rw [b2, ← List.append_assoc, b1, List.append_assoc]

/-! ### the byte-level writer refines the frame-level one -/

/-- bytes of one abstract frame on the wire, with the key drawn for it -/
def encAF (client : Bool) (f : AF) (m : Mask) : Bytes :=
  rfcEncode (wireHeader client ⟨f.fin, f.rsv, f.op, false, Mask.zero, f.plain.length⟩ m) ++ wirePayload client f.plain m

/-- bytes of a list of frames, drawing one key per frame on the client side -/
def encFrames (client : Bool) : List AF → Env → Bytes
  | [], _ => []
  | f :: fs, e => encAF client f e.popMask.1 ++ encFrames client fs (if client then e.popMask.2 else e)

theorem flushTemplate_af (w : Wr) (fin : Bool) :
    flushTemplate w fin = ⟨(w.af fin w.buf).fin, (w.af fin w.buf).rsv, (w.af fin w.buf).op, false, Mask.zero, (w.af fin w.buf).plain.length⟩ := by
  rw [af_eq]; rfl

/-- Flush refines the frame level. -/
theorem flush_refines (w : Wr) (e : Env) (hinv : Inv w) (he : EnvOk e) (hop : w.op < 16)
    (hbuf : Bytes.WF w.buf) (hlen : w.buf.length < 2 ^ 63) (herr : w.err = false) :
    ∃ e', w.flush e = some (none, (w.stepA .flush).1, e') ∧ Inv (w.stepA .flush).1 ∧ EnvOk e'
      ∧ e'.dst.writes.flatten = e.dst.writes.flatten ++ encFrames w.client (w.stepA .flush).2.1 e
      ∧ e'.masks = (if w.client then e.masks.drop (w.stepA .flush).2.1.length else e.masks) := by
  by_cases hc : (!w.dirty && w.buf.length == 0) = true
  · have hc' := hc
    simp only [Bool.and_eq_true, Bool.not_eq_true', beq_iff_eq, List.length_eq_zero_iff] at hc'
    refine ⟨e, ?_, ?_, he, ?_, ?_⟩
    · rw [empty_flush_emits_nothing w e hc'.1 hc'.2 herr]; simp [Wr.stepA, hc]
    · simpa [Wr.stepA, hc] using hinv
    · simp [Wr.stepA, hc, encFrames]
    · simp [Wr.stepA, hc]
  · have hd : w.dirty = true ∨ w.buf ≠ [] := by
      simp only [Bool.and_eq_true, Bool.not_eq_true', beq_iff_eq, List.length_eq_zero_iff, not_and] at hc
      cases hdd : w.dirty
      · exact Or.inr (hc hdd)
      · exact Or.inl rfl
    obtain ⟨w', e', h1, h2, h3, h4, h5, h6⟩ := flush_spec w e hinv he hop hbuf hlen herr hd
    refine ⟨e', ?_, ?_, h3, ?_, ?_⟩
    · rw [h1, h4]; simp [Wr.stepA, hc]
    · rw [h4] at h2; simpa [Wr.stepA, hc] using h2
    · rw [h5]; simp [Wr.stepA, hc, encFrames, encAF, flushTemplate_af]
    · rw [h6]; simp [Wr.stepA, hc]

/-- FlushFragment refines the frame level. -/
theorem flushFrag_refines (w : Wr) (e : Env) (hinv : Inv w) (he : EnvOk e) (hop : w.op < 16)
    (hbuf : Bytes.WF w.buf) (hlen : w.buf.length < 2 ^ 63) (herr : w.err = false) :
    ∃ e', w.flushFrag e = some (none, (w.stepA .flushFrag).1, e') ∧ Inv (w.stepA .flushFrag).1 ∧ EnvOk e'
      ∧ e'.dst.writes.flatten = e.dst.writes.flatten ++ encFrames w.client (w.stepA .flushFrag).2.1 e
      ∧ e'.masks = (if w.client then e.masks.drop (w.stepA .flushFrag).2.1.length else e.masks) := by
  obtain ⟨h0, h1⟩ := flushFrag_spec w e hinv he hop hbuf hlen herr
  by_cases hb : w.buf = []
  · refine ⟨e, ?_, ?_, he, ?_, by simp [Wr.stepA, hb]⟩
    · rw [h0 hb]; simp [Wr.stepA, hb]
    · simpa [Wr.stepA, hb] using hinv
    · simp [Wr.stepA, hb, encFrames]
  · obtain ⟨w', e', g1, g2, g3, g4, g5, g6⟩ := h1 hb
    have hc : (w.buf.length == 0) = false := by
      cases hbb : w.buf with
      | nil => exact absurd hbb hb
      | cons x xs => simp
    refine ⟨e', ?_, ?_, g3, ?_, ?_⟩
    · rw [g1, g4]; simp [Wr.stepA, hc]
    · rw [g4] at g2; simpa [Wr.stepA, hc] using g2
    · rw [g5]; simp [Wr.stepA, hc, encFrames, encAF, flushTemplate_af]
    · rw [g6]; simp [Wr.stepA, hc]

/-- WriteThrough (empty buffer) refines the frame level. -/
theorem writeThrough_refines (w : Wr) (e : Env) (p : Bytes) (hinv : Inv w) (he : EnvOk e) (hop : w.op < 16)
    (hp : Bytes.WF p) (hlen : p.length < 2 ^ 63) (herr : w.err = false) (hb : w.buf = []) :
    ∃ e', w.writeThrough e p = some (p.length, none, (w.stepA (.writeThrough p)).1, e')
      ∧ Inv (w.stepA (.writeThrough p)).1 ∧ EnvOk e'
      ∧ e'.dst.writes.flatten = e.dst.writes.flatten ++ encFrames w.client (w.stepA (.writeThrough p)).2.1 e
      ∧ e'.masks = (if w.client then e.masks.drop (w.stepA (.writeThrough p)).2.1.length else e.masks) := by
  obtain ⟨w', e', g1, g2, g3, g4, g5, g6⟩ := writeThrough_spec w e p hinv he hop hp hlen herr hb
  have hc : (w.buf.length != 0) = false := by simp [hb]
  refine ⟨e', ?_, ?_, g3, ?_, by rw [g6]; simp [Wr.stepA, hc]⟩
  · rw [g1, g4]; simp [Wr.stepA, hc]
  · rw [g4] at g2; simpa [Wr.stepA, hc] using g2
  · rw [g5]
    have : ({ flushTemplate w false with len := p.length } : Header)
        = ⟨(w.af false p).fin, (w.af false p).rsv, (w.af false p).op, false, Mask.zero, (w.af false p).plain.length⟩ := by
      rw [af_eq]; rfl
    simp [Wr.stepA, hc, encFrames, encAF, this]

theorem encFrames_masks (c : Bool) (fs : List AF) (e1 e2 : Env) (h : e1.masks = e2.masks) :
    encFrames c fs e1 = encFrames c fs e2 := by
  induction fs generalizing e1 e2 with
  | nil => rfl
  | cons f fs ih =>
    have hp : e1.popMask.1 = e2.popMask.1 ∧ e1.popMask.2.masks = e2.popMask.2.masks := by
      unfold Env.popMask; rw [h]; cases e2.masks <;> simp [h]
    simp only [encFrames, hp.1]
    congr 1
    cases c
    · exact ih e1 e2 h
    · exact ih _ _ hp.2

theorem inv_dirty (w : Wr) (h : Inv w) (d : Bool) : Inv { w with dirty := d } :=
  ⟨h.off_eq, h.room, h.fits⟩

/-- **Write refines the frame level** (flushing enabled, healthy destination): whatever the size of
    `p` relative to the buffer — it is buffered, or sent through as one non-final frame, or the
    buffer is topped up and flushed as a non-final frame and the rest buffered or sent through —
    all of `p` is accepted, and the destination receives exactly the encodings of the frames the
    frame-level writer emits (with the keys drawn in order). -/
theorem write_refines (w : Wr) (e : Env) (p : Bytes) (hinv : Inv w) (he : EnvOk e) (hop : w.op < 16)
    (hbuf : Bytes.WF w.buf) (hp : Bytes.WF p) (hlen : w.rawLen + p.length < 2 ^ 63)
    (herr : w.err = false) (hnf : w.noFlush = false) :
    ∃ e', w.write e p = some (p.length, none, (w.stepA (.write p)).1, e')
      ∧ Inv (w.stepA (.write p)).1 ∧ EnvOk e'
      ∧ e'.dst.writes.flatten = e.dst.writes.flatten ++ encFrames w.client (w.stepA (.write p)).2.1 e
      ∧ e'.masks = (if w.client then e.masks.drop (w.stepA (.write p)).2.1.length else e.masks) := by
  obtain ⟨client, op, rawLen, off, buf, dirty, fseq, noFlush, err, ext⟩ := w
  simp only at herr hnf hop hbuf hlen
  subst herr hnf
  have hfits : buf.length ≤ rawLen - off := hinv.fits
  have hoff := hinv.off_eq
  have hroom := hinv.room
  simp only at hoff hroom
  by_cases hA : p.length ≤ rawLen - off - buf.length
  · -- it fits
    refine ⟨e, ?_, ?_, he, ?_, ?_⟩
    · rw [write_fits _ e p (by simpa [Wr.available, Wr.size] using hA) rfl]
      simp [Wr.stepA, Wr.available, Wr.size, hA]
    · simp only [Wr.stepA, Wr.available, Wr.size, hA, if_true]
      exact ⟨hoff, hroom, by simp only [List.length_append, Wr.size]; omega⟩
    · simp [Wr.stepA, Wr.available, Wr.size, hA, encFrames]
    · simp [Wr.stepA, Wr.available, Wr.size, hA]
  · by_cases hB : buf = []
    · -- empty buffer: straight through
      subst hB
      simp only [List.length_nil, Nat.sub_zero] at hA
      have hinv0 : Inv (⟨client, op, rawLen, off, [], true, fseq, false, false, ext⟩ : Wr) := ⟨hoff, hroom, by simp [Wr.size]⟩
      obtain ⟨e1, g1, g2, g3, g4, g5⟩ := writeThrough_refines ⟨client, op, rawLen, off, [], true, fseq, false, false, ext⟩ e p hinv0 he hop hp (by omega) rfl rfl
      simp only [Wr.stepA, List.length_nil, bne_self_eq_false, Bool.false_eq_true, if_false, List.length_cons] at g1 g2 g4 g5
      refine ⟨e1, ?_, ?_, g3, ?_, by rw [g5]; simp [Wr.stepA, Wr.available, Wr.size, hA]⟩
      · unfold Wr.write Wr.write.loop
        have hc : decide (p.length > (⟨client, op, rawLen, off, [], true, fseq, false, false, ext⟩ : Wr).available) = true := by
          simp [Wr.available, Wr.size]; omega
        simp only [hc, Bool.not_false, Bool.and_self, if_true, Bool.false_eq_true, if_false, List.length_nil, beq_self_eq_true, g1, List.drop_length]
        rw [write_loop_fits 5 _ e1 [] (0 + p.length) (by simp) rfl]
        simp [Wr.stepA, Wr.available, Wr.size, hA]
      · simpa [Wr.stepA, Wr.available, Wr.size, hA] using g2
      · rw [g4]; simp [Wr.stepA, Wr.available, Wr.size, hA, Wr.af]
    · -- top the buffer up, flush it as a fragment, then the rest
      have hav : rawLen - off - buf.length < p.length := by omega
      let w1 : Wr := ⟨client, op, rawLen, off, buf ++ p.take (rawLen - off - buf.length), true, fseq, false, false, ext⟩
      have hinv1 : Inv w1 := ⟨hoff, hroom, by
        simp only [w1, Wr.size, List.length_append, List.length_take]; omega⟩
      have hw1wf : Bytes.WF w1.buf := by
        intro x hx
        simp only [w1, List.mem_append] at hx
        rcases hx with hx | hx
        · exact hbuf x hx
        · exact hp x (List.mem_of_mem_take hx)
      have hw1ne : w1.buf ≠ [] := by
        simp only [w1]; intro h; exact hB (List.append_eq_nil_iff.mp h).1
      obtain ⟨e1, g1, g2, g3, g4, g5⟩ := flushFrag_refines w1 e hinv1 he hop hw1wf
        (by simp only [w1, List.length_append, List.length_take]; omega) rfl
      have hne0 : ((buf ++ p.take (rawLen - off - buf.length)).length == 0) = false := by
        cases hq : buf ++ p.take (rawLen - off - buf.length) with
        | nil => exact absurd hq hw1ne
        | cons _ _ => simp
      simp only [Wr.stepA, w1, hne0, Bool.false_eq_true, if_false, List.length_cons, List.length_nil] at g1 g2 g4 g5
      have hne1 : (buf.length == 0) = false := by
        cases hq : buf with
        | nil => exact absurd hq hB
        | cons _ _ => simp
      have hc : decide (p.length > (⟨client, op, rawLen, off, buf, true, fseq, false, false, ext⟩ : Wr).available) = true := by
        simp [Wr.available, Wr.size]; omega
      let w2 : Wr := ⟨client, op, rawLen, off, [], true, fseq + 1, false, false, ext⟩
      by_cases hC : (p.drop (rawLen - off - buf.length)).length ≤ rawLen - off
      · -- the rest fits the (now empty) buffer
        have hC2 : p.length ≤ rawLen - off + (rawLen - off - buf.length) := by
          simp only [List.length_drop] at hC; omega
        have harith : rawLen - off - buf.length + (p.length - (rawLen - off - buf.length)) = p.length := by omega
        refine ⟨e1, ?_, ?_, g3, ?_, by rw [g5]; simp [Wr.stepA, Wr.available, Wr.size, hA, hne1, hC2]⟩
        · unfold Wr.write Wr.write.loop
          simp only [hc, Bool.not_false, Bool.and_self, if_true, Bool.false_eq_true, if_false, hne1]
          simp only [Wr.available, Wr.size, g1]
          rw [write_loop_fits 5 _ e1 (p.drop (rawLen - off - buf.length)) (0 + (rawLen - off - buf.length))
            (by simpa [Wr.available, Wr.size] using hC) rfl]
          have : 0 + (rawLen - off - buf.length) + (p.drop (rawLen - off - buf.length)).length = p.length := by
            simp only [List.length_drop]; omega
          simp [Wr.stepA, Wr.available, Wr.size, hA, hne1, hC2, harith]
        · simp only [Wr.stepA, Wr.available, Wr.size, hA, hne1, if_false, Bool.false_eq_true, List.length_nil, Nat.sub_zero, hC, if_true]
          exact ⟨hoff, hroom, by simpa [Wr.size] using hC⟩
        · rw [g4]
          simp [Wr.stepA, Wr.available, Wr.size, hA, hne1, hC2, Wr.af]
      · -- the rest is larger than the buffer: straight through as a second fragment
        have hC2 : ¬ p.length ≤ rawLen - off + (rawLen - off - buf.length) := by
          simp only [List.length_drop] at hC; omega
        have harith : rawLen - off - buf.length + (p.length - (rawLen - off - buf.length)) = p.length := by omega
        have hinv2 : Inv w2 := ⟨hoff, hroom, by simp [w2, Wr.size]⟩
        obtain ⟨e2, k1, k2, k3, k4, k5⟩ := writeThrough_refines w2 e1 (p.drop (rawLen - off - buf.length)) hinv2 g3 hop
          (fun x hx => hp x (List.mem_of_mem_drop hx)) (by simp only [List.length_drop]; omega) rfl rfl
        simp only [Wr.stepA, w2, List.length_nil, bne_self_eq_false, Bool.false_eq_true, if_false, List.length_cons] at k1 k2 k4 k5
        have hc2 : decide ((p.drop (rawLen - off - buf.length)).length >
            (⟨client, op, rawLen, off, [], true, fseq + 1, false, false, ext⟩ : Wr).available) = true := by
          simp [Wr.available, Wr.size]; simp only [List.length_drop] at hC; omega
        refine ⟨e2, ?_, ?_, k3, ?_, by
          rw [k5, g5]; cases client <;> simp [Wr.stepA, Wr.available, Wr.size, hA, hne1, hC2]⟩
        · unfold Wr.write Wr.write.loop
          simp only [hc, Bool.not_false, Bool.and_self, if_true, Bool.false_eq_true, if_false, hne1]
          simp only [Wr.available, Wr.size, g1]
          unfold Wr.write.loop
          have hc3 : (List.drop (rawLen - off - buf.length) p).length > rawLen - off - 0 := by
            simp only [List.length_drop] at hC ⊢; omega
          simp only [Wr.available, Wr.size, Bool.not_false, Bool.and_self, if_true, Bool.false_eq_true, if_false,
            List.length_nil, beq_self_eq_true, k1, List.drop_length, hc3, decide_true, Bool.and_true]
          rw [write_loop_fits 4 _ e2 [] _ (by simp) rfl]
          simp [Wr.stepA, Wr.available, Wr.size, hA, hne1, hC2, harith]
        · simp only [Wr.stepA, Wr.available, Wr.size, hA, hne1, if_false, Bool.false_eq_true, List.length_nil, Nat.sub_zero, hC]
          exact k2
        · rw [k4, g4]
          have hm : encFrames client [(⟨client, op, rawLen, off, [], true, fseq + 1, false, false, ext⟩ : Wr).af false (p.drop (rawLen - off - buf.length))] e1
              = encFrames client [(⟨client, op, rawLen, off, [], true, fseq + 1, false, false, ext⟩ : Wr).af false (p.drop (rawLen - off - buf.length))] (if client then e.popMask.2 else e) := by
            apply encFrames_masks
            rw [g5]
            cases client <;> simp [popMask_masks]
          rw [hm]
          simp [Wr.stepA, Wr.available, Wr.size, hA, hne1, hC2, encFrames, Wr.af, List.append_assoc]


/-! ### every history, at the byte level -/

/-- one operation of the byte-level writer (results dropped: the refinement lemmas say what they are) -/
def stepC (w : Wr) (e : Env) : WOp → Option (Wr × Env)
  | .write p => (w.write e p).map fun r => (r.2.2.1, r.2.2.2)
  | .writeThrough p => (w.writeThrough e p).map fun r => (r.2.2.1, r.2.2.2)
  | .flushFrag => (w.flushFrag e).map fun r => (r.2.1, r.2.2)
  | .flush => (w.flush e).map fun r => (r.2.1, r.2.2)

def runC (w : Wr) (e : Env) : List WOp → Option (Wr × Env)
  | [] => some (w, e)
  | o :: os => match stepC w e o with
    | none => none
    | some (w1, e1) => runC w1 e1 os

/-- what the run-level theorem carries from operation to operation -/
structure Good (w : Wr) : Prop where
  inv : Inv w
  op : w.op < 16
  buf : Bytes.WF w.buf
  err : w.err = false
  nf : w.noFlush = false
  raw : w.rawLen < 2 ^ 63

/-- the caller's bytes are bytes, and sizes stay below 2^63 (Go's int) -/
def OpOK (rawLen : Nat) : WOp → Prop
  | .write p => Bytes.WF p ∧ rawLen + p.length < 2 ^ 63
  | .writeThrough p => Bytes.WF p ∧ p.length < 2 ^ 63
  | _ => True

theorem wf_append {a b : Bytes} (ha : Bytes.WF a) (hb : Bytes.WF b) : Bytes.WF (a ++ b) := by
  intro x hx; rcases List.mem_append.mp hx with h | h
  · exact ha x h
  · exact hb x h

theorem wf_nil : Bytes.WF ([] : Bytes) := by intro x hx; cases hx

theorem stepA_fields (w : Wr) (o : WOp) :
    (w.stepA o).1.client = w.client ∧ (w.stepA o).1.op = w.op ∧ (w.stepA o).1.rawLen = w.rawLen
    ∧ (w.stepA o).1.err = w.err ∧ (w.stepA o).1.noFlush = w.noFlush ∧ (w.stepA o).1.ext = w.ext := by
  cases o <;> simp only [Wr.stepA] <;> (repeat' split) <;> simp

theorem stepA_buf_wf (w : Wr) (o : WOp) (hb : Bytes.WF w.buf) (ho : OpOK w.rawLen o) : Bytes.WF (w.stepA o).1.buf := by
  cases o with
  | flush => simp only [Wr.stepA]; split <;> first | exact hb | exact wf_nil
  | flushFrag => simp only [Wr.stepA]; split <;> first | exact hb | exact wf_nil
  | writeThrough p => simp only [Wr.stepA]; split <;> exact hb
  | write p =>
    have hp : Bytes.WF p := ho.1
    simp only [Wr.stepA]
    split
    · exact wf_append hb hp
    · split
      · exact hb
      · split
        · exact fun x hx => hp x (List.mem_of_mem_drop hx)
        · exact wf_nil

/-- bytes of consecutive batches of frames: the second batch starts with the keys the first left -/
theorem encFrames_append (c : Bool) (a b : List AF) (e e1 : Env)
    (h : e1.masks = (if c then e.masks.drop a.length else e.masks)) :
    encFrames c (a ++ b) e = encFrames c a e ++ encFrames c b e1 := by
  induction a generalizing e with
  | nil =>
    simp only [List.nil_append, encFrames, List.length_nil, List.drop_zero, ite_self] at h ⊢
    exact encFrames_masks c b e e1 h.symm
  | cons f fs ih =>
    simp only [List.cons_append, encFrames, List.append_assoc]
    congr 1
    apply ih
    rw [h]
    cases c
    · simp
    · simp [popMask_masks, List.drop_drop, Nat.add_comm]

/-- One operation of the byte-level writer does what the frame-level writer says: same new state,
    and the destination receives exactly the encodings of the frames it emits. -/
theorem stepC_refines (w : Wr) (e : Env) (o : WOp) (hg : Good w) (he : EnvOk e) (ho : OpOK w.rawLen o) :
    ∃ e', stepC w e o = some ((w.stepA o).1, e') ∧ Good (w.stepA o).1 ∧ EnvOk e'
      ∧ e'.dst.writes.flatten = e.dst.writes.flatten ++ encFrames w.client (w.stepA o).2.1 e
      ∧ e'.masks = (if w.client then e.masks.drop (w.stepA o).2.1.length else e.masks) := by
  have hlen : w.buf.length < 2 ^ 63 := by
    have := hg.inv.fits; unfold Wr.size at this; have := hg.raw; omega
  obtain ⟨f1, f2, f3, f4, f5, _⟩ := stepA_fields w o
  have good' : Inv (w.stepA o).1 → Good (w.stepA o).1 := fun hi =>
    ⟨hi, by rw [f2]; exact hg.op, stepA_buf_wf w o hg.buf ho, by rw [f4]; exact hg.err, by rw [f5]; exact hg.nf,
      by rw [f3]; exact hg.raw⟩
  cases o with
  | flush =>
    obtain ⟨e', h1, h2, h3, h4, h5⟩ := flush_refines w e hg.inv he hg.op hg.buf hlen hg.err
    exact ⟨e', by simp [stepC, h1], good' h2, h3, h4, h5⟩
  | flushFrag =>
    obtain ⟨e', h1, h2, h3, h4, h5⟩ := flushFrag_refines w e hg.inv he hg.op hg.buf hlen hg.err
    exact ⟨e', by simp [stepC, h1], good' h2, h3, h4, h5⟩
  | write p =>
    obtain ⟨e', h1, h2, h3, h4, h5⟩ := write_refines w e p hg.inv he hg.op hg.buf ho.1 ho.2 hg.err hg.nf
    exact ⟨e', by simp [stepC, h1], good' h2, h3, h4, h5⟩
  | writeThrough p =>
    by_cases hb : w.buf = []
    · obtain ⟨e', h1, h2, h3, h4, h5⟩ := writeThrough_refines w e p hg.inv he hg.op ho.1 ho.2 hg.err hb
      exact ⟨e', by simp [stepC, h1], good' h2, h3, h4, h5⟩
    · -- ErrNotEmpty: nothing accepted, nothing sent, nothing drawn
      have hne : (w.buf.length != 0) = true := by
        cases hq : w.buf with
        | nil => exact absurd hq hb
        | cons _ _ => simp
      have hs : w.stepA (.writeThrough p) = (w, [], []) := by simp [Wr.stepA, hne]
      refine ⟨e, ?_, ?_, he, ?_, ?_⟩
      · simp [stepC, Wr.writeThrough, hg.err, hne, hs]
      · rw [hs]; exact hg
      · rw [hs]; simp [encFrames]
      · rw [hs]; simp

/-- **Every history, byte for byte.** Starting from any writer in good standing (constructed by
    NewWriterBuffer/NewWriterSize, or reached by earlier operations), with a destination that does not
    fail and flushing enabled, after ANY sequence of Write / WriteThrough / FlushFragment / Flush the
    byte-level writer is in exactly the state of the frame-level writer, and the destination has
    received exactly the RFC 6455 encodings of the frames the frame-level writer emitted, in order,
    each client frame masked with the next key drawn. -/
theorem run_refines (ops : List WOp) : ∀ (w : Wr) (e : Env), Good w → EnvOk e → (∀ o ∈ ops, OpOK w.rawLen o) →
    ∃ e', runC w e ops = some ((runA w ops).1, e') ∧ Good (runA w ops).1 ∧ EnvOk e'
      ∧ e'.dst.writes.flatten = e.dst.writes.flatten ++ encFrames w.client (runA w ops).2.1 e
      ∧ e'.masks = (if w.client then e.masks.drop (runA w ops).2.1.length else e.masks) := by
  induction ops with
  | nil => intro w e hg he _; exact ⟨e, rfl, hg, he, by simp [runA, encFrames], by simp [runA]⟩
  | cons o os ih =>
    intro w e hg he hops
    obtain ⟨e1, s1, s2, s3, s4, s5⟩ := stepC_refines w e o hg he (hops o (List.mem_cons_self ..))
    obtain ⟨f1, _, f3, _⟩ := stepA_fields w o
    obtain ⟨e2, r1, r2, r3, r4, r5⟩ := ih (w.stepA o).1 e1 s2 s3
      (fun o' ho' => by rw [f3]; exact hops o' (List.mem_cons_of_mem _ ho'))
    refine ⟨e2, ?_, ?_, r3, ?_, ?_⟩
    · simp only [runC, s1, runA]; exact r1
    · simpa only [runA] using r2
    · simp only [runA]
      rw [r4, s4, f1, encFrames_append w.client _ _ e e1 s5, List.append_assoc]
    · simp only [runA, List.length_append]
      rw [r5, f1, s5]
      cases w.client
      · simp
      · simp [List.drop_drop, Nat.add_comm]

/-- Corollary (C06 as stated, for the bytes on the wire): from a new writer, after any history, what
    the peer has received is the encoding of whole messages followed by the non-final frames of the
    message still open, and their payloads plus what is still buffered are exactly the accepted
    bytes, in order. -/
theorem wire_history_ok (w0 : Wr) (e : Env) (ops : List WOp) (hg : Good w0) (he : EnvOk e)
    (hfresh : w0.fseq = 0) (hempty : w0.buf = []) (hops : ∀ o ∈ ops, OpOK w0.rawLen o) :
    ∃ e', runC w0 e ops = some ((runA w0 ops).1, e')
      ∧ e'.dst.writes.flatten = e.dst.writes.flatten ++ encFrames w0.client (runA w0 ops).2.1 e
      ∧ Trace w0.op w0.ext (runA w0 ops).2.1 (runA w0 ops).1
      ∧ (runA w0 ops).2.1.flatMap (·.plain) ++ (runA w0 ops).1.buf = (runA w0 ops).2.2 := by
  obtain ⟨e', r1, _, _, r4, _⟩ := run_refines ops w0 e hg he hops
  obtain ⟨t, c⟩ := history_ok w0 ops hfresh
  exact ⟨e', r1, r4, t, by rw [c, hempty]; rfl⟩

/-- the bytes handed to Write, in order -/
def written : List WOp → Bytes
  | [] => []
  | .write p :: os => p ++ written os
  | _ :: os => written os

def noThrough : List WOp → Bool
  | [] => true
  | .writeThrough _ :: _ => false
  | _ :: os => noThrough os

/-- With Write / FlushFragment / Flush only, every byte handed to Write is accepted: the accepted
    bytes of the frame level are the written bytes, whatever the sizes. -/
theorem accepted_is_written (ops : List WOp) (w : Wr) (h : noThrough ops = true) :
    (runA w ops).2.2 = written ops := by
  induction ops generalizing w with
  | nil => rfl
  | cons o os ih =>
    cases o with
    | writeThrough p => simp [noThrough] at h
    | write p =>
      simp only [runA, written]
      have : (w.stepA (.write p)).2.2 = p := by
        simp only [Wr.stepA]; (repeat' split) <;> rfl
      rw [this, ih _ (by simpa [noThrough] using h)]
    | flush =>
      simp only [runA, written]
      have : (w.stepA .flush).2.2 = [] := by simp only [Wr.stepA]; split <;> rfl
      rw [this, ih _ (by simpa [noThrough] using h)]; rfl
    | flushFrag =>
      simp only [runA, written]
      have : (w.stepA .flushFrag).2.2 = [] := by simp only [Wr.stepA]; split <;> rfl
      rw [this, ih _ (by simpa [noThrough] using h)]; rfl

/-- Non-vacuity: a writer built by NewWriterBuffer(client, binary, 20 bytes) is in good standing at a
    message boundary, and a history with a write larger than the buffer meets the per-operation premise. -/
example : ∃ w, newWriterBuffer true 2 20 = some w ∧ Good w ∧ w.fseq = 0 ∧ w.buf = []
    ∧ (∀ o ∈ [WOp.write (List.replicate 50 7), .flushFrag, .write [1, 2], .flush], OpOK w.rawLen o) := by
  refine ⟨_, rfl, ⟨inv_new true 2 20 _ rfl, by decide, wf_nil, rfl, rfl, by decide⟩, rfl, rfl, ?_⟩
  intro o ho
  simp only [List.mem_cons, List.mem_nil_iff, or_false] at ho
  rcases ho with rfl | rfl | rfl | rfl
  · exact ⟨by intro x hx; rw [List.eq_of_mem_replicate hx]; decide, by decide⟩
  · trivial
  · exact ⟨by decide, by decide⟩
  · trivial

end Ws.C06
