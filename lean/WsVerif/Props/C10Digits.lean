/-
  C09 / C10 — the numbers of an HTTP version (and the status token) are decimal digits and nothing
  else: `asciiToInt` yields a value only for a non-empty string of the bytes '0'..'9' — no sign, no
  blank, no separator (what strconv.Atoi would let through as "+1").
-/
import WsVerif.Props.C10
namespace Ws.C10
open Ws

theorem fold_none (bs : Bytes) : bs.foldl asciiStep none = none := by
  induction bs with
  | nil => rfl
  | cons c cs ih => simpa [List.foldl, asciiStep] using ih

theorem fold_some_digits (bs : Bytes) (acc : Option Nat) (m : Nat) (h : bs.foldl asciiStep acc = some m) :
    ∀ c ∈ bs, 48 ≤ c ∧ c ≤ 57 := by
  induction bs generalizing acc with
  | nil => intro c hc; cases hc
  | cons b bs ih =>
    simp only [List.foldl] at h
    cases hs : asciiStep acc b with
    | none => rw [hs, fold_none] at h; cases h
    | some n =>
      obtain ⟨_, _, h1, h2, _⟩ := asciiStep_some acc b n hs
      rw [hs] at h
      intro c hc
      rcases List.mem_cons.mp hc with rfl | hc
      · exact ⟨h1, h2⟩
      · exact ih (some n) h c hc

/-- `asciiToInt` accepts only non-empty strings of decimal digits. -/
theorem asciiToInt_digits (bs : Bytes) (m : Nat) (h : asciiToInt bs = some m) :
    bs ≠ [] ∧ ∀ c ∈ bs, 48 ≤ c ∧ c ≤ 57 := by
  unfold asciiToInt at h
  by_cases he : bs.isEmpty = true
  · simp [he] at h
  · simp only [he] at h
    refine ⟨fun hn => he (by simp [hn]), ?_⟩
    exact fold_some_digits bs (some 0) m h

/-- In particular a leading '+' (43) or '-' (45) is refused. -/
theorem asciiToInt_no_sign (bs : Bytes) (h : bs.head? = some 43 ∨ bs.head? = some 45) : asciiToInt bs = none := by
  cases hr : asciiToInt bs with
  | none => rfl
  | some m =>
    obtain ⟨_, hd⟩ := asciiToInt_digits bs m hr
    cases bs with
    | nil => simp at h
    | cons b bs =>
      have := hd b (by simp)
      simp at h
      omega

example : asciiToInt [43, 49] = none ∧ asciiToInt [49] = some 1 := by constructor <;> rfl

end Ws.C10
