/-
  C13 — Compression bit RSV1 is set and accepted only on the first frame of a message.
-/
import WsVerif.Model.Helper
import WsVerif.Props.C06
import WsVerif.Proofs.Check
namespace Ws.C13
open Ws Ws.Spec Ws.C06

/-! ### sending -/

/-- The RSV bits a flushed / written-through frame carries with the compression message state
    attached: RSV1 (value 4) exactly on the first frame (fseq = 0) of a data message marked
    compressed; nothing on continuation frames, on control opcodes, or when the message is not
    compressed or no extension is attached. RSV2/RSV3 are never set. -/
theorem send_rsv1_first_only (w : Wr) (hop : w.op < 16) :
    extRsv w.ext w.opCode =
      if w.ext = some true ∧ w.fseq = 0 ∧ (w.op = opText ∨ w.op = opBinary ∨ (0 < w.op ∧ w.op < 8)) then 4 else 0 := by
  obtain ⟨_, hd⟩ := op_ctl hop
  have h0 : opIsData 0 = true := by decide
  unfold extRsv Wr.opCode opContinuation opText opBinary
  cases hx : w.ext with
  | none => simp
  | some b =>
    cases b
    · simp
    · by_cases hf : w.fseq > 0
      · have : w.fseq ≠ 0 := by omega
        simp [hf, this, h0]
      · have hz : w.fseq = 0 := by omega
        simp only [hf, if_false, hd, hz]
        by_cases h8 : w.op < 8 <;> by_cases hne : w.op = 0
        · simp [h8, hne]
        · have : 0 < w.op := by omega
          simp [h8, hne, this, hd]
        · omega
        · have : ¬ (w.op = 1 ∨ w.op = 2 ∨ (0 < w.op ∧ w.op < 8)) := by omega
          simp [h8, hne, this, hd]
          omega

/-- Hence every frame the writer emits after a FlushFragment / WriteThrough (fseq > 0) carries no
    RSV bit, whatever the message state says. -/
theorem send_no_rsv_on_continuation (w : Wr) (h : w.fseq > 0) : extRsv w.ext w.opCode = 0 := by
  unfold extRsv Wr.opCode
  simp only [h, if_true]
  cases w.ext with
  | none => rfl
  | some b => cases b <;> simp [opContinuation]

/-- The writer's `extRsv` is MessageState.SetBits applied to the fresh (RSV = 0) header it builds. -/
theorem setBits_fresh (c : Bool) (h : Header) (h0 : h.rsv = 0) :
    setBits c h = ({ h with rsv := extRsv (some c) h.op }, none) := by
  obtain ⟨f, r, o, m, k, l⟩ := h
  simp only at h0
  subst h0
  unfold setBits extRsv
  simp only [Nat.zero_and, bne_self_eq_false, Bool.false_eq_true, if_false, Nat.zero_or]
  cases c <;> cases hd : opIsData o <;> cases hc : (o == opContinuation) <;> simp_all [bne]

/-- SetBits never touches a header that already carries RSV1 (error), a control frame or a
    continuation frame. -/
theorem setBits_only_first_data (c : Bool) (h : Header) (hop : h.op < 16) (hd : ¬ (h.op < 8 ∧ h.op ≠ 0)) :
    (setBits c h).1 = h := by
  obtain ⟨_, hdd⟩ := op_ctl hop
  unfold setBits opContinuation
  split
  · rfl
  · have : (!opIsData h.op || h.op == 0) = true := by
      rw [hdd]; by_cases h8 : h.op < 8
      · have : h.op = 0 := by omega
        simp [this]
      · simp [h8]
    simp [this]

/-! ### receiving -/

/-- UnsetBits on the first frame of a data message: the state becomes "RSV1 of that frame", the
    header handed on has RSV1 cleared and RSV2/RSV3 untouched, no error. -/
theorem recv_first_frame (c : Bool) (h : Header) (hop : h.op < 16) (hrsv : h.rsv < 8)
    (hd : h.op < 8 ∧ h.op ≠ 0) :
    unsetBits c h = ({ h with rsv := h.rsv % 4 }, none, decide (4 ≤ h.rsv)) := by
  obtain ⟨_, hdd⟩ := op_ctl hop
  unfold unsetBits opContinuation
  have e1 : (h.rsv &&& 4 != 0) = decide (4 ≤ h.rsv) := by
    have : ∀ r < 8, (r &&& 4 != 0) = decide (4 ≤ r) := by decide
    exact this _ hrsv
  have e2 : h.rsv &&& 3 = h.rsv % 4 := by
    have : ∀ r < 8, r &&& 3 = r % 4 := by decide
    exact this _ hrsv
  simp [hdd, hd.1, hd.2, e1, e2]

/-- On continuation and control frames the state is NOT disturbed; RSV1 there is a protocol error
    (and the state is still untouched), otherwise the header passes unchanged. -/
theorem recv_other_frame (c : Bool) (h : Header) (hop : h.op < 16) (hrsv : h.rsv < 8)
    (hd : ¬ (h.op < 8 ∧ h.op ≠ 0)) :
    unsetBits c h = (h, if 4 ≤ h.rsv then some .unexpectedCompressionBit else none, c) := by
  obtain ⟨_, hdd⟩ := op_ctl hop
  unfold unsetBits opContinuation
  have e1 : (h.rsv &&& 4 != 0) = decide (4 ≤ h.rsv) := by
    have : ∀ r < 8, (r &&& 4 != 0) = decide (4 ≤ r) := by decide
    exact this _ hrsv
  have hc : (opIsData h.op && h.op != 0) = false := by
    rw [hdd]
    by_cases h8 : h.op < 8
    · have : h.op = 0 := by omega
      simp [this]
    · simp [h8]
  simp only [hc, Bool.false_eq_true, if_false, e1]
  by_cases h4 : 4 ≤ h.rsv <;> simp [h4]

/-- Wiring in the message reader: with the extension attached, a frame whose RSV1 is misplaced is
    rejected by NextFrame with that protocol error; the compression state is left as it was. -/
theorem reader_rejects_misplaced_rsv1 (r : Rd) (s s1 : Src) (cx : Ctx) (cb : Option Callback) (hdr : Header)
    (hh : readHeaderUtil s = (.ok hdr, s1))
    (hc : (if r.skipCheck then none else checkHeader hdr r.state) = none)
    (hmax : ¬ (r.maxFrame > 0 ∧ hdr.len > r.maxFrame)) (hext : r.ext = true)
    (hop : hdr.op < 16) (hrsv : hdr.rsv < 8) (hd : ¬ (hdr.op < 8 ∧ hdr.op ≠ 0)) (h4 : 4 ≤ hdr.rsv) :
    (r.nextFrame s cx cb).2.1 = some (.proto .unexpectedCompressionBit)
      ∧ (r.nextFrame s cx cb).2.2.1.compressed = r.compressed := by
  unfold Rd.nextFrame
  simp only [hh, hc, hmax, hext, if_true, if_false, recv_other_frame r.compressed hdr hop hrsv hd, h4]
  exact ⟨trivial, trivial⟩

/-! Non-vacuity -/
example : extRsv (some true) 1 = 4 ∧ extRsv (some true) 0 = 0 ∧ extRsv (some true) 9 = 0 ∧ extRsv (some false) 2 = 0 := by decide
example : unsetBits false ⟨false, 5, 1, false, Mask.zero, 3⟩ = (⟨false, 1, 1, false, Mask.zero, 3⟩, none, true) := by decide
example : (unsetBits true ⟨true, 4, 9, false, Mask.zero, 0⟩).2.1 = some .unexpectedCompressionBit := by decide

end Ws.C13
