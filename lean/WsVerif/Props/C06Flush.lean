/-
  C06 — "If no Write() or ReadFrom() was made, then Flush() does nothing" (the doc comment of
  Writer.Flush), as theorems about the writer model: a Flush right after Reset / ResetOp, and a
  second Flush after a successful one, send nothing and change nothing.
-/
import WsVerif.Model.Writer
namespace Ws.C06
open Ws

/-- A Flush on a writer that is clean (nothing buffered, no Write/ReadFrom/WriteThrough since the
    last completed message) and healthy returns nil, and leaves the writer and the destination
    exactly as they were. -/
theorem flush_clean_noop (w : Wr) (e : Env) (hd : w.dirty = false) (hb : w.buf = []) (he : w.err = false) :
    w.flush e = some (none, w, e) := by
  unfold Wr.flush
  simp [hd, hb, he]

/-- Reset(dest, state, op): whatever the previous user left (an unfinished message, a failed
    destination), the next Flush sends nothing. -/
theorem flush_after_reset_noop (w w' : Wr) (client : Bool) (op : Nat) (h : w.reset client op = some w') (e : Env) :
    w'.flush e = some (none, w', e) := by
  unfold Wr.reset at h
  simp only at h
  by_cases hc : w.rawLen ≤ reserve client w.rawLen
  · rw [if_pos hc] at h; cases h
  · rw [if_neg hc] at h; cases h
    exact flush_clean_noop _ e rfl rfl rfl

/-- ResetOp on a healthy writer: the same. -/
theorem flush_after_resetOp_noop (w : Wr) (op : Nat) (he : w.err = false) (e : Env) :
    (w.resetOp op).flush e = some (none, w.resetOp op, e) :=
  flush_clean_noop _ e rfl rfl he

/-- A second Flush after a successful one sends nothing. -/
theorem flush_twice_noop (w w1 : Wr) (e e1 : Env) (h : w.flush e = some (none, w1, e1)) :
    w1.flush e1 = some (none, w1, e1) := by
  unfold Wr.flush at h
  split at h
  · rename_i hc
    cases hw : w.err
    · simp [hw] at h
      obtain ⟨rfl, rfl⟩ := h
      simp [hw] at hc
      unfold Wr.flush
      simp [hc, hw]
    · simp [hw] at h
  · split at h
    · cases h
    · rename_i ok e' _
      cases ok
      · simp at h
      · simp at h
        obtain ⟨rfl, rfl⟩ := h
        exact flush_clean_noop _ _ rfl rfl rfl

/-- Non-vacuity: a writer left dirty, with buffered bytes and a failed destination, can be Reset (to
    the client side, its 20-byte buffer holds the header), so `flush_after_reset_noop` applies. -/
example : ∃ w', Wr.reset { client := false, op := 1, rawLen := 20, off := 4, buf := [1, 2], dirty := true, err := true, fseq := 3 } true 2 = some w' :=
  ⟨_, rfl⟩

end Ws.C06
