/-
  C16 — Truncated or failing transports never yield a complete-looking message.
  Reader side: the per-frame reader never reports a clean EOF while payload bytes are outstanding
  (C04.rawRead_flat) and a stream ending between fragments is io.ErrUnexpectedEOF. Writer side:
  after a destination error every Write / WriteThrough / Flush / FlushFragment returns the error
  and the destination receives nothing more.
-/
import WsVerif.Props.C04
import WsVerif.Props.C06
import WsVerif.Proofs.Reader
import WsVerif.Proofs.ReaderText
namespace Ws.C16
open Ws Ws.Spec

/-- The transport ending inside a frame payload is never a clean end: the frame reader answers
    io.ErrUnexpectedEOF (or the transport's own error), io.EOF only when the frame is complete. -/
theorem cut_payload_non_eof (r : Rd) (s : Src) (k : Nat) (h : (r.rawRead s k).2.1 = some .eof) :
    (r.rawRead s k).2.2.1.rawN = 0 :=
  (C04.rawRead_flat r s k).2.2.2 h

/-- A stream that ends (cleanly) where the next fragment of an open message should start is
    reported as io.ErrUnexpectedEOF, not io.EOF. -/
theorem cut_between_fragments_is_error (r : Rd) (s : Src) (cx : Ctx) (cb : Option Callback)
    (hfrag : r.fragmented = true) (hempty : s.bytes = []) (hfin : s.fin = .eof) :
    (r.nextFrame s cx cb).2.1 = some .ueof := by
  obtain ⟨e, s', h1, _, _, h4, _⟩ := s.readFull_err 2 (by rw [hempty]; simp)
  have he : e = .eof := h4.mpr ⟨hempty, hfin⟩
  unfold Rd.nextFrame readHeaderUtil
  simp [h1, he, hfrag]

/-! ### whole read loops over a cut stream -/

open Ws.RdProof

/-- **Reads of a cut payload end in a non-EOF error.** The reader is inside a frame (no UTF-8
    layer) and the transport holds fewer bytes than the frame still announces — the peer or the
    network cut it. For every chunking and every sequence of caller buffers: what Read hands out is
    a genuine unmasked prefix of the bytes that did arrive, the only errors it can report are
    io.ErrUnexpectedEOF (transport ended) or the transport's failure — never io.EOF, so no
    read-until-EOF helper can take the partial message for a whole one — and one of them is
    reported after at most (bytes + chunks + 1) Reads. -/
theorem cut_payload_never_succeeds (ks : List Nat) (hpos : ∀ k ∈ ks, 0 < k) (r : Rd) (s : Src) (cx : Ctx)
    (h : CutFrame r s) :
    ∃ raw out e r' s', reads r s cx ks = some (out, e, r', s', cx) ∧ out = plainOf r raw ∧ raw ++ s'.bytes = s.bytes
      ∧ e ≠ some .eof
      ∧ (mu s < ks.length → e = some .ueof ∨ e = some .fail) := by
  obtain ⟨raw, out, e, r', s', h1, h2, h3, h4⟩ := reads_cut ks hpos r s cx h
  refine ⟨raw, out, e, r', s', h1, h2, h3, ?_, ?_⟩
  · rcases h4 with ⟨he, _⟩ | ⟨he, _⟩ | ⟨he, _⟩ <;> rw [he] <;> simp
  · intro hl
    rcases h4 with ⟨_, hm⟩ | ⟨he, _⟩ | ⟨he, _⟩
    · omega
    · exact Or.inl he
    · exact Or.inr he

/-- **The same for a text frame read with CheckUTF8 on**, `σ` being the Table 3-7 position the text
    delivered so far has reached: a cut text frame never ends in io.EOF either — the Reads hand out a
    genuine prefix of what arrived and then report io.ErrUnexpectedEOF, the transport's failure, or
    (if the bytes that did arrive are not UTF-8) ErrInvalidUTF8; one of the three after at most
    (bytes + chunks + 1) Reads. -/
theorem cut_text_payload_never_succeeds (ks : List Nat) (hpos : ∀ k ∈ ks, 0 < k) (σ : Spec.U8) (r : Rd) (s : Src) (cx : Ctx)
    (htm : RdText.TM σ r) (hhas : r.hasFrame = true) (hshort : s.bytes.length < r.rawN)
    (hwf : Bytes.WF s.bytes) (hmwf : r.mask.WF) :
    ∃ out e r' s' cx', reads r s cx ks = some (out, e, r', s', cx')
      ∧ (∃ raw more rest, out ++ more = plainOf r raw ∧ raw ++ rest = s.bytes)
      ∧ e ≠ some .eof
      ∧ (mu s < ks.length → e = some .ueof ∨ e = some .fail ∨ e = some .utf8) := by
  have hcut : CutFrame (RdText.strip r) s := ⟨hhas, rfl, hshort, hwf, hmwf⟩
  obtain ⟨raw, out, e, q', s', h1, h2, h3, h4, h5⟩ := cut_payload_never_succeeds ks hpos (RdText.strip r) s cx hcut
  have hpo : plainOf (RdText.strip r) raw = plainOf r raw := rfl
  have hrawwf : Bytes.WF raw := by rw [← h3] at hwf; exact RdText.wf_left hwf
  have howf : Bytes.WF out := by
    rw [h2, hpo]; unfold plainOf
    split
    · rw [← xorFrom_eq_spec]; exact xorFrom_wf r.mask hmwf _ _ hrawwf
    · exact hrawwf
  rcases RdText.reads_sim ks σ r s cx htm out e q' s' cx h1 howf with
    ⟨_, _, r', a3, _, _⟩ | ⟨_, out', r', s'', cx'', a3, more', a4⟩
  · refine ⟨out, e, r', s', cx, a3, ⟨raw, [], s'.bytes, by rw [List.append_nil, h2, hpo], h3⟩, h4, fun hl => ?_⟩
    rcases h5 hl with h | h
    · exact Or.inl h
    · exact Or.inr (Or.inl h)
  · exact ⟨out', some .utf8, r', s'', cx'', a3, ⟨raw, more', s'.bytes, by rw [← a4, h2, hpo], h3⟩, by simp, fun _ => Or.inr (Or.inr rfl)⟩

/-- **A stream ending between the fragments of a message** (after any valid prefix of the message
    has been read): the Read that has to fetch the next fragment reports io.ErrUnexpectedEOF, never
    a clean end of stream. -/
theorem stream_ends_between_fragments (ao skip : Bool) (st maxF : Nat) (r : Rd) (s : Src) (cx : Ctx) (k : Nat)
    (hend : AtEnd ao skip st maxF [] r s []) (hfin : s.fin = .eof) :
    ∃ r1 s1 cx1, r.read s cx k none = some ([], 0, some .ueof, r1, s1, cx1) := by
  have hfrag : r.fragmented = true := by simp [Rd.fragmented, hend.state, hend.common.stF]
  have h := cut_between_fragments_is_error r s cx none hfrag hend.bytes hfin
  rcases hn : r.nextFrame s cx none with ⟨hd, e, r1, s1, cx1⟩
  rw [hn] at h
  simp only at h
  subst h
  refine ⟨r1, s1, cx1, ?_⟩
  unfold Rd.read
  simp [hend.has, hfrag, hn]

/-! ### sticky destination error -/

theorem write_sticky (w : Wr) (e : Env) (p : Bytes) (h : w.err = true) :
    ∃ w', w.write e p = some (0, some .dest, w', e) ∧ w'.err = true := by
  unfold Wr.write Wr.write.loop
  simp [h]

theorem writeThrough_sticky (w : Wr) (e : Env) (p : Bytes) (h : w.err = true) :
    w.writeThrough e p = some (0, some .dest, w, e) := by
  unfold Wr.writeThrough; simp [h]

theorem flush_sticky (w : Wr) (e : Env) (h : w.err = true) : w.flush e = some (some .dest, w, e) := by
  unfold Wr.flush; simp [h]

theorem flushFrag_sticky (w : Wr) (e : Env) (h : w.err = true) : w.flushFrag e = some (some .dest, w, e) := by
  unfold Wr.flushFrag; simp [h]

/-- A destination that refuses a write records nothing. -/
theorem dst_fail_writes (d : Dst) (p : Bytes) (h : (d.write p).1 = false) : (d.write p).2.writes = d.writes := by
  unfold Dst.write at *
  split <;> simp_all

/-- A failing destination write inside Flush makes the error sticky (so, by the theorems above,
    every later write and flush fails and sends nothing). -/
theorem flush_failure_sets_err (w : Wr) (e e' : Env)
    (hf : w.flushFragment e true = some (false, e')) (hd : w.dirty = true) (herr : w.err = false) :
    ∃ w', w.flush e = some (some .dest, w', e') ∧ w'.err = true := by
  unfold Wr.flush
  simp [hd, herr, hf]

theorem flushFrag_failure_sets_err (w : Wr) (e e' : Env)
    (hf : w.flushFragment e false = some (false, e')) (hb : w.buf ≠ []) (herr : w.err = false) :
    ∃ w', w.flushFrag e = some (some .dest, w', e') ∧ w'.err = true := by
  unfold Wr.flushFrag
  cases hbb : w.buf with
  | nil => exact absurd hbb hb
  | cons x xs => simp [herr, hf, hbb] at *

end Ws.C16
