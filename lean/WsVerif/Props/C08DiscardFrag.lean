/-
  C08 / C04 — Discard with `wsutil.ControlFrameHandler` installed as OnIntermediate over the rest of a fragmented
  message: every interleaved ping is answered (one pong each, identical payload, in order), pongs are consumed,
  the transport ends up right behind the message and the reader is reset — and, through Proofs/ReaderBinG, the
  same for the checking reader of the `wsutil.ReadData` family when it skips a fragmented message of a type the
  caller did not ask for (text or not: Discard never validates).
-/
import WsVerif.Props.C08ReadDataFrag
import WsVerif.Props.C04DiscardMsg
namespace Ws.C08
open Ws Ws.Spec Ws.RdProof Ws.RdCb Ws.RdText Ws.RdBin Ws.RdPong Ws.C06 Ws.C04

theorem discard_tail_h (client : Bool) (errText : ProtoErr → Bytes) (skip : Bool) (st maxF : Nat) (rest : Bytes) (fs : List WFrame)
    (ht : Tail false skip st maxF fs) (hg : ∀ f ∈ fs, opIsControl f.h.op = true → GoodCtl f) :
    ∀ (r : Rd) (s : Src) (wire : Bytes) (fuel : Nat) (cx : Ctx),
      Common skip st maxF r s → r.state = st → r.rawN = wire.length → s.bytes = wire ++ (encodeFs fs ++ rest) →
      fs.length < fuel → EnvOk cx.env →
      ∃ r' s' cx', r.discard s cx (some (pongH client errText)) fuel = (none, r', s', cx') ∧ s'.bytes = rest ∧ Src.Tame s'
        ∧ Handled client fs cx cx' ∧ EnvOk cx'.env
        ∧ r'.state = stClear st stFragmented ∧ r'.maxFrame = maxF ∧ r'.skipCheck = skip ∧ r'.ext = false := by
  induction ht with
  | opn h => cases h
  | last f hok hdata hfin hacc =>
    intro r s wire fuel cx hc hst hn hb hfuel henv
    match fuel, hfuel with
    | n + 2, _ =>
    obtain ⟨s1, hd, hb1, ht1, _, _⟩ := drainRaw_ok s.fuel r s wire (encodeFs [f] ++ rest) hb hn hc.tame (by unfold Src.fuel mu; omega)
    have hfr : ({ r with rawN := 0 } : Rd).fragmented = true := by simp [Rd.fragmented, hst, hc.stF]
    have hbytes : s1.bytes = rfcEncode f.h ++ (f.wire ++ rest) := by rw [hb1]; simp [encodeFs, WFrame.enc]
    have hwf1 : Bytes.WF s1.bytes := by rw [hb1]; exact wf_append_right (hb ▸ hc.wf)
    have hwt : Bytes.WF (f.wire ++ rest) := by rw [hbytes] at hwf1; exact wf_append_right hwf1
    obtain ⟨s2, hrh, hb2, ht2, _⟩ := readHeader_ok f.h hok.hwf _ hwt s1 hbytes ht1
    have hacc' : Accepts ({ r with rawN := 0 } : Rd) f.h := by
      unfold Accepts; simp only [hc.skip, hst, hc.maxF]; exact hacc
    have hnext := nextFrame_data ({ r with rawN := 0 } : Rd) s1 s2 cx (some (pongH client errText)) f.h hrh hacc' (by simp [hc.ext]) hdata
    have hnf : (enter ({ r with rawN := 0 } : Rd) f.h).fragmented = false := by
      simp [enter, Rd.fragmented, hfin, hst, hc.stClr]
    obtain ⟨s', hdisc, hb', ht'⟩ := discard_final_frame (enter ({ r with rawN := 0 } : Rd) f.h) s2 cx (some (pongH client errText)) n f.wire rest hnf hb2
      (by simp [enter, hok.len]) ht2
    refine ⟨(({ enter ({ r with rawN := 0 } : Rd) f.h with rawN := 0 } : Rd)).reset, s', cx, ?_, hb', ht',
      Handled.data f [] cx cx hdata (Handled.nil cx), henv, by simp [Rd.reset, enter, hfin, hst], by simp [Rd.reset, enter, hc.maxF],
      by simp [Rd.reset, enter, hc.skip], by simp [Rd.reset, enter, hc.ext]⟩
    rw [Rd.discard]
    simp only [hd, hfr, Bool.not_true, Bool.false_eq_true, if_false, hnext, hdisc]
  | cont f fs hok hdata hfin hacc _ ih =>
    have ih := ih (fun g hg' => hg g (List.mem_cons_of_mem _ hg'))
    intro r s wire fuel cx hc hst hn hb hfuel henv
    match fuel, hfuel with
    | n + 1, hfuel =>
    obtain ⟨s1, hd, hb1, ht1, _, _⟩ := drainRaw_ok s.fuel r s wire (encodeFs (f :: fs) ++ rest) hb hn hc.tame (by unfold Src.fuel mu; omega)
    have hfr : ({ r with rawN := 0 } : Rd).fragmented = true := by simp [Rd.fragmented, hst, hc.stF]
    have hbytes : s1.bytes = rfcEncode f.h ++ (f.wire ++ (encodeFs fs ++ rest)) := by rw [hb1]; simp [encodeFs, WFrame.enc]
    have hwf1 : Bytes.WF s1.bytes := by rw [hb1]; exact wf_append_right (hb ▸ hc.wf)
    have hwt : Bytes.WF (f.wire ++ (encodeFs fs ++ rest)) := by rw [hbytes] at hwf1; exact wf_append_right hwf1
    obtain ⟨s2, hrh, hb2, ht2, _⟩ := readHeader_ok f.h hok.hwf _ hwt s1 hbytes ht1
    have hacc' : Accepts ({ r with rawN := 0 } : Rd) f.h := by
      unfold Accepts; simp only [hc.skip, hst, hc.maxF]; exact hacc
    have hnext := nextFrame_data ({ r with rawN := 0 } : Rd) s1 s2 cx (some (pongH client errText)) f.h hrh hacc' (by simp [hc.ext]) hdata
    have hc2 : Common skip st maxF (enter ({ r with rawN := 0 } : Rd) f.h) s2 :=
      common_of skip st maxF hc _ s2 (by simp [enter]) (by simp [enter]) (by simp [enter]) (by simp [enter]) ht2 (by rw [hb2]; exact hwt)
    obtain ⟨r', s', cx', hdisc, hb', ht', hh', he', q1, q2, q3, q4⟩ := ih (enter ({ r with rawN := 0 } : Rd) f.h) s2 f.wire n cx hc2
      (by simp [enter, hfin, hst, hc.stSet]) (by simp [enter, hok.len]) hb2 (by simp at hfuel; omega) henv
    refine ⟨r', s', cx', ?_, hb', ht', Handled.data f fs cx cx' hdata hh', he', q1, q2, q3, q4⟩
    rw [Rd.discard]
    simp only [hd, hfr, Bool.not_true, Bool.false_eq_true, if_false, hnext, hdisc]
  | ctl f fs hok hctl hacc _ ih =>
    have hgf := hg f (List.mem_cons_self ..) hctl
    have ih := ih (fun g hg' => hg g (List.mem_cons_of_mem _ hg'))
    intro r s wire fuel cx hc hst hn hb hfuel henv
    match fuel, hfuel with
    | n + 1, hfuel =>
    obtain ⟨s1, hd, hb1, ht1, _, _⟩ := drainRaw_ok s.fuel r s wire (encodeFs (f :: fs) ++ rest) hb hn hc.tame (by unfold Src.fuel mu; omega)
    have hfr : ({ r with rawN := 0 } : Rd).fragmented = true := by simp [Rd.fragmented, hst, hc.stF]
    have hbytes : s1.bytes = rfcEncode f.h ++ (f.wire ++ (encodeFs fs ++ rest)) := by rw [hb1]; simp [encodeFs, WFrame.enc]
    have hwf1 : Bytes.WF s1.bytes := by rw [hb1]; exact wf_append_right (hb ▸ hc.wf)
    have hwt : Bytes.WF (f.wire ++ (encodeFs fs ++ rest)) := by rw [hbytes] at hwf1; exact wf_append_right hwf1
    obtain ⟨s2, hrh, hb2, ht2, _⟩ := readHeader_ok f.h hok.hwf _ hwt s1 hbytes ht1
    have hacc' : Accepts ({ r with rawN := 0 } : Rd) f.h := by
      unfold Accepts; simp only [hc.skip, hst, hc.maxF]; exact hacc
    obtain ⟨s3, cx1, hnext, hb3, ht3, _, hrep⟩ := nextFrame_ctl_h client errText ({ r with rawN := 0 } : Rd) s1 s2 cx f (encodeFs fs ++ rest) hrh hacc'
      (by simp [hc.ext]) hctl hfr hgf henv hb2 hok (by rw [hb2]; exact hwt) ht2
    have hc3 : Common skip st maxF (afterCtl ({ r with rawN := 0 } : Rd) f.h f.wire.length) s3 :=
      common_of skip st maxF hc _ s3 (by simp [afterCtl]) (by simp [afterCtl]) (by simp [afterCtl]) (by simp [afterCtl]) ht3
        (by rw [hb3]; exact wf_append_right hwt)
    obtain ⟨r', s', cx', hdisc, hb', ht', hh', he', q1, q2, q3, q4⟩ := ih (afterCtl ({ r with rawN := 0 } : Rd) f.h f.wire.length) s3 [] n cx1 hc3
      (by simp [afterCtl, hst]) (by simp [afterCtl]) (by simpa using hb3) (by simp at hfuel; omega) hrep.1
    refine ⟨r', s', cx', ?_, hb', ht', Handled.ctl f fs cx cx1 cx' hctl hrep hh', he', q1, q2, q3, q4⟩
    rw [Rd.discard]
    simp only [hd, hfr, Bool.not_true, Bool.false_eq_true, if_false, hnext, hdisc]

/-- Discard does not look at the UTF-8 fields, whatever handler of the `CbOk` kind is installed. -/
theorem discard_strip_g (cb : Callback) (hcb : CbOk cb) (n : Nat) (r : Rd) (s : Src) (cx : Ctx) :
    (strip r).discard s cx (some cb) n =
      ((r.discard s cx (some cb) n).1, strip (r.discard s cx (some cb) n).2.1, (r.discard s cx (some cb) n).2.2.1,
       (r.discard s cx (some cb) n).2.2.2) := by
  induction n generalizing r s cx with
  | zero => rfl
  | succ n ih =>
    unfold Rd.discard
    rw [drainRaw_strip]
    rcases hd : r.drainRaw s s.fuel with ⟨e, r1, s1⟩
    simp only
    cases e with
    | some e => rfl
    | none =>
      simp only [strip_fragmented]
      by_cases hf : r1.fragmented = true
      · simp only [hf, Bool.not_true, Bool.false_eq_true, if_false]
        rw [nextFrame_strip_g cb hcb]
        rcases hx : r1.nextFrame s1 cx (some cb) with ⟨h, e2, r2, s2, cx2⟩
        simp only
        cases e2 with
        | some e => rfl
        | none => exact ih r2 s2 cx2
      · have hf' : r1.fragmented = false := by simpa using hf
        simp only [hf', Bool.not_false, if_true]
        rfl

/-- a Discard that succeeds leaves a reset reader with the checking switch as it was -/
theorem discard_checking (cb : Callback) (hcb : CbOk cb) (n : Nat) : ∀ (r : Rd) (s : Src) (cx : Ctx),
    (r.discard s cx (some cb) n).1 = none →
      (r.discard s cx (some cb) n).2.1.checkUTF8 = r.checkUTF8 ∧ (r.discard s cx (some cb) n).2.1.utf8 = {} := by
  induction n with
  | zero => intro r s cx h; simp [Rd.discard] at h
  | succ n ih =>
    intro r s cx h
    have hraw := drainRaw_only_rawN r s s.fuel
    unfold Rd.discard at h ⊢
    rcases hd : r.drainRaw s s.fuel with ⟨e, r1, s1⟩
    rw [hd] at h hraw
    simp only at h hraw ⊢
    have hck : r1.checkUTF8 = r.checkUTF8 := by rw [hraw]
    cases e with
    | some e => simp at h
    | none =>
      simp only at h ⊢
      by_cases hf : r1.fragmented = true
      · simp only [hf, Bool.not_true, Bool.false_eq_true, if_false] at h ⊢
        obtain ⟨_, _, f3, _, _⟩ := nextFrame_fields_g2 cb hcb r1 s1 cx
        rcases hx : r1.nextFrame s1 cx (some cb) with ⟨hh, e2, r2, s2, cx2⟩
        rw [hx] at h f3
        simp only at h f3 ⊢
        cases e2 with
        | some e => simp at h
        | none =>
          simp only at h ⊢
          obtain ⟨g1, g2⟩ := ih r2 s2 cx2 h
          exact ⟨by rw [g1, f3, hck], g2⟩
      · have hf' : r1.fragmented = false := by simpa using hf
        simp only [hf', Bool.not_false, if_true]
        exact ⟨by simp [Rd.reset, hck], by simp [Rd.reset]⟩

theorem encodeFs_len_ge (fs : List WFrame) : fs.length ≤ (encodeFs fs).length := by
  induction fs with
  | nil => simp [encodeFs]
  | cons f fs ih =>
    have h2 : 2 ≤ (rfcEncode f.h).length := by
      rw [C01.rfc_len]; unfold rfcSize; split <;> (try split) <;> omega
    have : (encodeFs (f :: fs)).length = (rfcEncode f.h).length + f.wire.length + (encodeFs fs).length := by
      simp [encodeFs, WFrame.enc, Nat.add_assoc]
    rw [this]; simp only [List.length_cons]; omega

/-- the ReadData loop on a FRAGMENTED message of a type the caller did not ask for (text or not), with pings and
    pongs between its fragments: skipped whole, the pings answered, the reader idle again -/
theorem loop_skip_frag (state want : Nat) (errText : ProtoErr → Bytes)
    (r0 : Rd) (s : Src) (cx : Ctx) (fuel : Nat) (f0 : WFrame) (fs : List WFrame) (rest : Bytes)
    (hi : Idle state r0) (henv : EnvOk cx.env) (hst : state < 256) (hnf : stIs state stFragmented = false)
    (hm : Message ({ state } : Rd) f0 fs) (hfin : f0.h.fin = false)
    (hunw : (f0.h.op &&& want == 0) = true)
    (hg : ∀ f ∈ fs, opIsControl f.h.op = true → GoodCtl f)
    (hb : s.bytes = encodeFs (f0 :: fs) ++ rest) (hwf : Bytes.WF s.bytes) (htame : Src.Tame s) :
    ∃ r2 s2 cx2 ws, readData.loop want errText (stIs state stClient) (pongH (stIs state stClient) errText) (fuel + 1) r0 s cx
        = readData.loop want errText (stIs state stClient) (pongH (stIs state stClient) errText) fuel r2 s2 cx2
      ∧ Idle state r2 ∧ s2.bytes = rest ∧ Src.Tame s2 ∧ EnvOk cx2.env
      ∧ cx2.env.dst.writes = cx.env.dst.writes ++ ws ∧ Pongs (stIs state stClient) ws (pingsIn fs) ∧ cx2.msgs = cx.msgs := by
  have hcb := ctlHandler_ok (stIs state stClient) errText
  obtain ⟨b1, b2, b3, b4⟩ := stbits state hst
  have hok := hm.ok0
  have hdata := hm.data0
  have hbytes : s.bytes = rfcEncode f0.h ++ (f0.wire ++ (encodeFs fs ++ rest)) := by
    rw [hb]; simp [encodeFs, WFrame.enc, List.append_assoc]
  have hwt : Bytes.WF (f0.wire ++ (encodeFs fs ++ rest)) := by rw [hbytes] at hwf; exact wf_append_right hwf
  obtain ⟨s1, hrh, hb1, ht1, hmu1⟩ := readHeader_ok f0.h hok.hwf _ hwt s hbytes htame
  have hacc0 := hm.acc0
  have haccept : Accepts r0 f0.h := by
    unfold Accepts; rw [hi.skip, hi.st, hi.maxF]; exact hacc0
  have hnext := nextFrame_data r0 s s1 cx (some (pongH (stIs state stClient) errText)) f0.h hrh haccept hi.ext hdata
  -- the non-checking side of the reader that entered the first frame
  have htail : Tail false false (stSet state stFragmented) 0 fs := by
    have := hm.rest; simp only [hfin, Bool.false_eq_true, if_false] at this; exact this
  have hcommon : Common false (stSet state stFragmented) 0 (strip (enter r0 f0.h)) s1 :=
    ⟨by simp [strip, enter, hi.ext], rfl, by simp [strip, enter, hi.skip], by simp [strip, enter, hi.maxF], ht1,
     by rw [hb1]; exact hwt, b1, b2, b3⟩
  have hfuel : fs.length < pullFuel s1 := by
    have h1 := encodeFs_len_ge fs
    have h2 : (encodeFs fs).length ≤ s1.bytes.length := by rw [hb1]; simp; omega
    unfold pullFuel Src.fuel; omega
  obtain ⟨q', s', cx', hdq, hb', ht', hh', he', q1, q2, q3, q4⟩ := discard_tail_h (stIs state stClient) errText false (stSet state stFragmented) 0 rest fs
    htail hg (strip (enter r0 f0.h)) s1 f0.wire (pullFuel s1) cx hcommon (by simp [strip, enter, hfin, hi.st])
    (by simp [strip, enter, hok.len]) hb1 hfuel henv
  have hds := discard_strip_g _ hcb (pullFuel s1) (enter r0 f0.h) s1 cx
  rw [hdq] at hds
  rcases hD : (enter r0 f0.h).discard s1 cx (some (pongH (stIs state stClient) errText)) (pullFuel s1) with ⟨e2, r2, s2, cx2⟩
  rw [hD] at hds
  simp only [Prod.mk.injEq] at hds
  obtain ⟨rfl, hr2, rfl, rfl⟩ := hds
  have hchk := discard_checking _ hcb (pullFuel s1) (enter r0 f0.h) s1 cx (by rw [hD])
  rw [hD] at hchk
  simp only at hchk
  obtain ⟨ws, hw1, hw2, hw3⟩ := handled_writes (stIs state stClient) fs cx cx' hh'
  have hidle : Idle state r2 := by
    have e1 : (strip r2).state = r2.state := rfl
    have e2 : (strip r2).maxFrame = r2.maxFrame := rfl
    have e3 : (strip r2).skipCheck = r2.skipCheck := rfl
    have e4 : (strip r2).ext = r2.ext := rfl
    refine ⟨?_, ?_, ?_, ?_, ?_, hchk.2⟩
    · rw [← e1, ← hr2, q1]; exact b4 hnf
    · rw [hchk.1]; simp [enter, hi.chk]
    · rw [← e4, ← hr2, q4]
    · rw [← e3, ← hr2, q3]
    · rw [← e2, ← hr2, q2]
  refine ⟨r2, s', cx', ws, ?_, hidle, hb', ht', he', hw1, hw2, hw3⟩
  rw [readData.loop]
  simp only [hnext, hdata, Bool.false_eq_true, if_false, hunw, if_true, hD]

end Ws.C08
