/-
  C09 — Server handshake succeeds only for compliant requests and answers correctly.

  Stated on the model of server.go (Model/Upgrader.lean); the model is tied to the code by the
  correspondence run (`up`/`hup` ops) and the generated facts.  What is proved here:
    * success of Upgrader.Upgrade implies: GET, HTTP/1.x with x ≥ 1, OnRequest did not object, every
      mandatory header was seen, every occurrence of a mandatory header had an acceptable value
      (a key that is not 24 bytes long is always refused), and the bytes written are the 101
      response whose accept value is derived from the last key received  (`upgrade_success_sound`);
    * the header loop accepts every head whose lines are all acceptable (`runHeaders_complete`,
      `upFinish_complete`): PARTIAL completeness — the step from bytes to lines (readLine) is C11's;
    * on failure nothing or an error response is written, never the 101 writer; built-in errors
      carry 400/405/505/426(+version header); the body is announced with its exact length;
    * the subprotocol chosen is the first token the selector accepts; selected extensions come
      from the parsed offer;
    * the same soundness and (for a configuration without selectors) completeness for
      HTTPUpgrader.Upgrade.
-/
import WsVerif.Model.Upgrader
namespace Ws.C09
open Ws Ws.Lex

/-! ### the header loop as a fold over parsed lines -/

def runHeaders (cfg : UpCfg) : List (Bytes × Bytes) → UpState → UpState × Option HsErr
  | [], st => (st, none)
  | (k, v) :: r, st =>
    match (upHeader cfg st k v).2 with
    | some e => ((upHeader cfg st k v).1, some e)
    | none => runHeaders cfg r (upHeader cfg st k v).1

theorem hdrLoop_err (cfg : UpCfg) (fuel : Nat) (b : Bufio) (st : UpState) (e : HsErr) :
    ∃ e' b', hdrLoop cfg fuel b st (some e) = .inr (st, some e', b') := by
  cases fuel with
  | zero => exact ⟨_, _, rfl⟩
  | succ n => exact ⟨e, b, by simp [hdrLoop]⟩

/-- If the loop ends without error, the lines it consumed form a history that the pure fold
    accepts with the same final state. -/
theorem hdrLoop_history (cfg : UpCfg) (fuel : Nat) (b : Bufio) (st st' : UpState) (b' : Bufio)
    (h : hdrLoop cfg fuel b st none = .inr (st', none, b')) :
    ∃ hist, runHeaders cfg hist st = (st', none) := by
  induction fuel generalizing b st with
  | zero => simp [hdrLoop] at h
  | succ n ih =>
    unfold hdrLoop at h
    simp only [Option.isSome_none, Bool.false_eq_true, if_false] at h
    split at h
    · cases h
    · rename_i line b1 _
      split at h
      · injection h with h; injection h with h1 h2; injection h2 with h2 h3
        subst h1; exact ⟨[], rfl⟩
      · split at h
        · injection h with h; injection h with _ h2; injection h2 with h2 _; cases h2
        · rename_i k v _
          cases he : (upHeader cfg st k v).2 with
          | some e =>
            rw [he] at h
            obtain ⟨e', b2, h2⟩ := hdrLoop_err cfg n b1 (upHeader cfg st k v).1 e
            rw [h2] at h
            injection h with h; injection h with _ h3; injection h3 with h3 _; cases h3
          | none =>
            rw [he] at h
            obtain ⟨hist, hh⟩ := ih _ _ h
            exact ⟨(k, v) :: hist, by simp [runHeaders, he, hh]⟩

/-! ### per-line requirements -/

def kHost := strBytes "Host"
def kUpgrade := strBytes "Upgrade"
def kConnection := strBytes "Connection"
def kVersion := strBytes "Sec-Websocket-Version"
def kKey := strBytes "Sec-Websocket-Key"
def kProtocol := strBytes "Sec-Websocket-Protocol"
def kExtensions := strBytes "Sec-Websocket-Extensions"

/-- The headerSeen bit a (canonical) header name owns. -/
def bitOf (k : Bytes) : Nat :=
  if k = kHost then 1 else if k = kUpgrade then 2 else if k = kConnection then 4
  else if k = kVersion then 8 else if k = kKey then 16 else 0

/-- What the RFC asks of one occurrence of a mandatory header. -/
def lineGood (k v : Bytes) : Prop :=
  (k = kUpgrade → equalFold v (strBytes "websocket") = true) ∧
  (k = kConnection → (v = strBytes "Upgrade" ∨ btsHasToken v (strBytes "upgrade") = true)) ∧
  (k = kVersion → v = strBytes "13") ∧
  (k = kKey → v.length = 24)

theorem keys_distinct : kHost ≠ kUpgrade ∧ kHost ≠ kConnection ∧ kHost ≠ kVersion ∧ kHost ≠ kKey
    ∧ kUpgrade ≠ kConnection ∧ kUpgrade ≠ kVersion ∧ kUpgrade ≠ kKey ∧ kConnection ≠ kVersion
    ∧ kConnection ≠ kKey ∧ kVersion ≠ kKey := by decide +kernel

/-- One accepted header line: the value was acceptable, the bit of the name is recorded, the key
    kept is the one just seen, and a Host line means OnHost did not object. -/
theorem upHeader_ok (cfg : UpCfg) (st : UpState) (k v : Bytes) (h : (upHeader cfg st k v).2 = none) :
    lineGood k v ∧ (upHeader cfg st k v).1.seen = st.seen ||| bitOf k
      ∧ (upHeader cfg st k v).1.nonce = (if k = kKey then v else st.nonce)
      ∧ (k = kHost → cfg.onHost = none) := by
  obtain ⟨d1, d2, d3, d4, d5, d6, d7, d8, d9, d10⟩ := keys_distinct
  unfold upHeader at h ⊢
  unfold lineGood bitOf
  simp only [show strBytes "Host" = kHost from rfl, show strBytes "Upgrade" = kUpgrade from rfl,
    show strBytes "Connection" = kConnection from rfl, show strBytes "Sec-Websocket-Version" = kVersion from rfl,
    show strBytes "Sec-Websocket-Key" = kKey from rfl, show strBytes "Sec-Websocket-Protocol" = kProtocol from rfl,
    show strBytes "Sec-Websocket-Extensions" = kExtensions from rfl] at h ⊢
  by_cases h1 : k = kHost
  · subst h1; simp_all [seenHost]
  · by_cases h2 : k = kUpgrade
    · subst h2
      simp only [if_neg h1, if_true] at h ⊢
      simp_all [seenUpgrade]
    · by_cases h3 : k = kConnection
      · subst h3
        simp only [if_neg h1, if_neg h2, if_true] at h ⊢
        simp_all [seenConnection]
        exact Classical.or_iff_not_imp_left.mpr h
      · by_cases h4 : k = kVersion
        · subst h4
          simp only [if_neg h1, if_neg h2, if_neg h3, if_true] at h ⊢
          simp_all [seenSecVersion]
        · by_cases h5 : k = kKey
          · subst h5
            simp only [if_neg h1, if_neg h2, if_neg h3, if_neg h4, if_true] at h ⊢
            by_cases hl : v.length = 24
            · simp_all [seenSecKey]
            · simp_all
          · simp only [if_neg h1, if_neg h2, if_neg h3, if_neg h4, if_neg h5] at h ⊢
            refine ⟨⟨fun e => absurd e h2, fun e => absurd e h3, fun e => absurd e h4, fun e => absurd e h5⟩, ?_, ?_, fun e => absurd e h1⟩
            · split <;> (try split) <;> (try split) <;> (try split) <;> simp
            · split <;> (try split) <;> (try split) <;> (try split) <;> simp

/-- The value of the last Sec-WebSocket-Key line. -/
def lastKey (hist : List (Bytes × Bytes)) (dflt : Bytes) : Bytes :=
  hist.foldl (fun n kv => if kv.1 = kKey then kv.2 else n) dflt

theorem runHeaders_sound (cfg : UpCfg) (hist : List (Bytes × Bytes)) (st st' : UpState)
    (h : runHeaders cfg hist st = (st', none)) :
    (∀ kv ∈ hist, lineGood kv.1 kv.2)
      ∧ st'.seen = hist.foldl (fun a kv => a ||| bitOf kv.1) st.seen
      ∧ st'.nonce = lastKey hist st.nonce
      ∧ ((∃ kv ∈ hist, kv.1 = kHost) → cfg.onHost = none) := by
  induction hist generalizing st with
  | nil => simp [runHeaders] at h; subst h; simp [lastKey]
  | cons kv r ih =>
    obtain ⟨k, v⟩ := kv
    unfold runHeaders at h
    cases he : (upHeader cfg st k v).2 with
    | some e => rw [he] at h; simp at h
    | none =>
      rw [he] at h
      obtain ⟨g, s, n, ho⟩ := upHeader_ok cfg st k v he
      obtain ⟨i1, i2, i3, i4⟩ := ih _ h
      refine ⟨?_, ?_, ?_, ?_⟩
      · intro kv hkv
        cases hkv with
        | head => exact g
        | tail _ hm => exact i1 kv hm
      · rw [i2, s]; rfl
      · rw [i3, n]; rfl
      · rintro ⟨kv, hkv, hk⟩
        cases hkv with
        | head => exact ho hk
        | tail _ hm => exact i4 ⟨kv, hm, hk⟩

/-! ### from the headerSeen word back to "each mandatory header occurred" -/

theorem fold_testBit (hist : List (Bytes × Bytes)) (s i : Nat) :
    (hist.foldl (fun a kv => a ||| bitOf kv.1) s).testBit i
      = (s.testBit i || hist.any (fun kv => (bitOf kv.1).testBit i)) := by
  induction hist generalizing s with
  | nil => simp
  | cons kv r ih => simp [ih, Nat.testBit_or, Bool.or_assoc]

theorem bitOf_testBit (k : Bytes) :
    ((bitOf k).testBit 0 = true → k = kHost) ∧ ((bitOf k).testBit 1 = true → k = kUpgrade)
    ∧ ((bitOf k).testBit 2 = true → k = kConnection) ∧ ((bitOf k).testBit 3 = true → k = kVersion)
    ∧ ((bitOf k).testBit 4 = true → k = kKey) := by
  unfold bitOf
  split
  · simp_all [Nat.testBit]
  · split
    · simp_all [Nat.testBit]
    · split
      · simp_all [Nat.testBit]
      · split
        · simp_all [Nat.testBit]
        · split
          · simp_all [Nat.testBit]
          · simp [Nat.testBit]

/-- `headerSeen == headerSeenAll` means each of the five headers occurred. -/
theorem seenAll_present (hist : List (Bytes × Bytes))
    (h : hist.foldl (fun a kv => a ||| bitOf kv.1) 0 = seenAll) :
    (∃ kv ∈ hist, kv.1 = kHost) ∧ (∃ kv ∈ hist, kv.1 = kUpgrade) ∧ (∃ kv ∈ hist, kv.1 = kConnection)
      ∧ (∃ kv ∈ hist, kv.1 = kVersion) ∧ (∃ kv ∈ hist, kv.1 = kKey) := by
  have hb : ∀ i, i < 5 → hist.any (fun kv => (bitOf kv.1).testBit i) = true := by
    intro i hi
    have := fold_testBit hist 0 i
    rw [h] at this
    have h31 : seenAll.testBit i = true := by
      have : i = 0 ∨ i = 1 ∨ i = 2 ∨ i = 3 ∨ i = 4 := by omega
      rcases this with h | h | h | h | h <;> subst h <;> decide
    rw [h31] at this
    simpa using this.symm
  have get : ∀ i, i < 5 → ∃ kv ∈ hist, (bitOf kv.1).testBit i = true := by
    intro i hi
    have := hb i hi
    rw [List.any_eq_true] at this
    exact this
  obtain ⟨a, ha, ha'⟩ := get 0 (by omega)
  obtain ⟨b, hb1, hb'⟩ := get 1 (by omega)
  obtain ⟨c, hc, hc'⟩ := get 2 (by omega)
  obtain ⟨d, hd, hd'⟩ := get 3 (by omega)
  obtain ⟨e, he, he'⟩ := get 4 (by omega)
  exact ⟨⟨a, ha, (bitOf_testBit a.1).1 ha'⟩, ⟨b, hb1, (bitOf_testBit b.1).2.1 hb'⟩,
    ⟨c, hc, (bitOf_testBit c.1).2.2.1 hc'⟩, ⟨d, hd, (bitOf_testBit d.1).2.2.2.1 hd'⟩,
    ⟨e, he, (bitOf_testBit e.1).2.2.2.2 he'⟩⟩

/-! ### Upgrader.Upgrade -/

/-- What "a compliant request and no objecting callback" means for the parsed head. -/
structure Compliant (cfg : UpCfg) (method : Bytes) (major minor : Nat) (hist : List (Bytes × Bytes)) : Prop where
  get : method = strBytes "GET"
  version : major = 1 ∧ 1 ≤ minor
  onRequest : cfg.onRequest = none
  onHost : cfg.onHost = none
  host : ∃ kv ∈ hist, kv.1 = kHost
  upgrade : ∃ kv ∈ hist, kv.1 = kUpgrade
  connection : ∃ kv ∈ hist, kv.1 = kConnection
  secVersion : ∃ kv ∈ hist, kv.1 = kVersion
  key : ∃ kv ∈ hist, kv.1 = kKey
  values : ∀ kv ∈ hist, lineGood kv.1 kv.2
  before : ∀ e, cfg.onBeforeUpgrade ≠ some (.inr e)

theorem upRequestLine_none (cfg : UpCfg) (m : Bytes) (ma mi : Nat) (h : upRequestLine cfg m ma mi = none) :
    m = strBytes "GET" ∧ (ma = 1 ∧ 1 ≤ mi) ∧ cfg.onRequest = none := by
  unfold upRequestLine at h
  split at h
  · cases h
  · split at h
    · cases h
    · rename_i h1 h2
      exact ⟨by simpa using h2, by omega, h⟩

/-! ### completeness of the header loop (PARTIAL: from parsed lines, not from bytes) -/

/-- A line no check and no callback objects to. -/
def lineOk (cfg : UpCfg) (k v : Bytes) : Prop :=
  lineGood k v ∧ (k = kHost → cfg.onHost = none) ∧ (k = kProtocol → cfg.protocols = none)
    ∧ (k = kExtensions → cfg.negotiate = none ∧ cfg.extension = none)
    ∧ (k = cfg.onHeaderKey → cfg.onHeader = none)

theorem upHeader_complete (cfg : UpCfg) (st : UpState) (k v : Bytes) (h : lineOk cfg k v) :
    (upHeader cfg st k v).2 = none := by
  obtain ⟨⟨g1, g2, g3, g4⟩, o1, o2, o3, o4⟩ := h
  unfold upHeader
  simp only [show strBytes "Host" = kHost from rfl, show strBytes "Upgrade" = kUpgrade from rfl,
    show strBytes "Connection" = kConnection from rfl, show strBytes "Sec-Websocket-Version" = kVersion from rfl,
    show strBytes "Sec-Websocket-Key" = kKey from rfl, show strBytes "Sec-Websocket-Protocol" = kProtocol from rfl,
    show strBytes "Sec-Websocket-Extensions" = kExtensions from rfl]
  by_cases h1 : k = kHost
  · simp [h1, o1 h1]
  · rw [if_neg h1]
    by_cases h2 : k = kUpgrade
    · simp [h2, g1 h2]
    · rw [if_neg h2]
      by_cases h3 : k = kConnection
      · rw [if_pos h3]
        rcases g2 h3 with g | g
        · simp [g, show strBytes "Upgrade" = kUpgrade from rfl]
        · simp [g]
      · rw [if_neg h3]
        by_cases h4 : k = kVersion
        · simp [h4, g3 h4]
        · rw [if_neg h4]
          by_cases h5 : k = kKey
          · simp [h5, g4 h5]
          · rw [if_neg h5]
            by_cases h6 : k = kProtocol
            · simp [h6, o2 h6]
            · rw [if_neg h6]
              by_cases h7 : k = kExtensions
              · simp [h7, (o3 h7).1, (o3 h7).2]
              · rw [if_neg h7]
                by_cases h8 : k = cfg.onHeaderKey
                · simp [h8, o4 h8]
                · simp [h8]

/-- Every head whose lines are all acceptable passes the loop. -/
theorem runHeaders_complete (cfg : UpCfg) (hist : List (Bytes × Bytes)) (st : UpState)
    (h : ∀ kv ∈ hist, lineOk cfg kv.1 kv.2) : ∃ st', runHeaders cfg hist st = (st', none) := by
  induction hist generalizing st with
  | nil => exact ⟨st, rfl⟩
  | cons kv r ih =>
    obtain ⟨k, v⟩ := kv
    have := upHeader_complete cfg st k v (h (k, v) List.mem_cons_self)
    obtain ⟨st', hs⟩ := ih (upHeader cfg st k v).1 (fun kv hkv => h kv (List.mem_cons_of_mem _ hkv))
    exact ⟨st', by simp [runHeaders, this, hs]⟩

theorem bitOf_lt (k : Bytes) : bitOf k < 32 := by
  unfold bitOf; repeat' split
  all_goals omega

/-- With all five headers present the headerSeen word is headerSeenAll. -/
theorem present_seenAll (hist : List (Bytes × Bytes))
    (h0 : ∃ kv ∈ hist, kv.1 = kHost) (h1 : ∃ kv ∈ hist, kv.1 = kUpgrade) (h2 : ∃ kv ∈ hist, kv.1 = kConnection)
    (h3 : ∃ kv ∈ hist, kv.1 = kVersion) (h4 : ∃ kv ∈ hist, kv.1 = kKey) :
    hist.foldl (fun a kv => a ||| bitOf kv.1) 0 = seenAll := by
  obtain ⟨d1, d2, d3, d4, d5, d6, d7, d8, d9, d10⟩ := keys_distinct
  apply Nat.eq_of_testBit_eq
  intro i
  rw [fold_testBit]
  simp only [Nat.zero_testBit, Bool.false_or]
  by_cases hi : i < 5
  · have hr : seenAll.testBit i = true := by
      have : i = 0 ∨ i = 1 ∨ i = 2 ∨ i = 3 ∨ i = 4 := by omega
      rcases this with h | h | h | h | h <;> subst h <;> decide
    rw [hr, List.any_eq_true]
    have : i = 0 ∨ i = 1 ∨ i = 2 ∨ i = 3 ∨ i = 4 := by omega
    rcases this with h | h | h | h | h <;> subst h
    · obtain ⟨kv, hm, hk⟩ := h0; exact ⟨kv, hm, by simp [bitOf, hk]⟩
    · obtain ⟨kv, hm, hk⟩ := h1; exact ⟨kv, hm, by simp [bitOf, hk, Ne.symm d1]; decide⟩
    · obtain ⟨kv, hm, hk⟩ := h2; exact ⟨kv, hm, by simp [bitOf, hk, Ne.symm d2, Ne.symm d5]; decide⟩
    · obtain ⟨kv, hm, hk⟩ := h3; exact ⟨kv, hm, by simp [bitOf, hk, Ne.symm d3, Ne.symm d6, Ne.symm d8]; decide⟩
    · obtain ⟨kv, hm, hk⟩ := h4
      exact ⟨kv, hm, by simp [bitOf, hk, Ne.symm d4, Ne.symm d7, Ne.symm d9, Ne.symm d10]; decide⟩
  · have hr : seenAll.testBit i = false :=
      Nat.testBit_lt_two_pow (Nat.lt_of_lt_of_le (by decide : seenAll < 2 ^ 5) (Nat.pow_le_pow_right (by omega) (show 5 ≤ i by omega)))
    rw [hr]
    rw [Bool.eq_false_iff]
    intro hany
    rw [List.any_eq_true] at hany
    obtain ⟨kv, _, hb⟩ := hany
    have h32 : bitOf kv.1 < 2 ^ 5 := bitOf_lt kv.1
    have := Nat.testBit_lt_two_pow (Nat.lt_of_lt_of_le h32 (Nat.pow_le_pow_right (by omega) (show 5 ≤ i by omega)))
    rw [this] at hb; cases hb

/-- COMPLETENESS of the decision (from parsed lines): a GET with HTTP/1.x (x ≥ 1) whose header
    lines are all acceptable and include the five mandatory headers, with no objecting callback,
    reaches the 101 writer. -/
theorem decision_complete (cfg : UpCfg) (m : Bytes) (ma mi : Nat) (hist : List (Bytes × Bytes))
    (hc : Compliant cfg m ma mi hist) (hl : ∀ kv ∈ hist, lineOk cfg kv.1 kv.2)
    (hb : cfg.onBeforeUpgrade = none) :
    upRequestLine cfg m ma mi = none ∧
      ∃ st, runHeaders cfg hist {} = (st, none) ∧ upFinish cfg st none = (none, []) := by
  refine ⟨?_, ?_⟩
  · unfold upRequestLine
    rw [if_neg (by have := hc.version; omega), if_neg (by simp [hc.get])]; exact hc.onRequest
  · obtain ⟨st, hs⟩ := runHeaders_complete cfg hist {} hl
    refine ⟨st, hs, ?_⟩
    have hseen := (runHeaders_sound cfg hist {} st hs).2.1
    have : st.seen = seenAll := by
      rw [hseen]; exact present_seenAll hist hc.host hc.upgrade hc.connection hc.secVersion hc.key
    unfold upFinish
    simp [this, hb]

/-- SOUNDNESS.  Success means: the request line and every header line read were acceptable, all
    five mandatory headers occurred, no callback objected, and exactly the 101 response for the
    last key received was written. -/
theorem upgrade_success_sound (cfg : UpCfg) (src : Src) (hs : Handshake) (w : Bytes) (b : Bufio)
    (h : upgrade cfg src = (hs, none, w, b)) :
    ∃ rl major minor hist st extra,
      httpParseVersion (bsplit3 rl 32).2.2 = some (major, minor)
      ∧ Compliant cfg (bsplit3 rl 32).1 major minor hist
      ∧ runHeaders cfg hist {} = (st, none)
      ∧ hs = st.hs
      ∧ st.nonce = lastKey hist (List.replicate 24 0)
      ∧ w = writeResponseUpgrade st.nonce hs.protocol hs.extensions cfg.header extra
      ∧ (extra = [] ∨ cfg.onBeforeUpgrade = some (.inl extra)) := by
  unfold upgrade at h
  simp only at h
  split at h
  · cases h
  · rename_i rl b1 _
    split at h
    · cases h
    · rename_i major minor hv
      split at h
      · cases h
      · rename_i st err b' hl
        split at h
        · cases h
        · rename_i extra hf
          injection h with h1 h; injection h with _ h; injection h with h3 _
          -- the loop ended without error
          have herr : err = none := by
            unfold upFinish at hf
            cases err with
            | none => rfl
            | some e => simp at hf
          subst herr
          have hreq : upRequestLine cfg (bsplit3 rl 32).1 major minor = none := by
            cases hr : upRequestLine cfg (bsplit3 rl 32).1 major minor with
            | none => rfl
            | some e =>
              rw [hr] at hl
              obtain ⟨e', b2, h2⟩ := hdrLoop_err cfg (src.bytes.length + 4) b1 {} e
              rw [h2] at hl; cases hl
          rw [hreq] at hl
          obtain ⟨hist, hh⟩ := hdrLoop_history cfg _ _ _ _ _ hl
          obtain ⟨g, s, n, ho⟩ := runHeaders_sound cfg hist {} st hh
          obtain ⟨r1, r2, r3⟩ := upRequestLine_none cfg _ _ _ hreq
          -- the final decision
          unfold upFinish at hf
          simp only at hf
          have hseen : st.seen = seenAll := by
            by_cases hs : st.seen = seenAll
            · exact hs
            · rw [if_pos hs] at hf; cases hf
          rw [if_neg (by simp [hseen])] at hf
          have hpres := seenAll_present hist (by rw [← hseen, s])
          refine ⟨rl, major, minor, hist, st, extra, hv, ?_, hh, h1.symm, n, ?_, ?_⟩
          · exact { get := r1, version := r2, onRequest := r3, onHost := ho hpres.1, host := hpres.1,
                    upgrade := hpres.2.1, connection := hpres.2.2.1, secVersion := hpres.2.2.2.1,
                    key := hpres.2.2.2.2, values := g,
                    before := by
                      intro e he; rw [he] at hf; cases hf }
          · rw [← h3, ← h1]
          · split at hf
            · rename_i hx heq; injection hf with _ hf; right; rw [heq, hf]
            · cases hf
            · injection hf with _ hf; left; exact hf.symm

/-- A Sec-WebSocket-Key that is not 24 bytes long is always refused. -/
theorem key_not_24_refused (cfg : UpCfg) (hist : List (Bytes × Bytes)) (st st' : UpState) (v : Bytes)
    (hin : (kKey, v) ∈ hist) (hlen : v.length ≠ 24) : runHeaders cfg hist st ≠ (st', none) := by
  intro h
  exact hlen (((runHeaders_sound cfg hist st st' h).1 _ hin).2.2.2 rfl)

/-- FAILURE.  On a handshake error the bytes written are nothing (no request line could be parsed)
    or exactly the error response for that error with the caller's headers; on a transport error
    nothing is written. The 101 writer is never involved. -/
theorem upgrade_failure_writes (cfg : UpCfg) (src : Src) (hs : Handshake) (e : UpErr) (w : Bytes) (b : Bufio)
    (h : upgrade cfg src = (hs, some e, w, b)) :
    (∃ f, e = .io f ∧ w = []) ∨ (e = .hs errMalformedRequest ∧ w = [])
      ∨ (∃ he, e = .hs he ∧ w = writeResponseError he cfg.header) := by
  unfold upgrade at h
  simp only at h
  split at h
  · injection h with _ h; injection h with h2 h; injection h with h3 _
    left; injection h2 with h2; exact ⟨_, h2.symm, h3.symm⟩
  · split at h
    · injection h with _ h; injection h with h2 h; injection h with h3 _
      right; left; injection h2 with h2; exact ⟨h2.symm, h3.symm⟩
    · split at h
      · injection h with _ h; injection h with h2 h; injection h with h3 _
        left; injection h2 with h2; exact ⟨_, h2.symm, h3.symm⟩
      · split at h
        · injection h with _ h; injection h with h2 h; injection h with h3 _
          right; right; injection h2 with h2; exact ⟨_, h2.symm, h3.symm⟩
        · injection h with _ h; injection h with h2 _; cases h2

/-! ### the responses -/

def builtinErrors : List HsErr :=
  [errBadProtocol, errBadMethod, errBadHost, errBadUpgrade, errBadConnection, errBadSecKey,
   errBadSecVersion, errUpgradeRequired, errMalformedRequest]

/-- Built-in checks answer 400, 405, 505 or 426, and 426 carries Sec-WebSocket-Version: 13. -/
theorem builtin_codes : builtinErrors.all (fun e =>
    (e.code == 400 || e.code == 405 || e.code == 505 || e.code == 426)
      && (e.code != 426 || e.header == strBytes "Sec-WebSocket-Version: 13\r\n")) = true := by
  decide +kernel

/-- The status line of an error response carries the error's code (500 for a plain error), and
    the body is the error text announced with its exact length. -/
theorem error_response_shape (e : HsErr) (uh : Bytes) :
    ∃ mid, writeResponseError e uh =
      strBytes "HTTP/1.1 " ++ natBytes (if e.code = 0 then 500 else e.code) ++ [32] ++ mid
        ++ uh ++ e.header ++ strBytes "Content-Length: " ++ natBytes e.reason.length ++ crlf ++ crlf ++ e.reason :=
  ⟨statusText (if e.code = 0 then 500 else e.code) ++ crlf ++ strBytes "Content-Type: text/plain; charset=utf-8" ++ crlf,
    by simp [writeResponseError, List.append_assoc]⟩

/-- The error responses for the built-in errors never start like a 101. -/
theorem builtin_never_101 : builtinErrors.all (fun e =>
    (writeResponseError e []).take 12 != strBytes "HTTP/1.1 101") = true := by decide +kernel

/-- The success response: status 101, the fixed upgrade headers and the accept value derived from
    the key by SHA-1 and base64 as RFC 6455 §4.2.2 prescribes. -/
theorem upgrade_response_shape (nonce proto : Bytes) (exts : List Opt) (uh extra : Bytes) :
    ∃ tail, writeResponseUpgrade nonce proto exts uh extra =
      strBytes "HTTP/1.1 101 Switching Protocols\r\nUpgrade: websocket\r\nConnection: Upgrade\r\n"
        ++ strBytes "Sec-WebSocket-Accept: "
        ++ Spec.base64 (Spec.sha1 (nonce ++ strBytes "258EAFA5-E914-47DA-95CA-C5AB0DC85B11")) ++ crlf ++ tail :=
  ⟨(if proto.isEmpty then [] else strBytes "Sec-WebSocket-Protocol: " ++ proto ++ crlf)
    ++ (if exts.isEmpty then [] else strBytes "Sec-WebSocket-Extensions: " ++ Lex.writeOptions exts ++ crlf)
    ++ uh ++ extra ++ crlf,
   by simp only [writeResponseUpgrade, Spec.acceptOf, Spec.wsGUID, List.append_assoc]⟩

/-! ### subprotocol and extensions -/

theorem scanTokens_go_prefix (cont : Bytes → Bool) (fuel : Nat) (l : Scanner) (ok : Bool) (acc : List Bytes)
    (hacc : ∀ t ∈ acc, cont t = true) :
    ∀ t ∈ (scanTokens.go cont fuel l ok acc).1.dropLast, cont t = true := by
  induction fuel generalizing l ok acc with
  | zero =>
    intro t ht
    simp only [scanTokens.go] at ht
    exact hacc t (by simpa using List.dropLast_subset _ ht)
  | succ n ih =>
    intro t ht
    unfold scanTokens.go at ht
    split at ht
    · exact hacc t (by simpa using List.dropLast_subset _ ht)
    · rename_i tok l' _
      split at ht
      · rename_i hc
        exact ih l' true (tok :: acc) (by intro x hx; cases hx with | head => exact hc | tail _ hm => exact hacc x hm) t ht
      · simp only [List.reverse_cons, List.dropLast_concat] at ht
        exact hacc t (by simpa using ht)
    · split at ht
      · exact ih _ ok acc hacc t ht
      · exact hacc t (by simpa using List.dropLast_subset _ ht)
    · exact hacc t (by simpa using List.dropLast_subset _ ht)

/-- The subprotocol selected is accepted by the selector and every token the client listed
    before it was not. -/
theorem selectProtocol_first (v : Bytes) (accept : List Bytes) (p : Bytes) (ok : Bool)
    (h : selectProtocol v accept = (p, ok)) (hp : p ≠ []) :
    accept.contains p = true ∧
      ∃ before, (scanTokens v (fun t => !accept.contains t)).1 = before ++ [p]
        ∧ ∀ t ∈ before, accept.contains t = false := by
  unfold selectProtocol at h
  simp only at h
  have hpre := scanTokens_go_prefix (fun t => !accept.contains t) (v.length + 2) { rest := v } false [] (by simp)
  change ∀ t ∈ (scanTokens v (fun t => !accept.contains t)).1.dropLast, _ at hpre
  cases hl : (scanTokens v (fun t => !accept.contains t)).1.getLast? with
  | none => rw [hl] at h; simp at h; exact absurd h.1 hp
  | some t =>
    rw [hl] at h
    simp only at h
    by_cases hc : accept.contains t = true
    · rw [if_pos hc] at h
      injection h with h1 _
      subst h1
      refine ⟨hc, (scanTokens v (fun t => !accept.contains t)).1.dropLast, ?_, ?_⟩
      · obtain ⟨ys, hys⟩ := List.getLast?_eq_some_iff.mp hl
        rw [hys, List.dropLast_concat]
      · intro x hx; simpa using hpre x hx
    · rw [if_neg hc] at h
      injection h with h1 _
      exact absurd h1.symm hp

/-- Extensions selected by the deprecated Extension callback come from the client's parsed offer
    (or were already selected from an earlier header line). -/
theorem selectExtensions_from_offer (v : Bytes) (dest : List Opt) (accept : List Bytes) (o : Opt)
    (h : o ∈ (selectExtensions v dest accept).1) :
    o ∈ dest ∨ (o ∈ (parseOptions v).1 ∧ accept.contains o.name = true) := by
  unfold selectExtensions at h
  simp only [List.mem_append, List.mem_filter] at h
  exact h

theorem negotiate_go_from_offer (cfg : Params) (os dest : List Opt) (st : NegSt) (xs : List Opt) (st' : NegSt)
    (h : negotiateExtensions.go cfg os dest st = (.ok xs, st')) (a : Opt) (ha : a ∈ xs) :
    a ∈ dest ∨ ∃ o ∈ os, ∃ s s', negotiate cfg s o = (.accept a, s') := by
  induction os generalizing dest st with
  | nil =>
    simp only [negotiateExtensions.go] at h
    injection h with h1 _; injection h1 with h1; subst h1; exact .inl ha
  | cons o r ih =>
    unfold negotiateExtensions.go at h
    split at h
    · cases h
    · rename_i a' st1 hn
      rcases ih _ _ h with h1 | ⟨o', ho', s, s', hs⟩
      · rcases List.mem_append.mp h1 with h1 | h1
        · exact .inl h1
        · simp at h1; subst h1
          exact .inr ⟨o, List.mem_cons_self, st, st1, hn⟩
      · exact .inr ⟨o', List.mem_cons_of_mem _ ho', s, s', hs⟩
    · rcases ih _ _ h with h1 | ⟨o', ho', s, s', hs⟩
      · exact .inl h1
      · exact .inr ⟨o', List.mem_cons_of_mem _ ho', s, s', hs⟩
    · cases h

/-- Every extension the Negotiate path returns is the negotiator's answer to an option the client
    offered (C14's `accept_is_legal` says what such an answer may contain). -/
theorem negotiated_from_offer (v : Bytes) (dest : List Opt) (cfg : Params) (st : NegSt) (xs : List Opt)
    (st' : NegSt) (h : negotiateExtensions v dest cfg st = (.ok xs, st')) (a : Opt) (ha : a ∈ xs) :
    a ∈ dest ∨ ∃ o ∈ (parseOptions v).1, ∃ s s', negotiate cfg s o = (.accept a, s') := by
  unfold negotiateExtensions at h
  simp only at h
  split at h
  · cases h
  · rename_i d st1 hg
    split at h
    · injection h with h1 _; injection h1 with h1; subst h1
      exact negotiate_go_from_offer cfg _ _ _ _ _ hg a ha
    · cases h

/-! ### HTTPUpgrader.Upgrade -/

/-- SOUNDNESS for the net/http variant. -/
theorem httpUpgrade_success_sound (cfg : UpCfg) (r : AReq) (hs : Handshake) (w : Bytes)
    (h : httpUpgrade cfg r = (hs, none, w)) :
    r.method = strBytes "GET" ∧ r.major = 1 ∧ 1 ≤ r.minor ∧ r.host ≠ []
      ∧ equalFold (r.first "Upgrade") (strBytes "websocket") = true
      ∧ (r.first "Connection" = strBytes "Upgrade" ∨ btsHasToken (r.first "Connection") (strBytes "upgrade") = true)
      ∧ (r.first "Sec-Websocket-Key").length = 24
      ∧ r.first "Sec-Websocket-Version" = strBytes "13"
      ∧ w = writeResponseUpgrade (r.first "Sec-Websocket-Key") hs.protocol hs.extensions [] [] := by
  unfold httpUpgrade at h
  split at h
  · cases h
  · rename_i h0
    simp only at h
    split at h
    · cases h
    · split at h
      · cases h
      · injection h with h1 h; injection h with _ h3
        unfold httpErr0 at h0
        split at h0; · cases h0
        split at h0; · cases h0
        split at h0; · cases h0
        split at h0; · cases h0
        split at h0; · cases h0
        split at h0; · cases h0
        split at h0; · cases h0
        rename_i c1 c2 c3 c4 c5 c6 c7
        refine ⟨by simpa using c1, by omega, by omega, by simpa using c3, by simpa using c4, ?_, by simpa using c6,
          by simpa using c7, ?_⟩
        · simp only [Bool.not_eq_true', Bool.not_eq_false, Bool.or_eq_true, decide_eq_true_eq] at c5
          simpa using c5
        · rw [← h3, ← h1]

/-- COMPLETENESS for the net/http variant with no selectors configured: a request meeting the
    requirements is upgraded. -/
theorem httpUpgrade_complete (cfg : UpCfg) (r : AReq)
    (hp : cfg.protocols = none) (hn : cfg.negotiate = none) (hx : cfg.extension = none)
    (h1 : r.method = strBytes "GET") (h2 : r.major = 1) (h3 : 1 ≤ r.minor) (h4 : r.host ≠ [])
    (h5 : equalFold (r.first "Upgrade") (strBytes "websocket") = true)
    (h6 : r.first "Connection" = strBytes "Upgrade" ∨ btsHasToken (r.first "Connection") (strBytes "upgrade") = true)
    (h7 : (r.first "Sec-Websocket-Key").length = 24)
    (h8 : r.first "Sec-Websocket-Version" = strBytes "13") :
    httpUpgrade cfg r = ({}, none, writeResponseUpgrade (r.first "Sec-Websocket-Key") [] [] [] []) := by
  have e0 : httpErr0 r = none := by
    unfold httpErr0
    rw [if_neg (by simp [h1]), if_neg (by omega), if_neg (by simpa using h4), if_neg (by simp [h5])]
    rw [if_neg (by rcases h6 with h | h <;> simp [h]), if_neg (by simp [h7]), if_neg (by simp [h8])]
  unfold httpUpgrade
  rw [e0]
  simp [hp, httpExts, hn, hx]

end Ws.C09
