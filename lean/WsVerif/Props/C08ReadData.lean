/-
  C04 / C08 — the `wsutil.ReadData` family meets a PING before the message it was asked for: the control handler
  reads the ping's payload through the message reader, answers with exactly one pong frame — final, the
  identical payload, masked iff we are the client — and the loop goes on from an idle reader: the message
  that follows is returned as if the ping had not been there, and so for any number of pings and unwanted
  messages in any order.
-/
import WsVerif.Props.C04ReadDataSkip
import WsVerif.Props.C08
namespace Ws.C04
open Ws Ws.Spec Ws.RdProof Ws.RdText Ws.C06 Ws.C08 Ws.C07

/-- what a complete pull of a final frame leaves of the reader: state and configuration as before, fresh validator -/
def SameCfg (r r' : Rd) : Prop :=
  r'.state = r.state ∧ r'.checkUTF8 = r.checkUTF8 ∧ r'.ext = r.ext ∧ r'.skipCheck = r.skipCheck
    ∧ r'.maxFrame = r.maxFrame ∧ r'.utf8 = {}

/-- `pull_final` for any buffer size, with what it leaves behind -/
theorem pull_final_k (cb : Option Callback) (k : Nat) (hk : 0 < k) (fuel : Nat) :
    ∀ (r : Rd) (s : Src) (cx : Ctx) (acc : List Bytes) (wire rest : Bytes),
      InFrame r s wire rest → r.fragmented = false → (r.checkUTF8 = false ∨ r.utf8.valid = true) → mu s + 1 < fuel →
      ∃ chunks r' s', Rd.pull true k cb fuel r s cx acc = (acc.reverse ++ chunks, .eof, r', s', cx)
        ∧ chunks.flatten = plainOf r wire ∧ s'.bytes = rest ∧ Src.Tame s' ∧ SameCfg r r' := by
  induction fuel with
  | zero => intro r s cx acc wire rest _ _ _ hf; omega
  | succ n ih =>
    intro r s cx acc wire rest hin hnf hv hf
    obtain ⟨g, s1, hg, hb1, ht1, hwf1, hmu, hsame, hcase⟩ := read_inframe r s cx cb wire rest k hin hk hv
    rw [Rd.pull]
    simp only [if_true]
    have hpad : ∀ b : Bytes, (b ++ List.replicate (b.length - b.length) 0).take b.length = b := by intro b; simp
    rcases hcase with ⟨hlt, hread⟩ | ⟨heq, hread⟩
    · have hlen : (plainOf r (wire.take g)).length = g := by rw [plainOf_length]; simp; omega
      rw [hread]
      simp only
      have hwpos : 0 < wire.length := by omega
      have hin' : InFrame (adv r g) s1 (wire.drop g) rest :=
        ⟨by simp [adv, hin.has], by simp [adv, hin.noU], hb1, by simp [adv, hin.n], hwf1, by simp [adv]; exact hin.mwf, ht1⟩
      obtain ⟨chunks, r', s', hp, hfl, hb', ht', hcfg⟩ := ih (adv r g) s1 cx
        (if g = 0 then acc else (plainOf r (wire.take g) ++ List.replicate (g - (plainOf r (wire.take g)).length) 0).take g :: acc)
        (wire.drop g) rest hin' (by simpa [adv, Rd.fragmented] using hnf) (by simpa [adv] using hv) (by have := hmu hwpos; omega)
      rw [hp]
      by_cases hz : g = 0
      · subst hz
        refine ⟨chunks, r', s', by simp, ?_, hb', ht', hcfg⟩
        rw [hfl]; simp [adv]
      · have hp2 : (plainOf r (wire.take g) ++ List.replicate (g - (plainOf r (wire.take g)).length) 0).take g = plainOf r (wire.take g) := by
          rw [hlen]; simp
          exact List.take_of_length_le (by omega)
        refine ⟨plainOf r (wire.take g) :: chunks, r', s', by simp [hz, hp2], ?_, hb', ht', hcfg⟩
        simp only [List.flatten_cons, hfl]
        exact plainOf_split r wire g hg
    · subst heq
      have haf : afterFrame (adv r wire.length) = (some .eof, (adv r wire.length).reset) := by
        unfold afterFrame
        have : (adv r wire.length).fragmented = false := by simpa [adv, Rd.fragmented] using hnf
        simp [this]
      rw [hread, haf]
      simp only [List.take_length]
      have hlen : (plainOf r wire).length = wire.length := plainOf_length r wire
      by_cases hz : wire.length = 0
      · have hw : wire = [] := List.length_eq_zero_iff.mp hz
        subst hw
        refine ⟨[], (adv r ([] : Bytes).length).reset, s1, by simp, ?_, by simpa using hb1, ht1, ⟨rfl, rfl, rfl, rfl, rfl, rfl⟩⟩
        unfold plainOf xorSpec; split <;> simp
      · have hp2 : (plainOf r wire ++ List.replicate (wire.length - (plainOf r wire).length) 0).take wire.length = plainOf r wire := by
          rw [hlen]; simp
          exact List.take_of_length_le (by omega)
        refine ⟨[plainOf r wire], (adv r wire.length).reset, s1, by simp [hz, hp2], by simp, by simpa using hb1, ht1, ⟨rfl, rfl, rfl, rfl, rfl, rfl⟩⟩


/-- NextFrame outside a fragmented message installs ANY accepted frame, control frames included (they are
    intermediate only between fragments) -/
theorem nextFrame_unfragmented (r : Rd) (s s1 : Src) (cx : Ctx) (cb : Option Callback) (h : Header)
    (hh : readHeaderUtil s = (.ok h, s1)) (ha : Accepts r h) (hext : r.ext = false)
    (hnf : r.fragmented = false) :
    r.nextFrame s cx cb = (some h, none, enter r h, s1, cx) := by
  unfold Rd.nextFrame
  simp only [hh, ha.1, ha.2, if_false, hext, Bool.false_eq_true]
  have hf : stIs r.state stFragmented = false := hnf
  simp [Rd.fragmented, hf, enter, hext]

/-- the pong that answers ping `f` when the next mask to be drawn is `m` -/
def pongFor (client : Bool) (f : WFrame) (m : Mask) : Bytes :=
  if f.h.len = 0 then frameHeaderOnly client opPong   -- a bare header (the client's carries the all-zero key)
  else rfcEncode (wireHeader client ⟨true, 0, opPong, false, Mask.zero, f.h.len⟩ m) ++ wirePayload client f.plain m

/-- **A ping in front of the message**: the loop answers it with exactly one pong carrying the identical payload
    and is idle again right behind the ping. -/
theorem loop_ping (state want : Nat) (errText : ProtoErr → Bytes) (inter : Callback)
    (r0 : Rd) (s : Src) (cx : Ctx) (fuel : Nat) (f : WFrame) (rest : Bytes)
    (hi : Idle state r0) (he : EnvOk cx.env)
    (hst : state < 256) (hnf : stIs state stFragmented = false)
    (hok : f.OK) (hping : f.h.op = opPing) (hfin : f.h.fin = true) (hlen125 : f.h.len ≤ 125)
    (hacc : checkHeader f.h state = none)
    (hb : s.bytes = f.enc ++ rest) (hwf : Bytes.WF s.bytes) (htame : Src.Tame s) :
    ∃ r1 s1 cx1, readData.loop want errText (stIs state stClient) inter (fuel + 1) r0 s cx
        = readData.loop want errText (stIs state stClient) inter fuel r1 s1 cx1
      ∧ Idle state r1 ∧ s1.bytes = rest ∧ Src.Tame s1 ∧ EnvOk cx1.env
      ∧ cx1.env.dst.writes = cx.env.dst.writes ++ [pongFor (stIs state stClient) f cx.env.popMask.1]
      ∧ cx1.msgs = cx.msgs := by
  have hctl : opIsControl f.h.op = true := by rw [hping]; rfl
  have hbytes : s.bytes = rfcEncode f.h ++ (f.wire ++ rest) := by rw [hb]; simp [WFrame.enc]
  have hwt : Bytes.WF (f.wire ++ rest) := by rw [hbytes] at hwf; exact wf_append_right hwf
  obtain ⟨s1, hrh, hb1, ht1, hmu1⟩ := readHeader_ok f.h hok.hwf _ hwt s hbytes htame
  have haccept : Accepts r0 f.h := ⟨by simp [hi.skip, hi.st, hacc], by simp [hi.maxF]⟩
  have hfr0 : r0.fragmented = false := by simp [Rd.fragmented, hi.st, hnf]
  have hnt : f.h.op ≠ opText := by rw [hping]; decide
  have hin : InFrame (enter r0 f.h) s1 f.wire rest :=
    ⟨by simp [enter], by simp [enter, hfr0, hnt], hb1, by simp [enter, hok.len], by rw [hb1]; exact hwt,
     by simp [enter]; exact hok.mwf, ht1⟩
  have hnf1 : (enter r0 f.h).fragmented = false := by
    simp [enter, Rd.fragmented, hfin, hi.st, clear_not_fragmented state hst]
  have hnext := nextFrame_unfragmented r0 s s1 cx (some inter) f.h hrh haccept hi.ext hfr0
  by_cases hz : f.h.len = 0
  · -- an empty ping: nothing to read, a bare pong header in reply
    have hw0 : f.wire = [] := List.length_eq_zero_iff.mp (by rw [hok.len]; exact hz)
    have hwr := dst_write_ok cx.env.dst (frameHeaderOnly (stIs state stClient) opPong) he.no_fail
    obtain ⟨e1, he1⟩ : ∃ e1 : Env, e1 = ⟨(cx.env.dst.write (frameHeaderOnly (stIs state stClient) opPong)).2, cx.env.masks⟩ := ⟨_, rfl⟩
    obtain ⟨cx1, hcx1⟩ : ∃ cx1 : Ctx, cx1 = ⟨e1, cx.msgs, cx.events ++ [(f.h.op, [])]⟩ := ⟨_, rfl⟩
    have hh2 : handleControl (stIs state stClient) f.h { chunks := [] } false cx.env errText = some (none, e1) := by
      unfold handleControl handlePing
      rw [if_pos hping, if_pos hz, he1]
      simp [hwr]
    have hidle0 : Idle state (enter r0 f.h) := by
      refine ⟨?_, by simp [enter, hi.chk], by simp [enter, hi.ext], by simp [enter, hi.skip], by simp [enter, hi.maxF], by simp [enter, hi.u8]⟩
      simp only [enter, hfin, if_true, hi.st]; exact clear_id state hst hnf
    refine ⟨enter r0 f.h, s1, cx1, ?_, hidle0, by rw [hb1, hw0]; rfl, ht1, ⟨?_, ?_⟩, ?_, by rw [hcx1]⟩
    · rw [readData.loop]
      simp only [hnext, hctl, if_true]
      unfold controlFrameHandler
      simp only [hz, ne_eq, not_true_eq_false, false_and, not_false_eq_true, if_true, hh2]
      rw [hcx1]; simp
    · rw [hcx1, he1]; exact he.masks_wf
    · rw [hcx1, he1]; simp [hwr]; exact he.no_fail
    · rw [hcx1, he1]; simp [pongFor, hz, hwr]
  have hlen : 0 < f.h.len ∧ f.h.len ≤ 125 := ⟨Nat.pos_of_ne_zero hz, hlen125⟩
  obtain ⟨chunks, r', s', hp, hfl, hb', ht', hcfg⟩ := pull_final_k (some inter) 32768 (by decide) (pullFuel s1) (enter r0 f.h) s1 cx []
    f.wire rest hin hnf1 (Or.inr (by simp [enter, hi.u8, Utf8Rd.valid]; rfl)) (by unfold pullFuel Src.fuel mu; omega)
  have hpl : plainOf (enter r0 f.h) f.wire = f.plain := by simp [plainOf, enter, WFrame.plain]; rfl
  rw [hpl] at hfl
  have hplen : f.plain.length = f.h.len := by rw [← hpl, plainOf_length, hok.len]
  have hpwf : Bytes.WF f.plain := by
    rw [← hpl]; exact plainOf_wf _ (by simp [enter]; exact hok.mwf) _ hok.wwf
  obtain ⟨e', hh, he', hw'⟩ := ping_reply_ok (stIs state stClient) f.h
    { chunks := chunks, fin := .eof, ueofEnd := false } cx.env he hlen
    (by simp [CtlSrc.bytes, hfl, hplen]) (by simp [CtlSrc.bytes, hfl]; exact hpwf) rfl rfl
  have hne : f.h.len ≠ 0 := by omega
  have hidle : Idle state r' := by
    obtain ⟨c1, c2, c3, c4, c5, c6⟩ := hcfg
    refine ⟨?_, ?_, ?_, ?_, ?_, c6⟩
    · rw [c1]; simp only [enter, hfin, if_true, hi.st]; exact clear_id state hst hnf
    · rw [c2]; simp [enter, hi.chk]
    · rw [c3]; simp [enter, hi.ext]
    · rw [c4]; simp [enter, hi.skip]
    · rw [c5]; simp [enter, hi.maxF]
  refine ⟨r', s', { cx with env := e', events := cx.events ++ [(f.h.op, chunks.flatten)] }, ?_, hidle, hb', ht', he', ?_, rfl⟩
  · rw [readData.loop]
    simp only [hnext, hctl, if_true]
    have hh2 : handleControl (stIs state stClient) f.h { chunks := chunks, fin := .eof, ueofEnd := false } false cx.env errText
        = some (none, e') := by
      unfold handleControl; rw [if_pos hping]; exact hh
    unfold controlFrameHandler
    simp only [hne, ne_eq, not_false_eq_true, hping, true_or, and_self, not_true_eq_false, if_false]
    simp only [hp, List.reverse_nil, List.nil_append]
    simp [rdErrOf, hh2]
  · simp only [hw', pongFor, if_neg hz, CtlSrc.bytes, hfl]

/-- a pong in front of the loop: consumed, nothing written, idle again -/
theorem loop_pong (state want : Nat) (errText : ProtoErr → Bytes) (inter : Callback)
    (r0 : Rd) (s : Src) (cx : Ctx) (fuel : Nat) (f : WFrame) (rest : Bytes)
    (hi : Idle state r0)
    (hst : state < 256) (hnf : stIs state stFragmented = false)
    (hok : f.OK) (hpong : f.h.op = opPong) (hfin : f.h.fin = true)
    (hacc : checkHeader f.h state = none)
    (hb : s.bytes = f.enc ++ rest) (hwf : Bytes.WF s.bytes) (htame : Src.Tame s) :
    ∃ r1 s1 cx1, readData.loop want errText (stIs state stClient) inter (fuel + 1) r0 s cx
        = readData.loop want errText (stIs state stClient) inter fuel r1 s1 cx1
      ∧ Idle state r1 ∧ s1.bytes = rest ∧ Src.Tame s1
      ∧ cx1.env = cx.env ∧ cx1.msgs = cx.msgs := by
  have hctl : opIsControl f.h.op = true := by rw [hpong]; rfl
  have hbytes : s.bytes = rfcEncode f.h ++ (f.wire ++ rest) := by rw [hb]; simp [WFrame.enc]
  have hwt : Bytes.WF (f.wire ++ rest) := by rw [hbytes] at hwf; exact wf_append_right hwf
  obtain ⟨s1, hrh, hb1, ht1, hmu1⟩ := readHeader_ok f.h hok.hwf _ hwt s hbytes htame
  have haccept : Accepts r0 f.h := ⟨by simp [hi.skip, hi.st, hacc], by simp [hi.maxF]⟩
  have hfr0 : r0.fragmented = false := by simp [Rd.fragmented, hi.st, hnf]
  have hnt : f.h.op ≠ opText := by rw [hpong]; decide
  have hnext := nextFrame_unfragmented r0 s s1 cx (some inter) f.h hrh haccept hi.ext hfr0
  have hidle0 : Idle state (enter r0 f.h) := by
    refine ⟨?_, by simp [enter, hi.chk], by simp [enter, hi.ext], by simp [enter, hi.skip], by simp [enter, hi.maxF], by simp [enter, hi.u8]⟩
    simp only [enter, hfin, if_true, hi.st]; exact clear_id state hst hnf
  have h1 : ¬ f.h.op = opPing := by rw [hpong]; decide
  by_cases hz : f.h.len = 0
  · -- no payload: the handler is not given anything to read
    have hw0 : f.wire = [] := List.length_eq_zero_iff.mp (by rw [hok.len]; exact hz)
    have hh2 : handleControl (stIs state stClient) f.h { chunks := [] } false cx.env errText = some (none, cx.env) := by
      unfold handleControl handlePong
      rw [if_neg h1, if_pos hpong, if_pos hz]
    refine ⟨enter r0 f.h, s1, { cx with env := cx.env, events := cx.events ++ [(f.h.op, [])] }, ?_, hidle0,
      by rw [hb1, hw0]; rfl, ht1, rfl, rfl⟩
    rw [readData.loop]
    simp only [hnext, hctl, if_true]
    unfold controlFrameHandler
    simp only [hz, ne_eq, not_true_eq_false, false_and, not_false_eq_true, if_true, hh2]
    simp
  · have hin : InFrame (enter r0 f.h) s1 f.wire rest :=
      ⟨by simp [enter], by simp [enter, hfr0, hnt], hb1, by simp [enter, hok.len], by rw [hb1]; exact hwt,
       by simp [enter]; exact hok.mwf, ht1⟩
    have hnf1 : (enter r0 f.h).fragmented = false := by
      simp [enter, Rd.fragmented, hfin, hi.st, clear_not_fragmented state hst]
    obtain ⟨chunks, r', s', hp, _, hb', ht', hcfg⟩ := pull_final_k (some inter) 32768 (by decide) (pullFuel s1) (enter r0 f.h) s1 cx []
      f.wire rest hin hnf1 (Or.inr (by simp [enter, hi.u8, Utf8Rd.valid]; rfl)) (by unfold pullFuel Src.fuel mu; omega)
    have hh2 : handleControl (stIs state stClient) f.h { chunks := chunks, fin := .eof, ueofEnd := false } false cx.env errText
        = some (none, cx.env) := by
      unfold handleControl handlePong
      rw [if_neg h1, if_pos hpong, if_neg hz]
      simp [CtlSrc.endErr]
    have hidle : Idle state r' := by
      obtain ⟨c1, c2, c3, c4, c5, c6⟩ := hcfg
      exact ⟨by rw [c1]; exact hidle0.st, by rw [c2]; exact hidle0.chk, by rw [c3]; exact hidle0.ext,
             by rw [c4]; exact hidle0.skip, by rw [c5]; exact hidle0.maxF, c6⟩
    refine ⟨r', s', { cx with env := cx.env, events := cx.events ++ [(f.h.op, chunks.flatten)] }, ?_, hidle, hb', ht', rfl, rfl⟩
    rw [readData.loop]
    simp only [hnext, hctl, if_true]
    unfold controlFrameHandler
    simp only [hz, ne_eq, not_false_eq_true, hpong, true_or, or_true, and_self, not_true_eq_false, if_false]
    simp only [hp, List.reverse_nil, List.nil_append]
    rw [← hpong]
    simp [rdErrOf, hh2]

/-- what may precede the wanted message: data messages of other types, pings, and unsolicited pongs -/
inductive Item where
  | skip (f : WFrame)
  | ping (f : WFrame)
  | pong (f : WFrame)

def Item.frame : Item → WFrame
  | .skip f => f
  | .ping f => f
  | .pong f => f

structure GoodPing (state : Nat) (f : WFrame) : Prop where
  ok : f.OK
  op : f.h.op = opPing
  fin : f.h.fin = true
  len : f.h.len ≤ 125
  acc : checkHeader f.h state = none

structure GoodPong (state : Nat) (f : WFrame) : Prop where
  ok : f.OK
  op : f.h.op = opPong
  fin : f.h.fin = true
  acc : checkHeader f.h state = none

def Item.Good (state want : Nat) : Item → Prop
  | .skip f => Unwanted state want f
  | .ping f => GoodPing state f
  | .pong f => GoodPong state f

def pingsOf : List Item → List WFrame
  | [] => []
  | .skip _ :: is => pingsOf is
  | .ping f :: is => f :: pingsOf is
  | .pong _ :: is => pingsOf is

/-- `ws` are the pongs for `ps`, one each, in order, each under some drawn mask -/
inductive PongsFor (client : Bool) : List Bytes → List WFrame → Prop
  | nil : PongsFor client [] []
  | cons (f : WFrame) (m : Mask) (ws : List Bytes) (ps : List WFrame) :
      PongsFor client ws ps → PongsFor client (pongFor client f m :: ws) (f :: ps)

/-- **Every history of pings and unwanted messages**: the loop is idle again behind them, exactly one pong per
    ping was written, in order, nothing else was written and nothing was delivered. -/
theorem loop_history (state want : Nat) (errText : ProtoErr → Bytes) (inter : Callback)
    (fuel : Nat) (rest : Bytes) (hst : state < 256) (hnf : stIs state stFragmented = false)
    (items : List Item) (hall : ∀ it ∈ items, it.Good state want) :
    ∀ (r0 : Rd) (s : Src) (cx : Ctx), Idle state r0 → EnvOk cx.env →
      s.bytes = encodeFs (items.map Item.frame) ++ rest → Bytes.WF s.bytes → Src.Tame s →
    ∃ r2 s2 cx2 ws, readData.loop want errText (stIs state stClient) inter (fuel + items.length) r0 s cx
        = readData.loop want errText (stIs state stClient) inter fuel r2 s2 cx2
      ∧ Idle state r2 ∧ s2.bytes = rest ∧ Bytes.WF s2.bytes ∧ Src.Tame s2 ∧ EnvOk cx2.env
      ∧ cx2.env.dst.writes = cx.env.dst.writes ++ ws ∧ PongsFor (stIs state stClient) ws (pingsOf items)
      ∧ cx2.msgs = cx.msgs := by
  induction items with
  | nil =>
    intro r0 s cx hi he hb hwf ht
    exact ⟨r0, s, cx, [], rfl, hi, by simpa [encodeFs] using hb, hwf, ht, he, by simp, PongsFor.nil, rfl⟩
  | cons it items ih =>
    intro r0 s cx hi he hb hwf ht
    have hit := hall it (List.mem_cons_self ..)
    have ih := ih (fun g hg => hall g (List.mem_cons_of_mem _ hg))
    have hb' : s.bytes = it.frame.enc ++ (encodeFs (items.map Item.frame) ++ rest) := by rw [hb]; simp [encodeFs]
    have hlen : fuel + (it :: items).length = (fuel + items.length) + 1 := by simp; omega
    rw [hlen]
    cases it with
    | skip u =>
      have hu : Unwanted state want u := hit
      obtain ⟨r1, s1, h1, hi1, hb1, ht1⟩ := loop_skip state want errText (stIs state stClient) inter r0 s cx (fuel + items.length) u
        (encodeFs (items.map Item.frame) ++ rest) hi hst hnf hu.ok hu.fin hu.data hu.unw hu.acc hb' hwf ht
      have hwf1 : Bytes.WF s1.bytes := by rw [hb1]; exact wf_append_right (hb' ▸ hwf)
      obtain ⟨r2, s2, cx2, ws, h2, hi2, hb2, hwf2, ht2, he2, hw2, hp2, hm2⟩ := ih r1 s1 cx hi1 he hb1 hwf1 ht1
      exact ⟨r2, s2, cx2, ws, by rw [h1, h2], hi2, hb2, hwf2, ht2, he2, hw2, hp2, hm2⟩
    | pong q =>
      have hq : GoodPong state q := hit
      obtain ⟨r1, s1, cx1, h1, hi1, hb1, ht1, he1, hm1⟩ := loop_pong state want errText inter r0 s cx (fuel + items.length) q
        (encodeFs (items.map Item.frame) ++ rest) hi hst hnf hq.ok hq.op hq.fin hq.acc hb' hwf ht
      have hwf1 : Bytes.WF s1.bytes := by rw [hb1]; exact wf_append_right (hb' ▸ hwf)
      obtain ⟨r2, s2, cx2, ws, h2, hi2, hb2, hwf2, ht2, he2, hw2, hp2, hm2⟩ := ih r1 s1 cx1 hi1 (by rw [he1]; exact he) hb1 hwf1 ht1
      exact ⟨r2, s2, cx2, ws, by rw [h1, h2], hi2, hb2, hwf2, ht2, he2, by rw [hw2, he1], hp2, by rw [hm2, hm1]⟩
    | ping p =>
      have hp : GoodPing state p := hit
      obtain ⟨r1, s1, cx1, h1, hi1, hb1, ht1, he1, hw1, hm1⟩ := loop_ping state want errText inter r0 s cx (fuel + items.length) p
        (encodeFs (items.map Item.frame) ++ rest) hi he hst hnf hp.ok hp.op hp.fin hp.len hp.acc hb' hwf ht
      have hwf1 : Bytes.WF s1.bytes := by rw [hb1]; exact wf_append_right (hb' ▸ hwf)
      obtain ⟨r2, s2, cx2, ws, h2, hi2, hb2, hwf2, ht2, he2, hw2, hp2, hm2⟩ := ih r1 s1 cx1 hi1 he1 hb1 hwf1 ht1
      refine ⟨r2, s2, cx2, pongFor (stIs state stClient) p cx.env.popMask.1 :: ws, by rw [h1, h2], hi2, hb2, hwf2, ht2, he2, ?_,
        PongsFor.cons _ _ _ _ hp2, by rw [hm2, hm1]⟩
      rw [hw2, hw1]; simp

/-- **ReadData behind any history of pings and unwanted messages** (non-text wanted): the first wanted message
    is returned whole with its opcode; what was written meanwhile is exactly one pong per ping, in order. -/
theorem readData_after_history (state want : Nat) (errText : ProtoErr → Bytes) (s : Src) (env : Env) (fuel : Nat)
    (items : List Item) (f : WFrame) (rest : Bytes)
    (hst : state < 256) (hnf : stIs state stFragmented = false) (he : EnvOk env)
    (hall : ∀ it ∈ items, it.Good state want)
    (hok : f.OK) (hfin : f.h.fin = true) (hdata : opIsControl f.h.op = false) (hnt : f.h.op ≠ opText)
    (hwant : (f.h.op &&& want == 0) = false)
    (hacc : checkHeader f.h state = none)
    (hb : s.bytes = encodeFs (items.map Item.frame) ++ (f.enc ++ rest)) (hwf : Bytes.WF s.bytes) (htame : Src.Tame s) :
    ∃ s' cx' ws, readData state want errText s env (fuel + 1 + items.length) = (f.plain, f.h.op, none, s', cx')
      ∧ s'.bytes = rest ∧ cx'.env.dst.writes = env.dst.writes ++ ws ∧ PongsFor (stIs state stClient) ws (pingsOf items) := by
  unfold readData
  simp only
  generalize controlFrameHandler (stIs state stClient) errText false none = inter
  obtain ⟨r2, s2, cx2, ws, h2, hi2, hb2, hwf2, ht2, _, hw2, hp2, _⟩ := loop_history state want errText inter (fuel + 1)
    (f.enc ++ rest) hst hnf items hall _ s { env } (idle_init state) he hb hwf htame
  rw [h2]
  obtain ⟨s', h3, hb3⟩ := loop_single state want errText (stIs state stClient) inter r2 s2 cx2 fuel f rest hi2 hst hnf hok hfin hdata hnt hwant hacc hb2 hwf2 ht2
  exact ⟨s', cx2, ws, h3, hb3, hw2, hp2⟩

/-- **… and a wanted text message behind such a history**: returned iff well-formed UTF-8, with the pongs written;
    ErrInvalidUTF8 otherwise. -/
theorem readData_text_after_history (state want : Nat) (errText : ProtoErr → Bytes) (s : Src) (env : Env) (fuel : Nat)
    (items : List Item) (f : WFrame) (rest : Bytes)
    (hst : state < 256) (hnf : stIs state stFragmented = false) (he : EnvOk env)
    (hall : ∀ it ∈ items, it.Good state want)
    (hok : f.OK) (hfin : f.h.fin = true) (htext : f.h.op = opText)
    (hwant : (opText &&& want == 0) = false)
    (hacc : checkHeader f.h state = none)
    (hb : s.bytes = encodeFs (items.map Item.frame) ++ (f.enc ++ rest)) (hwf : Bytes.WF s.bytes) (htame : Src.Tame s) :
    (wfUtf8 f.plain = true →
        ∃ s' cx' ws, readData state want errText s env (fuel + 1 + items.length) = (f.plain, opText, none, s', cx')
          ∧ s'.bytes = rest ∧ cx'.env.dst.writes = env.dst.writes ++ ws ∧ PongsFor (stIs state stClient) ws (pingsOf items))
    ∧ (wfUtf8 f.plain = false → (readData state want errText s env (fuel + 1 + items.length)).2.2.1 = some .utf8) := by
  unfold readData
  simp only
  generalize controlFrameHandler (stIs state stClient) errText false none = inter
  obtain ⟨r2, s2, cx2, ws, h2, hi2, hb2, hwf2, ht2, _, hw2, hp2, _⟩ := loop_history state want errText inter (fuel + 1)
    (f.enc ++ rest) hst hnf items hall _ s { env } (idle_init state) he hb hwf htame
  rw [h2]
  have h3 := loop_single_text state want errText (stIs state stClient) inter r2 s2 cx2 fuel f rest hi2 hst hnf hok hfin htext hwant hacc hb2 hwf2 ht2
  refine ⟨fun hg => ?_, h3.2⟩
  obtain ⟨s', h4, hb4⟩ := h3.1 hg
  exact ⟨s', cx2, ws, h4, hb4, hw2, hp2⟩

/-- the hypotheses are satisfiable: a client's ping "hi" to a server -/
example : GoodPing stServer ⟨{ fin := true, rsv := 0, op := opPing, masked := true, mask := ⟨1, 2, 3, 4⟩, len := 2 }, [9, 9]⟩ :=
  ⟨⟨by decide, rfl, by decide, by decide⟩, rfl, rfl, by decide, by decide⟩

end Ws.C04
