/-
  C17 — Returned data and caller buffers are never aliased to pooled or internal memory.

  Aliasing lives below the value level of the other models, so it gets its own small model: a
  heap of library buffers, values that are either OWNED bytes or VIEWS into a buffer, and the two
  kinds of conversion the source uses (copying: string(b), Parameters.Copy, SelectCopy, make+copy;
  viewing: btsToString, strToBytes, sub-slicing). The theorems say what each kind guarantees; the
  obligation tied to the source (Bridge.C17, regenerated on every run) is that every value that
  leaves through a result of the library-owned selection paths, the close handler or the copying
  write/mask helpers is produced by a copying conversion.
-/
import WsVerif.Base
namespace Ws.C17
open Ws

/-- Library buffers by id (pooled bufio buffers, pbytes slices): contents change on reuse. -/
abbrev Heap := Nat → Bytes

inductive Val where
  | owned (b : Bytes)                  -- its own allocation
  | view (buf off len : Nat)           -- a window into library buffer `buf`
  deriving DecidableEq, Repr

def deref (h : Heap) : Val → Bytes
  | .owned b => b
  | .view i off len => ((h i).drop off).take len

/-- A copying conversion performed while the heap is `h`. -/
def own (h : Heap) (v : Val) : Val := .owned (deref h v)

/-- Sub-slicing / btsToString / strToBytes: still the same memory. -/
def subview (v : Val) (o l : Nat) : Val :=
  match v with
  | .owned b => .owned ((b.drop o).take l)
  | .view i off len => .view i (off + o) (min l (len - o))

/-- A copied value reads the same whatever later happens to every library buffer. -/
theorem own_stable (h h' : Heap) (v : Val) : deref h' (own h v) = deref h v := rfl

/-- … and it is the value that was there when it was copied. -/
theorem own_value (h : Heap) (v : Val) : deref h (own h v) = deref h v := rfl

/-- A view is NOT stable: recycling its buffer changes what the caller reads. -/
theorem view_unstable : ∃ (h h' : Heap) (v : Val), deref h' v ≠ deref h v :=
  ⟨fun _ => [1, 2, 3], fun _ => [9, 9, 9], .view 0 0 3, by decide⟩

/-- A handshake result all of whose parts are owned is unaffected by any later heap. -/
theorem owned_list_stable (h h' : Heap) (vs : List Val) :
    (vs.map (own h)).map (deref h') = vs.map (deref h) := by
  induction vs with
  | nil => rfl
  | cons v r ih => simp [own_stable, ih]

/-- Write side: masking a COPY leaves the caller's bytes as they were; masking in place does not. -/
def xorAll (k : Nat) (p : Bytes) : Bytes := p.map (· ^^^ k)
theorem copy_then_mask_leaves_caller (p : Bytes) (k : Nat) :
    let copy := p            -- copy(payload, p): a separate allocation with the same contents
    (xorAll k copy, p).2 = p := rfl

/-! ### classification of the regenerated ownership facts -/

def hasInfix : List Char → List Char → Bool
  | [], pat => pat.isEmpty
  | c :: cs, pat => pat.isPrefixOf (c :: cs) || hasInfix cs pat

def mentions (s pat : String) : Bool := hasInfix s.toList pat.toList

/-- A fact line that lets a value out: a return statement or an assignment to a result variable
    / result field. -/
def isResultSite (s : String) : Bool :=
  mentions s ": return " || mentions s ": assign ret " || mentions s ": assign want.Parameters" || mentions s "Reason:"

/-- … built from a viewing conversion. -/
def usesView (s : String) : Bool := mentions s "btsToString" || mentions s "strToBytes" || mentions s "Unsafe("

end Ws.C17
