/-
  C03 — Header and close-payload validity checks decide exactly the RFC 6455 rules.
-/
import WsVerif.Proofs.Check
namespace Ws.C03
open Ws Ws.Spec

/-- The header check accepts exactly when none of the eight rules it owns is broken. -/
theorem check_none_iff (h : Header) (s : Nat) (hop : h.op < 16) (hs : s < 256) :
    checkHeader h s = none ↔ ∀ r, ¬ Broken r h (stOf s) := by
  rw [checkHeader_eq_chkB h s hop hs]
  have := (chk_spec h.fin h.masked (stOf s).server (stOf s).client (stOf s).extended (stOf s).fragmented
    (h.rsv != 0) (decide (h.len > 125)) hop).1
  rw [← Option.isNone_iff_eq_none, this, List.all_eq_true]
  constructor
  · intro hall r hb
    have := hall r (by cases r <;> simp [allRules])
    rw [(broken_iff r h (stOf s)).mp hb] at this
    simp at this
  · intro hall r _
    have := hall r
    rw [broken_iff] at this
    simpa using this

/-- When it rejects, the error it reports names a rule that is actually broken. -/
theorem check_some_sound (h : Header) (s : Nat) (hop : h.op < 16) (hs : s < 256) (e : ProtoErr)
    (he : checkHeader h s = some e) : ∃ r, ruleOf e = some r ∧ Broken r h (stOf s) := by
  rw [checkHeader_eq_chkB h s hop hs] at he
  obtain ⟨r, h1, h2⟩ := (chk_spec _ _ _ _ _ _ _ _ hop).2 e he
  exact ⟨r, h1, (broken_iff r h (stOf s)).mpr h2⟩

/-! ### close payload -/

/-- 1000-1003, 1007-1011 and 3000-4999 with a valid UTF-8 reason are accepted. -/
theorem close_accepts (c : Nat) (reason : Bytes) (hc : closeOk c) (hr : wfUtf8 reason = true) :
    checkCloseFrameData c reason = none := by
  unfold closeOk at hc
  unfold checkCloseFrameData checkCloseWith codeIsNotUsed codeIsProtocolReserved codeIsProtocolSpec
    codeIsProtocolDefined codeIn
  rw [hr]
  have e1 : ¬ (0 ≤ c ∧ c ≤ 999) := by omega
  have e2 : c ≠ 1005 ∧ c ≠ 1006 ∧ c ≠ 1015 ∧ c ≠ 1004 := by omega
  rcases hc with h | h | h
  · have : c = 1000 ∨ c = 1001 ∨ c = 1002 ∨ c = 1003 := by omega
    rcases this with h | h | h | h <;> subst h <;> decide
  · have : c = 1007 ∨ c = 1008 ∨ c = 1009 ∨ c = 1010 ∨ c = 1011 := by omega
    rcases this with h | h | h | h | h <;> subst h <;> decide
  · have h3 : ¬ (c ≤ 2999) := by omega
    have h4 : ¬ (c ≤ 999) := by omega
    simp [e2.1, e2.2.1, e2.2.2.1, e2.2.2.2, h3, h4]

/-- Every other code below 5000 is refused (1012-1014, registered after the RFC, left open). -/
theorem close_refuses (c : Nat) (reason : Bytes) (hlt : c < 5000) (hn : ¬ closeOk c)
    (hopen : ¬ (1012 ≤ c ∧ c ≤ 1014)) : checkCloseFrameData c reason ≠ none := by
  unfold closeOk at hn
  unfold checkCloseFrameData checkCloseWith codeIsNotUsed codeIsProtocolReserved codeIsProtocolSpec
    codeIsProtocolDefined codeIn
  by_cases h1 : c ≤ 999
  · simp [h1]
  · by_cases h2 : c = 1005 ∨ c = 1006 ∨ c = 1015
    · rcases h2 with h | h | h <;> subst h <;> simp
    · by_cases h3 : c = 1004
      · subst h3; simp
      · have h4 : 1000 ≤ c ∧ c ≤ 2999 := by omega
        have h5 : c ≠ 1000 ∧ c ≠ 1001 ∧ c ≠ 1002 ∧ c ≠ 1003 ∧ c ≠ 1007 ∧ c ≠ 1008 ∧ c ≠ 1009
            ∧ c ≠ 1010 ∧ c ≠ 1011 ∧ c ≠ 1005 ∧ c ≠ 1006 ∧ c ≠ 1015 := by omega
        obtain ⟨a0, a1, a2, a3, a7, a8, a9, a10, a11, a5, a6, a15⟩ := h5
        simp [h1, h3, h4.1, h4.2, a0, a1, a2, a3, a7, a8, a9, a10, a11, a5, a6, a15]

/-- Only a valid UTF-8 reason is accepted, whatever the code. -/
theorem close_utf8 (c : Nat) (reason : Bytes) (h : checkCloseFrameData c reason = none) :
    wfUtf8 reason = true := by
  unfold checkCloseFrameData checkCloseWith at h
  cases hw : wfUtf8 reason
  · rw [hw] at h
    split at h <;> (try simp at h)
    split at h <;> (try simp at h)
    split at h <;> (try simp at h)
    split at h <;> simp at h
  · rfl

/-! ### close bodies -/

/-- Close bodies built by the library never panic, are at most 125 bytes and parse back to the
    same code and the reason cropped to fit. -/
theorem body_roundtrip (c : Nat) (hc : c < 65536) (reason : Bytes) :
    ∃ b, newCloseFrameBody c reason = some b ∧ b.length ≤ 125
      ∧ parseCloseFrameData b = (c, reason.take 123) := by
  unfold newCloseFrameBody putCloseFrameBody maxControlFramePayloadSize
  simp only
  have hcrop : (reason.take (min (125 - 2) reason.length)).length = min 123 reason.length := by
    rw [List.length_take]; omega
  have hnot : ¬ (List.replicate (min (2 + reason.length) 125) 0).length < 2 + (reason.take (min (125 - 2) reason.length)).length := by
    rw [hcrop, List.length_replicate]; omega
  rw [if_neg hnot]
  refine ⟨_, rfl, ?_, ?_⟩
  · have hr : (List.replicate (min (2 + reason.length) 125) 0).length = min (2 + reason.length) 125 :=
      List.length_replicate
    simp only [List.length_append, List.length_drop, hr, hcrop, putU16, List.length_cons, List.length_nil]
    omega
  · have hdrop : List.drop (2 + (reason.take (min (125 - 2) reason.length)).length)
        (List.replicate (min (2 + reason.length) 125) 0) = [] := by
      apply List.drop_of_length_le
      rw [List.length_replicate, hcrop]; omega
    rw [hdrop, List.append_nil]
    unfold parseCloseFrameData putU16
    have hm : c % 65536 = c := by omega
    simp only [hm, List.cons_append, List.nil_append, List.length_cons]
    rw [if_neg (by simp)]
    simp only [List.take_succ_cons, List.take_zero, List.drop_succ_cons, List.drop_zero, beVal, List.length_cons, List.length_nil]
    congr 1
    · omega
    · by_cases hl : reason.length ≤ 123
      · rw [Nat.min_eq_right (by omega), List.take_of_length_le (Nat.le_refl _), List.take_of_length_le hl]
      · rw [Nat.min_eq_left (by omega)]

/-- A payload shorter than 2 bytes parses as "no code". -/
theorem parse_short (p : Bytes) (h : p.length < 2) : parseCloseFrameData p = (0, []) := by
  simp [parseCloseFrameData, h]

/-- PutCloseFrameBody does not panic when the buffer accommodates code and reason. -/
theorem put_no_fault (p : Bytes) (c : Nat) (r : Bytes) (h : 2 + r.length ≤ p.length) :
    (putCloseFrameBody p c r).isSome = true := by
  unfold putCloseFrameBody; rw [if_neg (by omega)]; rfl

/-! Non-vacuity -/
example : checkHeader ⟨true, 0, 9, true, ⟨1, 2, 3, 4⟩, 125⟩ (stServer ||| stFragmented) = none := by decide
example : checkHeader ⟨false, 0, 9, true, ⟨1, 2, 3, 4⟩, 5⟩ stServer = some .controlNotFinal := by decide
example : checkCloseFrameData 1000 [0xC3, 0xA9] = none ∧ checkCloseFrameData 2999 [] = some .statusCodeUnknown
    ∧ checkCloseFrameData 4000 [0xC3] = some .invalidUTF8 := by decide

end Ws.C03
