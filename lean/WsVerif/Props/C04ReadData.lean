/-
  C04 / C07 — the `wsutil.ReadData` family (ReadClientData, ReadServerText, …) on an unfragmented message of
  a wanted type: the loop NextFrame → ioutil.ReadAll over the reader returns the frame's unmasked payload
  with its opcode and no error, leaves the transport at the first byte after the frame and writes nothing
  (no control frame was met, so the control handler did not run) — for every chunking; a text message is
  returned iff it is well-formed UTF-8, ErrInvalidUTF8 otherwise.
-/
import WsVerif.Props.C07ReadMessage
import WsVerif.Props.C04DiscardMsg
namespace Ws.C04
open Ws Ws.Spec Ws.RdProof Ws.RdText

/-- ioutil.ReadAll inside the only frame of a message, any OnIntermediate handler (it is never called). -/
theorem pull_final (cb : Option Callback) (fuel : Nat) :
    ∀ (r : Rd) (s : Src) (cx : Ctx) (acc : List Bytes) (wire rest : Bytes),
      InFrame r s wire rest → r.fragmented = false → (r.checkUTF8 = false ∨ r.utf8.valid = true) → mu s + 1 < fuel →
      ∃ chunks r' s', Rd.pull true 512 cb fuel r s cx acc = (acc.reverse ++ chunks, .eof, r', s', cx)
        ∧ chunks.flatten = plainOf r wire ∧ s'.bytes = rest := by
  induction fuel with
  | zero => intro r s cx acc wire rest _ _ _ hf; omega
  | succ n ih =>
    intro r s cx acc wire rest hin hnf hv hf
    obtain ⟨g, s1, hg, hb1, ht1, hwf1, hmu, hsame, hcase⟩ := read_inframe r s cx cb wire rest 512 hin (by decide) hv
    rw [Rd.pull]
    simp only [if_true]
    have hpad : ∀ b : Bytes, (b ++ List.replicate (b.length - b.length) 0).take b.length = b := by intro b; simp
    rcases hcase with ⟨hlt, hread⟩ | ⟨heq, hread⟩
    · have hlen : (plainOf r (wire.take g)).length = g := by rw [plainOf_length]; simp; omega
      rw [hread]
      simp only
      have hwpos : 0 < wire.length := by omega
      have hin' : InFrame (adv r g) s1 (wire.drop g) rest :=
        ⟨by simp [adv, hin.has], by simp [adv, hin.noU], hb1, by simp [adv, hin.n], hwf1, by simp [adv]; exact hin.mwf, ht1⟩
      obtain ⟨chunks, r', s', hp, hfl, hb'⟩ := ih (adv r g) s1 cx
        (if g = 0 then acc else (plainOf r (wire.take g) ++ List.replicate (g - (plainOf r (wire.take g)).length) 0).take g :: acc)
        (wire.drop g) rest hin' (by simpa [adv, Rd.fragmented] using hnf) (by simpa [adv] using hv) (by have := hmu hwpos; omega)
      rw [hp]
      by_cases hz : g = 0
      · subst hz
        refine ⟨chunks, r', s', by simp, ?_, hb'⟩
        rw [hfl]; simp [adv]
      · have hp2 : (plainOf r (wire.take g) ++ List.replicate (g - (plainOf r (wire.take g)).length) 0).take g = plainOf r (wire.take g) := by
          rw [hlen]; simp
          exact List.take_of_length_le (by omega)
        refine ⟨plainOf r (wire.take g) :: chunks, r', s', by simp [hz, hp2], ?_, hb'⟩
        simp only [List.flatten_cons, hfl]
        exact plainOf_split r wire g hg
    · subst heq
      have haf : afterFrame (adv r wire.length) = (some .eof, (adv r wire.length).reset) := by
        unfold afterFrame
        have : (adv r wire.length).fragmented = false := by simpa [adv, Rd.fragmented] using hnf
        simp [this]
      rw [hread, haf]
      simp only [List.take_length]
      have hlen : (plainOf r wire).length = wire.length := plainOf_length r wire
      by_cases hz : wire.length = 0
      · have hw : wire = [] := List.length_eq_zero_iff.mp hz
        subst hw
        refine ⟨[], (adv r ([] : Bytes).length).reset, s1, by simp, ?_, by simpa using hb1⟩
        unfold plainOf xorSpec; split <;> simp
      · have hp2 : (plainOf r wire ++ List.replicate (wire.length - (plainOf r wire).length) 0).take wire.length = plainOf r wire := by
          rw [hlen]; simp
          exact List.take_of_length_le (by omega)
        refine ⟨[plainOf r wire], (adv r wire.length).reset, s1, by simp [hz, hp2], by simp, by simpa using hb1⟩

/-- ioutil.ReadAll inside the only frame of a TEXT message, checking on. -/
theorem pull_final_text (cb : Option Callback) (fuel : Nat) :
    ∀ (σ : U8) (r : Rd) (s : Src) (cx : Ctx) (acc : List Bytes) (wire rest : Bytes),
      TM σ r → r.hasFrame = true → r.fragmented = false → InFrame (strip r) s wire rest → mu s + 1 < fuel →
      (u8Run σ (plainOf r wire) = .acc →
          ∃ chunks r' s', Rd.pull true 512 cb fuel r s cx acc = (acc.reverse ++ chunks, .eof, r', s', cx)
            ∧ chunks.flatten = plainOf r wire ∧ s'.bytes = rest)
      ∧ (u8Run σ (plainOf r wire) ≠ .acc → (Rd.pull true 512 cb fuel r s cx acc).2.1 = .utf8) := by
  induction fuel with
  | zero => intro σ r s cx acc wire rest _ _ _ _ hf; omega
  | succ n ih =>
    intro σ r s cx acc wire rest htm hhas hnf hin hf
    obtain ⟨g, s1, hg, hb1, ht1, hwf1, hmu, _, hcase⟩ := read_inframe (strip r) s cx cb wire rest 512 hin (by decide) (Or.inl rfl)
    have hwwf : Bytes.WF wire := wf_left (hin.bytes ▸ hin.wf)
    have hpo : ∀ w, plainOf (strip r) w = plainOf r w := fun _ => rfl
    rw [Rd.pull]
    simp only [if_true]
    rw [C07.read_has_cb r s cx _ cb hhas]
    rw [C07.read_has_cb (strip r) s cx _ cb hhas] at hcase
    rcases hcase with ⟨hlt, hread⟩ | ⟨heq, hread⟩
    · have hbwf : Bytes.WF (plainOf (strip r) (wire.take g)) :=
        C07.plainOf_wf (strip r) hin.mwf _ (fun x hx => hwwf x (List.mem_of_mem_take hx))
      obtain ⟨hnlen, hsim⟩ := tail_sim σ r s cx _ htm hhas _ _ _ _ _ _ hread hbwf
      have hsplit : plainOf r wire = plainOf r (wire.take g) ++ plainOf (adv r g) (wire.drop g) :=
        (plainOf_split r wire g hg).symm
      have hlen : (plainOf r (wire.take g)).length = g := by rw [plainOf_length]; simp; omega
      have hwpos : 0 < wire.length := by omega
      rcases hsim with ⟨a1, _, r', a3, a4, a5⟩ | ⟨a1, m, r', a3, _, _⟩
      · have htm' := a5 rfl
        rw [a3]
        simp only [hpo]
        have hr'has : r'.hasFrame = true := by
          have : (strip r').hasFrame = (adv (strip r) g).hasFrame := by rw [a4]
          simpa [strip, adv, hhas] using this
        have hr'nf : r'.fragmented = false := by
          have : (strip r').fragmented = (adv (strip r) g).fragmented := by rw [a4]
          simpa [strip, adv, Rd.fragmented] using this.trans (by simpa [strip, adv, Rd.fragmented] using hnf)
        have hin' : InFrame (strip r') s1 (wire.drop g) rest := by
          rw [a4]
          exact ⟨by simp [adv, hin.has], by simp [adv, hin.noU], hb1, by simp [adv, hin.n], hwf1, by simp [adv]; exact hin.mwf, ht1⟩
        have hpo' : plainOf r' (wire.drop g) = plainOf (adv r g) (wire.drop g) := by
          have : plainOf (strip r') (wire.drop g) = plainOf (adv (strip r) g) (wire.drop g) := by rw [a4]
          exact this
        have hih := ih (u8Run σ (plainOf r (wire.take g))) r' s1 cx
          (if g = 0 then acc else (plainOf r (wire.take g) ++ List.replicate (g - (plainOf r (wire.take g)).length) 0).take g :: acc)
          (wire.drop g) rest htm' hr'has hr'nf hin' (by have := hmu hwpos; omega)
        rw [hpo', ← u8Run_append, ← hsplit] at hih
        refine ⟨fun hacc => ?_, fun hna => hih.2 hna⟩
        obtain ⟨chunks, r'', s', hp, hfl, hb'⟩ := hih.1 hacc
        rw [hp]
        by_cases hz : g = 0
        · subst hz
          refine ⟨chunks, r'', s', by simp, ?_, hb'⟩
          rw [hfl]; simp [adv]
        · have hp2 : (plainOf r (wire.take g) ++ List.replicate (g - (plainOf r (wire.take g)).length) 0).take g = plainOf r (wire.take g) := by
            rw [hlen]; simp
            exact List.take_of_length_le (by omega)
          refine ⟨plainOf r (wire.take g) :: chunks, r'', s', by simp [hz, hp2], ?_, hb'⟩
          simp only [List.flatten_cons, hfl]
          exact plainOf_split r wire g hg
      · rw [a3]
        simp only [hpo] at a1 ⊢
        have hrej : u8Run σ (plainOf r (wire.take g)) = .rej := by
          rcases a1 with a1 | ⟨a1, _⟩
          · exact a1
          · exact absurd rfl a1
        refine ⟨fun hacc => ?_, fun _ => trivial⟩
        rw [hsplit, u8Run_append, hrej, u8Run_rej] at hacc
        cases hacc
    · subst heq
      have hbwf : Bytes.WF (plainOf (strip r) (wire.take wire.length)) :=
        C07.plainOf_wf (strip r) hin.mwf _ (fun x hx => hwwf x (List.mem_of_mem_take hx))
      have haf : (afterFrame (adv (strip r) wire.length)) = (some .eof, (adv (strip r) wire.length).reset) := by
        unfold afterFrame
        have : (adv (strip r) wire.length).fragmented = false := by simpa [strip, adv, Rd.fragmented] using hnf
        simp [this]
      rw [haf] at hread
      obtain ⟨hnlen, hsim⟩ := tail_sim σ r s cx _ htm hhas _ _ _ _ _ _ hread hbwf
      simp only [List.take_length, hpo] at hsim
      have hlen : (plainOf r wire).length = wire.length := plainOf_length r wire
      rcases hsim with ⟨_, a2, r', a3, _, _⟩ | ⟨a1, m, r', a3, _, _⟩
      · have hacc := a2 (by simp)
        rw [a3]
        simp only
        refine ⟨fun _ => ?_, fun hna => absurd hacc hna⟩
        by_cases hz : wire.length = 0
        · have hw : wire = [] := List.length_eq_zero_iff.mp hz
          subst hw
          refine ⟨[], r', s1, by simp, ?_, by simpa using hb1⟩
          unfold plainOf xorSpec; split <;> simp
        · have hp2 : (plainOf r wire ++ List.replicate (wire.length - (plainOf r wire).length) 0).take wire.length = plainOf r wire := by
            rw [hlen]; simp
            exact List.take_of_length_le (by omega)
          refine ⟨[plainOf r wire], r', s1, by simp [hz, hp2], by simp, by simpa using hb1⟩
      · rw [a3]
        simp only
        refine ⟨fun hacc => ?_, fun _ => trivial⟩
        rcases a1 with a1 | ⟨_, a1⟩
        · rw [a1] at hacc; cases hacc
        · exact absurd hacc a1

/-- **The ReadData family on an unfragmented non-text message of a wanted type.** -/
theorem readData_single (state want : Nat) (errText : ProtoErr → Bytes) (s : Src) (env : Env) (fuel : Nat)
    (f : WFrame) (rest : Bytes)
    (hst : state < 256) (hnf : stIs state stFragmented = false)
    (hok : f.OK) (hfin : f.h.fin = true) (hdata : opIsControl f.h.op = false) (hnt : f.h.op ≠ opText)
    (hwant : (f.h.op &&& want == 0) = false)
    (hacc : checkHeader f.h state = none)
    (hb : s.bytes = f.enc ++ rest) (hwf : Bytes.WF s.bytes) (htame : Src.Tame s) :
    ∃ s', readData state want errText s env (fuel + 1) = (f.plain, f.h.op, none, s', { env }) ∧ s'.bytes = rest := by
  have hbytes : s.bytes = rfcEncode f.h ++ (f.wire ++ rest) := by rw [hb]; simp [WFrame.enc]
  have hwt : Bytes.WF (f.wire ++ rest) := by rw [hbytes] at hwf; exact wf_append_right hwf
  obtain ⟨s1, hrh, hb1, ht1, hmu1⟩ := readHeader_ok f.h hok.hwf _ hwt s hbytes htame
  let rd : Rd := { state, checkUTF8 := true }
  have haccept : Accepts rd f.h := ⟨by simp [rd, hacc], by simp [rd]⟩
  have hfr0 : rd.fragmented = false := by simp [rd, Rd.fragmented, hnf]
  have hin : InFrame (enter rd f.h) s1 f.wire rest :=
    ⟨by simp [enter], by simp [enter, rd, hfr0, hnt], hb1, by simp [enter, hok.len], by rw [hb1]; exact hwt,
     by simp [enter]; exact hok.mwf, ht1⟩
  have hnf1 : (enter rd f.h).fragmented = false := by
    simp [enter, Rd.fragmented, hfin, rd, clear_not_fragmented state hst]
  unfold readData
  simp only
  generalize controlFrameHandler (stIs state stClient) errText false none = inter
  have hnext := nextFrame_data rd s s1 { env } (some inter) f.h hrh haccept rfl hdata
  have hnext' : ({ state, checkUTF8 := true } : Rd).nextFrame s { env } (some inter) = (some f.h, none, enter rd f.h, s1, { env }) := hnext
  obtain ⟨chunks, r', s', hp, hfl, hb'⟩ := pull_final (some inter) (pullFuel s1) (enter rd f.h) s1 { env } [] f.wire rest hin hnf1
    (Or.inr (by simp [enter, rd, Utf8Rd.valid]; rfl)) (by unfold pullFuel Src.fuel mu; omega)
  refine ⟨s', ?_, hb'⟩
  rw [readData.loop]
  simp only [hnext', hdata, Bool.false_eq_true, if_false, hwant]
  unfold readAllRd
  rw [hp]
  simp [hfl, plainOf, enter, WFrame.plain, rd]

/-- **The ReadData family on an unfragmented text message** (text wanted): the payload with no error iff it is
    well-formed UTF-8, ErrInvalidUTF8 otherwise. -/
theorem readData_single_text (state want : Nat) (errText : ProtoErr → Bytes) (s : Src) (env : Env) (fuel : Nat)
    (f : WFrame) (rest : Bytes)
    (hst : state < 256) (_hnf : stIs state stFragmented = false)
    (hok : f.OK) (hfin : f.h.fin = true) (htext : f.h.op = opText)
    (hwant : (opText &&& want == 0) = false)
    (hacc : checkHeader f.h state = none)
    (hb : s.bytes = f.enc ++ rest) (hwf : Bytes.WF s.bytes) (htame : Src.Tame s) :
    (wfUtf8 f.plain = true → ∃ s', readData state want errText s env (fuel + 1) = (f.plain, opText, none, s', { env }) ∧ s'.bytes = rest)
    ∧ (wfUtf8 f.plain = false → (readData state want errText s env (fuel + 1)).2.2.1 = some .utf8) := by
  have hdata : opIsControl f.h.op = false := by rw [htext]; rfl
  have hbytes : s.bytes = rfcEncode f.h ++ (f.wire ++ rest) := by rw [hb]; simp [WFrame.enc]
  have hwt : Bytes.WF (f.wire ++ rest) := by rw [hbytes] at hwf; exact wf_append_right hwf
  obtain ⟨s1, hrh, hb1, ht1, hmu1⟩ := readHeader_ok f.h hok.hwf _ hwt s hbytes htame
  let rd : Rd := { state, checkUTF8 := true }
  have haccept : Accepts rd f.h := ⟨by simp [rd, hacc], by simp [rd]⟩
  have htm : TM .acc (enter rd f.h) :=
    ⟨by simp [enter, rd], by simp [enter, rd]; rfl, by decide, fun _ => by simp [enter, rd, htext],
     fun hfr => by simp [enter, Rd.fragmented, hfin, rd, clear_not_fragmented state hst] at hfr, Or.inl (by simp [enter])⟩
  have hin : InFrame (strip (enter rd f.h)) s1 f.wire rest :=
    ⟨by simp [strip, enter], rfl, hb1, by simp [strip, enter, hok.len], by rw [hb1]; exact hwt,
     by simp [strip, enter]; exact hok.mwf, ht1⟩
  have hnf1 : (enter rd f.h).fragmented = false := by
    simp [enter, Rd.fragmented, hfin, rd, clear_not_fragmented state hst]
  have hpl : plainOf (enter rd f.h) f.wire = f.plain := by simp [plainOf, enter, WFrame.plain, rd]
  unfold readData
  simp only
  generalize controlFrameHandler (stIs state stClient) errText false none = inter
  have hnext := nextFrame_data rd s s1 { env } (some inter) f.h hrh haccept rfl hdata
  have hnext' : ({ state, checkUTF8 := true } : Rd).nextFrame s { env } (some inter) = (some f.h, none, enter rd f.h, s1, { env }) := hnext
  have hpull := pull_final_text (some inter) (pullFuel s1) .acc (enter rd f.h) s1 { env } [] f.wire rest htm (by simp [enter]) hnf1 hin
    (by unfold pullFuel Src.fuel mu; omega)
  rw [hpl] at hpull
  have hw' : (f.h.op &&& want == 0) = false := by rw [htext]; exact hwant
  constructor
  · intro hgood
    have hacc2 : u8Run .acc f.plain = .acc := by simpa [wfUtf8] using hgood
    obtain ⟨chunks, r', s', hp, hfl, hb'⟩ := hpull.1 hacc2
    refine ⟨s', ?_, hb'⟩
    rw [readData.loop]
    simp only [hnext', hdata, Bool.false_eq_true, if_false, hw']
    unfold readAllRd
    rw [hp]
    simp [hfl, htext]
  · intro hbad
    have hna : u8Run .acc f.plain ≠ .acc := by
      intro h; simp [wfUtf8, h] at hbad
    have hp := hpull.2 hna
    rw [readData.loop]
    simp only [hnext', hdata, Bool.false_eq_true, if_false, hw']
    unfold readAllRd
    rcases hP : Rd.pull true 512 (some inter) (pullFuel s1) (enter rd f.h) s1 { env } [] with ⟨c2, e2, r2, s2, cx2⟩
    rw [hP] at hp
    simp only at hp
    subst hp
    simp

/-- Discard over a message without interleaved control frames, ANY OnIntermediate handler (it is never called). -/
theorem discard_tail_nc (cb : Option Callback) (skip : Bool) (st maxF : Nat) (rest : Bytes) (cx : Ctx) (fs : List WFrame)
    (ht : Tail false skip st maxF fs) (hnc : ∀ f ∈ fs, opIsControl f.h.op = false) :
    ∀ (r : Rd) (s : Src) (wire : Bytes) (fuel : Nat),
      Common skip st maxF r s → r.state = st → r.rawN = wire.length → s.bytes = wire ++ (encodeFs fs ++ rest) →
      fs.length < fuel →
      ∃ r' s', r.discard s cx cb fuel = (none, r', s', cx) ∧ s'.bytes = rest ∧ Src.Tame s' := by
  induction ht with
  | opn h => cases h
  | last f hok hdata hfin hacc =>
    intro r s wire fuel hc hst hn hb hfuel
    match fuel, hfuel with
    | n + 2, _ =>
    obtain ⟨s1, hd, hb1, ht1, _, _⟩ := drainRaw_ok s.fuel r s wire (encodeFs [f] ++ rest) hb hn hc.tame (by unfold Src.fuel mu; omega)
    have hfr : ({ r with rawN := 0 } : Rd).fragmented = true := by simp [Rd.fragmented, hst, hc.stF]
    have hbytes : s1.bytes = rfcEncode f.h ++ (f.wire ++ rest) := by rw [hb1]; simp [encodeFs, WFrame.enc]
    have hwf1 : Bytes.WF s1.bytes := by rw [hb1]; exact wf_append_right (hb ▸ hc.wf)
    have hwt : Bytes.WF (f.wire ++ rest) := by rw [hbytes] at hwf1; exact wf_append_right hwf1
    obtain ⟨s2, hrh, hb2, ht2, _⟩ := readHeader_ok f.h hok.hwf _ hwt s1 hbytes ht1
    have hacc' : Accepts ({ r with rawN := 0 } : Rd) f.h := by
      unfold Accepts; simp only [hc.skip, hst, hc.maxF]; exact hacc
    have hnext := nextFrame_data ({ r with rawN := 0 } : Rd) s1 s2 cx cb f.h hrh hacc' (by simp [hc.ext]) hdata
    have hnf : (enter ({ r with rawN := 0 } : Rd) f.h).fragmented = false := by
      simp [enter, Rd.fragmented, hfin, hst, hc.stClr]
    obtain ⟨s', hdisc, hb', ht'⟩ := discard_final_frame (enter ({ r with rawN := 0 } : Rd) f.h) s2 cx cb n f.wire rest hnf hb2
      (by simp [enter, hok.len]) ht2
    refine ⟨(({ enter ({ r with rawN := 0 } : Rd) f.h with rawN := 0 } : Rd)).reset, s', ?_, hb', ht'⟩
    rw [Rd.discard]
    simp only [hd, hfr, Bool.not_true, Bool.false_eq_true, if_false, hnext, hdisc]
  | cont f fs hok hdata hfin hacc _ ih =>
    have ih := ih (fun g hg => hnc g (List.mem_cons_of_mem _ hg))
    intro r s wire fuel hc hst hn hb hfuel
    match fuel, hfuel with
    | n + 1, hfuel =>
    obtain ⟨s1, hd, hb1, ht1, _, _⟩ := drainRaw_ok s.fuel r s wire (encodeFs (f :: fs) ++ rest) hb hn hc.tame (by unfold Src.fuel mu; omega)
    have hfr : ({ r with rawN := 0 } : Rd).fragmented = true := by simp [Rd.fragmented, hst, hc.stF]
    have hbytes : s1.bytes = rfcEncode f.h ++ (f.wire ++ (encodeFs fs ++ rest)) := by rw [hb1]; simp [encodeFs, WFrame.enc]
    have hwf1 : Bytes.WF s1.bytes := by rw [hb1]; exact wf_append_right (hb ▸ hc.wf)
    have hwt : Bytes.WF (f.wire ++ (encodeFs fs ++ rest)) := by rw [hbytes] at hwf1; exact wf_append_right hwf1
    obtain ⟨s2, hrh, hb2, ht2, _⟩ := readHeader_ok f.h hok.hwf _ hwt s1 hbytes ht1
    have hacc' : Accepts ({ r with rawN := 0 } : Rd) f.h := by
      unfold Accepts; simp only [hc.skip, hst, hc.maxF]; exact hacc
    have hnext := nextFrame_data ({ r with rawN := 0 } : Rd) s1 s2 cx cb f.h hrh hacc' (by simp [hc.ext]) hdata
    have hc2 : Common skip st maxF (enter ({ r with rawN := 0 } : Rd) f.h) s2 :=
      common_of skip st maxF hc _ s2 (by simp [enter]) (by simp [enter]) (by simp [enter]) (by simp [enter]) ht2 (by rw [hb2]; exact hwt)
    obtain ⟨r', s', hdisc, hb', ht'⟩ := ih (enter ({ r with rawN := 0 } : Rd) f.h) s2 f.wire n hc2
      (by simp [enter, hfin, hst, hc.stSet]) (by simp [enter, hok.len]) hb2 (by simp at hfuel; omega)
    refine ⟨r', s', ?_, hb', ht'⟩
    rw [Rd.discard]
    simp only [hd, hfr, Bool.not_true, Bool.false_eq_true, if_false, hnext, hdisc]
  | ctl f fs hok hctl hacc _ ih =>
    have := hnc f (by simp)
    rw [hctl] at this; cases this


/-- Non-vacuity: ReadClientData (server side, text or binary wanted) on the masked text "é" and on a lone C3, and
    ReadClientBinary-like (binary only wanted) on a masked binary frame — each off two transport chunks. -/
example :
    readData 1 3 (fun _ => []) { chunks := [[0x81, 0x82, 0, 0], [0, 0, 0xc3, 0xa9, 0x88]], fin := .eof } {} 4
      = ([0xc3, 0xa9], 1, none, { chunks := [[0x88]], fin := .eof }, {})
    ∧ (readData 1 3 (fun _ => []) { chunks := [[0x81, 0x81, 0, 0], [0, 0, 0xc3, 0x88]], fin := .eof } {} 4).2.2.1 = some .utf8
    ∧ readData 1 2 (fun _ => []) { chunks := [[0x82, 0x82, 1, 2], [3, 4, 0x60, 0x60, 0x88]], fin := .eof } {} 4
      = ([0x61, 0x62], 2, none, { chunks := [[0x88]], fin := .eof }, {}) := by
  refine ⟨by decide, by decide, by decide⟩

end Ws.C04
