/-
  C15 — No input from the peer can make the library panic, hang or overrun a size limit.

  Every model function is a total Lean function: the modelled logic terminates on every input
  (this is what the kernel accepts when it accepts the definitions; the loops carry explicit fuel).
  Go panics are explicit outcomes of the models (`.fault`, `none`, "PANIC"); here they are proved
  unreachable where they are, and exhibited where they are not (F5):
    * ReadHeader asks for at most 2 + 12 bytes whatever length the header announces, and never
      reaches one of its index/slice panics (`hdrExtra_le`, `readHeader_no_fault`);
    * ReadFrame does not panic unless the announced length exceeds what make() accepts
      (`readFrame_no_fault_partial`) — and DOES for such a length (`F5_readFrame_makeslice`, a
      genuine defect of the unchanged tree, recorded as a known finding);
    * the payload cipher never panics (`cipher_total`);
    * with MaxFrameSize set, a frame announcing more is refused right after its header, the
      source being exactly where the header ended (C05.toolarge_before_payload, restated);
    * the header-value lexer always makes progress: every item it returns consumes at least one
      byte (`next_progress`), so no scan loops without consuming input.
-/
import WsVerif.Props.C05
import WsVerif.Props.C02
import WsVerif.Model.HttpHead
namespace Ws.C15
open Ws

/-- ReadHeader's second read is for at most 12 bytes (8 length + 4 mask). -/
theorem hdrExtra_le (h2 : Hdr2) (n : Nat) (h : hdrExtra h2 = .ok n) : n ≤ 12 := by
  unfold hdrExtra at h
  simp only at h
  split at h
  · injection h with h; subst h; split <;> omega
  · split at h
    · injection h with h; subst h; split <;> omega
    · split at h
      · injection h with h; subst h; split <;> omega
      · cases h

theorem readFull_ok_len (s s' : Src) (n : Nat) (p : Bytes) (h : s.readFull n = (.ok p, s')) : p.length = n := by
  unfold Src.readFull at h
  simp only at h
  split at h
  · rename_i hl
    injection h with h1 _; injection h1 with h1; rw [← h1]; exact hl
  · injection h with h1 _; cases h1

theorem hdrFinish_no_fault (h2 : Hdr2) (extra : Nat) (bts : Bytes) (he : hdrExtra h2 = .ok extra)
    (hl : bts.length = extra) : hdrFinish h2 bts ≠ .error .fault := by
  unfold hdrExtra at he
  simp only at he
  unfold hdrFinish
  simp only
  by_cases hm : h2.masked = true
  · simp only [hm, if_true] at he ⊢
    split at he
    · rename_i h126
      injection he with he
      have hn1 : ¬ h2.length = 126 := by omega
      have hn2 : ¬ h2.length = 127 := by omega
      simp only [hn1, hn2, if_false]
      match bts, hl with
      | [a, b, c, d], _ => simp [maskOf]
      | [], hl => simp at hl; omega
      | [_], hl => simp at hl; omega
      | [_, _], hl => simp at hl; omega
      | [_, _, _], hl => simp at hl; omega
      | _ :: _ :: _ :: _ :: _ :: _, hl => simp at hl; omega
    · split at he
      · rename_i _ h126
        injection he with he
        simp only [h126, if_true]
        have : ¬ bts.length < 2 := by omega
        simp only [this, if_false]
        match bts, hl with
        | a :: b :: c :: d :: e :: f :: t, _ => simp [maskOf]
        | [], hl => simp at hl; omega
        | [_], hl => simp at hl; omega
        | [_, _], hl => simp at hl; omega
        | [_, _, _], hl => simp at hl; omega
        | [_, _, _, _], hl => simp at hl; omega
        | [_, _, _, _, _], hl => simp at hl; omega
      · split at he
        · rename_i _ h126 h127
          injection he with he
          simp only [h126, if_false, h127, if_true]
          match bts, hl with
          | a :: b :: c :: d :: e :: f :: g :: h :: i :: j :: k :: l :: t, hl =>
            by_cases hmsb : (a &&& 0x80 != 0) = true <;> simp [hmsb, maskOf]
          | [], hl => simp at hl; omega
          | [_], hl => simp at hl; omega
          | [_, _], hl => simp at hl; omega
          | [_, _, _], hl => simp at hl; omega
          | [_, _, _, _], hl => simp at hl; omega
          | [_, _, _, _, _], hl => simp at hl; omega
          | [_, _, _, _, _, _], hl => simp at hl; omega
          | [_, _, _, _, _, _, _], hl => simp at hl; omega
          | [_, _, _, _, _, _, _, _], hl => simp at hl; omega
          | [_, _, _, _, _, _, _, _, _], hl => simp at hl; omega
          | [_, _, _, _, _, _, _, _, _, _], hl => simp at hl; omega
          | [_, _, _, _, _, _, _, _, _, _, _], hl => simp at hl; omega
        · cases he
  · have hm' : h2.masked = false := by simpa using hm
    simp only [hm', Bool.false_eq_true, if_false] at he ⊢
    split at he
    · have hn1 : ¬ h2.length = 126 := by omega
      have hn2 : ¬ h2.length = 127 := by omega
      simp [hn1, hn2]
    · split at he
      · rename_i _ h126
        injection he with he
        simp only [h126, if_true]
        have : ¬ bts.length < 2 := by omega
        simp [this]
      · split at he
        · rename_i _ h126 h127
          injection he with he
          simp only [h126, if_false, h127, if_true]
          match bts, hl with
          | a :: b :: c :: d :: e :: f :: g :: h :: t, hl =>
            by_cases hmsb : (a &&& 0x80 != 0) = true <;> simp [hmsb]
          | [], hl => simp at hl; omega
          | [_], hl => simp at hl; omega
          | [_, _], hl => simp at hl; omega
          | [_, _, _], hl => simp at hl; omega
          | [_, _, _, _], hl => simp at hl; omega
          | [_, _, _, _, _], hl => simp at hl; omega
          | [_, _, _, _, _, _], hl => simp at hl; omega
          | [_, _, _, _, _, _, _], hl => simp at hl; omega
        · cases he

/-- ws.ReadHeader never reaches one of its index/slice panics, for any input and any chunking. -/
theorem readHeader_no_fault (s : Src) : (readHeaderWs s).1 ≠ .error .fault := by
  unfold readHeaderWs
  split
  · simp
  · rename_i b0 b1 s1 _
    dsimp only
    cases he : hdrExtra (hdrFirst b0 b1) with
    | error e =>
      simp only
      have : e = .lengthUnexpected := by
        unfold hdrExtra at he
        simp only at he
        split at he
        · cases he
        · split at he
          · cases he
          · split at he
            · cases he
            · injection he with he; exact he.symm
      subst this; simp
    | ok extra =>
      simp only
      split
      · rename_i h0
        rw [h0] at he
        exact hdrFinish_no_fault _ 0 [] he rfl
      · split
        · simp
        · rename_i bts s2 hrd
          exact hdrFinish_no_fault _ extra bts he (readFull_ok_len _ _ _ _ hrd)
  · rename_i p s1 hne hrd
    exfalso
    have := readFull_ok_len _ _ _ _ hrd
    match p, this with
    | [a, b], _ => first | exact hne a b rfl | exact hne a b s1 rfl | exact hne a b rfl s1 rfl | exact hne a b rfl rfl

/-- PARTIAL (the full statement "ReadFrame never panics" is FALSE, see below): ReadFrame does not
    panic when the announced length is one make() accepts. -/
theorem readFrame_no_fault_partial (s : Src) (h : ∀ hdr s1, readHeaderWs s = (.ok hdr, s1) → hdr.len ≤ maxSliceLen) :
    (readFrame s).1 ≠ .error .fault := by
  unfold readFrame
  have hf := readHeader_no_fault s
  split
  · rename_i e s1 heq
    rw [heq] at hf
    simpa using hf
  · rename_i hdr s1 heq
    have := h hdr s1 heq
    rw [if_neg (by omega)]
    split
    · split <;> simp
    · simp

/-- F5 (genuine defect, known finding): a 10-byte header announcing 2^63-1 bytes makes ReadFrame
    panic in make() — no payload byte is needed. -/
theorem F5_readFrame_makeslice :
    (readFrame { chunks := [[0x82, 0x7f, 0x7f, 0xff, 0xff, 0xff, 0xff, 0xff, 0xff, 0xff]], fin := .eof }).1 = .error .fault := by
  rfl

/-- The payload cipher never panics on bytes. -/
theorem cipher_total (p : Bytes) (hp : Bytes.WF p) (m : Mask) (hm : m.WF) (off : Nat) : (cipher p m off).isSome = true := by
  rw [C02.cipher_eq_spec p hp m hm off]; rfl

/-- MaxFrameSize (restated from C05): the oversized frame is refused with the source exactly where
    its header ended — no payload byte has been pulled. -/
theorem toolarge_before_payload (r : Rd) (s s1 : Src) (cx : Ctx) (cb : Option Callback) (hdr : Header)
    (hh : readHeaderUtil s = (.ok hdr, s1))
    (hc : (if r.skipCheck then none else checkHeader hdr r.state) = none)
    (hmax : r.maxFrame > 0) (hbig : hdr.len > r.maxFrame) :
    r.nextFrame s cx cb = (some hdr, some .tooLarge, r, s1, cx) :=
  C05.toolarge_before_payload r s s1 cx cb hdr hh hc hmax hbig

/-! ### the header-value lexer makes progress -/

theorem skipSpace_le (p : Bytes) : (Lex.skipSpace p).length ≤ p.length := by
  fun_induction Lex.skipSpace p <;> simp_all <;> omega

/-- Every item the header-value lexer returns consumes at least one byte: scans cannot loop
    without consuming input. -/
theorem next_progress (l l' : Lex.Scanner) (it : Lex.Item) (h : l.next = (some it, l')) :
    l'.rest.length < l.rest.length := by
  unfold Lex.Scanner.next at h
  split at h
  · cases h
  · have hs := skipSpace_le l.rest
    split at h
    · cases h
    · rename_i c tl hsk
      rw [hsk] at hs
      simp only [List.length_cons] at hs
      split at h
      · split at h
        · cases h
        · injection h with _ h2; subst h2
          simp only [List.length_drop]; omega
      · split at h
        · injection h with _ h2; subst h2; simp only; omega
        · split at h
          · cases h
          · split at h
            · injection h with _ h2; subst h2; simp only; omega
            · split at h
              · rename_i htok
                injection h with _ h2; subst h2
                simp only [List.length_drop, List.length_cons]
                have : ((c :: tl).takeWhile Lex.isToken).length ≥ 1 := by
                  simp [List.takeWhile, htok]
                omega
              · cases h

end Ws.C15
