/-
  C01 — the decoder inside the streaming message reader keeps no state from one header to the next:
  whatever the reader has been through, `NextFrame` reports the header that the low-level decoder
  reads from the same bytes (and consumes the same bytes doing so when it stops at the header).
-/
import WsVerif.Props.C01
import WsVerif.Model.Reader
namespace Ws.C01
open Ws Ws.Spec

/-- For a reader without a receive extension (an extension rewrites the RSV bits it claims), in ANY
    state `r` — fragmented or not, after any history — `NextFrame` hands back exactly the header
    `ws.ReadHeader` decodes from the same source. -/
theorem nextFrame_reports_decoded (r : Rd) (hx : r.ext = false) (s : Src) (cx : Ctx) (cb : Option Callback)
    (h : Header) (s1 : Src) (hd : readHeaderWs s = (.ok h, s1)) :
    (r.nextFrame s cx cb).1 = some h := by
  have hu : readHeaderUtil s = (.ok h, s1) := by rw [readers_agree]; exact hd
  unfold Rd.nextFrame
  rw [hu]
  simp only [hx]
  split
  · rfl
  · split
    · rfl
    · simp only [Bool.false_eq_true, if_false]
      split
      · split
        · split <;> rfl
        · rfl
      · rfl

/-- … and when the low-level decoder fails, the reader reports no header at all. -/
theorem nextFrame_reports_failure (r : Rd) (s : Src) (cx : Ctx) (cb : Option Callback)
    (e : HdrErr) (s1 : Src) (hd : readHeaderWs s = (.error e, s1)) :
    (r.nextFrame s cx cb).1 = none ∧ (r.nextFrame s cx cb).2.2.2.1 = s1 := by
  have hu : readHeaderUtil s = (.error e, s1) := by rw [readers_agree]; exact hd
  unfold Rd.nextFrame
  rw [hu]
  cases e <;> simp

/-- Non-vacuity: a reader in the middle of a fragmented message, with a mask left over from an earlier
    frame in its fields, decoding an unmasked final text header "81 03": the premises hold and the
    reported header is the decoded one (unmasked, zero key). -/
example :
    readHeaderWs { chunks := [[0x81], [0x03, 0x61, 0x62, 0x63]], fin := .eof }
      = (.ok { fin := true, rsv := 0, op := 1, masked := false, mask := Mask.zero, len := 3 },
         { chunks := [[0x61, 0x62, 0x63]], fin := .eof })
    ∧ (Rd.nextFrame { state := stFragmented, skipCheck := true, masked := true, mask := ⟨1, 2, 3, 4⟩, opCode := 2 }
         { chunks := [[0x81], [0x03, 0x61, 0x62, 0x63]], fin := .eof } {} none).1
      = some { fin := true, rsv := 0, op := 1, masked := false, mask := Mask.zero, len := 3 } := by
  constructor <;> rfl

end Ws.C01
