/-
  M-ctl: wsutil/handler.go — ControlHandler (HandlePing / HandlePong / HandleClose,
  closeWithProtocolError) on top of ControlWriter; wsutil/writer.go:ControlWriter.Write/Flush.
  The handler's source is abstracted as `CtlSrc`: the payload bytes it will be able to read, how
  they are split into reads, and how the source ends (io.EOF after the bytes, or an error) — this
  covers both bytes.Reader (HandleControlMessage) and the message reader (ReadData / OnIntermediate).
-/
import WsVerif.Model.Writer
namespace Ws

/-- ControlWriter.Write: refuse when the running total would exceed the limit, else buffer. -/
def CtlWr.write (c : CtlWr) (e : Env) (p : Bytes) : Option (Nat × Option WErr × CtlWr × Env) :=
  if c.n + p.length > c.limit then some (0, some .ctlOverflow, c, e)
  else match c.w.write e p with
    | none => none
    | some (n, er, w', e') => some (n, er, { c with w := w', n := c.n + n }, e')

def CtlWr.flush (c : CtlWr) (e : Env) : Option (Option WErr × CtlWr × Env) :=
  match c.w.flush e with
  | none => none
  | some (er, w', e') => some (er, { c with w := w' }, e')

inductive CErr where
  | dest                       -- destination write failed
  | src (e : RdErr)            -- reading the payload failed (eof / ueof / fail)
  | srcOther (e : String)
  | proto (e : ProtoErr)
  | closed (code : Nat) (reason : Bytes)
  | notControl
  | overflow
  deriving DecidableEq, Repr

/-- What the handler can read: `chunks` as successive Read results, then `fin`
    (`.eof`: clean end; `.fail`: error). An `unexpected EOF` end is `ueofEnd`. -/
structure CtlSrc where
  chunks : List Bytes
  fin : Fin := .eof
  ueofEnd : Bool := false      -- the source reports io.ErrUnexpectedEOF instead of io.EOF
  writerTo : Bool := false     -- *bytes.Reader: io.Copy hands everything to ONE Write
  deriving DecidableEq, Repr, Inhabited

def CtlSrc.bytes (s : CtlSrc) : Bytes := s.chunks.flatten

def CtlSrc.endErr (s : CtlSrc) : Option RdErr :=
  match s.fin with
  | .fail => some .fail
  | .eof => if s.ueofEnd then some .ueof else none

def frameHeaderOnly (client : Bool) (op : Nat) : Bytes :=
  if client then [0x80 ||| op, 0x80, 0, 0, 0, 0] else [0x80 ||| op, 0]

/-- io.Copy(w, r) into a ControlWriter: one Write per read chunk (or one Write of everything for a
    WriterTo source), stopping at the first error. -/
def copyInto (c : CtlWr) (e : Env) : List Bytes → Option (Option WErr × CtlWr × Env)
  | [] => some (none, c, e)
  | ch :: rest =>
    if ch.isEmpty then copyInto c e rest else
    match c.write e ch with
    | none => none
    | some (_, some er, c', e') => some (some er, c', e')
    | some (_, none, c', e') => copyInto c' e' rest

def werrToC : WErr → CErr
  | .dest => .dest
  | .ctlOverflow => .overflow
  | _ => .srcOther "writer"

/-- ControlHandler.HandlePing. `srcCipher`: unmask what is read with the header's key (server
    side without DisableSrcCiphering). -/
def handlePing (client : Bool) (h : Header) (src : CtlSrc) (srcCipher : Bool) (e : Env) :
    Option (Option CErr × Env) :=
  if h.len = 0 then
    let r := e.dst.write (frameHeaderOnly client opPong)
    some (if r.1 then none else some .dest, { e with dst := r.2 })
  else
    match newControlWriterBuffer client opPong (h.len + wHeaderSize client h.len) with
    | none => none
    | some c =>
      -- bytes as the writer sees them (after optional unmasking, positions running across reads)
      let plain? : Option (List Bytes) :=
        if srcCipher then
          (src.chunks.foldl (fun (acc : Option (List Bytes × Nat)) ch =>
            match acc with
            | none => none
            | some (out, pos) => (cipher ch h.mask pos).map fun x => (out ++ [x], pos + ch.length)) (some ([], 0))).map (·.1)
        else some src.chunks
      match plain? with
      | none => none
      | some chunks =>
        let chunks := if src.writerTo then [chunks.flatten] else chunks
        match copyInto c e chunks with
        | none => none
        | some (some er, _, e') => some (some (werrToC er), e')
        | some (none, c', e') =>
          match src.endErr with
          | some re => some (some (.src re), e')
          | none =>
            match c'.flush e' with
            | none => none
            | some (er, _, e'') => some (er.map werrToC, e'')

/-- ControlHandler.HandlePong: drain the payload. -/
def handlePong (h : Header) (src : CtlSrc) (e : Env) : Option (Option CErr × Env) :=
  if h.len = 0 then some (none, e) else some (src.endErr.map .src, e)

/-- closeWithProtocolError(reason): a close frame with status 1002 and the error text. -/
def closeWithProtocolError (client : Bool) (text : Bytes) (e : Env) : Option Env :=
  match newCloseFrameBody 1002 text with
  | none => none
  | some body =>
    let h0 : Header := { fin := true, rsv := 0, op := opClose, masked := false, mask := Mask.zero, len := body.length }
    match sealFrame client h0 body e with
    | none => none
    | some (hb, pl, e1) =>
      let r1 := e1.dst.write hb
      if !r1.1 then some { e1 with dst := r1.2 }
      else some { e1 with dst := (r1.2.write pl).2 }

/-- ControlHandler.HandleClose. `errText` gives the Go error strings of the protocol errors
    (they become the reason of the 1002 reply). -/
def handleClose (client : Bool) (h : Header) (src : CtlSrc) (srcCipher : Bool) (e : Env)
    (errText : ProtoErr → Bytes) : Option (Option CErr × Env) :=
  if h.len = 0 then
    let r := e.dst.write (frameHeaderOnly client opClose)
    some (some (if r.1 then .closed 1005 [] else .dest), { e with dst := r.2 })
  else
    -- io.ReadFull(r, subp)
    let avail := src.bytes
    if avail.length < h.len then
      let re : RdErr := match src.endErr with
        | some .fail => .fail
        | _ => if avail.isEmpty ∧ ¬ src.ueofEnd then .eof else .ueof
      some (some (.src re), e)
    else
      let raw := avail.take h.len
      match (if srcCipher then cipher raw h.mask 0 else some raw) with
      | none => none
      | some subp =>
        let (code, reason) := parseCloseFrameData subp
        match checkCloseFrameData code reason with
        | some pe =>
          match closeWithProtocolError client (errText pe) e with
          | none => none
          | some e' => some (some (.proto pe), e')
        | none =>
          match newControlWriterBuffer client opClose (h.len + wHeaderSize client h.len) with
          | none => none
          | some c =>
            match c.write e (subp.take 2) with
            | none => none
            | some (_, some er, _, e') => some (some (werrToC er), e')
            | some (_, none, c', e') =>
              match c'.flush e' with
              | none => none
              | some (some er, _, e'') => some (some (werrToC er), e'')
              | some (none, _, e'') => some (some (.closed code reason), e'')

/-- ControlHandler.Handle. -/
def handleControl (client : Bool) (h : Header) (src : CtlSrc) (srcCipher : Bool) (e : Env)
    (errText : ProtoErr → Bytes) : Option (Option CErr × Env) :=
  if h.op = opPing then handlePing client h src srcCipher e
  else if h.op = opPong then handlePong h src e
  else if h.op = opClose then handleClose client h src srcCipher e errText
  else some (some .notControl, e)

end Ws
