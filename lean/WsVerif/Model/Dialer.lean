/-
  M-cli: dialer.go — Dialer.Upgrade (request writer, response parser), matchSelectedExtensions,
  hostport. The nonce drawn by initNonce and net/url's RequestURI()/Host are inputs of the model.
-/
import WsVerif.Model.Upgrader
namespace Ws
open Ws.Lex

structure DialCfg where
  readBuf : Nat := 0
  protocols : List Bytes := []
  extensions : List Opt := []
  header : Bytes := []            -- Dialer.Header bytes
  host : Bytes := []              -- Dialer.Host override
  onHeaderKey : Bytes := []       -- OnHeader rejects this canonical key
  onHeaderRej : Bool := false
  deriving Repr

/-- http.go:httpWriteUpgradeRequest. -/
def writeUpgradeRequest (cfg : DialCfg) (requestURI urlHost nonce : Bytes) : Bytes :=
  strBytes "GET " ++ requestURI ++ strBytes " HTTP/1.1\r\n"
    ++ strBytes "Host: " ++ (if cfg.host.isEmpty then urlHost else cfg.host) ++ crlf
    ++ strBytes "Upgrade: websocket\r\nConnection: Upgrade\r\nSec-WebSocket-Version: 13\r\n"
    ++ strBytes "Sec-WebSocket-Key: " ++ nonce ++ crlf
    ++ (if cfg.protocols.isEmpty then []
        else strBytes "Sec-WebSocket-Protocol: " ++ (cfg.protocols.intersperse (strBytes ", ")).flatten ++ crlf)
    ++ (if cfg.extensions.isEmpty then []
        else strBytes "Sec-WebSocket-Extensions: " ++ writeOptions cfg.extensions ++ crlf)
    ++ cfg.header ++ crlf

inductive DialErr where
  | io (f : Fin)
  | malformedResponse
  | badProtocol
  | status (code : Nat)
  | badUpgrade | badConnection | badSecAccept | badSubProtocol | badExtensions
  | onHeader
  deriving DecidableEq, Repr

/-- dialer.go:matchSelectedExtensions. -/
def matchSelectedExtensions (selected : Bytes) (wanted received : List Opt) : List Opt × Option DialErr :=
  if selected.isEmpty then (received, none) else
  let (calls, ok) := scanOptionsCalls selected
  let opts := groupOptions calls
  let rec go (os : List Opt) (received : List Opt) : List Opt × Bool :=
    match os with
    | [] => (received, true)
    | o :: rest =>
      match wanted.find? (fun w => w.name == o.name) with
      | some w => go rest (received ++ [{ w with params := o.params }])
      | none => (received, false)
  let (rcv, allMatch) := go opts received
  if !allMatch then (rcv, some .badExtensions)
  else if !ok then (rcv, some .malformedResponse)
  else if opts.isEmpty then (rcv, some .badExtensions)
  else (rcv, none)

def dSeenUpgrade : Nat := 1
def dSeenConnection : Nat := 2
def dSeenSecAccept : Nat := 4

/-- Dialer.Upgrade after the request was flushed: parse the response from the connection.
    Returns the handshake, the error, and the reader state (buffered bytes + rest of the source)
    — what stays readable "through the returned buffer followed by the connection". -/
def dialerUpgrade (cfg : DialCfg) (nonce : Bytes) (src : Src) : Handshake × Option DialErr × Bufio :=
  let b0 : Bufio := { cap := max 16 (if cfg.readBuf = 0 then 4096 else cfg.readBuf), src }
  match readLine b0 with
  | (_, some f, b1) => ({}, some (.io f), b1)
  | (sl, none, b1) =>
    let (proto, status, _) := bsplit3 sl 32
    match httpParseVersion proto with
    | none => ({}, some .malformedResponse, b1)
    | some (major, minor) =>
      match asciiToInt status with
      | none => ({}, some .malformedResponse, b1)
      | some st =>
        if major ≠ 1 ∨ minor < 1 then ({}, some .badProtocol, b1)
        else if st ≠ 101 then ({}, some (.status st), b1)
        else
          let rec loop (fuel : Nat) (b : Bufio) (hs : Handshake) (seen : Nat) : Handshake × Option DialErr × Bufio × Nat :=
            match fuel with
            | 0 => (hs, some .malformedResponse, b, seen)
            | fuel + 1 =>
              match readLine b with
              | (_, some f, b') => (hs, some (.io f), b', seen)
              | (line, none, b') =>
                if line.isEmpty then (hs, none, b', seen)
                else match httpParseHeaderLine line with
                  | none => (hs, some .malformedResponse, b', seen)
                  | some (k, v) =>
                    if k = strBytes "Upgrade" then
                      if equalFold v (strBytes "websocket") then loop fuel b' hs (seen ||| dSeenUpgrade)
                      else (hs, some .badUpgrade, b', seen)
                    else if k = strBytes "Connection" then
                      if equalFold v (strBytes "Upgrade") then loop fuel b' hs (seen ||| dSeenConnection)
                      else (hs, some .badConnection, b', seen)
                    else if k = strBytes "Sec-Websocket-Accept" then
                      if v.length = 28 ∧ v = Spec.acceptOf nonce then loop fuel b' hs (seen ||| dSeenSecAccept)
                      else (hs, some .badSecAccept, b', seen)
                    else if k = strBytes "Sec-Websocket-Protocol" then
                      match cfg.protocols.find? (fun w => w == v) with
                      | some w => if w.isEmpty then (hs, some .badSubProtocol, b', seen) else loop fuel b' { hs with protocol := w } seen
                      | none => (hs, some .badSubProtocol, b', seen)
                    else if k = strBytes "Sec-Websocket-Extensions" then
                      match matchSelectedExtensions v cfg.extensions hs.extensions with
                      | (xs, none) => loop fuel b' { hs with extensions := xs } seen
                      | (xs, some e) => ({ hs with extensions := xs }, some e, b', seen)
                    else if cfg.onHeaderRej ∧ k = cfg.onHeaderKey then (hs, some .onHeader, b', seen)
                    else loop fuel b' hs seen
          match loop (src.bytes.length + 4) b1 {} 0 with
          | (hs, some e, b', _) => (hs, some e, b')
          | (hs, none, b', seen) =>
            if seen ≠ 7 then
              (hs, some (if seen &&& dSeenUpgrade = 0 then .badUpgrade
                         else if seen &&& dSeenConnection = 0 then .badConnection else .badSecAccept), b')
            else (hs, none, b')

/-- dialer.go:hostport. -/
def hostport (host : Bytes) (defaultPort : Bytes) : Bytes × Bytes :=
  let colon := (host.reverse.idxOf? 58).map (fun i => host.length - 1 - i)
  let bracket := host.idxOf? 93
  match colon with
  | some c =>
    if (match bracket with | some b => decide (c > b) | none => true) then (host.take c, host) else (host, host ++ defaultPort)
  | none => (host, host ++ defaultPort)

end Ws
